#!/usr/bin/env bash
# mut.sh <worktree> <prop> <file> <python-regex-old> <new>   : apply one mutation in a scratch worktree, run the quick check, revert.
WT=$1; PROP=$2; FILE=$3; OLD=$4; NEW=$5
cd "$WT" || exit 9
python3 - "$FILE" "$OLD" "$NEW" <<'PY' || { echo "MUTATION-NOT-APPLIED"; exit 9; }
import sys,re
f,old,new=sys.argv[1:4]
s=open(f).read()
n=len(re.findall(old,s))
if n<1: sys.exit(1)
open(f,'w').write(re.sub(old,new,s,count=1))
PY
cd /verif
VERIF_REPO=$WT timeout 1500 ./check $PROP ${MUT_ARGS:-} > /tmp/mut.$$.log 2>&1; rc=$?
grep -m1 "VERIF-VIOLATION\|\[rapid\] panic\|\[rapid\] failed" /tmp/mut.$$.log | cut -c1-300
grep "^VIOLATION\|^OK\|inconclusive\|build failed" /tmp/mut.$$.log | head -3
echo "rc=$rc"
rm -f /tmp/mut.$$.log /verif/replays/$PROP/s[0-9]*-* /verif/replays/$PROP/last-violation*
git -C "$WT" checkout -- .
