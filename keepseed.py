#!/usr/bin/env python3
"""keepseed.py <seed-out dir> <Cxx> <detected:yes|no|after-strengthening> <note...> : copy a confirmed seeded change into /verif/seeded/Cxx[-n]/"""
import json, os, shutil, sys, glob
src, prop, detected = sys.argv[1], sys.argv[2], sys.argv[3]
note = " ".join(sys.argv[4:])
base = os.path.join('/verif/seeded', prop)
dst = base
n = 1
while os.path.exists(dst):
    n += 1
    dst = "%s-%d" % (base, n)
os.makedirs(dst)
for f in os.listdir(src):
    if f.endswith('.tmp'): continue
    shutil.copy(os.path.join(src, f), dst)
mp = os.path.join(dst, 'meta.json')
try:
    meta = json.load(open(mp))
except Exception:
    meta = {}
meta.setdefault('property', prop)
meta['breaks_property'] = prop
meta['coordinator_confirmation'] = {
    "ran": "seedcheck.sh: git apply patch.diff in a scratch worktree of /repo HEAD; go build ./...; go test of the touched packages (pass); demonstration with the patch (fails) and without it (passes); VERIF_REPO=<worktree> ./check %s (quick tier, seed 1)" % prop,
    "detected_by_check": detected,
    "note": note,
}
json.dump(meta, open(mp, 'w'), indent=1)
print("kept", dst)
