#!/usr/bin/env bash
# seedbatch.sh <worktree> <log> "<sN Cxx>" ... : evaluate several seeded changes one after the other
WT=$1; LOG=$2; shift 2
{
  for spec in "$@"; do
    set -- $spec
    echo "=================== $1 $2"
    /verif/seedcheck.sh /tmp/seed-out/$1/$2 $2 "$WT"
  done
  echo ALLDONE
} > "$LOG" 2>&1
