# Per-property driver configuration lives in props.d/Cnn.json (one file per property, so that
# checks can be added independently). MANIFEST.json is generated from the same files by
# gen_manifest.py.
import glob, json, os

PROPS = {}
for _f in sorted(glob.glob(os.path.join(os.path.dirname(os.path.abspath(__file__)), "props.d", "C*.json"))):
    PROPS[os.path.basename(_f)[:-5]] = json.load(open(_f))
