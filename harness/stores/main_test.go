package stores

import (
	"os"
	"testing"

	"github.com/rs/zerolog"

	"verifharness/internal/ev"
)

func TestMain(m *testing.M) {
	zerolog.SetGlobalLevel(zerolog.Disabled) // the code under test logs every rejected call
	code := m.Run()
	ev.Flush()
	os.Exit(code)
}
