package stores

import (
	"fmt"
	"math"
	"sort"
	"testing"

	sdkmath "cosmossdk.io/math"
	sdk "github.com/cosmos/cosmos-sdk/types"
	fixtypes "github.com/lavanet/lava/v5/x/fixationstore/types"
	timertypes "github.com/lavanet/lava/v5/x/timerstore/types"
	"pgregory.net/rapid"

	"verifharness/internal/ev"
	"verifharness/internal/kv"
)

// ---- C14: fixation store behaves like a versioned, ref-counted map ---------------------------
//
// Reference model (DESIGN.md Appendix A.1), written from the documented contract. The model never
// garbage-collects: it keeps every version ever created and decides visibility from
// (refs, staleAt, life.deleteAt) only.

const inf = uint64(math.MaxUint64)

type fver struct {
	block     uint64
	data      int64
	refs      int
	staleAt   uint64
	life      int
	holds     int  // references handed out by Get and not yet Put
	latestRef bool // still holds the extra "latest or future" reference
	gone      bool // cancelled / trimmed future version
}

type fidx struct {
	vers  []*fver
	lives []uint64 // deleteAt per life (inf = none)
	done  []bool   // life's delete already took effect in the model
}

type fixWorld struct {
	env   *kv.Env
	fs    *fixtypes.FixationStore
	ts    *timertypes.TimerStore
	now   uint64
	unix  int64
	stale uint64
	idx   map[string]*fidx
	ops   []string
	// evidence flags
	futureMatured, futureDelMatured, staleElapsed, refZero bool
}

var fixIndices = []string{"a", "ab", "b"}

func coin(n int64) *sdk.Coin { c := sdk.NewCoin("utest", sdkmath.NewInt(n)); return &c }

func (w *fixWorld) ix(name string) *fidx {
	x, ok := w.idx[name]
	if !ok {
		x = &fidx{}
		w.idx[name] = x
	}
	return x
}

// active life index or -1
func (x *fidx) activeLife(now uint64) int {
	n := len(x.lives)
	if n == 0 || x.lives[n-1] <= now {
		return -1
	}
	return n - 1
}

func (x *fidx) lifeVers(life int) []*fver {
	var out []*fver
	for _, v := range x.vers {
		if v.life == life && !v.gone {
			out = append(out, v)
		}
	}
	sort.Slice(out, func(i, j int) bool { return out[i].block < out[j].block })
	return out
}

// cur = matured version with the largest block <= now in the life
func (x *fidx) cur(life int, now uint64) *fver {
	var c *fver
	for _, v := range x.lifeVers(life) {
		if v.block <= now {
			c = v
		}
	}
	return c
}

func (w *fixWorld) dropLatestRef(v *fver) {
	if !v.latestRef {
		return
	}
	v.latestRef = false
	w.dropRef(v)
}

func (w *fixWorld) dropRef(v *fver) {
	v.refs--
	if v.refs == 0 {
		v.staleAt = w.now + w.stale
		w.refZero = true
	}
}

// normalize applies the time-driven rules at the current block: matured versions supersede older
// ones; a delete that became effective removes the latest reference.
func (w *fixWorld) normalize() {
	for _, name := range fixIndices {
		x, ok := w.idx[name]
		if !ok {
			continue
		}
		for life := range x.lives {
			if x.done[life] {
				continue
			}
			c := x.cur(life, w.now)
			for _, v := range x.lifeVers(life) {
				if v.block <= w.now && v != c {
					w.dropLatestRef(v)
				}
			}
			if x.lives[life] <= w.now {
				if c != nil {
					w.dropLatestRef(c)
				}
				x.done[life] = true
			}
		}
	}
}

func (w *fixWorld) visible(v *fver) bool {
	return !v.gone && !(v.refs == 0 && v.staleAt <= w.now)
}

// modelFind returns the nearest-no-later visible version.
func (w *fixWorld) modelFind(name string, q uint64) (*fver, bool) {
	x, ok := w.idx[name]
	if !ok {
		return nil, false
	}
	var v *fver
	for _, c := range x.vers {
		if c.gone || c.block > q {
			continue
		}
		if v == nil || c.block > v.block {
			v = c
		}
	}
	if v == nil {
		return nil, false
	}
	if x.lives[v.life] <= q {
		return nil, false
	}
	if !w.visible(v) {
		return nil, false
	}
	return v, true
}

func (w *fixWorld) modelGet(name string) (*fver, bool) {
	x, ok := w.idx[name]
	if !ok {
		return nil, false
	}
	life := x.activeLife(w.now)
	if life < 0 {
		return nil, false
	}
	c := x.cur(life, w.now)
	if c == nil {
		return nil, false
	}
	return c, true
}

func (w *fixWorld) fail(t *rapid.T, format string, args ...any) {
	t.Fatalf("%s", ev.Violation("C14", "%s\nstale period=%d now=%d\nops: %v", fmt.Sprintf(format, args...), w.stale, w.now, w.ops))
}

// queryBlocks: every boundary that matters for nearest-no-later lookups of an index: each
// version block and delete block with its neighbours, the current block and a few beyond.
func (w *fixWorld) queryBlocks(name string) []uint64 {
	set := map[uint64]bool{0: true, w.now: true, w.now + 1: true, w.now + 8: true}
	if w.now > 0 {
		set[w.now-1] = true
	}
	if x, ok := w.idx[name]; ok {
		add := func(b uint64) {
			if b == inf {
				return
			}
			set[b], set[b+1] = true, true
			if b > 0 {
				set[b-1] = true
			}
		}
		for _, v := range x.vers {
			add(v.block)
		}
		for _, d := range x.lives {
			add(d)
		}
	}
	out := make([]uint64, 0, len(set))
	for q := range set {
		out = append(out, q)
	}
	sort.Slice(out, func(i, j int) bool { return out[i] < out[j] })
	return out
}

func (w *fixWorld) compare(t *rapid.T) {
	c := ev.For("C14")
	ctx := w.env.Ctx
	for _, name := range fixIndices {
		for _, q := range w.queryBlocks(name) {
			var got sdk.Coin
			blk, _, _, found := w.fs.FindEntryDetailed(ctx, name, q, &got)
			mv, mfound := w.modelFind(name, q)
			c.Clause("find-equals-model")
			if found != mfound {
				w.fail(t, "Find(%q,%d): store found=%v (block %d) model found=%v", name, q, found, blk, mfound)
			}
			if found && (blk != mv.block || got.Amount.Int64() != mv.data) {
				w.fail(t, "Find(%q,%d): store (block %d, data %s) model (block %d, data %d)", name, q, blk, got.Amount, mv.block, mv.data)
			}
		}
		// Get on a shadow context so that the comparison takes no reference
		cctx, _ := ctx.CacheContext()
		var got sdk.Coin
		found := w.fs.GetEntry(cctx, name, &got)
		mv, mfound := w.modelGet(name)
		c.Clause("get-equals-model")
		if found != mfound {
			w.fail(t, "Get(%q): store found=%v model found=%v", name, found, mfound)
		}
		if found && got.Amount.Int64() != mv.data {
			w.fail(t, "Get(%q): store data %s model (block %d data %d)", name, got.Amount, mv.block, mv.data)
		}
		// versions are garbage-collected only once invisible
		if x, ok := w.idx[name]; ok {
			all := map[uint64]bool{}
			for _, b := range w.fs.GetAllEntryVersions(ctx, name) {
				all[b] = true
			}
			for _, v := range x.vers {
				if w.visible(v) {
					c.Clause("visible-version-not-collected")
					if !w.fs.HasEntry(ctx, name, v.block) || !all[v.block] {
						w.fail(t, "version (%q,%d) is visible in the model (refs %d staleAt %d) but gone from the store", name, v.block, v.refs, v.staleAt)
					}
				}
			}
			if life := x.activeLife(w.now); life >= 0 && len(x.lifeVers(life)) > 0 {
				c.Clause("live-index-listed")
				ok := false
				for _, s := range w.fs.GetAllEntryIndices(ctx) {
					if s == name {
						ok = true
					}
				}
				if !ok {
					w.fail(t, "index %q is live in the model but not listed by GetAllEntryIndices", name)
				}
			}
		}
	}
}

func (w *fixWorld) step() {
	w.now++
	w.unix += 5
	ctx := w.env.At(int64(w.now), w.unix)
	w.ts.Tick(ctx)
	// evidence flags before normalising
	for _, x := range w.idx {
		for life, d := range x.lives {
			if d == w.now && !x.done[life] {
				w.futureDelMatured = true
			}
		}
		for _, v := range x.vers {
			if !v.gone && v.block == w.now && v.latestRef && v.refs > 0 {
				// a version created as future that matures now
				w.futureMatured = true
			}
			if !v.gone && v.refs == 0 && v.staleAt == w.now {
				w.staleElapsed = true
			}
		}
	}
	w.normalize()
}

func propC14(t *rapid.T) {
	c := ev.For("C14")
	env := kv.New()
	w := &fixWorld{env: env, now: 10, unix: 1_700_000_000, idx: map[string]*fidx{}}
	w.stale = uint64(rapid.IntRange(2, 10).Draw(t, "stalePeriod"))
	w.ts = timertypes.NewTimerStore(env.Key, env.Cdc, "verif_fix")
	w.fs = fixtypes.NewFixationStore(env.Key, env.Cdc, "verif_fix", w.ts, func(sdk.Context) uint64 { return w.stale })
	ctx := env.At(int64(w.now), w.unix)
	w.fs.Init(ctx, *fixtypes.DefaultGenesis())
	nData := int64(0)

	pickIdx := func(t *rapid.T) string { return rapid.SampledFrom(fixIndices).Draw(t, "index") }

	t.Repeat(map[string]func(*rapid.T){
		"append": func(t *rapid.T) {
			name := pickIdx(t)
			x := w.ix(name)
			life := x.activeLife(w.now)
			nData++
			var b uint64
			kind := rapid.SampledFrom([]string{"now", "now", "future", "future", "past", "same"}).Draw(t, "appendKind")
			var cur *fver
			if life >= 0 {
				cur = x.cur(life, w.now)
			}
			switch kind {
			case "now":
				b = w.now
			case "future":
				b = w.now + uint64(rapid.IntRange(1, 6).Draw(t, "ahead"))
			case "past":
				if cur == nil || cur.block >= w.now {
					t.Skip("no room for a past append")
				}
				b = uint64(rapid.Uint64Range(cur.block, w.now-1).Draw(t, "pastBlock"))
			case "same":
				// overwrite the data of the latest or of a future version
				var cands []uint64
				if life >= 0 {
					for _, v := range x.lifeVers(life) {
						if v == cur || v.block > w.now {
							cands = append(cands, v.block)
						}
					}
				}
				if len(cands) == 0 {
					t.Skip("nothing to overwrite")
				}
				b = rapid.SampledFrom(cands).Draw(t, "sameBlock")
			}
			if life < 0 {
				// new life: only current/future appends, and not on a block still occupied by a dead life
				if b < w.now {
					t.Skip("past append into a dead index")
				}
			}
			for _, v := range x.vers {
				if !v.gone && v.block == b && v.life != life {
					t.Skip("block occupied by a version of a deleted life")
				}
			}
			wantErr := life >= 0 && x.lives[life] != inf && b >= x.lives[life]
			w.ops = append(w.ops, fmt.Sprintf("append(%s,%d,data=%d)", name, b, nData))
			err := w.fs.AppendEntry(w.env.Ctx, name, b, coin(nData))
			c.Clause("append-outcome")
			if wantErr {
				if err == nil {
					w.fail(t, "append(%q,%d) on or beyond the pending delete at %d succeeded", name, b, x.lives[life])
				}
				return
			}
			if err != nil {
				w.fail(t, "legal append(%q,%d) failed: %v", name, b, err)
			}
			if life < 0 {
				x.lives = append(x.lives, inf)
				x.done = append(x.done, false)
				life = len(x.lives) - 1
			}
			for _, v := range x.lifeVers(life) {
				if v.block == b {
					v.data = nData
					return
				}
			}
			x.vers = append(x.vers, &fver{block: b, data: nData, refs: 1, staleAt: inf, life: life, latestRef: true})
			w.normalize()
		},
		"modify": func(t *rapid.T) {
			name := pickIdx(t)
			q := uint64(rapid.Uint64Range(0, w.now+8).Draw(t, "q"))
			v, ok := w.modelFind(name, q)
			if !ok {
				t.Skip("nothing visible")
			}
			nData++
			w.ops = append(w.ops, fmt.Sprintf("modify(%s,%d,data=%d)", name, v.block, nData))
			w.fs.ModifyEntry(w.env.Ctx, name, v.block, coin(nData))
			v.data = nData
		},
		"get": func(t *rapid.T) {
			name := pickIdx(t)
			w.ops = append(w.ops, fmt.Sprintf("get(%s)", name))
			var got sdk.Coin
			found := w.fs.GetEntry(w.env.Ctx, name, &got)
			mv, mfound := w.modelGet(name)
			c.Clause("get-equals-model")
			if found != mfound {
				w.fail(t, "Get(%q): store found=%v model found=%v", name, found, mfound)
			}
			if found {
				if got.Amount.Int64() != mv.data {
					w.fail(t, "Get(%q): store data %s model data %d (block %d)", name, got.Amount, mv.data, mv.block)
				}
				mv.refs++
				mv.holds++
			}
		},
		"put": func(t *rapid.T) {
			name := pickIdx(t)
			x := w.ix(name)
			var cands []*fver
			for _, v := range x.vers {
				if !v.gone && v.holds > 0 {
					cands = append(cands, v)
				}
			}
			if len(cands) == 0 {
				t.Skip("no reference held")
			}
			sort.Slice(cands, func(i, j int) bool { return cands[i].block < cands[j].block })
			v := cands[rapid.IntRange(0, len(cands)-1).Draw(t, "held")]
			w.ops = append(w.ops, fmt.Sprintf("put(%s,%d)", name, v.block))
			w.fs.PutEntry(w.env.Ctx, name, v.block)
			v.holds--
			w.dropRef(v)
		},
		"cancelFuture": func(t *rapid.T) {
			name := pickIdx(t)
			x := w.ix(name)
			life := x.activeLife(w.now)
			if life < 0 || x.lives[life] != inf {
				t.Skip("no active life, or a delete is pending (cancelling the version that carries the delete marker is outside the documented contract)")
			}
			var cands []*fver
			for _, v := range x.lifeVers(life) {
				if v.block > w.now {
					cands = append(cands, v)
				}
			}
			if len(cands) == 0 {
				t.Skip("no future version")
			}
			v := cands[rapid.IntRange(0, len(cands)-1).Draw(t, "future")]
			w.ops = append(w.ops, fmt.Sprintf("cancelFuture(%s,%d)", name, v.block))
			w.fs.PutEntry(w.env.Ctx, name, v.block)
			v.gone = true
			if len(x.lifeVers(life)) == 0 {
				// the life never had a version: forget it
				x.lives[life] = 0
				x.done[life] = true
			}
		},
		"del": func(t *rapid.T) {
			name := pickIdx(t)
			x := w.ix(name)
			life := x.activeLife(w.now)
			ahead := uint64(rapid.SampledFrom([]int{0, 0, 1, 2, 4}).Draw(t, "delAhead"))
			d := w.now + ahead
			if life < 0 || x.cur(life, w.now) == nil {
				t.Skip("only indices with a current version are deleted")
			}
			if x.lives[life] != inf {
				t.Skip("a delete is already pending (a second delete is outside the documented contract)")
			}
			w.ops = append(w.ops, fmt.Sprintf("del(%s,%d)", name, d))
			err := w.fs.DelEntry(w.env.Ctx, name, d)
			c.Clause("del-outcome")
			if err != nil {
				w.fail(t, "legal del(%q,%d) failed: %v", name, d, err)
			}
			x.lives[life] = d
			for _, v := range x.lifeVers(life) {
				if v.block > w.now && v.block >= d {
					v.gone = true
				}
			}
			w.normalize()
		},
		"advance": func(t *rapid.T) {
			n := rapid.SampledFrom([]int{1, 1, 1, 2, 3, 5, 12}).Draw(t, "blocks")
			w.ops = append(w.ops, fmt.Sprintf("advance(%d)", n))
			for i := 0; i < n; i++ {
				w.step()
				if i < n-1 && i%3 == 0 {
					w.compare(t)
				}
			}
		},
		"": func(t *rapid.T) { w.compare(t) },
	})
	nontrivial := (w.futureMatured || w.futureDelMatured) && w.refZero && w.staleElapsed
	var classes []string
	for name, b := range map[string]bool{"future-version-matured": w.futureMatured, "future-delete-matured": w.futureDelMatured,
		"refcount-reached-zero": w.refZero, "stale-period-elapsed": w.staleElapsed} {
		if b {
			classes = append(classes, name)
		}
	}
	sort.Strings(classes)
	c.Case(nontrivial, fmt.Sprint(w.stale, w.ops), classes...)
	if nontrivial {
		c.Sample(map[string]any{"stale_period": w.stale, "ops": w.ops})
	}
}

func TestC14(t *testing.T) {
	c := ev.For("C14")
	c.SetRule("rapid state machine over append (current/future/past/overwrite), modify, get, put, cancel-future, delete (now/future) and block advances on a real FixationStore (3 indices, one a prefix of another, stale period 2-10) compared after every step with a reference model: FindEntryDetailed at every boundary block (each version/delete block and its neighbours, now-1..now+1, now+8, 0), GetEntry on a shadow context, HasEntry/GetAllEntryVersions for model-visible versions, GetAllEntryIndices for live indices; non-trivial = a future version or future delete matured AND a refcount reached zero AND its stale period elapsed; distinct = distinct (stale period, op sequence)")
	c.Assume("only legal operations per the documented contract are generated: append at/after the latest version, PutEntry only for references handed out by GetEntry or to cancel a future version",
		"domain restrictions: blocks advance one at a time with Tick at every block (as the chain does); deletes only on indices with a current version and no pending delete; no cancel of a future version while a delete is pending on that index; a re-created index does not reuse a block still occupied by its deleted life",
		"GetAllEntryIndices and garbage collection are checked one way only (model-live => listed, model-visible => stored)")
	rapid.Check(t, propC14)
}

// Regression (plain, no generator) for the defect repaired by the "fix:" commit recorded in
// known_findings.json: append and delete of an entry in the same block panicked.
func TestC14Regress_AppendDeleteSameBlock(t *testing.T) {
	env := kv.New()
	ts := timertypes.NewTimerStore(env.Key, env.Cdc, "verif_fix")
	fs := fixtypes.NewFixationStore(env.Key, env.Cdc, "verif_fix", ts, func(sdk.Context) uint64 { return 2 })
	ctx := env.At(10, 1_700_000_000)
	fs.Init(ctx, *fixtypes.DefaultGenesis())
	defer func() {
		if r := recover(); r != nil {
			t.Fatalf("%s", ev.Violation("C14", "append(a,10); del(a,10) at block 10 panicked: %v", r))
		}
	}()
	if err := fs.AppendEntry(ctx, "a", 10, coin(1)); err != nil {
		t.Fatalf("%s", ev.Violation("C14", "append failed: %v", err))
	}
	if err := fs.DelEntry(ctx, "a", 10); err != nil {
		t.Fatalf("%s", ev.Violation("C14", "del failed: %v", err))
	}
	var got sdk.Coin
	if fs.FindEntry(ctx, "a", 10, &got) {
		t.Fatalf("%s", ev.Violation("C14", "entry deleted at block 10 is still found at block 10"))
	}
	for h := int64(11); h < 16; h++ {
		ts.Tick(env.At(h, 1_700_000_000+h))
	}
}
