package stores

import (
	"bytes"
	"fmt"
	"math"
	"sort"
	"testing"

	sdk "github.com/cosmos/cosmos-sdk/types"
	timertypes "github.com/lavanet/lava/v5/x/timerstore/types"
	"pgregory.net/rapid"

	"verifharness/internal/ev"
	"verifharness/internal/kv"
)

// ---- C15: timers fire exactly once, in order, when due -------------------------------------

type tKey struct {
	kind   int // 0 height, 1 time
	expiry uint64
	key    string
}

type tAction struct {
	Op     string `json:"op"` // "add" | "del"
	Kind   int    `json:"kind"`
	Delta  uint64 `json:"delta"`  // add: expiry = now(kind)+1+delta
	Expiry uint64 `json:"expiry"` // del: absolute
	Key    string `json:"key"`
	Data   string `json:"data"`
}

type fired struct {
	Tick int
	Key  string
	Data string
}

var timerKeys = []string{"", "a", "ab", "a\x00", "a\xff", "\x00", "\xff", "b", "abc"}

type timerWorld struct {
	env     *kv.Env
	ts      *timertypes.TimerStore
	height  int64
	unix    int64
	tick    int
	implLog [2][]fired
	scripts map[string][]tAction // data -> script run by the callback
	nData   int
	// model
	pending [2]map[tKey]string
	modLog  [2][]fired
	ops     []string
	mutFire bool // some tick fired >=2 timers with a mutating callback
}

func (w *timerWorld) now(kind int) uint64 {
	if kind == 0 {
		return uint64(w.height)
	}
	return uint64(w.unix)
}

func (w *timerWorld) implAdd(ctx sdk.Context, kind int, expiry uint64, key, data string) {
	if kind == 0 {
		w.ts.AddTimerByBlockHeight(ctx, expiry, []byte(key), []byte(data))
	} else {
		w.ts.AddTimerByBlockTime(ctx, expiry, []byte(key), []byte(data))
	}
}

func (w *timerWorld) implHas(ctx sdk.Context, kind int, expiry uint64, key string) bool {
	if kind == 0 {
		return w.ts.HasTimerByBlockHeight(ctx, expiry, []byte(key))
	}
	return w.ts.HasTimerByBlockTime(ctx, expiry, []byte(key))
}

func (w *timerWorld) implDel(ctx sdk.Context, kind int, expiry uint64, key string) {
	if kind == 0 {
		w.ts.DelTimerByBlockHeight(ctx, expiry, []byte(key))
	} else {
		w.ts.DelTimerByBlockTime(ctx, expiry, []byte(key))
	}
}

func (w *timerWorld) callback(kind int) timertypes.TimerCallback {
	return func(ctx sdk.Context, key, data []byte) {
		w.implLog[kind] = append(w.implLog[kind], fired{w.tick, string(key), string(data)})
		for _, a := range w.scripts[string(data)] {
			switch a.Op {
			case "add":
				w.implAdd(ctx, a.Kind, w.now(a.Kind)+1+a.Delta, a.Key, a.Data)
			case "del":
				if w.implHas(ctx, kind, a.Expiry, a.Key) {
					w.implDel(ctx, kind, a.Expiry, a.Key)
				}
			}
		}
	}
}

// modelTick pops due timers one at a time in (expiry, key) order, re-evaluating after each callback.
func (w *timerWorld) modelTick() (maxFiredWithMut int) {
	for kind := 0; kind < 2; kind++ {
		firedHere, mut := 0, false
		for {
			var best *tKey
			for k := range w.pending[kind] {
				k := k
				if k.expiry > w.now(kind) {
					continue
				}
				if best == nil || k.expiry < best.expiry || (k.expiry == best.expiry && bytes.Compare([]byte(k.key), []byte(best.key)) < 0) {
					best = &k
				}
			}
			if best == nil {
				break
			}
			data := w.pending[kind][*best]
			delete(w.pending[kind], *best)
			w.modLog[kind] = append(w.modLog[kind], fired{w.tick, best.key, data})
			firedHere++
			for _, a := range w.scripts[data] {
				mut = true
				switch a.Op {
				case "add":
					w.pending[a.Kind][tKey{a.Kind, w.now(a.Kind) + 1 + a.Delta, a.Key}] = a.Data
				case "del":
					delete(w.pending[kind], tKey{kind, a.Expiry, a.Key})
				}
			}
		}
		if mut && firedHere > maxFiredWithMut {
			maxFiredWithMut = firedHere
		}
	}
	return
}

func (w *timerWorld) compare(t *rapid.T, ctx sdk.Context) {
	c := ev.For("C15")
	for kind := 0; kind < 2; kind++ {
		c.Clause("fire-log-equals-model")
		if len(w.implLog[kind]) != len(w.modLog[kind]) {
			t.Fatalf("%s", ev.Violation("C15", "kind %d: store fired %d timers, model %d\nstore: %v\nmodel: %v\nops: %v",
				kind, len(w.implLog[kind]), len(w.modLog[kind]), w.implLog[kind], w.modLog[kind], w.ops))
		}
		for i := range w.implLog[kind] {
			if w.implLog[kind][i] != w.modLog[kind][i] {
				t.Fatalf("%s", ev.Violation("C15", "kind %d: firing #%d differs: store %+v model %+v\nops: %v",
					kind, i, w.implLog[kind][i], w.modLog[kind][i], w.ops))
			}
		}
		// pending set equality through the export
		c.Clause("pending-set-equals-model")
		gs := w.ts.Export(ctx)
		entries := gs.BlockEntries
		if kind == 1 {
			entries = gs.TimeEntries
		}
		if len(entries) != len(w.pending[kind]) {
			t.Fatalf("%s", ev.Violation("C15", "kind %d: store has %d pending timers, model %d\nops: %v", kind, len(entries), len(w.pending[kind]), w.ops))
		}
		earliest := uint64(math.MaxUint64)
		for _, e := range entries {
			d, ok := w.pending[kind][tKey{kind, e.Value, e.Key}]
			if !ok || d != string(e.Data) {
				t.Fatalf("%s", ev.Violation("C15", "kind %d: pending timer (%d,%q)=%q not in model (model has %q,%v)\nops: %v", kind, e.Value, e.Key, e.Data, d, ok, w.ops))
			}
			if e.Value < earliest {
				earliest = e.Value
			}
		}
		c.Clause("next-timeout-not-after-earliest")
		next := w.ts.GetNextTimeoutBlockHeight(ctx)
		if kind == 1 {
			next = w.ts.GetNextTimeoutBlockTime(ctx)
		}
		if next > earliest {
			t.Fatalf("%s", ev.Violation("C15", "kind %d: next timeout %d is after the earliest pending expiry %d\nops: %v", kind, next, earliest, w.ops))
		}
	}
}

func genScript(t *rapid.T, w *timerWorld, kind int) []tAction {
	n := rapid.SampledFrom([]int{0, 0, 0, 1, 1, 2}).Draw(t, "scriptLen")
	var s []tAction
	for i := 0; i < n; i++ {
		if rapid.Bool().Draw(t, "scriptAdd") {
			w.nData++
			s = append(s, tAction{Op: "add", Kind: rapid.IntRange(0, 1).Draw(t, "sk"), Delta: uint64(rapid.IntRange(0, 4).Draw(t, "sd")),
				Key: rapid.SampledFrom(timerKeys).Draw(t, "skey"), Data: fmt.Sprintf("cb%d", w.nData)})
		} else {
			// delete another pending timer of the same kind (if it still exists when the callback runs)
			var cands []tKey
			for k := range w.pending[kind] {
				cands = append(cands, k)
			}
			if len(cands) == 0 {
				continue
			}
			sort.Slice(cands, func(i, j int) bool {
				if cands[i].expiry != cands[j].expiry {
					return cands[i].expiry < cands[j].expiry
				}
				return cands[i].key < cands[j].key
			})
			k := rapid.SampledFrom(cands).Draw(t, "sdel")
			s = append(s, tAction{Op: "del", Kind: kind, Expiry: k.expiry, Key: k.key})
		}
	}
	return s
}

func sortedPending(m map[tKey]string) []tKey {
	var ks []tKey
	for k := range m {
		ks = append(ks, k)
	}
	sort.Slice(ks, func(i, j int) bool {
		if ks[i].expiry != ks[j].expiry {
			return ks[i].expiry < ks[j].expiry
		}
		return ks[i].key < ks[j].key
	})
	return ks
}

func propC15(t *rapid.T) {
	c := ev.For("C15")
	env := kv.New()
	w := &timerWorld{env: env, height: 10, unix: 1_700_000_000, scripts: map[string][]tAction{}}
	w.pending[0], w.pending[1] = map[tKey]string{}, map[tKey]string{}
	w.ts = timertypes.NewTimerStore(env.Key, env.Cdc, "verif_timer")
	w.ts.WithCallbackByBlockHeight(w.callback(0)).WithCallbackByBlockTime(w.callback(1))
	ctx := env.At(w.height, w.unix)
	w.ts.Init(ctx, *timertypes.DefaultGenesis())

	maxFiredMut := 0
	t.Repeat(map[string]func(*rapid.T){
		"add": func(t *rapid.T) {
			kind := rapid.IntRange(0, 1).Draw(t, "kind")
			delta := uint64(rapid.IntRange(0, 5).Draw(t, "delta"))
			key := rapid.SampledFrom(timerKeys).Draw(t, "key")
			w.nData++
			data := fmt.Sprintf("d%d", w.nData)
			w.scripts[data] = genScript(t, w, kind)
			exp := w.now(kind) + 1 + delta
			w.ops = append(w.ops, fmt.Sprintf("add(k%d,%d,%q,%s script=%v)", kind, exp, key, data, w.scripts[data]))
			w.implAdd(ctx, kind, exp, key, data)
			w.pending[kind][tKey{kind, exp, key}] = data
		},
		"del": func(t *rapid.T) {
			kind := rapid.IntRange(0, 1).Draw(t, "kind")
			ks := sortedPending(w.pending[kind])
			if len(ks) == 0 {
				t.Skip("nothing to delete")
			}
			k := rapid.SampledFrom(ks).Draw(t, "victim")
			w.ops = append(w.ops, fmt.Sprintf("del(k%d,%d,%q)", kind, k.expiry, k.key))
			w.implDel(ctx, kind, k.expiry, k.key)
			delete(w.pending[kind], k)
		},
		"has": func(t *rapid.T) {
			kind := rapid.IntRange(0, 1).Draw(t, "kind")
			exp := w.now(kind) + uint64(rapid.IntRange(0, 6).Draw(t, "d"))
			key := rapid.SampledFrom(timerKeys).Draw(t, "key")
			_, want := w.pending[kind][tKey{kind, exp, key}]
			c.Clause("has-equals-model")
			if got := w.implHas(ctx, kind, exp, key); got != want {
				t.Fatalf("%s", ev.Violation("C15", "Has(k%d,%d,%q)=%v model %v\nops: %v", kind, exp, key, got, want, w.ops))
			}
		},
		"tick": func(t *rapid.T) {
			dh := int64(rapid.SampledFrom([]int{1, 1, 1, 2, 3, 7}).Draw(t, "dh"))
			dt := int64(rapid.SampledFrom([]int{0, 1, 1, 2, 3, 7}).Draw(t, "dt"))
			w.height += dh
			w.unix += dt
			w.tick++
			w.ops = append(w.ops, fmt.Sprintf("tick(h=%d,t=%d)", w.height, w.unix))
			ctx = env.At(w.height, w.unix)
			w.ts.Tick(ctx)
			if m := w.modelTick(); m > maxFiredMut {
				maxFiredMut = m
			}
		},
		"": func(t *rapid.T) { w.compare(t, ctx) },
	})
	nontrivial := maxFiredMut >= 2
	classes := []string{}
	if nontrivial {
		classes = append(classes, "tick-fired>=2-with-mutating-callback")
	}
	if len(w.modLog[0])+len(w.modLog[1]) > 0 {
		classes = append(classes, "some-timer-fired")
	}
	c.Case(nontrivial, fmt.Sprint(w.ops), classes...)
	if nontrivial {
		c.Sample(map[string]any{"ops": w.ops, "fired_height": len(w.modLog[0]), "fired_time": len(w.modLog[1])})
	}
}

func TestC15(t *testing.T) {
	c := ev.For("C15")
	c.SetRule("rapid state machine over add/del/has/tick on a real TimerStore (both kinds, 9 keys incl. prefixes and 0x00/0xff, ticks that jump 1-7 heights and 0-7 seconds, callbacks running generated add/delete scripts) compared with a reference model after every step; non-trivial = some tick fired >=2 timers of one kind while a callback script mutated the store; distinct = distinct op sequences")
	c.Assume("callbacks delete only timers of their own kind (the relative order of the two kinds inside one Tick is not part of the property)",
		"only legal calls are generated: add with expiry in the future, delete of an existing timer")
	rapid.Check(t, propC15)
}
