package crelay

// Shared fixture and observation code of the relay-payment properties C03, C04, C05, C17, C18.
//
// Observation is raw state reading only: the genesis exporters of the pairing, projects and
// subscription keepers (every version of every project / subscription / tracked-CU entry, every
// epoch-payment record). All expected values are computed in the tests from the property
// statements.

import (
	"fmt"
	"os"
	"sort"
	"strings"
	"testing"

	sdk "github.com/cosmos/cosmos-sdk/types"
	"github.com/lavanet/lava/v5/utils/sigs"
	pairingtypes "github.com/lavanet/lava/v5/x/pairing/types"
	planstypes "github.com/lavanet/lava/v5/x/plans/types"
	projectstypes "github.com/lavanet/lava/v5/x/projects/types"
	subscriptiontypes "github.com/lavanet/lava/v5/x/subscription/types"
	"pgregory.net/rapid"

	"verifharness/internal/chain"
	"verifharness/internal/ev"
)

// ---- small helpers --------------------------------------------------------------------------------

func histString(w *chain.World, n int) string {
	if v := os.Getenv("VERIF_HIST"); v != "" {
		fmt.Sscanf(v, "%d", &n)
	}
	return strings.Join(w.C.HistTail(n), "\n  ")
}

func harnessFatal(rt *rapid.T, format string, args ...any) {
	rt.Fatalf("%s", ev.HarnessError(format, args...))
}

func pick[T any](t *rapid.T, label string, xs []T) T {
	return xs[rapid.IntRange(0, len(xs)-1).Draw(t, label)]
}

func short(addr string) string {
	if len(addr) > 6 {
		return addr[len(addr)-6:]
	}
	return addr
}

func minU(a, b uint64) uint64 {
	if a < b {
		return a
	}
	return b
}

// ---- fixture --------------------------------------------------------------------------------------

// proj is a project of the fixture. Keys is what the harness believes are its developer keys (the
// per-epoch truth lives in the models of the individual properties).
type proj struct {
	ID   string
	Name string
	Cons *chain.Cons
	Keys []sigs.Account
}

// addPlan installs a plan through the governance path.
func addPlan(rt *rapid.T, w *chain.World, index string, pol planstypes.Policy, projectsLimit uint64) planstypes.Plan {
	p := planstypes.Plan{
		Index: index, Description: "crelay", Type: "rpc", Price: sdk.NewCoin(w.C.Denom(), sdk.NewInt(1000)),
		PlanPolicy: pol, ProjectsLimit: projectsLimit,
	}
	err := w.C.Tx("planAdd("+index+","+chain.PolicyStr(pol)+")", p.ValidatePlan, func() error { return w.C.TS.TxProposalAddPlans(p) })
	if err != nil {
		harnessFatal(rt, "cannot add plan %s: %v", index, err)
	}
	w.Plans = append(w.Plans, p)
	return p
}

// addConsumer creates a funded account and buys a subscription of the plan for it. The consumer's
// own address is the developer key of its admin project.
func addConsumer(rt *rapid.T, w *chain.World, name, plan string, months int) (*chain.Cons, *proj) {
	acc := w.NewAccount(w.Cfg.Balance)
	c := &chain.Cons{Name: name, Acc: acc, Devs: []sigs.Account{acc}}
	msg := &subscriptiontypes.MsgBuy{Creator: c.Addr(), Consumer: c.Addr(), Index: plan, Duration: uint64(months)}
	err := w.C.Tx(fmt.Sprintf("subBuy(%s,%s,%dm)", name, plan, months), msg.ValidateBasic, func() error {
		_, err := w.C.TS.Servers.SubscriptionServer.Buy(w.C.TS.GoCtx, msg)
		return err
	})
	if err != nil {
		harnessFatal(rt, "cannot buy subscription %s for %s: %v", plan, name, err)
	}
	w.Consumers = append(w.Consumers, c)
	return c, &proj{ID: chain.AdminProject(c.Addr()), Name: projectstypes.ADMIN_PROJECT_NAME, Cons: c, Keys: []sigs.Account{acc}}
}

// addProject sends MsgAddProject. devs become developer keys, admins admin keys.
func addProject(w *chain.World, c *chain.Cons, name string, enabled bool, pol *planstypes.Policy, devs []sigs.Account, admins []sigs.Account) (*proj, error) {
	pd := projectstypes.ProjectData{Name: name, Enabled: enabled, Policy: pol}
	for _, d := range devs {
		pd.ProjectKeys = append(pd.ProjectKeys, projectstypes.ProjectDeveloperKey(d.Addr.String()))
	}
	for _, a := range admins {
		pd.ProjectKeys = append(pd.ProjectKeys, projectstypes.ProjectAdminKey(a.Addr.String()))
	}
	msg := &subscriptiontypes.MsgAddProject{Creator: c.Addr(), ProjectData: pd}
	err := w.C.Tx(fmt.Sprintf("addProject(%s,%s,enabled=%v,devs=%d)", c.Name, name, enabled, len(devs)), msg.ValidateBasic, func() error {
		_, err := w.C.TS.Servers.SubscriptionServer.AddProject(w.C.TS.GoCtx, msg)
		return err
	})
	if err != nil {
		return nil, err
	}
	return &proj{ID: projectstypes.ProjectIndex(c.Addr(), name), Name: name, Cons: c, Keys: append([]sigs.Account{}, devs...)}, nil
}

func delProject(w *chain.World, c *chain.Cons, name string) error {
	msg := &subscriptiontypes.MsgDelProject{Creator: c.Addr(), Name: name}
	return w.C.Tx(fmt.Sprintf("delProject(%s,%s)", c.Name, name), msg.ValidateBasic, func() error {
		_, err := w.C.TS.Servers.SubscriptionServer.DelProject(w.C.TS.GoCtx, msg)
		return err
	})
}

func setPolicy(w *chain.World, creator string, projectID string, pol *planstypes.Policy, subscriptionPolicy bool) error {
	if subscriptionPolicy {
		msg := &projectstypes.MsgSetSubscriptionPolicy{Creator: creator, Projects: []string{projectID}, Policy: pol}
		return w.C.Tx(fmt.Sprintf("setSubPolicy(%s,%s)", short(projectID), chain.PolicyStr(*pol)), msg.ValidateBasic, func() error {
			_, err := w.C.TS.Servers.ProjectServer.SetSubscriptionPolicy(w.C.TS.GoCtx, msg)
			return err
		})
	}
	msg := &projectstypes.MsgSetPolicy{Creator: creator, Project: projectID, Policy: pol}
	return w.C.Tx(fmt.Sprintf("setAdminPolicy(%s,%s)", short(projectID), chain.PolicyStr(*pol)), msg.ValidateBasic, func() error {
		_, err := w.C.TS.Servers.ProjectServer.SetPolicy(w.C.TS.GoCtx, msg)
		return err
	})
}

// openPolicy is a plan policy that pairs every staked provider and whose CU limits are far above
// anything a case sends.
func openPolicy() planstypes.Policy {
	return planstypes.Policy{TotalCuLimit: 1_000_000_000_000, EpochCuLimit: 100_000_000_000, MaxProvidersToPair: 12, GeolocationProfile: 1}
}

// stakedAt reports whether the provider has a stake entry on the chain in the given epoch
// (raw epochstorage state).
func stakedAt(w *chain.World, p *chain.Prov, chainID string, epoch uint64) bool {
	_, found := w.C.TS.Keepers.Epochstorage.GetStakeEntry(w.C.TS.Ctx, epoch, chainID, p.Addr())
	return found
}

// epochStartOf maps a block to its epoch start (epochstorage state; params are constant in these
// checks).
func epochStartOf(w *chain.World, block uint64) (uint64, bool) {
	e, _, err := w.C.TS.Keepers.Epochstorage.GetEpochStartForBlock(w.C.TS.Ctx, block)
	return e, err == nil
}

func earliestEpoch(w *chain.World) uint64 {
	return w.C.TS.Keepers.Epochstorage.GetEarliestEpochStart(w.C.TS.Ctx)
}

// ---- observation ----------------------------------------------------------------------------------

type uKey struct {
	Epoch uint64
	Prov  string
	Proj  string
	Chain string
	Sess  uint64
}

func (k uKey) String() string {
	return fmt.Sprintf("(ep=%d prov=%s proj=%s %s sess=%d)", k.Epoch, short(k.Prov), projTail(k.Proj), k.Chain, k.Sess)
}

func projTail(id string) string {
	if i := strings.LastIndex(id, "-"); i >= 0 && i >= 6 {
		return id[i-6:]
	}
	return id
}

type pecKey struct {
	Epoch uint64
	Prov  string
	Chain string
}

type pcecKey struct {
	Epoch uint64
	Prov  string
	Proj  string
	Chain string
}

type verKey struct {
	Index string
	Block uint64
}

type projVer struct {
	UsedCu   uint64
	Snapshot uint64
	Deleted  bool // version carries a deletion mark (DeleteAt set)
	DeleteAt uint64
}

type subVer struct {
	MonthCuLeft uint64
	SubBlock    uint64 // Subscription.Block
}

// snap is everything relay payments may touch, read from raw state.
type snap struct {
	Height  uint64
	Unique  map[uKey]bool
	Pec     map[pecKey]uint64
	Pcec    map[pcecKey]uint64
	Projs   map[verKey]projVer // every version of every project
	Subs    map[verKey]subVer  // every version of every subscription
	Tracked map[verKey]uint64  // index "sub provider chain", block = subscription block
	Badges  map[string]uint64  // hex(BadgeUsedCuKey) -> used
}

func takeSnap(w *chain.World) *snap {
	ts := w.C.TS
	ctx := ts.Ctx
	s := &snap{Height: w.C.Height(), Unique: map[uKey]bool{}, Pec: map[pecKey]uint64{}, Pcec: map[pcecKey]uint64{},
		Projs: map[verKey]projVer{}, Subs: map[verKey]subVer{}, Tracked: map[verKey]uint64{}, Badges: map[string]uint64{}}
	for _, u := range ts.Keepers.Pairing.GetAllUniqueEpochSessionStore(ctx) {
		s.Unique[uKey{u.Epoch, u.Provider, u.Project, u.ChainId, u.SessionId}] = true
	}
	for _, p := range ts.Keepers.Pairing.GetAllProviderEpochCuStore(ctx) {
		s.Pec[pecKey{p.Epoch, p.Provider, p.ChainId}] = p.ProviderEpochCu.ServicedCu
	}
	for _, p := range ts.Keepers.Pairing.GetAllProviderConsumerEpochCuStore(ctx) {
		s.Pcec[pcecKey{p.Epoch, p.Provider, p.Project, p.ChainId}] = p.ProviderConsumerEpochCu.Cu
	}
	for _, b := range ts.Keepers.Pairing.GetAllBadgeUsedCu(ctx) {
		s.Badges[fmt.Sprintf("%x", b.BadgeUsedCuKey)] = b.UsedCu
	}
	for _, ge := range ts.Keepers.Projects.ExportProjects(ctx).Entries {
		for _, e := range ge.Entries {
			var p projectstypes.Project
			if err := p.Unmarshal(e.Data); err != nil {
				panic("VERIF-HARNESS-ERROR: cannot decode project version: " + err.Error())
			}
			s.Projs[verKey{ge.Index, e.Block}] = projVer{UsedCu: p.UsedCu, Snapshot: p.Snapshot, Deleted: e.DeleteAt != 0 && e.DeleteAt != ^uint64(0), DeleteAt: e.DeleteAt}
		}
	}
	for _, ge := range ts.Keepers.Subscription.ExportSubscriptions(ctx).Entries {
		for _, e := range ge.Entries {
			var sub subscriptiontypes.Subscription
			if err := sub.Unmarshal(e.Data); err != nil {
				panic("VERIF-HARNESS-ERROR: cannot decode subscription version: " + err.Error())
			}
			s.Subs[verKey{ge.Index, e.Block}] = subVer{MonthCuLeft: sub.MonthCuLeft, SubBlock: sub.Block}
		}
	}
	for _, ge := range ts.Keepers.Subscription.ExportCuTrackers(ctx).Entries {
		for _, e := range ge.Entries {
			var tc subscriptiontypes.TrackedCu
			if err := tc.Unmarshal(e.Data); err != nil {
				panic("VERIF-HARNESS-ERROR: cannot decode tracked cu: " + err.Error())
			}
			s.Tracked[verKey{ge.Index, e.Block}] = tc.Cu
		}
	}
	return s
}

// versionAt returns the block of the version of index that covers block (greatest version block
// <= block) among the keys of m.
func versionAt[V any](m map[verKey]V, index string, block uint64) (uint64, bool) {
	best, ok := uint64(0), false
	for k := range m {
		if k.Index == index && k.Block <= block && (!ok || k.Block > best) {
			best, ok = k.Block, true
		}
	}
	return best, ok
}

func versionsOf[V any](m map[verKey]V, index string) []uint64 {
	var out []uint64
	for k := range m {
		if k.Index == index {
			out = append(out, k.Block)
		}
	}
	sort.Slice(out, func(i, j int) bool { return out[i] < out[j] })
	return out
}

// credit is one relay the model expects to have been charged: CuSum c to project/subscription at
// relay block E, tracked for (consumer, provider, chain).
type credit struct {
	Key     uKey
	Cons    string // subscription (consumer) address
	Block   uint64 // relay.Epoch as sent
	CuSum   uint64
	Tracked *uint64 // exact tracked amount if the test can predict it, nil = only bounded by CuSum
}

// expectAfter computes, from the state before a payment tx and the list of credited relays, the
// exact expected project / subscription / epoch-CU state after it, as the statement prescribes:
// every credited relay adds CuSum to ProviderEpochCu and ProviderConsumerEpochCu of its key, to
// UsedCu of every version of its project from the version in force at the relay block onwards
// within the same monthly snapshot, and removes min(CuSum, left) from MonthCuLeft of the
// subscription version in force at the relay block. Tracked CU is handled by the caller.
func expectAfter(before *snap, credits []credit) (pec map[pecKey]uint64, pcec map[pcecKey]uint64, projs map[verKey]projVer, subs map[verKey]subVer, err error) {
	pec, pcec, projs, subs = map[pecKey]uint64{}, map[pcecKey]uint64{}, map[verKey]projVer{}, map[verKey]subVer{}
	for k, v := range before.Pec {
		pec[k] = v
	}
	for k, v := range before.Pcec {
		pcec[k] = v
	}
	for k, v := range before.Projs {
		projs[k] = v
	}
	for k, v := range before.Subs {
		subs[k] = v
	}
	for _, c := range credits {
		pec[pecKey{c.Key.Epoch, c.Key.Prov, c.Key.Chain}] += c.CuSum
		pcec[pcecKey{c.Key.Epoch, c.Key.Prov, c.Key.Proj, c.Key.Chain}] += c.CuSum
		vb, ok := versionAt(projs, c.Key.Proj, c.Block)
		if !ok {
			return nil, nil, nil, nil, fmt.Errorf("no version of project %s at block %d", c.Key.Proj, c.Block)
		}
		snapNo := projs[verKey{c.Key.Proj, vb}].Snapshot
		for _, b := range versionsOf(projs, c.Key.Proj) {
			if b < vb {
				continue
			}
			pv := projs[verKey{c.Key.Proj, b}]
			if pv.Snapshot != snapNo {
				break
			}
			pv.UsedCu += c.CuSum
			projs[verKey{c.Key.Proj, b}] = pv
		}
		sb, ok := versionAt(subs, c.Cons, c.Block)
		if !ok {
			return nil, nil, nil, nil, fmt.Errorf("no version of subscription %s at block %d", c.Cons, c.Block)
		}
		sv := subs[verKey{c.Cons, sb}]
		sv.MonthCuLeft -= minU(c.CuSum, sv.MonthCuLeft)
		subs[verKey{c.Cons, sb}] = sv
	}
	return
}

// diffMaps lists keys whose values differ between want and got (either direction), sorted.
func diffMaps[K comparable, V comparable](want, got map[K]V) []string {
	var out []string
	for k, wv := range want {
		if gv, ok := got[k]; !ok {
			out = append(out, fmt.Sprintf("%v: want %v, missing", k, wv))
		} else if gv != wv {
			out = append(out, fmt.Sprintf("%v: want %v, got %v", k, wv, gv))
		}
	}
	for k, gv := range got {
		if _, ok := want[k]; !ok {
			out = append(out, fmt.Sprintf("%v: unexpected %v", k, gv))
		}
	}
	sort.Strings(out)
	return out
}

// trackedDelta returns, per tracked-CU entry, after-before (entries never shrink inside a tx; a
// shrinking entry is reported as error).
func trackedDelta(before, after *snap) (map[verKey]uint64, error) {
	out := map[verKey]uint64{}
	for k, a := range after.Tracked {
		b := before.Tracked[k]
		if a < b {
			return nil, fmt.Errorf("tracked CU of %v decreased from %d to %d", k, b, a)
		}
		if a != b {
			out[k] = a - b
		}
	}
	for k := range before.Tracked {
		if _, ok := after.Tracked[k]; !ok {
			return nil, fmt.Errorf("tracked CU entry %v disappeared", k)
		}
	}
	return out, nil
}

// digestsEqual compares two StoreDigests results and names the differing stores.
func digestsEqual(a, b map[string][32]byte) (bool, string) {
	d := chain.DiffStores(a, b)
	return len(d) == 0, strings.Join(d, ",")
}

// sendMsg delivers a prepared MsgRelayPayment atomically.
func sendMsg(w *chain.World, name string, msg *pairingtypes.MsgRelayPayment) error {
	return w.C.Tx(name, msg.ValidateBasic, func() error {
		_, err := w.C.TS.Servers.PairingServer.RelayPayment(w.C.TS.GoCtx, msg)
		return err
	})
}

// buildMsg signs the relay specs into one message of sender.
func buildMsg(rt *rapid.T, w *chain.World, sender *chain.Prov, relays []chain.RelaySpec) *pairingtypes.MsgRelayPayment {
	msg := &pairingtypes.MsgRelayPayment{Creator: sender.Addr(), DescriptionString: "verif"}
	for _, r := range relays {
		rs, err := r.Build(w.C.TS.Ctx)
		if err != nil {
			harnessFatal(rt, "cannot sign relay: %v", err)
		}
		msg.Relays = append(msg.Relays, rs)
	}
	return msg
}

func relaysDesc(relays []chain.RelaySpec) string {
	s := ""
	for _, r := range relays {
		s += r.String()
	}
	return s
}

// rewardedFromEvents extracts rewardedCU.<idx> of the relay_payment event(s) of the last tx.
func rewardedFromEvents(w *chain.World) map[int]uint64 {
	out := map[int]uint64{}
	for _, e := range w.C.LastEvents {
		if !strings.HasSuffix(e.Type, pairingtypes.RelayPaymentEventName) {
			continue
		}
		for _, a := range e.Attributes {
			if strings.HasPrefix(a.Key, "rewardedCU.") {
				var idx int
				var v uint64
				if _, err := fmt.Sscanf(a.Key, "rewardedCU.%d", &idx); err != nil {
					continue
				}
				if _, err := fmt.Sscanf(a.Value, "%d", &v); err != nil {
					continue
				}
				out[idx] = v
			}
		}
	}
	return out
}

var _ = testing.Short
