package crelay

import (
	"fmt"
	"sort"
	"strings"
	"testing"
	"time"

	"github.com/lavanet/lava/v5/utils/sigs"
	projectstypes "github.com/lavanet/lava/v5/x/projects/types"
	"pgregory.net/rapid"

	"verifharness/internal/chain"
	"verifharness/internal/ev"
)

// C17: at any block a developer key belongs to at most one project; adding, removing and
// re-adding keys across projects never makes a key resolve to a deleted project or to two
// projects; every accepted relay charges its CU exactly once to the project and subscription it
// resolved to, in every version of that project within the same monthly snapshot.
//
// Model (from the header comment of x/projects/keeper/creation.go and the doc comments of
// AddKeysToProject / DelKeysFromProject / DeleteProject): project creation and key additions take
// effect from the start of the current epoch, key removals and project deletion from the start of
// the next epoch. The model is updated only by transactions that succeeded.

const c17Finding = "c17-charge-skips-pending-version"

type c17Event struct {
	From uint64
	Proj string // "" = unregistered
}

type c17Model struct {
	keyEvents map[string][]c17Event  // developer key -> timeline (sorted by From, later entries win)
	uncertain map[string]bool        // keys whose timeline the documentation does not pin down
	lives     map[string][][2]uint64 // project id -> lifetimes [from, gone) (gone 0 = open)
}

func (m *c17Model) born(id string, from uint64) {
	m.lives[id] = append(m.lives[id], [2]uint64{from, 0})
}

func (m *c17Model) dies(id string, gone uint64) {
	if l := m.lives[id]; len(l) > 0 && l[len(l)-1][1] == 0 {
		l[len(l)-1][1] = gone
	}
}

func (m *c17Model) set(key string, from uint64, proj string) {
	evs := m.keyEvents[key]
	// drop events at or after from: a later instruction for the same or a later block supersedes
	var kept []c17Event
	for _, e := range evs {
		if e.From < from {
			kept = append(kept, e)
		}
	}
	m.keyEvents[key] = append(kept, c17Event{from, proj})
}

func (m *c17Model) at(key string, block uint64) string {
	p := ""
	for _, e := range m.keyEvents[key] {
		if e.From <= block {
			p = e.Proj
		}
	}
	return p
}

func (m *c17Model) pending(key string, after uint64) bool {
	for _, e := range m.keyEvents[key] {
		if e.From > after {
			return true
		}
	}
	return false
}

func (m *c17Model) projectAlive(id string, block uint64) bool {
	for _, l := range m.lives[id] {
		if block >= l[0] && (l[1] == 0 || block < l[1]) {
			return true
		}
	}
	return false
}

func TestC17(t *testing.T) {
	c := ev.For("C17")
	c.SetRule("rapid state machine on two subscriptions (one may expire) with an admin project each and up to two more projects each, a pool of 5 developer keys: create/delete project, add/remove developer and admin keys (by the subscription owner or a project admin), re-adding removed keys to other projects, block/epoch advances, a month advance (snapshot / subscription expiry), relay payments signed by pool keys for epochs in memory; after every action every pool key is resolved at every epoch start in memory, the current block and the next epoch start; non-trivial = some key was registered to two different projects at different times AND an accepted relay was charged; distinct = distinct histories")
	c.Assume("additions take effect from the current epoch start, removals and deletions from the next epoch start (x/projects/keeper/creation.go header); the model follows only successful transactions",
		"a key that is re-added while a removal of it is still pending in the same epoch is excluded from the model comparison (the documentation does not pin the outcome down); the structural clauses (one project, never a deleted project) still apply to it",
		"plans have CU limits far above the CU sent; default epoch parameters",
		"the charge is checked on ProviderEpochCu, ProviderConsumerEpochCu, UsedCu of every project version and MonthCuLeft of every subscription version; the tracked-CU payout counter is not part of this statement (and is not compared: across month boundaries the repository loses tracked CU, reported separately)")
	rapid.Check(t, func(rt *rapid.T) { propC17(rt, t, c) })
}

func propC17(rt *rapid.T, t *testing.T, c *ev.Collector) {
	w := chain.NewWorld(rt, t, chain.Cfg{Specs: [2]int{1, 1}, Plans: [2]int{1, 1}, Validators: [2]int{1, 1}, Providers: [2]int{2, 2}, Consumers: [2]int{1, 1}})
	addPlan(rt, w, "open", openPolicy(), 4)
	ts := w.C.TS
	m := &c17Model{keyEvents: map[string][]c17Event{}, uncertain: map[string]bool{}, lives: map[string][][2]uint64{}}
	s1, a1 := addConsumer(rt, w, "S1", "open", 3)
	s2, a2 := addConsumer(rt, w, "S2", "open", 1)
	conss := []*chain.Cons{s1, s2}
	e0 := w.C.EpochStart()
	for _, a := range []*proj{a1, a2} {
		m.born(a.ID, e0)
		m.set(a.Cons.Addr(), e0, a.ID)
	}
	var pool []sigs.Account
	for i := 0; i < 5; i++ {
		pool = append(pool, w.NewAccount(0))
	}
	allKeys := append([]sigs.Account{s1.Acc, s2.Acc}, pool...)
	names := []string{"pa", "pb"}
	projID := func(cons *chain.Cons, name string) string { return projectstypes.ProjectIndex(cons.Addr(), name) }
	allProjIDs := func() []string {
		var ids []string
		for _, cn := range conss {
			ids = append(ids, chain.AdminProject(cn.Addr()))
			for _, n := range names {
				ids = append(ids, projID(cn, n))
			}
		}
		return ids
	}
	subOf := func(id string) *chain.Cons {
		for _, cn := range conss {
			if strings.HasPrefix(id, cn.Addr()+"-") {
				return cn
			}
		}
		return nil
	}
	subAlive := map[string]bool{s1.Addr(): true, s2.Addr(): true}
	everOwner := map[string]map[string]bool{}
	// start with one extra project that already owns two pool keys
	if _, err := addProject(w, s1, "pa", true, nil, pool[:2], nil); err != nil {
		harnessFatal(rt, "setup addProject: %v", err)
	}
	m.born(projID(s1, "pa"), e0)
	for _, k := range pool[:2] {
		m.set(k.Addr.String(), e0, projID(s1, "pa"))
		everOwner[k.Addr.String()] = map[string]bool{projID(s1, "pa"): true}
	}
	// some cases start with a full chain memory, so that the earliest epoch is far behind
	w.C.AdvanceEpochs(rapid.SampledFrom([]int{1, 1, 4, 10}).Draw(rt, "warmupEpochs"))
	w.C.Hist = nil

	cls := map[string]int{}
	moved, charged := 0, 0
	sess := uint64(1)
	nextEpoch := func() uint64 {
		n, err := ts.Keepers.Epochstorage.GetNextEpoch(ts.Ctx, w.C.Height())
		if err != nil {
			harnessFatal(rt, "GetNextEpoch: %v", err)
		}
		return n
	}
	noteOwner := func(key, proj string) {
		if everOwner[key] == nil {
			everOwner[key] = map[string]bool{}
		}
		if !everOwner[key][proj] {
			everOwner[key][proj] = true
			if len(everOwner[key]) == 2 {
				moved++
				cls["key-moved-between-projects"]++
			}
		}
	}

	// subscription expiry is block processing: watch it after every block
	w.C.BlockHook = func() {
		for _, cn := range conss {
			if !subAlive[cn.Addr()] {
				continue
			}
			// month end and expiry are scheduled for the next epoch start by the subscription module
			ne := nextEpoch()
			if _, _, found := ts.Keepers.Subscription.GetSubscriptionForBlock(ts.Ctx, cn.Addr(), ne); !found {
				subAlive[cn.Addr()] = false
				w.C.Logf("(observed) subscription of %s expired; its projects end at %d", cn.Name, ne)
				cls["subscription-expired"]++
				for _, id := range allProjIDs() {
					if subOf(id) == cn && m.projectAlive(id, ne) {
						m.dies(id, ne)
						for _, k := range allKeys {
							if m.at(k.Addr.String(), ne) == id {
								m.set(k.Addr.String(), ne, "")
							}
						}
					}
				}
			}
		}
	}

	check := func() {
		blocks := append([]uint64{}, w.EpochsInMemory()...)
		blocks = append(blocks, w.C.Height(), nextEpoch())
		sort.Slice(blocks, func(i, j int) bool { return blocks[i] < blocks[j] })
		ids := allProjIDs()
		for _, b := range blocks {
			// project versions at b (raw state)
			listed := map[string][]string{} // key -> projects listing it as developer key at b
			for _, id := range ids {
				p, err := ts.GetProjectForBlock(id, b)
				if err != nil {
					continue
				}
				for _, pk := range p.ProjectKeys {
					if pk.IsType(projectstypes.ProjectKey_DEVELOPER) {
						listed[pk.Key] = append(listed[pk.Key], id)
					}
				}
			}
			for _, k := range allKeys {
				ka := k.Addr.String()
				c.Clause("key-in-at-most-one-project")
				if len(listed[ka]) > 1 {
					rt.Fatalf("%s", ev.Violation("C17", "at block %d developer key %s is a developer key of %d projects: %v\nhistory:\n  %s", b, short(ka), len(listed[ka]), listed[ka], histString(w, 30)))
				}
				dd, derr := ts.GetProjectDeveloperData(ka, b)
				p, perr := ts.GetProjectForDeveloper(ka, b)
				c.Clause("key-never-resolves-to-a-deleted-project")
				if derr == nil {
					if perr != nil {
						rt.Fatalf("%s", ev.Violation("C17", "at block %d developer key %s is registered to project %s which does not exist at that block (deleted): %v\nhistory:\n  %s", b, short(ka), projTail(dd.ProjectID), perr, histString(w, 30)))
					}
					if !m.projectAlive(dd.ProjectID, b) {
						rt.Fatalf("%s", ev.Violation("C17", "at block %d developer key %s resolves to project %s which by the history does not exist at that block (lifetimes %v)\nhistory:\n  %s", b, short(ka), projTail(dd.ProjectID), m.lives[dd.ProjectID], histString(w, 30)))
					}
					c.Clause("registry-and-project-key-list-agree")
					if len(listed[ka]) != 1 || listed[ka][0] != dd.ProjectID || p.Index != dd.ProjectID {
						rt.Fatalf("%s", ev.Violation("C17", "at block %d developer key %s is registered to project %s but the projects listing it as developer key are %v\nhistory:\n  %s", b, short(ka), projTail(dd.ProjectID), listed[ka], histString(w, 30)))
					}
				}
				if m.uncertain[ka] {
					continue
				}
				c.Clause("resolution-equals-model")
				want := m.at(ka, b)
				got := ""
				if derr == nil {
					got = dd.ProjectID
				}
				if want != got {
					rt.Fatalf("%s", ev.Violation("C17", "at block %d developer key %s resolves to %q, the history says %q (timeline %v)\nhistory:\n  %s", b, short(ka), projTail(got), projTail(want), m.keyEvents[ka], histString(w, 30)))
				}
			}
		}
	}

	drawProject := func(rt *rapid.T) (*chain.Cons, string, string) {
		cn := pick(rt, "consumer", conss)
		name := pick(rt, "projName", append([]string{projectstypes.ADMIN_PROJECT_NAME}, names...))
		return cn, name, projID(cn, name)
	}

	acts := map[string]func(*rapid.T){
		"addProject": func(rt *rapid.T) {
			cn := pick(rt, "consumer", conss)
			name := pick(rt, "projName", names)
			var devs []sigs.Account
			seen := map[string]bool{}
			for i := rapid.IntRange(0, 2).Draw(rt, "nDevs"); i > 0; i-- {
				k := pick(rt, "dev", pool)
				if !seen[k.Addr.String()] {
					seen[k.Addr.String()] = true
					devs = append(devs, k)
				}
			}
			e := w.C.EpochStart()
			if _, err := addProject(w, cn, name, true, nil, devs, nil); err == nil {
				id := projID(cn, name)
				m.born(id, e)
				for _, k := range devs {
					if m.pending(k.Addr.String(), e) {
						m.uncertain[k.Addr.String()] = true
						cls["key-readded-while-removal-pending"]++
					}
					m.set(k.Addr.String(), e, id)
					noteOwner(k.Addr.String(), id)
				}
				cls["project-created"]++
			}
		},
		"delProject": func(rt *rapid.T) {
			cn := pick(rt, "consumer", conss)
			name := pick(rt, "projName", names)
			ne := nextEpoch()
			if err := delProject(w, cn, name); err == nil {
				id := projID(cn, name)
				m.dies(id, ne)
				for _, k := range allKeys {
					if m.at(k.Addr.String(), ne) == id {
						m.set(k.Addr.String(), ne, "")
					}
				}
				cls["project-deleted"]++
			}
		},
		"addKeys": func(rt *rapid.T) {
			cn, _, id := drawProject(rt)
			k := pick(rt, "key", pool)
			var free []sigs.Account
			for _, x := range pool {
				if m.at(x.Addr.String(), w.C.EpochStart()) == "" {
					free = append(free, x)
				}
			}
			if len(free) > 0 && rapid.Bool().Draw(rt, "freeKey") {
				k = pick(rt, "unregisteredKey", free)
			}
			kind := rapid.SampledFrom([]string{"dev", "dev", "dev", "admin", "both"}).Draw(rt, "kind")
			pk := projectstypes.ProjectDeveloperKey(k.Addr.String())
			switch kind {
			case "admin":
				pk = projectstypes.ProjectAdminKey(k.Addr.String())
			case "both":
				pk = projectstypes.ProjectDeveloperKey(k.Addr.String()).AddType(projectstypes.ProjectKey_ADMIN)
			}
			creator := cn.Addr()
			if rapid.IntRange(0, 4).Draw(rt, "byPoolKey") == 0 {
				creator = pick(rt, "creatorKey", pool).Addr.String()
			}
			e := w.C.EpochStart()
			msg := &projectstypes.MsgAddKeys{Creator: creator, Project: id, ProjectKeys: []projectstypes.ProjectKey{pk}}
			err := w.C.Tx(fmt.Sprintf("addKeys(%s by %s: %s as %s)", projTail(id), short(creator), short(k.Addr.String()), kind), msg.ValidateBasic, func() error {
				_, err := ts.Servers.ProjectServer.AddKeys(ts.GoCtx, msg)
				return err
			})
			if err == nil && kind != "admin" {
				ka := k.Addr.String()
				if m.pending(ka, e) {
					m.uncertain[ka] = true
					cls["key-readded-while-removal-pending"]++
				}
				m.set(ka, e, id)
				noteOwner(ka, id)
				cls["dev-key-added"]++
			}
		},
		"delKeys": func(rt *rapid.T) {
			cn, _, id := drawProject(rt)
			k := pick(rt, "key", allKeys)
			var mine []sigs.Account
			for _, x := range allKeys {
				if m.at(x.Addr.String(), nextEpoch()) == id {
					mine = append(mine, x)
				}
			}
			if len(mine) > 0 && rapid.IntRange(0, 4).Draw(rt, "anyKey") > 0 {
				k = pick(rt, "ownKey", mine)
			}
			kind := rapid.SampledFrom([]string{"dev", "dev", "dev", "admin"}).Draw(rt, "kind")
			pk := projectstypes.ProjectDeveloperKey(k.Addr.String())
			if kind == "admin" {
				pk = projectstypes.ProjectAdminKey(k.Addr.String())
			}
			creator := cn.Addr()
			if rapid.IntRange(0, 4).Draw(rt, "byPoolKey") == 0 {
				creator = pick(rt, "creatorKey", pool).Addr.String()
			}
			ne := nextEpoch()
			msg := &projectstypes.MsgDelKeys{Creator: creator, Project: id, ProjectKeys: []projectstypes.ProjectKey{pk}}
			err := w.C.Tx(fmt.Sprintf("delKeys(%s by %s: %s as %s)", projTail(id), short(creator), short(k.Addr.String()), kind), msg.ValidateBasic, func() error {
				_, err := ts.Servers.ProjectServer.DelKeys(ts.GoCtx, msg)
				return err
			})
			if err == nil && kind == "dev" {
				m.set(k.Addr.String(), ne, "")
				cls["dev-key-removed"]++
			}
		},
		"pay": func(rt *rapid.T) {
			k := pick(rt, "signer", allKeys)
			ka := k.Addr.String()
			epoch := pick(rt, "epoch", w.EpochsInMemory())
			chainID := w.Specs[0].Index
			var staked []*chain.Prov
			for _, p := range w.Providers {
				if stakedAt(w, p, chainID, epoch) {
					staked = append(staked, p)
				}
			}
			if len(staked) == 0 {
				rt.Skip("no provider")
			}
			prov := pick(rt, "provider", staked)
			sess++
			cu := uint64(rapid.IntRange(1, 500).Draw(rt, "cu"))
			want := m.at(ka, epoch)
			cn := subOf(want)
			r := chain.RelaySpec{Cons: s1, Signer: k, Prov: prov, Chain: chainID, Epoch: int64(epoch), Session: sess, CuSum: cu, RelayNum: 1}
			if cn != nil {
				r.Cons = cn
			}
			before := takeSnap(w)
			if ev.Excluded(c17Finding) && want != "" {
				// class of the known finding: the project has a (pending) version more than
				// BlocksToSave blocks after the relay's epoch
				bts := ts.Keepers.Epochstorage.BlocksToSaveRaw(ts.Ctx)
				for _, vb := range versionsOf(before.Projs, want) {
					if vb > epoch+bts {
						c.Exclude(c17Finding)
						rt.Skip("class of known finding " + c17Finding)
					}
				}
			}
			dig := w.C.StoreDigests()
			err := sendMsg(w, fmt.Sprintf("pay(model project %q by %s: %s)", projTail(want), prov.Name, r.String()), buildMsg(rt, w, prov, []chain.RelaySpec{r}))
			if err != nil {
				c.Clause("failed-tx-changes-nothing")
				if ok, diff := digestsEqual(dig, w.C.StoreDigests()); !ok {
					rt.Fatalf("%s", ev.Violation("C17", "a failed payment tx changed state (stores: %s)\nhistory:\n  %s", diff, histString(w, 30)))
				}
				cls["relay-rejected"]++
				return
			}
			cls["relay-accepted"]++
			if m.uncertain[ka] {
				return
			}
			c.Clause("accepted-relay-resolves-to-a-live-project")
			if want == "" || !m.projectAlive(want, epoch) {
				rt.Fatalf("%s", ev.Violation("C17", "a relay signed by key %s for epoch %d was accepted although by the history the key belongs to no live project at that epoch (timeline %v)\nhistory:\n  %s", short(ka), epoch, m.keyEvents[ka], histString(w, 30)))
			}
			c.Clause("relay-charged-exactly-once-in-every-version-of-the-snapshot")
			after := takeSnap(w)
			cr := credit{Key: uKey{epoch, prov.Addr(), want, chainID, sess}, Cons: cn.Addr(), Block: epoch, CuSum: cu, Tracked: &cu}
			if d := compareCharges(before, after, []credit{cr}, false); d != "" {
				rt.Fatalf("%s", ev.Violation("C17", "accepted relay of key %s (project %s by the history), CuSum %d: the counters did not move by exactly one charge to that project (every version from the relay epoch on, same snapshot) and its subscription: %s\nhistory:\n  %s", short(ka), projTail(want), cu, d, histString(w, 30)))
			}
			charged++
			if len(versionsOf(after.Projs, want)) > 1 {
				cls["charged-project-with-several-versions"]++
			}
		},
		"blocks": func(rt *rapid.T) {
			n := rapid.SampledFrom([]int{1, 2, 5}).Draw(rt, "blocks")
			w.C.Logf("advanceBlocks(%d)", n)
			w.C.AdvanceBlocks(n, 0)
		},
		"epoch": func(rt *rapid.T) {
			n := rapid.SampledFrom([]int{1, 1, 1, 2, 3}).Draw(rt, "epochs")
			w.C.Logf("advanceEpochs(%d)", n)
			w.C.AdvanceEpochs(n)
		},
		"month": func(rt *rapid.T) {
			if rapid.IntRange(0, 3).Draw(rt, "really") != 0 {
				rt.Skip("rare action")
			}
			w.C.Logf("advanceMonth")
			for i := 0; i < 31 && w.C.Halt == ""; i++ {
				w.C.AdvanceBlock(24 * time.Hour)
			}
			cls["month-passed"]++
		},
		"": func(rt *rapid.T) {
			if w.C.Halt != "" {
				rt.Skip("chain halted (C37 reports it)")
			}
			check()
		},
	}
	acts["pay2"], acts["addKeys2"], acts["delKeys2"] = acts["pay"], acts["addKeys"], acts["delKeys"]
	rt.Repeat(acts)

	nt := moved >= 1 && charged >= 1
	c.Case(nt, strings.Join(w.C.Hist, "|"), sortedKeys(cls)...)
	for k, v := range cls {
		c.AddExtra("events:"+k, v)
	}
	if nt {
		c.Sample(map[string]any{"history_tail": w.C.HistTail(14), "classes": cls})
	}
}

// TestC17Known_chargeSkipsPendingVersion is the deterministic witness of the known finding
// c17-charge-skips-pending-version: ChargeComputeUnitsToProject (x/projects/keeper/project.go)
// propagates a charge only to versions at most BlocksToSave blocks after the relay's epoch, so a
// relay of the earliest epoch in memory does not reach a version pending for the next epoch start
// (BlocksToSave + EpochBlocks later), although it belongs to the same monthly snapshot.
func TestC17Known_chargeSkipsPendingVersion(t *testing.T) {
	msg := rapid.Custom(func(rt *rapid.T) string {
		w := chain.NewWorld(rt, t, chain.Cfg{Specs: [2]int{1, 1}, Plans: [2]int{1, 1}, Validators: [2]int{1, 1}, Providers: [2]int{2, 2}, Consumers: [2]int{1, 1}, Seed: 7})
		addPlan(rt, w, "open", openPolicy(), 4)
		cons, admin := addConsumer(rt, w, "S1", "open", 3)
		extra := w.NewAccount(0)
		w.C.AdvanceEpoch()
		first := w.C.EpochStart()
		ts := w.C.TS
		bts := ts.Keepers.Epochstorage.BlocksToSaveRaw(ts.Ctx)
		for w.C.EpochStart() < first+bts {
			w.C.AdvanceEpoch()
		}
		// now `first` is the earliest epoch in memory
		if earliestEpoch(w) != first {
			harnessFatal(rt, "earliest epoch is %d, expected %d", earliestEpoch(w), first)
		}
		// a key change that creates a project version pending for the next epoch start
		add := &projectstypes.MsgAddKeys{Creator: cons.Addr(), Project: admin.ID, ProjectKeys: []projectstypes.ProjectKey{projectstypes.ProjectDeveloperKey(extra.Addr.String())}}
		if err := w.C.Tx("addKeys", add.ValidateBasic, func() error { _, err := ts.Servers.ProjectServer.AddKeys(ts.GoCtx, add); return err }); err != nil {
			harnessFatal(rt, "addKeys: %v", err)
		}
		del := &projectstypes.MsgDelKeys{Creator: cons.Addr(), Project: admin.ID, ProjectKeys: []projectstypes.ProjectKey{projectstypes.ProjectDeveloperKey(extra.Addr.String())}}
		if err := w.C.Tx("delKeys", del.ValidateBasic, func() error { _, err := ts.Servers.ProjectServer.DelKeys(ts.GoCtx, del); return err }); err != nil {
			harnessFatal(rt, "delKeys: %v", err)
		}
		chainID := w.Specs[0].Index
		var prov *chain.Prov
		for _, p := range w.Providers {
			if stakedAt(w, p, chainID, first) {
				prov = p
			}
		}
		if prov == nil {
			harnessFatal(rt, "no provider staked at epoch %d", first)
		}
		before := takeSnap(w)
		cu := uint64(77)
		r := chain.RelaySpec{Cons: cons, Signer: cons.Acc, Prov: prov, Chain: chainID, Epoch: int64(first), Session: 1, CuSum: cu, RelayNum: 1}
		if err := sendMsg(w, "pay("+r.String()+")", buildMsg(rt, w, prov, []chain.RelaySpec{r})); err != nil {
			harnessFatal(rt, "the relay of the earliest epoch was rejected: %v", err)
		}
		after := takeSnap(w)
		cr := credit{Key: uKey{first, prov.Addr(), admin.ID, chainID, 1}, Cons: cons.Addr(), Block: first, CuSum: cu, Tracked: &cu}
		if d := compareCharges(before, after, []credit{cr}, false); d != "" {
			return fmt.Sprintf("relay of the earliest epoch in memory (%d, height %d, CuSum %d) while the project has a version pending for the next epoch: %s", first, w.C.Height(), cu, d)
		}
		return ""
	}).Example(1)
	if msg != "" {
		t.Fatalf("%s", ev.Violation("C17", "%s", msg))
	}
}
