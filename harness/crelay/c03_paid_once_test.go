package crelay

import (
	"fmt"
	"sort"
	"strings"
	"testing"

	"github.com/lavanet/lava/v5/utils/sigs"
	pairingtypes "github.com/lavanet/lava/v5/x/pairing/types"
	subscriptiontypes "github.com/lavanet/lava/v5/x/subscription/types"
	"pgregory.net/rapid"

	"verifharness/internal/chain"
	"verifharness/internal/ev"
)

// C03: a given (epoch, provider, project, chain, session id) is credited at most once, across the
// same proof repeated in one tx, resubmitted in later blocks/epochs, or re-signed with a
// different CuSum; after its epoch left chain memory it can no longer be credited.
//
// Model: the set of credited keys. What "credited" means is observed on every counter the payment
// moves: ProviderEpochCu, ProviderConsumerEpochCu, tracked CU, project UsedCu (all versions),
// subscription MonthCuLeft (all versions). After a successful tx the movement of all of them must
// be explained exactly by a set of relays of the tx whose keys are new (never credited before, not
// repeated inside the tx, epoch in memory, authentic); after a failed tx nothing may have moved.

type c03Relay struct {
	spec      chain.RelaySpec
	key       uKey
	cons      string
	known     bool // signer is a registered developer key
	keyOK     bool // epoch start could be resolved
	creditble bool
}

type c03Model struct {
	credited map[uKey]uint64 // key -> CuSum credited
	keyProj  map[string]*proj
}

func TestC03(t *testing.T) {
	c := ev.For("C03")
	c.SetRule("rapid state machine: payment txs (1-4 relays, session ids from a pool of 6, CuSum from 4 values) by 2-3 providers for 1-2 consumers with 1-2 projects each on 1-2 chains, epochs drawn from chain memory and from remembered epochs that already left it; relays are fresh, copies of a relay of the same tx, replays of earlier proofs or re-signed with another CuSum; whole earlier messages are re-sent; interleaved with block/epoch advances incl. jumps beyond EpochsToSave; non-trivial = at least one accepted payment and at least one later attempt to get an already credited key paid again; distinct = distinct histories")
	c.Assume("plans have CU limits far above the CU sent, so the credited CU of an accepted relay is its CuSum (limits are C04's subject)",
		"epoch parameters stay at their defaults (EpochBlocks 20, EpochsToSave 10); no month boundary is crossed",
		"transactions run atomically (cache context), as under BaseApp")
	rapid.Check(t, func(rt *rapid.T) { propC03(rt, t, c) })
}

func propC03(rt *rapid.T, t *testing.T, c *ev.Collector) {
	w := chain.NewWorld(rt, t, chain.Cfg{Specs: [2]int{1, 2}, Plans: [2]int{1, 1}, Validators: [2]int{1, 1}, Providers: [2]int{2, 3}, Consumers: [2]int{1, 1}})
	addPlan(rt, w, "open", openPolicy(), 5)
	m := &c03Model{credited: map[uKey]uint64{}, keyProj: map[string]*proj{}}
	var projs []*proj
	nCons := rapid.IntRange(1, 2).Draw(rt, "nOwnConsumers")
	for i := 0; i < nCons; i++ {
		cons, admin := addConsumer(rt, w, fmt.Sprintf("own%d", i), "open", 1)
		projs = append(projs, admin)
		if rapid.Bool().Draw(rt, fmt.Sprintf("own%d_secondProject", i)) {
			devs := []sigs.Account{w.NewAccount(0)}
			if rapid.Bool().Draw(rt, fmt.Sprintf("own%d_twoKeys", i)) {
				devs = append(devs, w.NewAccount(0))
			}
			p, err := addProject(w, cons, "second", true, nil, devs, nil)
			if err != nil {
				harnessFatal(rt, "addProject failed: %v", err)
			}
			projs = append(projs, p)
		}
	}
	for _, p := range projs {
		for _, k := range p.Keys {
			m.keyProj[k.Addr.String()] = p
		}
	}
	stranger := w.NewAccount(0)
	w.C.AdvanceEpoch()
	w.C.Hist = nil

	pastEpochs := []uint64{w.C.EpochStart()}
	noteEpoch := func() {
		e := w.C.EpochStart()
		if pastEpochs[len(pastEpochs)-1] != e {
			pastEpochs = append(pastEpochs, e)
		}
	}
	var sentRelays []chain.RelaySpec             // every relay ever put into an accepted tx
	var sentMsgs []*pairingtypes.MsgRelayPayment // accepted messages
	var sentMsgRelays [][]chain.RelaySpec
	var lastAfter *snap
	cls := map[string]int{}
	dupAttempts, accepted := 0, 0

	// continuity: between transactions nothing relay-related moves for epochs in memory.
	continuity := func() {
		if lastAfter == nil {
			return
		}
		now := takeSnap(w)
		early := earliestEpoch(w)
		c.Clause("between-txs-state-stable")
		for k := range lastAfter.Unique {
			if k.Epoch >= early && !now.Unique[k] {
				rt.Fatalf("%s", ev.Violation("C03", "paid-session record %s of an epoch still in memory (earliest %d) vanished between transactions, so the session can be paid again\nhistory:\n  %s", k, early, histString(w, 30)))
			}
		}
		for k := range now.Unique {
			if !lastAfter.Unique[k] {
				rt.Fatalf("%s", ev.Violation("C03", "paid-session record %s appeared outside a transaction\nhistory:\n  %s", k, histString(w, 30)))
			}
		}
		for k, v := range lastAfter.Pec {
			if k.Epoch >= early && now.Pec[k] != v {
				rt.Fatalf("%s", ev.Violation("C03", "ProviderEpochCu %v changed between transactions %d -> %d\nhistory:\n  %s", k, v, now.Pec[k], histString(w, 30)))
			}
		}
		for k, v := range lastAfter.Pcec {
			if k.Epoch >= early && now.Pcec[k] != v {
				rt.Fatalf("%s", ev.Violation("C03", "ProviderConsumerEpochCu %v changed between transactions %d -> %d\nhistory:\n  %s", k, v, now.Pcec[k], histString(w, 30)))
			}
		}
		if d := diffMaps(lastAfter.Tracked, now.Tracked); len(d) > 0 {
			rt.Fatalf("%s", ev.Violation("C03", "tracked CU changed between transactions: %v\nhistory:\n  %s", d, histString(w, 30)))
		}
		if d := diffMaps(lastAfter.Projs, now.Projs); len(d) > 0 {
			rt.Fatalf("%s", ev.Violation("C03", "project usage changed between transactions: %v\nhistory:\n  %s", d, histString(w, 30)))
		}
		if d := diffMaps(lastAfter.Subs, now.Subs); len(d) > 0 {
			rt.Fatalf("%s", ev.Violation("C03", "subscription CU changed between transactions: %v\nhistory:\n  %s", d, histString(w, 30)))
		}
		lastAfter = now
	}

	resolve := func(r chain.RelaySpec, sender *chain.Prov, seen map[uKey]bool) c03Relay {
		out := c03Relay{spec: r}
		p, known := m.keyProj[r.Signer.Addr.String()]
		out.known = known && r.Badge == nil
		if r.Epoch < 0 || uint64(r.Epoch) > w.C.Height() {
			return out
		}
		es, ok := epochStartOf(w, uint64(r.Epoch))
		if !ok {
			return out
		}
		out.keyOK = true
		if !out.known {
			return out
		}
		out.key = uKey{es, r.Prov.Addr(), p.ID, r.Chain, r.Session}
		out.cons = p.Cons.Addr()
		_, already := m.credited[out.key]
		out.creditble = r.Prov == sender && es >= earliestEpoch(w) && !already && !seen[out.key]
		return out
	}

	// deliver sends msg and checks the oracle.
	deliver := func(sender *chain.Prov, relays []chain.RelaySpec, msg *pairingtypes.MsgRelayPayment, label string) {
		continuity()
		// the creator of a message is an account: its upper-case bech32 spelling names the same
		// signer (accepted by AccAddressFromBech32 / GetSigners) and is sent 1 time in 4
		upper := false
		if rapid.IntRange(0, 3).Draw(rt, "upperCaseCreator") == 0 {
			cp := *msg
			cp.Creator = strings.ToUpper(sender.Addr())
			msg = &cp
			label += "[CREATOR-UPPER-CASE]"
			upper = true
			cls["creator-upper-case"]++
		} else if msg.Creator != sender.Addr() {
			cp := *msg
			cp.Creator = sender.Addr()
			msg = &cp
		}
		seen := map[uKey]bool{}
		var rs []c03Relay
		for _, r := range relays {
			x := resolve(r, sender, seen)
			if x.known && x.keyOK {
				if _, already := m.credited[x.key]; already || seen[x.key] {
					dupAttempts++
					if upper {
						cls["replay-with-creator-upper-case"]++
					}
					if seen[x.key] {
						cls["dup-inside-tx"]++
					} else if x.key.Epoch < earliestEpoch(w) {
						cls["replay-after-memory-expiry"]++
					} else if m.credited[x.key] != r.CuSum {
						cls["resigned-different-cu"]++
					} else {
						cls["replay-later"]++
					}
				} else if x.key.Epoch < earliestEpoch(w) {
					cls["fresh-key-out-of-memory"]++
				}
				seen[x.key] = true
			}
			rs = append(rs, x)
		}
		before := takeSnap(w)
		digBefore := w.C.StoreDigests()
		err := sendMsg(w, label+"(by "+sender.Name+": "+relaysDesc(relays)+")", msg)
		if err != nil {
			cls["tx-failed"]++
			c.Clause("failed-tx-changes-nothing")
			if ok, diff := digestsEqual(digBefore, w.C.StoreDigests()); !ok {
				rt.Fatalf("%s", ev.Violation("C03", "a failed payment tx changed state (stores: %s)\nhistory:\n  %s", diff, histString(w, 30)))
			}
			lastAfter = before
			return
		}
		cls["tx-accepted"]++
		accepted++
		after := takeSnap(w)
		// newly recorded sessions
		var newKeys []uKey
		for k := range after.Unique {
			if !before.Unique[k] {
				newKeys = append(newKeys, k)
			}
		}
		for k := range before.Unique {
			if !after.Unique[k] {
				rt.Fatalf("%s", ev.Violation("C03", "paid-session record %s removed by a payment tx\nhistory:\n  %s", k, histString(w, 30)))
			}
		}
		sort.Slice(newKeys, func(i, j int) bool { return newKeys[i].String() < newKeys[j].String() })
		// every new key must come from a creditable relay of the tx
		cands := map[uKey][]c03Relay{}
		for _, x := range rs {
			if x.known && x.keyOK {
				cands[x.key] = append(cands[x.key], x)
			}
		}
		c.Clause("new-record-only-for-new-key-in-memory")
		for _, k := range newKeys {
			ok := false
			for _, x := range cands[k] {
				if x.creditble {
					ok = true
				}
			}
			if !ok {
				why := "no relay of the tx has this key"
				if v, already := m.credited[k]; already {
					why = fmt.Sprintf("the key was already credited (CuSum %d)", v)
				} else if k.Epoch < earliestEpoch(w) {
					why = fmt.Sprintf("its epoch is older than the earliest epoch in memory %d", earliestEpoch(w))
				} else if len(cands[k]) > 0 {
					why = "the relay names another provider than the sender"
				}
				rt.Fatalf("%s", ev.Violation("C03", "session %s was credited although %s\nhistory:\n  %s", k, why, histString(w, 30)))
			}
		}
		// all counters must be explained by exactly the new keys (each once)
		c.Clause("counters-move-by-new-keys-exactly-once")
		var firstDiff string
		matched := false
		var chosen []credit
		var try func(i int, acc []credit)
		try = func(i int, acc []credit) {
			if matched {
				return
			}
			if i == len(newKeys) {
				if d := c03Compare(before, after, acc); d == "" {
					matched = true
					chosen = append([]credit{}, acc...)
				} else if firstDiff == "" {
					firstDiff = d
				}
				return
			}
			tried := map[uint64]bool{}
			for _, x := range cands[newKeys[i]] {
				// copies inside the tx are candidates too: which copy gets credited is not prescribed
				if tried[x.spec.CuSum] {
					continue
				}
				tried[x.spec.CuSum] = true
				cu := x.spec.CuSum
				try(i+1, append(acc, credit{Key: x.key, Cons: x.cons, Block: uint64(x.spec.Epoch), CuSum: cu, Tracked: &cu}))
			}
		}
		try(0, nil)
		if !matched {
			rt.Fatalf("%s", ev.Violation("C03", "after an accepted payment tx the counters do not equal 'before + each newly credited session once' (newly recorded sessions: %v): %s\nhistory:\n  %s", newKeys, firstDiff, histString(w, 30)))
		}
		for _, cr := range chosen {
			m.credited[cr.Key] = cr.CuSum
		}
		sentRelays = append(sentRelays, relays...)
		if len(sentMsgs) < 40 {
			sentMsgs = append(sentMsgs, msg)
			sentMsgRelays = append(sentMsgRelays, relays)
		}
		lastAfter = after
	}

	genRelay := func(rt *rapid.T, prov *chain.Prov, clean bool) chain.RelaySpec {
		p := pick(rt, "project", projs)
		signer := pick(rt, "key", p.Keys)
		chainID := pick(rt, "chain", w.Specs).Index
		mem := w.EpochsInMemory()
		block := int64(mem[0])
		ek := rapid.IntRange(0, 9).Draw(rt, "epochKind")
		if clean {
			if cs := w.ChainsOf(prov); len(cs) > 0 {
				chainID = pick(rt, "stakedChain", cs)
			}
			if ek > 2 {
				ek = 9
			}
		}
		switch ek {
		case 0, 1, 2:
			block = int64(pick(rt, "memEpoch", mem))
		case 3:
			block = int64(pick(rt, "anyPastEpoch", pastEpochs))
		case 4:
			if uint64(block) < w.C.Height() {
				block++
			}
		}
		return chain.RelaySpec{Cons: p.Cons, Signer: signer, Prov: prov, Chain: chainID, Epoch: block,
			Session: uint64(rapid.IntRange(1, 6).Draw(rt, "session")), CuSum: pick(rt, "cu", []uint64{1, 7, 100, 5000}),
			RelayNum: uint64(rapid.IntRange(0, 3).Draw(rt, "relayNum"))}
	}

	acts := map[string]func(*rapid.T){
		"pay": func(rt *rapid.T) {
			prov := pick(rt, "provider", w.Providers)
			n := rapid.SampledFrom([]int{1, 1, 2, 3, 4}).Draw(rt, "nRelays")
			clean := rapid.Bool().Draw(rt, "cleanTx") // only fresh relays of a provider staked on the chain
			var relays []chain.RelaySpec
			for i := 0; i < n; i++ {
				kind := rapid.IntRange(0, 9).Draw(rt, "relayKind")
				if clean {
					kind = 9
				}
				switch {
				case kind <= 1 && len(relays) > 0: // same proof again inside the tx (maybe re-signed)
					r := pick(rt, "copyOf", relays)
					if rapid.IntRange(0, 2).Draw(rt, "copyResign") == 0 {
						r.CuSum += uint64(rapid.IntRange(1, 50).Draw(rt, "copyCuDelta"))
					}
					relays = append(relays, r)
				case kind <= 4 && len(sentRelays) > 0: // proof of an earlier accepted tx
					var mine []chain.RelaySpec
					for _, r := range sentRelays {
						if r.Prov == prov {
							mine = append(mine, r)
						}
					}
					pool := sentRelays
					if len(mine) > 0 && rapid.IntRange(0, 7).Draw(rt, "replayOther") > 0 {
						pool = mine
					}
					r := pick(rt, "replayOf", pool)
					switch rapid.IntRange(0, 3).Draw(rt, "replayResign") {
					case 0:
						r.CuSum += uint64(rapid.IntRange(1, 50).Draw(rt, "replayCuDelta"))
					case 1:
						r.RelayNum++
					}
					relays = append(relays, r)
				case kind == 5 && rapid.IntRange(0, 2).Draw(rt, "stranger") == 0: // unauthentic relay: fails the tx
					r := genRelay(rt, prov, false)
					r.Signer = stranger
					relays = append(relays, r)
				default:
					relays = append(relays, genRelay(rt, prov, clean))
				}
			}
			sender := prov
			if !clean && rapid.IntRange(0, 9).Draw(rt, "otherSender") == 0 {
				sender = pick(rt, "sender", w.Providers)
			}
			deliver(sender, relays, buildMsg(rt, w, sender, relays), "pay")
		},
		"resend": func(rt *rapid.T) {
			if len(sentMsgs) == 0 {
				rt.Skip("nothing sent yet")
			}
			i := rapid.IntRange(0, len(sentMsgs)-1).Draw(rt, "msg")
			msg := sentMsgs[i]
			sender := w.ProvByAddr(strings.ToLower(msg.Creator))
			deliver(sender, sentMsgRelays[i], msg, "resend")
		},
		"blocks": func(rt *rapid.T) {
			n := rapid.SampledFrom([]int{1, 2, 5}).Draw(rt, "blocks")
			w.C.Logf("advanceBlocks(%d)", n)
			w.C.AdvanceBlocks(n, 0)
			noteEpoch()
		},
		"epoch": func(rt *rapid.T) {
			n := rapid.SampledFrom([]int{1, 1, 1, 1, 1, 2, 2, 3, 11}).Draw(rt, "epochs")
			w.C.Logf("advanceEpochs(%d)", n)
			for i := 0; i < n; i++ {
				w.C.AdvanceEpoch()
				noteEpoch()
			}
		},
		"": func(rt *rapid.T) {
			if w.C.Halt != "" {
				rt.Skip("chain halted (C37 reports it)")
			}
		},
	}
	acts["pay2"], acts["pay3"] = acts["pay"], acts["pay"]
	rt.Repeat(acts)
	continuity()

	nt := accepted >= 1 && dupAttempts >= 1
	var classes []string
	for _, k := range sortedKeys(cls) {
		classes = append(classes, k)
	}
	if len(w.Specs) > 1 {
		classes = append(classes, "two-chains")
	}
	if len(projs) > nCons {
		classes = append(classes, "second-project")
	}
	c.Case(nt, strings.Join(w.C.Hist, "|"), classes...)
	for k, v := range cls {
		c.AddExtra("relays/txs:"+k, v)
	}
	if nt {
		c.Sample(map[string]any{"history_tail": w.C.HistTail(15), "credited_keys": len(m.credited), "dup_attempts": dupAttempts, "accepted_txs": accepted, "classes": cls})
	}
}

// c03Compare returns "" if after == expectAfter(before, credits) on every counter.
func c03Compare(before, after *snap, credits []credit) string {
	return compareCharges(before, after, credits, true)
}

// compareCharges: withTracked=false leaves the tracked-CU (monthly payout) counters out.
func compareCharges(before, after *snap, credits []credit, withTracked bool) string {
	pec, pcec, projs, subs, err := expectAfter(before, credits)
	if err != nil {
		return "cannot compute the expected state: " + err.Error()
	}
	if d := diffMaps(pec, after.Pec); len(d) > 0 {
		return fmt.Sprintf("ProviderEpochCu %v", d)
	}
	if d := diffMaps(pcec, after.Pcec); len(d) > 0 {
		return fmt.Sprintf("ProviderConsumerEpochCu %v", d)
	}
	if d := diffMaps(projs, after.Projs); len(d) > 0 {
		return fmt.Sprintf("project UsedCu per version %v", d)
	}
	if d := diffMaps(subs, after.Subs); len(d) > 0 {
		return fmt.Sprintf("subscription MonthCuLeft per version %v", d)
	}
	if !withTracked {
		return ""
	}
	// tracked CU: each credit adds its (predicted) tracked amount to (sub, provider, chain) at the
	// subscription block of the subscription version in force at the relay block
	want := map[verKey]uint64{}
	slack := map[verKey]uint64{} // relays whose tracked amount is only bounded by CuSum (QoS-adjusted)
	for k, v := range before.Tracked {
		want[k] = v
	}
	for _, c := range credits {
		sb, ok := versionAt(before.Subs, c.Cons, c.Block)
		if !ok {
			return "no subscription version for tracked CU"
		}
		idx := subscriptiontypes.CuTrackerKey(c.Cons, c.Key.Prov, c.Key.Chain)
		vk := verKey{idx, before.Subs[verKey{c.Cons, sb}].SubBlock}
		if c.Tracked != nil {
			want[vk] += *c.Tracked
		} else {
			want[vk] += 0
			slack[vk] += c.CuSum
		}
	}
	var d []string
	for k, wv := range want {
		gv, ok := after.Tracked[k]
		if !ok && (wv != 0 || slack[k] == 0) {
			d = append(d, fmt.Sprintf("%v: want %d, missing", k, wv))
		} else if gv < wv || gv > wv+slack[k] {
			d = append(d, fmt.Sprintf("%v: want %d..%d, got %d", k, wv, wv+slack[k], gv))
		}
	}
	for k, gv := range after.Tracked {
		if _, ok := want[k]; !ok {
			d = append(d, fmt.Sprintf("%v: unexpected %d", k, gv))
		}
	}
	if len(d) > 0 {
		sort.Strings(d)
		return fmt.Sprintf("tracked CU %v", d)
	}
	return ""
}

func sortedKeys[V any](m map[string]V) []string {
	out := make([]string, 0, len(m))
	for k := range m {
		out = append(out, k)
	}
	sort.Strings(out)
	return out
}
