package crelay

import (
	"fmt"
	"strings"
	"testing"
	"time"

	sdk "github.com/cosmos/cosmos-sdk/types"
	"github.com/lavanet/lava/v5/utils/sigs"
	planstypes "github.com/lavanet/lava/v5/x/plans/types"
	"pgregory.net/rapid"

	"verifharness/internal/chain"
	"verifharness/internal/ev"
)

// C04: for every accepted relay the CU credited to the provider (tracked for the monthly payout)
// is at most the CuSum the consumer signed; the total credited to one provider for one project in
// one epoch (per chain) is at most the project's per-epoch CU allowance (the smallest epoch limit
// among plan, subscription policy and admin policy in force at the relay's epoch) times the
// downtime factor of that epoch; QoS adjustment only lowers the credit.

const c04Finding = "c04-total-cu-branch"

type c04Group struct {
	Epoch uint64
	Prov  string
	Proj  string
	Chain string
}

type c04Proj struct {
	*proj
	plan planstypes.Policy
}

// policiesAt returns the policies in force for the project at block (raw project state + the
// fixture's plan policy).
func c04PoliciesAt(w *chain.World, p *c04Proj, block uint64) ([]*planstypes.Policy, bool) {
	pr, err := w.C.TS.GetProjectForBlock(p.ID, block)
	if err != nil {
		return nil, false
	}
	plan := p.plan
	return []*planstypes.Policy{&plan, pr.AdminPolicy, pr.SubscriptionPolicy}, true
}

func minNonZero(vals ...uint64) uint64 {
	m := uint64(0)
	for _, v := range vals {
		if v != 0 && (m == 0 || v < m) {
			m = v
		}
	}
	return m
}

func c04Limits(pols []*planstypes.Policy) (epochLimit, totalLimit uint64) {
	var es, ts []uint64
	for _, p := range pols {
		if p != nil {
			es = append(es, p.EpochCuLimit)
			ts = append(ts, p.TotalCuLimit)
		}
	}
	return minNonZero(es...), minNonZero(ts...)
}

// downtimeFactor: the chain's downtime factor of an epoch = recorded downtime of the epoch divided
// by the epoch duration parameter, plus one (raw downtime state).
func downtimeFactor(w *chain.World, epoch uint64) uint64 {
	d, ok := w.C.TS.Keepers.Downtime.GetDowntime(w.C.TS.Ctx, epoch)
	if !ok {
		return 1
	}
	return uint64(d/w.C.TS.Keepers.Downtime.GetParams(w.C.TS.Ctx).EpochDuration) + 1
}

func TestC04(t *testing.T) {
	c := ev.For("C04")
	c.SetRule("rapid state machine: a plan with drawn total/epoch CU limits, 1-2 consumers with an admin project and optionally a second project created with its own (lower) limits; actions: payment tx of 1-3 relays of one (project, chain, epoch, provider) with CuSum drawn from {1, small, epoch-allowance-left -1/0/+1, epoch allowance, total-limit-left -1/0/+1, huge} and optional QoS report in [0,1]; SetPolicy / SetSubscriptionPolicy with drawn limits (0 = none); block and epoch advances; block-time gaps that record downtime; non-trivial = some accepted relay was credited less than its CuSum because a limit was reached (or crossed the total limit); distinct = distinct histories")
	c.Assume("CuSum <= 2^40 (no uint64 overflow of the accumulated counters)",
		"'one provider, one project, one epoch' is taken per chain, as the epoch-payment records are",
		"the per-epoch allowance is the smallest non-zero EpochCuLimit among plan policy, subscription policy and admin policy of the project version in force at the relay's epoch",
		"no month boundary is crossed; epoch parameters stay at their defaults")
	rapid.Check(t, func(rt *rapid.T) { propC04(rt, t, c, ev.Excluded(c04Finding)) })
}

type c04World struct {
	w      *chain.World
	projs  []*c04Proj
	credit map[c04Group]uint64 // sum of tracked CU credited per group
	sess   uint64
}

func newC04World(rt *rapid.T, t *testing.T) *c04World {
	w := chain.NewWorld(rt, t, chain.Cfg{Specs: [2]int{1, 2}, Plans: [2]int{1, 1}, Validators: [2]int{1, 1}, Providers: [2]int{2, 3}, Consumers: [2]int{1, 1}})
	total := uint64(rapid.SampledFrom([]int{2000, 100_000, 10_000_000}).Draw(rt, "planTotal"))
	epoch := uint64(rapid.SampledFrom([]int{10, 50, 200}).Draw(rt, "planEpoch"))
	if epoch > total {
		epoch = total
	}
	pol := planstypes.Policy{TotalCuLimit: total, EpochCuLimit: epoch, MaxProvidersToPair: 12, GeolocationProfile: 1}
	addPlan(rt, w, "lim", pol, 5)
	cw := &c04World{w: w, credit: map[c04Group]uint64{}, sess: 1}
	n := rapid.IntRange(1, 2).Draw(rt, "nOwnConsumers")
	for i := 0; i < n; i++ {
		cons, admin := addConsumer(rt, w, fmt.Sprintf("own%d", i), "lim", 1)
		cw.projs = append(cw.projs, &c04Proj{proj: admin, plan: pol})
		if rapid.Bool().Draw(rt, fmt.Sprintf("own%d_secondProject", i)) {
			pp := c04GenPolicy(rt, "secondPol", total, epoch)
			p, err := addProject(w, cons, "second", true, pp, []sigs.Account{w.NewAccount(0)}, nil)
			if err != nil {
				harnessFatal(rt, "addProject: %v", err)
			}
			cw.projs = append(cw.projs, &c04Proj{proj: p, plan: pol})
		}
	}
	w.C.AdvanceEpoch()
	w.C.Hist = nil
	return cw
}

// c04GenPolicy draws a project policy; limits relative to the plan's, 0 = no limit of its own.
func c04GenPolicy(rt *rapid.T, label string, planTotal, planEpoch uint64) *planstypes.Policy {
	total := pick(rt, label+"_total", []uint64{0, 30, 100, planTotal / 2, planTotal, planTotal * 2})
	epoch := pick(rt, label+"_epoch", []uint64{0, 5, 20, planEpoch / 2, planEpoch, planEpoch * 2})
	if total != 0 && epoch > total {
		epoch = total
	}
	if total == 0 && epoch != 0 {
		// EpochCuLimit > TotalCuLimit is rejected by ValidateBasic, a zero total with a non-zero epoch too
		total = epoch * 10
	}
	return &planstypes.Policy{TotalCuLimit: total, EpochCuLimit: epoch, MaxProvidersToPair: 12, GeolocationProfile: 1}
}

func propC04(rt *rapid.T, t *testing.T, c *ev.Collector, excludeFinding bool) {
	cw := newC04World(rt, t)
	w := cw.w
	cls := map[string]int{}
	limited, accepted := 0, 0

	pay := func(rt *rapid.T) {
		p := pick(rt, "project", cw.projs)
		chainID := pick(rt, "chain", w.Specs).Index
		mem := w.EpochsInMemory()
		epoch := mem[0]
		if rapid.IntRange(0, 3).Draw(rt, "pastEpoch") == 0 {
			epoch = pick(rt, "epoch", mem)
		}
		var staked []*chain.Prov
		for _, pr := range w.Providers {
			if stakedAt(w, pr, chainID, epoch) {
				staked = append(staked, pr)
			}
		}
		if len(staked) == 0 {
			rt.Skip("no provider on chain")
		}
		prov := pick(rt, "provider", staked)
		pols, ok := c04PoliciesAt(w, p, epoch)
		if !ok {
			rt.Skip("project has no version at that epoch")
		}
		allowance, totalLimit := c04Limits(pols)
		g := c04Group{epoch, prov.Addr(), p.ID, chainID}
		before := takeSnap(w)
		cum := before.Pcec[pcecKey{epoch, prov.Addr(), p.ID, chainID}]
		used := uint64(0)
		if vb, ok := versionAt(before.Projs, p.ID, epoch); ok {
			used = before.Projs[verKey{p.ID, vb}].UsedCu
		}
		factor := downtimeFactor(w, epoch)
		sub := func(a, b uint64) uint64 {
			if a > b {
				return a - b
			}
			return 0
		}
		epochLeft := sub(allowance*factor, cum)
		totalLeft := sub(totalLimit, used)
		n := rapid.SampledFrom([]int{1, 1, 2, 3}).Draw(rt, "nRelays")
		var relays []chain.RelaySpec
		var sum uint64
		qosAllOne := true
		running := cum
		crossesTotal := false
		for i := 0; i < n; i++ {
			var cu uint64
			kind := rapid.IntRange(0, 11).Draw(rt, "cuKind")
			if excludeFinding && kind >= 8 {
				kind -= 5 // these kinds always reach the total limit (class of the known finding)
			}
			switch kind {
			case 0:
				cu = 1
			case 1, 2:
				cu = uint64(rapid.IntRange(2, 20).Draw(rt, "small"))
			case 3:
				cu = sub(epochLeft, 1)
			case 4:
				cu = epochLeft
			case 5:
				cu = epochLeft + 1
			case 6:
				cu = allowance
			case 7:
				cu = sub(totalLeft, 1)
			case 8:
				cu = totalLeft
			case 9:
				cu = totalLeft + 1
			case 10:
				cu = totalLimit + uint64(rapid.IntRange(0, 3).Draw(rt, "overTotal"))
			case 11:
				cu = uint64(1) << uint(rapid.IntRange(20, 40).Draw(rt, "hugeBits"))
			}
			if cu == 0 {
				cu = 1
			}
			cw.sess++
			r := chain.RelaySpec{Cons: p.Cons, Signer: p.Keys[0], Prov: prov, Chain: chainID, Epoch: int64(epoch), Session: cw.sess, CuSum: cu, RelayNum: 1}
			if rapid.IntRange(0, 2).Draw(rt, "withQos") == 0 {
				r.Qos = chain.GenQos(rt, "qos")
				one := sdk.OneDec()
				if !(r.Qos.Latency.Equal(one) && r.Qos.Availability.Equal(one) && r.Qos.Sync.Equal(one)) {
					qosAllOne = false
				}
			}
			running += cu
			if totalLimit != 0 && running >= totalLimit {
				crossesTotal = true
			}
			relays = append(relays, r)
			sum += cu
		}
		if crossesTotal && excludeFinding {
			c.Exclude(c04Finding)
			rt.Skip("class of the known finding: accumulated CuSum of the (epoch, provider, project, chain) reaches the effective total CU limit")
		}
		msg := buildMsg(rt, w, prov, relays)
		dig := w.C.StoreDigests()
		err := sendMsg(w, fmt.Sprintf("pay(allow=%d factor=%d cum=%d total=%d used=%d by %s: %s)", allowance, factor, cum, totalLimit, used, prov.Name, relaysDesc(relays)), msg)
		if err != nil {
			cls["tx-rejected"]++
			if dbg := err.Error(); len(dbg) > 0 {
				if len(dbg) > 90 {
					dbg = dbg[:90]
				}
				c.AddExtra("reject:"+dbg, 1)
			}
			c.Clause("failed-tx-changes-nothing")
			if ok, diff := digestsEqual(dig, w.C.StoreDigests()); !ok {
				rt.Fatalf("%s", ev.Violation("C04", "a failed payment tx changed state (stores: %s)\nhistory:\n  %s", diff, histString(w, 25)))
			}
			return
		}
		accepted++
		cls["tx-accepted"]++
		after := takeSnap(w)
		rewarded := rewardedFromEvents(w)
		for i, r := range relays {
			if rw, ok := rewarded[i]; ok {
				c.Clause("rewardedCU(event)<=CuSum-per-relay")
				if rw > r.CuSum {
					rt.Fatalf("%s", ev.Violation("C04", "relay %s: rewarded CU %d (relay_payment event) exceeds its signed CuSum %d (allowance %d, factor %d, accumulated before %d, project total limit %d, project used %d)\nhistory:\n  %s",
						r.String(), rw, r.CuSum, allowance, factor, cum, totalLimit, used, histString(w, 25)))
				}
			}
		}
		deltas, derr := trackedDelta(before, after)
		if derr != nil {
			rt.Fatalf("%s", ev.Violation("C04", "%v\nhistory:\n  %s", derr, histString(w, 25)))
		}
		var credited uint64
		for k, d := range deltas {
			if !strings.HasPrefix(k.Index, p.Cons.Addr()+" "+prov.Addr()+" "+chainID) {
				rt.Fatalf("%s", ev.Violation("C04", "payment for (%s, %s, %s) moved tracked CU of %v by %d\nhistory:\n  %s", p.Cons.Name, prov.Name, chainID, k, d, histString(w, 25)))
			}
			credited += d
		}
		// clause 1: credited <= signed
		c.Clause("credited<=signed-CuSum")
		if credited > sum {
			rt.Fatalf("%s", ev.Violation("C04", "tracked (credited) CU %d exceeds the CuSum signed by the consumer %d (relays %s; allowance %d, factor %d, accumulated before %d, project total limit %d, project used %d)\nhistory:\n  %s",
				credited, sum, relaysDesc(relays), allowance, factor, cum, totalLimit, used, histString(w, 25)))
		}
		var rewardedSum uint64
		haveAll := true
		for i := range relays {
			rw, ok := rewarded[i]
			if !ok {
				haveAll = false
				continue
			}
			rewardedSum += rw
		}
		// clause 3: QoS only lowers; no QoS report (or a perfect one) keeps the credit
		if haveAll {
			c.Clause("qos-only-lowers")
			if credited > rewardedSum {
				rt.Fatalf("%s", ev.Violation("C04", "tracked CU %d exceeds the CU rewarded before QoS adjustment %d (relays %s)\nhistory:\n  %s", credited, rewardedSum, relaysDesc(relays), histString(w, 25)))
			}
			if qosAllOne {
				c.Clause("perfect-or-no-qos-keeps-credit")
				if credited != rewardedSum {
					rt.Fatalf("%s", ev.Violation("C04", "without QoS reduction the tracked CU %d differs from the rewarded CU %d (relays %s)\nhistory:\n  %s", credited, rewardedSum, relaysDesc(relays), histString(w, 25)))
				}
			}
		}
		// clause 2: per (epoch, provider, project, chain) sum <= allowance * downtime factor
		cw.credit[g] += credited
		factorNow := downtimeFactor(w, epoch)
		c.Clause("epoch-sum<=allowance*downtime-factor")
		if allowance != 0 && cw.credit[g] > allowance*factorNow {
			rt.Fatalf("%s", ev.Violation("C04", "provider %s was credited %d CU in total for project %s on %s in epoch %d, more than the per-epoch allowance %d x downtime factor %d (this tx: credited %d for %s; accumulated CuSum before %d, project total limit %d, project used %d)\nhistory:\n  %s",
				prov.Name, cw.credit[g], projTail(p.ID), chainID, epoch, allowance, factorNow, credited, relaysDesc(relays), cum, totalLimit, used, histString(w, 25)))
		}
		if credited < sum && qosAllOne {
			limited++
			cls["credit-cut-by-limit"]++
		}
		if credited == 0 {
			cls["credited-zero"]++
		}
		if crossesTotal {
			limited++
			cls["reached-total-limit"]++
		}
		if !qosAllOne {
			cls["with-qos<1"]++
		}
		if factor > 1 {
			cls["downtime-factor>1"]++
		}
		if len(relays) > 1 {
			cls["multi-relay-tx"]++
		}
		if epoch != mem[0] {
			cls["past-epoch"]++
		}
	}

	acts := map[string]func(*rapid.T){
		"pay": pay, "pay2": pay, "pay3": pay, "pay4": pay,
		"setPolicy": func(rt *rapid.T) {
			p := pick(rt, "project", cw.projs)
			pol := c04GenPolicy(rt, "pol", p.plan.TotalCuLimit, p.plan.EpochCuLimit)
			if err := setPolicy(w, p.Cons.Addr(), p.ID, pol, rapid.Bool().Draw(rt, "subscriptionPolicy")); err == nil {
				cls["policy-changed"]++
			}
		},
		"blocks": func(rt *rapid.T) {
			n := rapid.SampledFrom([]int{1, 2, 5}).Draw(rt, "blocks")
			w.C.Logf("advanceBlocks(%d)", n)
			w.C.AdvanceBlocks(n, 0)
		},
		"epoch": func(rt *rapid.T) {
			n := rapid.SampledFrom([]int{1, 1, 1, 2}).Draw(rt, "epochs")
			w.C.Logf("advanceEpochs(%d)", n)
			w.C.AdvanceEpochs(n)
		},
		"downtime": func(rt *rapid.T) {
			mins := rapid.SampledFrom([]int{4, 6, 31, 65}).Draw(rt, "gapMinutes")
			w.C.Logf("blockAfterGap(%dm)", mins)
			w.C.AdvanceBlock(time.Duration(mins) * time.Minute)
		},
		"": func(rt *rapid.T) {
			if w.C.Halt != "" {
				rt.Skip("chain halted (C37 reports it)")
			}
		},
	}
	rt.Repeat(acts)

	nt := accepted >= 1 && limited >= 1
	c.Case(nt, strings.Join(w.C.Hist, "|"), sortedKeys(cls)...)
	for k, v := range cls {
		c.AddExtra("txs:"+k, v)
	}
	if nt {
		c.Sample(map[string]any{"history_tail": w.C.HistTail(12), "classes": cls})
	}
}

// TestC04Known_totalCuBranch is the deterministic witness of the known finding c04-total-cu-branch:
// when the CuSum accumulated for (epoch, provider, project, chain) reaches the effective total CU
// limit, EnforceClientCUsUsageInEpoch returns `effectiveTotal - project.UsedCu` without looking at
// the epoch limit or at the relay's CuSum (x/pairing/keeper/limitConsumer.go), and the subtraction
// is unsigned.
func TestC04Known_totalCuBranch(t *testing.T) {
	type result struct{ msgs []string }
	res := rapid.Custom(func(rt *rapid.T) result {
		var out result
		w := chain.NewWorld(rt, t, chain.Cfg{Specs: [2]int{1, 1}, Plans: [2]int{1, 1}, Validators: [2]int{1, 1}, Providers: [2]int{2, 2}, Consumers: [2]int{1, 1}, Seed: 7})
		pol := planstypes.Policy{TotalCuLimit: 1000, EpochCuLimit: 10, MaxProvidersToPair: 12, GeolocationProfile: 1}
		addPlan(rt, w, "lim", pol, 5)
		cons, admin := addConsumer(rt, w, "own", "lim", 1)
		// second project: total limit 50 (below the subscription's 1000), epoch limit 50
		pp := &planstypes.Policy{TotalCuLimit: 50, EpochCuLimit: 50, MaxProvidersToPair: 12, GeolocationProfile: 1}
		second, err := addProject(w, cons, "second", true, pp, []sigs.Account{w.NewAccount(0)}, nil)
		if err != nil {
			harnessFatal(rt, "addProject: %v", err)
		}
		w.C.AdvanceEpoch()
		epoch := w.C.EpochStart()
		chainID := w.Specs[0].Index
		var prov *chain.Prov
		for _, p := range w.Providers {
			if stakedAt(w, p, chainID, epoch) {
				prov = p
				break
			}
		}
		if prov == nil {
			harnessFatal(rt, "no staked provider")
		}
		sess := uint64(1)
		send := func(p *proj, cu uint64) (credited uint64, ok bool) {
			sess++
			before := takeSnap(w)
			r := chain.RelaySpec{Cons: p.Cons, Signer: p.Keys[0], Prov: prov, Chain: chainID, Epoch: int64(epoch), Session: sess, CuSum: cu, RelayNum: 1}
			if err := sendMsg(w, "pay("+r.String()+")", buildMsg(rt, w, prov, []chain.RelaySpec{r})); err != nil {
				return 0, false
			}
			d, derr := trackedDelta(before, takeSnap(w))
			for _, v := range d {
				credited += v
			}
			if rw, ok := rewardedFromEvents(w)[0]; ok && (derr != nil || rw > credited) {
				credited = rw // the tracked counter wrapped around: report the rewarded CU of the event
			}
			return credited, true
		}
		// (b) project total limit 50: a relay with CuSum 60 is charged in full (UsedCu=60 > 50); the next relay underflows
		if _, ok := send(second, 60); ok {
			if cr, ok := send(second, 60); ok && cr > 60 {
				out.msgs = append(out.msgs, fmt.Sprintf("project total limit 50, used 60: a relay with CuSum 60 was credited %d CU (unsigned underflow of total - used)", cr))
			}
		}
		// (a) epoch allowance 10, one relay with CuSum = total limit 1000
		if cr, ok := send(admin, 1000); ok && cr > 10 {
			out.msgs = append(out.msgs, fmt.Sprintf("plan epoch limit 10, total limit 1000: one relay with CuSum 1000 was credited %d CU in one epoch (allowance 10 x downtime factor 1)", cr))
		}
		return out
	}).Example(1)
	if len(res.msgs) > 0 {
		t.Fatalf("%s", ev.Violation("C04", "%s", strings.Join(res.msgs, "; ")))
	}
}
