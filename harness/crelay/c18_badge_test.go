package crelay

import (
	"fmt"
	"strings"
	"testing"

	"github.com/lavanet/lava/v5/utils/sigs"
	pairingtypes "github.com/lavanet/lava/v5/x/pairing/types"
	"pgregory.net/rapid"

	"verifharness/internal/chain"
	"verifharness/internal/ev"
)

// C18: the total CU credited through a badge to a provider never exceeds the badge's CU
// allocation; a badge is honoured only for its own user address, epoch and lava chain id, and
// only while its usage record has not expired (badge epoch + blocks kept in memory).

type c18Badge struct {
	id     int
	badge  *pairingtypes.Badge
	signer sigs.Account // developer key that signed it
	proj   *proj
	user   sigs.Account
	wrong  string // "" = well-formed; else which trait is off ("chain")
}

type c18Use struct {
	Sig  string
	Prov string
}

func TestC18(t *testing.T) {
	c := ev.For("C18")
	c.SetRule("rapid state machine: badges (allocation from {10,100,1000}, epoch from chain memory, 2 badge users, signed by developer keys of 1-2 projects; some with a wrong lava chain id) and payment txs of 1-3 relays signed by a badge user for 2-3 providers on 1-2 chains: CuSum from {1, part, allocation-left -1/0/+1, allocation+1}, the badge on every relay or only on the first, relay epoch equal to or different from the badge epoch, signer the badge user or another user, plain relays of developer keys mixed in; block and epoch advances up to and past the expiry of the badge usage records; non-trivial = a badge was used by >=2 accepted txs for one provider, or a badge relay was sent after its record expired; distinct = distinct histories")
	c.Assume("plans have CU limits far above the CU sent (limits are C04's subject)",
		"one tx never carries two different badges of the same user and epoch (the chain keys badges by user address and epoch inside a tx; a relay of that user and epoch without a badge of its own is paid through the badge carried by another relay of the tx, as the repository's TestAddressEpochBadgeMap expects)",
		"usage-record expiry block = badge epoch + EpochsToSave*EpochBlocks (default parameters, unchanged during a case)")
	rapid.Check(t, func(rt *rapid.T) { propC18(rt, t, c) })
}

func propC18(rt *rapid.T, t *testing.T, c *ev.Collector) {
	w := chain.NewWorld(rt, t, chain.Cfg{Specs: [2]int{1, 2}, Plans: [2]int{1, 1}, Validators: [2]int{1, 1}, Providers: [2]int{2, 3}, Consumers: [2]int{1, 1}})
	addPlan(rt, w, "open", openPolicy(), 5)
	cons, admin := addConsumer(rt, w, "own", "open", 1)
	projs := []*proj{admin}
	if rapid.Bool().Draw(rt, "secondProject") {
		p, err := addProject(w, cons, "second", true, nil, []sigs.Account{w.NewAccount(0)}, nil)
		if err != nil {
			harnessFatal(rt, "addProject: %v", err)
		}
		projs = append(projs, p)
	}
	users := []sigs.Account{w.NewAccount(0), w.NewAccount(0)}
	w.C.AdvanceEpoch()
	w.C.Hist = nil
	lavaID := w.C.TS.Ctx.BlockHeader().ChainID
	ts := w.C.TS
	blocksToSave := ts.Keepers.Epochstorage.EpochsToSaveRaw(ts.Ctx) * ts.Keepers.Epochstorage.EpochBlocksRaw(ts.Ctx)

	var badges []*c18Badge
	used := map[c18Use]uint64{}     // model: accepted CuSum per (badge, provider)
	acceptedTxs := map[c18Use]int{} // accepted txs per (badge, provider)
	firstUse := map[c18Use]bool{}   // a usage record was created (first accepted relay)
	cls := map[string]int{}
	sess := uint64(1)
	multiTx, afterExpiry := 0, 0

	expiry := func(b *c18Badge) uint64 { return b.badge.Epoch + blocksToSave }
	var lastMsg *pairingtypes.MsgRelayPayment
	var lastDesc string

	// invariant: usage records equal the model while not expired, and are gone afterwards
	checkRecords := func() {
		c.Clause("usage-records-equal-model-and-vanish-at-expiry")
		s := takeSnap(w)
		want := map[string]uint64{}
		for _, b := range badges {
			for _, p := range w.Providers {
				u := c18Use{string(b.badge.ProjectSig), p.Addr()}
				if firstUse[u] && w.C.Height() < expiry(b) {
					want[fmt.Sprintf("%x", pairingtypes.BadgeUsedCuKey(b.badge.ProjectSig, p.Addr()))] = used[u]
				}
			}
		}
		if d := diffMaps(want, s.Badges); len(d) > 0 {
			rt.Fatalf("%s", ev.Violation("C18", "badge usage records differ from the model at height %d (want: used CU of every badge/provider with an accepted relay whose record has not expired): %v\nhistory:\n  %s", w.C.Height(), d, histString(w, 30)))
		}
	}

	newBadge := func(rt *rapid.T) {
		if len(badges) >= 12 {
			rt.Skip("enough badges")
		}
		p := pick(rt, "project", projs)
		b := &c18Badge{id: len(badges), signer: p.Keys[0], proj: p, user: pick(rt, "user", users)}
		epoch := pick(rt, "badgeEpoch", w.EpochsInMemory())
		alloc := pick(rt, "alloc", []uint64{10, 100, 1000})
		id := lavaID
		if rapid.IntRange(0, 7).Draw(rt, "wrongChain") == 0 {
			id, b.wrong = "lava-other-9", "chain"
		}
		// two badges with identical content would be the same badge: make them differ by allocation
		for _, o := range badges {
			if o.signer.Addr.Equals(b.signer.Addr) && o.user.Addr.Equals(b.user.Addr) && o.badge.Epoch == epoch && o.badge.CuAllocation == alloc && o.badge.LavaChainId == id {
				alloc++
			}
		}
		b.badge = makeBadge(rt, b.signer, b.user.Addr, epoch, alloc, id)
		badges = append(badges, b)
		w.C.Logf("newBadge(#%d proj=%s user=%s epoch=%d alloc=%d wrong=%q expiry=%d)", b.id, p.Name, short(b.user.Addr.String()), epoch, alloc, b.wrong, expiry(b))
	}

	pay := func(rt *rapid.T) {
		if len(badges) == 0 {
			newBadge(rt)
		}
		var live []*c18Badge
		for _, x := range badges {
			if w.C.Height() < expiry(x) && x.wrong == "" {
				live = append(live, x)
			}
		}
		if len(live) == 0 {
			newBadge(rt)
		}
		b := pick(rt, "badge", badges)
		if len(live) > 0 && rapid.IntRange(0, 5).Draw(rt, "anyBadge") > 0 {
			b = pick(rt, "liveBadge", live)
		}
		chainID := pick(rt, "chain", w.Specs).Index
		prov := pick(rt, "provider", w.Providers)
		if st := w.StakedOn(chainID); len(st) > 0 && rapid.IntRange(0, 7).Draw(rt, "anyProvider") > 0 {
			prov = pick(rt, "stakedProvider", st)
		}
		u := c18Use{string(b.badge.ProjectSig), prov.Addr()}
		left := uint64(0)
		if b.badge.CuAllocation > used[u] {
			left = b.badge.CuAllocation - used[u]
		}
		relayEpoch := b.badge.Epoch
		epochMismatch := false
		if rapid.IntRange(0, 9).Draw(rt, "otherEpoch") == 0 {
			relayEpoch = pick(rt, "relayEpoch", w.EpochsInMemory())
			epochMismatch = relayEpoch != b.badge.Epoch
		}
		signer := b.user
		wrongUser := false
		if rapid.IntRange(0, 9).Draw(rt, "otherUser") == 0 {
			for _, o := range users {
				if !o.Addr.Equals(b.user.Addr) {
					signer, wrongUser = o, true
				}
			}
		}
		n := rapid.SampledFrom([]int{1, 1, 2, 3}).Draw(rt, "nRelays")
		onlyFirst := n > 1 && rapid.IntRange(0, 3).Draw(rt, "badgeOnlyOnFirst") == 0
		var relays []chain.RelaySpec
		var credits []credit
		viaBadge := map[uint64]bool{} // session id -> relay is paid through the badge
		for i := 0; i < n; i++ {
			var cu uint64
			switch rapid.IntRange(0, 9).Draw(rt, "cuKind") {
			case 0, 8:
				cu = 1
			case 1, 2, 9:
				cu = b.badge.CuAllocation / uint64(rapid.IntRange(3, 9).Draw(rt, "part"))
			case 3:
				cu = left - minU(left, 1)
			case 4:
				cu = left
			case 5:
				cu = left + 1
			case 6:
				cu = b.badge.CuAllocation + 1
			case 7:
				cu = uint64(rapid.IntRange(1, 9).Draw(rt, "tiny"))
			}
			if cu == 0 {
				cu = 1
			}
			sess++
			r := chain.RelaySpec{Cons: cons, Signer: signer, Prov: prov, Chain: chainID, Epoch: int64(relayEpoch), Session: sess, CuSum: cu, RelayNum: 1}
			if i == 0 || !onlyFirst {
				r.Badge = b.badge
			}
			relays = append(relays, r)
			c2 := cu
			credits = append(credits, credit{Key: uKey{relayEpoch, prov.Addr(), b.proj.ID, chainID, sess}, Cons: cons.Addr(), Block: relayEpoch, CuSum: cu, Tracked: &c2})
			viaBadge[sess] = true
			left -= minU(left, cu)
		}
		// plain relay of a developer key in the same tx
		if rapid.IntRange(0, 3).Draw(rt, "withPlain") == 0 {
			pp := pick(rt, "plainProject", projs)
			sess++
			cu := uint64(rapid.IntRange(1, 50).Draw(rt, "plainCu"))
			r := chain.RelaySpec{Cons: cons, Signer: pp.Keys[0], Prov: prov, Chain: chainID, Epoch: int64(relayEpoch), Session: sess, CuSum: cu, RelayNum: 1}
			c2 := cu
			cr := credit{Key: uKey{relayEpoch, prov.Addr(), pp.ID, chainID, sess}, Cons: cons.Addr(), Block: relayEpoch, CuSum: cu, Tracked: &c2}
			if rapid.Bool().Draw(rt, "plainFirst") {
				relays = append([]chain.RelaySpec{r}, relays...)
				credits = append([]credit{cr}, credits...)
			} else {
				relays = append(relays, r)
				credits = append(credits, cr)
			}
		}
		height := w.C.Height()
		expired := height >= expiry(b)
		badgeValid := b.wrong == "" && !epochMismatch && !wrongUser && !expired
		before := takeSnap(w)
		dig := w.C.StoreDigests()
		msgSent := buildMsg(rt, w, prov, relays)
		err := sendMsg(w, fmt.Sprintf("payBadge(#%d left=%d expired=%v wrongUser=%v epochMismatch=%v by %s: %s)", b.id, left, expired, wrongUser, epochMismatch, prov.Name, relaysDesc(relays)), msgSent)
		if expired {
			afterExpiry++
			cls["badge-relay-after-record-expiry"]++
		}
		if err != nil {
			cls["tx-rejected"]++
			c.Clause("failed-tx-changes-nothing")
			if ok, diff := digestsEqual(dig, w.C.StoreDigests()); !ok {
				rt.Fatalf("%s", ev.Violation("C18", "a failed payment tx changed state (stores: %s)\nhistory:\n  %s", diff, histString(w, 30)))
			}
			return
		}
		cls["tx-accepted"]++
		lastMsg, lastDesc = msgSent, fmt.Sprintf("resend of badge #%d tx by %s: %s", b.id, prov.Name, relaysDesc(relays))
		after := takeSnap(w)
		// which relays were credited (new paid-session records)
		var got []credit
		var creditedBadgeSum uint64
		nBadgeCredited := 0
		for _, cr := range credits {
			if after.Unique[cr.Key] && !before.Unique[cr.Key] {
				got = append(got, cr)
			}
		}
		for _, cr := range got {
			if viaBadge[cr.Key.Sess] {
				creditedBadgeSum += cr.CuSum
				nBadgeCredited++
			}
		}
		c.Clause("badge-honoured-only-for-own-user-epoch-chain-and-before-expiry")
		if nBadgeCredited > 0 && !badgeValid {
			why := "its lava chain id differs from the chain's"
			switch {
			case expired:
				why = fmt.Sprintf("its usage record expired at block %d (now %d)", expiry(b), height)
			case wrongUser:
				why = "the relays are signed by another address than the badge's user"
			case epochMismatch:
				why = fmt.Sprintf("the relay epoch %d differs from the badge epoch %d", relayEpoch, b.badge.Epoch)
			}
			rt.Fatalf("%s", ev.Violation("C18", "%d relay(s) were credited through badge #%d although %s\nhistory:\n  %s", nBadgeCredited, b.id, why, histString(w, 30)))
		}
		c.Clause("sum-through-badge<=allocation")
		used[u] += creditedBadgeSum
		if used[u] > b.badge.CuAllocation {
			rt.Fatalf("%s", ev.Violation("C18", "provider %s was credited %d CU in total through badge #%d whose allocation is %d (this tx %d)\nhistory:\n  %s", prov.Name, used[u], b.id, b.badge.CuAllocation, creditedBadgeSum, histString(w, 30)))
		}
		if nBadgeCredited > 0 {
			firstUse[u] = true
			acceptedTxs[u]++
			if acceptedTxs[u] == 2 {
				multiTx++
				cls["badge-used-by->=2-txs-for-one-provider"]++
			}
			if onlyFirst {
				cls["badge-only-on-first-relay"]++
			}
		}
		// the credited relays are charged once to the badge signer's project
		c.Clause("credited-relays-charged-once-to-the-badge-project")
		if d := c03Compare(before, after, got); d != "" {
			rt.Fatalf("%s", ev.Violation("C18", "accepted badge payment: counters moved differently from 'each credited relay once, to the project of the developer key that signed the badge': %s\nhistory:\n  %s", d, histString(w, 30)))
		}
		for k := range after.Unique {
			if !before.Unique[k] {
				ok := false
				for _, cr := range credits {
					if cr.Key == k {
						ok = true
					}
				}
				if !ok {
					rt.Fatalf("%s", ev.Violation("C18", "accepted badge payment recorded a paid session %s that is not a relay of the tx resolved through the badge\nhistory:\n  %s", k, histString(w, 30)))
				}
			}
		}
		checkRecords()
	}

	// resend: the last accepted badge payment again, verbatim: nothing may be credited a second
	// time, neither to the provider nor against the badge
	resend := func(rt *rapid.T) {
		if lastMsg == nil {
			rt.Skip("nothing accepted yet")
		}
		before := takeSnap(w)
		dig := w.C.StoreDigests()
		if err := sendMsg(w, lastDesc, lastMsg); err != nil {
			c.Clause("failed-tx-changes-nothing")
			if ok, diff := digestsEqual(dig, w.C.StoreDigests()); !ok {
				rt.Fatalf("%s", ev.Violation("C18", "a failed payment tx changed state (stores: %s)\nhistory:\n  %s", diff, histString(w, 30)))
			}
			cls["resend-rejected"]++
			return
		}
		c.Clause("resent-badge-payment-credits-nothing")
		after := takeSnap(w)
		if d := c03Compare(before, after, nil); d != "" {
			rt.Fatalf("%s", ev.Violation("C18", "a badge payment that was already paid was accepted again and moved counters: %s\nhistory:\n  %s", d, histString(w, 30)))
		}
		if d := diffMaps(before.Badges, after.Badges); len(d) > 0 {
			rt.Fatalf("%s", ev.Violation("C18", "a badge payment that was already paid was accepted again and moved the badge usage: %v\nhistory:\n  %s", d, histString(w, 30)))
		}
	}

	acts := map[string]func(*rapid.T){
		"newBadge": newBadge,
		"resend":   resend,
		"pay":      pay, "pay2": pay, "pay3": pay, "pay4": pay, "pay5": pay,
		"blocks": func(rt *rapid.T) {
			n := rapid.SampledFrom([]int{1, 2, 5, 19}).Draw(rt, "blocks")
			w.C.Logf("advanceBlocks(%d)", n)
			w.C.AdvanceBlocks(n, 0)
			checkRecords()
		},
		"epoch": func(rt *rapid.T) {
			n := rapid.SampledFrom([]int{1, 1, 1, 2}).Draw(rt, "epochs")
			w.C.Logf("advanceEpochs(%d)", n)
			for i := 0; i < n; i++ {
				w.C.AdvanceEpoch()
				checkRecords()
			}
		},
		"toExpiry": func(rt *rapid.T) {
			// go to just before / exactly at / just after the expiry block of some used badge
			var cands []*c18Badge
			for _, b := range badges {
				anyUse := false
				for u := range firstUse {
					if u.Sig == string(b.badge.ProjectSig) {
						anyUse = true
					}
				}
				if expiry(b) > w.C.Height() && anyUse {
					cands = append(cands, b)
				}
			}
			if len(cands) == 0 {
				rt.Skip("no pending expiry")
			}
			b := pick(rt, "badge", cands)
			target := expiry(b) - 1 + uint64(rapid.IntRange(0, 2).Draw(rt, "offset"))
			if target <= w.C.Height() || target-w.C.Height() > 260 {
				rt.Skip("not reachable")
			}
			w.C.Logf("advanceToBlock(%d) (expiry of badge #%d is %d)", target, b.id, expiry(b))
			for w.C.Height() < target && w.C.Halt == "" {
				w.C.AdvanceBlock(0)
			}
			checkRecords()
		},
		"": func(rt *rapid.T) {
			if w.C.Halt != "" {
				rt.Skip("chain halted (C37 reports it)")
			}
		},
	}
	rt.Repeat(acts)
	checkRecords()

	nt := multiTx >= 1 || afterExpiry >= 1
	c.Case(nt, strings.Join(w.C.Hist, "|"), sortedKeys(cls)...)
	for k, v := range cls {
		c.AddExtra("txs:"+k, v)
	}
	if nt {
		c.Sample(map[string]any{"history_tail": w.C.HistTail(12), "classes": cls, "badges": len(badges)})
	}
}

func isDev(projs []*proj, a sigs.Account) bool {
	for _, p := range projs {
		for _, k := range p.Keys {
			if k.Addr.Equals(a.Addr) {
				return true
			}
		}
	}
	return false
}
