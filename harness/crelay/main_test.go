package crelay

import (
	"os"
	"testing"

	"github.com/rs/zerolog"

	"verifharness/internal/ev"
)

func TestMain(m *testing.M) {
	zerolog.SetGlobalLevel(zerolog.Disabled) // keepers log every rejected tx
	code := m.Run()
	ev.Flush()
	os.Exit(code)
}
