package crelay

import (
	"fmt"
	"sort"
	"strings"
	"testing"
	"time"

	sdk "github.com/cosmos/cosmos-sdk/types"
	"github.com/lavanet/lava/v5/utils/sigs"
	pairingtypes "github.com/lavanet/lava/v5/x/pairing/types"
	planstypes "github.com/lavanet/lava/v5/x/plans/types"
	"pgregory.net/rapid"

	"verifharness/internal/chain"
	"verifharness/internal/ev"
)

// C05: a relay payment credits the sender only for relay sessions signed by a developer key (or a
// valid badge holder) of an enabled project on an existing subscription at the relay's epoch, that
// name the sender as provider and the current lava chain id, refer to an epoch not in the future
// and in memory, to an enabled spec, and to a provider in the consumer's pairing. Every other relay
// is rejected without changing any balance, usage counter or reputation.
//
// Per case: a fixture with every kind of key, then a drawn list of mutants. Each mutant starts from
// a FRESH relay that would be accepted (same generator as the control, which must succeed) and
// breaks exactly one thing: a field changed after signing, or a semantic defect signed properly.

type c05Fix struct {
	w         *chain.World
	A, B      *chain.Cons
	adminA    *proj
	adminB    *proj
	secondB   *proj // enabled second project of B: its pairing (2 providers) may differ from the admin project's
	second    *proj // enabled project of A with its own developer key
	off       *proj // disabled project of A
	gone      *proj // project of A deleted before validFrom
	expiring  *chain.Cons
	user      sigs.Account // badge user
	user2     sigs.Account
	stranger  sigs.Account
	validFrom uint64
	lavaID    string
	nextSess  uint64
}

type c05Tx struct {
	name      string
	msg       *pairingtypes.MsgRelayPayment
	sender    *chain.Prov
	desc      string
	mayAccept bool     // acceptance allowed; then exactly `credits` must be credited
	credits   []credit // what an acceptance may credit
	class     string
}

func makeBadge(rt *rapid.T, signer sigs.Account, user sdk.AccAddress, epoch uint64, alloc uint64, lavaID string) *pairingtypes.Badge {
	b := pairingtypes.CreateBadge(alloc, epoch, user, lavaID, nil)
	sig, err := sigs.Sign(signer.SK, *b)
	if err != nil {
		harnessFatal(rt, "cannot sign badge: %v", err)
	}
	b.ProjectSig = sig
	return b
}

func TestC05(t *testing.T) {
	c := ev.For("C05")
	c.SetRule("per case: a generated world (1-2 chains, 3-4 providers, consumer A with an enabled second project, a disabled project, a deleted project, consumer B on a plan pairing only 2 providers with a second project (whose pairing may differ), optionally a consumer whose subscription expires) and a drawn list of 10 mutant payment txs around one control tx; every mutant is a fresh otherwise-valid relay (plain, or with a badge) with one field changed after signing or one semantic defect signed properly, alone or together with a valid relay in the same tx; non-trivial = control accepted and at least one semantic mutant signed by a registered key was executed; distinct = distinct histories")
	c.Assume("a mutant that is still an authentic paired relay by the statement (a foreign badge attached to a relay signed by a developer key) may be accepted, but then exactly that relay must be credited once",
		"unpaired provider = a staked provider that the pairing query of the same epoch does not list for the consumer (plan pairs 2 of >=3), or a provider without stake entry on that chain",
		"re-encodings of a valid signature that keep signer and content (low-S form, the compressed-key flag of the recovery header byte) are not generated: such a relay still is signed by the developer key",
		"transactions run atomically (cache context + bank snapshot), as under BaseApp")
	rapid.Check(t, func(rt *rapid.T) { propC05(rt, t, c) })
}

func propC05(rt *rapid.T, t *testing.T, c *ev.Collector) {
	w := chain.NewWorld(rt, t, chain.Cfg{Specs: [2]int{1, 2}, Plans: [2]int{1, 1}, Validators: [2]int{1, 1}, Providers: [2]int{3, 4}, Consumers: [2]int{1, 1}})
	f := &c05Fix{w: w, nextSess: 1000, lavaID: w.C.TS.Ctx.BlockHeader().ChainID}
	addPlan(rt, w, "open", openPolicy(), 6)
	narrow := openPolicy()
	narrow.MaxProvidersToPair = 2
	addPlan(rt, w, "narrow", narrow, 6)
	f.A, f.adminA = addConsumer(rt, w, "A", "open", 2)
	f.B, f.adminB = addConsumer(rt, w, "B", "narrow", 2)
	var err error
	if f.secondB, err = addProject(w, f.B, "second", true, nil, []sigs.Account{w.NewAccount(0)}, nil); err != nil {
		harnessFatal(rt, "addProject second of B: %v", err)
	}
	if f.second, err = addProject(w, f.A, "second", true, nil, []sigs.Account{w.NewAccount(0)}, nil); err != nil {
		harnessFatal(rt, "addProject second: %v", err)
	}
	if f.off, err = addProject(w, f.A, "off", false, nil, []sigs.Account{w.NewAccount(0)}, nil); err != nil {
		harnessFatal(rt, "addProject off: %v", err)
	}
	if f.gone, err = addProject(w, f.A, "gone", true, nil, []sigs.Account{w.NewAccount(0)}, nil); err != nil {
		harnessFatal(rt, "addProject gone: %v", err)
	}
	withExpiry := rapid.IntRange(0, 3).Draw(rt, "withExpiredSubscription") == 0
	if withExpiry {
		f.expiring, _ = addConsumer(rt, w, "X", "open", 1)
	}
	f.user, f.user2, f.stranger = w.NewAccount(0), w.NewAccount(0), w.NewAccount(0)
	w.C.AdvanceEpoch()
	if err := delProject(w, f.A, "gone"); err != nil {
		harnessFatal(rt, "delProject gone: %v", err)
	}
	if withExpiry {
		// one month and a bit: the 1-month subscription of X expires, A and B (2 months) stay
		for i := 0; i < 32; i++ {
			w.C.AdvanceBlock(24 * time.Hour)
		}
	}
	w.C.AdvanceEpoch()
	w.C.AdvanceEpoch() // project deletions of an expired subscription take effect one epoch later
	if withExpiry {
		if _, found := w.C.TS.Keepers.Subscription.GetSubscription(w.C.TS.Ctx, f.expiring.Addr()); found {
			harnessFatal(rt, "subscription of X did not expire")
		}
	}
	f.validFrom = w.C.EpochStart()
	w.C.AdvanceEpochs(rapid.IntRange(0, 2).Draw(rt, "extraEpochs"))
	w.C.AdvanceBlocks(rapid.IntRange(0, 3).Draw(rt, "extraBlocks"), 0)
	w.C.Hist = nil
	if w.C.Halt != "" {
		rt.Skip("halted during setup")
	}

	cls := map[string]int{}
	controlOK, semRegistered := false, 0

	run := func(tx c05Tx) {
		cls[tx.class]++
		before := takeSnap(w)
		dig := w.C.StoreDigests()
		bal := w.C.Balances()
		err := sendMsg(w, tx.name+"(by "+tx.sender.Name+": "+tx.desc+")", tx.msg)
		if err != nil {
			c.Clause("rejected-tx-changes-nothing")
			if !tx.mayAccept {
				c.Clause("unauthentic-relay-rejected")
			}
			if ok, diff := digestsEqual(dig, w.C.StoreDigests()); !ok {
				rt.Fatalf("%s", ev.Violation("C05", "rejected payment %q changed state (stores: %s)\nhistory:\n  %s", tx.name, diff, histString(w, 25)))
			}
			after := w.C.Balances()
			for a, coins := range bal {
				if !coins.IsEqual(after[a]) {
					rt.Fatalf("%s", ev.Violation("C05", "rejected payment %q moved the balance of %s: %s -> %s\nhistory:\n  %s", tx.name, a, coins, after[a], histString(w, 25)))
				}
			}
			if tx.name == "control" {
				harnessFatal(rt, "the control payment was rejected: %v\nhistory:\n  %s", err, histString(w, 25))
			}
			return
		}
		if !tx.mayAccept {
			c.Clause("unauthentic-relay-rejected")
			rt.Fatalf("%s", ev.Violation("C05", "payment tx %q was accepted although its relay is not an authentic paired relay: %s\nhistory:\n  %s", tx.name, tx.desc, histString(w, 25)))
		}
		c.Clause("accepted-tx-credits-only-the-authentic-relays")
		after := takeSnap(w)
		wantNew := map[uKey]bool{}
		for _, cr := range tx.credits {
			wantNew[cr.Key] = true
		}
		for k := range after.Unique {
			if !before.Unique[k] && !wantNew[k] {
				rt.Fatalf("%s", ev.Violation("C05", "payment tx %q recorded a paid session %s that no authentic relay of the tx describes\nhistory:\n  %s", tx.name, k, histString(w, 25)))
			}
		}
		var got []credit
		for _, cr := range tx.credits {
			if after.Unique[cr.Key] && !before.Unique[cr.Key] {
				got = append(got, cr)
			}
		}
		if d := c03Compare(before, after, got); d != "" {
			rt.Fatalf("%s", ev.Violation("C05", "payment tx %q: counters moved differently from 'each authentic relay of the sender once' (%d credited): %s\nhistory:\n  %s", tx.name, len(got), d, histString(w, 25)))
		}
		if tx.name == "control" {
			if len(got) != len(tx.credits) {
				harnessFatal(rt, "control accepted but not credited")
			}
			controlOK = true
		}
	}

	// freshValid draws a relay that must be accepted now. kind: 0 any, 1 plain, 2 badge
	freshValid := func(rt *rapid.T, kind int) (chain.RelaySpec, credit, bool) {
		var epochs []uint64
		for _, e := range w.EpochsInMemory() {
			if e >= f.validFrom {
				epochs = append(epochs, e)
			}
		}
		if len(epochs) == 0 {
			return chain.RelaySpec{}, credit{}, false
		}
		epoch := epochs[0]
		if rapid.IntRange(0, 2).Draw(rt, "pastEpoch") == 0 {
			epoch = pick(rt, "epoch", epochs)
		}
		chainID := pick(rt, "chain", w.Specs).Index
		var staked []*chain.Prov
		for _, p := range w.Providers {
			if stakedAt(w, p, chainID, epoch) {
				staked = append(staked, p)
			}
		}
		if len(staked) == 0 {
			return chain.RelaySpec{}, credit{}, false
		}
		prov := pick(rt, "provider", staked)
		p := f.adminA
		if rapid.Bool().Draw(rt, "secondProject") {
			p = f.second
		}
		f.nextSess++
		r := chain.RelaySpec{Cons: f.A, Signer: p.Keys[0], Prov: prov, Chain: chainID, Epoch: int64(epoch), Session: f.nextSess,
			CuSum: pick(rt, "cu", []uint64{1, 10, 500}), RelayNum: uint64(rapid.IntRange(0, 3).Draw(rt, "relayNum"))}
		if rapid.IntRange(0, 3).Draw(rt, "withQos") == 0 {
			r.Qos = chain.GenQos(rt, "qos")
		}
		if rapid.IntRange(0, 3).Draw(rt, "withQosExc") == 0 {
			r.QosExc = chain.GenQosExcellence(rt, "qosExc")
		}
		if kind == 2 || (kind == 0 && rapid.IntRange(0, 2).Draw(rt, "withBadge") == 0) {
			r.Badge = makeBadge(rt, p.Keys[0], f.user.Addr, epoch, r.CuSum*uint64(rapid.IntRange(1, 3).Draw(rt, "allocMul")), f.lavaID)
			r.Signer = f.user
		}
		cu := r.CuSum
		cr := credit{Key: uKey{epoch, prov.Addr(), p.ID, chainID, r.Session}, Cons: f.A.Addr(), Block: epoch, CuSum: cu, Tracked: &cu}
		if r.Qos != nil {
			cr.Tracked = nil
		}
		return r, cr, true
	}

	otherProvider := func(rt *rapid.T, not *chain.Prov) *chain.Prov {
		var o []*chain.Prov
		for _, p := range w.Providers {
			if p != not {
				o = append(o, p)
			}
		}
		return pick(rt, "otherProvider", o)
	}

	flip := func(b []byte, i int) []byte {
		out := append([]byte{}, b...)
		if len(out) == 0 {
			return []byte{1}
		}
		out[i%len(out)] ^= 0x01 << uint(i%7)
		return out
	}

	afterSign := []string{"provider", "provider+sender", "spec", "lavaid", "epoch-future", "epoch-negative", "epoch-offgrid", "epoch-other", "epoch-zero",
		"session", "cu-more", "cu-less", "hash", "relaynum", "sig-flip", "sig-trunc", "sig-empty", "sig-swap", "qos", "qosexc", "unresp",
		"badge-addr", "badge-epoch", "badge-chain", "badge-alloc", "badge-sig", "badge-drop", "badge-virtual", "badge-foreign-on-plain"}
	semantic := []string{"sem-unknown-key", "sem-disabled-project", "sem-deleted-project", "sem-other-sub-unpaired", "sem-other-project-unpaired", "sem-unstaked-provider",
		"sem-sender-mismatch", "sem-future-epoch", "sem-negative-epoch", "sem-wrong-lavaid", "sem-badge-unknown-signer", "sem-badge-disabled-signer",
		"sem-badge-wrong-user", "sem-badge-epoch-mismatch", "sem-badge-chain-mismatch", "sem-badge-user-without-badge", "sem-expired-subscription"}

	// mutant builds the tx for one catalogue entry; ok=false if not applicable in this world.
	mutant := func(rt *rapid.T, name string) (c05Tx, bool) {
		kind := 0
		if strings.HasPrefix(name, "badge-") && name != "badge-foreign-on-plain" {
			kind = 2
		}
		if name == "badge-foreign-on-plain" || strings.HasPrefix(name, "sem-") {
			kind = 1
		}
		r, cr, ok := freshValid(rt, kind)
		if !ok {
			return c05Tx{}, false
		}
		tx := c05Tx{name: name, sender: r.Prov, class: "after-signing"}
		epochNow := w.C.EpochStart()
		registered := false
		if strings.HasPrefix(name, "sem-") {
			tx.class = "semantic"
			r.Qos = nil
			switch name {
			case "sem-unknown-key":
				r.Signer = f.stranger
			case "sem-disabled-project":
				r.Signer, registered = f.off.Keys[0], true
			case "sem-deleted-project":
				r.Signer, registered = f.gone.Keys[0], true
			case "sem-other-sub-unpaired":
				// B's plan pairs 2 providers: name a staked provider outside B's pairing of the current epoch
				r.Epoch = int64(epochNow)
				paired := map[string]bool{}
				for _, p := range w.PairedProviders(r.Chain, f.B.Addr()) {
					paired[p.Addr()] = true
				}
				if len(paired) == 0 {
					return c05Tx{}, false
				}
				var un []*chain.Prov
				for _, p := range w.Providers {
					if !paired[p.Addr()] && stakedAt(w, p, r.Chain, epochNow) {
						un = append(un, p)
					}
				}
				if len(un) == 0 {
					return c05Tx{}, false
				}
				r.Prov = pick(rt, "unpaired", un)
				tx.sender = r.Prov
				r.Signer, r.Cons, registered = f.B.Acc, f.B, true
			case "sem-other-project-unpaired":
				// the two projects of B pair 2 providers each: a provider paired with one project only
				// sends, in ONE block, a valid relay of that project and then a relay signed by the
				// other project's key (in the same tx, or in the next tx of the block)
				r.Epoch = int64(epochNow)
				pa, pb := map[string]bool{}, map[string]bool{}
				for _, p := range w.PairedProviders(r.Chain, f.adminB.Keys[0].Addr.String()) {
					pa[p.Addr()] = true
				}
				for _, p := range w.PairedProviders(r.Chain, f.secondB.Keys[0].Addr.String()) {
					pb[p.Addr()] = true
				}
				type cand struct {
					prov       *chain.Prov
					with, sans *proj
				}
				var cands []cand
				for _, p := range w.Providers {
					if !stakedAt(w, p, r.Chain, epochNow) {
						continue
					}
					if pa[p.Addr()] && !pb[p.Addr()] {
						cands = append(cands, cand{p, f.adminB, f.secondB})
					} else if pb[p.Addr()] && !pa[p.Addr()] {
						cands = append(cands, cand{p, f.secondB, f.adminB})
					}
				}
				if len(cands) == 0 {
					return c05Tx{}, false
				}
				cd := cands[rapid.IntRange(0, len(cands)-1).Draw(rt, "oneProjectOnly")]
				f.nextSess++
				v := chain.RelaySpec{Cons: f.B, Signer: cd.with.Keys[0], Prov: cd.prov, Chain: r.Chain, Epoch: int64(epochNow), Session: f.nextSess, CuSum: 10}
				cu := v.CuSum
				vcr := credit{Key: uKey{epochNow, cd.prov.Addr(), cd.with.ID, r.Chain, v.Session}, Cons: f.B.Addr(), Block: epochNow, CuSum: cu, Tracked: &cu}
				r.Prov, r.Cons, r.Signer, r.Badge, r.QosExc = cd.prov, f.B, cd.sans.Keys[0], nil, nil
				tx.sender = cd.prov
				semRegistered++
				if rapid.Bool().Draw(rt, "sameTx") {
					tx.msg = buildMsg(rt, w, tx.sender, []chain.RelaySpec{v, r})
					tx.desc = "valid " + v.String() + " + other project's " + r.String()
					tx.mayAccept, tx.credits = true, []credit{vcr}
					tx.class = "semantic:paired-with-another-project-of-the-subscription(same tx)"
					return tx, true
				}
				run(c05Tx{name: "valid-before-" + name, msg: buildMsg(rt, w, tx.sender, []chain.RelaySpec{v}), sender: tx.sender, desc: v.String(), mayAccept: true, credits: []credit{vcr}, class: "control-other-project"})
				tx.msg = buildMsg(rt, w, tx.sender, []chain.RelaySpec{r})
				tx.desc = r.String()
				tx.class = "semantic:paired-with-another-project-of-the-subscription(same block)"
				return tx, true
			case "sem-unstaked-provider":
				var un []*chain.Prov
				for _, p := range w.Providers {
					if !stakedAt(w, p, r.Chain, uint64(r.Epoch)) {
						un = append(un, p)
					}
				}
				if len(un) == 0 {
					return c05Tx{}, false
				}
				r.Prov = pick(rt, "unstaked", un)
				tx.sender, registered = r.Prov, true
			case "sem-sender-mismatch":
				tx.sender, registered = otherProvider(rt, r.Prov), true
			case "sem-future-epoch":
				next, err := w.C.TS.Keepers.Epochstorage.GetNextEpoch(w.C.TS.Ctx, w.C.Height())
				if err != nil {
					return c05Tx{}, false
				}
				r.Epoch, registered = int64(next)+int64(20*rapid.IntRange(0, 2).Draw(rt, "futureEpochs")), true
			case "sem-negative-epoch":
				r.Epoch, registered = -int64(rapid.SampledFrom([]int{1, 20, 1 << 40}).Draw(rt, "neg")), true
			case "sem-wrong-lavaid":
				r.LavaID, registered = "lava-other-1", true
			case "sem-badge-unknown-signer":
				r.Badge = makeBadge(rt, f.stranger, f.user.Addr, uint64(r.Epoch), r.CuSum*2, f.lavaID)
				r.Signer = f.user
			case "sem-badge-disabled-signer":
				r.Badge = makeBadge(rt, f.off.Keys[0], f.user.Addr, uint64(r.Epoch), r.CuSum*2, f.lavaID)
				r.Signer, registered = f.user, true
			case "sem-badge-wrong-user":
				r.Badge = makeBadge(rt, r.Signer, f.user.Addr, uint64(r.Epoch), r.CuSum*2, f.lavaID)
				r.Signer, registered = f.user2, true
			case "sem-badge-epoch-mismatch":
				d := uint64(20)
				if uint64(r.Epoch) < d {
					return c05Tx{}, false
				}
				r.Badge = makeBadge(rt, r.Signer, f.user.Addr, uint64(r.Epoch)-d, r.CuSum*2, f.lavaID)
				r.Signer, registered = f.user, true
			case "sem-badge-chain-mismatch":
				r.Badge = makeBadge(rt, r.Signer, f.user.Addr, uint64(r.Epoch), r.CuSum*2, "lava-other-1")
				r.Signer, registered = f.user, true
			case "sem-badge-user-without-badge":
				r.Signer = f.user
			case "sem-expired-subscription":
				if f.expiring == nil {
					return c05Tx{}, false
				}
				r.Signer, r.Cons, registered = f.expiring.Acc, f.expiring, true
			}
			if registered {
				semRegistered++
			}
			tx.msg = buildMsg(rt, w, tx.sender, []chain.RelaySpec{r})
			tx.desc = r.String()
			return tx, true
		}
		// after-signing mutations of a signed, valid session
		msg := buildMsg(rt, w, r.Prov, []chain.RelaySpec{r})
		rs := msg.Relays[0]
		pos := rapid.IntRange(0, 1000).Draw(rt, "pos")
		switch name {
		case "provider":
			rs.Provider = otherProvider(rt, r.Prov).Addr()
		case "provider+sender":
			o := otherProvider(rt, r.Prov)
			rs.Provider, tx.sender = o.Addr(), o
			msg.Creator = o.Addr()
		case "spec":
			rs.SpecId = "SPX"
			if len(w.Specs) > 1 {
				for _, s := range w.Specs {
					if s.Index != r.Chain {
						rs.SpecId = s.Index
					}
				}
			}
		case "lavaid":
			rs.LavaChainId = rs.LavaChainId + "x"
		case "epoch-future":
			rs.Epoch += 20 * int64(rapid.IntRange(1, 12).Draw(rt, "epochsAhead"))
		case "epoch-negative":
			rs.Epoch = -rs.Epoch - 1
		case "epoch-offgrid":
			if uint64(rs.Epoch) >= w.C.Height() {
				return c05Tx{}, false
			}
			rs.Epoch++
		case "epoch-other":
			if rs.Epoch < 20 {
				return c05Tx{}, false
			}
			rs.Epoch -= 20
		case "epoch-zero":
			rs.Epoch = 0
		case "session":
			rs.SessionId += uint64(rapid.IntRange(1, 5).Draw(rt, "d"))
		case "cu-more":
			rs.CuSum = rs.CuSum*uint64(rapid.SampledFrom([]int{2, 10, 1000}).Draw(rt, "mul")) + 1
		case "cu-less":
			rs.CuSum--
		case "hash":
			rs.ContentHash = flip(rs.ContentHash, pos)
		case "relaynum":
			rs.RelayNum++
		case "sig-flip":
			// byte 0 is the recovery header (recovery id + compressed-key flag): flipping the
			// compression flag re-encodes the same signature of the same key; only R and S are flipped
			rs.Sig = append(rs.Sig[:1:1], flip(rs.Sig[1:], pos)...)
		case "sig-trunc":
			rs.Sig = rs.Sig[:pos%len(rs.Sig)]
		case "sig-empty":
			rs.Sig = nil
		case "sig-swap":
			o, _, ok := freshValid(rt, 1)
			if !ok {
				return c05Tx{}, false
			}
			o.Prov = r.Prov
			rs.Sig = buildMsg(rt, w, r.Prov, []chain.RelaySpec{o}).Relays[0].Sig
		case "qos":
			q := chain.GenQos(rt, "mutQos")
			if rs.QosReport != nil && q.Latency.Equal(rs.QosReport.Latency) && q.Availability.Equal(rs.QosReport.Availability) && q.Sync.Equal(rs.QosReport.Sync) {
				return c05Tx{}, false
			}
			rs.QosReport = q
		case "qosexc":
			rs.QosExcellenceReport = &pairingtypes.QualityOfServiceReport{Latency: sdk.NewDecWithPrec(7, 3), Availability: sdk.NewDecWithPrec(77, 2), Sync: sdk.NewDecWithPrec(7, 3)}
		case "unresp":
			o := otherProvider(rt, r.Prov)
			rs.UnresponsiveProviders = append(rs.UnresponsiveProviders, &pairingtypes.ReportedProvider{Address: o.Addr(), Disconnections: 3, Errors: 3, TimestampS: w.C.TS.Ctx.BlockTime().Unix()})
		case "badge-addr":
			rs.Badge.Address = f.user2.Addr.String()
		case "badge-epoch":
			rs.Badge.Epoch += 20
		case "badge-chain":
			rs.Badge.LavaChainId += "x"
		case "badge-alloc":
			rs.Badge.CuAllocation = rs.Badge.CuAllocation*10 + 1
		case "badge-sig":
			rs.Badge.ProjectSig = append(rs.Badge.ProjectSig[:1:1], flip(rs.Badge.ProjectSig[1:], pos)...)
		case "badge-drop":
			rs.Badge = nil
		case "badge-virtual":
			rs.Badge.VirtualEpoch = 1
		case "badge-foreign-on-plain":
			// the relay stays signed by the developer key: the attached badge (of another user) is
			// not used by it, so it still is an authentic plain relay
			rs.Badge = makeBadge(rt, f.second.Keys[0], f.user.Addr, uint64(rs.Epoch), 5, f.lavaID)
			tx.mayAccept, tx.credits = true, []credit{cr}
			tx.class = "after-signing-still-authentic"
		}
		tx.msg = msg
		tx.desc = fmt.Sprintf("%s of %s", name, r.String())
		return tx, true
	}

	control := func(rt *rapid.T) (c05Tx, bool) {
		r, cr, ok := freshValid(rt, 0)
		if !ok {
			return c05Tx{}, false
		}
		cl := "control-plain"
		if r.Badge != nil {
			cl = "control-badge"
		}
		return c05Tx{name: "control", msg: buildMsg(rt, w, r.Prov, []chain.RelaySpec{r}), sender: r.Prov, desc: r.String(), mayAccept: true, credits: []credit{cr}, class: cl}, true
	}

	nMut := 10
	controlAt := rapid.IntRange(0, nMut).Draw(rt, "controlAt")
	for i := 0; i <= nMut; i++ {
		if i == controlAt {
			tx, ok := control(rt)
			if !ok {
				rt.Skip("no valid relay possible in this world")
			}
			run(tx)
			continue
		}
		var name string
		if rapid.IntRange(0, 4).Draw(rt, "semantic") < 2 {
			name = pick(rt, "semMutant", semantic)
		} else {
			name = pick(rt, "mutant", afterSign)
		}
		tx, ok := mutant(rt, name)
		if !ok {
			cls["not-applicable"]++
			continue
		}
		// sometimes together with a valid relay of the same sender in one tx
		if rapid.IntRange(0, 3).Draw(rt, "mixed") == 0 && len(tx.msg.Relays) == 1 {
			v, vcr, ok := freshValid(rt, 1)
			if ok {
				v.Prov = tx.sender
				if stakedAt(w, tx.sender, v.Chain, uint64(v.Epoch)) {
					vcr.Key.Prov = tx.sender.Addr()
					vrs := buildMsg(rt, w, tx.sender, []chain.RelaySpec{v}).Relays[0]
					if rapid.Bool().Draw(rt, "validFirst") {
						tx.msg.Relays = []*pairingtypes.RelaySession{vrs, tx.msg.Relays[0]}
					} else {
						tx.msg.Relays = append(tx.msg.Relays, vrs)
					}
					tx.desc += " + valid " + v.String()
					tx.credits = append(tx.credits, vcr)
					tx.mayAccept = true // the tx may be accepted, crediting only the authentic relay(s)
					tx.class += "+valid-relay-in-tx"
				}
			}
		}
		run(tx)
		if rapid.IntRange(0, 5).Draw(rt, "advance") == 0 {
			w.C.AdvanceBlocks(rapid.IntRange(1, 25).Draw(rt, "blocks"), 0)
		}
		if w.C.Halt != "" {
			rt.Skip("halted")
		}
	}

	// always once when the world allows it (the two pairings of B differ in few worlds)
	if tx, ok := mutant(rt, "sem-other-project-unpaired"); ok {
		run(tx)
	}
	if w.C.Halt != "" {
		rt.Skip("halted")
	}

	// end phase: things that change the world for good
	switch rapid.IntRange(0, 3).Draw(rt, "endPhase") {
	case 0: // the epoch of a properly signed relay leaves chain memory
		r, _, ok := freshValid(rt, 0)
		if ok {
			w.C.Logf("advanceEpochs(11)")
			w.C.AdvanceEpochs(11)
			if w.C.Halt == "" && uint64(r.Epoch) < earliestEpoch(w) {
				run(c05Tx{name: "sem-epoch-out-of-memory", msg: buildMsg(rt, w, r.Prov, []chain.RelaySpec{r}), sender: r.Prov, desc: r.String(), class: "semantic"})
				semRegistered++
			}
		}
	case 1: // the spec gets disabled
		r, _, ok := freshValid(rt, 0)
		if ok {
			s := *w.SpecByIndex(r.Chain)
			s.Enabled = false
			if err := w.C.Tx("disableSpec("+s.Index+")", nil, func() error { w.C.TS.Keepers.Spec.SetSpec(w.C.TS.Ctx, s); return nil }); err != nil {
				harnessFatal(rt, "cannot disable spec: %v", err)
			}
			if rapid.Bool().Draw(rt, "nextBlock") {
				w.C.AdvanceBlock(0)
			}
			run(c05Tx{name: "sem-disabled-spec", msg: buildMsg(rt, w, r.Prov, []chain.RelaySpec{r}), sender: r.Prov, desc: r.String(), class: "semantic"})
			semRegistered++
		}
	}

	nt := controlOK && semRegistered >= 1
	classes := sortedKeys(cls)
	sort.Strings(classes)
	c.Case(nt, strings.Join(w.C.Hist, "|"), classes...)
	for _, h := range w.C.Hist {
		if i := strings.Index(h, "tx "); i >= 0 {
			name := h[i+3:]
			if j := strings.Index(name, "("); j > 0 {
				res := "rejected"
				if strings.HasSuffix(h, "-> ok") {
					res = "accepted"
				}
				c.AddExtra("tx:"+name[:j]+":"+res, 1)
			}
		}
	}
	if nt {
		c.Sample(map[string]any{"history_tail": w.C.HistTail(12), "classes": cls})
	}
	_ = planstypes.Policy{}
}
