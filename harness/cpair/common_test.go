package cpair

import (
	"context"
	"fmt"
	"sort"
	"strings"

	sdk "github.com/cosmos/cosmos-sdk/types"
	"github.com/lavanet/lava/v5/utils/sigs"
	epochstoragetypes "github.com/lavanet/lava/v5/x/epochstorage/types"
	pairingtypes "github.com/lavanet/lava/v5/x/pairing/types"
	planstypes "github.com/lavanet/lava/v5/x/plans/types"
	projectstypes "github.com/lavanet/lava/v5/x/projects/types"
	spectypes "github.com/lavanet/lava/v5/x/spec/types"
	"pgregory.net/rapid"

	"verifharness/internal/chain"
)

// ---- queries (always on a discarded cache context, like a real gRPC query) ---------------------

// qctx branches the block context; writes made by a query (ValidatePairingForClient stores the
// pairing relay cache) never reach the chain state.
func qctx(w *chain.World) (sdk.Context, context.Context) {
	cctx, _ := w.C.TS.Ctx.CacheContext()
	return cctx, sdk.WrapSDKContext(cctx)
}

func addrsOf(entries []epochstoragetypes.StakeEntry) []string {
	out := make([]string, len(entries))
	for i, e := range entries {
		out[i] = e.Address
	}
	return out
}

// getPairing runs the GetPairing query for a developer key.
func getPairing(w *chain.World, chainID, dev string) ([]epochstoragetypes.StakeEntry, error) {
	_, goCtx := qctx(w)
	res, err := w.C.TS.Keepers.Pairing.GetPairing(goCtx, &pairingtypes.QueryGetPairingRequest{ChainID: chainID, Client: dev})
	if err != nil {
		return nil, err
	}
	return res.Providers, nil
}

// verifyPairingOn runs the VerifyPairing query on the given (possibly shared) query context.
func verifyPairingOn(w *chain.World, goCtx context.Context, chainID, dev, prov string, block uint64) (bool, error) {
	res, err := w.C.TS.Keepers.Pairing.VerifyPairing(goCtx, &pairingtypes.QueryVerifyPairingRequest{ChainID: chainID, Client: dev, Provider: prov, Block: block})
	if err != nil {
		return false, err
	}
	return res.Valid, nil
}

func verifyPairing(w *chain.World, chainID, dev, prov string, block uint64) (bool, error) {
	_, goCtx := qctx(w)
	return verifyPairingOn(w, goCtx, chainID, dev, prov, block)
}

// ---- names --------------------------------------------------------------------------------------------

func provName(w *chain.World, addr string) string {
	if p := w.ProvByAddr(addr); p != nil {
		return p.Name
	}
	if len(addr) > 8 {
		return "?" + addr[len(addr)-6:]
	}
	return "?" + addr
}

func provNames(w *chain.World, addrs []string) string {
	out := make([]string, len(addrs))
	for i, a := range addrs {
		out[i] = provName(w, a)
	}
	return "[" + strings.Join(out, " ") + "]"
}

func histString(w *chain.World, n int) string { return strings.Join(w.C.HistTail(n), "\n  ") }

// devKeys lists every developer key known to the world with its owner, in a fixed order.
type devKey struct {
	Cons *chain.Cons
	Addr string
	Idx  int
}

func devKeys(w *chain.World) []devKey {
	var out []devKey
	for _, c := range w.Consumers {
		for i, d := range c.Devs {
			out = append(out, devKey{Cons: c, Addr: d.Addr.String(), Idx: i})
		}
	}
	return out
}

func (d devKey) String() string { return fmt.Sprintf("%s/dev%d", d.Cons.Name, d.Idx) }

// ---- generators of this package ------------------------------------------------------------------------

// uniform draws lo..hi with (nearly) equal probabilities from fair bits. rapid's IntRange is
// strongly biased towards the low end, which would make e.g. "max providers to pair" almost
// always 2 after taking the minimum over three policies.
func uniform(t *rapid.T, label string, lo, hi int) int {
	span := hi - lo + 1
	if span <= 1 {
		return lo
	}
	v := 0
	for b := 0; (1 << b) < span*8; b++ {
		if rapid.Bool().Draw(t, fmt.Sprintf("%s_b%d", label, b)) {
			v |= 1 << b
		}
	}
	return lo + v%span
}

// chance is true with probability num/den (fair bits).
func chance(t *rapid.T, label string, num, den int) bool { return uniform(t, label, 0, den-1) < num }

// allGeoBits are the seven region bits of planstypes.Geolocation.
var allGeoBits = []int32{1, 2, 4, 8, 16, 32, 64}

func geoBits(geo int32) []int32 {
	var out []int32
	for _, b := range allGeoBits {
		if geo&b != 0 {
			out = append(out, b)
		}
	}
	return out
}

// genAsymEndpoints draws endpoints for the rich spec SP0 where add-on / extension support is
// drawn per API interface (jsonrpc and rest live on separate endpoints), so that a provider may
// support `debug` or `archive` on one interface only. One pair of endpoints per geolocation bit.
func genAsymEndpoints(t *rapid.T, geo int32, label string) []epochstoragetypes.Endpoint {
	type sup struct{ debug, archive bool }
	draw := func(l string) sup {
		return sup{debug: chance(t, l+"_debug", 3, 5), archive: chance(t, l+"_archive", 3, 5)}
	}
	js, rs := draw(label+"_jsonrpc"), draw(label+"_rest")
	grpc := rapid.Bool().Draw(t, label+"_grpc")
	// sometimes one endpoint without an interface list: the chain fills in the spec's mandatory ones
	defaults := chance(t, label+"_defaultIfaces", 1, 5)
	svc := func(s sup) []string {
		var out []string
		if s.debug {
			out = append(out, chain.AddonDB)
		}
		if s.archive {
			out = append(out, chain.ExtArch)
		}
		return out
	}
	// split (0 = no): the add-on and the extension of one interface are served by two different
	// endpoints (1: extension-only endpoint first, 2: add-on-only endpoint first), so the provider
	// serves each of them but not the combination "add-on with extension"
	splitJS, splitRS := 0, 0
	if !defaults {
		if chance(t, label+"_jsonrpc_split", 1, 4) {
			splitJS = uniform(t, label+"_jsonrpc_splitOrder", 1, 2)
		}
		if chance(t, label+"_rest_split", 1, 4) {
			splitRS = uniform(t, label+"_rest_splitOrder", 1, 2)
		}
	}
	one := func(iface, ipport string, bit int32, s sup, split int) []epochstoragetypes.Endpoint {
		if split == 0 {
			return []epochstoragetypes.Endpoint{{IPPORT: ipport, Geolocation: bit, ApiInterfaces: []string{iface}, Addons: svc(s)}}
		}
		ext := epochstoragetypes.Endpoint{IPPORT: ipport, Geolocation: bit, ApiInterfaces: []string{iface}, Addons: []string{chain.ExtArch}}
		add := epochstoragetypes.Endpoint{IPPORT: strings.Replace(ipport, ":443", ":8443", 1), Geolocation: bit, ApiInterfaces: []string{iface}, Addons: []string{chain.AddonDB}}
		if split == 1 {
			return []epochstoragetypes.Endpoint{ext, add}
		}
		return []epochstoragetypes.Endpoint{add, ext}
	}
	var eps []epochstoragetypes.Endpoint
	for _, bit := range geoBits(geo) {
		if defaults {
			eps = append(eps, epochstoragetypes.Endpoint{IPPORT: "10.0.0.5:443", Geolocation: bit, Addons: svc(js)})
		} else {
			eps = append(eps, one(chain.IfJSON, "10.0.0.2:443", bit, js, splitJS)...)
			eps = append(eps, one(chain.IfREST, "10.0.0.3:443", bit, rs, splitRS)...)
		}
		if grpc {
			eps = append(eps, epochstoragetypes.Endpoint{IPPORT: "10.0.0.4:9090", Geolocation: bit, ApiInterfaces: []string{chain.IfGRPC}})
		}
	}
	return eps
}

// reqCatalog: the chain requirements a policy of this package may carry for SP0 (all name
// collections that exist in the rich spec).
//
// safeUnion (set while the known finding "requirements union is returned in map order" is
// excluded): mixed requirements with extensions are only generated on the jsonrpc interface, so
// that the per-add-on / per-extension mix sub-filters are the same whatever the order of the
// combined requirement list.
func genRequirement(t *rapid.T, label string, mixedBias int, safeUnion bool) planstypes.ChainRequirement {
	kind := uniform(t, label+"_kind", 0, 8)
	req := planstypes.ChainRequirement{}
	switch {
	case kind <= 2:
		req.Collection = spectypes.CollectionData{ApiInterface: chain.IfJSON, Type: "POST", AddOn: chain.AddonDB}
	case kind <= 5:
		req.Collection = spectypes.CollectionData{ApiInterface: chain.IfREST, Type: "GET", AddOn: chain.AddonDB}
	case kind == 6:
		req.Collection = spectypes.CollectionData{ApiInterface: chain.IfJSON, Type: "POST"}
	case kind == 7:
		req.Collection = spectypes.CollectionData{ApiInterface: chain.IfREST, Type: "GET"}
	default:
		req.Collection = spectypes.CollectionData{ApiInterface: chain.IfGRPC, Type: "", AddOn: chain.IfGRPC}
	}
	if kind != 8 && chance(t, label+"_ext", 2, 3) {
		req.Extensions = []string{chain.ExtArch}
	}
	req.Mixed = chance(t, label+"_mixed", mixedBias, 10)
	if safeUnion && req.Mixed && len(req.Extensions) > 0 && req.Collection.ApiInterface != chain.IfJSON {
		req.Mixed = false
	}
	return req
}

type polOpts struct {
	isPlan    bool
	mixedBias int  // 0..10: probability (tenths) that a requirement is mixed
	noSelMix  bool // never use SELECTED_PROVIDERS_MODE_MIXED
	wideGeo   bool // geolocation profiles over all seven regions
	reqProb   int  // tenths: probability of carrying requirements for SP0
	safeUnion bool // see genRequirement
	maxProv   [2]int
}

// genPolicy draws a valid policy aimed at SP0: requirements (0-3, possibly sharing an add-on on
// different interfaces), a selected-providers mode with a list drawn from the world's providers,
// a geolocation profile and max-providers-to-pair.
func genPolicy(t *rapid.T, w *chain.World, label string, o polOpts) planstypes.Policy {
	total := uint64(rapid.SampledFrom([]int{1000, 100_000, 1_000_000}).Draw(t, label+"_totalCU"))
	epochCU := total / uint64(rapid.SampledFrom([]int{1, 10}).Draw(t, label+"_epochDiv"))
	if o.maxProv[1] == 0 {
		o.maxProv = [2]int{2, 7}
	}
	pol := planstypes.Policy{TotalCuLimit: total, EpochCuLimit: epochCU,
		MaxProvidersToPair: uint64(uniform(t, label+"_maxProviders", o.maxProv[0], o.maxProv[1]))}
	gl := int(planstypes.Geolocation_GL)
	geos := []int{gl, gl, gl, gl, 7, 7, 3, 5, 6, 1, 2, 4}
	if o.wideGeo {
		geos = []int{gl, gl, gl, 127, 1, 2, 4, 8, 16, 32, 64, 3, 6, 9, 34, 48, 96}
	}
	pol.GeolocationProfile = int32(geos[uniform(t, label+"_geo", 0, len(geos)-1)])
	if chance(t, label+"_hasReq", o.reqProb, 10) {
		cp := planstypes.ChainPolicy{ChainId: w.Specs[0].Index}
		n := uniform(t, label+"_nReq", 1, 3)
		for i := 0; i < n; i++ {
			cp.Requirements = append(cp.Requirements, genRequirement(t, fmt.Sprintf("%s_req%d", label, i), o.mixedBias, o.safeUnion))
		}
		pol.ChainPolicies = append(pol.ChainPolicies, cp)
		for _, s := range w.Specs[1:] { // a policy with chain policies allows only the listed chains
			pol.ChainPolicies = append(pol.ChainPolicies, planstypes.ChainPolicy{ChainId: s.Index})
		}
	}
	modes := []planstypes.SELECTED_PROVIDERS_MODE{planstypes.SELECTED_PROVIDERS_MODE_ALLOWED, planstypes.SELECTED_PROVIDERS_MODE_ALLOWED,
		planstypes.SELECTED_PROVIDERS_MODE_EXCLUSIVE, planstypes.SELECTED_PROVIDERS_MODE_EXCLUSIVE}
	if !o.noSelMix {
		modes = append(modes, planstypes.SELECTED_PROVIDERS_MODE_MIXED)
	}
	if o.isPlan {
		modes = append(modes, planstypes.SELECTED_PROVIDERS_MODE_DISABLED)
	}
	pol.SelectedProvidersMode = modes[uniform(t, label+"_selMode", 0, len(modes)-1)]
	if pol.SelectedProvidersMode == planstypes.SELECTED_PROVIDERS_MODE_MIXED || pol.SelectedProvidersMode == planstypes.SELECTED_PROVIDERS_MODE_EXCLUSIVE {
		for i, p := range w.Providers {
			if chance(t, fmt.Sprintf("%s_sel%d", label, i), 3, 4) {
				pol.SelectedProviders = append(pol.SelectedProviders, p.Addr())
			}
		}
	}
	return pol
}

// setPolicy sends MsgSetPolicy / MsgSetSubscriptionPolicy for the consumer's admin project.
func setPolicy(w *chain.World, c *chain.Cons, sub bool, pol *planstypes.Policy) error {
	proj := chain.AdminProject(c.Addr())
	desc := "nil"
	if pol != nil {
		desc = chain.PolicyStr(*pol)
	}
	if sub {
		msg := &projectstypes.MsgSetSubscriptionPolicy{Creator: c.Addr(), Projects: []string{proj}, Policy: pol}
		return w.C.Tx(fmt.Sprintf("setSubPolicy*(%s,%s)", c.Name, desc), msg.ValidateBasic, func() error {
			_, err := w.C.TS.Servers.ProjectServer.SetSubscriptionPolicy(w.C.TS.GoCtx, msg)
			return err
		})
	}
	msg := &projectstypes.MsgSetPolicy{Creator: c.Addr(), Project: proj, Policy: pol}
	return w.C.Tx(fmt.Sprintf("setAdminPolicy*(%s,%s)", c.Name, desc), msg.ValidateBasic, func() error {
		_, err := w.C.TS.Servers.ProjectServer.SetPolicy(w.C.TS.GoCtx, msg)
		return err
	})
}

// actSetPolicy: this package's policy action (admin or subscription policy of an admin project).
func actSetPolicy(w *chain.World, o polOpts) func(*rapid.T) {
	return func(t *rapid.T) {
		c := w.Consumers[rapid.IntRange(0, len(w.Consumers)-1).Draw(t, "consumer")]
		sub := rapid.Bool().Draw(t, "subscriptionPolicy")
		if rapid.IntRange(0, 11).Draw(t, "clearPolicy") == 0 {
			_ = setPolicy(w, c, sub, nil)
			return
		}
		pol := genPolicy(t, w, "pol", o)
		_ = setPolicy(w, c, sub, &pol)
	}
}

// actPlanModify: a plan modification proposal whose chain requirements and selected-provider
// configuration come from this package's generator.
func actPlanModify(w *chain.World, o polOpts) func(*rapid.T) {
	return func(t *rapid.T) {
		old := w.Plans[rapid.IntRange(0, len(w.Plans)-1).Draw(t, "plan")]
		p := w.GenPlan(t, old.Index, "planmod")
		o.isPlan = true
		extra := genPolicy(t, w, "planmodpol", o)
		p.PlanPolicy.ChainPolicies = extra.ChainPolicies
		p.PlanPolicy.SelectedProvidersMode = extra.SelectedProvidersMode
		p.PlanPolicy.SelectedProviders = extra.SelectedProviders
		_ = w.C.Tx(fmt.Sprintf("planModify*(%s,price=%s,%s)", p.Index, p.Price.Amount, chain.PolicyStr(p.PlanPolicy)), p.ValidatePlan, func() error {
			return w.C.TS.TxProposalAddPlans(p)
		})
	}
}

// actRestakeAsym re-stakes an SP0 provider with per-interface add-on support (and possibly a new
// geolocation), keeping the amount.
func actRestakeAsym(w *chain.World, wideGeo bool) func(*rapid.T) {
	return func(t *rapid.T) {
		staked := w.StakedOn(w.Specs[0].Index)
		if len(staked) == 0 {
			t.Skip("nobody staked on SP0")
		}
		p := staked[rapid.IntRange(0, len(staked)-1).Draw(t, "provider")]
		restakeAsym(t, w, p, wideGeo, "re")
	}
}

func restakeAsym(t *rapid.T, w *chain.World, p *chain.Prov, wideGeo bool, label string) {
	chainID := w.Specs[0].Index
	entry, found := w.C.TS.Keepers.Epochstorage.GetStakeEntryCurrent(w.C.TS.Ctx, chainID, p.Addr())
	if !found {
		return
	}
	geo := entry.Geolocation
	if rapid.Bool().Draw(t, label+"_newGeo") {
		if wideGeo {
			geo = int32(uniform(t, label+"_geo", 1, 127))
		} else {
			geo = int32(uniform(t, label+"_geo", 1, 7))
		}
	}
	eps := genAsymEndpoints(t, geo, label)
	val := w.Validators[rapid.IntRange(0, len(w.Validators)-1).Draw(t, label+"_validator")]
	_ = w.StakeProvider(p, chainID, entry.Stake.Amount.Int64(), geo, eps, entry.DelegateCommission, val)
}

// richSetup makes the generated world interesting for pairing: an extra plan "xplan" whose policy
// comes from this package's generator with 4-8 providers to pair (the engine's plans pair 2-5,
// mostly 2), one or two extra consumers subscribed to it, per-interface add-on support for most
// SP0 providers, and admin / subscription policies on the consumers' admin projects. Ends at the
// start of a new epoch, where all of it is in force.
func richSetup(rt *rapid.T, w *chain.World, o polOpts, wideGeo bool) {
	ts := w.C.TS
	po := o
	po.isPlan = true
	po.maxProv = [2]int{4, 8}
	pol := genPolicy(rt, w, "xplan", po)
	if !chance(rt, "xplan_geoKeep", 1, 3) {
		pol.GeolocationProfile = int32(planstypes.Geolocation_GL)
	}
	xplan := planstypes.Plan{Index: "xplan", Description: "cpair plan", Type: "rpc", Price: sdk.NewCoin(w.C.Denom(), sdk.NewInt(1000)),
		AnnualDiscountPercentage: 0, PlanPolicy: pol, ProjectsLimit: 5}
	if err := w.C.Tx("planAdd*(xplan,"+chain.PolicyStr(pol)+")", xplan.ValidatePlan, func() error { return ts.TxProposalAddPlans(xplan) }); err == nil {
		w.Plans = append(w.Plans, xplan)
		n := uniform(rt, "xcons_n", 1, 2)
		for i := 0; i < n; i++ {
			acc := w.NewAccount(w.Cfg.Balance)
			cons := &chain.Cons{Name: fmt.Sprintf("xcons%d", i), Acc: acc, Devs: []sigs.Account{acc}}
			months := uniform(rt, fmt.Sprintf("xcons%d_months", i), 1, 3)
			err := w.C.Tx(fmt.Sprintf("subBuy*(%s,xplan,%dm)", cons.Name, months), nil, func() error {
				_, err := ts.TxSubscriptionBuy(cons.Addr(), cons.Addr(), "xplan", months, false, false)
				return err
			})
			if err == nil {
				w.Consumers = append(w.Consumers, cons)
			}
		}
	}
	for i, p := range w.StakedOn(w.Specs[0].Index) {
		if chance(rt, fmt.Sprintf("init_asym%d", i), 3, 4) {
			restakeAsym(rt, w, p, wideGeo, fmt.Sprintf("init_re%d", i))
		}
	}
	for i, c := range w.Consumers {
		if chance(rt, fmt.Sprintf("init_admin%d", i), 3, 4) {
			pol := genPolicy(rt, w, fmt.Sprintf("init_adminpol%d", i), o)
			_ = setPolicy(w, c, false, &pol)
		}
		if chance(rt, fmt.Sprintf("init_sub%d", i), 1, 2) {
			pol := genPolicy(rt, w, fmt.Sprintf("init_subpol%d", i), o)
			_ = setPolicy(w, c, true, &pol)
		}
	}
	w.C.AdvanceEpoch()
}

// actJail simulates what punishUnresponsiveProvider writes for an unresponsive provider (the
// complaint threshold itself is C19's subject): soft jail = stake applied again only some epochs
// ahead, hard jail = frozen + jail end time.
func actJail(w *chain.World) func(*rapid.T) {
	return func(t *rapid.T) {
		p := w.Providers[rapid.IntRange(0, len(w.Providers)-1).Draw(t, "provider")]
		chains := w.ChainsOf(p)
		if len(chains) == 0 {
			t.Skip("not staked")
		}
		chainID := chains[rapid.IntRange(0, len(chains)-1).Draw(t, "chain")]
		hard := rapid.Bool().Draw(t, "hardJail")
		epochs := uint64(rapid.IntRange(1, 3).Draw(t, "softJailEpochs"))
		ts := w.C.TS
		_ = w.C.Tx(fmt.Sprintf("jail*(%s,%s,hard=%v,epochs=%d)", p.Name, chainID, hard, epochs), nil, func() error {
			entry, found := ts.Keepers.Epochstorage.GetStakeEntryCurrent(ts.Ctx, chainID, p.Addr())
			if !found {
				return fmt.Errorf("no entry")
			}
			now := ts.Ctx.BlockTime().UTC().Unix()
			entry.Jails++
			if hard {
				entry.Freeze()
				entry.JailEndTime = now + 3600
			} else {
				entry.JailEndTime = now + 600
				entry.StakeAppliedBlock = uint64(ts.Ctx.BlockHeight()) + epochs*ts.Keepers.Epochstorage.EpochBlocksRaw(ts.Ctx)
			}
			ts.Keepers.Epochstorage.SetStakeEntryCurrent(ts.Ctx, entry)
			return nil
		})
	}
}

// ---- the eligibility model (written from the statement of C02) ------------------------------------------

type reqKey struct {
	Iface, Addon, Exts string
	Mixed              bool
}

// effective is what the statement calls the consumer's policies combined for one chain.
type effective struct {
	OK          bool   // a pairing list is expected to exist
	Why         string // when !OK
	Project     projectstypes.Project
	Policies    []*planstypes.Policy
	NPol        int
	MaxProv     uint64
	Geo         int32
	Mode        planstypes.SELECTED_PROVIDERS_MODE
	Selected    map[string]bool // only meaningful for EXCLUSIVE / MIXED
	Reqs        []planstypes.ChainRequirement
	AnyMixed    bool
	PolWithReqs int // number of policies with requirements for the chain
}

// modelPolicy reads the raw state (project, subscription, plan) at `block` and combines the
// policies as the documentation says: strictest of plan / subscription / admin policy.
func modelPolicy(w *chain.World, dev, chainID string, block uint64) effective {
	ts := w.C.TS
	var e effective
	proj, err := ts.Keepers.Projects.GetProjectForDeveloper(ts.Ctx, dev, block)
	if err != nil {
		e.Why = "no project for developer key"
		return e
	}
	e.Project = proj
	if !proj.Enabled {
		e.Why = "project disabled"
		return e
	}
	if _, found := ts.Keepers.Subscription.GetSubscription(ts.Ctx, proj.Subscription); !found {
		e.Why = "no subscription"
		return e
	}
	plan, err := ts.Keepers.Subscription.GetPlanFromSubscription(ts.Ctx, proj.Subscription, block)
	if err != nil {
		e.Why = "no plan for subscription"
		return e
	}
	planPolicy := plan.PlanPolicy
	e.Policies = []*planstypes.Policy{&planPolicy}
	if proj.SubscriptionPolicy != nil {
		e.Policies = append(e.Policies, proj.SubscriptionPolicy)
	}
	if proj.AdminPolicy != nil {
		e.Policies = append(e.Policies, proj.AdminPolicy)
	}
	e.NPol = len(e.Policies)
	e.MaxProv = ^uint64(0)
	e.Geo = int32(0x7fffffff)
	gls := false
	var lists [][]string
	seen := map[reqKey]bool{}
	for _, p := range e.Policies {
		// chain allowed by this policy?
		var cp *planstypes.ChainPolicy
		allowed := len(p.ChainPolicies) == 0
		for i := range p.ChainPolicies {
			if p.ChainPolicies[i].ChainId == chainID {
				cp, allowed = &p.ChainPolicies[i], true
				break
			}
			if p.ChainPolicies[i].ChainId == planstypes.WILDCARD_CHAIN_POLICY {
				allowed = true
			}
		}
		if !allowed {
			e.Why = "chain not allowed by a policy"
			return e
		}
		if cp != nil && len(cp.Requirements) > 0 {
			e.PolWithReqs++
			for _, r := range cp.Requirements {
				exts := append([]string{}, r.Extensions...)
				sort.Strings(exts)
				k := reqKey{r.Collection.ApiInterface, r.Collection.AddOn, strings.Join(exts, ","), r.Mixed}
				if !seen[k] {
					seen[k] = true
					e.Reqs = append(e.Reqs, r)
				}
				if r.Mixed {
					e.AnyMixed = true
				}
			}
		}
		if p.MaxProvidersToPair < e.MaxProv {
			e.MaxProv = p.MaxProvidersToPair
		}
		if p.GeolocationProfile == int32(planstypes.Geolocation_GLS) {
			gls = true
		}
		e.Geo &= p.GeolocationProfile
		if p.SelectedProvidersMode > e.Mode {
			e.Mode = p.SelectedProvidersMode
		}
		if (p.SelectedProvidersMode == planstypes.SELECTED_PROVIDERS_MODE_EXCLUSIVE || p.SelectedProvidersMode == planstypes.SELECTED_PROVIDERS_MODE_MIXED) && len(p.SelectedProviders) > 0 {
			lists = append(lists, p.SelectedProviders)
		}
	}
	if gls {
		e.Geo = int32(planstypes.Geolocation_GL)
	}
	if e.Geo == 0 {
		e.Why = "policies have no common geolocation"
		return e
	}
	// intersection of the lists of the policies that define one
	e.Selected = map[string]bool{}
	if len(lists) > 0 {
		for _, a := range lists[0] {
			in := true
			for _, l := range lists[1:] {
				has := false
				for _, b := range l {
					if a == b {
						has = true
						break
					}
				}
				if !has {
					in = false
					break
				}
			}
			if in {
				e.Selected[a] = true
			}
		}
	}
	e.OK = true
	return e
}

// supportsReq: some endpoint of the entry serves the requirement's interface with the required
// add-on and all required extensions.
func supportsReq(entry *epochstoragetypes.StakeEntry, r planstypes.ChainRequirement) bool {
	has := func(xs []string, x string) bool {
		for _, y := range xs {
			if y == x {
				return true
			}
		}
		return false
	}
	for _, ep := range entry.Endpoints {
		if !has(ep.ApiInterfaces, r.Collection.ApiInterface) {
			continue
		}
		if r.Collection.AddOn != "" && r.Collection.AddOn != r.Collection.ApiInterface && !has(ep.Addons, r.Collection.AddOn) {
			continue
		}
		ok := true
		for _, x := range r.Extensions {
			if !has(ep.Extensions, x) {
				ok = false
				break
			}
		}
		if ok {
			return true
		}
	}
	return false
}

// splitSupport: some mandatory requirement with an add-on and extensions is not supported by the
// entry although one of its endpoints serves the add-on and another one the extensions.
func splitSupport(entry *epochstoragetypes.StakeEntry, reqs []planstypes.ChainRequirement) bool {
	for _, r := range reqs {
		if r.Collection.AddOn == "" || r.Collection.AddOn == r.Collection.ApiInterface || len(r.Extensions) == 0 || supportsReq(entry, r) {
			continue
		}
		noExt, noAddon := r, r
		noExt.Extensions = nil
		noAddon.Collection.AddOn = ""
		if supportsReq(entry, noExt) && supportsReq(entry, noAddon) {
			return true
		}
	}
	return false
}

// eligible decides the statement's eligibility of one snapshot entry; reason names the first
// failed clause.
func (e *effective) eligible(entry *epochstoragetypes.StakeEntry, epoch uint64) (bool, string) {
	if entry.StakeAppliedBlock > epoch {
		if entry.IsFrozen() {
			return false, "frozen/jailed"
		}
		return false, fmt.Sprintf("stake not applied yet (applied at %d > epoch %d)", entry.StakeAppliedBlock, epoch)
	}
	if e.Mode == planstypes.SELECTED_PROVIDERS_MODE_EXCLUSIVE && !e.Selected[entry.Address] {
		return false, "not in the exclusive selected-providers list"
	}
	if !e.AnyMixed {
		for _, r := range e.Reqs {
			if !supportsReq(entry, r) {
				return false, fmt.Sprintf("does not support required %s/%s ext=%v", r.Collection.ApiInterface, r.Collection.AddOn, r.Extensions)
			}
		}
	}
	return true, ""
}

func entryStr(w *chain.World, e *epochstoragetypes.StakeEntry) string {
	var eps []string
	for _, ep := range e.Endpoints {
		eps = append(eps, fmt.Sprintf("g%d%v+%v+%v", ep.Geolocation, ep.ApiInterfaces, ep.Addons, ep.Extensions))
	}
	applied := fmt.Sprint(e.StakeAppliedBlock)
	if e.IsFrozen() {
		applied = "FROZEN"
	}
	return fmt.Sprintf("%s{stake=%s deleg=%s geo=%d applied=%s jailEnd=%d eps=%s}", provName(w, e.Address), e.Stake.Amount, e.DelegateTotal.Amount, e.Geolocation, applied, e.JailEndTime, strings.Join(eps, ";"))
}

func policiesStr(ps []*planstypes.Policy) string {
	var out []string
	for _, p := range ps {
		out = append(out, chain.PolicyStr(*p))
	}
	return strings.Join(out, " & ")
}
