package cpair

import (
	"fmt"
	"testing"

	"cosmossdk.io/math"
	sdk "github.com/cosmos/cosmos-sdk/types"
	"github.com/lavanet/lava/v5/testutil/common"
	"github.com/lavanet/lava/v5/utils/sigs"
	epochstoragetypes "github.com/lavanet/lava/v5/x/epochstorage/types"
	planstypes "github.com/lavanet/lava/v5/x/plans/types"
	spectypes "github.com/lavanet/lava/v5/x/spec/types"

	"verifharness/internal/chain"
	"verifharness/internal/ev"
)

// Witnesses of the finding shared by C01 and C02 (deterministic scripts, no rapid). The defect
// was repaired in /repo by commit 881740ee0 (lavaslices.UnionByFunc / Intersection return a
// deterministic order); since then these run as regression tests with every ./check C01 / C02 and
// fail again (with the messages below) if the repair is undone.
//
// World: rich spec SP0; six providers with equal geolocation; provJ supports add-on debug and
// extension archive on jsonrpc only, provR on rest only, four large providers support neither.
// The consumer's plan policy requires (rest, debug, [archive], mixed), its admin policy requires
// (jsonrpc, debug, [archive], mixed), 4 providers to pair.
//
// planstypes.GetStrictestChainPolicyForSpec combines the two requirement lists with
// lavaslices.UnionByFunc, which returns the elements in Go map iteration order, and
// AddonFilter.InitFilter keeps the FIRST requirement per add-on / extension name as the mix
// sub-filter. So the "archive" / "debug" slots demand the jsonrpc variant in some evaluations and
// the rest variant in others, and the pairing list of one consumer in one state differs between
// evaluations (provJ forced in one order, provR in the other).

type fixedW struct {
	w            *chain.World
	cons         *chain.Cons
	provJ, provR *chain.Prov
}

func buildUnionWitnessWorld(t *testing.T) fixedW {
	c := chain.New(t, 7)
	ts := c.TS
	w := &chain.World{C: c, Keys: map[string]sigs.Account{}, NextSess: 1, Cfg: chain.Cfg{RichSpec: true, RichPolicy: true, Balance: 10_000_000_000}}
	c.AdvanceBlock(0)
	denom := c.Denom()
	spec := chain.MakeSpec("SP0", true, 1000, denom)
	ts.AddSpec(spec.Index, spec)
	w.Specs = append(w.Specs, spec)
	val, _ := ts.AddAccount(common.VALIDATOR, 0, w.Cfg.Balance)
	ts.TxCreateValidator(val, math.NewInt(w.Cfg.Balance/10))
	w.Validators = append(w.Validators, val)
	names := []string{"provJ", "provR", "big0", "big1", "big2", "big3"}
	for _, n := range names {
		acc := w.NewAccount(w.Cfg.Balance)
		self := acc
		acc.Vault = &self
		w.Keys[acc.Addr.String()] = acc
		w.Providers = append(w.Providers, &chain.Prov{Name: n, Acc: acc})
	}
	req := func(iface, typ string) planstypes.ChainRequirement {
		return planstypes.ChainRequirement{Collection: spectypes.CollectionData{ApiInterface: iface, Type: typ, AddOn: chain.AddonDB}, Extensions: []string{chain.ExtArch}, Mixed: true}
	}
	plan := planstypes.Plan{Index: "wplan", Description: "witness", Type: "rpc", Price: sdk.NewCoin(denom, sdk.NewInt(100)), ProjectsLimit: 5,
		PlanPolicy: planstypes.Policy{TotalCuLimit: 1_000_000, EpochCuLimit: 100_000, MaxProvidersToPair: 4, GeolocationProfile: 1,
			ChainPolicies: []planstypes.ChainPolicy{{ChainId: "SP0", Requirements: []planstypes.ChainRequirement{req(chain.IfREST, "GET")}}}}}
	if err := ts.TxProposalAddPlans(plan); err != nil {
		t.Fatalf("%s", ev.HarnessError("witness: add plan: %v", err))
	}
	w.Plans = append(w.Plans, plan)
	c.AdvanceEpoch()
	ep := func(iface string, svc ...string) epochstoragetypes.Endpoint {
		return epochstoragetypes.Endpoint{IPPORT: "10.0.0.9:443", Geolocation: 1, ApiInterfaces: []string{iface}, Addons: svc}
	}
	stake := func(p *chain.Prov, amount int64, eps ...epochstoragetypes.Endpoint) {
		if err := w.StakeProvider(p, "SP0", amount, 1, eps, 0, val); err != nil {
			t.Fatalf("%s", ev.HarnessError("witness: stake %s: %v", p.Name, err))
		}
	}
	stake(w.Providers[0], 1000, ep(chain.IfJSON, chain.AddonDB, chain.ExtArch), ep(chain.IfREST))
	stake(w.Providers[1], 1000, ep(chain.IfJSON), ep(chain.IfREST, chain.AddonDB, chain.ExtArch))
	for _, p := range w.Providers[2:] {
		stake(p, 1_000_000, ep(chain.IfJSON), ep(chain.IfREST))
	}
	acc := w.NewAccount(w.Cfg.Balance)
	cons := &chain.Cons{Name: "wcons", Acc: acc, Devs: []sigs.Account{acc}}
	w.Consumers = append(w.Consumers, cons)
	if _, err := ts.TxSubscriptionBuy(cons.Addr(), cons.Addr(), plan.Index, 3, false, false); err != nil {
		t.Fatalf("%s", ev.HarnessError("witness: buy subscription: %v", err))
	}
	admin := planstypes.Policy{TotalCuLimit: 1_000_000, EpochCuLimit: 100_000, MaxProvidersToPair: 4, GeolocationProfile: 1,
		ChainPolicies: []planstypes.ChainPolicy{{ChainId: "SP0", Requirements: []planstypes.ChainRequirement{req(chain.IfJSON, "POST")}}}}
	if err := setPolicy(w, cons, false, &admin); err != nil {
		t.Fatalf("%s", ev.HarnessError("witness: set admin policy: %v", err))
	}
	c.AdvanceEpochs(2)
	return fixedW{w: w, cons: cons, provJ: w.Providers[0], provR: w.Providers[1]}
}

const witnessEvaluations = 200 // a two-entry map shows its minority order in ~1/8 of iterations: miss probability (7/8)^200

// TestC01Known_requirementsUnionMapOrder fails while GetPairing of one consumer in one state
// returns different lists in different evaluations.
func TestC01Known_requirementsUnionMapOrder(t *testing.T) {
	f := buildUnionWitnessWorld(t)
	w := f.w
	first := pairingObs(w, "SP0", f.cons.Addr())
	if len(first) > 5 && first[:6] == "error:" {
		t.Fatalf("%s", ev.HarnessError("witness: GetPairing failed: %s", first))
	}
	for i := 1; i < witnessEvaluations; i++ {
		if got := pairingObs(w, "SP0", f.cons.Addr()); got != first {
			t.Fatalf("%s", ev.Violation("C01", "known finding %s: GetPairing(wcons, SP0) in one state (block %d) returned %s in evaluation 1 and %s in evaluation %d; plan policy requires (rest,debug,[archive],mixed), admin policy (jsonrpc,debug,[archive],mixed); the combined requirement list comes out of lavaslices.UnionByFunc in map order and AddonFilter.InitFilter keeps the first requirement per add-on/extension",
				c01Finding, w.C.Height(), first, got, i+1))
		}
	}
}

// TestC02Known_pairingDiffersPerEvaluation fails while a provider is in the GetPairing list but
// VerifyPairing (same block, same epoch) says it is not paired, or the other way round.
func TestC02Known_pairingDiffersPerEvaluation(t *testing.T) {
	f := buildUnionWitnessWorld(t)
	w := f.w
	epoch := w.C.EpochStart()
	for i := 0; i < witnessEvaluations; i++ {
		list, err := getPairing(w, "SP0", f.cons.Addr())
		if err != nil {
			t.Fatalf("%s", ev.HarnessError("witness: GetPairing failed: %v", err))
		}
		in := map[string]bool{}
		for _, e := range list {
			in[e.Address] = true
		}
		for _, p := range []*chain.Prov{f.provJ, f.provR} {
			valid, verr := verifyPairing(w, "SP0", f.cons.Addr(), p.Addr(), epoch)
			if valid != in[p.Addr()] {
				t.Fatalf("%s", ev.Violation("C02", "known finding %s: provider %s: in GetPairing list %s = %v but VerifyPairing(wcons, %s, epoch %d).Valid = %v (err=%v) in the same block %d (iteration %d); every evaluation combines the plan's and the project's requirement lists in Go map order (lavaslices.UnionByFunc) and the add-on mix filters keep the first requirement per add-on/extension",
					c02Finding, p.Name, provNames(w, addrsOf(list)), in[p.Addr()], p.Name, epoch, valid, verr, w.C.Height(), i))
			}
		}
	}
}

var _ = fmt.Sprint
