package cpair

import (
	"encoding/binary"
	"fmt"
	"os"
	"runtime/debug"
	"sort"
	"strings"
	"testing"

	sdk "github.com/cosmos/cosmos-sdk/types"
	epochstoragetypes "github.com/lavanet/lava/v5/x/epochstorage/types"
	pairingtypes "github.com/lavanet/lava/v5/x/pairing/types"
	planstypes "github.com/lavanet/lava/v5/x/plans/types"
	projectstypes "github.com/lavanet/lava/v5/x/projects/types"
	"pgregory.net/rapid"

	"verifharness/internal/chain"
	"verifharness/internal/ev"
)

// C01: chain state transitions and pairing are deterministic under Go map iteration order.
//
// (a) replay equality. The outer rapid case draws only a history seed and an action cap. The
//     seed is expanded (splitmix64) into a bit buffer and the SAME buffer drives the world
//     generator and the action state machine K times through rapid.MakeFuzz, each time on fresh
//     keepers. The draws are therefore re-executed, not re-drawn; Go re-randomises map iteration
//     on every range statement, so the K runs differ in map order only. Observations compared
//     event by event: the digest of every KV store (+ bank) after every block, the result line of
//     every transaction, and the GetPairing list of every (developer key, chain) at every new
//     epoch and at the end.
// (b) every pairing / verify-pairing / effective-policy query of a drawn (developer key, chain,
//     provider) is evaluated M times in the same state (run 0 only; queries run on discarded
//     branches) and must return identical answers.
// (c) metamorphic, guarded for soundness (see c01Metamorphic).

const c01Finding = "c01-requirements-union-map-order"

type c01Trace struct {
	events    []string
	hist      []string
	completed bool
	panicMsg  string
	violation string // found inside the run by (b) or (c)
	violHist  []string
	// evidence
	blocks, txOK, epochsSeen, repeatQueries, repeatHot, metaChecks int
	polWithReqs2, mixedSeen, relaysOK, months                      int
}

func (tr *c01Trace) add(format string, args ...any) {
	tr.events = append(tr.events, fmt.Sprintf(format, args...))
}

func splitmixBuffer(seed uint64, words int) []byte {
	buf := make([]byte, 8*words)
	x := seed
	for i := 0; i < words; i++ {
		x += 0x9e3779b97f4a7c15
		z := x
		z = (z ^ (z >> 30)) * 0xbf58476d1ce4e5b9
		z = (z ^ (z >> 27)) * 0x94d049bb133111eb
		z ^= z >> 31
		binary.LittleEndian.PutUint64(buf[8*i:], z)
	}
	return buf
}

// isRapidPanic: rapid's own control-flow panics (invalidData for Skip / exhausted bit buffer,
// stopTest, *testError) must be passed on untouched.
func isRapidPanic(r any) bool { return strings.Contains(fmt.Sprintf("%T", r), "rapid.") }

// runBuffered executes prop once on the given bit buffer. rapid.MakeFuzz needs a *testing.T for
// logging and for SkipNow/FailNow (which end the goroutine), so the run gets a private one on its
// own goroutine; results come back through the closure of prop.
func runBuffered(prop func(*rapid.T), buf []byte) (failed, skipped bool) {
	done := make(chan struct{})
	ft := new(testing.T)
	go func() {
		defer close(done)
		rapid.MakeFuzz(prop)(ft, buf)
	}()
	<-done
	return ft.Failed(), ft.Skipped()
}

func digestLine(d map[string][32]byte) string {
	names := make([]string, 0, len(d))
	for n := range d {
		names = append(names, n)
	}
	sort.Strings(names)
	var sb strings.Builder
	for _, n := range names {
		v := d[n]
		fmt.Fprintf(&sb, "%s=%x ", n, v[:6])
	}
	return sb.String()
}

func diffDigestLines(a, b string) string {
	fa, fb := strings.Fields(a), strings.Fields(b)
	var out []string
	for i := 0; i < len(fa) && i < len(fb); i++ {
		if fa[i] != fb[i] {
			out = append(out, strings.SplitN(fa[i], "=", 2)[0])
		}
	}
	return strings.Join(out, ",")
}

func pairingObs(w *chain.World, chainID, dev string) (obs string) {
	defer func() {
		if r := recover(); r != nil {
			obs = fmt.Sprintf("PANIC %v", r)
		}
	}()
	list, err := getPairing(w, chainID, dev)
	if err != nil {
		return "error: " + firstLine(err.Error())
	}
	return provNames(w, addrsOf(list))
}

func firstLine(s string) string {
	if i := strings.IndexByte(s, '\n'); i >= 0 {
		s = s[:i]
	}
	if len(s) > 200 {
		s = s[:200]
	}
	return s
}

func verifyObs(w *chain.World, chainID, dev, prov string, epoch uint64) (obs string) {
	defer func() {
		if r := recover(); r != nil {
			obs = fmt.Sprintf("PANIC %v", r)
		}
	}()
	_, goCtx := qctx(w)
	res, err := w.C.TS.Keepers.Pairing.VerifyPairing(goCtx, &pairingtypes.QueryVerifyPairingRequest{ChainID: chainID, Client: dev, Provider: prov, Block: epoch})
	if err != nil {
		return "error: " + firstLine(err.Error())
	}
	return fmt.Sprintf("valid=%v paired=%d cu=%d project=%s", res.Valid, res.PairedProviders, res.CuPerEpoch, res.ProjectId)
}

func canonPolicy(p *planstypes.Policy) (canon string, raw string) {
	if p == nil {
		return "nil", "nil"
	}
	sel := append([]string{}, p.SelectedProviders...)
	sort.Strings(sel)
	var reqs, rawReqs []string
	for _, cp := range p.ChainPolicies {
		for _, r := range cp.Requirements {
			s := cp.ChainId + ":" + r.Differentiator()
			reqs = append(reqs, s)
			rawReqs = append(rawReqs, s)
		}
	}
	sort.Strings(reqs)
	head := fmt.Sprintf("geo=%d max=%d mode=%d epochCU=%d totalCU=%d sel=%v", p.GeolocationProfile, p.MaxProvidersToPair, p.SelectedProvidersMode, p.EpochCuLimit, p.TotalCuLimit, sel)
	return head + " reqs=" + strings.Join(reqs, "|"), head + " reqs=" + strings.Join(rawReqs, "|")
}

func effPolicyObs(w *chain.World, chainID, dev string) (canon, raw string) {
	defer func() {
		if r := recover(); r != nil {
			canon = fmt.Sprintf("PANIC %v", r)
			raw = canon
		}
	}()
	_, goCtx := qctx(w)
	res, err := w.C.TS.Keepers.Pairing.EffectivePolicy(goCtx, &pairingtypes.QueryEffectivePolicyRequest{Consumer: dev, SpecID: chainID})
	if err != nil {
		e := "error: " + firstLine(err.Error())
		return e, e
	}
	c1, r1 := canonPolicy(res.Policy)
	c2, r2 := canonPolicy(res.PendingPolicy)
	return c1 + " // pending " + c2, r1 + " // pending " + r2
}

// child spec importing the rich spec: its expansion merges the parent's collections
// (spec.CombineCollections iterates a map of parent collections with sorted keys).
const c01ChildSpec = "SPX"

func addChildSpec(w *chain.World) {
	child := chain.MakeSpec(c01ChildSpec, false, 1000, w.C.Denom())
	child.Imports = []string{w.Specs[0].Index}
	w.C.TS.AddSpec(child.Index, child)
}

func expandedSpecObs(w *chain.World) (obs string) {
	defer func() {
		if r := recover(); r != nil {
			obs = fmt.Sprintf("PANIC %v", r)
		}
	}()
	cctx, _ := qctx(w)
	sp, err := w.C.TS.Keepers.Spec.GetExpandedSpec(cctx, c01ChildSpec)
	if err != nil {
		return "error: " + firstLine(err.Error())
	}
	var sb strings.Builder
	for _, col := range sp.ApiCollections {
		fmt.Fprintf(&sb, "%s/%s/%s[", col.CollectionData.ApiInterface, col.CollectionData.Type, col.CollectionData.AddOn)
		for _, a := range col.Apis {
			sb.WriteString(a.Name + ",")
		}
		sb.WriteString("]ext[")
		for _, e := range col.Extensions {
			sb.WriteString(e.Name + ",")
		}
		sb.WriteString("] ")
	}
	return sb.String()
}

// c01RepeatQueries is oracle (b).
func c01RepeatQueries(c *ev.Collector, w *chain.World, tr *c01Trace, dk devKey, chainID string, prov *chain.Prov, m int) {
	epoch := w.C.EpochStart()
	first := pairingObs(w, chainID, dk.Addr)
	firstV := verifyObs(w, chainID, dk.Addr, prov.Addr(), epoch)
	firstE, firstRaw := effPolicyObs(w, chainID, dk.Addr)
	firstS := expandedSpecObs(w)
	for i := 1; i < m; i++ {
		c.Clause("repeated-spec-expansion-identical")
		if got := expandedSpecObs(w); got != firstS {
			tr.violation = fmt.Sprintf("the expansion of spec %s (imports %s) evaluated twice in the same state (block %d) differs:\n    evaluation 1: %s\n    evaluation %d: %s", c01ChildSpec, w.Specs[0].Index, w.C.Height(), firstS, i+1, got)
			return
		}
		tr.repeatQueries++
		c.Clause("repeated-getpairing-identical")
		if got := pairingObs(w, chainID, dk.Addr); got != first {
			tr.violation = fmt.Sprintf("GetPairing(%s, %s) evaluated twice in the same state (block %d, epoch %d) returned different lists:\n    evaluation 1: %s\n    evaluation %d: %s\n  policies in force: %s",
				dk, chainID, w.C.Height(), epoch, first, i+1, got, policiesStr(modelPolicy(w, dk.Addr, chainID, w.C.Height()).Policies))
			return
		}
		c.Clause("repeated-verifypairing-identical")
		if got := verifyObs(w, chainID, dk.Addr, prov.Addr(), epoch); got != firstV {
			tr.violation = fmt.Sprintf("VerifyPairing(%s, %s, provider %s, epoch %d) evaluated twice in the same state (block %d) returned different answers:\n    evaluation 1: %s\n    evaluation %d: %s\n  policies in force: %s",
				dk, chainID, prov.Name, epoch, w.C.Height(), firstV, i+1, got, policiesStr(modelPolicy(w, dk.Addr, chainID, epoch).Policies))
			return
		}
		c.Clause("repeated-effectivepolicy-identical(as sets)")
		gotE, gotRaw := effPolicyObs(w, chainID, dk.Addr)
		if gotE != firstE {
			tr.violation = fmt.Sprintf("EffectivePolicy(%s, %s) evaluated twice in the same state (block %d) returned different policies:\n    evaluation 1: %s\n    evaluation %d: %s", dk, chainID, w.C.Height(), firstE, i+1, gotE)
			return
		}
		if gotRaw != firstRaw {
			c.Class("diagnostic:effective-policy-requirement-order-varies(not asserted)")
		}
	}
}

// c01Metamorphic is oracle (c). ValidatePairingForClient takes the project by value, so the
// pairing of a re-ordered project can be computed in the same state, with the same epoch hash.
// Only re-orderings under which every deterministic implementation of the documented semantics
// is invariant are asserted:
//   - SelectedProviders is an allow-list (a set): any permutation;
//   - subscription policy <-> admin policy swapped, when at most one of the consumer's policies
//     carries requirements for the chain (every other field is combined by min / and / max /
//     intersection, which are symmetric);
//   - the order of ChainPolicy.Requirements, when the combined requirements contain at most one
//     mixed requirement with extensions (otherwise "first requirement per add-on/extension wins"
//     in AddonFilter.InitFilter legitimately depends on the stored order).
func c01Metamorphic(c *ev.Collector, w *chain.World, tr *c01Trace, dk devKey, chainID string, prov *chain.Prov, rot int) {
	ts := w.C.TS
	epoch := w.C.EpochStart()
	eff := modelPolicy(w, dk.Addr, chainID, epoch)
	if !eff.OK {
		return
	}
	run := func(p projectstypes.Project) (out string) {
		defer func() {
			if r := recover(); r != nil {
				out = fmt.Sprintf("PANIC %v", r)
			}
		}()
		cctx, _ := qctx(w)
		ts.Keepers.Pairing.ResetPairingRelayCache(cctx)
		valid, cu, list, err := ts.Keepers.Pairing.ValidatePairingForClient(cctx, chainID, prov.Acc.Addr, epoch, p)
		if err != nil {
			return "error: " + firstLine(err.Error())
		}
		if !valid {
			// the list is not returned for a provider outside the pairing; ask for the list through a paired one
			return fmt.Sprintf("valid=false cu=%d", cu)
		}
		return fmt.Sprintf("valid=true cu=%d list=%s", cu, provNames(w, addrsOf(list)))
	}
	mixedExt := 0
	for _, r := range eff.Reqs {
		if r.Mixed && len(r.Extensions) > 0 {
			mixedExt++
		}
	}
	rotate := func(xs []string) []string {
		if len(xs) < 2 {
			return xs
		}
		k := rot % len(xs)
		if k == 0 {
			k = 1
		}
		return append(append([]string{}, xs[k:]...), xs[:k]...)
	}
	rotateReqs := func(xs []planstypes.ChainRequirement) []planstypes.ChainRequirement {
		if len(xs) < 2 {
			return xs
		}
		out := make([]planstypes.ChainRequirement, len(xs))
		for i := range xs {
			out[len(xs)-1-i] = xs[i]
		}
		return out
	}
	clonePol := func(p *planstypes.Policy, permReqs bool) *planstypes.Policy {
		if p == nil {
			return nil
		}
		q := *p
		q.SelectedProviders = rotate(p.SelectedProviders)
		q.ChainPolicies = nil
		for _, cp := range p.ChainPolicies {
			ncp := planstypes.ChainPolicy{ChainId: cp.ChainId, Apis: cp.Apis, Requirements: cp.Requirements}
			if permReqs {
				ncp.Requirements = rotateReqs(cp.Requirements)
			}
			q.ChainPolicies = append(q.ChainPolicies, ncp)
		}
		return &q
	}
	base := run(eff.Project)
	permReqs := mixedExt <= 1
	p2 := eff.Project
	p2.AdminPolicy = clonePol(eff.Project.AdminPolicy, permReqs)
	p2.SubscriptionPolicy = clonePol(eff.Project.SubscriptionPolicy, permReqs)
	what := "selected-provider lists rotated"
	if permReqs {
		what += ", requirement lists reversed"
	}
	if eff.PolWithReqs <= 1 {
		p2.AdminPolicy, p2.SubscriptionPolicy = p2.SubscriptionPolicy, p2.AdminPolicy
		what += ", subscription and admin policy swapped"
	}
	tr.metaChecks++
	c.Clause("metamorphic-reordering-keeps-pairing")
	if got := run(p2); got != base {
		tr.violation = fmt.Sprintf("metamorphic: pairing of %s on %s (epoch %d, asked for provider %s) changed when the project's policies were re-ordered (%s):\n    stored project:    %s\n    re-ordered project: %s\n  policies in force: %s",
			dk, chainID, epoch, prov.Name, what, base, got, policiesStr(eff.Policies))
	}
}

// c01Prop builds the property that generates and executes one history, recording into tr.
func c01Prop(outer *testing.T, c *ev.Collector, tr *c01Trace, capActs int, runIdx int, excl bool, m int) func(*rapid.T) {
	return func(rt *rapid.T) {
		defer func() {
			if r := recover(); r != nil {
				if !isRapidPanic(r) {
					tr.panicMsg = fmt.Sprintf("%v\n%s", r, debug.Stack())
				}
				panic(r)
			}
		}()
		po := polOpts{mixedBias: 5, reqProb: 8, safeUnion: excl}
		w := chain.NewWorld(rt, outer, chain.Cfg{RichSpec: true, RichPolicy: !excl, Geo: true, Contrib: true, Providers: [2]int{5, 10}, Delegators: [2]int{1, 2}})
		w.C.BlockHook = func() {
			tr.blocks++
			tr.add("block %d stores: %s", w.C.Height(), digestLine(w.C.StoreDigests()))
		}
		addChildSpec(w)
		richSetup(rt, w, po, false)
		histSeen := 0
		flushHist := func() {
			for ; histSeen < len(w.C.Hist); histSeen++ {
				tr.add("log: %s", w.C.Hist[histSeen])
			}
			tr.hist = w.C.Hist
		}
		lastEpoch := uint64(0)
		observePairings := func() {
			for _, dk := range devKeys(w) {
				for _, s := range w.Specs {
					tr.add("pairing %s %s @%d: %s", dk, s.Index, w.C.Height(), pairingObs(w, s.Index, dk.Addr))
				}
			}
		}
		relay := chain.RelayOpts{SessionPool: 0, PastEpochs: true, Qos: true, QosExcellence: true, Unresponsive: true}
		acts := map[string]func(*rapid.T){
			"stakeNewChain":  w.ActStakeNewChain,
			"modifyStake":    w.ActModifyStake,
			"restakeAsym":    actRestakeAsym(w, false),
			"moveStake":      w.ActMoveStake,
			"unstake":        w.ActUnstake,
			"freeze":         w.ActFreeze,
			"jail":           actJail(w),
			"dualDelegate":   w.ActDualDelegate,
			"dualRedelegate": w.ActDualRedelegate,
			"dualUnbond":     w.ActDualUnbond,
			"claimRewards":   w.ActClaimRewards,
			"valDelegate":    w.ActValDelegate,
			"valUnbond":      w.ActValUnbond,
			"subBuy":         w.ActSubBuy,
			"autoRenew":      w.ActAutoRenew,
			"addProject":     w.ActAddProject,
			"delProject":     w.ActDelProject,
			"addKeys":        w.ActAddKeys,
			"delKeys":        w.ActDelKeys,
			"setPolicy":      w.ActSetPolicy,
			"setPolicy2":     actSetPolicy(w, po),
			"setPolicy3":     actSetPolicy(w, po),
			"planProposal":   w.ActPlanProposal,
			"planModify":     actPlanModify(w, po),
			"iprpcSetData":   w.ActIprpcSetData,
			"iprpcFund":      w.ActIprpcFund,
			"relayPayment":   w.ActRelayPayment(relay),
			"relayPayment2":  w.ActRelayPayment(relay),
			"relayPayment3":  w.ActRelayPayment(relay),
			"relayPayment4":  w.ActRelayPayment(relay),
			"advanceBlocks":  w.ActAdvanceBlocks,
			"advanceEpoch":   w.ActAdvanceEpoch,
			"advanceEpoch2":  w.ActAdvanceEpoch,
			"advanceEpoch3":  w.ActAdvanceEpoch,
			"advanceMonth":   w.ActAdvanceMonth,
		}
		nActs := 0
		for name, a := range acts {
			a := a
			acts[name] = func(t *rapid.T) {
				if nActs >= capActs {
					_ = rapid.Bool().Draw(t, "capped") // a draw makes rapid count a rejection and end the history
					t.Skip("action cap reached")
				}
				nActs++
				a(t)
			}
		}
		acts[""] = func(t *rapid.T) {
			if w.C.Halt != "" {
				flushHist()
				tr.add("HALT: %s", firstLine(w.C.Halt))
				t.Skip("chain halted (reported by C37)")
			}
			flushHist()
			if ep := w.C.EpochStart(); ep != lastEpoch {
				lastEpoch = ep
				tr.epochsSeen++
				observePairings()
			}
			// the draws below happen in every run (the bit stream must stay aligned); the repeated
			// evaluations only in run 0
			dks := devKeys(w)
			dk := dks[rapid.IntRange(0, len(dks)-1).Draw(t, "repeatDev")]
			chainID := w.Specs[0].Index
			if len(w.Specs) > 1 && rapid.IntRange(0, 4).Draw(t, "repeatOtherChain") == 0 {
				chainID = w.Specs[1].Index
			}
			prov := w.Providers[rapid.IntRange(0, len(w.Providers)-1).Draw(t, "repeatProvider")]
			rot := rapid.IntRange(1, 5).Draw(t, "rotation")
			if runIdx != 0 || tr.violation != "" {
				return
			}
			eff := modelPolicy(w, dk.Addr, chainID, w.C.Height())
			reps := 3
			if eff.OK && (eff.PolWithReqs >= 2 || eff.AnyMixed) {
				reps = m
				tr.repeatHot++
			}
			c01RepeatQueries(c, w, tr, dk, chainID, prov, reps)
			if tr.violation == "" {
				c01Metamorphic(c, w, tr, dk, chainID, prov, rot)
			}
			if tr.violation != "" {
				tr.violHist = append([]string{}, w.C.Hist...)
			}
		}
		rt.Repeat(acts)
		flushHist()
		observePairings()
		tr.add("expanded %s: %s", c01ChildSpec, expandedSpecObs(w))
		tr.add("final digest: %x", w.C.Digest())
		tr.completed = true
		tr.txOK = w.C.TxOK
		for _, h := range w.C.Hist {
			if strings.Contains(h, "advanceMonth(") {
				tr.months++
			}
			if strings.Contains(h, "tx relayPayment(") && strings.HasSuffix(h, "-> ok") {
				tr.relaysOK++
			}
		}
		for _, dk := range devKeys(w) {
			eff := modelPolicy(w, dk.Addr, w.Specs[0].Index, w.C.Height())
			if eff.OK && eff.PolWithReqs >= 2 {
				tr.polWithReqs2++
			}
			if eff.OK && eff.AnyMixed {
				tr.mixedSeen++
			}
		}
	}
}

func tierIs(name string) bool { return os.Getenv("VERIF_TIER") == name }

func tail(xs []string, n int) []string {
	if len(xs) > n {
		return xs[len(xs)-n:]
	}
	return xs
}

func TestC01(t *testing.T) {
	c := ev.For("C01")
	K, M := 3, 16
	if tierIs("thorough") {
		K, M = 5, 32
	}
	c.SetRule(fmt.Sprintf("each case draws a history seed; the seed is expanded into a bit buffer that drives the E1 world generator (rich spec, rich policies, geolocations, contributors, delegators) and a state machine over staking, delegation, subscription, project-key, policy (several policies with requirements sharing add-on debug on jsonrpc/rest, mixed and not), plan, IPRPC, relay-payment (QoS, QoS excellence, unresponsiveness reports) transactions and block/epoch/month progression; the SAME buffer is executed K=%d times on fresh keepers and all per-block store digests, transaction results and pairing lists are compared; in run 0 every step re-evaluates GetPairing/VerifyPairing/EffectivePolicy of a drawn (developer key, chain, provider) M=%d times (3 when no policy has requirements) and applies the guarded re-ordering check; non-trivial = the history completed in all runs, crossed >=1 epoch boundary after >=2 policies with requirements for SP0 were in force for some developer key; distinct = distinct histories", K, M))
	c.Assume("map-order dependence is detected probabilistically: a two-entry Go map yields its minority order in about 1/8 of the iterations, so one affected evaluation is missed by K replays with probability about (7/8)^K and by M repetitions with (7/8)^M",
		"goroutine scheduling is not varied: the keepers under test are single-threaded",
		"the effective-policy query is compared as a set of requirements; a varying ORDER of its requirement list is counted as a diagnostic class, not asserted",
		"metamorphic re-ordering is only asserted where every deterministic implementation is invariant (selected-provider lists; subscription/admin swap with <=1 requirement-bearing policy; requirement order with <=1 mixed requirement with extensions)",
		"jailing is simulated by writing the fields punishUnresponsiveProvider writes")
	excl := ev.Excluded(c01Finding)
	rapid.Check(t, func(rt *rapid.T) {
		// 32 fair bits (rapid's integer generators favour small values, which would repeat seeds)
		seed := uint64(0)
		for b := 0; b < 32; b++ {
			if rapid.Bool().Draw(rt, fmt.Sprintf("historySeed_b%d", b)) {
				seed |= 1 << b
			}
		}
		// action cap: only there to give the shrinker a way to cut the history short (1/8 of the cases)
		caps := []int{2, 4, 8, 16, 32, 64}
		capActs := caps[rapid.IntRange(0, len(caps)-1).Draw(rt, "actionCapIndex")]
		u1, u2, u3 := rapid.Bool().Draw(rt, "uncapped1"), rapid.Bool().Draw(rt, "uncapped2"), rapid.Bool().Draw(rt, "uncapped3")
		if u1 || u2 || u3 {
			capActs = 1 << 30
		}
		if excl {
			c.Exclude(c01Finding)
		}
		buf := splitmixBuffer(seed, 1<<16)
		runs := make([]*c01Trace, K)
		for k := 0; k < K; k++ {
			runs[k] = &c01Trace{}
			failed, _ := runBuffered(c01Prop(t, c, runs[k], capActs, k, excl, M), buf)
			if runs[k].panicMsg != "" || (failed && !runs[k].completed) {
				rt.Fatalf("%s", ev.HarnessError("C01 run %d of seed %d ended with a panic outside a transaction: %s\nhistory (tail):\n  %s", k, seed, runs[k].panicMsg, strings.Join(tail(runs[k].hist, 30), "\n  ")))
			}
		}
		r0 := runs[0]
		if r0.violation != "" {
			rt.Fatalf("%s", ev.Violation("C01", "%s\nhistory seed %d; history up to the observation (tail):\n  %s", r0.violation, seed, strings.Join(tail(r0.violHist, 30), "\n  ")))
		}
		for k := 1; k < K; k++ {
			rk := runs[k]
			n := len(r0.events)
			if len(rk.events) < n {
				n = len(rk.events)
			}
			for i := 0; i < n; i++ {
				c.Clause("replay-observation-equal")
				if r0.events[i] != rk.events[i] {
					extra := ""
					if strings.HasPrefix(r0.events[i], "block ") && strings.HasPrefix(rk.events[i], "block ") {
						extra = "\n  differing stores: " + diffDigestLines(r0.events[i], rk.events[i])
					}
					rt.Fatalf("%s", ev.Violation("C01", "replaying the same history (seed %d) on fresh keepers diverged at observation %d:\n    run 0: %s\n    run %d: %s%s\n  observations before:\n    %s\n  history of run 0 (tail):\n    %s",
						seed, i, r0.events[i], k, rk.events[i], extra, strings.Join(tail(r0.events[:i], 6), "\n    "), strings.Join(tail(r0.hist, 25), "\n    ")))
				}
			}
			if len(r0.events) != len(rk.events) || r0.completed != rk.completed {
				rt.Fatalf("%s", ev.Violation("C01", "replaying the same history (seed %d) on fresh keepers produced %d observations in run 0 (completed=%v) and %d in run %d (completed=%v) with an equal common prefix\n  history of run 0 (tail):\n    %s",
					seed, len(r0.events), r0.completed, len(rk.events), k, rk.completed, strings.Join(tail(r0.hist, 25), "\n    ")))
			}
		}
		nt := r0.completed && r0.epochsSeen >= 2 && r0.polWithReqs2 > 0
		var classes []string
		add := func(b bool, s string) {
			if b {
				classes = append(classes, s)
			}
		}
		add(r0.completed, "completed")
		add(!r0.completed, "stopped-early(halt or bit buffer exhausted)")
		add(r0.polWithReqs2 > 0, "2+-policies-with-requirements")
		add(r0.mixedSeen > 0, "mixed-requirement-in-force")
		add(r0.relaysOK > 0, "accepted-relay-payment")
		add(r0.months > 0, "crossed-month")
		add(r0.repeatHot > 0, "repeated-queries-on-requirement-bearing-policies")
		add(capActs < 1<<30, "action-cap")
		c.Case(nt, fmt.Sprint(r0.hist), classes...)
		c.AddExtra("blocks-compared", r0.blocks*(K-1))
		c.AddExtra("observations-compared", len(r0.events)*(K-1))
		c.AddExtra("repeated-query-evaluations", r0.repeatQueries)
		c.AddExtra("metamorphic-evaluations", r0.metaChecks)
		if nt {
			c.Sample(map[string]any{"seed": seed, "replays": K, "blocks": r0.blocks, "observations": len(r0.events), "tx_ok": r0.txOK, "history_tail": tail(r0.hist, 20)})
		}
	})
}

var _ = epochstoragetypes.StakeEntry{}
var _ = sdk.AccAddress{}
