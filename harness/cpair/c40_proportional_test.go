package cpair

import (
	"crypto/sha256"
	"encoding/binary"
	"fmt"
	gomath "math"
	"sort"
	"strings"
	"testing"

	sdk "github.com/cosmos/cosmos-sdk/types"
	epochstoragetypes "github.com/lavanet/lava/v5/x/epochstorage/types"
	pairingtypes "github.com/lavanet/lava/v5/x/pairing/types"
	planstypes "github.com/lavanet/lava/v5/x/plans/types"
	"pgregory.net/rapid"

	"verifharness/internal/chain"
	"verifharness/internal/ev"
)

// C40: provider selection for pairing is proportional to stake x geolocation score.
//
// The consumer under test has no mixed filter (no mixed requirement, selected-providers mode not
// MIXED). At the first block of an epoch the epoch hash is replaced N times on a discarded branch
// of the block context (ctx.WithHeaderHash + epochstorage.SetEpochHash, exactly what BeginBlock
// does at an epoch start) and Keeper.GetPairingForClient is evaluated on that branch, so the real
// filter -> slots -> score -> PickProviders pipeline runs with N different seeds.
//
// Law (statement): a slot is filled by an eligible, not yet picked provider with probability
// proportional to stake x geolocation score. The expected distribution of every output position is
// computed exactly (dynamic programming over the set of already picked providers) and compared
// with the observed frequencies within 6 sigma (+ small-count slack).

// latency table of the geolocation score (x/pairing/keeper/scores/geo_req.go, own copy)
var c40Latency = map[int32]map[int32]int64{
	32: {64: 146, 2: 155},
	4:  {1: 42, 8: 68, 2: 116},
	8:  {1: 45, 4: 68},
	1:  {4: 42, 8: 45, 2: 170},
	2:  {4: 116, 16: 138, 32: 155, 1: 170},
	16: {2: 138, 4: 203, 32: 263},
	64: {32: 146, 8: 179},
}

const c40MaxLatency = 10000

// geoScore: 10000 / latency between the slot's geolocation and the closest geolocation of the
// provider (1 when the provider serves the geolocation itself, 10000 when the table has no route).
func geoScore(slotGeo, providerGeo int32) float64 {
	if slotGeo&^providerGeo == 0 {
		return c40MaxLatency
	}
	lat := int64(c40MaxLatency)
	for _, pg := range geoBits(providerGeo) {
		if l, ok := c40Latency[slotGeo][pg]; ok && l < lat {
			lat = l
		}
	}
	return float64(c40MaxLatency) / float64(lat)
}

type c40Cand struct {
	Name  string
	Addr  string
	Stake float64
	Geo   int32
}

// slotGroups: slot i asks for the (i mod n)-th geolocation of the policy; equal slots form a
// group and the list is emitted group by group.
func slotGroups(policyGeo int32, slots int) (geos []int32, sizes []int) {
	bits := geoBits(policyGeo)
	if policyGeo == int32(planstypes.Geolocation_GL) {
		bits = allGeoBits
	}
	for j := 0; j < len(bits) && j < slots; j++ {
		geos = append(geos, bits[j])
		sizes = append(sizes, (slots-j+len(bits)-1)/len(bits))
	}
	return
}

// expectedMarginals returns P[position][candidate] for weighted sampling without replacement,
// group by group with the group's weights.
func expectedMarginals(cands []c40Cand, geos []int32, sizes []int) [][]float64 {
	n := len(cands)
	state := make([]float64, 1<<n)
	state[0] = 1
	var out [][]float64
	for g, size := range sizes {
		w := make([]float64, n)
		for i, c := range cands {
			w[i] = c.Stake * geoScore(geos[g], c.Geo)
		}
		for s := 0; s < size; s++ {
			next := make([]float64, 1<<n)
			marg := make([]float64, n)
			for mask, pr := range state {
				if pr == 0 {
					continue
				}
				tot := 0.0
				for i := 0; i < n; i++ {
					if mask&(1<<i) == 0 {
						tot += w[i]
					}
				}
				if tot == 0 {
					next[mask] += pr
					continue
				}
				for i := 0; i < n; i++ {
					if mask&(1<<i) == 0 {
						p := pr * w[i] / tot
						marg[i] += p
						next[mask|1<<i] += p
					}
				}
			}
			state = next
			out = append(out, marg)
		}
	}
	return out
}

func withinBinomial(obs int, n int, p float64) (bool, float64) {
	exp := float64(n) * p
	sigma := gomath.Sqrt(float64(n) * p * (1 - p))
	bound := 6*sigma + 6 + 1e-4*float64(n) // 6 sigma, small-count slack, rounding of scores to int64 in the draw
	return gomath.Abs(float64(obs)-exp) <= bound, bound
}

func c40Hash(seed uint64, i int) []byte {
	var b [16]byte
	binary.LittleEndian.PutUint64(b[:8], seed)
	binary.LittleEndian.PutUint64(b[8:], uint64(i))
	h := sha256.Sum256(b[:])
	return h[:]
}

func TestC40(t *testing.T) {
	c := ev.For("C40")
	N := 3000
	if tierIs("thorough") {
		N = 12000
	}
	c.SetRule(fmt.Sprintf("generated world (rich spec, 7-10 providers re-staked with geolocations over all seven regions and per-interface add-on support, stakes over 3 orders of magnitude plus delegations, some frozen); a dedicated consumer whose plan and admin policy carry geolocation profiles (single region, several, global), 2-4 providers to pair, optionally a non-mixed requirement or an exclusive list (never a mixed filter); N=%d different epoch hashes are installed on branches of the first block of an epoch and GetPairingForClient is evaluated on each; non-trivial = more eligible providers than slots and >=3 distinct weights; distinct = distinct (weights, policy) configurations", N))
	c.Assume("weight law: (stake + delegations) x geolocation score; geolocation score = 10000 / latency(slot region, closest provider region) with the latency table of geo_req.go (own copy), 10000 when the provider serves the region, 1 when no route is listed",
		"slot i asks for the (i mod n)-th region of the effective geolocation profile in ascending bit order (GL = all seven), equal slots are drawn as a group and the list is emitted group by group (as the pairing README describes slots)",
		"frequencies are compared within 6 sigma of the binomial + 6 counts + 1e-4 N (the draw rounds decimal scores to int64)",
		"the ProviderPairingChance query is compared with the same law (tolerance 1e-9) for providers that are in the epoch snapshot with applied stake")
	rapid.Check(t, func(rt *rapid.T) {
		w := chain.NewWorld(rt, t, chain.Cfg{RichSpec: true, RichPolicy: true, Geo: true, Specs: [2]int{1, 1}, Providers: [2]int{7, 10}, Consumers: [2]int{1, 1}, Delegators: [2]int{1, 2}})
		ts := w.C.TS
		chainID := w.Specs[0].Index
		// providers: wide geolocations, per-interface add-ons, delegations, a frozen one
		for i, p := range w.StakedOn(chainID) {
			if chance(rt, fmt.Sprintf("restake%d", i), 5, 6) {
				restakeAsym(rt, w, p, true, fmt.Sprintf("re%d", i))
			}
		}
		nDel := uniform(rt, "nDelegations", 0, 3)
		for i := 0; i < nDel; i++ {
			w.ActDualDelegate(rt)
		}
		if chance(rt, "freezeOne", 1, 3) {
			w.ActFreeze(rt)
		}
		// the consumer under test
		po := polOpts{isPlan: true, mixedBias: 0, noSelMix: true, wideGeo: true, reqProb: 3, maxProv: [2]int{2, 4}}
		pol := genPolicy(rt, w, "dplan", po)
		if pol.SelectedProvidersMode == planstypes.SELECTED_PROVIDERS_MODE_EXCLUSIVE && chance(rt, "dplan_dropExclusive", 1, 2) {
			pol.SelectedProvidersMode, pol.SelectedProviders = planstypes.SELECTED_PROVIDERS_MODE_ALLOWED, nil
		}
		dplan := planstypes.Plan{Index: "dplan", Description: "c40 plan", Type: "rpc", Price: sdk.NewCoin(w.C.Denom(), sdk.NewInt(1000)), PlanPolicy: pol, ProjectsLimit: 5}
		if err := w.C.Tx("planAdd*(dplan,"+chain.PolicyStr(pol)+")", dplan.ValidatePlan, func() error { return ts.TxProposalAddPlans(dplan) }); err != nil {
			rt.Fatalf("%s", ev.HarnessError("C40: cannot add plan: %v", err))
		}
		acc := w.NewAccount(w.Cfg.Balance)
		cons := &chain.Cons{Name: "dcons", Acc: acc}
		if err := w.C.Tx("subBuy*(dcons,dplan)", nil, func() error {
			_, err := ts.TxSubscriptionBuy(cons.Addr(), cons.Addr(), "dplan", 2, false, false)
			return err
		}); err != nil {
			rt.Fatalf("%s", ev.HarnessError("C40: cannot buy subscription: %v", err))
		}
		if chance(rt, "adminPolicy", 1, 2) {
			apo := polOpts{mixedBias: 0, noSelMix: true, wideGeo: true, reqProb: 2, maxProv: [2]int{2, 6}}
			ap := genPolicy(rt, w, "dadmin", apo)
			ap.SelectedProvidersMode, ap.SelectedProviders = planstypes.SELECTED_PROVIDERS_MODE_ALLOWED, nil
			if chance(rt, "dadmin_global", 1, 2) {
				ap.GeolocationProfile = int32(planstypes.Geolocation_GL)
			}
			_ = setPolicy(w, cons, false, &ap)
		}
		w.C.AdvanceEpochs(2)
		if w.C.Halt != "" {
			rt.Skip("chain halted (reported by C37)")
		}
		epoch := w.C.EpochStart()
		if w.C.Height() != epoch {
			rt.Fatalf("%s", ev.HarnessError("C40: not at an epoch start (height %d, epoch %d)", w.C.Height(), epoch))
		}
		eff := modelPolicy(w, cons.Addr(), chainID, epoch)
		if !eff.OK {
			c.Case(false, "", "no-pairing:"+eff.Why)
			return
		}
		if eff.AnyMixed || eff.Mode == planstypes.SELECTED_PROVIDERS_MODE_MIXED {
			rt.Fatalf("%s", ev.HarnessError("C40: generator produced a mixed filter"))
		}
		snap := ts.Keepers.Epochstorage.GetAllStakeEntriesForEpochChainId(ts.Ctx, epoch, chainID)
		var cands []c40Cand
		for i := range snap {
			if ok, _ := eff.eligible(&snap[i], epoch); ok {
				st := snap[i].Stake.Amount.Add(snap[i].DelegateTotal.Amount)
				cands = append(cands, c40Cand{Name: provName(w, snap[i].Address), Addr: snap[i].Address, Stake: float64(st.Int64()), Geo: snap[i].Geolocation})
			}
		}
		sort.Slice(cands, func(i, j int) bool { return cands[i].Name < cands[j].Name })
		slots := int(eff.MaxProv)
		geos, sizes := slotGroups(eff.Geo, slots)
		cfgStr := fmt.Sprintf("effective geo=%d slots=%d groups=%v sizes=%v mode=%d reqs=%d candidates=%+v", eff.Geo, slots, geos, sizes, eff.Mode, len(eff.Reqs), cands)
		fail := func(format string, args ...any) {
			rt.Fatalf("%s", ev.Violation("C40", "%s\n  configuration: %s\n  policies: %s\n  history (tail):\n  %s", fmt.Sprintf(format, args...), cfgStr, policiesStr(eff.Policies), histString(w, 25)))
		}

		// ---- the pairing-chance query against the law (exact) -------------------------------------
		chanceOf := func(addr string, g int32) (float64, bool) {
			tot, mine := 0.0, 0.0
			for i := range snap {
				if snap[i].StakeAppliedBlock > epoch {
					continue
				}
				wgt := float64(snap[i].Stake.Amount.Add(snap[i].DelegateTotal.Amount).Int64()) * geoScore(g, snap[i].Geolocation)
				tot += wgt
				if snap[i].Address == addr {
					mine = wgt
				}
			}
			return mine / tot, mine > 0
		}
		nChance := 0
		for i := range snap {
			cur, found := ts.Keepers.Epochstorage.GetStakeEntryCurrent(ts.Ctx, chainID, snap[i].Address)
			if !found || cur.IsFrozen() || snap[i].StakeAppliedBlock > epoch {
				continue
			}
			g := allGeoBits[uniform(rt, fmt.Sprintf("chanceGeo%d", i), 0, len(allGeoBits)-1)]
			want, ok := chanceOf(snap[i].Address, g)
			if !ok {
				continue
			}
			_, goCtx := qctx(w)
			res, err := ts.Keepers.Pairing.ProviderPairingChance(goCtx, &pairingtypes.QueryProviderPairingChanceRequest{Provider: snap[i].Address, ChainID: chainID, Geolocation: g, Cluster: ""})
			c.Clause("pairing-chance-query-matches-law")
			nChance++
			if err != nil {
				fail("ProviderPairingChance(%s, geolocation %d) failed for a provider in the epoch snapshot with applied stake: %v", provName(w, snap[i].Address), g, err)
			}
			got := res.Chance.MustFloat64()
			if gomath.Abs(got-want) > 1e-9+1e-9*want || got <= 0 {
				fail("ProviderPairingChance(%s, geolocation %d) = %s, the law stake x geoScore / sum gives %.12f\n  snapshot: %s", provName(w, snap[i].Address), g, res.Chance, want, snapString(w, snap))
			}
		}

		if len(cands) <= slots {
			// every eligible provider is paired, no draw
			list, err := getPairing(w, chainID, cons.Addr())
			c.Clause("all-eligible-paired-when-slots>=eligible")
			if err != nil || len(list) != len(cands) {
				fail("eligible providers (%d) <= slots (%d) but GetPairing returned %s (err=%v)", len(cands), slots, provNames(w, addrsOf(list)), err)
			}
			c.Case(false, "", "slots>=eligible")
			return
		}
		expect := expectedMarginals(cands, geos, sizes)

		// ---- N epoch hashes ----------------------------------------------------------------------------
		hashSeed := uint64(uniform(rt, "hashSeed", 0, 1<<20))
		idx := map[string]int{}
		for i, cd := range cands {
			idx[cd.Addr] = i
		}
		counts := make([][]int, slots)
		for p := range counts {
			counts[p] = make([]int, len(cands))
		}
		anyPos := make([]int, len(cands))
		for i := 0; i < N; i++ {
			cctx, _ := ts.Ctx.CacheContext()
			cctx = cctx.WithHeaderHash(c40Hash(hashSeed, i))
			ts.Keepers.Epochstorage.SetEpochHash(cctx)
			list, err := ts.Keepers.Pairing.GetPairingForClient(cctx, chainID, cons.Acc.Addr)
			if err != nil {
				fail("GetPairingForClient failed with epoch hash #%d: %v", i, err)
			}
			c.Clause("list-has-one-entry-per-slot")
			if len(list) != slots {
				fail("with epoch hash #%d the pairing list has %d entries %s, expected %d slots (eligible %d)", i, len(list), provNames(w, addrsOf(list)), slots, len(cands))
			}
			for p, e := range list {
				k, ok := idx[e.Address]
				if !ok {
					fail("with epoch hash #%d position %d holds %s, which is not eligible", i, p, provName(w, e.Address))
				}
				counts[p][k]++
				anyPos[k]++
			}
		}
		for p := 0; p < slots; p++ {
			for k, cd := range cands {
				c.Clause("slot-frequency-within-6-sigma")
				if ok, bound := withinBinomial(counts[p][k], N, expect[p][k]); !ok {
					fail("over %d epoch hashes provider %s filled output position %d in %d of them; the law gives probability %.5f (expected %.1f +- %.1f)\n  observed position %d: %v\n  expected position %d: %s",
						N, cd.Name, p, counts[p][k], expect[p][k], float64(N)*expect[p][k], bound, p, counts[p], p, fmtProbs(expect[p], N))
				}
			}
		}
		for k, cd := range cands {
			if cd.Stake > 0 && float64(N)*expect[0][k] >= 50 {
				c.Clause("eligible-provider-picked-at-least-once")
				if anyPos[k] == 0 {
					fail("eligible provider %s (first-slot probability %.5f) was never paired in %d epoch hashes", cd.Name, expect[0][k], N)
				}
			}
		}
		// classes
		weights := map[string]bool{}
		for _, cd := range cands {
			weights[fmt.Sprintf("%.6g", cd.Stake*geoScore(geos[0], cd.Geo))] = true
		}
		nt := len(weights) >= 3
		classes := []string{fmt.Sprintf("groups=%d", len(geos))}
		if eff.Geo == int32(planstypes.Geolocation_GL) {
			classes = append(classes, "policy-geo-global")
		} else if len(geoBits(eff.Geo)) == 1 {
			classes = append(classes, "policy-geo-single")
		} else {
			classes = append(classes, "policy-geo-multi")
		}
		if len(cands) < len(snap) {
			classes = append(classes, "some-providers-not-eligible")
		}
		if eff.Mode == planstypes.SELECTED_PROVIDERS_MODE_EXCLUSIVE {
			classes = append(classes, "exclusive-list")
		}
		if len(eff.Reqs) > 0 {
			classes = append(classes, "mandatory-requirement")
		}
		scoreKinds := map[string]bool{}
		for _, cd := range cands {
			for _, g := range geos {
				s := geoScore(g, cd.Geo)
				switch {
				case s == c40MaxLatency:
					scoreKinds["geo-score:served"] = true
				case s == 1:
					scoreKinds["geo-score:no-route"] = true
				default:
					scoreKinds["geo-score:latency-table"] = true
				}
			}
		}
		for _, k := range chain.SortedKeys(scoreKinds) {
			classes = append(classes, k)
		}
		for i := range snap {
			if snap[i].DelegateTotal.Amount.IsPositive() {
				classes = append(classes, "delegated-stake")
				break
			}
		}
		c.Case(nt, cfgStr, classes...)
		c.AddExtra("epoch-hashes", N)
		c.AddExtra("chance-queries", nChance)
		if nt {
			c.Sample(map[string]any{"configuration": cfgStr, "draws": N, "observed_first_slot": counts[0], "expected_first_slot": fmtProbs(expect[0], N)})
		}
	})
}

func fmtProbs(p []float64, n int) string {
	var out []string
	for _, x := range p {
		out = append(out, fmt.Sprintf("%.1f", x*float64(n)))
	}
	return "[" + strings.Join(out, " ") + "]"
}

func snapString(w *chain.World, snap []epochstoragetypes.StakeEntry) string {
	var out []string
	for i := range snap {
		out = append(out, entryStr(w, &snap[i]))
	}
	return strings.Join(out, "\n    ")
}
