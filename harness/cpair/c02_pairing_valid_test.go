package cpair

import (
	"context"
	"fmt"
	"sort"
	"strings"
	"testing"

	epochstoragetypes "github.com/lavanet/lava/v5/x/epochstorage/types"
	planstypes "github.com/lavanet/lava/v5/x/plans/types"
	"pgregory.net/rapid"

	"verifharness/internal/chain"
	"verifharness/internal/ev"
)

// C02: pairing lists are valid, distinct and bounded; GetPairing <=> VerifyPairing.
//
// Oracle (independent model, common_test.go): for a developer key and a chain at the current
// block, the epoch snapshot of stake entries is read from the epochstorage keeper, the consumer's
// policies (plan / subscription / admin) are read from the raw project and plan state and
// combined as documented, and every snapshot entry is classified eligible / not eligible from the
// statement: in the snapshot, stake applied at the epoch (frozen and jailed entries are not),
// inside the exclusive selected list, supporting every required (interface, add-on, extensions)
// unless a requirement is mixed.

type c02Stats struct {
	checks, nontrivial                                        int
	mixedReq, exclusive, exclusiveEmpty, selMixed, frozen     int
	unapplied, jailed, maxLtEligible, eligLtSnap, addonActive int
	splitRefused                                              int
	multiGeo, expectedErr, polWithReqs2, sharedCache, iff     int
	notPaired, allPaired                                      int
}

// checkPairing evaluates every clause of C02 for one developer key and chain in the current block.
// blockCache, when non-nil, is one query branch shared by ALL VerifyPairing calls of several
// evaluations (different consumers and chains), as the relay payments of one block share the
// pairing relay cache.
func checkPairing(rt *rapid.T, c *ev.Collector, w *chain.World, dk devKey, chainID string, shareCache bool, st *c02Stats, blockCache context.Context) {
	ts := w.C.TS
	block := w.C.Height()
	epoch := w.C.EpochStart()
	st.checks++
	where := func() string {
		return fmt.Sprintf("developer key %s (%s), chain %s, block %d, epoch %d", dk, dk.Addr, chainID, block, epoch)
	}
	fail := func(format string, args ...any) {
		rt.Fatalf("%s", ev.Violation("C02", "%s: %s\nhistory (tail):\n  %s", where(), fmt.Sprintf(format, args...), histString(w, 40)))
	}

	eff := modelPolicy(w, dk.Addr, chainID, block)
	snap := ts.Keepers.Epochstorage.GetAllStakeEntriesForEpochChainId(ts.Ctx, epoch, chainID)
	list, err := getPairing(w, chainID, dk.Addr)

	// VerifyPairing for every provider of the world (staked on this chain or not), same block
	verify := func(paired map[string]bool) {
		_, shared := qctx(w)
		if blockCache != nil {
			shared = blockCache
		}
		for _, p := range w.Providers {
			goCtx := shared
			if !shareCache && blockCache == nil {
				_, goCtx = qctx(w)
			}
			valid, verr := verifyPairingOn(w, goCtx, chainID, dk.Addr, p.Addr(), epoch)
			c.Clause("getpairing-iff-verifypairing")
			st.iff++
			if valid != paired[p.Addr()] {
				_, inSnap := findEntry(snap, p.Addr())
				// diagnostic for triage: is GetPairing itself stable in this state?
				distinct := map[string]int{}
				for i := 0; i < 32; i++ {
					distinct[pairingObs(w, chainID, dk.Addr)]++
				}
				fail("provider %s (in epoch snapshot: %v): in GetPairing list = %v but VerifyPairing(consumer, provider, epoch %d).Valid = %v (err=%v)\n  GetPairing: %s (err=%v)\n  (diagnostic: 32 more GetPairing evaluations in this state gave %d distinct answers: %v)\n  policies: %s",
					p.Name, inSnap, paired[p.Addr()], epoch, valid, verr, provNames(w, addrsOf(list)), err, len(distinct), distinct, policiesStr(eff.Policies))
			}
			if paired[p.Addr()] {
				st.allPaired++
			} else {
				st.notPaired++
			}
		}
	}

	if err != nil {
		// no pairing list: nobody may verify as paired
		verify(map[string]bool{})
		if !eff.OK || len(snap) == 0 {
			st.expectedErr++
			return
		}
		fail("GetPairing failed although the consumer has a live subscription, an enabled project, policies that allow the chain with a common geolocation, and %d providers in the epoch snapshot: %v\n  policies: %s",
			len(snap), err, policiesStr(eff.Policies))
	}
	paired := map[string]bool{}
	for _, e := range list {
		c.Clause("no-duplicates")
		if paired[e.Address] {
			fail("provider %s appears twice in the pairing list %s", provName(w, e.Address), provNames(w, addrsOf(list)))
		}
		paired[e.Address] = true
	}
	verify(paired)
	if !eff.OK {
		// the model cannot explain a list (e.g. subscription expired this block); only the iff clause applies
		return
	}

	// classes
	if eff.AnyMixed {
		st.mixedReq++
	}
	if len(eff.Reqs) > 0 && !eff.AnyMixed {
		st.addonActive++
	}
	if eff.PolWithReqs >= 2 {
		st.polWithReqs2++
	}
	switch eff.Mode {
	case planstypes.SELECTED_PROVIDERS_MODE_EXCLUSIVE:
		st.exclusive++
		if len(eff.Selected) == 0 {
			st.exclusiveEmpty++
		}
	case planstypes.SELECTED_PROVIDERS_MODE_MIXED:
		st.selMixed++
	}
	if len(geoBits(eff.Geo)) > 1 {
		st.multiGeo++
	}
	if shareCache {
		st.sharedCache++
	}

	// eligibility of every snapshot entry
	nEligible := 0
	reasons := map[string]string{}
	sawFrozen, sawUnapplied, sawJailed := false, false, false
	for i := range snap {
		ok, why := eff.eligible(&snap[i], epoch)
		if ok {
			nEligible++
		} else {
			reasons[snap[i].Address] = why
			if !eff.AnyMixed && splitSupport(&snap[i], eff.Reqs) {
				st.splitRefused++
			}
		}
		if snap[i].IsFrozen() {
			sawFrozen = true
		} else if snap[i].StakeAppliedBlock > epoch {
			sawUnapplied = true
		}
		if snap[i].JailEndTime > 0 {
			sawJailed = true
		}
	}
	if sawFrozen {
		st.frozen++
	}
	if sawUnapplied {
		st.unapplied++
	}
	if sawJailed {
		st.jailed++
	}
	snapStr := func() string {
		var out []string
		for i := range snap {
			out = append(out, entryStr(w, &snap[i]))
		}
		return strings.Join(out, "\n    ")
	}
	for _, e := range list {
		c.Clause("paired-provider-in-snapshot")
		se, found := findEntry(snap, e.Address)
		if !found || e.Chain != chainID {
			fail("paired provider %s (entry chain %q) is not in the epoch snapshot of %s\n  pairing: %s\n  snapshot:\n    %s", provName(w, e.Address), e.Chain, chainID, provNames(w, addrsOf(list)), snapStr())
		}
		c.Clause("paired-provider-eligible")
		if why, bad := reasons[e.Address]; bad {
			fail("paired provider %s is not eligible: %s\n  entry: %s\n  pairing: %s\n  policies: %s", provName(w, e.Address), why, entryStr(w, se), provNames(w, addrsOf(list)), policiesStr(eff.Policies))
		}
	}
	c.Clause("length-is-min(max-providers,eligible)")
	want := uint64(nEligible)
	if eff.MaxProv < want {
		want = eff.MaxProv
		st.maxLtEligible++
	}
	if uint64(len(list)) != want {
		fail("pairing list has %d entries %s, expected min(effective max providers %d, eligible %d) = %d\n  not eligible: %s\n  policies: %s\n  snapshot:\n    %s",
			len(list), provNames(w, addrsOf(list)), eff.MaxProv, nEligible, want, reasonsStr(w, reasons), policiesStr(eff.Policies), snapStr())
	}
	if nEligible < len(snap) {
		st.eligLtSnap++
	}
	hasSel := eff.Mode == planstypes.SELECTED_PROVIDERS_MODE_EXCLUSIVE || eff.Mode == planstypes.SELECTED_PROVIDERS_MODE_MIXED
	if (len(eff.Reqs) > 0 || hasSel) && nEligible != len(snap) {
		st.nontrivial++
	}
}

func findEntry(snap []epochstoragetypes.StakeEntry, addr string) (*epochstoragetypes.StakeEntry, bool) {
	for i := range snap {
		if snap[i].Address == addr {
			return &snap[i], true
		}
	}
	return nil, false
}

func reasonsStr(w *chain.World, reasons map[string]string) string {
	keys := chain.SortedKeys(reasons)
	var out []string
	for _, k := range keys {
		out = append(out, provName(w, k)+": "+reasons[k])
	}
	sort.Strings(out)
	return strings.Join(out, "; ")
}

var c02PolOpts = polOpts{mixedBias: 3, reqProb: 7}

// c02Finding: GetPairing and VerifyPairing disagree because each evaluation combines the
// requirements of several policies in Go map order (same root cause as C01's finding).
const c02Finding = "c02-pairing-differs-per-evaluation"

func TestC02(t *testing.T) {
	c := ev.For("C02")
	c.SetRule("rapid state machine on a generated world (rich spec SP0 with add-on debug on jsonrpc/rest, extension archive, optional interface grpc; 5-10 providers, stakes over 3 orders of magnitude, per-interface add-on support, geolocations; the engine's plans plus an extra plan pairing 4-8 providers with extra consumers, subscription and admin policies with requirements incl. mixed, selected-provider modes and lists, max providers): stake/modify/move/unstake, freeze/unfreeze, simulated soft and hard jail, delegations, policy and plan changes, subscription purchases, project keys, relay payments with unresponsiveness reports, block and epoch progression; after every step the oracle is evaluated for drawn (developer key, chain) pairs and at the end for all of them; non-trivial case = some evaluated pair had a requirement or a selected list in force and fewer eligible providers than snapshot entries; distinct = distinct histories")
	c.Assume("eligibility model: entry in the epoch snapshot of the chain, StakeAppliedBlock <= epoch start (frozen/jailed entries carry the maximal block), effective selected mode = strictest mode over the policies (plan DISABLED switches the feature off) and EXCLUSIVE => member of the intersection of the lists of the policies that define one, add-on/extension requirements are mandatory only when no requirement of the combined policies is mixed (a mixed requirement makes the whole add-on filter a mix filter in the implementation; the stricter per-requirement reading is NOT asserted), geolocation is a score and not a filter",
		"a requirement is supported when one endpoint serves its interface with the add-on and all its extensions (the rich spec has a single extension)",
		"jailing is simulated by writing the fields punishUnresponsiveProvider writes (StakeAppliedBlock, JailEndTime, Freeze) to the current stake entry",
		"queries run on a discarded branch of the block context; the VerifyPairing calls of one evaluation either share one branch (pairing relay cache as inside a block) or use a fresh one each; the final evaluation of all developer keys and chains shares ONE branch, as the relay payments of one block share the pairing relay cache",
		"GetPairing is expected to succeed when the model finds a live subscription, an enabled project, the chain allowed by every policy, a non-empty common geolocation and a non-empty snapshot")
	rapid.Check(t, func(rt *rapid.T) {
		excl := ev.Excluded(c02Finding)
		po := c02PolOpts
		po.safeUnion = excl
		if excl {
			c.Exclude(c02Finding)
		}
		// while the finding is excluded the engine's own policy generator (which may put mixed
		// requirements with extensions on both interfaces) is switched off; this package's
		// generator supplies the plan / subscription / admin policies instead
		w := chain.NewWorld(rt, t, chain.Cfg{RichSpec: true, RichPolicy: !excl, Geo: true, Providers: [2]int{5, 10}, Delegators: [2]int{0, 2}})
		richSetup(rt, w, po, false)
		st := &c02Stats{}
		relay := chain.RelayOpts{SessionPool: 0, PastEpochs: true, Unresponsive: true, AnyProvider: true}
		acts := map[string]func(*rapid.T){
			"stakeNewChain": w.ActStakeNewChain,
			"modifyStake":   w.ActModifyStake,
			"restakeAsym":   actRestakeAsym(w, false),
			"moveStake":     w.ActMoveStake,
			"unstake":       w.ActUnstake,
			"freeze":        w.ActFreeze,
			"freeze2":       w.ActFreeze,
			"jail":          actJail(w),
			"dualDelegate":  w.ActDualDelegate,
			"dualUnbond":    w.ActDualUnbond,
			"setPolicy":     w.ActSetPolicy,
			"setPolicy2":    actSetPolicy(w, po),
			"setPolicy3":    actSetPolicy(w, po),
			"planModify":    actPlanModify(w, po),
			"subBuy":        w.ActSubBuy,
			"planProposal":  w.ActPlanProposal,
			"addProject":    w.ActAddProject,
			"delProject":    w.ActDelProject,
			"addKeys":       w.ActAddKeys,
			"delKeys":       w.ActDelKeys,
			"relayPayment":  w.ActRelayPayment(relay),
			"advanceBlocks": w.ActAdvanceBlocks,
			"advanceEpoch":  w.ActAdvanceEpoch,
			"advanceEpoch2": w.ActAdvanceEpoch,
			"advanceEpoch3": w.ActAdvanceEpoch,
		}
		acts[""] = func(rt *rapid.T) {
			if w.C.Halt != "" {
				rt.Skip("chain halted (reported by C37)")
			}
			dks := devKeys(w)
			n := rapid.IntRange(1, 2).Draw(rt, "nChecks")
			for i := 0; i < n; i++ {
				dk := dks[rapid.IntRange(0, len(dks)-1).Draw(rt, "checkDev")]
				chainID := w.Specs[0].Index
				if len(w.Specs) > 1 && rapid.IntRange(0, 3).Draw(rt, "checkOtherChain") == 0 {
					chainID = w.Specs[1].Index
				}
				checkPairing(rt, c, w, dk, chainID, rapid.Bool().Draw(rt, "shareCache"), st, nil)
			}
		}
		rt.Repeat(acts)
		if w.C.Halt == "" {
			_, blockCache := qctx(w)
			for _, dk := range devKeys(w) {
				for _, s := range w.Specs {
					checkPairing(rt, c, w, dk, s.Index, true, st, blockCache)
				}
			}
		}
		var classes []string
		add := func(n int, name string) {
			if n > 0 {
				classes = append(classes, name)
			}
		}
		add(st.mixedReq, "mixed-requirement")
		add(st.addonActive, "mandatory-addon-requirement")
		add(st.splitRefused, "entry-serving-addon-and-extension-on-different-endpoints-refused")
		add(st.polWithReqs2, "requirements-in-2+-policies")
		add(st.exclusive, "selected-exclusive")
		add(st.exclusiveEmpty, "selected-exclusive-empty-list")
		add(st.selMixed, "selected-mixed")
		add(st.frozen, "frozen-in-snapshot")
		add(st.unapplied, "stake-not-applied-in-snapshot")
		add(st.jailed, "jailed-in-snapshot")
		add(st.maxLtEligible, "max-providers<eligible")
		add(st.eligLtSnap, "eligible<snapshot")
		add(st.multiGeo, "multi-geolocation-policy")
		add(st.expectedErr, "no-pairing-expected(error)")
		add(st.sharedCache, "verify-with-shared-relay-cache")
		if w.C.Halt != "" {
			classes = append(classes, "halted")
		}
		c.Case(st.nontrivial > 0, fmt.Sprint(w.C.Hist), classes...)
		c.AddExtra("pair-evaluations", st.checks)
		c.AddExtra("pair-evaluations-nontrivial", st.nontrivial)
		c.AddExtra("verify-paired", st.allPaired)
		c.AddExtra("verify-not-paired", st.notPaired)
		if st.nontrivial > 0 {
			c.Sample(map[string]any{"history_tail": w.C.HistTail(25), "pair_evaluations": st.checks, "nontrivial_pair_evaluations": st.nontrivial, "classes": classes})
		}
	})
}
