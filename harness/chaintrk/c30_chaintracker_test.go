package chaintrk

import (
	"context"
	"fmt"
	"sort"
	"strings"
	"testing"
	"time"

	"github.com/lavanet/lava/v5/protocol/chaintracker"
	"github.com/lavanet/lava/v5/protocol/lavasession"
	spectypes "github.com/lavanet/lava/v5/x/spec/types"
	"pgregory.net/rapid"

	"verifharness/internal/ev"
)

// ---- C30: chain tracker mirrors the node's canonical chain ---------------------------------
//
// A simulated node keeps one canonical chain: hash(height) = "h<height>-f<fork id at creation>".
// A reorganisation of depth d drops the last d blocks and re-creates blocks under a fresh fork
// id, so every descendant of the fork point changes its hash. The tracker is polled exactly once
// per step through the verif hook VerifPollOnce (= fetchAllPreviousBlocksIfNecessary) and is
// compared with the node after every poll.

const (
	naBlock     = spectypes.NOT_APPLICABLE
	latestBlock = spectypes.LATEST_BLOCK
)

type simNode struct {
	hashes  []string // index = height
	forkID  int
	callIdx int          // fetch calls made during the current poll
	failAt  map[int]bool // call indices (within the current poll) that return an error
	oob     int          // fetches for heights the node does not have
	faults  int          // injected errors actually hit
}

func (n *simNode) latest() int64 { return int64(len(n.hashes)) - 1 }

func (n *simNode) hash(h int64) (string, bool) {
	if h < 0 || h > n.latest() {
		return "", false
	}
	return n.hashes[h], true
}

func (n *simNode) grow(k int) {
	for i := 0; i < k; i++ {
		h := len(n.hashes)
		n.hashes = append(n.hashes, fmt.Sprintf("h%d-f%d", h, n.forkID))
	}
}

// reorg drops the last d blocks and creates k new ones on a new fork.
func (n *simNode) reorg(d, k int) {
	n.hashes = n.hashes[:len(n.hashes)-d]
	n.forkID++
	n.grow(k)
}

func (n *simNode) fault() bool {
	idx := n.callIdx
	n.callIdx++
	if n.failAt[idx] {
		n.faults++
		return true
	}
	return false
}

func (n *simNode) FetchLatestBlockNum(ctx context.Context) (int64, error) {
	if n.fault() {
		return 0, fmt.Errorf("simnode: injected temporary error (latest)")
	}
	return n.latest(), nil
}

func (n *simNode) FetchBlockHashByNum(ctx context.Context, blockNum int64) (string, error) {
	if n.fault() {
		return "", fmt.Errorf("simnode: injected temporary error (hash %d)", blockNum)
	}
	h, ok := n.hash(blockNum)
	if !ok {
		n.oob++
		return "", fmt.Errorf("simnode: block %d does not exist (latest %d)", blockNum, n.latest())
	}
	return h, nil
}

func (n *simNode) FetchEndpoint() lavasession.RPCProviderEndpoint {
	return lavasession.RPCProviderEndpoint{ChainID: "SIM", ApiInterface: "jsonrpc"}
}

func (n *simNode) CustomMessage(ctx context.Context, path string, data []byte, connectionType string, apiName string) ([]byte, error) {
	return nil, fmt.Errorf("simnode: not implemented")
}

type newLatestCall struct {
	from, to int64
	hash     string
}

type trkWorld struct {
	n           int64
	node        *simNode
	ct          *chaintracker.ChainTracker
	forkCalls   []int64
	newLatest   []newLatestCall
	consistency [][2]int64
	steps       []string
	classes     map[string]bool
	reorgOK     int // successful polls right after a reorg that touched the stored window
	gapOK       int // successful polls with a gap > 1
}

func (w *trkWorld) class(s string) {
	w.classes[s] = true
	ev.For("C30").Class("step:" + s)
}

func (w *trkWorld) history() string { return strings.Join(w.steps, " ; ") }

// window returns the tracker's full stored window through the public query API.
func (w *trkWorld) window(t *rapid.T, what string) (int64, map[int64]string) {
	lat, m, _ := w.windowRaw(t, what)
	return lat, m
}

func (w *trkWorld) windowRaw(t *rapid.T, what string) (int64, map[int64]string, []*chaintracker.BlockStore) {
	lat, blocks, _, err := w.ct.GetLatestBlockData(latestBlock-(w.n-1), latestBlock, naBlock)
	if err != nil {
		t.Fatalf("%s", ev.Violation("C30", "%s: full-window query GetLatestBlockData(LATEST-%d, LATEST, NA) failed: %v\nblocksToSave=%d history: %s", what, w.n-1, err, w.n, w.history()))
	}
	if int64(len(blocks)) != w.n {
		t.Fatalf("%s", ev.Violation("C30", "%s: tracker holds %d blocks in its window, configured %d\nhistory: %s", what, len(blocks), w.n, w.history()))
	}
	m := map[int64]string{}
	for i, b := range blocks {
		want := lat - w.n + 1 + int64(i)
		if b.Block != want {
			t.Fatalf("%s", ev.Violation("C30", "%s: window entry %d is block %d, expected %d (consecutive blocks ending at latest %d)\nhistory: %s", what, i, b.Block, want, lat, w.history()))
		}
		m[b.Block] = b.Hash
	}
	return lat, m, blocks
}

func (w *trkWorld) resetCallbacks() {
	w.forkCalls, w.newLatest, w.consistency = nil, nil, nil
}

// checkPoll evaluates the oracle after one poll. before/beforeLatest is the tracker's own report
// of its window before the poll.
func (w *trkWorld) checkPoll(t *rapid.T, pollErr error, beforeLatest int64, before map[int64]string, what string) {
	c := ev.For("C30")
	nodeLatest := w.node.latest()
	trLatest := w.ct.GetAtomicLatestBlockNum()
	if l2, _ := w.ct.GetLatestBlockNum(); l2 != trLatest {
		t.Fatalf("%s", ev.Violation("C30", "%s: GetLatestBlockNum()=%d but GetAtomicLatestBlockNum()=%d\nhistory: %s", what, l2, trLatest, w.history()))
	}

	// fork callback fires only when a stored hash changed (any poll)
	c.Clause("fork-callback-only-when-stored-hash-changed")
	if len(w.forkCalls) > 0 {
		changed := false
		for h, old := range before {
			if cur, ok := w.node.hash(h); !ok || cur != old {
				changed = true
			}
		}
		if !changed {
			t.Fatalf("%s", ev.Violation("C30", "%s: fork callback fired (%v) although every stored (height,hash) still equals the node's\nstored before: %v\nhistory: %s", what, w.forkCalls, sortedWindow(before), w.history()))
		}
		if len(w.forkCalls) > 1 {
			t.Fatalf("%s", ev.Violation("C30", "%s: fork callback fired %d times in one poll\nhistory: %s", what, len(w.forkCalls), w.history()))
		}
	}

	lat, after := w.window(t, what)
	if lat != trLatest {
		t.Fatalf("%s", ev.Violation("C30", "%s: GetLatestBlockData reports latest %d, GetAtomicLatestBlockNum %d\nhistory: %s", what, lat, trLatest, w.history()))
	}

	if pollErr != nil {
		c.Class("poll:error")
		// failed poll: whatever is stored must still be a hash the node served for that height
		c.Clause("failed-poll-keeps-served-hashes")
		for h, got := range after {
			cur, ok := w.node.hash(h)
			if old, had := before[h]; (had && old == got) || (ok && cur == got) {
				continue
			}
			t.Fatalf("%s", ev.Violation("C30", "%s: after a failed poll the tracker stores hash %q for block %d, which is neither the node's current hash %q nor the previously stored one %q\nhistory: %s", what, got, h, cur, before[h], w.history()))
		}
		return
	}
	c.Class("poll:ok")

	c.Clause("latest-equals-node")
	if trLatest != nodeLatest {
		t.Fatalf("%s", ev.Violation("C30", "%s: poll succeeded but tracker latest=%d, node latest=%d\nblocksToSave=%d history: %s", what, trLatest, nodeLatest, w.n, w.history()))
	}
	c.Clause("window-hashes-equal-node")
	for h := trLatest - w.n + 1; h <= trLatest; h++ {
		want, _ := w.node.hash(h)
		if after[h] != want {
			t.Fatalf("%s", ev.Violation("C30", "%s: poll succeeded but tracker stores hash %q for block %d, the node's current hash is %q\nblocksToSave=%d tracker window=%v\nhistory: %s", what, after[h], h, want, w.n, sortedWindow(after), w.history()))
		}
	}

	// new-latest callback: exactly once with (previous latest, new latest, hash of new latest) iff the latest advanced
	c.Clause("new-latest-callback")
	if nodeLatest > beforeLatest {
		wantHash, _ := w.node.hash(nodeLatest)
		if len(w.newLatest) != 1 || w.newLatest[0].from != beforeLatest || w.newLatest[0].to != nodeLatest || w.newLatest[0].hash != wantHash {
			t.Fatalf("%s", ev.Violation("C30", "%s: latest advanced %d -> %d (hash %q) but new-latest callback calls were %+v\nhistory: %s", what, beforeLatest, nodeLatest, wantHash, w.newLatest, w.history()))
		}
		c.Class("callback:new-latest")
	} else if len(w.newLatest) != 0 {
		t.Fatalf("%s", ev.Violation("C30", "%s: latest did not advance (%d -> %d) but new-latest callback fired %+v\nhistory: %s", what, beforeLatest, nodeLatest, w.newLatest, w.history()))
	}

	// a changed hash of the stored tip is what the tracker calls a fork: it must be reported
	if before != nil {
		c.Clause("fork-callback-when-stored-tip-changed")
		cur, ok := w.node.hash(beforeLatest)
		tipChanged := !ok || cur != before[beforeLatest]
		if tipChanged && len(w.forkCalls) != 1 {
			t.Fatalf("%s", ev.Violation("C30", "%s: the stored tip (block %d hash %q) changed on the node to %q and the poll succeeded, but the fork callback fired %d times\nhistory: %s", what, beforeLatest, before[beforeLatest], cur, len(w.forkCalls), w.history()))
		}
		if len(w.forkCalls) == 1 {
			c.Class("callback:fork")
			if w.forkCalls[0] != nodeLatest {
				t.Fatalf("%s", ev.Violation("C30", "%s: fork callback argument %d, expected the new latest block %d\nhistory: %s", what, w.forkCalls[0], nodeLatest, w.history()))
			}
		}
	}
	for _, cc := range w.consistency {
		if !(cc[1] < cc[0]) {
			t.Fatalf("%s", ev.Violation("C30", "%s: consistency callback fired with old=%d new=%d (not a regression)\nhistory: %s", what, cc[0], cc[1], w.history()))
		}
	}
}

func sortedWindow(m map[int64]string) []string {
	ks := make([]int64, 0, len(m))
	for k := range m {
		ks = append(ks, k)
	}
	sort.Slice(ks, func(i, j int) bool { return ks[i] < ks[j] })
	out := make([]string, 0, len(ks))
	for _, k := range ks {
		out = append(out, fmt.Sprintf("%d:%s", k, m[k]))
	}
	return out
}

// genArg draws one argument of GetLatestBlockData: NOT_APPLICABLE, LATEST-X or an absolute height
// around the edges of the stored window.
func (w *trkWorld) genArg(t *rapid.T, label string, trLatest int64) int64 {
	earliest := trLatest - w.n + 1
	switch rapid.SampledFrom([]int{0, 1, 1, 1, 2, 2, 2, 2, 2, 3, 3}).Draw(t, label+"Kind") {
	case 0:
		return naBlock
	case 1:
		maxX := w.n + 1
		if maxX > trLatest { // LATEST-X with X beyond genesis is not a meaningful request
			maxX = trLatest
		}
		x := rapid.Int64Range(0, maxX).Draw(t, label+"X")
		return latestBlock - x
	case 2:
		lo := earliest
		if lo < 0 {
			lo = 0
		}
		return rapid.Int64Range(lo, trLatest).Draw(t, label+"In")
	default:
		lo := earliest - 2
		if lo < 0 {
			lo = 0
		}
		return rapid.Int64Range(lo, trLatest+2).Draw(t, label+"Abs")
	}
}

func resolveArg(arg, latest int64) int64 {
	if arg >= 0 {
		return arg
	}
	return latest - (latestBlock - arg) // LATEST_BLOCK - X  ->  latest - X
}

// checkQuery: a query returns exactly the requested range plus the specific block, or an error;
// a request that lies completely inside the stored window must be served.
func (w *trkWorld) checkQuery(t *rapid.T, pollOK bool, before map[int64]string) {
	c := ev.For("C30")
	trLatest := w.ct.GetAtomicLatestBlockNum()
	earliest := trLatest - w.n + 1
	from := w.genArg(t, "from", trLatest)
	to := w.genArg(t, "to", trLatest)
	spec := w.genArg(t, "spec", trLatest)
	if rapid.IntRange(0, 3).Draw(t, "rangeShape") != 0 && from != naBlock && to != naBlock {
		// make from<=to more likely to be a proper sub-range
		f, tt := resolveArg(from, trLatest), resolveArg(to, trLatest)
		if f > tt {
			from, to = to, from
		}
	}
	ignoreRange := from == naBlock || to == naBlock
	ignoreSpec := spec == naBlock
	want := map[int64]bool{}
	satisfiable := !(ignoreRange && ignoreSpec)
	inWin := func(b int64) bool { return b >= earliest && b <= trLatest && b >= 0 }
	if !ignoreRange {
		f, tt := resolveArg(from, trLatest), resolveArg(to, trLatest)
		if f > tt {
			satisfiable = false
		}
		for b := f; b <= tt; b++ {
			want[b] = true
			if !inWin(b) {
				satisfiable = false
			}
		}
	}
	if !ignoreSpec {
		s := resolveArg(spec, trLatest)
		want[s] = true
		if !inWin(s) {
			satisfiable = false
		}
	}
	lat, blocks, _, err := w.ct.GetLatestBlockData(from, to, spec)
	c.Clause("query-exact-range-or-error")
	desc := fmt.Sprintf("GetLatestBlockData(from=%d,to=%d,specific=%d) with tracker latest=%d window=[%d,%d]", from, to, spec, trLatest, earliest, trLatest)
	if err != nil {
		c.Class("query:error")
		if satisfiable {
			t.Fatalf("%s", ev.Violation("C30", "%s returned error %v although every requested block is inside the stored window\nhistory: %s", desc, err, w.history()))
		}
		return
	}
	c.Class("query:ok")
	if !ignoreSpec && !ignoreRange {
		s := resolveArg(spec, trLatest)
		if s < resolveArg(from, trLatest) {
			c.Class("query:specific-below-range")
		} else if s > resolveArg(to, trLatest) {
			c.Class("query:specific-above-range")
		} else {
			c.Class("query:specific-inside-range")
		}
	} else if ignoreRange {
		c.Class("query:specific-only")
	}
	if lat != trLatest {
		t.Fatalf("%s", ev.Violation("C30", "%s returned latest %d\nhistory: %s", desc, lat, w.history()))
	}
	wantList := make([]int64, 0, len(want))
	for b := range want {
		wantList = append(wantList, b)
	}
	sort.Slice(wantList, func(i, j int) bool { return wantList[i] < wantList[j] })
	got := make([]int64, 0, len(blocks))
	for _, b := range blocks {
		got = append(got, b.Block)
	}
	if fmt.Sprint(got) != fmt.Sprint(wantList) {
		t.Fatalf("%s", ev.Violation("C30", "%s returned blocks %v, requested exactly %v (ascending)\nhistory: %s", desc, got, wantList, w.history()))
	}
	c.Clause("query-hashes")
	for _, b := range blocks {
		cur, ok := w.node.hash(b.Block)
		if ok && cur == b.Hash {
			continue
		}
		if !pollOK {
			if old, had := before[b.Block]; had && old == b.Hash {
				continue
			}
		}
		t.Fatalf("%s", ev.Violation("C30", "%s returned hash %q for block %d, node has %q (last poll ok=%v)\nhistory: %s", desc, b.Hash, b.Block, cur, pollOK, w.history()))
	}
}

func (w *trkWorld) drawFaults(t *rapid.T, maxFaults int) {
	w.node.failAt = map[int]bool{}
	w.node.callIdx = 0
	if maxFaults == 0 || rapid.IntRange(0, 5).Draw(t, "faulty") != 0 {
		return
	}
	k := rapid.IntRange(1, maxFaults).Draw(t, "nFaults")
	for i := 0; i < k; i++ {
		w.node.failAt[rapid.IntRange(0, int(w.n)+2).Draw(t, "faultAt")] = true
	}
}

// pollAndCheck performs one poll with optional injected faults and evaluates all clauses.
func (w *trkWorld) pollAndCheck(t *rapid.T, stepDesc string) bool {
	beforeLatest, before, beforeRaw := w.windowRaw(t, "before "+stepDesc)
	w.drawFaults(t, 2)
	if len(w.node.failAt) > 0 {
		ks := []int{}
		for k := range w.node.failAt {
			ks = append(ks, k)
		}
		sort.Ints(ks)
		stepDesc += fmt.Sprintf(" faults@%v", ks)
	}
	w.steps = append(w.steps, stepDesc)
	w.resetCallbacks()
	hit := w.node.faults
	err := w.ct.VerifPollOnce(context.Background())
	if w.node.faults > hit {
		w.class("fault-hit")
	}
	if err != nil {
		w.steps[len(w.steps)-1] += " -> poll error"
	}
	w.checkPoll(t, err, beforeLatest, before, "after step {"+stepDesc+"}")
	// a result handed out earlier is a snapshot: a later poll must not rewrite it
	ev.For("C30").Clause("returned-result-not-rewritten-by-later-poll")
	for i, b := range beforeRaw {
		wantBlock := beforeLatest - w.n + 1 + int64(i)
		if b.Block != wantBlock || b.Hash != before[wantBlock] {
			t.Fatalf("%s", ev.Violation("C30", "after step {%s}: entry %d of a GetLatestBlockData result obtained before the poll changed from (%d,%q) to (%d,%q)\nhistory: %s", stepDesc, i, wantBlock, before[wantBlock], b.Block, b.Hash, w.history()))
		}
	}
	for i := 0; i < 2; i++ {
		w.checkQuery(t, err == nil, before)
	}
	return err == nil
}

func propC30(t *rapid.T) {
	c := ev.For("C30")
	n := int64(rapid.SampledFrom([]int{1, 2, 3, 3, 4, 5, 5, 6, 7, 8, 10, 13, 16, 20}).Draw(t, "blocksToSave"))
	w := &trkWorld{n: n, node: &simNode{failAt: map[int]bool{}}, classes: map[string]bool{}}
	// the node always has at least blocksToSave blocks (heights 0..latest)
	extra := rapid.SampledFrom([]int{0, 0, 1, 2, 5, 17, 40, 1000}).Draw(t, "extraBlocks")
	w.node.grow(int(n) + extra)
	if extra == 0 {
		w.class("node-has-exactly-blocksToSave-blocks")
	}
	mem := uint64(n) + uint64(rapid.SampledFrom([]int{0, 5, 100}).Draw(t, "serverMemoryExtra"))
	cfg := chaintracker.ChainTrackerConfig{
		BlocksToSave:          uint64(n),
		AverageBlockTime:      time.Hour,
		ServerBlockMemory:     mem,
		ParseDirectiveEnabled: true,
		ChainId:               "SIM",
		ForkCallback:          func(b int64) { w.forkCalls = append(w.forkCalls, b) },
		NewLatestCallback: func(from, to int64, hash string) {
			w.newLatest = append(w.newLatest, newLatestCall{from, to, hash})
		},
		ConsistencyCallback: func(oldB, newB int64) { w.consistency = append(w.consistency, [2]int64{oldB, newB}) },
		OldBlockCallback:    func(time.Time) {},
		FetchErrorCallback:  func() {},
	}
	ict, err := chaintracker.NewChainTracker(context.Background(), w.node, cfg)
	if err != nil {
		t.Fatalf("%s", ev.HarnessError("NewChainTracker: %v", err))
	}
	ct, ok := ict.(*chaintracker.ChainTracker)
	if !ok {
		t.Fatalf("%s", ev.HarnessError("NewChainTracker returned %T", ict))
	}
	w.ct = ct

	// initial fetch (with up to 2 injected temporary errors, which the init retries absorb)
	w.drawFaults(t, 2)
	w.steps = append(w.steps, fmt.Sprintf("init n=%d nodeLatest=%d mem=%d faults=%d", n, w.node.latest(), mem, len(w.node.failAt)))
	if err := ct.VerifFetchInit(context.Background()); err != nil {
		t.Fatalf("%s", ev.Violation("C30", "initial fetch failed on a healthy node with at most 2 temporary errors: %v\nhistory: %s", err, w.history()))
	}
	w.resetCallbacks()
	w.checkPoll(t, nil, w.node.latest(), nil, "after init")
	w.checkQuery(t, true, nil)

	minLatest := n - 1 // precondition of the property: the node has at least blocksToSave blocks

	t.Repeat(map[string]func(*rapid.T){
		"advance": func(t *rapid.T) {
			var k int
			switch rapid.SampledFrom([]int{0, 1, 1, 1, 2, 2, 3, 4, 5}).Draw(t, "advKind") {
			case 0:
				k = 0
			case 1:
				k = 1
			case 2:
				k = rapid.IntRange(2, int(n)+1).Draw(t, "advSmall")
			case 3:
				k = int(n) - 1
			case 4:
				k = int(n)
			default:
				k = rapid.IntRange(int(n)+1, 2*int(n)+1).Draw(t, "advBig")
			}
			if k < 0 {
				k = 0
			}
			trBefore := ct.GetAtomicLatestBlockNum()
			w.node.grow(k)
			gap := w.node.latest() - trBefore
			switch {
			case gap <= 0:
				w.class("no-new-block")
			case gap == 1:
				w.class("advance-1")
			case gap < n-1:
				w.class("gap<memory-1")
			case gap == n-1:
				w.class("gap=memory-1")
			case gap == n:
				w.class("gap=memory")
			default:
				w.class("gap>memory")
			}
			if w.pollAndCheck(t, fmt.Sprintf("advance %d (nodeLatest=%d)", k, w.node.latest())) && gap > 1 {
				w.gapOK++
			}
		},
		"reorg": func(t *rapid.T) {
			lat := w.node.latest()
			maxD := n + 1
			if maxD > lat { // keep genesis
				maxD = lat
			}
			if maxD < 1 {
				t.Skip("chain too short to reorg")
			}
			var d int64
			switch rapid.SampledFrom([]int{0, 0, 1, 2, 3, 4}).Draw(t, "depthKind") {
			case 0:
				d = 1
			case 1:
				d = rapid.Int64Range(1, maxD).Draw(t, "depth")
			case 2:
				d = n - 1
			case 3:
				d = n
			default:
				d = n + 1
			}
			if d < 1 {
				d = 1
			}
			if d > maxD {
				d = maxD
			}
			// new branch length: same height, longer, or shorter (height regression), never below minLatest
			minK := minLatest - (lat - d)
			if minK < 0 {
				minK = 0
			}
			var k int64
			switch rapid.SampledFrom([]int{0, 0, 1, 1, 2, 3}).Draw(t, "branchKind") {
			case 0:
				k = d
			case 1:
				k = d + rapid.Int64Range(1, 3).Draw(t, "longer")
			case 2:
				k = d + rapid.Int64Range(int64(n)-1, 2*int64(n)).Draw(t, "muchLonger")
			default:
				k = rapid.Int64Range(0, d).Draw(t, "shorter")
			}
			if k < minK {
				k = minK
			}
			trBefore := ct.GetAtomicLatestBlockNum()
			forkPoint := lat - d // highest unchanged block
			w.node.reorg(int(d), int(k))
			touches := forkPoint < trBefore // some stored block changed
			switch {
			case !touches:
				w.class("reorg-above-tracker-tip")
			case forkPoint < trBefore-n+1:
				w.class("reorg-deeper-than-window")
			case forkPoint == trBefore-n+1:
				w.class("reorg-keeps-only-earliest-stored")
			case forkPoint == trBefore-1:
				w.class("reorg-depth-1-of-window")
			default:
				w.class("reorg-inside-window")
			}
			switch {
			case w.node.latest() < trBefore:
				w.class("reorg-height-regression")
			case w.node.latest() == trBefore:
				w.class("reorg-same-height")
			default:
				w.class("reorg-and-advance")
			}
			if w.pollAndCheck(t, fmt.Sprintf("reorg depth=%d newBranch=%d (nodeLatest=%d fork=%d)", d, k, w.node.latest(), w.node.forkID)) && touches {
				w.reorgOK++
			}
		},
		"repoll": func(t *rapid.T) {
			w.class("repoll-unchanged-node")
			w.pollAndCheck(t, "repoll")
		},
	})

	nontrivial := w.reorgOK > 0 || w.gapOK > 0
	classes := []string{fmt.Sprintf("blocksToSave=%d", n)}
	if w.reorgOK > 0 {
		classes = append(classes, "case:reorg-of-stored-blocks-polled-ok")
	}
	if w.gapOK > 0 {
		classes = append(classes, "case:gap>1-polled-ok")
	}
	if w.node.oob > 0 {
		classes = append(classes, "case:tracker-asked-for-missing-block")
	}
	c.Case(nontrivial, w.history(), classes...)
	if nontrivial {
		c.Sample(map[string]any{"blocksToSave": n, "steps": w.steps})
	}
}

func TestC30(t *testing.T) {
	c := ev.For("C30")
	c.SetRule("rapid action sequences (advance 0..2*memory+1 blocks, reorg of depth 1..memory+1 with a same/longer/shorter new branch, repoll) on a simulated node whose block hashes depend on (height, fork id); blocksToSave 1-20; temporary fetch errors injected at chosen call indices of a poll; exactly one synchronous poll per step via the verif hook, then the tracker is compared with the node and two generated GetLatestBlockData(from,to,specific) queries (absolute / LATEST-X / NOT_APPLICABLE arguments around the window edges) are checked. non-trivial = the case contains a successful poll after a reorg that changed stored blocks or after a gap > 1; distinct = distinct step histories")
	c.Assume("the node is a single consistent chain: it always holds at least blocksToSave blocks (heights 0..latest) and answers hash requests for missing heights with an error (the precondition of the statement)",
		"temporary errors are plain errors returned by FetchLatestBlockNum/FetchBlockHashByNum (no net.Error wrapping, an OldBlockCallback is always configured)",
		"ServerBlockMemory >= BlocksToSave as in rpcprovider (ChainTrackerDefaultMemory + blocksToSave)",
		"LATEST-X query arguments are generated with X <= tracker latest",
		"polls are sequential (one poll at a time, as the tracker's single polling goroutine does); queries run between polls")
	rapid.Check(t, propC30)
}
