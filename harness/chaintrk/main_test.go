package chaintrk

import (
	"os"
	"testing"

	"github.com/lavanet/lava/v5/utils"
	lavarand "github.com/lavanet/lava/v5/utils/rand"

	"verifharness/internal/ev"
)

func TestMain(m *testing.M) {
	lavarand.InitRandomSeed() // NewChainTracker refuses to start without it; no oracle depends on its draws
	utils.SetGlobalLoggingLevel("fatal")
	code := m.Run()
	ev.Flush()
	os.Exit(code)
}
