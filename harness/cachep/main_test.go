package cachep

import (
	"os"
	"testing"

	"github.com/lavanet/lava/v5/utils"

	"verifharness/internal/ev"
)

func TestMain(m *testing.M) {
	// the cache handlers log every call at debug level (default); keep the run quiet and fast
	utils.SetGlobalLoggingLevel("error")
	code := m.Run()
	ev.Flush()
	os.Exit(code)
}
