package cachep

import (
	"bytes"
	"context"
	"fmt"
	"reflect"
	"sort"
	"strings"
	"sync"
	"testing"

	"github.com/lavanet/lava/v5/ecosystem/cache"
	"github.com/lavanet/lava/v5/protocol/chainlib"
	pairingtypes "github.com/lavanet/lava/v5/x/pairing/types"
	spectypes "github.com/lavanet/lava/v5/x/spec/types"
	"pgregory.net/rapid"

	"verifharness/internal/ev"
)

// ---- C36: the relay cache never serves the wrong or corrupted reply --------------------------

var (
	srvOnce sync.Once
	srv     *cache.RelayerCacheServer
	caseSeq int
	// process-wide statistics for the vacuity guard (cases run sequentially)
	stat = map[string]int{}
)

func count(c *ev.Collector, k string) {
	stat[k]++
	c.AddExtra(k, 1)
}

// one cache server per process (three ristretto instances of 100M counters each are expensive);
// every case works in its own chain-id namespace.
func server() *cache.RelayerCacheServer {
	srvOnce.Do(func() {
		cs := &cache.CacheServer{CacheMaxCost: 2 * 1024 * 1024 * 1024}
		cs.InitCache(context.Background(),
			cache.DefaultExpirationTimeFinalized,
			cache.DefaultExpirationForNonFinalized,
			cache.DefaultExpirationNodeErrors,
			cache.DefaultExpirationBlocksHashesToHeights,
			cache.DisabledFlagOption,
			cache.DefaultExpirationTimeFinalizedMultiplier,
			cache.DefaultExpirationTimeNonFinalizedMultiplier)
		srv = &cache.RelayerCacheServer{CacheServer: cs}
	})
	return srv
}

// what the model remembers about one accepted SetRelay
type stored struct {
	op        int
	key       string
	finalized bool
	hash      []byte // block hash given to SetRelay (kept by the cache only for non-finalized entries)
	data      []byte
	latest    int64
	finHashes []byte
	sigBlocks []byte
	meta      []pairingtypes.Metadata
	optMeta   []pairingtypes.Metadata
	seen      int64 // max(reply latest block, seen block) at set time
	shortTTL  bool
	desc      string
}

// temp / fin: the latest set per cache kind (used for the prediction statistics only);
// all: every reply ever stored under this model key. The model's request equality is coarser than
// the implementation's (e.g. position of the id member), so two sets the model files under one key
// may live under two implementation keys and both stay retrievable: a hit may be any of them.
type slot struct {
	temp, fin *stored
	all       []*stored
}

type world struct {
	t        *rapid.T
	c        *ev.Collector
	ns       string
	chains   []string
	entries  map[string]*slot
	fine     map[string]*slot // keyed with fineCanon: prediction statistics only
	latest   map[string]int64 // chain -> latest known block (running max), absent = none
	shared   map[string]int64 // chain|sharedStateId -> seen block (running max)
	sets     []*setRec
	log      []string
	nontriv  bool
	classes  map[string]bool
	bigCount int
}

type setRec struct {
	spec      reqSpec
	chain     int
	block     int64
	finalized bool
	hash      []byte
	shared    string
	st        *stored
}

func metaEqual(a, b []pairingtypes.Metadata) bool {
	if len(a) != len(b) {
		return false
	}
	for i := range a {
		if a[i] != b[i] {
			return false
		}
	}
	return true
}

func (w *world) fail(format string, args ...any) {
	msg := fmt.Sprintf(format, args...)
	w.t.Fatalf("%s", ev.Violation("C36", "%s\n--- history of this case (chains %v) ---\n%s\n=> C36 violated: %s", msg, w.chains, strings.Join(w.log, "\n"), msg))
}

// hashOf computes the request hash through the code under test and checks the third sentence of the
// statement: computing the key leaves the request unchanged.
func (w *world) hashOf(s reqSpec, chain string) []byte {
	req := s.build()
	before := cloneRelayData(req)
	hash, _, err := chainlib.HashCacheRequest(req, chain)
	if err != nil {
		w.t.Fatalf("%s", ev.HarnessError("HashCacheRequest failed on %s: %v", s.summary(), err))
	}
	w.c.Clause("hash_leaves_request_unchanged")
	if !reflect.DeepEqual(req, before) {
		w.fail("HashCacheRequest changed the request it was given.\n before: %+v\n after:  %+v\n spec: %s", before, req, s.summary())
	}
	hash2, _, _ := chainlib.HashCacheRequest(req, chain)
	if !bytes.Equal(hash, hash2) {
		w.fail("HashCacheRequest is not a function of the request: two calls on the same request returned %x and %x (%s)", hash, hash2, s.summary())
	}
	// hand the cache its own copy (in-process calls would otherwise share the backing array)
	return append([]byte{}, hash...)
}

func resolveBlock(requested int64, latest int64, hasLatest bool) (int64, bool) {
	if requested >= 0 {
		return requested, true
	}
	switch requested {
	case spectypes.LATEST_BLOCK, spectypes.SAFE_BLOCK, spectypes.FINALIZED_BLOCK, spectypes.PENDING_BLOCK:
		if hasLatest && latest >= 0 {
			return latest, true
		}
	}
	return 0, false
}

func modelKey(chain string, s reqSpec, block int64) string {
	return fmt.Sprintf("%s\x1c%d\x1c%s", chain, block, s.canon())
}

func maxI(a, b int64) int64 {
	if a > b {
		return a
	}
	return b
}

func minI(a, b int64) int64 {
	if a < b {
		return a
	}
	return b
}

func (w *world) doSet(opIdx int, s reqSpec, vname string, chain int, block int64, finalized bool, hash []byte, pay paySpec,
	latest, seen int64, shared string, avgBT int64, nodeErr bool, fullReply bool, optMeta []pairingtypes.Metadata,
) {
	chainID := w.chains[chain]
	tag := fmt.Sprintf("<%s#%d>", w.ns, opIdx)
	data := pay.bytes(tag)
	st := &stored{op: opIdx, finalized: finalized, hash: hash, data: data, latest: latest, optMeta: optMeta, seen: maxI(latest, seen)}
	reply := &pairingtypes.RelayReply{Data: append([]byte{}, data...), LatestBlock: latest}
	if fullReply { // consumer style: the whole reply is stored
		st.meta = []pairingtypes.Metadata{{Name: "verif-tag", Value: tag}}
		st.finHashes = []byte(`{"1":"` + tag + `"}`)
		st.sigBlocks = []byte("sb" + tag)
		reply.Metadata = append([]pairingtypes.Metadata{}, st.meta...)
		reply.FinalizedBlocksHashes = append([]byte{}, st.finHashes...)
		reply.SigBlocks = append([]byte{}, st.sigBlocks...)
		reply.Sig = []byte("sig" + tag)
	}
	ttl := "1h"
	switch {
	case finalized && nodeErr:
		ttl, st.shortTTL = "short", true
	case !finalized && hash == nil && avgBT/8 < int64(60e9):
		ttl, st.shortTTL = "short", true
	}
	st.desc = fmt.Sprintf("#%d SET chain=%s block=%d finalized=%v blockHash=%x payload=%s/%s/%dB latest=%d seen=%d shared=%q avgBlockTime=%d nodeErr=%v ttl=%s full=%v optMeta=%v var=%s req=%s",
		opIdx, chainID, block, finalized, hash, pay.Class, pay.Content, len(data), latest, seen, shared, avgBT, nodeErr, ttl, fullReply, optMeta, vname, s.summary())
	w.log = append(w.log, st.desc)

	msg := &pairingtypes.RelayCacheSet{
		RequestHash:      w.hashOf(s, chainID),
		BlockHash:        append([]byte(nil), hash...),
		Response:         reply,
		Finalized:        finalized,
		OptionalMetadata: append([]pairingtypes.Metadata(nil), optMeta...),
		SharedStateId:    shared,
		RequestedBlock:   block,
		ChainId:          chainID,
		SeenBlock:        seen,
		AverageBlockTime: avgBT,
		IsNodeError:      nodeErr,
	}
	if hash == nil {
		msg.BlockHash = nil
	}
	_, err := server().SetRelay(context.Background(), msg)
	server().CacheServer.VerifWaitForWrites()
	w.classes["set:payload="+sizeClass(len(data))] = true
	w.classes["set:content="+pay.Content] = true
	w.classes[fmt.Sprintf("set:finalized=%v,hash=%v", finalized, hash != nil)] = true
	if block < 0 {
		// the cache refuses negative requested blocks; nothing may become visible for them (checked by later gets)
		if err == nil {
			w.c.Class("set:negative_block_accepted")
		} else {
			w.c.Class("set:negative_block_refused")
		}
		w.log[len(w.log)-1] += fmt.Sprintf("  -> err=%v (model: nothing stored)", err)
		return
	}
	if err != nil {
		w.c.Class("set:error")
		w.log[len(w.log)-1] += fmt.Sprintf("  -> err=%v (model: nothing stored)", err)
		return
	}
	st.key = modelKey(chainID, s, block)
	sl := w.entries[st.key]
	if sl == nil {
		sl = &slot{}
		w.entries[st.key] = sl
	}
	sl.all = append(sl.all, st)
	fk := fmt.Sprintf("%s\x1c%d\x1c%s", chainID, block, s.fineCanon())
	fsl := w.fine[fk]
	if fsl == nil {
		fsl = &slot{}
		w.fine[fk] = fsl
	}
	if finalized {
		fsl.fin = st
	} else {
		fsl.temp = st
	}
	if cur, ok := w.latest[chainID]; !ok || cur <= st.seen {
		w.latest[chainID] = st.seen
	}
	if shared != "" {
		k := chainID + "|" + shared
		if cur, ok := w.shared[k]; !ok || cur <= st.seen {
			w.shared[k] = st.seen
		}
	}
	w.sets = append(w.sets, &setRec{spec: s, chain: chain, block: block, finalized: finalized, hash: hash, shared: shared, st: st})
}

func allowedByHash(c *stored, getHash []byte) bool {
	if c.finalized || c.hash == nil {
		return true
	}
	return bytes.Equal(c.hash, getHash)
}

func replyEquals(r *pairingtypes.CacheRelayReply, c *stored) (bool, string) {
	rp := r.Reply
	switch {
	case !bytes.Equal(rp.Data, c.data):
		i := 0
		for i < len(rp.Data) && i < len(c.data) && rp.Data[i] == c.data[i] {
			i++
		}
		return false, fmt.Sprintf("data differs (got %d bytes, stored %d bytes, first difference at offset %d)", len(rp.Data), len(c.data), i)
	case rp.LatestBlock != c.latest:
		return false, fmt.Sprintf("latest block differs (got %d, stored %d)", rp.LatestBlock, c.latest)
	case !bytes.Equal(rp.FinalizedBlocksHashes, c.finHashes):
		return false, "finalized block hashes differ"
	case !bytes.Equal(rp.SigBlocks, c.sigBlocks):
		return false, "sig blocks differ"
	case !metaEqual(rp.Metadata, c.meta):
		return false, fmt.Sprintf("reply metadata differs (got %v, stored %v)", rp.Metadata, c.meta)
	case !metaEqual(r.OptionalMetadata, c.optMeta):
		return false, fmt.Sprintf("optional metadata differs (got %v, stored %v)", r.OptionalMetadata, c.optMeta)
	}
	return true, ""
}

type getInfo struct {
	vname    string
	relevant bool // differs from the set it was derived from in a key-relevant way
	implSame bool // stats: the unchanged implementation is expected to find the entry of the set it was derived from
	from     *setRec
}

func (w *world) doGet(opIdx int, s reqSpec, gi getInfo, chain int, block int64, finalized bool, hash []byte, seen int64, shared string) {
	chainID := w.chains[chain]
	desc := fmt.Sprintf("#%d GET chain=%s block=%d finalized=%v blockHash=%x seen=%d shared=%q var=%s req=%s", opIdx, chainID, block, finalized, hash, seen, shared, gi.vname, s.summary())
	w.log = append(w.log, desc)
	msg := &pairingtypes.RelayCacheGet{
		RequestHash:    w.hashOf(s, chainID),
		BlockHash:      append([]byte(nil), hash...),
		Finalized:      finalized,
		RequestedBlock: block,
		SharedStateId:  shared,
		ChainId:        chainID,
		SeenBlock:      seen,
	}
	if hash == nil {
		msg.BlockHash = nil
	}
	reply, err := server().GetRelay(context.Background(), msg)
	hit := err == nil && reply != nil && reply.Reply != nil

	// --- what the statement allows
	lat, hasLat := w.latest[chainID]
	resolved, valid := resolveBlock(block, lat, hasLat)
	var sl *slot
	if valid {
		sl = w.entries[modelKey(chainID, s, resolved)]
	}
	var cands []*stored
	if sl != nil {
		for i := len(sl.all) - 1; i >= 0; i-- { // newest first
			cands = append(cands, sl.all[i])
		}
	}

	// --- prediction of the unchanged implementation (statistics / vacuity guard only)
	pred, predKnown := false, true
	if fsl := w.fine[fmt.Sprintf("%s\x1c%d\x1c%s", chainID, resolved, s.fineCanon())]; valid && fsl != nil {
		order := []*stored{fsl.temp, fsl.fin}
		if finalized {
			order = []*stored{fsl.fin, fsl.temp}
		}
		for _, c := range order {
			if c == nil {
				continue
			}
			effSeen := seen
			if shared != "" {
				if v, ok := w.shared[chainID+"|"+shared]; ok {
					effSeen = maxI(effSeen, v)
				}
			}
			pred = allowedByHash(c, hash) && c.seen >= minI(effSeen, resolved)
			if c.shortTTL || block < 0 {
				predKnown = false // depends on the 500 ms / 250 ms expirations
			}
			break
		}
	}

	w.c.Clause("get_evaluated")
	if !hit {
		w.log[len(w.log)-1] += "  -> miss"
		switch {
		case !predKnown:
			w.c.Class("get:miss(time-dependent prediction)")
		case pred:
			w.c.Class("get:MISS_although_hit_predicted")
			count(w.c, "predicted_hit_missed")
			if gi.from != nil && !gi.relevant && gi.implSame {
				count(w.c, "ignorable_variant_missed")
			}
		default:
			w.c.Class("get:miss_as_predicted")
		}
		if pred && predKnown {
			count(w.c, "predicted_hits")
			if gi.from != nil && !gi.relevant && gi.implSame {
				count(w.c, "ignorable_variant_predicted_hits")
			}
		}
		if gi.from != nil && gi.relevant {
			w.nontriv = true
			w.classes["pair:relevant_diff_missed:"+gi.vname] = true
		}
		return
	}
	w.log[len(w.log)-1] += fmt.Sprintf("  -> HIT %d bytes latest=%d meta=%v", len(reply.Reply.Data), reply.Reply.LatestBlock, reply.Reply.Metadata)
	if pred && predKnown {
		count(w.c, "predicted_hits")
		if gi.from != nil && !gi.relevant && gi.implSame {
			count(w.c, "ignorable_variant_predicted_hits")
		}
	}
	w.c.Class("get:hit")
	count(w.c, "hits")

	// clause 1+2: a hit must be one of the replies stored for exactly this chain / request / block, byte-identical
	w.c.Clause("hit_is_the_stored_reply_of_this_key")
	var matched *stored
	var why []string
	for _, c := range cands {
		ok, diff := replyEquals(reply, c)
		if ok {
			if matched == nil || (!allowedByHash(matched, hash) && allowedByHash(c, hash)) {
				matched = c
			}
			continue
		}
		if len(why) < 4 {
			why = append(why, fmt.Sprintf("vs set #%d: %s", c.op, diff))
		}
	}
	if matched == nil {
		// diagnose: whose reply is it?
		owner := "no stored reply of this case is byte-identical to it (corrupted?)"
		keys := make([]string, 0, len(w.entries))
		for k := range w.entries {
			keys = append(keys, k)
		}
		sort.Strings(keys)
		for _, k := range keys {
			for _, c := range w.entries[k].all {
				if ok, _ := replyEquals(reply, c); ok {
					owner = "it is byte-identical to the reply stored by a DIFFERENT key: " + c.desc
				}
			}
		}
		if !valid {
			w.fail("GetRelay returned a reply for a request whose requested block (%d) cannot denote a stored block (latest known block of chain %s: %v/%d); %s.\n get: %s",
				block, chainID, hasLat, lat, owner, desc)
		}
		if len(cands) == 0 {
			w.fail("GetRelay returned a reply although nothing is stored for this chain + request + requested block (resolved block %d); %s.\n get: %s", resolved, owner, desc)
		}
		w.fail("GetRelay returned a reply that is not byte-identical to what was stored under this key (resolved block %d): %s; %s.\n get: %s",
			resolved, strings.Join(why, "; "), owner, desc)
	}
	// clause 3: block-hash rule
	w.c.Clause("hash_rule")
	if !allowedByHash(matched, hash) { // no byte-identical stored reply of this key may be served for this block hash
		{
			w.fail("a non-finalized entry stored with block hash %x was returned for a request carrying block hash %x (nil = none).\n set: %s\n get: %s", matched.hash, hash, matched.desc, desc)
		}
	}
	if len(matched.data) > threshold {
		w.nontriv = true
		w.classes["hit:payload>1MiB:"+sizeClass(len(matched.data))] = true
	}
	w.classes["hit:payload="+sizeClass(len(matched.data))] = true
	if gi.from != nil && !gi.relevant {
		w.classes["pair:ignorable_diff_hit:"+gi.vname] = true
	}
	if block < 0 {
		w.classes["hit:special_block"] = true
	}
}

func genOptMeta(t *rapid.T) []pairingtypes.Metadata {
	n := uni(t, 3, "noptmeta")
	var out []pairingtypes.Metadata
	for i := 0; i < n; i++ {
		out = append(out, pairingtypes.Metadata{Name: pick(t, metaNames, "oname"), Value: pick(t, metaValues, "oval")})
	}
	return out
}

// latestScenario: special requested blocks (latest, pending, safe, finalized) are resolved by the cache
// with the latest block it knows FOR THAT CHAIN. Two chains know different latest blocks; the chain
// with the lower one also holds an entry at the other chain's latest block. Block numbers grow from
// case to case (above everything the random part uses) so that a latest block leaking between
// chains or cases would be the maximum and resolve to the decoy entry.
func (w *world) latestScenario(t *rapid.T, s reqSpec, fp *strings.Builder) int {
	x := int64(1)<<41 + int64(caseSeq)*64 + 32
	y := x - int64(1+uni(t, 8, "dy"))
	fin := func(l string) bool { return uni(t, 2, l) == 0 }
	pay := func() paySpec { return genPayload(t, false) }
	const longBT = int64(3600e9)
	op := 0
	hashA := pick(t, hashPool, "sc_hash")
	w.doSet(op, s, "scenario:A@X", 0, x, fin("sc_f1"), hashA, pay(), x, 0, "", longBT, false, true, nil)
	op++
	w.doSet(op, s, "scenario:B@Y", 1, y, fin("sc_f2"), hashA, pay(), y, 0, "", longBT, false, true, nil)
	op++
	w.doSet(op, s, "scenario:B@X(decoy, does not move B's latest block)", 1, x, fin("sc_f3"), hashA, pay(), 0, 0, "", longBT, false, true, nil)
	op++
	n := 2 + uni(t, 3, "sc_gets")
	for i := 0; i < n; i++ {
		special := pick(t, []int64{spectypes.LATEST_BLOCK, spectypes.LATEST_BLOCK, spectypes.PENDING_BLOCK, spectypes.SAFE_BLOCK, spectypes.FINALIZED_BLOCK, spectypes.EARLIEST_BLOCK, spectypes.NOT_APPLICABLE}, "sc_special")
		chain := 1
		if uni(t, 4, "sc_chain") == 0 {
			chain = 0
		}
		gi := getInfo{vname: fmt.Sprintf("scenario:special_block(%d)", special), from: w.sets[len(w.sets)-1]}
		w.classes["getvar:"+gi.vname] = true
		w.doGet(op, s, gi, chain, special, fin("sc_f4"), hashA, 0, "")
		op++
	}
	w.nontriv = true
	fmt.Fprintf(fp, "SC|%d|%d|%x;", x-y, n, hashA)
	return op
}

func propC36(t *rapid.T) {
	c := ev.For("C36")
	caseSeq++
	w := &world{t: t, c: c, ns: fmt.Sprintf("v%d", caseSeq), entries: map[string]*slot{}, fine: map[string]*slot{}, latest: map[string]int64{}, shared: map[string]int64{}, classes: map[string]bool{}}
	nChains := (1 + uni(t, 2, "nchains"))
	for i := 0; i < nChains; i++ {
		w.chains = append(w.chains, fmt.Sprintf("%sc%d", w.ns, i))
	}
	nBases := (1 + uni(t, 2, "nbases"))
	var bases []reqSpec
	for i := 0; i < nBases; i++ {
		bases = append(bases, genSpec(t))
	}
	allowBig := uni(t, 100, "bigroll") < 8
	nOps := (4 + uni(t, 13, "nops"))
	var fp strings.Builder

	opBase := 0
	if nChains == 2 && uni(t, 100, "latestscenario") < 18 {
		opBase = w.latestScenario(t, bases[0], &fp)
	}
	for op := opBase; op < opBase+nOps; op++ {
		isSet := op == opBase || uni(t, 100, "isset") < 40
		if isSet {
			s := pick(t, bases, "base")
			vname := "base"
			if uni(t, 100, "setvar") < 35 {
				var v variation
				s, v = varySpec(t, s, 0)
				vname = v.Name
			}
			chain := uni(t, nChains, "chain")
			block := pick(t, blockPool, "block")
			if uni(t, 40, "negset") == 0 {
				block = int64(-(1 + uni(t, 6, "negblock")))
			}
			finalized := rapid.Bool().Draw(t, "finalized")
			hash := pick(t, hashPool, "hash")
			pay := genPayload(t, allowBig && w.bigCount < 3)
			if pay.Class == "near" || pay.Class == "big" {
				w.bigCount++
			}
			latest := block
			switch uni(t, 6, "latestmode") {
			case 0:
				latest = 0
			case 1:
				latest = block + int64((1 + uni(t, 300, "dlatest")))
			case 2:
				latest = pick(t, blockPool, "latestpool")
			}
			if latest < 0 {
				latest = 0
			}
			seen := int64(0)
			switch uni(t, 4, "seenmode") {
			case 0:
				seen = maxI(block, 0)
			case 1:
				seen = pick(t, blockPool, "seenpool")
			}
			shared := pick(t, sharedPool, "shared")
			avgBT := pick(t, []int64{0, int64(1e9), int64(600e9), int64(3600e9)}, "avgbt")
			if uni(t, 3, "longttl") > 0 {
				avgBT = int64(3600e9)
			}
			nodeErr := uni(t, 20, "nodeerr") == 0
			full := uni(t, 10, "fullreply") < 7
			w.doSet(op, s, vname, chain, block, finalized, hash, pay, latest, seen, shared, avgBT, nodeErr, full, genOptMeta(t))
			fmt.Fprintf(&fp, "S|%s|%d|%d|%v|%x|%s|%s|%d|%d|%d|%s|%s;", vname, chain, block, finalized, hash, pay.Class, pay.Content, pay.Size, latest, seen, shared, s.canon())
			continue
		}
		// ---- get
		gi := getInfo{vname: "free"}
		var s reqSpec
		var chain int
		var block int64
		var finalized bool
		var hash []byte
		var shared string
		seen := int64(0)
		if len(w.sets) > 0 && uni(t, 100, "derived") < 85 {
			// a get that differs from an earlier set in exactly one respect
			from := w.sets[uni(t, len(w.sets), "from")]
			gi.from = from
			s, chain, block, finalized, hash, shared = from.spec.clone(), from.chain, from.block, from.finalized, from.hash, from.shared
			gi.implSame = true
			kind := uni(t, 100, "getvar")
			switch {
			case kind < 22:
				var v variation
				s, v = varySpec(t, s, 1)
				gi.vname, gi.relevant, gi.implSame = v.Name, v.Relevant, v.ImplSame
			case kind < 52:
				var v variation
				s, v = varySpec(t, s, 2)
				gi.vname, gi.relevant, gi.implSame = v.Name, v.Relevant, v.ImplSame
			case kind < 60 && nChains > 1:
				chain = (chain + 1) % nChains
				gi.vname, gi.relevant, gi.implSame = "chain", true, false
			case kind < 72:
				nb := block
				switch uni(t, 6, "blockvar") {
				case 0:
					nb = block + 1
				case 1:
					nb = block - 1
				case 2:
					nb = block + 256
				case 3:
					nb = block ^ (1 << 32)
				case 4:
					nb = block << 8
				default:
					nb = pick(t, blockPool, "otherblock")
				}
				if nb < 0 || nb == block {
					nb = block + 3
				}
				block = nb
				gi.vname, gi.relevant, gi.implSame = "requested_block", true, false
			case kind < 80:
				// special requested blocks: resolved by the cache with the latest block it knows for the chain
				block = pick(t, []int64{spectypes.LATEST_BLOCK, spectypes.LATEST_BLOCK, spectypes.PENDING_BLOCK, spectypes.SAFE_BLOCK, spectypes.FINALIZED_BLOCK,
					spectypes.NOT_APPLICABLE, spectypes.EARLIEST_BLOCK, -7, -100}, "special")
				lat, has := w.latest[w.chains[chain]]
				r, ok := resolveBlock(block, lat, has)
				gi.vname = fmt.Sprintf("special_block(%d)", block)
				gi.relevant = !ok || r != from.block
				gi.implSame = false
			case kind < 90:
				nh := pick(t, hashPool, "gethash")
				gi.vname = "block_hash"
				if bytes.Equal(nh, hash) && (nh == nil) == (hash == nil) {
					gi.vname = "block_hash(equal)"
				} else if !from.finalized && from.hash != nil {
					gi.relevant = true // the hash rule forbids serving this entry
					gi.implSame = false
					if nh == nil {
						gi.vname = "block_hash(none, entry has one)"
					} else {
						gi.vname = "block_hash(different)"
					}
				}
				hash = nh
			case kind < 94:
				finalized = !finalized
				gi.vname = "finalized_flag"
			case kind < 97:
				shared = pickOther(t, sharedPool, shared, "getshared")
				gi.vname = "shared_state_id"
			default:
				seen = pick(t, blockPool, "getseen")
				gi.vname = "get_seen_block"
			}
		} else {
			s = pick(t, bases, "base")
			if rapid.Bool().Draw(t, "freevar") {
				s, _ = varySpec(t, s, 0)
			}
			chain = uni(t, nChains, "chain")
			block = pick(t, blockPool, "block")
			if uni(t, 6, "freespecial") == 0 {
				block = int64(-(1 + uni(t, 7, "negblock")))
			}
			finalized = rapid.Bool().Draw(t, "finalized")
			hash = pick(t, hashPool, "hash")
			shared = pick(t, sharedPool, "shared")
			if uni(t, 4, "freeseen") == 0 {
				seen = pick(t, blockPool, "getseen")
			}
		}
		w.classes["getvar:"+gi.vname] = true
		w.doGet(op, s, gi, chain, block, finalized, hash, seen, shared)
		fmt.Fprintf(&fp, "G|%s|%d|%d|%v|%x|%d|%s|%s;", gi.vname, chain, block, finalized, hash, seen, shared, s.canon())
	}

	// Directed tail (cases that may use large payloads, 1 in 2 of them): two or three DIFFERENT
	// replies above the compression threshold are stored one after the other under different keys
	// and then all read back - an entry must not be affected by what was stored (compressed) after it.
	if allowBig && uni(t, 2, "bigtail") == 0 {
		w.classes["scenario:consecutive-compressed-entries"] = true
		base := bases[0]
		n := 2 + uni(t, 2, "bigtailn")
		first := len(w.sets)
		op := opBase + nOps
		for i := 0; i < n; i++ {
			pay := paySpec{Seed: rapid.Uint32().Draw(t, "tailseed"), Class: "big", Content: pick(t, []string{"json", "text", "json"}, "tailcontent"),
				Size: pick(t, []int{threshold + 17, threshold + 4096, threshold * 3 / 2}, "tailsize")}
			block := int64(5_000_000 + 10*i + uni(t, 5, "tailblock"))
			w.doSet(op, base, "base", 0, block, true, nil, pay, block, block, "", int64(3600e9), false, true, nil)
			fmt.Fprintf(&fp, "S|tail|%d|%s|%d;", block, pay.Content, pay.Size)
			op++
		}
		for i := first; i < len(w.sets); i++ {
			from := w.sets[i]
			gi := getInfo{vname: "exact(after-later-compressed-sets)", implSame: true, from: from}
			w.doGet(op, from.spec.clone(), gi, from.chain, from.block, from.finalized, from.hash, 0, from.shared)
			fmt.Fprintf(&fp, "G|tail|%d;", from.block)
			op++
		}
	}

	cls := make([]string, 0, len(w.classes))
	for k := range w.classes {
		cls = append(cls, k)
	}
	sort.Strings(cls)
	c.Case(w.nontriv, fp.String(), cls...)
	if w.nontriv {
		c.Sample(map[string]any{"chains": w.chains, "ops": w.log})
	}
}

func TestC36(t *testing.T) {
	c := ev.For("C36")
	c.SetRule("a case = 1-2 chain ids (fresh namespace per case on one shared in-process cache server), 1-2 structured base requests and 4-16 SetRelay/GetRelay calls; " +
		"85% of the gets are derived from an earlier set by exactly one difference (ignorable: JSON-RPC id value/position/presence, salt, seen block, request/task/tx id, request-block field; " +
		"key-relevant: method, params, nested id, batch shape, raw body, REST body id, API url, connection type, API interface, add-on, headers, extensions, chain id, requested block incl. +-1/+256/^2^32 and special values, block hash; " +
		"neutral: finalized flag, shared-state id, get seen block). 18% of the two-chain cases start with a scenario in which the chains know different latest blocks and the lower chain holds a decoy entry at the other chain's latest block, followed by gets with special requested blocks. Non-trivial = the case contains a derived get with a key-relevant difference that was evaluated against the stored entry, or a hit on a payload above the 1 MiB compression threshold. " +
		"Distinct = distinct sequence of (op kind, variation, chain, block, flags, hash, payload class/size, canonical request).")
	c.Assume(
		"JSON-RPC / Tendermint-RPC requests carry a JSON object, a non-empty JSON batch of objects, or no body (what the chain parsers accept); other interfaces carry arbitrary bodies",
		"block hashes given to the cache are absent or non-empty; block numbers are below 2^53 (the cache computes max() in float64)",
		"handlers are called in-process one after the other (as the repository's cache tests do), waiting for ristretto to apply writes after every SetRelay (hook VerifWaitForWrites)",
		"a cache miss is never a violation (eviction, TTL, seen-block consistency rule); misses against the model's prediction are only counted, and the run is inconclusive if more than 10% of the predicted hits miss",
		"the reply signature (Sig) is deliberately cleared by the cache and is not compared; Data, LatestBlock, FinalizedBlocksHashes, SigBlocks, Metadata and OptionalMetadata are",
		"header order is not varied; requests that differ only in the position or presence of the JSON-RPC id member are the same request for the model (a miss is fine, a hit is fine)",
	)
	rapid.Check(t, propC36)
	if t.Failed() {
		return
	}
	pred, missed := stat["predicted_hits"], stat["predicted_hit_missed"]
	ipred, imiss := stat["ignorable_variant_predicted_hits"], stat["ignorable_variant_missed"]
	if pred >= 100 && missed*10 > pred {
		t.Fatalf("%s", ev.HarnessError("C36 vacuity guard: %d of %d gets that should hit according to the model missed; the check cannot see wrong replies if the cache (nearly) never answers", missed, pred))
	}
	if ipred >= 50 && imiss*10 > ipred {
		t.Fatalf("%s", ev.HarnessError("C36 vacuity guard: %d of %d gets that differ from a stored request only in ignorable fields (id, salt, seen block, request/task/tx ids) missed", imiss, ipred))
	}
}
