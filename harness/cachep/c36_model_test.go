package cachep

import (
	"bytes"
	"compress/gzip"
	"encoding/binary"
	"encoding/hex"
	"fmt"
	"strings"

	pairingtypes "github.com/lavanet/lava/v5/x/pairing/types"
	spectypes "github.com/lavanet/lava/v5/x/spec/types"
	"pgregory.net/rapid"
)

// ---- structured requests --------------------------------------------------------------------
//
// A request is generated in structured form so that the reference model can decide "same request
// ignoring JSON-RPC id, salt, seen block and request/task/tx ids" WITHOUT looking at how the
// implementation hashes: canon() is built from the structure, never from HashCacheRequest.

type rpcCall struct {
	Method  string
	PForm   int    // params form
	PN      int    // number inside the params form
	ID      string // raw JSON of the id, "" = no id member
	IDFirst bool   // id member right after "jsonrpc" (else last)
}

type reqSpec struct {
	Conn, URL, Iface string
	Kind             string // "obj" | "batch" | "raw" | "empty"
	Calls            []rpcCall
	Raw              string
	Block            int64 // RelayPrivateData.RequestBlock (the cache gets the requested block separately)
	Salt             []byte
	Seen             int64
	ReqID            string
	HasTask, HasTx   bool
	TaskID, TxID     string
	Meta             [][2]string
	MetaNil          bool // nil instead of empty slice when there are no headers
	Addon            string
	Ext              []string
}

func (s reqSpec) clone() reqSpec {
	c := s
	c.Calls = append([]rpcCall(nil), s.Calls...)
	c.Salt = append([]byte(nil), s.Salt...)
	if s.Salt == nil {
		c.Salt = nil
	}
	c.Meta = append([][2]string(nil), s.Meta...)
	c.Ext = append([]string(nil), s.Ext...)
	return c
}

func jsonLike(iface string) bool {
	return iface == spectypes.APIInterfaceJsonRPC || iface == spectypes.APIInterfaceTendermintRPC
}

func paramsText(form, n int) string {
	switch form {
	case 0:
		return `[]`
	case 1:
		return fmt.Sprintf(`["0x%x",false]`, n)
	case 2:
		return fmt.Sprintf(`{"id":%d,"x":1}`, n)
	case 3:
		return fmt.Sprintf(`[{"id":%d},"latest"]`, n)
	case 4:
		return fmt.Sprintf(`{"a":{"id":%d}}`, n)
	default:
		return fmt.Sprintf(`["%d","id"]`, n)
	}
}

const nParamForms = 6

func paramsHasNestedID(form int) bool { return form == 2 || form == 3 || form == 4 }

func (c rpcCall) text() string {
	var b strings.Builder
	b.WriteString(`{"jsonrpc":"2.0",`)
	if c.ID != "" && c.IDFirst {
		b.WriteString(`"id":` + c.ID + `,`)
	}
	b.WriteString(`"method":"` + c.Method + `","params":` + paramsText(c.PForm, c.PN))
	if c.ID != "" && !c.IDFirst {
		b.WriteString(`,"id":` + c.ID)
	}
	b.WriteString(`}`)
	return b.String()
}

func (s reqSpec) data() []byte {
	switch s.Kind {
	case "obj":
		return []byte(s.Calls[0].text())
	case "batch":
		parts := make([]string, len(s.Calls))
		for i, c := range s.Calls {
			parts[i] = c.text()
		}
		return []byte("[" + strings.Join(parts, ",") + "]")
	case "raw":
		return []byte(s.Raw)
	}
	return nil
}

func (s reqSpec) build() *pairingtypes.RelayPrivateData {
	r := &pairingtypes.RelayPrivateData{
		ConnectionType: s.Conn,
		ApiUrl:         s.URL,
		Data:           s.data(),
		RequestBlock:   s.Block,
		ApiInterface:   s.Iface,
		Salt:           append([]byte(nil), s.Salt...),
		Addon:          s.Addon,
		SeenBlock:      s.Seen,
		RequestId:      s.ReqID,
	}
	if s.Salt == nil {
		r.Salt = nil
	}
	if len(s.Meta) > 0 || !s.MetaNil {
		r.Metadata = make([]pairingtypes.Metadata, 0, len(s.Meta))
		for _, m := range s.Meta {
			r.Metadata = append(r.Metadata, pairingtypes.Metadata{Name: m[0], Value: m[1]})
		}
	}
	if len(s.Ext) > 0 {
		r.Extensions = append([]string(nil), s.Ext...)
	}
	if s.HasTask {
		r.XTaskId = &pairingtypes.RelayPrivateData_TaskId{TaskId: s.TaskID}
	}
	if s.HasTx {
		r.XTxId = &pairingtypes.RelayPrivateData_TxId{TxId: s.TxID}
	}
	return r
}

func cloneRelayData(r *pairingtypes.RelayPrivateData) *pairingtypes.RelayPrivateData {
	c := *r
	if r.Data != nil {
		c.Data = append([]byte{}, r.Data...)
	}
	if r.Salt != nil {
		c.Salt = append([]byte{}, r.Salt...)
	}
	if r.Metadata != nil {
		c.Metadata = append([]pairingtypes.Metadata{}, r.Metadata...)
	}
	if r.Extensions != nil {
		c.Extensions = append([]string{}, r.Extensions...)
	}
	if v, ok := r.XTaskId.(*pairingtypes.RelayPrivateData_TaskId); ok && v != nil {
		c.XTaskId = &pairingtypes.RelayPrivateData_TaskId{TaskId: v.TaskId}
	}
	if v, ok := r.XTxId.(*pairingtypes.RelayPrivateData_TxId); ok && v != nil {
		c.XTxId = &pairingtypes.RelayPrivateData_TxId{TxId: v.TxId}
	}
	return &c
}

// canon is the statement's notion of "the same request": everything except JSON-RPC id (for the
// JSON-RPC based interfaces), salt, seen block, request/task/tx ids; the requested block and the
// chain are added by the caller. Never finer than the implementation on the generated domain.
func (s reqSpec) canon() string {
	var b strings.Builder
	b.WriteString(s.Iface + "\x1f" + s.Conn + "\x1f" + s.URL + "\x1f" + s.Addon + "\x1f")
	b.WriteString(strings.Join(s.Ext, "\x1e") + "\x1f")
	for _, m := range s.Meta {
		b.WriteString(m[0] + "\x1d" + m[1] + "\x1e")
	}
	b.WriteString("\x1f")
	switch {
	case s.Kind == "empty":
		b.WriteString("E")
	case jsonLike(s.Iface) && (s.Kind == "obj" || s.Kind == "batch"):
		b.WriteString(strings.ToUpper(s.Kind[:1]))
		for _, c := range s.Calls {
			b.WriteString(c.Method + "\x1d" + paramsText(c.PForm, c.PN) + "\x1e")
		}
	default:
		b.WriteString("R" + hex.EncodeToString(s.data()))
	}
	return b.String()
}

// fineCanon refines canon by what the unchanged implementation is known to keep apart although the
// statement does not (position / presence of the id member). Used ONLY for the hit-rate statistics.
func (s reqSpec) fineCanon() string {
	f := s.canon()
	if jsonLike(s.Iface) && (s.Kind == "obj" || s.Kind == "batch") {
		for _, c := range s.Calls {
			if c.ID != "" && c.IDFirst {
				f += "f"
			} else {
				f += "l"
			}
		}
	}
	return f
}

func (s reqSpec) summary() string {
	d := s.data()
	if len(d) > 160 {
		d = d[:160]
	}
	return fmt.Sprintf("{iface=%q conn=%q url=%q data=%q reqBlock=%d salt=%x seen=%d reqid=%q task=%v/%q tx=%v/%q meta=%v addon=%q ext=%v}",
		s.Iface, s.Conn, s.URL, d, s.Block, s.Salt, s.Seen, s.ReqID, s.HasTask, s.TaskID, s.HasTx, s.TxID, s.Meta, s.Addon, s.Ext)
}

// ---- generators ------------------------------------------------------------------------------

var (
	methodPool = []string{"eth_call", "eth_getBalance", "eth_blockNumber", "status", "abci_query", "debug_traceCall", "id", "eth_call2"}
	idPool     = []string{"0", "1", "2", "7", "-3", "99999999999", `"a"`, `"1"`, `"id"`, `"x\"y"`, `"}{"`, `"a,\"id\":4"`, "null"}
	urlPool    = []string{"", "/", "/cosmos/bank/v1beta1/balances/abc", "/cosmos/bank/v1beta1/balances/abd", "/block?height=5", "/block?height=6"}
	connPool   = []string{"POST", "GET", "", "grpc"}
	ifacePool  = []string{spectypes.APIInterfaceJsonRPC, spectypes.APIInterfaceJsonRPC, spectypes.APIInterfaceTendermintRPC, spectypes.APIInterfaceRest, spectypes.APIInterfaceGrpc}
	rawPool    = []string{`{"id":5,"q":"x"}`, `{"id":6,"q":"x"}`, `{"q":"x","id":5}`, "\x00\x01\x02", "abc", "ab", "a", `{"jsonrpc":"2.0","id":1,"method":"m","params":[]}`, `{"jsonrpc":"2.0","id":2,"method":"m","params":[]}`, "\x0a\x03abc\x12\x00"}
	metaNames  = []string{"x-header", "lava-x", "X-Header", "id"}
	metaValues = []string{"a", "b", "", "1"}
	addonPool  = []string{"", "debug", "trace", "archive"}
	extPool    = []string{"archive", "debug", "x"}
	blockPool  = []int64{0, 1, 2, 100, 101, 255, 256, 257, 1000, 65536, 1 << 32, 1<<32 + 100, 1<<32 + 256, 1 << 40}
	hashPool   = [][]byte{nil, nil, {1, 2, 3}, {1, 2, 4}, {1, 2}, {1, 2, 3, 0}, bytes.Repeat([]byte{0xab}, 32), append(bytes.Repeat([]byte{0xab}, 31), 0xac), {0}}
	sharedPool = []string{"", "", "u1", "u2"}
	// bodies that differ only in their "id" member (the JSON-RPC formatter would make them equal)
	rawIDSibling = map[string]string{
		rawPool[0]: rawPool[1], rawPool[1]: rawPool[0],
		rawPool[7]: rawPool[8], rawPool[8]: rawPool[7],
	}
	dataVariations = map[string]bool{"method": true, "params": true, "params_value_or_nested_id": true, "batch_extra_call": true, "batch_order": true,
		"batch_vs_single": true, "raw_data": true, "non_jsonrpc_body_id": true, "rest_body_id": true}
)

// rapid's integer generators are log-uniform (strongly biased towards small values), which is
// wrong for "x% of the cases" decisions. uni mixes one biased draw into a (nearly) uniform value;
// it stays a pure function of the drawn bit stream, so shrinking and fail files keep working.
func uni(t *rapid.T, n int, label string) int {
	v := rapid.Uint64().Draw(t, label) + 0x9E3779B97F4A7C15
	v ^= v >> 33
	v *= 0xff51afd7ed558ccd
	v ^= v >> 33
	v *= 0xc4ceb9fe1a85ec53
	v ^= v >> 33
	return int(v % uint64(n))
}

// roll returns a nearly uniform value in 0..99.
func roll(t *rapid.T, label string) int { return uni(t, 100, label) }

func pick[T any](t *rapid.T, pool []T, label string) T {
	return pool[uni(t, len(pool), label)]
}

func pickOther(t *rapid.T, pool []string, cur string, label string) string {
	for i := 0; i < 50; i++ {
		v := pick(t, pool, label)
		if v != cur {
			return v
		}
	}
	return cur + "_"
}

func genCall(t *rapid.T) rpcCall {
	c := rpcCall{
		Method:  pick(t, methodPool, "method"),
		PForm:   uni(t, nParamForms, "pform"),
		PN:      uni(t, 10, "pn"),
		IDFirst: rapid.Bool().Draw(t, "idfirst"),
	}
	if uni(t, 10, "hasid") > 0 {
		c.ID = pick(t, idPool, "id")
	}
	return c
}

func genSpec(t *rapid.T) reqSpec {
	s := reqSpec{
		Conn:  pick(t, connPool, "conn"),
		URL:   pick(t, urlPool, "url"),
		Iface: pick(t, ifacePool, "iface"),
		Addon: pick(t, addonPool, "addon"),
	}
	roll := uni(t, 100, "kind")
	_ = roll
	switch {
	case jsonLike(s.Iface):
		switch {
		case roll < 60:
			s.Kind = "obj"
		case roll < 88:
			s.Kind = "batch"
		default:
			s.Kind = "empty"
		}
	case s.Iface == spectypes.APIInterfaceRest:
		switch {
		case roll < 50:
			s.Kind = "raw"
		case roll < 75:
			s.Kind = "obj" // a JSON-RPC looking body sent over REST: its "id" is NOT a JSON-RPC id
		default:
			s.Kind = "empty"
		}
	default:
		if roll < 85 {
			s.Kind = "raw"
		} else {
			s.Kind = "empty"
		}
	}
	switch s.Kind {
	case "obj":
		s.Calls = []rpcCall{genCall(t)}
	case "batch":
		n := (1 + uni(t, 3, "nbatch"))
		for i := 0; i < n; i++ {
			s.Calls = append(s.Calls, genCall(t))
		}
	case "raw":
		s.Raw = pick(t, rawPool, "raw")
	}
	s.Block = pick(t, blockPool, "reqblock")
	if uni(t, 6, "specialreqblock") == 0 {
		s.Block = int64(-(1 + uni(t, 6, "neg")))
	}
	if uni(t, 5, "hassalt") > 0 {
		s.Salt = rapid.SliceOfN(rapid.Byte(), 1, 8).Draw(t, "salt")
	}
	s.Seen = int64(uni(t, 4, "seenk")) * 500
	if rapid.Bool().Draw(t, "hasreqid") {
		s.ReqID = fmt.Sprintf("req-%d", uni(t, 100, "reqid"))
	}
	if rapid.Bool().Draw(t, "hastask") {
		s.HasTask, s.TaskID = true, fmt.Sprintf("task-%d", uni(t, 100, "taskid"))
	}
	if rapid.Bool().Draw(t, "hastx") {
		s.HasTx, s.TxID = true, fmt.Sprintf("tx-%d", uni(t, 100, "txid"))
	}
	nm := uni(t, 3, "nmeta")
	for i := 0; i < nm; i++ {
		s.Meta = append(s.Meta, [2]string{pick(t, metaNames, "mname"), pick(t, metaValues, "mval")})
	}
	s.MetaNil = rapid.Bool().Draw(t, "metanil")
	ne := uni(t, 3, "next")
	for i := 0; i < ne; i++ {
		s.Ext = append(s.Ext, pick(t, extPool, "ext"))
	}
	return s
}

// variation: one single-field difference applied to a request.
type variation struct {
	Name     string
	Relevant bool // changes the statement's key
	ImplSame bool // the unchanged implementation is expected to map both to the same key (stats only)
}

type varFn struct {
	v     variation
	apply func(t *rapid.T, s *reqSpec)
}

func specVariations(s reqSpec) []varFn {
	var out []varFn
	add := func(name string, relevant, implSame bool, f func(t *rapid.T, s *reqSpec)) {
		out = append(out, varFn{variation{name, relevant, implSame}, f})
	}
	hasCalls := s.Kind == "obj" || s.Kind == "batch"
	anyID := false
	for _, c := range s.Calls {
		if c.ID != "" {
			anyID = true
		}
	}
	callIdx := func(t *rapid.T, s *reqSpec, needID bool) int {
		for i := 0; i < 50; i++ {
			k := uni(t, len(s.Calls), "callidx")
			if !needID || s.Calls[k].ID != "" {
				return k
			}
		}
		for k := range s.Calls {
			if s.Calls[k].ID != "" {
				return k
			}
		}
		return 0
	}
	// --- fields the statement tells the cache to ignore
	add("same", false, true, func(t *rapid.T, s *reqSpec) {})
	if hasCalls && anyID {
		name, relevant := "jsonrpc_id", false
		if !jsonLike(s.Iface) {
			name, relevant = "rest_body_id", true // not a JSON-RPC id: part of the request
		}
		add(name, relevant, !relevant, func(t *rapid.T, s *reqSpec) {
			k := callIdx(t, s, true)
			s.Calls[k].ID = pickOther(t, idPool, s.Calls[k].ID, "newid")
		})
		if jsonLike(s.Iface) {
			add("jsonrpc_id_position", false, false, func(t *rapid.T, s *reqSpec) {
				k := callIdx(t, s, true)
				s.Calls[k].IDFirst = !s.Calls[k].IDFirst
			})
		}
	}
	if hasCalls && jsonLike(s.Iface) {
		add("jsonrpc_id_presence", false, false, func(t *rapid.T, s *reqSpec) {
			k := callIdx(t, s, false)
			if s.Calls[k].ID == "" {
				s.Calls[k].ID = pick(t, idPool, "newid")
			} else {
				s.Calls[k].ID = ""
			}
		})
	}
	add("salt", false, true, func(t *rapid.T, s *reqSpec) {
		if s.Salt == nil || rapid.Bool().Draw(t, "saltmode") {
			s.Salt = append(append([]byte{}, s.Salt...), byte(uni(t, 256, "saltb")))
		} else {
			s.Salt = nil
		}
	})
	add("seen_block", false, true, func(t *rapid.T, s *reqSpec) { s.Seen += int64((1 + uni(t, 1000, "dseen"))) })
	add("request_id", false, true, func(t *rapid.T, s *reqSpec) { s.ReqID += "x" })
	add("task_id", false, true, func(t *rapid.T, s *reqSpec) {
		if s.HasTask && rapid.Bool().Draw(t, "taskmode") {
			s.HasTask, s.TaskID = false, ""
		} else {
			s.HasTask, s.TaskID = true, s.TaskID+"y"
		}
	})
	add("tx_id", false, true, func(t *rapid.T, s *reqSpec) {
		if s.HasTx && rapid.Bool().Draw(t, "txmode") {
			s.HasTx, s.TxID = false, ""
		} else {
			s.HasTx, s.TxID = true, s.TxID+"z"
		}
	})
	add("request_block_field", false, true, func(t *rapid.T, s *reqSpec) { s.Block = pick(t, blockPool, "reqblock2") + 7 })
	// --- key-relevant fields
	if hasCalls {
		add("method", true, false, func(t *rapid.T, s *reqSpec) {
			k := callIdx(t, s, false)
			s.Calls[k].Method = pickOther(t, methodPool, s.Calls[k].Method, "newmethod")
		})
		add("params", true, false, func(t *rapid.T, s *reqSpec) {
			k := callIdx(t, s, false)
			s.Calls[k].PForm = (s.Calls[k].PForm + (1 + uni(t, nParamForms-1, "dform"))) % nParamForms
		})
		add("params_value_or_nested_id", true, false, func(t *rapid.T, s *reqSpec) {
			k := callIdx(t, s, false)
			if s.Calls[k].PForm == 0 {
				s.Calls[k].PForm = (2 + uni(t, 3, "nform")) // [] has no number: move to a nested-id form
			} else {
				s.Calls[k].PN = (s.Calls[k].PN + (1 + uni(t, 9, "dn"))) % 10
			}
		})
	}
	if s.Kind == "batch" {
		add("batch_extra_call", true, false, func(t *rapid.T, s *reqSpec) { s.Calls = append(s.Calls, genCall(t)) })
		if len(s.Calls) >= 2 && (s.Calls[0].Method != s.Calls[1].Method || s.Calls[0].PForm != s.Calls[1].PForm || s.Calls[0].PN != s.Calls[1].PN) {
			add("batch_order", true, false, func(t *rapid.T, s *reqSpec) { s.Calls[0], s.Calls[1] = s.Calls[1], s.Calls[0] })
		}
		if len(s.Calls) == 1 {
			add("batch_vs_single", true, false, func(t *rapid.T, s *reqSpec) { s.Kind = "obj" })
		}
	}
	if s.Kind == "obj" && jsonLike(s.Iface) {
		add("batch_vs_single", true, false, func(t *rapid.T, s *reqSpec) { s.Kind = "batch" })
	}
	if s.Kind == "raw" {
		add("raw_data", true, false, func(t *rapid.T, s *reqSpec) { s.Raw = pickOther(t, rawPool, s.Raw, "newraw") })
		if sib, ok := rawIDSibling[s.Raw]; ok {
			// a body of a non JSON-RPC interface whose "id" member changes: a different request
			add("non_jsonrpc_body_id", true, false, func(t *rapid.T, s *reqSpec) { s.Raw = sib })
		}
	}
	add("api_url", true, false, func(t *rapid.T, s *reqSpec) { s.URL = pickOther(t, urlPool, s.URL, "newurl") })
	add("connection_type", true, false, func(t *rapid.T, s *reqSpec) { s.Conn = pickOther(t, connPool, s.Conn, "newconn") })
	add("api_interface", true, false, func(t *rapid.T, s *reqSpec) {
		old := s.Iface
		s.Iface = pickOther(t, ifacePool, s.Iface, "newiface")
		// keep the data inside the generated domain: the JSON-RPC interfaces only carry objects/batches/empty
		if jsonLike(s.Iface) && s.Kind == "raw" {
			s.Iface = old + "x"
		}
	})
	add("addon", true, false, func(t *rapid.T, s *reqSpec) { s.Addon = pickOther(t, addonPool, s.Addon, "newaddon") })
	add("header_add", true, false, func(t *rapid.T, s *reqSpec) {
		s.Meta = append(s.Meta, [2]string{pick(t, metaNames, "mname2"), pick(t, metaValues, "mval2")})
	})
	if len(s.Meta) > 0 {
		add("header_value", true, false, func(t *rapid.T, s *reqSpec) {
			k := uni(t, len(s.Meta), "midx")
			s.Meta[k][1] = pickOther(t, metaValues, s.Meta[k][1], "newmval")
		})
		add("header_name", true, false, func(t *rapid.T, s *reqSpec) {
			k := uni(t, len(s.Meta), "midx")
			s.Meta[k][0] = pickOther(t, metaNames, s.Meta[k][0], "newmname")
		})
		add("header_del", true, false, func(t *rapid.T, s *reqSpec) { s.Meta = s.Meta[:len(s.Meta)-1] })
	}
	add("extension_add", true, false, func(t *rapid.T, s *reqSpec) { s.Ext = append(s.Ext, pick(t, extPool, "ext2")) })
	if len(s.Ext) > 0 {
		add("extension_change", true, false, func(t *rapid.T, s *reqSpec) {
			k := uni(t, len(s.Ext), "eidx")
			s.Ext[k] = pickOther(t, extPool, s.Ext[k], "newext")
		})
		add("extension_del", true, false, func(t *rapid.T, s *reqSpec) { s.Ext = s.Ext[:len(s.Ext)-1] })
	}
	return out
}

// varySpec applies exactly one variation; wantRelevant selects the family (nil = any).
func varySpec(t *rapid.T, base reqSpec, family int) (reqSpec, variation) {
	all := specVariations(base)
	var pool []varFn
	for _, v := range all {
		switch family {
		case 1: // ignorable only
			if !v.v.Relevant {
				pool = append(pool, v)
			}
		case 2: // relevant only
			if v.v.Relevant {
				pool = append(pool, v)
			}
		default:
			pool = append(pool, v)
		}
	}
	if family == 2 {
		// half of the key-relevant variations touch the body (method, params, nested ids, batch shape, raw body)
		var body, envelope []varFn
		for _, v := range pool {
			if dataVariations[v.v.Name] {
				body = append(body, v)
			} else {
				envelope = append(envelope, v)
			}
		}
		if len(body) > 0 && uni(t, 2, "bodyvar") == 0 {
			pool = body
		} else {
			pool = envelope
		}
	}
	v := pool[uni(t, len(pool), "variation")]
	s := base.clone()
	v.apply(t, &s)
	vv := v.v
	// safety net: the label must agree with the model's own equality
	if vv.Relevant == (s.canon() == base.canon()) {
		vv.Relevant = s.canon() != base.canon()
		vv.Name += "(relabelled)"
		vv.ImplSame = false
	}
	return s, vv
}

// ---- payloads --------------------------------------------------------------------------------

const threshold = 1024 * 1024 // common.CompressionThreshold, restated from the documentation (1 MB)

type paySpec struct {
	Class   string // empty tiny small near big
	Size    int
	Content string // zeros json text prng gzstored gzmagic
	Seed    uint32
}

func genPayload(t *rapid.T, allowBig bool) paySpec {
	p := paySpec{Seed: rapid.Uint32().Draw(t, "payseed")}
	r := uni(t, 100, "payclass")
	switch {
	case allowBig && r < 30:
		p.Class = "near"
		p.Size = threshold - 16 + uni(t, 33, "neard")
	case allowBig && r < 50:
		p.Class = "big"
		p.Size = pick(t, []int{threshold + 17, threshold + 4096, threshold * 3 / 2, 2*threshold + 3, 3 * threshold, 3*threshold + 1}, "bigsize")
	default:
		r2 := uni(t, 100, "smallclass")
		switch {
		case r2 < 12:
			p.Class, p.Size = "empty", 0
		case r2 < 55:
			p.Class, p.Size = "tiny", 1+uni(t, 64, "tinysize")
		default:
			p.Class, p.Size = "small", 65+uni(t, 4032, "smallsize")
		}
	}
	contents := []string{"json", "json", "text", "zeros", "prng", "gzstored", "gzmagic"}
	p.Content = pick(t, contents, "paycontent")
	if p.Class == "near" && p.Content == "gzstored" {
		p.Content = "json" // gzstored sizes are approximate; near-threshold sizes must be exact
	}
	if p.Class == "big" && p.Content == "prng" && p.Size > 2*threshold {
		p.Size = threshold * 3 / 2 // incompressible entries stay in memory uncompressed: keep them moderate
	}
	return p
}

func fillPattern(buf []byte, content string, seed uint32) {
	switch content {
	case "zeros":
	case "json":
		unit := []byte(fmt.Sprintf(`{"jsonrpc":"2.0","id":%d,"result":{"hash":"0x%08x","number":"0x%x"}},`, seed%97, seed, seed%100000))
		for i := 0; i < len(buf); i += len(unit) {
			copy(buf[i:], unit)
		}
	case "text":
		unit := []byte(fmt.Sprintf("line %d of text\n", seed%1000))
		for i := 0; i < len(buf); i += len(unit) {
			copy(buf[i:], unit)
		}
	default: // prng: xorshift64*, incompressible
		x := uint64(seed)*2654435761 + 0x9E3779B97F4A7C15
		var w [8]byte
		for i := 0; i < len(buf); i += 8 {
			x ^= x >> 12
			x ^= x << 25
			x ^= x >> 27
			binary.LittleEndian.PutUint64(w[:], x*2685821657736338717)
			copy(buf[i:], w[:])
		}
	}
}

// bytes builds the payload deterministically from the spec and embeds tag (identifies the set op).
func (p paySpec) bytes(tag string) []byte {
	if p.Size == 0 {
		return []byte{}
	}
	switch p.Content {
	case "gzstored":
		// a payload that is itself a valid gzip stream (stored blocks, so still very compressible)
		n := p.Size - 64
		if n < 1 {
			n = 1
		}
		in := make([]byte, n)
		fillPattern(in, "text", p.Seed)
		copy(in, tag)
		var b bytes.Buffer
		w, _ := gzip.NewWriterLevel(&b, gzip.NoCompression)
		_, _ = w.Write(in)
		_ = w.Close()
		return b.Bytes()
	case "gzmagic":
		buf := make([]byte, p.Size)
		fillPattern(buf, "json", p.Seed)
		copy(buf, []byte{0x1f, 0x8b, 0x08, 0x00, 0, 0, 0, 0, 0x00, 0xff})
		if len(buf) > 10 {
			copy(buf[10:], tag)
		}
		return buf
	}
	buf := make([]byte, p.Size)
	fillPattern(buf, p.Content, p.Seed)
	copy(buf, tag)
	return buf
}

func sizeClass(n int) string {
	switch {
	case n == 0:
		return "0B"
	case n <= 64:
		return "<=64B"
	case n <= 4096:
		return "<=4KiB"
	case n < threshold-16:
		return "<1MiB-16"
	case n <= threshold:
		return "1MiB-16..1MiB"
	case n <= threshold+16:
		return "1MiB+1..1MiB+16"
	case n <= 2*threshold:
		return "<=2MiB"
	default:
		return ">2MiB"
	}
}
