package limiter

import (
	"context"
	"encoding/json"
	"errors"
	"fmt"
	"os"
	"path/filepath"
	"sort"
	"strings"
	"sync"
	"sync/atomic"
	"testing"
	"time"

	"github.com/lavanet/lava/v5/protocol/rpcprovider"
	"pgregory.net/rapid"

	"verifharness/internal/ev"
)

// ---- C41: provider load limiting admits, runs and answers each request once -------------------
//
// Stress + ledger: rapid draws a limiter configuration and one script per request (bucket inputs,
// arrival offset, execution time, caller cancellation offset, result of the run); the requests are
// real goroutines calling ResourceLimiter.Acquire; the binary is built with -race. All oracles are
// evaluated on what was observed (ledger), none depends on how long something took, except the
// generous liveness waits.

const findingCtxEnds = "c41-ctx-ends-while-executing"

type limCfg struct {
	Threshold      uint64 `json:"cu_threshold"`
	HeavyMax       int64  `json:"heavy_max"`
	QueueSize      int    `json:"heavy_queue"`
	NormalMax      int64  `json:"normal_max"`
	QueueTimeoutUs int    `json:"queue_timeout_us"`
}

type reqScript struct {
	ID       int    `json:"id"`
	CU       uint64 `json:"cu"`
	Method   string `json:"method"`
	ArriveUs int    `json:"arrive_us"`
	ExecUs   int    `json:"exec_us"`
	CancelUs int    `json:"cancel_us"` // -1: the caller never cancels; else offset after arrival
	RetErr   bool   `json:"run_returns_error"`
}

type caseScript struct {
	Aligned bool        `json:"aligned_mode,omitempty"`
	Cfg     limCfg      `json:"config"`
	Reqs    []reqScript `json:"requests"`
}

// isHeavy restates the documented classification (resource_limiter.go, selectBucket comment and
// the --resource-limiter flags): batch methods (containing '&'), CU >= threshold, or a debug_/trace_
// method prefix (case-insensitive) are heavy; everything else is normal.
func isHeavy(cfg limCfg, cu uint64, method string) bool {
	if strings.Contains(method, "&") {
		return true
	}
	if cu >= cfg.Threshold {
		return true
	}
	l := strings.ToLower(method)
	return strings.HasPrefix(l, "debug_") || strings.HasPrefix(l, "trace_")
}

type runErr struct{ id int }

func (e *runErr) Error() string { return fmt.Sprintf("result of the run of request %d", e.id) }

type reqRec struct {
	script   reqScript
	heavy    bool
	result   error // what the run returns (nil or a unique *runErr)
	execs    int32
	returned int32
	got      error
	cancelAt int64 // ledger seq of the cancel call (0 = not cancelled)
}

type event struct {
	Seq  int    `json:"seq"`
	AtUs int64  `json:"at_us"`
	What string `json:"what"`
	Req  int    `json:"req"`
	Note string `json:"note,omitempty"`
}

type ledger struct {
	mu     sync.Mutex
	start  time.Time
	events []event
}

func (l *ledger) add(what string, req int, note string) int {
	l.mu.Lock()
	defer l.mu.Unlock()
	e := event{Seq: len(l.events) + 1, AtUs: time.Since(l.start).Microseconds(), What: what, Req: req, Note: note}
	l.events = append(l.events, e)
	return e.Seq
}

func (l *ledger) dump(max int) string {
	l.mu.Lock()
	defer l.mu.Unlock()
	var b strings.Builder
	ev := l.events
	if len(ev) > max {
		fmt.Fprintf(&b, "(%d events, last %d shown)\n", len(ev), max)
		ev = ev[len(ev)-max:]
	}
	for _, e := range ev {
		fmt.Fprintf(&b, "%5d %8dus %-12s req=%d %s\n", e.Seq, e.AtUs, e.What, e.Req, e.Note)
	}
	return b.String()
}

type outcome struct {
	violations []string
	known      int // observations that match the signature of the listed known finding (excluded)
	executed   int
	notRun     int
	queued     uint64
	rejected   uint64
	timeouts   uint64
	cancelled  int
	maxHeavy   int64
	maxNormal  int64
	inconcl    string
	log        string
}

var limiterSeq int64

// runScript executes one case on a fresh limiter and evaluates every oracle clause.
func runScript(cs caseScript, c *ev.Collector) outcome {
	var out outcome
	name := fmt.Sprintf("verif-c41-%d-%d", os.Getpid(), atomic.AddInt64(&limiterSeq, 1))
	rl := rpcprovider.NewResourceLimiter(true, name, cs.Cfg.Threshold, cs.Cfg.HeavyMax, cs.Cfg.QueueSize, cs.Cfg.NormalMax)
	rl.VerifLimiterSetQueueTimeout(rpcprovider.BucketHeavy, time.Duration(cs.Cfg.QueueTimeoutUs)*time.Microsecond)

	lg := &ledger{start: time.Now()}
	recs := make([]*reqRec, len(cs.Reqs))
	var inflight [2]int64 // 0 heavy, 1 normal
	var maxSeen [2]int64
	var running int64
	limits := [2]int64{cs.Cfg.HeavyMax, cs.Cfg.NormalMax}
	var vmu sync.Mutex
	addViolation := func(s string) {
		vmu.Lock()
		out.violations = append(out.violations, s)
		vmu.Unlock()
	}

	var wg sync.WaitGroup
	for i, rs := range cs.Reqs {
		rec := &reqRec{script: rs, heavy: isHeavy(cs.Cfg, rs.CU, rs.Method)}
		if rs.RetErr {
			rec.result = &runErr{rs.ID}
		}
		recs[i] = rec
		wg.Add(1)
		go func(rec *reqRec) {
			defer wg.Done()
			rs := rec.script
			if d := time.Duration(rs.ArriveUs)*time.Microsecond - time.Since(lg.start); d > 0 {
				time.Sleep(d)
			}
			ctx, cancel := context.WithCancel(context.Background())
			defer cancel()
			if rs.CancelUs >= 0 {
				tm := time.AfterFunc(time.Duration(rs.CancelUs)*time.Microsecond, func() {
					atomic.StoreInt64(&rec.cancelAt, int64(lg.add("cancel", rs.ID, "")))
					cancel()
				})
				defer tm.Stop()
			}
			b := 1
			if rec.heavy {
				b = 0
			}
			lg.add("arrive", rs.ID, fmt.Sprintf("heavy=%v", rec.heavy))
			err := rl.Acquire(ctx, rs.CU, rs.Method, func() error {
				n := atomic.AddInt32(&rec.execs, 1)
				atomic.AddInt64(&running, 1)
				cur := atomic.AddInt64(&inflight[b], 1)
				for {
					m := atomic.LoadInt64(&maxSeen[b])
					if cur <= m || atomic.CompareAndSwapInt64(&maxSeen[b], m, cur) {
						break
					}
				}
				lg.add("exec-start", rs.ID, fmt.Sprintf("run#%d concurrent=%d", n, cur))
				if cur > limits[b] {
					addViolation(fmt.Sprintf("%d %s requests executing at once (request %d just started) although the limit is %d",
						cur, map[int]string{0: "heavy", 1: "normal"}[b], rs.ID, limits[b]))
				}
				if rs.ExecUs > 0 {
					time.Sleep(time.Duration(rs.ExecUs) * time.Microsecond)
				}
				atomic.AddInt64(&inflight[b], -1)
				lg.add("exec-end", rs.ID, "")
				atomic.AddInt64(&running, -1)
				return rec.result
			})
			rec.got = err
			lg.add("return", rs.ID, fmt.Sprintf("err=%v", err))
			atomic.StoreInt32(&rec.returned, 1)
		}(rec)
	}

	// ---- wait for the load to stop (generous, one-sided)
	done := make(chan struct{})
	go func() { wg.Wait(); close(done) }()
	select {
	case <-done:
	case <-time.After(60 * time.Second):
		var stuck []int
		for _, r := range recs {
			if atomic.LoadInt32(&r.returned) == 0 {
				stuck = append(stuck, r.script.ID)
			}
		}
		out.violations = append(out.violations, fmt.Sprintf("callers of requests %v were not answered within 60 s (every timer of the case is below 0.2 s)", stuck))
		out.log = lg.dump(400)
		return out
	}
	// ---- quiescence: queue drained, nothing executing, all permits back (polled, generous)
	quiet := func() (bool, string) {
		q := rl.VerifLimiterQueueLen()
		run := atomic.LoadInt64(&running)
		if q != 0 || run != 0 {
			return false, fmt.Sprintf("queue length %d, executions still running %d", q, run)
		}
		fh := rl.VerifLimiterFreePermits(rpcprovider.BucketHeavy)
		fn := rl.VerifLimiterFreePermits(rpcprovider.BucketNormal)
		if fh != cs.Cfg.HeavyMax || fn != cs.Cfg.NormalMax {
			return false, fmt.Sprintf("free heavy permits %d of %d, free normal permits %d of %d", fh, cs.Cfg.HeavyMax, fn, cs.Cfg.NormalMax)
		}
		return true, ""
	}
	deadline := time.Now().Add(20 * time.Second)
	state := ""
	for {
		ok, s := quiet()
		if ok {
			time.Sleep(3 * time.Millisecond) // the worker may hold a dequeued request between two observations
			if ok2, s2 := quiet(); ok2 {
				break
			} else {
				s = s2
			}
		}
		state = s
		if time.Now().After(deadline) {
			c.Clause("released_after_load")
			out.violations = append(out.violations, "20 s after the last caller was answered the limiter has not released everything: "+state)
			out.log = lg.dump(400)
			return out
		}
		time.Sleep(500 * time.Microsecond)
	}
	c.Clause("released_after_load")
	out.rejected, out.queued, out.timeouts = rl.VerifLimiterTotals()
	rl.VerifLimiterStop()

	// ---- per request
	for _, r := range recs {
		n := atomic.LoadInt32(&r.execs)
		c.Clause("at_most_one_run")
		if n > 1 {
			out.violations = append(out.violations, fmt.Sprintf("request %d was executed %d times", r.script.ID, n))
			continue
		}
		if atomic.LoadInt64(&r.cancelAt) != 0 {
			out.cancelled++
		}
		if n == 1 {
			out.executed++
			c.Clause("run_result_reaches_caller")
			if r.got != r.result {
				// signature of the listed known finding: the request went through the heavy queue and its caller
				// was answered with the context / queue-deadline error while (or just before) the run took place
				ctxErr := errors.Is(r.got, context.Canceled) || errors.Is(r.got, context.DeadlineExceeded) ||
					(r.got != nil && strings.HasPrefix(r.got.Error(), "request timeout in queue"))
				if ev.Excluded(findingCtxEnds) && r.heavy && cs.Cfg.QueueSize > 0 && ctxErr {
					out.known++
					continue
				}
				out.violations = append(out.violations, fmt.Sprintf("request %d (heavy=%v) was executed once and its run returned <%v>, but its caller received <%v>", r.script.ID, r.heavy, r.result, r.got))
			}
		} else {
			out.notRun++
			c.Clause("not_run_means_error")
			if r.got == nil {
				out.violations = append(out.violations, fmt.Sprintf("request %d (heavy=%v) was never executed but its caller received success (nil error)", r.script.ID, r.heavy))
			}
		}
	}
	c.Clause("concurrency_within_limits")
	vmu.Lock()
	defer vmu.Unlock()
	out.maxHeavy, out.maxNormal = atomic.LoadInt64(&maxSeen[0]), atomic.LoadInt64(&maxSeen[1])
	if len(out.violations) > 0 {
		out.log = lg.dump(400)
	}
	return out
}

func genCase(t *rapid.T) caseScript {
	var cs caseScript
	cs.Cfg = limCfg{
		Threshold:      uint64(pick(t, []int{10, 50, 100}, "threshold")),
		HeavyMax:       int64(1 + uni(t, 3, "heavymax")),
		QueueSize:      uni(t, 5, "queue"),
		NormalMax:      int64(1 + uni(t, 5, "normalmax")),
		QueueTimeoutUs: pick(t, []int{300, 2000, 5000, 10000, 20000, 40000, 80000}, "queuetimeout"),
	}
	aligned := uni(t, 4, "aligned") == 0
	cs.Aligned = aligned
	n := 20 + uni(t, 101, "nreq")
	if uni(t, 10, "many") == 0 {
		n = 120 + uni(t, 81, "nreq2")
	}
	window := pick(t, []int{0, 2000, 10000, 30000, 60000}, "window") // arrivals spread over this many us
	heavyPct := pick(t, []int{30, 50, 70, 90}, "heavypct")
	maxExec := pick(t, []int{0, 500, 3000, 10000, 20000}, "maxexec")
	cancelPct := pick(t, []int{0, 10, 30, 60}, "cancelpct")
	heavyMethods := []string{"debug_traceCall", "trace_block", "DEBUG_x", "Trace_Y", "eth_call&eth_call", "eth_getLogs"}
	normalMethods := []string{"eth_call", "eth_blockNumber", "xdebug_", "status", "tracer"}
	for i := 0; i < n; i++ {
		r := reqScript{ID: i}
		if uni(t, 100, "heavy") < heavyPct {
			switch uni(t, 3, "heavykind") {
			case 0: // by CU, incl. exactly at the threshold
				r.Method = pick(t, normalMethods, "method")
				r.CU = cs.Cfg.Threshold + uint64(pick(t, []int{0, 0, 1, 1000}, "dcu"))
			case 1: // by method
				r.Method = pick(t, heavyMethods[:5], "method")
				r.CU = uint64(uni(t, int(cs.Cfg.Threshold), "cu"))
			default:
				r.Method = pick(t, heavyMethods, "method")
				r.CU = cs.Cfg.Threshold * 2
			}
		} else {
			r.Method = pick(t, normalMethods, "method")
			r.CU = uint64(pick(t, []int{0, 1, int(cs.Cfg.Threshold) - 1}, "cu"))
		}
		if window > 0 {
			r.ArriveUs = uni(t, window+1, "arrive")
		}
		if maxExec > 0 {
			r.ExecUs = uni(t, maxExec+1, "exec")
		}
		r.CancelUs = -1
		if uni(t, 100, "cancel") < cancelPct {
			r.CancelUs = pick(t, []int{0, 50, 500, 2000, 8000, 20000, 40000}, "cancelat")
			if uni(t, 2, "canceljitter") == 0 {
				r.CancelUs += uni(t, 3000, "jit")
			}
		}
		r.RetErr = uni(t, 3, "reterr") == 0
		cs.Reqs = append(cs.Reqs, r)
	}
	if aligned {
		// aligned mode: everything happens on a grid of one tick, so that queue deadlines and caller
		// cancellations coincide with the moments permits are handed over (races around dequeue)
		tick := pick(t, []int{300, 1000, 2000}, "tick")
		cs.Cfg.QueueTimeoutUs = tick * (1 + uni(t, 4, "timeoutticks"))
		for i := range cs.Reqs {
			r := &cs.Reqs[i]
			r.ArriveUs = tick * uni(t, 4, "arrivetick")
			r.ExecUs = tick * (1 + uni(t, 2, "exectick"))
			if r.CancelUs >= 0 {
				r.CancelUs = tick * (1 + uni(t, 4, "canceltick"))
			}
		}
	}
	return cs
}

func uni(t *rapid.T, n int, label string) int {
	v := rapid.Uint64().Draw(t, label) + 0x9E3779B97F4A7C15
	v ^= v >> 33
	v *= 0xff51afd7ed558ccd
	v ^= v >> 33
	v *= 0xc4ceb9fe1a85ec53
	v ^= v >> 33
	return int(v % uint64(n))
}

func pick[T any](t *rapid.T, pool []T, label string) T { return pool[uni(t, len(pool), label)] }

func saveScript(cs caseScript, out outcome) string {
	root := os.Getenv("VERIF_ROOT")
	if root == "" {
		return ""
	}
	dir := filepath.Join(root, "replays", "C41")
	_ = os.MkdirAll(dir, 0o755)
	p := filepath.Join(dir, fmt.Sprintf("last-script-%d.json", os.Getpid()))
	b, _ := json.MarshalIndent(map[string]any{"script": cs, "violations": out.violations, "observed_log": strings.Split(out.log, "\n")}, "", " ")
	if os.WriteFile(p, b, 0o644) != nil {
		return ""
	}
	return p
}

func report(t interface{ Fatalf(string, ...any) }, cs caseScript, out outcome) {
	sort.Strings(out.violations)
	if len(out.violations) > 12 {
		out.violations = append(out.violations[:12], fmt.Sprintf("... and %d more", len(out.violations)-12))
	}
	b, _ := json.Marshal(cs)
	p := saveScript(cs, out)
	v := strings.Join(out.violations, "\n")
	t.Fatalf("%s", ev.Violation("C41", "%s\n--- script (also written to %s; schedule dependent: ./check C41 --replay <that file> re-runs it up to 50 times) ---\n%s\n--- observed ledger ---\n%s\n=> C41 violated: %s",
		v, p, string(b), out.log, v))
}

func propC41(t *rapid.T) {
	c := ev.For("C41")
	cs := genCase(t)
	out := runScript(cs, c)
	if out.inconcl != "" {
		t.Fatalf("%s", ev.HarnessError("%s", out.inconcl))
	}
	heavyN := 0
	for _, r := range cs.Reqs {
		if isHeavy(cs.Cfg, r.CU, r.Method) {
			heavyN++
		}
	}
	classes := []string{
		fmt.Sprintf("cfg:heavy=%d,queue=%d", cs.Cfg.HeavyMax, cs.Cfg.QueueSize),
		fmt.Sprintf("cfg:normal=%d", cs.Cfg.NormalMax),
		fmt.Sprintf("cfg:queue_timeout_us=%d", cs.Cfg.QueueTimeoutUs),
	}
	flag := func(b bool, s string) {
		if b {
			classes = append(classes, s)
		}
	}
	flag(cs.Aligned, "aligned_mode")
	flag(out.queued > 0, "some_request_queued")
	flag(out.timeouts > 0, "some_queue_timeout")
	flag(out.rejected > 0, "some_rejected")
	flag(out.cancelled > 0, "some_caller_cancelled")
	flag(out.known > 0, "excluded_known_finding_observed")
	flag(out.maxHeavy == cs.Cfg.HeavyMax, "heavy_limit_reached")
	flag(out.maxNormal == cs.Cfg.NormalMax, "normal_limit_reached")
	flag(out.executed > 0 && out.notRun > 0, "both_run_and_not_run")
	for i := 0; i < out.known; i++ {
		c.Exclude(findingCtxEnds)
	}
	c.AddExtra("requests", len(cs.Reqs))
	c.AddExtra("requests_executed", out.executed)
	c.AddExtra("requests_not_run", out.notRun)
	c.AddExtra("requests_queued", int(out.queued))
	c.AddExtra("queue_timeouts", int(out.timeouts))
	b, _ := json.Marshal(cs)
	nontrivial := out.queued > 0
	c.Case(nontrivial, string(b), classes...)
	if nontrivial {
		c.Sample(map[string]any{"config": cs.Cfg, "requests": len(cs.Reqs), "heavy_requests": heavyN, "executed": out.executed, "not_run": out.notRun,
			"queued": out.queued, "queue_timeouts": out.timeouts, "rejected": out.rejected, "max_heavy": out.maxHeavy, "max_normal": out.maxNormal, "first_requests": cs.Reqs[:3]})
	}
	if len(out.violations) > 0 {
		report(t, cs, out)
	}
}

func TestC41(t *testing.T) {
	c := ev.For("C41")
	c.SetRule("a case = one limiter configuration (heavy limit 1-3, heavy queue 0-4, normal limit 1-5, CU threshold, queue timeout 0.3-80 ms set through the verif hook) and 20-200 request scripts " +
		"(CU and method that decide the bucket incl. CU exactly at the threshold, debug_/trace_ prefixes in mixed case and batch '&' names; arrival offset 0-60 ms; execution time 0-20 ms; caller cancellation 0-43 ms after arrival or never; run returns nil or a unique error), " +
		"executed by real goroutines under -race; a quarter of the cases put arrivals, execution times, cancellations and the queue timeout on a common time grid so that deadlines coincide with permit hand-over. Non-trivial = at least one request went through the heavy queue. Distinct = distinct script.")
	c.Assume(
		"the executed function ignores its context and always runs to completion (the oracle compares what the caller received with what that run returned)",
		"heavy / normal is decided by the documented rule (batch name with '&', CU >= threshold, debug_/trace_ prefix), restated in the harness",
		"liveness waits are one-sided and generous (60 s for callers, 20 s for the release of permits and queue slots; every timer of a case is below 0.2 s)",
		"schedules are produced by the Go scheduler and the timers of the scripts; interleavings are sampled, not enumerated",
	)
	if ev.Excluded(findingCtxEnds) {
		c.Assume("known finding " + findingCtxEnds + " is listed: observations where a queued heavy request was run once while its caller was answered with the context / queue-deadline error are counted (excluded_known_findings) and not reported")
	}
	rapid.Check(t, propC41)
}

// TestC41Replay re-runs a saved script (VERIF_REPLAY=<json>) up to 50 times.
func TestC41Replay(t *testing.T) {
	p := os.Getenv("VERIF_REPLAY")
	if p == "" {
		t.Skip("VERIF_REPLAY not set")
	}
	raw, err := os.ReadFile(p)
	if err != nil {
		t.Fatalf("%s", ev.HarnessError("cannot read %s: %v", p, err))
	}
	var f struct {
		Script caseScript `json:"script"`
	}
	if err := json.Unmarshal(raw, &f); err != nil || len(f.Script.Reqs) == 0 {
		t.Fatalf("%s", ev.HarnessError("cannot parse %s: %v", p, err))
	}
	c := ev.For("C41")
	for i := 0; i < 50; i++ {
		out := runScript(f.Script, c)
		if len(out.violations) > 0 {
			t.Logf("reproduced at attempt %d", i+1)
			report(t, f.Script, out)
		}
	}
}

// TestC41Known_ctx_ends_while_executing is the deterministic witness of the known finding: a heavy
// request that waited in the queue is being executed (held there by a channel) when its context ends
// - first by the caller cancelling, then by the queue deadline passing. Its caller is answered with
// the context error / "request timeout in queue" although the request is run (once) and the run's
// result is lost. No step of the schedule depends on a sleep: A holds the only permit until B is
// enqueued, B's run signals its start and then blocks on a gate, the context ends only after that
// signal, and the gate opens only after B's caller was answered (or, on a limiter that makes the
// caller wait for the run, after a one-sided wait).
func TestC41Known_ctx_ends_while_executing(t *testing.T) {
	for _, mode := range []string{"caller-cancel", "queue-deadline"} {
		last, done := "", false
		for attempt := 0; attempt < 5 && !done; attempt++ {
			verdict, msg := witnessOnce(mode)
			switch verdict {
			case "violation":
				t.Fatalf("%s", ev.Violation("C41", "%s", msg))
			case "holds":
				done = true
			default:
				last = msg
			}
		}
		if !done {
			t.Fatalf("%s", ev.HarnessError("witness (%s) could not set up its schedule in 5 attempts: %s", mode, last))
		}
	}
}

func witnessOnce(mode string) (string, string) {
	name := fmt.Sprintf("verif-c41-witness-%d-%d", os.Getpid(), atomic.AddInt64(&limiterSeq, 1))
	rl := rpcprovider.NewResourceLimiter(true, name, 100, 1, 1, 1)
	queueTimeout := 30 * time.Second // the production value: never fires in caller-cancel mode
	if mode == "queue-deadline" {
		queueTimeout = 3 * time.Second
	}
	rl.VerifLimiterSetQueueTimeout(rpcprovider.BucketHeavy, queueTimeout)
	aStarted, aRelease := make(chan struct{}), make(chan struct{})
	aDone := make(chan error, 1)
	go func() {
		aDone <- rl.Acquire(context.Background(), 1000, "debug_a", func() error { close(aStarted); <-aRelease; return nil })
	}()
	select {
	case <-aStarted:
	case <-time.After(20 * time.Second):
		close(aRelease)
		return "retry", "request A did not start"
	}
	bStarted, bGate := make(chan struct{}), make(chan struct{})
	bResult := errors.New("result of B's run")
	var bRuns int32
	bDone := make(chan error, 1)
	ctx, cancel := context.WithCancel(context.Background())
	defer cancel()
	go func() {
		bDone <- rl.Acquire(ctx, 1000, "debug_b", func() error {
			atomic.AddInt32(&bRuns, 1)
			close(bStarted)
			select {
			case <-bGate:
			case <-time.After(60 * time.Second):
			}
			return bResult
		})
	}()
	// wait until B has been enqueued (the worker takes it out of the channel at once and waits for the permit)
	enq := false
	for i := 0; i < 100000 && !enq; i++ {
		if _, queued, _ := rl.VerifLimiterTotals(); queued > 0 {
			enq = true
		} else {
			time.Sleep(100 * time.Microsecond)
		}
	}
	close(aRelease) // B gets the permit and starts executing
	<-aDone
	select {
	case <-bStarted:
	case err := <-bDone:
		return "retry", fmt.Sprintf("B was answered (%v) before it started (enqueued=%v)", err, enq)
	case <-time.After(20 * time.Second):
		close(bGate)
		return "retry", "B did not start"
	}
	// B is executing now and stays so until the gate opens.
	wait := 2 * time.Second
	if mode == "caller-cancel" {
		cancel()
	} else {
		wait += queueTimeout
	}
	// A correct limiter makes B's caller wait for the run: nothing arrives on bDone while the gate is closed.
	select {
	case err := <-bDone:
		runs := atomic.LoadInt32(&bRuns)
		close(bGate)
		return "violation", fmt.Sprintf("[%s] heavy limit 1, queue 1, queue timeout %v: request B waited in the queue, was dequeued and is being executed (runs=%d, held by the harness) when its context ends; "+
			"its caller is answered <%v> although the request is run and its run returns <%v> (resource_limiter.go enqueueRequest: the select on queueCtx.Done() stays armed while processQueue executes the request; "+
			"RPCProviderServer.Relay then returns that error to the consumer while the closure still runs and finalizes the session)", mode, queueTimeout, runs, err, bResult)
	case <-time.After(wait):
	}
	close(bGate)
	select {
	case err := <-bDone:
		if err != bResult {
			return "violation", fmt.Sprintf("[%s] B's caller received <%v> instead of the run's result <%v>", mode, err, bResult)
		}
	case <-time.After(20 * time.Second):
		return "violation", fmt.Sprintf("[%s] B's caller was not answered within 20 s after B's run had finished", mode)
	}
	rl.VerifLimiterStop()
	return "holds", ""
}
