package limiter

import (
	"os"
	"testing"

	"github.com/lavanet/lava/v5/utils"

	"verifharness/internal/ev"
)

func TestMain(m *testing.M) {
	// the limiter logs every queued / rejected request; keep the run quiet
	utils.SetGlobalLoggingLevel("fatal")
	code := m.Run()
	ev.Flush()
	os.Exit(code)
}
