package limiter

import (
	"context"
	"errors"
	"fmt"
	"os"
	"sync/atomic"
	"testing"
	"time"

	"github.com/lavanet/lava/v5/protocol/rpcprovider"
	"pgregory.net/rapid"

	"verifharness/internal/ev"
)

// TestC41QueueDeadline: a directed, channel-driven schedule with drawn parameters for the clause
// "not run at all, with its caller getting an error". All heavy permits are held by requests that
// block on a gate; k further heavy requests wait in the queue until their queue deadline passes (or
// their caller cancels) and their callers are answered with an error; only THEN the permits are
// released. None of the k requests may be executed afterwards: their callers were already told
// that they were not served. No step races with a timer: the permits stay taken until every
// waiting caller has been answered, so no waiting request can have been dequeued-and-started.
func TestC41QueueDeadline(t *testing.T) {
	c := ev.For("C41")
	rapid.Check(t, func(rt *rapid.T) {
		heavyMax := rapid.IntRange(1, 3).Draw(rt, "heavyMax")
		queueSize := rapid.IntRange(1, 4).Draw(rt, "queueSize")
		k := rapid.IntRange(1, queueSize).Draw(rt, "waiting")
		timeout := time.Duration(rapid.SampledFrom([]int{15, 40, 120}).Draw(rt, "queueTimeoutMs")) * time.Millisecond
		cancelFirst := rapid.Bool().Draw(rt, "cancelFirstWaiting")
		name := fmt.Sprintf("verif-c41-qd-%d-%d", os.Getpid(), atomic.AddInt64(&limiterSeq, 1))
		rl := rpcprovider.NewResourceLimiter(true, name, 100, int64(heavyMax), queueSize, 1)
		rl.VerifLimiterSetQueueTimeout(rpcprovider.BucketHeavy, timeout)
		gate := make(chan struct{})
		started := make(chan struct{}, heavyMax)
		holdersDone := make(chan error, heavyMax)
		for i := 0; i < heavyMax; i++ {
			go func() {
				holdersDone <- rl.Acquire(context.Background(), 1000, "debug_hold", func() error { started <- struct{}{}; <-gate; return nil })
			}()
		}
		for i := 0; i < heavyMax; i++ {
			select {
			case <-started:
			case <-time.After(30 * time.Second):
				close(gate)
				rt.Fatalf("%s", ev.HarnessError("C41 queue-deadline scenario: permit holders did not start"))
			}
		}
		runs := make([]int32, k)
		answers := make(chan struct {
			i   int
			err error
		}, k)
		ctx0, cancel0 := context.WithCancel(context.Background())
		defer cancel0()
		for i := 0; i < k; i++ {
			i := i
			ctx := context.Background()
			if i == 0 {
				ctx = ctx0
			}
			go func() {
				err := rl.Acquire(ctx, 1000, "debug_wait", func() error { atomic.AddInt32(&runs[i], 1); return nil })
				answers <- struct {
					i   int
					err error
				}{i, err}
			}()
		}
		if cancelFirst {
			cancel0()
		}
		got := map[int]error{}
		deadline := time.After(timeout + 30*time.Second)
		for len(got) < k {
			select {
			case a := <-answers:
				got[a.i] = a.err
			case <-deadline:
				close(gate)
				rt.Fatalf("%s", ev.HarnessError("C41 queue-deadline scenario: waiting callers were not answered within the queue timeout + 30 s"))
			}
		}
		c.Clause("queued_past_deadline_not_run_later")
		for i := 0; i < k; i++ {
			if got[i] == nil {
				close(gate)
				rt.Fatalf("%s", ev.Violation("C41", "heavy limit %d (all permits held), queue %d, queue timeout %v: waiting request %d was answered with success although no permit was ever free", heavyMax, queueSize, timeout, i))
			}
			if n := atomic.LoadInt32(&runs[i]); n != 0 {
				close(gate)
				rt.Fatalf("%s", ev.Violation("C41", "heavy limit %d (all permits held), queue %d: waiting request %d was executed %d times although every permit was still held", heavyMax, queueSize, i, n))
			}
		}
		// every waiting caller has been told "not served"; now the permits come back
		close(gate)
		for i := 0; i < heavyMax; i++ {
			<-holdersDone
		}
		// let the queue worker drain what is left (generous, one-sided) and look again
		end := time.Now().Add(10 * time.Second)
		for time.Now().Before(end) {
			if rl.VerifLimiterQueueLen() == 0 && rl.VerifLimiterFreePermits(rpcprovider.BucketHeavy) == int64(heavyMax) {
				break
			}
			time.Sleep(200 * time.Microsecond)
		}
		time.Sleep(2 * time.Millisecond)
		for i := 0; i < k; i++ {
			if n := atomic.LoadInt32(&runs[i]); n != 0 {
				rt.Fatalf("%s", ev.Violation("C41", "heavy limit %d, queue %d, queue timeout %v: waiting request %d was answered <%v> while every permit was held (it was not being executed), "+
					"and was executed %d time(s) AFTER that answer, once a permit became free: a request that was told it was not served must not run", heavyMax, queueSize, timeout, i, got[i], n))
			}
		}
		rl.VerifLimiterStop()
		var ctxErrs int
		for _, e := range got {
			if errors.Is(e, context.Canceled) {
				ctxErrs++
			}
		}
		c.Case(true, fmt.Sprintf("qd h%d q%d k%d t%v c%v", heavyMax, queueSize, k, timeout, cancelFirst), "scenario:queued-past-deadline-then-permit-freed")
	})
}
