package csub

import (
	"testing"

	projectstypes "github.com/lavanet/lava/v5/x/projects/types"
	subscriptiontypes "github.com/lavanet/lava/v5/x/subscription/types"

	"verifharness/internal/ev"
)

// Witnesses of known findings (HARNESS_GUIDE rule 5): plain deterministic tests that fail with an
// ev.Violation message while the defect exists. The driver runs them first and, while they
// fail, sets the exclusion switch of the same id for the search.

const (
	findingRenewCu    = "c12-renew-keeps-cu-total"
	findingProjWindow = "c12-project-added-in-removal-window"
)

// C13: auto-renewal onto a newer version of the plan does not move the subscription's plan
// reference (renewSubscription overwrites sub.PlanIndex/PlanBlock before comparing them with the
// new plan): the new version is never referenced and is collected, after the next plan update and
// the stale period, while the subscription that uses it is alive.
func TestC13Known_renewRefNotMoved(t *testing.T) {
	s := newScen(t)
	if s.addPlan(s.plan("gold", 1000, 100000, 0)) != nil {
		return // setup transaction rejected on this tree: nothing to witness
	}
	s.c.AdvanceEpoch()
	a := s.account(1_000_000)
	if s.buy(a, a, "gold", 1, true, false) != nil {
		return // setup transaction rejected on this tree: nothing to witness
	}
	s.c.AdvanceEpoch()
	if s.addPlan(s.plan("gold", 1000, 100000, 0)) != nil {
		return // setup transaction rejected on this tree: nothing to witness
	}
	s.toExpiry(a, 1) // renews onto v2
	s.c.AdvanceEpoch()
	sub, found := s.sub(a)
	if !found || sub.DurationLeft != 1 {
		return // scenario does not play out on this tree: nothing to witness, the search decides
	}
	v2 := sub.PlanBlock
	if s.addPlan(s.plan("gold", 1000, 100000, 0)) != nil {
		return // setup transaction rejected on this tree: nothing to witness
	}
	s.pastStale() // ~4 minutes of block time: the renewed month is far from over
	if s.c.Halt != "" {
		t.Fatalf("%s", ev.Violation("C13", "chain halted: %s", firstLines(s.c.Halt, 5)))
	}
	sub, found = s.sub(a)
	if !found {
		return // scenario does not play out on this tree: nothing to witness, the search decides
	}
	if p, ok := s.c.TS.Keepers.Plans.FindPlan(s.c.TS.Ctx, sub.PlanIndex, sub.PlanBlock); !ok || p.Block != sub.PlanBlock {
		t.Fatalf("%s", ev.Violation("C13", "subscription auto-renewed onto gold@%d; after the next plan update and the stale period that version can no longer be looked up although the subscription is alive (%d month left). stored versions:%s",
			v2, sub.DurationLeft, s.planRefs("gold")))
	}
	if _, err := s.c.TS.Keepers.Subscription.GetPlanFromSubscription(s.c.TS.Ctx, a.Addr.String(), s.c.Height()); err != nil {
		t.Fatalf("%s", ev.Violation("C13", "GetPlanFromSubscription fails for a live subscription: %v", err))
	}
}

// C12: auto-renewal onto a plan (version) with a different monthly CU total keeps the old
// MonthCuTotal: the month is not reset to the total of the plan the subscription is now on (and
// pays for).
func TestC12Known_renewKeepsCuTotal(t *testing.T) {
	s := newScen(t)
	if s.addPlan(s.plan("gold", 1000, 100_000, 0)) != nil {
		return // setup transaction rejected on this tree: nothing to witness
	}
	s.c.AdvanceEpoch()
	a := s.account(1_000_000)
	if s.buy(a, a, "gold", 1, true, false) != nil {
		return // setup transaction rejected on this tree: nothing to witness
	}
	s.c.AdvanceEpoch()
	if s.addPlan(s.plan("gold", 1000, 5_000, 0)) != nil {
		return // setup transaction rejected on this tree: nothing to witness
	}
	s.toExpiry(a, 1)
	s.c.AdvanceEpoch()
	sub, found := s.sub(a)
	if !found || sub.DurationLeft != 1 {
		return // scenario does not play out on this tree: nothing to witness, the search decides
	}
	plan, ok := s.c.TS.Keepers.Plans.FindPlan(s.c.TS.Ctx, sub.PlanIndex, sub.PlanBlock)
	if !ok {
		return // scenario does not play out on this tree: nothing to witness, the search decides
	}
	if sub.MonthCuLeft != plan.PlanPolicy.TotalCuLimit || sub.MonthCuTotal != plan.PlanPolicy.TotalCuLimit {
		t.Fatalf("%s", ev.Violation("C12", "after auto-renewal onto %s@%d (monthly total %d) the subscription has MonthCuTotal=%d MonthCuLeft=%d: not reset to the plan total at the month boundary",
			sub.PlanIndex, sub.PlanBlock, plan.PlanPolicy.TotalCuLimit, sub.MonthCuTotal, sub.MonthCuLeft))
	}
}

// C12: a project added after the last month expiry was processed but before the epoch start at
// which the removal becomes effective survives the subscription.
func TestC12Known_projectAddedInRemovalWindow(t *testing.T) {
	s := newScen(t)
	if s.addPlan(s.plan("gold", 1000, 100_000, 0)) != nil {
		return // setup transaction rejected on this tree: nothing to witness
	}
	s.c.AdvanceEpoch()
	a := s.account(1_000_000)
	if s.buy(a, a, "gold", 1, false, false) != nil {
		return // setup transaction rejected on this tree: nothing to witness
	}
	s.toExpiry(a, 1) // last month is over; removal is scheduled for the next epoch start
	if _, found := s.newestSub(a); found {
		return // scenario does not play out on this tree: nothing to witness, the search decides
	}
	msg := &subscriptiontypes.MsgAddProject{Creator: a.Addr.String(), ProjectData: projectstypes.ProjectData{Name: "late", Enabled: true}}
	err := s.c.Tx("addProject(late)", msg.ValidateBasic, func() error {
		_, err := s.c.TS.Servers.SubscriptionServer.AddProject(s.c.TS.GoCtx, msg)
		return err
	})
	if err != nil {
		return // rejected: nothing can survive
	}
	s.c.AdvanceEpoch()
	s.c.AdvanceEpoch()
	if _, found := s.sub(a); found {
		return // scenario does not play out on this tree: nothing to witness, the search decides
	}
	id := projectstypes.ProjectIndex(a.Addr.String(), "late")
	if _, err := s.c.TS.Keepers.Projects.GetProjectForBlock(s.c.TS.Ctx, id, s.c.Height()); err == nil {
		t.Fatalf("%s", ev.Violation("C12", "the subscription expired and is gone, but its project %q (added between the processing of the last expiry and the epoch start of the removal) still exists", "late"))
	}
}
