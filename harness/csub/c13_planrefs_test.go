package csub

import (
	"strings"
	"testing"

	"pgregory.net/rapid"

	"verifharness/internal/ev"
)

const findingRenewRef = "c13-renew-ref-not-moved"

// C13: plan versions used by live subscriptions remain available.
func TestC13(t *testing.T) {
	c := ev.For("C13")
	c.SetRule("rapid state machine on a generated chain: plan new-version / add / delete / in-place modify proposals interleaved with new buys, extensions, upgrades, advance purchases, auto-renew on/off/onto another plan index, jumps to month expiries (so that auto-renewals land on newer plan versions and advance purchases activate), relay payments, and advances of more blocks than the fixation stale period (EpochsToSave*EpochBlocks) with one-second blocks; oracle after every block and transaction: for every live subscription, in the current view and in the newest (next-epoch) view, FindPlan(PlanIndex, PlanBlock) finds exactly that version, same for its advance purchase; an expiry with an advance purchase waiting activates it; no transaction / pairing / effective-policy query of a live consumer fails with a plan-not-found error; block processing does not panic in the plan reference bookkeeping; non-trivial = a subscription was seen alive more than a stale period after the plan version it references had been superseded or deleted; distinct = distinct histories")
	c.Assume("transactions run atomically (cache context + bank snapshot) as under BaseApp",
		"a time jump of hours or more happens in a single block only after the running epoch was completed when a subscription version is pending for the next epoch start",
		"plans have no allowed-buyers list",
		"a renewal that fails because the auto-renewal plan index was deleted by governance is not a violation (a renewal is a new purchase of the latest version)")
	rapid.Check(t, func(rt *rapid.T) {
		e := newEnv(rt, t, c, envCfg{prop: "C13", refs: true})
		e.exclRenewSwitch = ev.Excluded(findingRenewRef)
		acts := map[string]func(*rapid.T){
			"buy":               e.actBuy,
			"buyDirected":       e.actBuyDirected,
			"buyAutoPoor":       e.actBuyAutoPoor,
			"autoRenew":         e.actAutoRenew,
			"autoRenew2":        e.actAutoRenew,
			"planNewVersion":    e.actPlanNewVersion,
			"planNewVersion2":   e.actPlanNewVersion,
			"planAdd":           e.actPlanAdd,
			"planDel":           e.actPlanDel,
			"planModifyInPlace": e.actPlanModifyInPlace,
			"relay":             e.actRelay,
			"advanceBlocks":     e.actAdvanceBlocks,
			"advanceEpoch":      e.actAdvanceEpoch,
			"advanceDays":       e.actAdvanceDays,
			"toExpiry":          e.actToExpiry,
			"toExpiry2":         e.actToExpiry,
			"toExpiry3":         e.actToExpiry,
			"pastStale":         e.actPastStale,
			"": func(rt *rapid.T) {
				if h := e.w.C.Halt; h != "" {
					c.Clause("no-halt-in-plan-reference-bookkeeping")
					if strings.Contains(h, "plans/keeper.Keeper.PutPlan") || strings.Contains(h, "plans/keeper.Keeper.GetPlan") || strings.Contains(h, "plans/keeper.Keeper.FindPlan") {
						rt.Fatalf("%s", ev.Violation("C13", "block processing panicked in the plan reference bookkeeping of a subscription (chain halt): %s\nhistory (tail):\n  %s", firstLines(h, 40), e.hist(60)))
					}
					rt.Skip("chain halted elsewhere (reported by C37)")
				}
				e.resnap()
				e.refsOracle(e.height())
				e.refsQueries()
				e.raise(rt)
			},
		}
		rt.Repeat(acts)
		nt := e.outlived && e.w.C.Halt == ""
		var classes []string
		for _, k := range sortedKeys(e.classes) {
			classes = append(classes, k)
		}
		if e.outlived {
			classes = append(classes, "subscription-outlived-superseded-plan-version-by-stale-period")
		}
		if e.w.C.Halt != "" {
			classes = append(classes, "halted")
		}
		c.AddExtra("blocks", e.w.C.Blocks)
		c.AddExtra("tx_ok", e.w.C.TxOK)
		c.AddExtra("tx_failed", e.w.C.TxFail)
		c.Case(nt, fingerprint(e.w), classes...)
		if nt {
			c.Sample(map[string]any{"history_tail": e.w.C.HistTail(30), "blocks": e.w.C.Blocks, "classes": e.classes})
		}
	})
}

func firstLines(s string, n int) string {
	lines := strings.Split(s, "\n")
	if len(lines) > n {
		lines = lines[:n]
	}
	return strings.Join(lines, "\n")
}
