package csub

import (
	"fmt"
	"strings"
	"testing"
	"time"

	sdk "github.com/cosmos/cosmos-sdk/types"

	"pgregory.net/rapid"

	"verifharness/internal/chain"
	"verifharness/internal/ev"
)

const findingRenewRef = "c13-renew-ref-not-moved"

// C13: plan versions used by live subscriptions remain available.
func TestC13(t *testing.T) {
	c := ev.For("C13")
	c.SetRule("rapid state machine on a generated chain: plan new-version / add / delete / in-place modify proposals interleaved with new buys, extensions, upgrades, advance purchases, auto-renew on/off/onto another plan index, jumps to month expiries (so that auto-renewals land on newer plan versions and advance purchases activate), relay payments, and advances of more blocks than the fixation stale period (EpochsToSave*EpochBlocks) with one-second blocks; oracle after every block and transaction: for every live subscription, in the current view and in the newest (next-epoch) view, FindPlan(PlanIndex, PlanBlock) finds exactly that version, same for its advance purchase; an expiry with an advance purchase waiting activates it; no transaction / pairing / effective-policy query of a live consumer fails with a plan-not-found error; block processing does not panic in the plan reference bookkeeping; non-trivial = a subscription was seen alive more than a stale period after the plan version it references had been superseded or deleted; distinct = distinct histories")
	c.Assume("transactions run atomically (cache context + bank snapshot) as under BaseApp",
		"a time jump of hours or more happens in a single block only after the running epoch was completed when a subscription version is pending for the next epoch start",
		"plans have no allowed-buyers list",
		"a renewal that fails because the auto-renewal plan index was deleted by governance is not a violation (a renewal is a new purchase of the latest version)")
	rapid.Check(t, func(rt *rapid.T) {
		e := newEnv(rt, t, c, envCfg{prop: "C13", refs: true})
		e.exclRenewSwitch = ev.Excluded(findingRenewRef)
		acts := map[string]func(*rapid.T){
			"buy":               e.actBuy,
			"buyDirected":       e.actBuyDirected,
			"buyAutoPoor":       e.actBuyAutoPoor,
			"autoRenew":         e.actAutoRenew,
			"autoRenew2":        e.actAutoRenew,
			"planNewVersion":    e.actPlanNewVersion,
			"planNewVersion2":   e.actPlanNewVersion,
			"planAdd":           e.actPlanAdd,
			"planDel":           e.actPlanDel,
			"planModifyInPlace": e.actPlanModifyInPlace,
			"relay":             e.actRelay,
			"advanceBlocks":     e.actAdvanceBlocks,
			"advanceEpoch":      e.actAdvanceEpoch,
			"advanceDays":       e.actAdvanceDays,
			"toExpiry":          e.actToExpiry,
			"toExpiry2":         e.actToExpiry,
			"toExpiry3":         e.actToExpiry,
			"pastStale":         e.actPastStale,
			"": func(rt *rapid.T) {
				if h := e.w.C.Halt; h != "" {
					c.Clause("no-halt-in-plan-reference-bookkeeping")
					if strings.Contains(h, "plans/keeper.Keeper.PutPlan") || strings.Contains(h, "plans/keeper.Keeper.GetPlan") || strings.Contains(h, "plans/keeper.Keeper.FindPlan") {
						rt.Fatalf("%s", ev.Violation("C13", "block processing panicked in the plan reference bookkeeping of a subscription (chain halt): %s\nhistory (tail):\n  %s", firstLines(h, 40), e.hist(60)))
					}
					rt.Skip("chain halted elsewhere (reported by C37)")
				}
				e.resnap()
				e.refsOracle(e.height())
				e.refsQueries()
				e.raise(rt)
			},
		}
		// Directed preamble (1 case in 3, drawn parameters): a subscription whose auto-renewal FAILS
		// (its payer cannot afford the newer plan version) while another subscription references
		// that newer version, followed by the deletion of the plan and the stale period. The random
		// history continues from there.
		if rapid.IntRange(0, 2).Draw(rt, "failedRenewalPreamble") == 0 {
			e.preambleFailedRenewal(rt)
		}
		rt.Repeat(acts)
		nt := e.outlived && e.w.C.Halt == ""
		var classes []string
		for _, k := range sortedKeys(e.classes) {
			classes = append(classes, k)
		}
		if e.outlived {
			classes = append(classes, "subscription-outlived-superseded-plan-version-by-stale-period")
		}
		if e.w.C.Halt != "" {
			classes = append(classes, "halted")
		}
		c.AddExtra("blocks", e.w.C.Blocks)
		c.AddExtra("tx_ok", e.w.C.TxOK)
		c.AddExtra("tx_failed", e.w.C.TxFail)
		c.Case(nt, fingerprint(e.w), classes...)
		if nt {
			c.Sample(map[string]any{"history_tail": e.w.C.HistTail(30), "blocks": e.w.C.Blocks, "classes": e.classes})
		}
	})
}

func (e *env) preambleFailedRenewal(rt *rapid.T) {
	var free []*chain.Cons
	for _, c := range e.cons {
		if !e.latestView(c.Addr()).found && !e.currentView(c.Addr()).found {
			free = append(free, c)
		}
	}
	if len(free) < 1 {
		return
	}
	e.class("preamble:failed-renewal")
	a := free[0]
	// A: one month, auto-renewal, paid by the poor payer, on the cheapest plan
	best, bestPrice := "", int64(0)
	for _, idx := range e.planIdxs {
		if p, ok := e.ks().Plans.FindPlan(e.ctx(), idx, e.height()); ok && (best == "" || p.Price.Amount.Int64() < bestPrice) {
			best, bestPrice = idx, p.Price.Amount.Int64()
		}
	}
	if best == "" {
		return
	}
	poor, rich := e.payers[1].Addr.String(), e.payers[0].Addr.String()
	e.buy(rt, a, poor, best, 1, true, false)
	if !e.latestView(a.Addr()).found {
		return
	}
	// a newer version of that plan which the poor payer cannot afford
	p := e.genPlan(rt, best)
	p.Price = sdk.NewCoin(e.w.C.Denom(), sdk.NewInt(e.bal(poor)+int64(rapid.SampledFrom([]int{1, 1000, 1_000_000}).Draw(rt, "overBalance"))))
	if cur, ok := e.plans[best].latest(e.height()); ok {
		p.PlanPolicy.TotalCuLimit, p.PlanPolicy.EpochCuLimit = cur.TotalCU, cur.TotalCU
	}
	if err := e.tx(fmt.Sprintf("planNewVersion*(%s,price=%s)", best, p.Price.Amount), p.ValidatePlan, func() error { return e.w.C.TS.TxProposalAddPlans(p) }); err == nil {
		e.recordPlanVersion(p)
		e.notePlanChange(best)
		e.class("plan-new-version")
	}
	e.resnap()
	e.raise(rt)
	// B (and possibly C): subscriptions on the newer version, paid by the rich payer
	others := free[1:]
	for i, c := range others {
		if i >= 2 {
			break
		}
		e.buy(rt, c, rich, best, rapid.IntRange(3, 6).Draw(rt, "monthsB"), false, false)
	}
	// A's month expires: the renewal onto the newer version fails for lack of funds
	if e.pendingVersion() && !e.advEpoch(rt) {
		return
	}
	if v := e.latestView(a.Addr()); v.found {
		delta := time.Duration(int64(v.sub.MonthExpiryTime)-e.now().Unix()+1) * time.Second
		if delta <= 0 {
			delta = time.Second
		}
		if !e.adv(rt, delta) || !e.advEpoch(rt) {
			return
		}
	}
	// governance deletes the plan (or publishes yet another version), then the stale period passes
	if rapid.Bool().Draw(rt, "deletePlan") {
		next := e.nextEpoch()
		if err := e.tx(fmt.Sprintf("planDel*(%s)", best), nil, func() error { return e.w.C.TS.TxProposalDelPlans(best) }); err == nil {
			pm := e.plans[best]
			pm.lifeDelAt[len(pm.lifeDelAt)-1] = next
			e.notePlanChange(best)
			e.class("plan-deleted")
		}
		e.resnap()
		e.raise(rt)
	} else {
		p3 := e.genPlan(rt, best)
		if err := e.tx(fmt.Sprintf("planNewVersion*(%s,price=%s)", best, p3.Price.Amount), p3.ValidatePlan, func() error { return e.w.C.TS.TxProposalAddPlans(p3) }); err == nil {
			e.recordPlanVersion(p3)
			e.notePlanChange(best)
			e.class("plan-new-version")
		}
		e.resnap()
		e.raise(rt)
	}
	e.actPastStale(rt)
}

func firstLines(s string, n int) string {
	lines := strings.Split(s, "\n")
	if len(lines) > n {
		lines = lines[:n]
	}
	return strings.Join(lines, "\n")
}
