package csub

import (
	"strings"
	"testing"

	"pgregory.net/rapid"

	"verifharness/internal/ev"
)

// C12: subscriptions live exactly as long as paid for; monthly CU bounds; exact charging.
//
// Month expiries are OBSERVED (the newest version of the subscription changes its
// MonthExpiryTime or disappears while a block is processed), never predicted; at every observed
// expiry the months model is stepped and compared with the chain.
func TestC12(t *testing.T) {
	c := ev.For("C12")
	c.SetRule("rapid state machine on a generated chain (1 spec, 2-3 providers, 2-5 plans, 2-4 consumers, a rich and a poor payer): new buys, extensions, upgrades, advance purchases (and their replacement), auto-renew on/off/onto another plan, plan new-version/add/delete proposals, projects, relay payments that use CU, block/epoch/day advances, jumps to the month expiry of a subscription (1 s before, exactly at, after) and to days 29-31 / end of January / end of February; a months model {left, plan version, creator, advance purchase, auto-renew plan} is stepped at every observed expiry and compared after every transaction and every block; non-trivial = history contains >= 2 of {upgrade, advance purchase activated or replaced, successful auto-renewal} and >= 1 observed month expiry; distinct = distinct histories")
	c.Assume("transactions run atomically (cache context + bank snapshot) as under BaseApp",
		"a time jump of hours or more happens in a single block only after the running epoch was completed with normal 5-minute blocks (an epoch is far shorter than a month on a real chain)",
		"the auto-renewal message is not generated for a subscription that has a newer version pending for the next epoch start (upgrade / month expiry processed in the running epoch): the message then changes only the outgoing version and the statement does not define which version a toggle must reach",
		"plans have no allowed-buyers list; in-place 'modify' proposals are not generated (they cannot change the price)",
		"the subscriptions created by the world generator are adopted into the model from their initial state",
		"existence is compared on the newest version of the subscription (the view the next epoch start makes effective) and, for the current block, with 'removal becomes effective at the next epoch start'")
	rapid.Check(t, func(rt *rapid.T) {
		e := newEnv(rt, t, c, envCfg{prop: "C12", strict: true})
		e.exclRenewCu = ev.Excluded(findingRenewCu)
		e.exclProjWindow = ev.Excluded(findingProjWindow)
		acts := map[string]func(*rapid.T){
			"buy":            e.actBuy,
			"buyDirected":    e.actBuyDirected,
			"buyAutoPoor":    e.actBuyAutoPoor,
			"buyDirected2":   e.actBuyDirected,
			"autoRenew":      e.actAutoRenew,
			"planNewVersion": e.actPlanNewVersion,
			"planAdd":        e.actPlanAdd,
			"planDel":        e.actPlanDel,
			"addProject":     e.actAddProject,
			"relay":          e.actRelay,
			"advanceBlocks":  e.actAdvanceBlocks,
			"advanceEpoch":   e.actAdvanceEpoch,
			"advanceDays":    e.actAdvanceDays,
			"toExpiry":       e.actToExpiry,
			"toExpiry2":      e.actToExpiry,
			"toExpiry3":      e.actToExpiry,
			"toMonthEnd":     e.actToMonthEnd,
			"": func(rt *rapid.T) {
				if h := e.w.C.Halt; h != "" {
					if strings.Contains(h, "addCuTrackerTimerForSubscription") {
						rt.Fatalf("%s", ev.Violation("C12", "month-expiry processing panicked (chain halt): %s\nhistory (tail):\n  %s", h, e.hist(60)))
					}
					rt.Skip("chain halted (reported by C37; plan reference halts by C13)")
				}
				e.compareAll("after the last action")
				e.raise(rt)
			},
		}
		rt.Repeat(acts)
		e.finishCase("C12")
	})
}

func (e *env) finishCase(prop string) {
	n := 0
	for _, k := range []string{"upgrade", "auto-renewed"} {
		if e.kinds[k] {
			n++
		}
	}
	if e.kinds["advance-activated"] || e.kinds["advance-replaced"] {
		n++
	}
	nt := n >= 2 && e.classes["month-expiry"] >= 1 && e.w.C.Halt == ""
	var classes []string
	for _, k := range sortedKeys(e.classes) {
		classes = append(classes, k)
	}
	if e.w.C.Halt != "" {
		classes = append(classes, "halted")
	}
	e.col.AddExtra("blocks", e.w.C.Blocks)
	e.col.AddExtra("tx_ok", e.w.C.TxOK)
	e.col.AddExtra("tx_failed", e.w.C.TxFail)
	e.col.Case(nt, fingerprint(e.w), classes...)
	if nt {
		e.col.Sample(map[string]any{"history_tail": e.w.C.HistTail(30), "blocks": e.w.C.Blocks, "classes": e.classes})
	}
}
