package csub

import (
	"fmt"
	"testing"
	"time"

	sdk "github.com/cosmos/cosmos-sdk/types"
	"github.com/lavanet/lava/v5/utils/sigs"
	planstypes "github.com/lavanet/lava/v5/x/plans/types"
	subscriptiontypes "github.com/lavanet/lava/v5/x/subscription/types"

	"verifharness/internal/chain"
	"verifharness/internal/ev"
)

// scen is a small deterministic chain for witness / regression scenarios (no rapid).
type scen struct {
	t *testing.T
	c *chain.Chain
}

func newScen(t *testing.T) *scen {
	c := chain.New(t, 7)
	c.AdvanceBlock(0)
	spec := chain.MakeSpec("SP0", false, 1000, c.Denom())
	c.TS.AddSpec(spec.Index, spec)
	c.AdvanceEpoch()
	return &scen{t: t, c: c}
}

func (s *scen) harness(err error, what string) {
	if err != nil {
		s.t.Fatalf("%s", ev.HarnessError("%s: %v", what, err))
	}
}

func (s *scen) account(balance int64) sigs.Account {
	return chainAccount(s.c, balance)
}

func (s *scen) plan(idx string, price int64, totalCU uint64, discount uint64) planstypes.Plan {
	return planstypes.Plan{Index: idx, Description: "scenario", Type: "rpc", Price: sdk.NewCoin(s.c.Denom(), sdk.NewInt(price)),
		AnnualDiscountPercentage: discount, ProjectsLimit: 5,
		PlanPolicy: planstypes.Policy{TotalCuLimit: totalCU, EpochCuLimit: totalCU, MaxProvidersToPair: 3, GeolocationProfile: 1}}
}

func (s *scen) addPlan(p planstypes.Plan) error {
	return s.c.Tx("planAdd("+p.Index+")", p.ValidatePlan, func() error { return s.c.TS.TxProposalAddPlans(p) })
}

func (s *scen) delPlan(idx string) error {
	return s.c.Tx("planDel("+idx+")", nil, func() error { return s.c.TS.TxProposalDelPlans(idx) })
}

func (s *scen) buy(creator, consumer sigs.Account, idx string, months int, auto, adv bool) error {
	msg := &subscriptiontypes.MsgBuy{Creator: creator.Addr.String(), Consumer: consumer.Addr.String(), Index: idx, Duration: uint64(months), AutoRenewal: auto, AdvancePurchase: adv}
	return s.c.Tx(fmt.Sprintf("buy(%s,%dm,auto=%v,adv=%v)", idx, months, auto, adv), msg.ValidateBasic, func() error {
		_, err := s.c.TS.Servers.SubscriptionServer.Buy(s.c.TS.GoCtx, msg)
		return err
	})
}

func (s *scen) autoRenew(creator, consumer sigs.Account, enable bool, idx string) error {
	msg := &subscriptiontypes.MsgAutoRenewal{Creator: creator.Addr.String(), Consumer: consumer.Addr.String(), Enable: enable, Index: idx}
	return s.c.Tx(fmt.Sprintf("autoRenew(%v,%s)", enable, idx), msg.ValidateBasic, func() error {
		_, err := s.c.TS.Servers.SubscriptionServer.AutoRenewal(s.c.TS.GoCtx, msg)
		return err
	})
}

func (s *scen) sub(consumer sigs.Account) (subscriptiontypes.Subscription, bool) {
	return s.c.TS.Keepers.Subscription.GetSubscription(s.c.TS.Ctx, consumer.Addr.String())
}

func (s *scen) newestSub(consumer sigs.Account) (subscriptiontypes.Subscription, bool) {
	sub, _, found := s.c.TS.Keepers.Subscription.GetSubscriptionForBlock(s.c.TS.Ctx, consumer.Addr.String(), s.c.TS.Keepers.Epochstorage.GetCurrentNextEpoch(s.c.TS.Ctx))
	return sub, found
}

// toExpiry jumps (one block) to extra seconds after the month expiry of the consumer's subscription.
func (s *scen) toExpiry(consumer sigs.Account, extra int64) {
	s.c.AdvanceEpoch()
	sub, found := s.newestSub(consumer)
	if !found {
		return
	}
	delta := time.Duration(int64(sub.MonthExpiryTime)-s.c.TS.Ctx.BlockTime().Unix()+extra) * time.Second
	s.c.AdvanceBlock(delta)
}

func (s *scen) pastStale() {
	n := int(s.c.TS.Keepers.Epochstorage.BlocksToSaveRaw(s.c.TS.Ctx)) + 25
	s.c.AdvanceBlocks(n, time.Second)
}

// planRefs dumps the stored versions of a plan index (block:refcount[:staleAt]).
func (s *scen) planRefs(idx string) string {
	out := ""
	gs := s.c.TS.Keepers.Plans.ExportPlans(s.c.TS.Ctx)
	for _, ge := range gs.Entries {
		if ge.Index != idx {
			continue
		}
		for _, en := range ge.Entries {
			out += fmt.Sprintf(" {@%d refs=%d latest=%v staleAt=%d deleteAt=%d}", en.Block, en.Refcount, en.IsLatest, en.StaleAt, en.DeleteAt)
		}
	}
	return out
}

func chainAccount(c *chain.Chain, balance int64) sigs.Account {
	w := &chain.World{C: c, Keys: map[string]sigs.Account{}}
	return w.NewAccount(balance)
}
