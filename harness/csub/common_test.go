package csub

import (
	"fmt"
	"os"
	"sort"
	"strings"
	"testing"
	"time"

	sdk "github.com/cosmos/cosmos-sdk/types"
	"github.com/lavanet/lava/v5/utils/sigs"
	planstypes "github.com/lavanet/lava/v5/x/plans/types"
	projectstypes "github.com/lavanet/lava/v5/x/projects/types"
	subscriptiontypes "github.com/lavanet/lava/v5/x/subscription/types"
	"pgregory.net/rapid"

	testkeeper "github.com/lavanet/lava/v5/testutil/keeper"

	"verifharness/internal/chain"
	"verifharness/internal/ev"
)

// ---------------------------------------------------------------------------------------------
// Reference model (written from the statements of C12/C13 and the documented rules in
// x/subscription/keeper/subscription.go's comments; DESIGN.md appendix A.2).
// ---------------------------------------------------------------------------------------------

var debugRefs = os.Getenv("CSUB_DEBUG") != ""

const autoNone = "none" // documented sentinel of "auto-renewal off"

// planVer is one governance-approved version of a plan index.
type planVer struct {
	Block    uint64
	Price    int64
	Discount uint64
	TotalCU  uint64
	life     int
}

// planModel: all versions ever approved for an index; a delete proposal ends a "life" at the
// next epoch start, a later add starts a new life.
type planModel struct {
	vers      []planVer
	lifeDelAt []uint64 // per life, the block at which the index stops being available (0 = never)
}

// latest returns the version new purchases get at block b (newest version not later than b,
// unless the index was deleted by b).
func (p *planModel) latest(b uint64) (planVer, bool) {
	if p == nil {
		return planVer{}, false
	}
	for i := len(p.vers) - 1; i >= 0; i-- {
		if p.vers[i].Block <= b {
			v := p.vers[i]
			if d := p.lifeDelAt[v.life]; d != 0 && d <= b {
				return planVer{}, false
			}
			return v, true
		}
	}
	return planVer{}, false
}

// at returns the exact version (index, block).
func (p *planModel) at(block uint64) (planVer, bool) {
	if p == nil {
		return planVer{}, false
	}
	for i := len(p.vers) - 1; i >= 0; i-- {
		if p.vers[i].Block == block {
			return p.vers[i], true
		}
	}
	return planVer{}, false
}

type futModel struct {
	creator string
	plan    string
	block   uint64
	months  int
	credit  int64 // full price of the advance purchase
}

// subModel is what the statement of C12 lets us predict about one consumer's subscription.
type subModel struct {
	exists    bool // in the newest view (the version that is or becomes effective at the next epoch start)
	curExists bool // in the view of the current block
	goneAt    uint64
	left      int
	plan      string
	planBlock uint64
	creator   string
	future    *futModel
	autoPlan  string
	expiry    uint64 // documented month expiry (NextMonth contract) of the newest view
	cuTotal   uint64
	fresh     bool // a month boundary / (re)creation just happened and no CU was charged since
}

// price is the statement's charging formula: plan price times months, after the annual
// discount (integer arithmetic, truncating, as documented in applyPlanDiscountIfEligible).
func price(v planVer, months int) int64 {
	p := v.Price * int64(months)
	if months >= 12 && v.Discount > 0 {
		p = p * int64(100-v.Discount) / 100
	}
	return p
}

// nextMonthModel is the documented contract of utils.NextMonth: same day and time of the next
// calendar month, days 29..31 trimmed to 28.
func nextMonthModel(t time.Time) uint64 {
	t = t.UTC()
	y, mo, d := t.Date()
	if d > 28 {
		d = 28
	}
	mo++
	if mo > 12 {
		mo = 1
		y++
	}
	return uint64(time.Date(y, mo, d, t.Hour(), t.Minute(), t.Second(), 0, time.UTC).Unix())
}

// ---------------------------------------------------------------------------------------------
// Environment
// ---------------------------------------------------------------------------------------------

type subSnap struct {
	found bool
	sub   subscriptiontypes.Subscription
}

type env struct {
	prop   string
	strict bool // C12: compare the chain with the months model
	refs   bool // C13: plan-reference oracle
	col    *ev.Collector
	w      *chain.World
	outer  *testing.T

	plans    map[string]*planModel
	planIdxs []string
	subs     map[string]*subModel
	cons     []*chain.Cons
	payers   []sigs.Account
	accounts []string // every account whose balance the model explains (consumers and payers)
	names    map[string]string

	prev    map[string]subSnap // newest view of every consumer before the next block
	prevCur map[string]subSnap
	prevBal map[string]int64

	viol    string
	classes map[string]int
	kinds   map[string]bool // {upgrade, advance-activated, auto-renewed, ...} seen in this history

	// C13 bookkeeping
	planChangedAt map[string]uint64 // consumer -> height at which its referenced plan index got a newer version / was deleted
	outlived      bool

	exclRenewSwitch bool // known finding c13-renew-ref-not-moved: avoid renewals onto another plan version
	exclRenewCu     bool // known finding c12-renew-keeps-cu-total
	exclProjWindow  bool // known finding c12-project-added-in-removal-window
}

func (e *env) ctx() sdk.Context        { return e.w.C.TS.Ctx }
func (e *env) ks() *testkeeper.Keepers { return e.w.C.TS.Keepers }
func (e *env) height() uint64          { return e.w.C.Height() }
func (e *env) now() time.Time          { return e.ctx().BlockTime().UTC() }
func (e *env) nextEpoch() uint64       { return e.ks().Epochstorage.GetCurrentNextEpoch(e.ctx()) }
func (e *env) name(addr string) string { return e.names[addr] }
func (e *env) class(c string)          { e.classes[c]++ }
func (e *env) kind(k string)           { e.kinds[k] = true; e.classes[k]++ }
func (e *env) hist(n int) string       { return strings.Join(e.w.C.HistTail(n), "\n  ") }
func (e *env) bal(addr string) int64 {
	return e.w.C.Balance(sdk.MustAccAddressFromBech32(addr)).Int64()
}
func (e *env) moduleBal() int64 {
	return e.w.C.ModuleBalance(subscriptiontypes.ModuleName).AmountOf(e.w.C.Denom()).Int64()
}

// violate records the first violation; it is raised by raise() outside of the block hook
// (AdvanceBlock recovers panics, and rapid's Fatalf is a panic).
func (e *env) violate(format string, args ...any) {
	if e.viol == "" {
		e.viol = fmt.Sprintf(format, args...)
	}
}

func (e *env) raise(rt *rapid.T) {
	if e.viol != "" {
		rt.Fatalf("%s", ev.Violation(e.prop, "%s\nhistory (tail):\n  %s", e.viol, e.hist(60)))
	}
}

func (e *env) latestView(addr string) subSnap {
	return e.viewAt(addr, e.nextEpoch())
}

func (e *env) viewAt(addr string, block uint64) subSnap {
	sub, _, found := e.ks().Subscription.GetSubscriptionForBlock(e.ctx(), addr, block)
	return subSnap{found: found, sub: sub}
}

// pendingVersion: some subscription has a newer version (or its removal) scheduled for the next
// epoch start.
func (e *env) pendingVersion() bool {
	ne := e.nextEpoch()
	for _, c := range e.cons {
		cv, lv := e.currentView(c.Addr()), e.viewAt(c.Addr(), ne)
		if cv.found != lv.found || (cv.found && cv.sub.Block != lv.sub.Block) {
			return true
		}
	}
	return false
}

func (e *env) currentView(addr string) subSnap {
	sub, found := e.ks().Subscription.GetSubscription(e.ctx(), addr)
	return subSnap{found: found, sub: sub}
}

func (e *env) resnap() {
	for _, c := range e.cons {
		e.prev[c.Addr()] = e.latestView(c.Addr())
		e.prevCur[c.Addr()] = e.currentView(c.Addr())
	}
	for _, a := range e.accounts {
		e.prevBal[a] = e.bal(a)
	}
}

type envCfg struct {
	prop   string
	strict bool
	refs   bool
}

// newEnv builds a world (specs, providers, 1-2 consumers with a subscription from the world
// generator) and adds consumers without a subscription, payer accounts (one of them poor) and a
// model of the plans. The subscriptions created by the world generator are adopted into the
// model from their initial state.
func newEnv(rt *rapid.T, outer *testing.T, col *ev.Collector, cfg envCfg) *env {
	w := chain.NewWorld(rt, outer, chain.Cfg{Specs: [2]int{1, 1}, Plans: [2]int{2, 3}, Validators: [2]int{1, 1},
		Providers: [2]int{2, 3}, Consumers: [2]int{1, 2}, Delegators: [2]int{0, 0}})
	e := &env{prop: cfg.prop, strict: cfg.strict, refs: cfg.refs, col: col, w: w, outer: outer,
		plans: map[string]*planModel{}, subs: map[string]*subModel{}, names: map[string]string{},
		prev: map[string]subSnap{}, prevCur: map[string]subSnap{}, prevBal: map[string]int64{},
		classes: map[string]int{}, kinds: map[string]bool{}, planChangedAt: map[string]uint64{}}
	// plans of the world: read their stored versions (the world generator adds each once)
	for _, p := range w.Plans {
		stored, found := e.ks().Plans.FindPlan(e.ctx(), p.Index, e.height())
		if !found {
			outer.Fatalf("%s", ev.HarnessError("world plan %s not found", p.Index))
		}
		e.plans[p.Index] = &planModel{vers: []planVer{{Block: stored.Block, Price: stored.Price.Amount.Int64(),
			Discount: stored.AnnualDiscountPercentage, TotalCU: stored.PlanPolicy.TotalCuLimit}}, lifeDelAt: []uint64{0}}
		e.planIdxs = append(e.planIdxs, p.Index)
	}
	// extra consumers without a subscription
	nExtra := rapid.IntRange(1, 2).Draw(rt, "extraConsumers")
	for i := 0; i < nExtra; i++ {
		acc := w.NewAccount(w.Cfg.Balance)
		c := &chain.Cons{Name: fmt.Sprintf("xcons%d", i), Acc: acc, Devs: []sigs.Account{acc}}
		w.Consumers = append(w.Consumers, c)
	}
	e.cons = w.Consumers
	// start date: the fixed chain start is 2024-05-01; shift it (one block, before anything is
	// modelled) so that histories also start near month ends, in January and in February
	if shift := rapid.SampledFrom([]int{0, 0, 0, 27, 28, 29, 271, 272, 273, 274, 302, 637, 638}).Draw(rt, "startShiftDays"); shift > 0 {
		w.C.AdvanceBlock(time.Duration(shift) * 24 * time.Hour)
		w.C.AdvanceEpoch()
	}
	// payers: one rich, one poor (its balance allows only a few months, so that renewals and
	// purchases fail for insufficient funds)
	rich := w.NewAccount(w.Cfg.Balance)
	poorBal := int64(rapid.SampledFrom([]int{150, 2500, 30_000, 1_500_000}).Draw(rt, "poorBalance"))
	poor := w.NewAccount(poorBal)
	e.payers = []sigs.Account{rich, poor}
	e.names[rich.Addr.String()] = "rich"
	e.names[poor.Addr.String()] = "poor"
	for _, c := range e.cons {
		e.names[c.Addr()] = c.Name
		e.accounts = append(e.accounts, c.Addr())
		m := &subModel{autoPlan: autoNone}
		if s := e.currentView(c.Addr()); s.found {
			pv, _ := e.plans[s.sub.PlanIndex].at(s.sub.PlanBlock)
			m = &subModel{exists: true, curExists: true, left: int(s.sub.DurationLeft), plan: s.sub.PlanIndex, planBlock: s.sub.PlanBlock,
				creator: s.sub.Creator, autoPlan: s.sub.AutoRenewalNextPlan, expiry: s.sub.MonthExpiryTime, cuTotal: pv.TotalCU, fresh: true}
		}
		e.subs[c.Addr()] = m
	}
	e.accounts = append(e.accounts, rich.Addr.String(), poor.Addr.String())
	sort.Strings(e.accounts)
	e.resnap()
	w.C.BlockHook = e.afterBlock
	w.C.Hist = nil
	return e
}

// ---------------------------------------------------------------------------------------------
// Block hook: observe month expiries (never predict when they happen), step the model, compare.
// ---------------------------------------------------------------------------------------------

func (e *env) afterBlock() {
	if e.viol != "" {
		return
	}
	h := e.height()
	now := e.now()
	type firing struct {
		addr string
		pre  subSnap
		post subSnap
	}
	var fired []firing
	ne := e.nextEpoch()
	epochStart := e.ks().Epochstorage.GetEpochStart(e.ctx()) == h
	posts := map[string]subSnap{}
	for _, c := range e.cons {
		addr := c.Addr()
		pre, post := e.prev[addr], e.viewAt(addr, ne)
		posts[addr] = post
		if !pre.found && post.found {
			if e.strict {
				e.violate("subscription of %s appeared during block processing at height %d", c.Name, h)
			}
			continue
		}
		if !pre.found {
			continue
		}
		if !post.found || post.sub.MonthExpiryTime != pre.sub.MonthExpiryTime {
			fired = append(fired, firing{addr, pre, post})
			continue
		}
		if e.strict {
			// the month timer did not fire: then the month must not be over yet
			e.col.Clause("month-timer-fires-when-due")
			if uint64(now.Unix()) >= pre.sub.MonthExpiryTime {
				e.violate("month expiry of %s was due at %d but nothing happened in the block at time %d (height %d): subscription lives longer than paid for",
					c.Name, pre.sub.MonthExpiryTime, now.Unix(), h)
			}
		}
	}
	sort.Slice(fired, func(i, j int) bool {
		if fired[i].pre.sub.MonthExpiryTime != fired[j].pre.sub.MonthExpiryTime {
			return fired[i].pre.sub.MonthExpiryTime < fired[j].pre.sub.MonthExpiryTime
		}
		return fired[i].addr < fired[j].addr
	})
	charges := map[string]int64{}
	running := map[string]int64{}
	for a, b := range e.prevBal {
		running[a] = b
	}
	for _, f := range fired {
		e.w.C.Logf("observed month expiry of %s (left before: %d, future=%v, auto=%s) -> exists=%v", e.name(f.addr), f.pre.sub.DurationLeft,
			f.pre.sub.FutureSubscription != nil, f.pre.sub.AutoRenewalNextPlan, f.post.found)
		if debugRefs {
			e.w.C.Logf("   DEBUG plan %s:%s", f.pre.sub.PlanIndex, e.planRefs(f.pre.sub.PlanIndex))
		}
		if uint64(now.Unix()) < f.pre.sub.MonthExpiryTime && e.strict {
			e.col.Clause("month-timer-not-early")
			e.violate("month expiry of %s fired at time %d, before its expiry time %d", e.name(f.addr), now.Unix(), f.pre.sub.MonthExpiryTime)
		}
		if e.strict {
			e.stepMonth(f.addr, h, now, running, charges)
		}
		if e.refs {
			e.refsAtExpiry(f.addr, f.pre, f.post, h)
		}
	}
	if e.strict && (len(fired) > 0 || epochStart) {
		// creators are charged exactly the predicted renewals, nobody else is touched
		for _, a := range e.accounts {
			e.col.Clause("block-balance-delta")
			want := e.prevBal[a] - charges[a]
			if got := e.bal(a); got != want {
				e.violate("balance of %s changed by %d during block processing at height %d, expected -%d (auto-renewal charges)", e.name(a), got-e.prevBal[a], h, charges[a])
			}
		}
		// subscriptions whose removal becomes effective at this block
		for _, c := range e.cons {
			m := e.subs[c.Addr()]
			if m.goneAt != 0 && h >= m.goneAt {
				m.goneAt = 0
				if !m.exists {
					m.curExists = false
				}
			}
		}
		e.compareAll("after the block at height " + fmt.Sprint(h))
	}
	if len(fired) > 0 || epochStart {
		e.resnap()
	} else {
		for a, p := range posts {
			e.prev[a] = p
		}
	}
	if e.refs {
		e.refsOracle(h)
	}
}

// stepMonth applies one observed month expiry to the model.
func (e *env) stepMonth(addr string, h uint64, now time.Time, running, charges map[string]int64) {
	m := e.subs[addr]
	if !m.exists {
		e.violate("month expiry observed for %s but the model has no subscription", e.name(addr))
		return
	}
	m.left--
	m.fresh = true
	m.expiry = nextMonthModel(now)
	e.class("month-expiry")
	if d := now.Day(); d > 28 {
		e.class("expiry-processed-on-day-29-31")
	}
	if m.left > 0 {
		return
	}
	remove := func(why string) {
		e.class("removed:" + why)
		m.exists = false
		m.goneAt = e.nextEpoch()
		m.future = nil
		m.left = 0
	}
	switch {
	case m.future != nil:
		f := m.future
		pv, ok := e.plans[f.plan].at(f.block)
		if !ok {
			e.violate("model: advance purchase of %s references unknown plan version %s@%d", e.name(addr), f.plan, f.block)
			return
		}
		m.left, m.plan, m.planBlock, m.creator, m.cuTotal, m.future = f.months, f.plan, f.block, f.creator, pv.TotalCU, nil
		e.kind("advance-activated")
	case m.autoPlan != autoNone:
		pv, ok := e.plans[m.autoPlan].latest(h)
		if !ok {
			remove("auto-renew-plan-deleted")
			return
		}
		if running[m.creator] < pv.Price {
			remove("auto-renew-insufficient-funds")
			return
		}
		running[m.creator] -= pv.Price
		charges[m.creator] += pv.Price
		if m.plan != m.autoPlan {
			e.class("auto-renewed-onto-other-plan")
		} else if m.planBlock != pv.Block {
			e.class("auto-renewed-onto-newer-version")
		}
		if pv.TotalCU != m.cuTotal {
			e.class("auto-renewed-with-different-cu-total")
		}
		m.left, m.plan, m.planBlock, m.cuTotal = 1, m.autoPlan, pv.Block, pv.TotalCU
		e.kind("auto-renewed")
	default:
		remove("expired")
	}
}

// compareAll compares every consumer's subscription with the model (C12 oracle).
func (e *env) compareAll(where string) {
	if e.viol != "" {
		return
	}
	h := e.height()
	for _, c := range e.cons {
		addr := c.Addr()
		m := e.subs[addr]
		lv := e.latestView(addr)
		cv := e.currentView(addr)
		e.col.Clause("exists-iff-months-left")
		if lv.found != m.exists {
			e.violate("%s: subscription of %s exists=%v but the model says exists=%v (months left in model: %d, chain DurationLeft=%d)", where, c.Name, lv.found, m.exists, m.left, lv.sub.DurationLeft)
			return
		}
		if cv.found != m.curExists {
			e.violate("%s: subscription of %s is visible at the current block=%v, model says %v (removal becomes effective at the epoch start after the last expiry)", where, c.Name, cv.found, m.curExists)
			return
		}
		if !m.curExists && !m.exists {
			e.col.Clause("projects-vanish-with-subscription")
			for _, id := range e.projectIDs(c) {
				if _, err := e.ks().Projects.GetProjectForBlock(e.ctx(), id, h); err == nil {
					e.violate("%s: subscription of %s is gone but its project %s still exists at height %d", where, c.Name, id, h)
					return
				}
			}
			if res, err := e.w.C.TS.QuerySubscriptionListProjects(addr); err == nil && len(res.Projects) > 0 {
				e.violate("%s: subscription of %s is gone but list-projects still returns %v", where, c.Name, res.Projects)
				return
			}
		}
		if cv.found {
			e.col.Clause("month-cu-bounds")
			if cv.sub.MonthCuLeft > cv.sub.MonthCuTotal {
				e.violate("%s: %s has MonthCuLeft %d > MonthCuTotal %d (current view)", where, c.Name, cv.sub.MonthCuLeft, cv.sub.MonthCuTotal)
				return
			}
			e.col.Clause("admin-project-while-active")
			if m.exists {
				if _, err := e.ks().Projects.GetProjectForBlock(e.ctx(), chain.AdminProject(addr), h); err != nil {
					e.violate("%s: %s has an active subscription but no admin project at height %d: %v", where, c.Name, h, err)
					return
				}
			}
		}
		if !lv.found {
			continue
		}
		s := lv.sub
		e.col.Clause("months-left")
		if int(s.DurationLeft) != m.left {
			e.violate("%s: %s has DurationLeft %d, the model says %d months are left", where, c.Name, s.DurationLeft, m.left)
			return
		}
		e.col.Clause("plan-reference")
		if s.PlanIndex != m.plan || s.PlanBlock != m.planBlock {
			e.violate("%s: %s is on plan %s@%d, the model says %s@%d", where, c.Name, s.PlanIndex, s.PlanBlock, m.plan, m.planBlock)
			return
		}
		if s.Creator != m.creator {
			e.violate("%s: %s has creator %s, the model says %s", where, c.Name, e.name(s.Creator), e.name(m.creator))
			return
		}
		if s.AutoRenewalNextPlan != m.autoPlan {
			e.violate("%s: %s has auto-renewal plan %q, the model says %q", where, c.Name, s.AutoRenewalNextPlan, m.autoPlan)
			return
		}
		e.col.Clause("advance-purchase-record")
		switch {
		case (s.FutureSubscription == nil) != (m.future == nil):
			e.violate("%s: %s advance purchase present=%v, model says %v", where, c.Name, s.FutureSubscription != nil, m.future != nil)
			return
		case m.future != nil:
			f := s.FutureSubscription
			if f.PlanIndex != m.future.plan || f.PlanBlock != m.future.block || int(f.DurationBought) != m.future.months ||
				f.Creator != m.future.creator || !f.Credit.Amount.Equal(sdk.NewInt(m.future.credit)) {
				e.violate("%s: %s advance purchase is {%s@%d %dm by %s credit %s}, model says {%s@%d %dm by %s credit %d}", where, c.Name,
					f.PlanIndex, f.PlanBlock, f.DurationBought, e.name(f.Creator), f.Credit.Amount, m.future.plan, m.future.block, m.future.months, e.name(m.future.creator), m.future.credit)
				return
			}
		}
		e.col.Clause("month-cu-bounds")
		if s.MonthCuLeft > s.MonthCuTotal {
			e.violate("%s: %s has MonthCuLeft %d > MonthCuTotal %d", where, c.Name, s.MonthCuLeft, s.MonthCuTotal)
			return
		}
		e.col.Clause("month-cu-total-is-plan-total")
		if s.MonthCuTotal != m.cuTotal {
			e.violate("%s: %s has MonthCuTotal %d but its plan %s@%d has a monthly total of %d", where, c.Name, s.MonthCuTotal, m.plan, m.planBlock, m.cuTotal)
			return
		}
		if m.fresh {
			e.col.Clause("month-cu-reset-at-boundary")
			if s.MonthCuLeft != m.cuTotal {
				e.violate("%s: %s has MonthCuLeft %d right after a month boundary, plan total is %d", where, c.Name, s.MonthCuLeft, m.cuTotal)
				return
			}
		}
		e.col.Clause("month-expiry-date")
		if s.MonthExpiryTime != m.expiry {
			e.violate("%s: %s has MonthExpiryTime %s, documented next-month rule gives %s", where, c.Name,
				time.Unix(int64(s.MonthExpiryTime), 0).UTC().Format(time.RFC3339), time.Unix(int64(m.expiry), 0).UTC().Format(time.RFC3339))
			return
		}
	}
}

var projNames = []string{"pa", "pb"}

func (e *env) projectIDs(c *chain.Cons) []string {
	ids := []string{chain.AdminProject(c.Addr())}
	for _, n := range projNames {
		ids = append(ids, projectstypes.ProjectIndex(c.Addr(), n))
	}
	return ids
}

// ---------------------------------------------------------------------------------------------
// C13 oracle
// ---------------------------------------------------------------------------------------------

var planGoneMarkers = []string{
	"failed to find existing subscription plan",
	"failed to find plan for current subscription",
	"could not future subscription's plan",
	"could not find plan. removing subscription",
}

func planGoneError(err error) bool {
	if err == nil {
		return false
	}
	s := err.Error()
	for _, m := range planGoneMarkers {
		if strings.Contains(s, m) {
			return true
		}
	}
	return false
}

// refsOracle: every plan version referenced by a live subscription (current or newest view, and
// its advance purchase) can be looked up.
func (e *env) refsOracle(h uint64) {
	if e.viol != "" {
		return
	}
	for _, c := range e.cons {
		// the snapshots are refreshed after every transaction, every observed expiry and every
		// epoch start, i.e. whenever a view can change
		for vi, v := range []subSnap{e.prevCur[c.Addr()], e.prev[c.Addr()]} {
			if !v.found {
				continue
			}
			view := []string{"current", "next-epoch"}[vi]
			e.col.Clause("referenced-plan-version-found")
			p, found := e.ks().Plans.FindPlan(e.ctx(), v.sub.PlanIndex, v.sub.PlanBlock)
			if !found || p.Block != v.sub.PlanBlock || p.Index != v.sub.PlanIndex {
				e.violate("height %d: live subscription of %s (%s view, %d months left, expiry %d) references plan %s@%d which can no longer be looked up (found=%v, got block %d); stored versions of %s:%s",
					h, c.Name, view, v.sub.DurationLeft, v.sub.MonthExpiryTime, v.sub.PlanIndex, v.sub.PlanBlock, found, p.Block, v.sub.PlanIndex, e.planRefs(v.sub.PlanIndex))
				return
			}
			if f := v.sub.FutureSubscription; f != nil {
				e.col.Clause("advance-purchase-plan-version-found")
				p, found := e.ks().Plans.FindPlan(e.ctx(), f.PlanIndex, f.PlanBlock)
				if !found || p.Block != f.PlanBlock {
					e.violate("height %d: advance purchase of %s references plan %s@%d which can no longer be looked up", h, c.Name, f.PlanIndex, f.PlanBlock)
					return
				}
			}
			if at, ok := e.planChangedAt[c.Addr()+"|"+v.sub.PlanIndex+"|"+fmt.Sprint(v.sub.PlanBlock)]; ok && h > at+e.staleBlocks()+1 {
				e.outlived = true
			}
		}
	}
}

// planRefs dumps the stored versions of a plan index (diagnostics only).
func (e *env) planRefs(idx string) string {
	out := ""
	for _, ge := range e.ks().Plans.ExportPlans(e.ctx()).Entries {
		if ge.Index != idx {
			continue
		}
		for _, en := range ge.Entries {
			out += fmt.Sprintf(" {@%d refs=%d latest=%v staleAt=%d deleteAt=%d}", en.Block, en.Refcount, en.IsLatest, int64(en.StaleAt), int64(en.DeleteAt))
		}
	}
	return out
}

func (e *env) staleBlocks() uint64 { return e.ks().Epochstorage.BlocksToSaveRaw(e.ctx()) }

// refsAtExpiry: an expiry must not drop a subscription whose advance purchase is waiting.
func (e *env) refsAtExpiry(addr string, pre, post subSnap, h uint64) {
	switch {
	case !post.found:
		e.class("expiry:removed")
	case pre.sub.DurationLeft > 1:
		e.class("expiry:month")
	case pre.sub.FutureSubscription != nil:
		e.class("expiry:advance-activated")
	case post.sub.PlanIndex != pre.sub.PlanIndex:
		e.class("expiry:renewed-onto-other-plan")
	case post.sub.PlanBlock != pre.sub.PlanBlock:
		e.class("expiry:renewed-onto-newer-version")
	default:
		e.class("expiry:renewed-same-version")
	}
	if pre.sub.DurationLeft == 1 && pre.sub.FutureSubscription != nil {
		e.col.Clause("advance-purchase-activates")
		if !post.found {
			e.violate("height %d: subscription of %s expired with an advance purchase of %s@%d waiting, but it was removed instead of activated", h, e.name(addr),
				pre.sub.FutureSubscription.PlanIndex, pre.sub.FutureSubscription.PlanBlock)
		}
	}
}

// refsQueries: pairing / effective-policy / subscription queries of live consumers never fail
// because of a vanished plan version.
func (e *env) refsQueries() {
	if e.viol != "" {
		return
	}
	ts := e.w.C.TS
	for _, c := range e.cons {
		if v := e.currentView(c.Addr()); !v.found {
			continue
		}
		for _, s := range e.w.Specs {
			e.col.Clause("pairing-query-no-plan-error")
			if _, err := ts.QueryPairingGetPairing(s.Index, c.Addr()); planGoneError(err) {
				e.violate("get-pairing(%s,%s) failed because a referenced plan version vanished: %v", s.Index, c.Name, err)
				return
			}
			if _, err := ts.QueryPairingEffectivePolicy(s.Index, c.Addr()); planGoneError(err) {
				e.violate("effective-policy(%s,%s) failed because a referenced plan version vanished: %v", s.Index, c.Name, err)
				return
			}
		}
		if _, err := e.ks().Subscription.GetPlanFromSubscription(e.ctx(), c.Addr(), e.height()); err != nil {
			e.violate("GetPlanFromSubscription(%s) failed for a live subscription: %v", c.Name, err)
			return
		}
	}
}

// ---------------------------------------------------------------------------------------------
// Actions
// ---------------------------------------------------------------------------------------------

func pick[T any](t *rapid.T, label string, xs []T) T {
	return xs[rapid.IntRange(0, len(xs)-1).Draw(t, label)]
}

// tx wraps Chain.Tx and, for C13, flags failures caused by a vanished plan version.
func (e *env) tx(name string, validate func() error, fn func() error) error {
	err := e.w.C.Tx(name, validate, fn)
	if e.refs && planGoneError(err) {
		e.violate("transaction %s failed because a plan version referenced by a live subscription vanished: %v", name, err)
	}
	return err
}

func (e *env) actBuy(rt *rapid.T) {
	c := pick(rt, "consumer", e.cons)
	creator := c.Addr()
	switch rapid.IntRange(0, 5).Draw(rt, "creatorKind") {
	case 0:
		creator = e.payers[0].Addr.String()
	case 1, 2:
		creator = e.payers[1].Addr.String()
	}
	idx := pick(rt, "plan", e.planIdxs)
	months := rapid.SampledFrom([]int{1, 1, 1, 2, 3, 6, 11, 12}).Draw(rt, "months")
	adv := rapid.IntRange(0, 3).Draw(rt, "advance") == 0
	auto := rapid.IntRange(0, 2).Draw(rt, "autoRenew") == 0
	e.buy(rt, c, creator, idx, months, auto, adv)
}

// actBuyDirected draws purchases that are likely accepted: extension of the current plan,
// upgrade to a plan that is not cheaper, advance purchases that are more expensive than the
// waiting one.
func (e *env) actBuyDirected(rt *rapid.T) {
	var live []*chain.Cons
	for _, c := range e.cons {
		if e.latestView(c.Addr()).found {
			live = append(live, c)
		}
	}
	if len(live) == 0 {
		rt.Skip("no live subscription")
	}
	c := pick(rt, "consumer", live)
	s := e.latestView(c.Addr()).sub
	creator := s.Creator
	if rapid.Bool().Draw(rt, "byConsumer") {
		creator = c.Addr()
	}
	months := rapid.SampledFrom([]int{1, 1, 2, 3, 12}).Draw(rt, "months")
	switch rapid.SampledFrom([]string{"extend", "upgrade", "advance", "advance"}).Draw(rt, "kind") {
	case "extend":
		e.buy(rt, c, creator, s.PlanIndex, months, false, false)
	case "upgrade":
		var others []string
		for _, i := range e.planIdxs {
			if i != s.PlanIndex {
				others = append(others, i)
			}
		}
		if len(others) == 0 {
			rt.Skip("one plan")
		}
		e.buy(rt, c, creator, pick(rt, "plan", others), months, false, false)
	default:
		e.buy(rt, c, creator, pick(rt, "plan", e.planIdxs), months, false, true)
	}
}

// actBuyAutoPoor: a consumer without subscription gets one month with auto-renewal paid by the
// poor payer, on the cheapest available plan (so that renewals succeed a few times and then fail
// for insufficient funds).
func (e *env) actBuyAutoPoor(rt *rapid.T) {
	var free []*chain.Cons
	for _, c := range e.cons {
		if !e.latestView(c.Addr()).found && !e.currentView(c.Addr()).found {
			free = append(free, c)
		}
	}
	if len(free) == 0 {
		rt.Skip("every consumer has a subscription")
	}
	c := pick(rt, "consumer", free)
	best, bestPrice := "", int64(0)
	for _, idx := range e.planIdxs {
		if p, ok := e.ks().Plans.FindPlan(e.ctx(), idx, e.height()); ok && (best == "" || p.Price.Amount.Int64() < bestPrice) {
			best, bestPrice = idx, p.Price.Amount.Int64()
		}
	}
	if best == "" {
		rt.Skip("no plan")
	}
	e.buy(rt, c, e.payers[1].Addr.String(), best, 1, true, false)
}

func (e *env) buy(rt *rapid.T, c *chain.Cons, creator, idx string, months int, auto, adv bool) {
	msg := &subscriptiontypes.MsgBuy{Creator: creator, Consumer: c.Addr(), Index: idx, Duration: uint64(months), AutoRenewal: auto, AdvancePurchase: adv}
	balBefore, modBefore := e.bal(creator), e.moduleBal()
	others := map[string]int64{}
	for _, a := range e.accounts {
		others[a] = e.bal(a)
	}
	err := e.tx(fmt.Sprintf("buy(%s by %s,%s,%dm,auto=%v,adv=%v)", c.Name, e.name(creator), idx, months, auto, adv), msg.ValidateBasic, func() error {
		_, err := e.w.C.TS.Servers.SubscriptionServer.Buy(e.w.C.TS.GoCtx, msg)
		return err
	})
	if err != nil {
		e.class("buy-rejected")
		e.raise(rt)
		return
	}
	if e.refs {
		e.class("buy-accepted")
	}
	if e.strict {
		charged := balBefore - e.bal(creator)
		want, ok := e.onBuy(c, creator, idx, months, auto, adv)
		if ok {
			e.col.Clause("purchase-charge-exact")
			if charged != want {
				e.violate("purchase %s by %s of %s for %d months (advance=%v) debited the creator %d, the statement's formula gives %d", c.Name, e.name(creator), idx, months, adv, charged, want)
			}
			if got := e.moduleBal() - modBefore; got != want {
				e.violate("purchase %s by %s of %s for %d months: the subscription module received %d, expected %d", c.Name, e.name(creator), idx, months, got, want)
			}
			for _, a := range e.accounts {
				if a != creator && e.bal(a) != others[a] {
					e.violate("purchase by %s changed the balance of %s by %d", e.name(creator), e.name(a), e.bal(a)-others[a])
				}
			}
		}
		e.compareAll("after the accepted purchase")
	}
	e.resnap()
	e.raise(rt)
}

// onBuy applies an ACCEPTED purchase to the model and returns the expected debit.
func (e *env) onBuy(c *chain.Cons, creator, idx string, months int, auto, adv bool) (int64, bool) {
	m := e.subs[c.Addr()]
	h := e.height()
	pv, ok := e.plans[idx].latest(h)
	if !ok {
		e.violate("purchase of plan %s for %s was accepted although the plan is not available at height %d", idx, c.Name, h)
		return 0, false
	}
	P := price(pv, months)
	if months >= 12 && pv.Discount > 0 {
		e.class("annual-discount-applied")
	}
	switch {
	case adv:
		if !m.exists {
			e.violate("advance purchase for %s accepted without an active subscription", c.Name)
			return 0, false
		}
		want := P
		if m.future != nil {
			if P <= m.future.credit {
				e.violate("advance purchase for %s (%s, %d months, price %d) replaced a waiting one worth %d that is not cheaper", c.Name, idx, months, P, m.future.credit)
				return 0, false
			}
			want = P - m.future.credit
			e.kind("advance-replaced")
		} else {
			e.kind("advance-purchase")
		}
		m.future = &futModel{creator: creator, plan: idx, block: pv.Block, months: months, credit: P}
		return want, true
	case !m.exists:
		if m.curExists {
			e.class("rebuy-in-removal-window")
		}
		*m = subModel{exists: true, curExists: true, left: months, plan: idx, planBlock: pv.Block, creator: creator, autoPlan: autoNone,
			expiry: nextMonthModel(e.now()), cuTotal: pv.TotalCU, fresh: true}
		if auto {
			m.autoPlan = idx
		}
		e.kind("new")
		if d := e.now().Day(); d > 28 {
			e.class("bought-on-day-29-31")
		}
		if e.now().Month() == time.January && e.now().Day() > 28 {
			e.class("bought-end-of-january")
		}
		return P, true
	case idx == m.plan:
		// extension: months are added; charged at the price of the subscription's plan version
		cur, ok := e.plans[m.plan].at(m.planBlock)
		if !ok {
			e.violate("model: %s is on unknown plan version %s@%d", c.Name, m.plan, m.planBlock)
			return 0, false
		}
		m.left += months
		e.kind("extend")
		if creator != m.creator {
			e.class("extend-by-other-payer")
		}
		return price(cur, months), true
	default:
		// upgrade: remaining months are replaced by the newly bought ones
		cur, ok := e.plans[m.plan].at(m.planBlock)
		if !ok {
			e.violate("model: %s is on unknown plan version %s@%d", c.Name, m.plan, m.planBlock)
			return 0, false
		}
		e.col.Clause("upgrade-not-cheaper")
		if pv.Price < cur.Price {
			e.violate("upgrade of %s from %s@%d (price %d) to the cheaper plan %s (price %d) was accepted", c.Name, m.plan, m.planBlock, cur.Price, idx, pv.Price)
			return 0, false
		}
		m.left, m.plan, m.planBlock, m.cuTotal = months, idx, pv.Block, pv.TotalCU
		m.expiry = nextMonthModel(e.now())
		m.fresh = true
		e.kind("upgrade")
		return P, true
	}
}

func (e *env) actAutoRenew(rt *rapid.T) {
	c := pick(rt, "consumer", e.cons)
	creator := c.Addr()
	switch rapid.IntRange(0, 4).Draw(rt, "creatorKind") {
	case 0:
		creator = e.payers[1].Addr.String()
	case 1:
		if s := e.currentView(c.Addr()); s.found {
			creator = s.sub.Creator
		}
	}
	enable := rapid.IntRange(0, 3).Draw(rt, "enable") > 0
	idx := ""
	if enable && rapid.Bool().Draw(rt, "withPlan") {
		idx = pick(rt, "plan", e.planIdxs)
	}
	e.autoRenew(rt, c, creator, enable, idx)
}

func (e *env) autoRenew(rt *rapid.T, c *chain.Cons, creator string, enable bool, idx string) {
	cv, lv := e.currentView(c.Addr()), e.latestView(c.Addr())
	if cv.found && lv.found && cv.sub.Block != lv.sub.Block && e.strict {
		// a newer version of the subscription is pending for the next epoch start (upgrade or
		// month expiry processed in this epoch): the change is applied to the outgoing version
		// only; the statement does not say which version a toggle must reach, so C12 does not
		// generate it (see Assume). C13 does.
		rt.Skip("auto-renewal change while a newer subscription version is pending")
	}
	msg := &subscriptiontypes.MsgAutoRenewal{Creator: creator, Consumer: c.Addr(), Enable: enable, Index: idx}
	err := e.tx(fmt.Sprintf("autoRenew(%s by %s,%v,%q)", c.Name, e.name(creator), enable, idx), msg.ValidateBasic, func() error {
		_, err := e.w.C.TS.Servers.SubscriptionServer.AutoRenewal(e.w.C.TS.GoCtx, msg)
		return err
	})
	if err == nil && e.strict {
		m := e.subs[c.Addr()]
		if !m.curExists {
			e.violate("auto-renewal change accepted for %s without a subscription", c.Name)
		} else if m.exists {
			m.creator = creator
			switch {
			case !enable:
				m.autoPlan = autoNone
			case idx == "":
				m.autoPlan = m.plan // "enable" without a plan index means the subscription's own plan
			default:
				m.autoPlan = idx
			}
			e.class("auto-renew-toggled")
		}
		e.compareAll("after the auto-renewal change")
	}
	e.resnap()
	e.raise(rt)
}

var prices = []int{100, 101, 1000, 1000, 12345, 50_000}

func (e *env) genPlan(rt *rapid.T, idx string) planstypes.Plan {
	total := uint64(rapid.SampledFrom([]int{1000, 100_000, 100_000, 1_000_000}).Draw(rt, "totalCU"))
	pol := planstypes.Policy{TotalCuLimit: total, EpochCuLimit: total / uint64(rapid.SampledFrom([]int{1, 10}).Draw(rt, "epochDiv")),
		MaxProvidersToPair: uint64(rapid.IntRange(2, 4).Draw(rt, "maxProviders")), GeolocationProfile: 1}
	return planstypes.Plan{Index: idx, Description: "generated", Type: "rpc",
		Price:                    sdk.NewCoin(e.w.C.Denom(), sdk.NewInt(int64(rapid.SampledFrom(prices).Draw(rt, "price")))),
		AnnualDiscountPercentage: uint64(rapid.SampledFrom([]int{0, 20, 33}).Draw(rt, "discount")),
		PlanPolicy:               pol, ProjectsLimit: 5}
}

func (e *env) recordPlanVersion(p planstypes.Plan) {
	h := e.height()
	pm := e.plans[p.Index]
	if pm == nil {
		pm = &planModel{lifeDelAt: []uint64{0}}
		e.plans[p.Index] = pm
		e.planIdxs = append(e.planIdxs, p.Index)
		sort.Strings(e.planIdxs)
	}
	life := len(pm.lifeDelAt) - 1
	if d := pm.lifeDelAt[life]; d != 0 && d <= h {
		pm.lifeDelAt = append(pm.lifeDelAt, 0)
		life++
	}
	v := planVer{Block: h, Price: p.Price.Amount.Int64(), Discount: p.AnnualDiscountPercentage, TotalCU: p.PlanPolicy.TotalCuLimit, life: life}
	if n := len(pm.vers); n > 0 && pm.vers[n-1].Block == h {
		pm.vers[n-1] = v
	} else {
		pm.vers = append(pm.vers, v)
	}
}

// notePlanChange remembers, for C13's non-trivial rule, which live subscriptions reference a
// version of idx that has just been superseded or deleted.
func (e *env) notePlanChange(idx string) {
	for _, c := range e.cons {
		for _, v := range []subSnap{e.currentView(c.Addr()), e.latestView(c.Addr())} {
			if v.found && v.sub.PlanIndex == idx {
				k := c.Addr() + "|" + idx + "|" + fmt.Sprint(v.sub.PlanBlock)
				if _, ok := e.planChangedAt[k]; !ok {
					e.planChangedAt[k] = e.height()
				}
			}
		}
	}
}

func (e *env) actPlanNewVersion(rt *rapid.T) {
	idx := pick(rt, "plan", e.planIdxs)
	if rapid.Bool().Draw(rt, "ofLiveSubscription") {
		// prefer a plan that a live subscription references or auto-renews onto
		var used []string
		for _, c := range e.cons {
			if v := e.latestView(c.Addr()); v.found {
				used = append(used, v.sub.PlanIndex)
				if v.sub.AutoRenewalNextPlan != autoNone {
					used = append(used, v.sub.AutoRenewalNextPlan)
				}
			}
		}
		if len(used) > 0 {
			idx = pick(rt, "usedPlan", used)
		}
	}
	p := e.genPlan(rt, idx)
	if rapid.IntRange(0, 2).Draw(rt, "samePrice") == 0 {
		if cur, ok := e.plans[idx].latest(e.height()); ok {
			p.Price = sdk.NewCoin(e.w.C.Denom(), sdk.NewInt(cur.Price))
		}
	}
	if e.exclRenewCu {
		if cur, ok := e.plans[idx].latest(e.height()); ok && cur.TotalCU != p.PlanPolicy.TotalCuLimit && e.renewTarget(idx) {
			e.col.Exclude(findingRenewCu)
			p.PlanPolicy.TotalCuLimit = cur.TotalCU
			p.PlanPolicy.EpochCuLimit = cur.TotalCU
		}
	}
	err := e.tx(fmt.Sprintf("planNewVersion(%s,price=%s,discount=%d,totalCU=%d)", idx, p.Price.Amount, p.AnnualDiscountPercentage, p.PlanPolicy.TotalCuLimit), p.ValidatePlan, func() error {
		return e.w.C.TS.TxProposalAddPlans(p)
	})
	if err == nil {
		e.recordPlanVersion(p)
		e.notePlanChange(idx)
		e.class("plan-new-version")
	}
	e.resnap()
	e.raise(rt)
}

// renewTarget: is idx the auto-renewal plan of some subscription (newest view)?
func (e *env) renewTarget(idx string) bool {
	for _, c := range e.cons {
		if v := e.latestView(c.Addr()); v.found && v.sub.AutoRenewalNextPlan == idx {
			return true
		}
	}
	return false
}

func (e *env) actPlanAdd(rt *rapid.T) {
	if len(e.planIdxs) >= 5 {
		rt.Skip("enough plans")
	}
	idx := fmt.Sprintf("plan%d", len(e.planIdxs))
	p := e.genPlan(rt, idx)
	err := e.tx(fmt.Sprintf("planAdd(%s,price=%s,discount=%d,totalCU=%d)", idx, p.Price.Amount, p.AnnualDiscountPercentage, p.PlanPolicy.TotalCuLimit), p.ValidatePlan, func() error {
		return e.w.C.TS.TxProposalAddPlans(p)
	})
	if err == nil {
		e.recordPlanVersion(p)
		e.class("plan-added")
	}
	e.resnap()
	e.raise(rt)
}

func (e *env) actPlanDel(rt *rapid.T) {
	idx := pick(rt, "plan", e.planIdxs)
	next := e.nextEpoch()
	err := e.tx(fmt.Sprintf("planDel(%s)", idx), nil, func() error { return e.w.C.TS.TxProposalDelPlans(idx) })
	if err == nil {
		pm := e.plans[idx]
		pm.lifeDelAt[len(pm.lifeDelAt)-1] = next
		e.notePlanChange(idx)
		e.class("plan-deleted")
	}
	e.resnap()
	e.raise(rt)
}

// actPlanModifyInPlace: a "modify" proposal rewrites an existing version in place (same price);
// only used by C13 (it does not change references).
func (e *env) actPlanModifyInPlace(rt *rapid.T) {
	idx := pick(rt, "plan", e.planIdxs)
	stored, found := e.ks().Plans.FindPlan(e.ctx(), idx, e.height())
	if !found {
		rt.Skip("plan gone")
	}
	stored.Description = "modified in place"
	stored.PlanPolicy.MaxProvidersToPair = uint64(rapid.IntRange(2, 5).Draw(rt, "maxProviders"))
	err := e.tx(fmt.Sprintf("planModifyInPlace(%s@%d)", idx, stored.Block), stored.ValidatePlan, func() error {
		return testkeeper.SimulatePlansAddProposal(e.ctx(), e.ks().Plans, []planstypes.Plan{stored}, true)
	})
	if err == nil {
		e.class("plan-modified-in-place")
	}
	e.resnap()
	e.raise(rt)
}

func (e *env) actAddProject(rt *rapid.T) {
	c := pick(rt, "consumer", e.cons)
	name := pick(rt, "projName", projNames)
	if m := e.subs[c.Addr()]; e.exclProjWindow && e.strict && !m.exists && m.curExists {
		e.col.Exclude(findingProjWindow)
		rt.Skip("excluded: project added between the last expiry and the epoch start at which the removal becomes effective")
	}
	pd := projectstypes.ProjectData{Name: name, Enabled: true}
	msg := &subscriptiontypes.MsgAddProject{Creator: c.Addr(), ProjectData: pd}
	if err := e.tx(fmt.Sprintf("addProject(%s,%s)", c.Name, name), msg.ValidateBasic, func() error {
		_, err := e.w.C.TS.Servers.SubscriptionServer.AddProject(e.w.C.TS.GoCtx, msg)
		return err
	}); err == nil {
		e.class("project-added")
	}
	e.resnap()
	e.raise(rt)
}

// actRelay uses CU of a live subscription through a real relay payment.
func (e *env) actRelay(rt *rapid.T) {
	before := map[string]uint64{}
	for _, c := range e.cons {
		if v := e.latestView(c.Addr()); v.found {
			before[c.Addr()] = v.sub.MonthCuLeft
		}
	}
	e.w.ActRelayPayment(chain.RelayOpts{CuChoices: []uint64{10, 500, 5000, 200_000}, PastEpochs: true})(rt)
	for _, c := range e.cons {
		if v := e.latestView(c.Addr()); v.found && v.sub.MonthCuLeft != before[c.Addr()] {
			e.subs[c.Addr()].fresh = false
			e.class("cu-charged")
		}
		// a payment for an earlier epoch charges the then-current version; be conservative
		if v := e.currentView(c.Addr()); v.found {
			e.subs[c.Addr()].fresh = e.subs[c.Addr()].fresh && v.sub.MonthCuLeft == v.sub.MonthCuTotal
		}
	}
	if e.strict {
		e.compareAll("after a relay payment")
	}
	e.resnap()
	e.raise(rt)
}

// ---- time -------------------------------------------------------------------------------------

// preBlock is called before every block this package produces; with a known finding excluded it
// rewrites the history so that the excluded class is not entered.
func (e *env) preBlock(rt *rapid.T, delta time.Duration) {
	if !e.exclRenewSwitch && !e.exclRenewCu {
		return
	}
	if delta <= 0 {
		delta = 5 * time.Minute
	}
	after := uint64(e.now().Add(delta).Unix())
	for _, c := range e.cons {
		v := e.latestView(c.Addr())
		if !v.found || v.sub.MonthExpiryTime > after || v.sub.DurationLeft != 1 || v.sub.FutureSubscription != nil || v.sub.AutoRenewalNextPlan == autoNone {
			continue
		}
		target, ok := e.ks().Plans.FindPlan(e.ctx(), v.sub.AutoRenewalNextPlan, e.height()+1)
		if !ok {
			continue
		}
		sw := target.Index != v.sub.PlanIndex || target.Block != v.sub.PlanBlock
		if (e.exclRenewSwitch && sw) || (e.exclRenewCu && target.PlanPolicy.TotalCuLimit != v.sub.MonthCuTotal) {
			// rewrite: turn auto-renewal off before the renewal onto another plan version fires
			id := findingRenewRef
			if !(e.exclRenewSwitch && sw) {
				id = findingRenewCu
			}
			e.col.Exclude(id)
			cv := e.currentView(c.Addr())
			if cv.found && cv.sub.Block != v.sub.Block {
				// cannot toggle a pending version: complete the epoch first (no expiry can fire for
				// this subscription meanwhile only if its expiry is later; otherwise give up the case)
				rt.Skip("excluded class cannot be avoided here")
			}
			msg := &subscriptiontypes.MsgAutoRenewal{Creator: c.Addr(), Consumer: c.Addr(), Enable: false}
			err := e.w.C.Tx(fmt.Sprintf("autoRenew(%s,false) [inserted: known finding %s excluded]", c.Name, id), msg.ValidateBasic, func() error {
				_, err := e.w.C.TS.Servers.SubscriptionServer.AutoRenewal(e.w.C.TS.GoCtx, msg)
				return err
			})
			if err != nil {
				rt.Skip("excluded class cannot be avoided here")
			}
			if e.strict {
				m := e.subs[c.Addr()]
				m.autoPlan, m.creator = autoNone, c.Addr()
			}
			e.resnap()
		}
	}
}

func (e *env) adv(rt *rapid.T, delta time.Duration) bool {
	e.preBlock(rt, delta)
	ok := e.w.C.AdvanceBlock(delta)
	e.raise(rt)
	return ok
}

func (e *env) advEpoch(rt *rapid.T) bool {
	next := e.nextEpoch()
	for e.height() < next {
		if !e.adv(rt, 0) {
			return false
		}
	}
	return true
}

// jump: a time jump of hours or more happens in one block, after the running epoch has been
// completed with normal blocks (an epoch is much shorter than a month on any real chain, so a
// subscription version scheduled for the next epoch start is in effect before its month ends).
func (e *env) jump(rt *rapid.T, delta time.Duration) bool {
	if e.pendingVersion() && !e.advEpoch(rt) {
		return false
	}
	return e.adv(rt, delta)
}

func (e *env) actAdvanceBlocks(rt *rapid.T) {
	n := rapid.SampledFrom([]int{1, 1, 2, 5}).Draw(rt, "blocks")
	e.w.C.Logf("advanceBlocks(%d)", n)
	for i := 0; i < n; i++ {
		if !e.adv(rt, 0) {
			return
		}
	}
}

func (e *env) actAdvanceEpoch(rt *rapid.T) {
	n := rapid.SampledFrom([]int{1, 1, 2}).Draw(rt, "epochs")
	e.w.C.Logf("advanceEpochs(%d)", n)
	for i := 0; i < n; i++ {
		if !e.advEpoch(rt) {
			return
		}
	}
}

func (e *env) actAdvanceDays(rt *rapid.T) {
	days := rapid.SampledFrom([]int{1, 3, 10, 27}).Draw(rt, "days")
	e.w.C.Logf("advanceDays(%d)", days)
	if e.jump(rt, time.Duration(days)*24*time.Hour) && rapid.Bool().Draw(rt, "thenEpoch") {
		e.advEpoch(rt)
	}
}

// actToExpiry moves block time to (just before / exactly at / after) the month expiry of one
// live subscription.
func (e *env) actToExpiry(rt *rapid.T) {
	var live []*chain.Cons
	for _, c := range e.cons {
		if e.latestView(c.Addr()).found {
			live = append(live, c)
		}
	}
	if len(live) == 0 {
		rt.Skip("no live subscription")
	}
	c := pick(rt, "consumer", live)
	extra := rapid.SampledFrom([]int{-1, 0, 0, 1, 3600, 2 * 86400}).Draw(rt, "extraSeconds")
	e.w.C.Logf("toExpiry(%s,%+ds)", c.Name, extra)
	if e.pendingVersion() && !e.advEpoch(rt) {
		return
	}
	v := e.latestView(c.Addr())
	if !v.found {
		return
	}
	delta := time.Duration(int64(v.sub.MonthExpiryTime)-e.now().Unix()+int64(extra)) * time.Second
	if delta <= 0 {
		delta = time.Second
	}
	if e.adv(rt, delta) && rapid.IntRange(0, 2).Draw(rt, "thenEpoch") > 0 {
		e.advEpoch(rt)
	}
}

// actToMonthEnd moves block time to a day 29-31 (or to the end of January / February), so that
// subscriptions bought or renewed there exercise the day trimming of the next-month rule.
func (e *env) actToMonthEnd(rt *rapid.T) {
	kind := rapid.SampledFrom([]string{"29", "29", "30", "30", "31", "31", "31", "31", "jan31", "feb28"}).Draw(rt, "target")
	now := e.now()
	match := func(t time.Time) bool {
		switch kind {
		case "29", "30", "31":
			return fmt.Sprint(t.Day()) == kind
		case "jan31":
			return t.Month() == time.January && t.Day() == 31
		default:
			return t.Month() == time.February && t.Day() == 28
		}
	}
	target := now.Add(24 * time.Hour)
	for i := 0; i < 800 && !match(target); i++ {
		target = target.Add(24 * time.Hour)
	}
	e.w.C.Logf("toMonthEnd(%s) -> %s", kind, target.Format("2006-01-02"))
	// at most 27 days per block, so that every monthly timer fires in its own month
	for {
		left := target.Sub(e.now())
		if left <= 0 {
			break
		}
		step := left
		if step > 27*24*time.Hour {
			step = 27 * 24 * time.Hour
		}
		if !e.jump(rt, step) {
			return
		}
	}
	e.class("moved-to-" + kind)
}

// actPastStale advances more blocks than the fixation stale period with one-second blocks, so
// that plan versions nobody references are really collected while subscriptions live on.
func (e *env) actPastStale(rt *rapid.T) {
	n := int(e.staleBlocks()) + 25
	e.w.C.Logf("pastStalePeriod(%d blocks)", n)
	for i := 0; i < n; i++ {
		if !e.adv(rt, time.Second) {
			return
		}
	}
	e.class("advanced-past-stale-period")
}

func fingerprint(w *chain.World) string { return fmt.Sprint(w.C.Hist) }

func sortedKeys(m map[string]int) []string {
	out := make([]string, 0, len(m))
	for k := range m {
		out = append(out, k)
	}
	sort.Strings(out)
	return out
}
