package chainprops

import (
	"fmt"
	"time"

	sdk "github.com/cosmos/cosmos-sdk/types"
	authtypes "github.com/cosmos/cosmos-sdk/x/auth/types"
	govtypes "github.com/cosmos/cosmos-sdk/x/gov/types"
	stakingtypes "github.com/cosmos/cosmos-sdk/x/staking/types"
	dualstakingtypes "github.com/lavanet/lava/v5/x/dualstaking/types"
	pairingtypes "github.com/lavanet/lava/v5/x/pairing/types"
	rewardstypes "github.com/lavanet/lava/v5/x/rewards/types"
	subscriptiontypes "github.com/lavanet/lava/v5/x/subscription/types"

	"pgregory.net/rapid"

	"verifharness/internal/chain"
)

// c37FailedRenewal is a directed preamble with drawn parameters (the random history continues
// after it): the block processing paths that only run after a deep conjunction of events.
//
//	A buys a plan for one month with auto-renewal and has no funds for a dearer version;
//	governance publishes a dearer version; B buys that version for a few months; A's month
//	expires and its renewal fails; governance publishes yet another version or deletes the plan;
//	B's subscription runs out.
//
// Every step is a valid transaction or a block boundary; nothing is asserted here: a panic in a
// begin/end blocker is recorded by the engine as a halt and reported by the invariant.
func c37FailedRenewal(rt *rapid.T, w *chain.World) {
	ts := w.C.TS
	p := w.Plans[rapid.IntRange(0, len(w.Plans)-1).Draw(rt, "fr_plan")]
	cur, ok := ts.Keepers.Plans.FindPlan(ts.Ctx, p.Index, uint64(ts.Ctx.BlockHeight()))
	if !ok {
		return
	}
	price := cur.Price.Amount.Int64()
	extra := rapid.SampledFrom([]int64{0, 1, price / 2}).Draw(rt, "fr_extra")
	a := w.NewAccount(price + extra)
	buy := func(acc string, months int, auto bool) error {
		msg := &subscriptiontypes.MsgBuy{Creator: acc, Consumer: acc, Index: p.Index, Duration: uint64(months), AutoRenewal: auto}
		return w.C.Tx(fmt.Sprintf("subBuy*(%s,%s,%dm,auto=%v)", acc[len(acc)-6:], p.Index, months, auto), msg.ValidateBasic, func() error {
			_, err := ts.Servers.SubscriptionServer.Buy(ts.GoCtx, msg)
			return err
		})
	}
	if buy(a.Addr.String(), 1, true) != nil {
		return
	}
	month := func() bool {
		w.C.Logf("advanceMonth*(31d)")
		for i := 0; i < 31; i++ {
			if !w.C.AdvanceBlock(24 * time.Hour) {
				return false
			}
		}
		return w.C.AdvanceEpoch()
	}
	// a dearer version
	p2 := w.GenPlan(rt, p.Index, "fr_v2")
	p2.Price = sdk.NewCoin(w.C.Denom(), sdk.NewInt(price+extra+int64(rapid.SampledFrom([]int{1, 1000, 1_000_000}).Draw(rt, "fr_over"))))
	if w.C.Tx(fmt.Sprintf("planModify*(%s,price=%s)", p2.Index, p2.Price.Amount), p2.ValidatePlan, func() error { return ts.TxProposalAddPlans(p2) }) != nil {
		return
	}
	if !w.C.AdvanceEpoch() {
		return
	}
	monthsB := rapid.IntRange(1, 3).Draw(rt, "fr_monthsB")
	b := w.NewAccount(p2.Price.Amount.Int64() * 20)
	_ = buy(b.Addr.String(), monthsB, false)
	// A's month expires: the renewal onto the dearer version fails for lack of funds
	if !month() {
		return
	}
	if rapid.Bool().Draw(rt, "fr_delete") {
		_ = w.C.Tx(fmt.Sprintf("planDel*(%s)", p.Index), nil, func() error { return ts.TxProposalDelPlans(p.Index) })
	} else {
		p3 := w.GenPlan(rt, p.Index, "fr_v3")
		_ = w.C.Tx(fmt.Sprintf("planModify*(%s,price=%s)", p3.Index, p3.Price.Amount), p3.ValidatePlan, func() error { return ts.TxProposalAddPlans(p3) })
	}
	if !w.C.AdvanceEpoch() {
		return
	}
	for i := 0; i < monthsB+1; i++ {
		if !month() {
			return
		}
	}
}

// c37SlashedVault is a directed preamble with drawn parameters: a provider vault whose validator
// delegation is slashed while its self stake sits just above the minimum self delegation (so the
// re-balancing of the vault after the slash is refused), followed by a stake increase, relay
// payments, the vault's complete validator unbond and month ends (payouts). Every step is a valid
// transaction or a block boundary; the random history continues from the end state.
func c37SlashedVault(rt *rapid.T, w *chain.World) {
	ts := w.C.TS
	ks := ts.Keepers
	if len(w.Providers) < 2 {
		return
	}
	pi := rapid.IntRange(0, len(w.Providers)-1).Draw(rt, "sv_provider")
	p := w.Providers[pi]
	q := w.Providers[(pi+1+rapid.IntRange(0, len(w.Providers)-2).Draw(rt, "sv_other"))%len(w.Providers)]
	chains := w.ChainsOf(p)
	if len(chains) == 0 {
		return
	}
	md, err := ks.Epochstorage.GetMetadata(ts.Ctx, p.Addr())
	if err != nil {
		return
	}
	val := w.Validators[rapid.IntRange(0, len(w.Validators)-1).Draw(rt, "sv_validator")]
	vault := p.Vault()
	// 1. the vault also delegates to another provider
	if rapid.IntRange(0, 3).Draw(rt, "sv_delegateElsewhere") > 0 {
		amount := int64(rapid.SampledFrom([]int{1000, 100_000, 1_000_000}).Draw(rt, "sv_elsewhere"))
		msg := &dualstakingtypes.MsgDelegate{Creator: vault, Validator: sdk.ValAddress(val.Addr).String(), Provider: q.Addr(), ChainID: "", Amount: sdk.NewCoin(w.C.Denom(), sdk.NewInt(amount))}
		_ = w.C.Tx(fmt.Sprintf("dualDelegate*(vault of %s->%s,%d)", p.Name, q.Name, amount), msg.ValidateBasic, func() error {
			_, err := ts.Servers.DualstakingServer.Delegate(ts.GoCtx, msg)
			return err
		})
	}
	// 2. the self stake goes down to just above the minimum self delegation
	minSelf := ks.Dualstaking.GetParams(ts.Ctx).MinSelfDelegation.Amount.Int64()
	for _, ch := range chains {
		e, found := ks.Epochstorage.GetStakeEntryCurrent(ts.Ctx, ch, p.Addr())
		if !found {
			continue
		}
		_ = w.StakeProvider(p, ch, minSelf+int64(rapid.SampledFrom([]int{0, 1, 20, 78}).Draw(rt, "sv_above")), e.Geolocation, e.Endpoints, md.DelegateCommission, val)
	}
	// 3. validator slashes
	n := rapid.IntRange(1, 3).Draw(rt, "sv_slashes")
	for i := 0; i < n; i++ {
		frac := sdk.NewDecWithPrec(int64(rapid.SampledFrom([]int{5, 33, 50}).Draw(rt, "sv_slashPct")), 2)
		for _, v := range w.Validators {
			w.Slash(v, frac)
			if w.C.Halt != "" {
				return
			}
		}
	}
	// 4. the stake goes up again, well above the spec minimum
	ch := chains[rapid.IntRange(0, len(chains)-1).Draw(rt, "sv_chain")]
	if e, found := ks.Epochstorage.GetStakeEntryCurrent(ts.Ctx, ch, p.Addr()); found {
		up := int64(rapid.SampledFrom([]int{10_000, 100_000, 1_000_000}).Draw(rt, "sv_up"))
		_ = w.StakeProvider(p, ch, up, e.Geolocation, e.Endpoints, md.DelegateCommission, val)
		msg := &pairingtypes.MsgUnfreezeProvider{Creator: p.Addr(), ChainIds: []string{ch}}
		_ = w.C.Tx(fmt.Sprintf("unfreeze*(%s,%s)", p.Name, ch), msg.ValidateBasic, func() error {
			_, err := ts.Servers.PairingServer.UnfreezeProvider(ts.GoCtx, msg)
			return err
		})
	}
	// 5. relay payments in the following epochs
	relay := w.ActRelayPayment(chain.RelayOpts{SessionPool: 0, Qos: true})
	for i := 0; i < 2; i++ {
		if !w.C.AdvanceEpoch() {
			return
		}
		for j := 0; j < 4; j++ {
			relay(rt)
		}
	}
	// 6. the vault unbonds all it has at its validators
	vaultAcc, _ := sdk.AccAddressFromBech32(vault)
	for _, del := range ks.StakingKeeper.GetAllDelegatorDelegations(ts.Ctx, vaultAcc) {
		v, found := ks.StakingKeeper.GetValidator(ts.Ctx, del.GetValidatorAddr())
		if !found {
			continue
		}
		tokens := v.TokensFromShares(del.Shares).TruncateInt()
		if !tokens.IsPositive() {
			continue
		}
		msg := stakingtypes.NewMsgUndelegate(vaultAcc, del.GetValidatorAddr(), sdk.NewCoin(w.C.Denom(), tokens))
		_ = w.C.Tx(fmt.Sprintf("valUnbond*(vault of %s,%s)", p.Name, tokens), msg.ValidateBasic, func() error {
			_, err := ts.Servers.StakingServer.Undelegate(ts.GoCtx, msg)
			return err
		})
	}
	// 7. month ends
	for m := 0; m < 2; m++ {
		w.C.Logf("advanceMonth*(31d)")
		for i := 0; i < 31; i++ {
			if !w.C.AdvanceBlock(24 * time.Hour) {
				return
			}
		}
		if !w.C.AdvanceEpoch() {
			return
		}
	}
}

// iprpcMonth is a directed preamble with drawn parameters: every consumer is made IPRPC-eligible,
// every spec gets an IPRPC fund (mostly for a single month), providers are paid relays on every
// spec, and the month ends (IPRPC distribution over several funded and served specs in one month).
func iprpcMonth(rt *rapid.T, w *chain.World) {
	ts := w.C.TS
	var subs []string
	for _, c := range w.Consumers {
		subs = append(subs, c.Addr())
	}
	authority := authtypes.NewModuleAddress(govtypes.ModuleName).String()
	cost := int64(rapid.SampledFrom([]int{0, 100}).Draw(rt, "im_minCost"))
	dmsg := &rewardstypes.MsgSetIprpcData{Authority: authority, MinIprpcCost: sdk.NewCoin(w.C.Denom(), sdk.NewInt(cost)), IprpcSubscriptions: subs}
	_ = w.C.Tx(fmt.Sprintf("iprpcSetData*(cost=%d,subs=%d)", cost, len(subs)), dmsg.ValidateBasic, func() error {
		_, err := ts.Servers.RewardsServer.SetIprpcData(ts.GoCtx, dmsg)
		return err
	})
	for i, s := range w.Specs {
		funder := w.Consumers[rapid.IntRange(0, len(w.Consumers)-1).Draw(rt, fmt.Sprintf("im_funder%d", i))]
		duration := uint64(rapid.SampledFrom([]int{1, 1, 1, 2}).Draw(rt, fmt.Sprintf("im_duration%d", i)))
		amount := int64(rapid.SampledFrom([]int{5000, 1_000_000, 5_000_000_000_000}).Draw(rt, fmt.Sprintf("im_fund%d", i)))
		fmsg := &rewardstypes.MsgFundIprpc{Creator: funder.Addr(), Spec: s.Index, Duration: duration, Amounts: sdk.NewCoins(sdk.NewCoin(w.C.Denom(), sdk.NewInt(amount)))}
		_ = w.C.Tx(fmt.Sprintf("iprpcFund*(%s,%s,%dm,%d)", funder.Name, s.Index, duration, amount), fmsg.ValidateBasic, func() error {
			_, err := ts.Servers.RewardsServer.FundIprpc(ts.GoCtx, fmsg)
			return err
		})
	}
	month := func() bool {
		w.C.Logf("advanceMonth*(31d)")
		for i := 0; i < 31; i++ {
			if !w.C.AdvanceBlock(24 * time.Hour) {
				return false
			}
		}
		return w.C.AdvanceEpoch()
	}
	// the fund becomes the current month's fund at the next month boundary; then it is served
	if !month() {
		return
	}
	relay := w.ActRelayPayment(chain.RelayOpts{SessionPool: 0})
	for e := 0; e < 2; e++ {
		for j := 0; j < 6; j++ {
			relay(rt)
		}
		if !w.C.AdvanceEpoch() {
			return
		}
	}
	for m := 0; m < 2; m++ {
		if !month() {
			return
		}
	}
}
