package chainprops

import (
	"testing"

	"pgregory.net/rapid"

	"verifharness/internal/chain"
	"verifharness/internal/ev"
)

// C37: no begin-block or end-block processing panics, for any state reachable through valid
// transactions and block progression. The driver does not recover in Begin/EndBlock; a panic
// there is recorded as a halt with its stack.
func TestC37(t *testing.T) {
	c := ev.For("C37")
	c.SetRule("rapid state machine over the full action alphabet (stake/modify/move/unstake/freeze, dualstaking and validator delegations, slashes, subscription buy/upgrade/advance/auto-renew, projects/keys/policies, plan add/modify/delete proposals, IPRPC data/fund, relay payments with QoS/excellence/unresponsive reports, block/epoch/hour/month advances) on a generated world; oracle: no panic escapes End/BeginBlock; non-trivial = history crossed >=1 month boundary with >=1 accepted relay payment; distinct = distinct histories")
	c.Assume("transactions run atomically (cache context + bank snapshot) as under BaseApp; a panic inside a transaction is a failed transaction, not a halt",
		"bank/account keepers are the repository's mocks")
	rapid.Check(t, func(rt *rapid.T) {
		w := chain.NewWorld(rt, t, chain.Cfg{RichSpec: true, RichPolicy: true, Geo: true, Contrib: true})
		acts := fullAlphabet(w, chain.RelayOpts{SessionPool: 6, PastEpochs: true, Qos: true, QosExcellence: true, Unresponsive: true, AnyProvider: true})
		acts[""] = func(rt *rapid.T) {
			c.Clause("no-halt")
			if w.C.Halt != "" {
				rt.Fatalf("%s", ev.Violation("C37", "chain halted: %s\nhistory (tail):\n  %s", w.C.Halt, histString(w, 60)))
			}
		}
		rt.Repeat(acts)
		months, relays := histClasses(w)
		nt := months >= 1 && relays >= 1
		var classes []string
		if months >= 1 {
			classes = append(classes, "crossed-month")
		}
		if relays >= 1 {
			classes = append(classes, "accepted-relay")
		}
		c.AddExtra("blocks", w.C.Blocks)
		c.AddExtra("tx_ok", w.C.TxOK)
		c.AddExtra("tx_failed", w.C.TxFail)
		c.Case(nt, fingerprint(w), classes...)
		if nt {
			c.Sample(map[string]any{"history_tail": w.C.HistTail(25), "blocks": w.C.Blocks, "tx_ok": w.C.TxOK, "tx_failed": w.C.TxFail})
		}
	})
}
