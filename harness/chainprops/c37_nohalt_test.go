package chainprops

import (
	"fmt"
	"os"
	"strings"
	"testing"

	"pgregory.net/rapid"

	"verifharness/internal/chain"
	"verifharness/internal/ev"
)

// C37: no begin-block or end-block processing panics, for any state reachable through valid
// transactions and block progression. The driver does not recover in Begin/EndBlock; a panic
// there is recorded as a halt with its stack.
func TestC37(t *testing.T) {
	c := ev.For("C37")
	c.SetRule("rapid state machine over the full action alphabet (stake/modify/move/unstake/freeze, dualstaking and validator delegations, slashes, subscription buy/upgrade/advance/auto-renew, projects/keys/policies, plan add/modify/delete proposals, IPRPC data/fund, conflict detections with commit/reveal votes, relay payments with QoS/excellence/unresponsive reports, block/epoch/hour/month advances) on a generated world, 1 case in 4 after a directed preamble with drawn parameters (a subscription whose auto-renewal fails for lack of funds onto a dearer plan version that another subscription holds, then a further plan version or the plan's deletion, then the other subscription's expiry) and 1 case in 4 after another one (a provider vault, which may also delegate to another provider, lowers its self stake to just above the minimum self delegation, its validators are slashed 1-3 times, the stake goes up again, relay payments, the vault unbonds everything from its validators, two month ends), and 1 case in 4 after a complete conflict vote (detection, commits by a drawn subset of the voters with drawn options, commit period, reveals by a drawn subset, reveal period, closing in the begin-blocker); oracle: no panic escapes End/BeginBlock; non-trivial = history crossed >=1 month boundary with >=1 accepted relay payment; distinct = distinct histories")
	c.Assume("transactions run atomically (cache context + bank snapshot) as under BaseApp; a panic inside a transaction is a failed transaction, not a halt",
		"bank/account keepers are the repository's mocks")
	rapid.Check(t, func(rt *rapid.T) {
		w := chain.NewWorld(rt, t, chain.Cfg{RichSpec: true, RichPolicy: true, Geo: true, Contrib: true})
		acts := fullAlphabet(w, chain.RelayOpts{SessionPool: 6, PastEpochs: true, Qos: true, QosExcellence: true, Unresponsive: true, AnyProvider: true})
		reported := map[string]bool{}
		prevState := ""
		acts[""] = func(rt *rapid.T) {
			if os.Getenv("VERIF_LOGS") != "" {
				ks := w.C.TS.Keepers
				cur := ""
				for _, p := range w.Providers {
					md, err := ks.Epochstorage.GetMetadata(w.C.TS.Ctx, p.Addr())
					if err != nil {
						continue
					}
					cur += fmt.Sprintf("\n   %s vault=%s totalDeleg=%s", p.Name, md.Vault[len(md.Vault)-6:], md.TotalDelegations.Amount)
					for _, ch := range md.Chains {
						e, _ := ks.Epochstorage.GetStakeEntryCurrent(w.C.TS.Ctx, ch, p.Addr())
						cur += fmt.Sprintf(" %s:stake=%s,deleg=%s,frozen=%v", ch, e.Stake.Amount, e.DelegateTotal.Amount, e.IsFrozen())
					}
					dels, _ := ks.Dualstaking.GetProviderDelegators(w.C.TS.Ctx, p.Addr())
					for _, d := range dels {
						cur += fmt.Sprintf(" [%s=%s]", d.Delegator[len(d.Delegator)-6:], d.Amount.Amount)
					}
				}
				for _, a := range w.Keys {
					vd := ks.StakingKeeper.GetDelegatorDelegations(w.C.TS.Ctx, a.Addr, 100)
					if len(vd) == 0 {
						continue
					}
					cur += fmt.Sprintf("\n   valdeleg %s:", a.Addr.String()[len(a.Addr.String())-6:])
					for _, d := range vd {
						v, _ := ks.StakingKeeper.GetValidator(w.C.TS.Ctx, d.GetValidatorAddr())
						cur += fmt.Sprintf(" %s", v.TokensFromShares(d.Shares))
					}
				}
				defer func(c string) { prevState = c }(cur)
				for _, p := range w.Providers {
					md, err := ks.Epochstorage.GetMetadata(w.C.TS.Ctx, p.Addr())
					if err != nil || reported[p.Name] {
						continue
					}
					dels, _ := ks.Dualstaking.GetProviderDelegators(w.C.TS.Ctx, p.Addr())
					has := false
					sum := int64(0)
					for _, ch := range md.Chains {
						e, _ := ks.Epochstorage.GetStakeEntryCurrent(w.C.TS.Ctx, ch, p.Addr())
						sum += e.Stake.Amount.Int64()
					}
					for _, d := range dels {
						if d.Delegator == md.Vault {
							has = d.Amount.Amount.Int64() == sum
						}
					}
					if !has {
						reported[p.Name] = true
						fmt.Printf("VERIF-DEBUG first state without vault delegation: %s chains=%v after: %v\n  state before:%s\n  state after:%s\n", p.Name, md.Chains, w.C.HistTail(4), prevState, cur)
					}
				}
			}
			c.Clause("no-halt")
			if w.C.Halt != "" {
				if os.Getenv("VERIF_LOGS") != "" {
					ks := w.C.TS.Keepers
					for _, p := range w.Providers {
						md, err := ks.Epochstorage.GetMetadata(w.C.TS.Ctx, p.Addr())
						dels, _ := ks.Dualstaking.GetProviderDelegators(w.C.TS.Ctx, p.Addr())
						hasVault := false
						summary := ""
						for _, d := range dels {
							if d.Delegator == md.Vault {
								hasVault = true
							}
							summary += fmt.Sprintf(" %s=%s", d.Delegator[len(d.Delegator)-6:], d.Amount.Amount)
						}
						fmt.Printf("VERIF-DEBUG provider %s mdErr=%v chains=%v vault=%s vaultDelegationPresent=%v delegations:%s\n", p.Name, err, md.Chains, md.Vault[len(md.Vault)-6:], hasVault, summary)
					}
				}
				rt.Fatalf("%s", ev.Violation("C37", "chain halted: %s\nhistory (tail):\n  %s", w.C.Halt, histString(w, 60)))
			}
		}
		// directed preamble, 1 case in 4 (see c37_scenarios_test.go); the random history continues from its end state
		scenario := rapid.IntRange(0, 3).Draw(rt, "failedRenewalPreamble") == 0
		if scenario {
			c37FailedRenewal(rt, w)
		}
		if rapid.IntRange(0, 3).Draw(rt, "conflictLifecyclePreamble") == 0 {
			w.ConflictLifecycle(rt)
		}
		if rapid.IntRange(0, 3).Draw(rt, "iprpcMonthPreamble") == 0 {
			iprpcMonth(rt, w)
		}
		slashedVault := rapid.IntRange(0, 3).Draw(rt, "slashedVaultPreamble") == 0
		if slashedVault {
			c37SlashedVault(rt, w)
		}
		rt.Repeat(acts)
		months, relays := histClasses(w)
		nt := months >= 1 && relays >= 1
		var classes []string
		if months >= 1 {
			classes = append(classes, "crossed-month")
		}
		if relays >= 1 {
			classes = append(classes, "accepted-relay")
		}
		if scenario {
			classes = append(classes, "preamble:failed-renewal-then-plan-change-then-expiry")
		}
		if slashedVault {
			classes = append(classes, "preamble:vault-slashed-at-minimum-self-delegation-then-restake-unbond-payout")
		}
		det, com, rev := 0, 0, 0
		for _, h := range w.C.Hist {
			if !strings.HasSuffix(h, "-> ok") {
				continue
			}
			switch {
			case strings.Contains(h, "tx conflictDetection("):
				det++
			case strings.Contains(h, "tx conflictCommit"):
				com++
			case strings.Contains(h, "tx conflictReveal"):
				rev++
			}
		}
		if det > 0 {
			classes = append(classes, "conflict-vote-opened")
		}
		if com > 0 {
			classes = append(classes, "conflict-vote-commit-accepted")
		}
		if rev > 0 {
			classes = append(classes, "conflict-vote-reveal-accepted")
		}
		if det > 0 && len(w.C.TS.Keepers.Conflict.GetAllConflictVote(w.C.TS.Ctx)) < det {
			classes = append(classes, "conflict-vote-closed-by-block-processing")
		}
		c.AddExtra("blocks", w.C.Blocks)
		c.AddExtra("tx_ok", w.C.TxOK)
		c.AddExtra("tx_failed", w.C.TxFail)
		c.Case(nt, fingerprint(w), classes...)
		if nt {
			c.Sample(map[string]any{"history_tail": w.C.HistTail(25), "blocks": w.C.Blocks, "tx_ok": w.C.TxOK, "tx_failed": w.C.TxFail})
		}
	})
}
