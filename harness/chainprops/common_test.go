package chainprops

import (
	"fmt"
	"strings"

	"pgregory.net/rapid"

	"verifharness/internal/chain"
)

// fullAlphabet: every action of the shared alphabet (weights by repetition of keys is not
// possible in rapid's map API, so time actions are kept few and tx actions many).
func fullAlphabet(w *chain.World, relay chain.RelayOpts) map[string]func(*rapid.T) {
	return map[string]func(*rapid.T){
		"stakeNewChain":  w.ActStakeNewChain,
		"modifyStake":    w.ActModifyStake,
		"moveStake":      w.ActMoveStake,
		"unstake":        w.ActUnstake,
		"freeze":         w.ActFreeze,
		"dualDelegate":   w.ActDualDelegate,
		"dualRedelegate": w.ActDualRedelegate,
		"dualUnbond":     w.ActDualUnbond,
		"claimRewards":   w.ActClaimRewards,
		"valDelegate":    w.ActValDelegate,
		"valUnbond":      w.ActValUnbond,
		"valRedelegate":  w.ActValRedelegate,
		"slash":          w.ActSlash,
		"subBuy":         w.ActSubBuy,
		"autoRenew":      w.ActAutoRenew,
		"addProject":     w.ActAddProject,
		"delProject":     w.ActDelProject,
		"addKeys":        w.ActAddKeys,
		"delKeys":        w.ActDelKeys,
		"setPolicy":      w.ActSetPolicy,
		"planProposal":   w.ActPlanProposal,
		"iprpcSetData":   w.ActIprpcSetData,
		"iprpcFund":      w.ActIprpcFund,
		"conflictDetect": w.ActConflictDetect,
		"conflictVote":   w.ActConflictVote,
		"conflictVote2":  w.ActConflictVote,
		"relayPayment":   w.ActRelayPayment(relay),
		"relayPayment2":  w.ActRelayPayment(relay),
		"relayPayment3":  w.ActRelayPayment(relay),
		"advanceBlocks":  w.ActAdvanceBlocks,
		"advanceEpoch":   w.ActAdvanceEpoch,
		"advanceEpoch2":  w.ActAdvanceEpoch,
		"advanceTime":    w.ActAdvanceTime,
		"advanceMonth":   w.ActAdvanceMonth,
	}
}

func histString(w *chain.World, n int) string {
	return strings.Join(w.C.HistTail(n), "\n  ")
}

func histClasses(w *chain.World) (months int, relaysOK int) {
	for _, h := range w.C.Hist {
		if strings.Contains(h, "advanceMonth(") {
			months++
		}
		if strings.Contains(h, "tx relayPayment(") && strings.HasSuffix(h, "-> ok") {
			relaysOK++
		}
	}
	return
}

func fingerprint(w *chain.World) string { return fmt.Sprint(w.C.Hist) }
