package chainprops

import (
	"testing"

	sdk "github.com/cosmos/cosmos-sdk/types"
	"pgregory.net/rapid"

	"verifharness/internal/chain"
	"verifharness/internal/ev"
)

// C09: no transaction, begin-block or end-block processing increases the total supply of the
// bond denomination. The mock bank's MintCoins simply adds to a balance, so any mint (or any
// credit without a matching debit) shows up as an increase of the sum over all balances.
func TestC09(t *testing.T) {
	c := ev.For("C09")
	c.SetRule("rapid state machine over the full action alphabet on a generated world, block time progressing over months; oracle: the sum of all bank balances of the bond denom after every transaction and after every block is <= the value before; non-trivial = history crossed >=1 month boundary with >=1 accepted relay payment (so payouts, refills and bonus rewards ran); distinct = distinct histories")
	c.Assume("supply = sum over the mock bank's balance map (hook H7); accounts are funded during world setup only, before the baseline is taken",
		"transactions run atomically (cache context + bank snapshot)")
	rapid.Check(t, func(rt *rapid.T) {
		w := chain.NewWorld(rt, t, chain.Cfg{RichSpec: true, RichPolicy: false, Geo: false, Contrib: true, Delegators: [2]int{1, 3}})
		denom := w.C.Denom()
		last := w.C.Supply(denom)
		decreases := 0
		check := func(where string) {
			c.Clause("supply-not-increased")
			now := w.C.Supply(denom)
			if now.GT(last) {
				rt.Fatalf("%s", ev.Violation("C09", "total supply of %s increased by %s (%s -> %s) %s\nhistory (tail):\n  %s",
					denom, now.Sub(last), last, now, where, histString(w, 40)))
			}
			if now.LT(last) {
				decreases++
			}
			last = now
		}
		w.C.BlockHook = func() { check("across a block boundary (EndBlock+BeginBlock) reaching height " + sdk.NewInt(int64(w.C.Height())).String()) }
		acts := fullAlphabet(w, chain.RelayOpts{SessionPool: 0, PastEpochs: true, Qos: true, QosExcellence: true, Unresponsive: true})
		acts[""] = func(rt *rapid.T) {
			if w.C.Halt != "" {
				rt.Skip("chain halted (reported by C37)")
			}
			check("after the last transaction")
		}
		rt.Repeat(acts)
		months, relays := histClasses(w)
		nt := months >= 1 && relays >= 1 && w.C.Halt == ""
		var classes []string
		if months >= 1 {
			classes = append(classes, "crossed-month")
		}
		if relays >= 1 {
			classes = append(classes, "accepted-relay")
		}
		if decreases > 0 {
			classes = append(classes, "supply-decreased(burn/slash)")
		}
		if w.C.Halt != "" {
			classes = append(classes, "halted")
		}
		c.Case(nt, fingerprint(w), classes...)
		if nt {
			c.Sample(map[string]any{"history_tail": w.C.HistTail(20), "blocks": w.C.Blocks, "supply_end": last.String(), "supply_decreases": decreases})
		}
	})
}
