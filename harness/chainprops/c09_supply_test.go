package chainprops

import (
	testkeeper "github.com/lavanet/lava/v5/testutil/keeper"
	"testing"

	sdk "github.com/cosmos/cosmos-sdk/types"
	dualstakingtypes "github.com/lavanet/lava/v5/x/dualstaking/types"
	"pgregory.net/rapid"

	"verifharness/internal/chain"
	"verifharness/internal/ev"
)

// C09: no transaction, begin-block or end-block processing increases the total supply of the
// bond denomination. The mock bank's MintCoins simply adds to a balance, so any mint (or any
// credit without a matching debit) shows up as an increase of the sum over all balances.
func TestC09(t *testing.T) {
	c := ev.For("C09")
	c.SetRule("rapid state machine over the full action alphabet on a generated world, block time progressing over months; oracle: the sum of all bank balances of the bond denom after every transaction and after every block is <= the value before, and the mock bank's mint counter for the bond denom (hook H8) does not move (a mint hidden by a larger burn in the same block is still seen); one random case in three starts from a directed IPRPC preamble (every consumer eligible, every spec funded mostly for one month, relay payments on every spec, month ends); one case in four is a directed scenario with drawn parameters (delegators bond almost all of their balance, relay payments, month boundary, monthly payout, reward claims by accounts whose liquid balance is below the reward); non-trivial = history crossed >=1 month boundary with >=1 accepted relay payment (so payouts, refills and bonus rewards ran), for the scenario: a delegator with (almost) no liquid balance was paid a claimed reward; distinct = distinct histories")
	c.Assume("supply = sum over the mock bank's balance map (hook H7); accounts are funded during world setup only, before the baseline is taken",
		"transactions run atomically (cache context + bank snapshot)")
	rapid.Check(t, func(rt *rapid.T) {
		if rapid.IntRange(0, 3).Draw(rt, "mode") == 0 {
			propC09Scenario(rt, t)
			return
		}
		w := chain.NewWorld(rt, t, chain.Cfg{RichSpec: true, RichPolicy: false, Geo: false, Contrib: true, Delegators: [2]int{1, 3}})
		denom := w.C.Denom()
		last := w.C.Supply(denom)
		decreases, poor := 0, 0
		minted := testkeeper.VerifMinted().AmountOf(denom)
		check := func(where string) {
			// a mint hidden by a larger burn in the same step (monthly refills burn): nothing in lava mints
			// the bond denomination, so the mock bank's mint counter (hook H8) may not move at all
			c.Clause("nothing-minted")
			if m := testkeeper.VerifMinted().AmountOf(denom); !m.Equal(minted) {
				rt.Fatalf("%s", ev.Violation("C09", "%s of %s were minted %s (the total supply moved from %s to %s in the same step)\nhistory (tail):\n  %s",
					m.Sub(minted), denom, where, last, w.C.Supply(denom), histString(w, 40)))
			}
			c.Clause("supply-not-increased")
			now := w.C.Supply(denom)
			if now.GT(last) {
				rt.Fatalf("%s", ev.Violation("C09", "total supply of %s increased by %s (%s -> %s) %s\nhistory (tail):\n  %s",
					denom, now.Sub(last), last, now, where, histString(w, 40)))
			}
			if now.LT(last) {
				decreases++
			}
			last = now
		}
		w.C.BlockHook = func() {
			check("across a block boundary (EndBlock+BeginBlock) reaching height " + sdk.NewInt(int64(w.C.Height())).String())
		}
		// directed preamble, 1 case in 3 (see iprpcMonth): several funded and served specs in one IPRPC month
		iprpc := rapid.IntRange(0, 2).Draw(rt, "iprpcMonthPreamble") == 0
		if iprpc {
			iprpcMonth(rt, w)
			check("after the IPRPC month preamble")
		}
		acts := fullAlphabet(w, chain.RelayOpts{SessionPool: 0, PastEpochs: true, Qos: true, QosExcellence: true, Unresponsive: true})
		// accounts that keep (almost) no liquid balance: a delegator bonds nearly everything it has,
		// so later payouts/claims meet balances smaller than the amounts moved
		acts["bondAlmostAll"] = func(rt *rapid.T) {
			if len(w.Delegators) == 0 {
				rt.Skip("no delegators")
			}
			d := w.Delegators[rapid.IntRange(0, len(w.Delegators)-1).Draw(rt, "delegator")]
			p := w.Providers[rapid.IntRange(0, len(w.Providers)-1).Draw(rt, "provider")]
			keep := int64(rapid.SampledFrom([]int{0, 1, 5, 1000}).Draw(rt, "keep"))
			bal := w.C.Balance(d.Addr).Int64()
			if bal <= keep+1 {
				rt.Skip("already poor")
			}
			poor++
			msg := &dualstakingtypes.MsgDelegate{Creator: d.Addr.String(), Validator: sdk.ValAddress(w.Validators[0].Addr).String(),
				Provider: p.Addr(), Amount: sdk.NewCoin(denom, sdk.NewInt(bal-keep))}
			_ = w.C.Tx("bondAlmostAll("+d.Addr.String()[len(d.Addr.String())-6:]+"->"+p.Name+", keep "+sdk.NewInt(keep).String()+")", msg.ValidateBasic, func() error {
				_, err := w.C.TS.Servers.DualstakingServer.Delegate(w.C.TS.GoCtx, msg)
				return err
			})
		}
		acts[""] = func(rt *rapid.T) {
			if w.C.Halt != "" {
				rt.Skip("chain halted (reported by C37)")
			}
			check("after the last transaction")
		}
		rt.Repeat(acts)
		months, relays := histClasses(w)
		nt := months >= 1 && relays >= 1 && w.C.Halt == ""
		var classes []string
		if months >= 1 {
			classes = append(classes, "crossed-month")
		}
		if relays >= 1 {
			classes = append(classes, "accepted-relay")
		}
		if decreases > 0 {
			classes = append(classes, "supply-decreased(burn/slash)")
		}
		if poor > 0 {
			classes = append(classes, "delegator-with-(almost)-no-liquid-balance")
		}
		if w.C.Halt != "" {
			classes = append(classes, "halted")
		}
		c.Case(nt, fingerprint(w), classes...)
		if nt {
			c.Sample(map[string]any{"history_tail": w.C.HistTail(20), "blocks": w.C.Blocks, "supply_end": last.String(), "supply_decreases": decreases})
		}
	})
}

// propC09Scenario aims the generator at the deep state the random alphabet rarely reaches: delegators
// that bonded (almost) their whole balance, a provider that earned rewards over a month boundary, the
// monthly payout, and then reward claims by accounts whose liquid balance is smaller than the reward.
// All amounts, commissions, CU sums and the number of relays are drawn; supply is checked after every step.
func propC09Scenario(rt *rapid.T, t *testing.T) {
	c := ev.For("C09")
	w := chain.NewWorld(rt, t, chain.Cfg{Specs: [2]int{1, 1}, Plans: [2]int{1, 1}, Providers: [2]int{2, 3}, Consumers: [2]int{1, 2}, Delegators: [2]int{1, 3}, Contrib: true})
	denom := w.C.Denom()
	last := w.C.Supply(denom)
	minted := testkeeper.VerifMinted().AmountOf(denom)
	check := func(where string) {
		c.Clause("nothing-minted")
		if m := testkeeper.VerifMinted().AmountOf(denom); !m.Equal(minted) {
			rt.Fatalf("%s", ev.Violation("C09", "%s of %s were minted %s (the total supply moved from %s to %s in the same step)\nhistory (tail):\n  %s",
				m.Sub(minted), denom, where, last, w.C.Supply(denom), histString(w, 40)))
		}
		c.Clause("supply-not-increased")
		now := w.C.Supply(denom)
		if now.GT(last) {
			rt.Fatalf("%s", ev.Violation("C09", "total supply of %s increased by %s (%s -> %s) %s\nhistory (tail):\n  %s",
				denom, now.Sub(last), last, now, where, histString(w, 40)))
		}
		last = now
	}
	w.C.BlockHook = func() { check("across a block boundary reaching height " + sdk.NewInt(int64(w.C.Height())).String()) }
	// 1. delegators bond almost everything
	for i, d := range w.Delegators {
		p := w.Providers[rapid.IntRange(0, len(w.Providers)-1).Draw(rt, "provider")]
		keep := int64(rapid.SampledFrom([]int{0, 1, 5, 1000}).Draw(rt, "keep"))
		bal := w.C.Balance(d.Addr).Int64()
		msg := &dualstakingtypes.MsgDelegate{Creator: d.Addr.String(), Validator: sdk.ValAddress(w.Validators[0].Addr).String(),
			Provider: p.Addr(), Amount: sdk.NewCoin(denom, sdk.NewInt(bal-keep))}
		_ = w.C.Tx("bondAlmostAll(delegator"+sdk.NewInt(int64(i)).String()+"->"+p.Name+")", msg.ValidateBasic, func() error {
			_, err := w.C.TS.Servers.DualstakingServer.Delegate(w.C.TS.GoCtx, msg)
			return err
		})
		check("after bonding")
	}
	w.C.AdvanceEpoch()
	// 2. relay payments over 1-3 months, monthly payouts, claims
	months := rapid.IntRange(1, 3).Draw(rt, "months")
	claims := 0
	for m := 0; m < months && w.C.Halt == ""; m++ {
		n := rapid.IntRange(1, 6).Draw(rt, "relays")
		for i := 0; i < n; i++ {
			w.ActRelayPayment(chain.RelayOpts{CuChoices: []uint64{10, 100, 500}, Qos: true})(rt)
			check("after a relay payment")
			if rapid.Bool().Draw(rt, "epochBetween") {
				w.C.AdvanceEpoch()
			}
		}
		w.ActAdvanceMonth(rt)
		w.C.AdvanceEpochs(int(w.C.TS.EpochsToSave()) + 2)
		for _, d := range w.Delegators {
			msg := &dualstakingtypes.MsgClaimRewards{Creator: d.Addr.String()}
			before := w.C.Balance(d.Addr)
			_ = w.C.Tx("claimRewards(delegator)", msg.ValidateBasic, func() error {
				_, err := w.C.TS.Servers.DualstakingServer.ClaimRewards(w.C.TS.GoCtx, msg)
				return err
			})
			if w.C.Balance(d.Addr).GT(before) {
				claims++
			}
			check("after a reward claim by a delegator with liquid balance " + before.String())
		}
		for _, p := range w.Providers {
			msg := &dualstakingtypes.MsgClaimRewards{Creator: p.Vault()}
			_ = w.C.Tx("claimRewards(vault of "+p.Name+")", msg.ValidateBasic, func() error {
				_, err := w.C.TS.Servers.DualstakingServer.ClaimRewards(w.C.TS.GoCtx, msg)
				return err
			})
			check("after a reward claim by a provider vault")
		}
	}
	nt := claims > 0 && w.C.Halt == ""
	classes := []string{"scenario:bond-payout-claim"}
	if claims > 0 {
		classes = append(classes, "scenario:poor-delegator-claimed-a-reward")
	}
	c.Case(nt, "scenario"+fingerprint(w), classes...)
	if nt {
		c.Sample(map[string]any{"scenario": "bond-payout-claim", "history_tail": w.C.HistTail(20), "claims_paid": claims})
	}
}
