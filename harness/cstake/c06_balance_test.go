package cstake

import (
	"fmt"
	"math/big"
	"strings"
	"testing"

	abci "github.com/cometbft/cometbft/abci/types"
	sdk "github.com/cosmos/cosmos-sdk/types"
	stakingtypes "github.com/cosmos/cosmos-sdk/x/staking/types"
	dualstakingtypes "github.com/lavanet/lava/v5/x/dualstaking/types"
	"pgregory.net/rapid"

	"verifharness/internal/chain"
	"verifharness/internal/ev"
)

// C06: after any interleaving of validator-side operations (delegate, undelegate, redelegate,
// cancel-unbond, slash) and provider-side operations (dualstaking delegate/redelegate/unbond/
// claim, provider stake/modify/move/unstake), every delegator's provider delegations (empty
// provider included) sum to its validator tokens up to share rounding, and none is negative.
//
// Oracle (written from the statement, not VerifyDelegatorBalance): for every delegator found in
// either the staking store or the dualstaking store
//
//	sum_v floor(shares_v*tokens_v/delegatorShares_v) <= sum_p delegation(p) <= sum_v ceil(...)
//
// with exact rational arithmetic, plus a tolerance of one token per cosmos share-rounding event
// that touched the delegator's validators since the code under test last re-balanced it (the
// tolerance is zero as long as every validator's share price is exactly 1, i.e. before any slash).
// A slash is applied as on the real chain: slashing.Slash and the dualstaking BeginBlocker
// (HandleSlashedValidators) in the BeginBlock of a new block, with no transaction in between.
func TestC06(t *testing.T) {
	c := ev.For("C06")
	c.SetRule("rapid state machine on a generated world (2-3 validators, 2-5 providers on 2-3 chains, 1-4 delegators; actors = delegators, provider vaults, validator self-delegators): staking delegate/undelegate/redelegate (through the redelegation ante flag)/cancel-unbond, multi-message transactions of 2-3 such messages with 0-2 levels of authz MsgExec wrapping run through the real ante decorator (RedelegationFlager.AnteHandle), and validator slashes of 1-50% (new block, slashing.Slash with an infraction height 0-30 blocks back, dualstaking BeginBlocker) interleaved with dualstaking delegate/redelegate (empty provider included)/unbond/claim and provider stake/modify/move/unstake, blocks/epochs/days advancing; oracle after every step and every block: per delegator, sum of provider delegations within [sum floor, sum ceil] of the exact token value of its validator shares (+1 token per share-rounding event since it was last re-balanced), no negative delegation; non-trivial = one step reduced >=2 provider delegations of a delegator by unequal amounts, or a slash of a validator whose delegators hold provider delegations; distinct = distinct histories")
	c.Assume("transactions run atomically (cache context + bank snapshot) as under BaseApp",
		"every non-redelegation transaction clears the redelegation flag first (what the RedelegationFlager ante handler does); the redelegation transaction sets it",
		"a slash = new block, SlashingKeeper.Slash (infraction height 0-30 blocks back, so young unbondings/redelegations are slashed too), then the dualstaking BeginBlocker, as ordered in app.go (slashing, evidence, dualstaking); no transaction in between",
		"share rounding: every operation on a validator whose share price is not exactly 1 may move the token value of each of its delegators by <1 token; the comparison tolerates one token per such event since the delegator was last re-balanced by the code under test (created/modified validator delegation through a non-redelegation transaction, or slash of its validator); with unit share prices the comparison is exact",
		"staking keeper is the real cosmos keeper of testutil/keeper (EndBlock: BlockValidatorUpdates), bank is the repository's mock")
	rapid.Check(t, func(rt *rapid.T) { propC06(rt, t, c) })
}

func propC06(rt *rapid.T, t *testing.T, c *ev.Collector) {
	w := chain.NewWorld(rt, t, stakeCfg)
	a := &stakeActs{w: w, c: c}
	prev, _, err := readDual(w)
	if err != nil {
		t.Fatalf("%s", ev.HarnessError("cannot read delegations: %v", err))
	}
	prevStake := readStaking(w)
	// slack[d]: number of share-rounding events that touched delegator d's validators since d was
	// last re-balanced (each may move the token value of d's shares by less than one token)
	slack := map[string]int64{}
	spreadUnbonds, checks, strictChecks := 0, 0, 0

	check := func(where, kind, slashed string) {
		if w.C.Halt != "" {
			return
		}
		snap, problems, err := readDual(w)
		if err != nil {
			t.Fatalf("%s", ev.HarnessError("cannot read delegations: %v", err))
		}
		c.Clause("no-negative-delegation")
		if len(problems) > 0 {
			rt.Fatalf("%s", ev.Violation("C06", "%s %s\nhistory (tail):\n  %s", strings.Join(problems, "; "), where, histString(w, 40)))
		}
		stake := readStaking(w)
		events, changed := roundingEvents(prevStake, stake)
		// Delegators that the code under test re-balances in this step: those whose validator shares
		// changed through a transaction other than a staking redelegation (staking hooks), and after
		// a slash the delegators of the slashed validator (HandleSlashedValidators). Their tolerance
		// restarts at the rounding events of this very step (the staking hook of an undelegation runs
		// BEFORE the validator's tokens and shares are reduced, so the share price the hook saw and
		// the final one differ by the rounding of that operation); everybody else accumulates.
		synced := map[string]bool{}
		if kind != "redelegate" {
			for d := range changed {
				synced[d] = true
			}
		}
		if kind == "slash" {
			for d := range stake.shares[slashed] {
				synced[d] = true
			}
		}
		for d := range synced {
			slack[d] = 0
		}
		// a multi-message transaction performs several operations in one step: each of them is a
		// rounding event on the validators it touches
		ops := int64(1)
		if a.lastOps > 1 {
			ops = int64(a.lastOps)
		}
		a.lastOps = 0
		for d, n := range events {
			slack[d] += int64(n) * ops
		}
		bounds := stake.bounds()
		dels := map[string]bool{}
		for d := range snap {
			dels[d] = true
		}
		for d := range bounds {
			dels[d] = true
		}
		for _, d := range sortedKeys(dels) {
			c.Clause("providers-mirror-validators")
			checks++
			if slack[d] == 0 {
				strictChecks++
			}
			sum := snap.total(d)
			b, ok := bounds[d]
			if !ok {
				b = [2]*big.Int{new(big.Int), new(big.Int)}
			}
			lo := new(big.Int).Sub(b[0], big.NewInt(slack[d]))
			hi := new(big.Int).Add(b[1], big.NewInt(slack[d]))
			if sum.Cmp(lo) < 0 || sum.Cmp(hi) > 0 {
				// observation-time part of the known finding c06-slash-vault-rebalance-error-dropped: the
				// delegator is a provider vault and a validator slash has been processed in this history
				// (the dropped BalanceDelegator error leaves exactly such accounts unbalanced; the
				// predictive exclusion in slashFindingClass does not recognise every variant)
				if ev.Excluded(findingSlashVault) && slashProcessed(w) {
					if _, isVault := w.C.TS.Keepers.Epochstorage.GetProviderMetadataByVault(w.C.TS.Ctx, d); isVault {
						c.Exclude(findingSlashVault)
						continue
					}
				}
				var parts []string
				for _, p := range sortedKeys(snap[d]) {
					parts = append(parts, fmt.Sprintf("%s=%s", short(p), snap[d][p]))
				}
				rt.Fatalf("%s", ev.Violation("C06", "delegator %s: provider delegations sum to %s {%s} but its validator delegations are worth between %s and %s tokens (tolerance for share-rounding events since its last re-balancing: %d) (%s)\nhistory (tail):\n  %s",
					short(d), sum, strings.Join(parts, ","), b[0], b[1], slack[d], where, histString(w, 60)))
			}
		}
		// class detection: one step reduced >=2 provider delegations of one delegator by unequal amounts
		for _, d := range sortedKeys(prev) {
			var drops []string
			for _, p := range sortedKeys(prev[d]) {
				if p == emptyProvider {
					continue
				}
				before := prev[d][p]
				after := snap[d][p]
				if after == nil {
					after = new(big.Int)
				}
				if after.Cmp(before) < 0 {
					drops = append(drops, new(big.Int).Sub(before, after).String())
				}
			}
			if len(drops) >= 2 {
				unequal := false
				for _, x := range drops[1:] {
					if x != drops[0] {
						unequal = true
					}
				}
				if unequal {
					spreadUnbonds++
				}
			}
		}
		prev, prevStake = snap, stake
	}

	w.C.BlockHook = func() {
		check(fmt.Sprintf("after the block boundary reaching height %d", w.C.Height()), "block", "")
	}
	acts := map[string]func(*rapid.T){
		"valDelegate":    withAnte(w, a.valDelegate),
		"valUnbond":      withAnte(w, a.valUnbond),
		"valUnbond2":     withAnte(w, a.valUnbond),
		"valRedelegate":  withAnte(w, a.valRedelegate),
		"cancelUnbond":   withAnte(w, a.cancelUnbond),
		"slash":          a.slash,
		"batchTx":        withAnte(w, a.batchTx),
		"dualDelegate":   withAnte(w, a.dualDelegate),
		"dualDelegate2":  withAnte(w, w.ActDualDelegate),
		"dualRedelegate": withAnte(w, a.dualRedelegate),
		"dualUnbond":     withAnte(w, a.dualUnbond),
		"claimRewards":   withAnte(w, w.ActClaimRewards),
		"stakeNewChain":  withAnte(w, w.ActStakeNewChain),
		"modifyStake":    withAnte(w, w.ActModifyStake),
		"moveStake":      withAnte(w, w.ActMoveStake),
		"unstake":        withAnte(w, w.ActUnstake),
		"advanceBlocks":  w.ActAdvanceBlocks,
		"advanceEpoch":   w.ActAdvanceEpoch,
		"advanceTime":    w.ActAdvanceTime,
		"": func(rt *rapid.T) {
			if w.C.Halt != "" {
				rt.Skip("chain halted (reported by C37)")
			}
			kind, slashed := a.lastKind, a.lastSlashed
			a.lastKind, a.lastSlashed = "", ""
			check("after the last step", kind, slashed)
		},
	}
	rt.Repeat(acts)

	nt := w.C.Halt == "" && (spreadUnbonds > 0 || a.slashesWithProviderDelegations > 0)
	var classes []string
	if spreadUnbonds > 0 {
		classes = append(classes, "unbond-spread-unequally-over>=2-providers")
	}
	if a.slashesWithProviderDelegations > 0 {
		classes = append(classes, "slash-with-provider-delegations")
	}
	if a.cancelOK > 0 {
		classes = append(classes, "cancel-unbond-accepted")
	}
	if a.valRedelOK > 0 {
		classes = append(classes, "validator-redelegation-accepted")
	}
	if a.valUnbondOK > 0 {
		classes = append(classes, "validator-unbond-accepted")
	}
	if a.vaultClassProbed > 0 {
		classes = append(classes, "slash-in-listed-vault-class:plain-delegators-checked-on-a-branch")
	}
	if a.batchOK > 0 {
		classes = append(classes, "multi-message-tx-accepted")
	}
	if a.batchMixed > 0 {
		classes = append(classes, "multi-message-tx-mixing-redelegation-with-other-messages")
	}
	if a.batchAuthz > 0 {
		classes = append(classes, "multi-message-tx-with-authz-wrapped-message")
	}
	if w.C.Halt != "" {
		classes = append(classes, "halted")
	}
	c.AddExtra("tx_ok", w.C.TxOK)
	c.AddExtra("tx_failed", w.C.TxFail)
	c.AddExtra("delegator_checks", checks)
	c.AddExtra("delegator_checks_with_zero_tolerance", strictChecks)
	c.Case(nt, fingerprint(w), classes...)
	if nt {
		c.Sample(map[string]any{"history_tail": w.C.HistTail(25), "blocks": w.C.Blocks, "tx_ok": w.C.TxOK, "tx_failed": w.C.TxFail,
			"spread_unbonds": spreadUnbonds, "slashes_with_provider_delegations": a.slashesWithProviderDelegations})
	}
}

// balanceReport compares, for one delegator, the sum of provider delegations with the exact
// floor/ceil token value of its validator shares (the C06 oracle, zero tolerance).
func balanceReport(w *chain.World, delegator string) (ok bool, msg string) {
	snap, problems, err := readDual(w)
	if err != nil {
		return false, "cannot read delegations: " + err.Error()
	}
	if len(problems) > 0 {
		return false, strings.Join(problems, "; ")
	}
	b, has := readStaking(w).bounds()[delegator]
	if !has {
		b = [2]*big.Int{new(big.Int), new(big.Int)}
	}
	sum := snap.total(delegator)
	if sum.Cmp(b[0]) < 0 || sum.Cmp(b[1]) > 0 {
		return false, fmt.Sprintf("delegator %s: provider delegations sum to %s but its validator delegations are worth between %s and %s tokens", short(delegator), sum, b[0], b[1])
	}
	return true, ""
}

// Witness of known finding c06-slash-vault-rebalance-error-dropped: provider 0 (own vault) is staked
// 1,000,000 on SP0 and 1,000 on SP1 through validator 0, and its vault also delegates 10,000,000
// to provider 1 through validator 0. Validator 0 is slashed by 5 %. In the same BeginBlock
// HandleSlashedValidators -> BalanceDelegator -> UnbondUniformProviders spreads the vault's loss
// over its two providers, smallest delegation first: the share taken from its own provider is
// split evenly over the two stake entries - more than the SP1 entry holds - so
// AfterDelegationModified refuses, UnbondUniformProviders stops before it reaches provider 1,
// BalanceValidatorsDelegators drops the error, and the vault's provider delegations exceed its
// validator tokens from then on.
func TestC06Known_slashVaultRebalanceErrorDropped(t *testing.T) {
	defer witnessGuard(t)
	w, werr := fixedWorld(t, 2, 1, []fixedProv{
		{ownVault: true, stakes: map[string]int64{"SP0": 1_000_000, "SP1": 1000}, val: 0},
		{ownVault: false, stakes: map[string]int64{"SP0": 5000}, val: 0},
	}, 0)
	if werr != nil {
		t.Skipf("witness cannot be set up (treated as: finding does not reproduce, search runs without exclusion): %v", werr)
	}
	vault := w.Providers[0].Vault()
	ts := w.C.TS
	msg := &dualstakingtypes.MsgDelegate{Creator: vault, Validator: valAddrOf(w.Validators[0]).String(), Provider: w.Providers[1].Addr(), Amount: coin(w, 10_000_000)}
	if err := w.C.Tx("delegate", msg.ValidateBasic, func() error {
		_, err := ts.Servers.DualstakingServer.Delegate(ts.GoCtx, msg)
		return err
	}); err != nil {
		t.Skipf("%s", fmt.Sprintf("witness cannot be set up (treated as: finding does not reproduce, search runs without exclusion): witness setup: delegate failed: %v", err))
	}
	if ok, msg := balanceReport(w, vault); !ok {
		t.Skipf("%s", fmt.Sprintf("witness cannot be set up (treated as: finding does not reproduce, search runs without exclusion): witness world unbalanced before the slash: %s", msg))
	}
	w.C.AdvanceBlock(0)
	val, _ := ts.Keepers.StakingKeeper.GetValidator(ts.Ctx, valAddrOf(w.Validators[0]))
	consAddr, _ := val.GetConsAddr()
	power := val.ConsensusPower(ts.Keepers.StakingKeeper.PowerReduction(ts.Ctx))
	ts.Keepers.SlashingKeeper.Slash(ts.Ctx, consAddr, sdk.NewDecWithPrec(5, 2), power, ts.Ctx.BlockHeight())
	ts.Keepers.Dualstaking.BeginBlock(ts.Ctx, abci.RequestBeginBlock{})
	w.C.AdvanceBlock(0)
	if ok, msg := balanceReport(w, vault); !ok {
		t.Fatalf("%s", ev.Violation("C06", "after slashing validator 0 by 5%% and the dualstaking BeginBlocker: %s (vault of provider 0, staked 1000000 on SP0 and 1000 on SP1, also delegating 10000000 to provider 1; HandleSlashedValidators dropped the BalanceDelegator error)", msg))
	}
}

// Witness of known finding c06-slash-zero-share-unbond-error-dropped: a delegator delegates 3, 3 and
// 7 tokens to three providers through validator 0 (nothing on the empty provider). Validator 0 is
// slashed by 10 %: the delegator's 13 tokens are now worth 11.7, so one token must be unbonded
// from its providers. UnbondUniformProviders computes the share of the first provider as
// 1/3 = 0 and keeper.unbond rejects the zero coin; BalanceValidatorsDelegators drops the error and
// the delegator keeps 13 tokens of provider delegations for at most 12 validator tokens.
func TestC06Known_slashZeroShareUnbondErrorDropped(t *testing.T) {
	defer witnessGuard(t)
	w, werr := fixedWorld(t, 1, 1, []fixedProv{
		{ownVault: false, stakes: map[string]int64{"SP0": 5000}, val: 0},
		{ownVault: false, stakes: map[string]int64{"SP0": 5000}, val: 0},
		{ownVault: false, stakes: map[string]int64{"SP0": 5000}, val: 0},
	}, 1)
	if werr != nil {
		t.Skipf("witness cannot be set up (treated as: finding does not reproduce, search runs without exclusion): %v", werr)
	}
	ts := w.C.TS
	d := w.Delegators[0].Addr.String()
	for i, amount := range []int64{3, 3, 7} {
		msg := &dualstakingtypes.MsgDelegate{Creator: d, Validator: valAddrOf(w.Validators[0]).String(), Provider: w.Providers[i].Addr(), Amount: coin(w, amount)}
		if err := w.C.Tx("delegate", msg.ValidateBasic, func() error {
			_, err := ts.Servers.DualstakingServer.Delegate(ts.GoCtx, msg)
			return err
		}); err != nil {
			t.Skipf("witness cannot be set up (treated as: finding does not reproduce, search runs without exclusion): delegate failed: %v", err)
		}
	}
	if ok, msg := balanceReport(w, d); !ok {
		t.Skipf("witness cannot be set up (treated as: finding does not reproduce, search runs without exclusion): unbalanced before the slash: %s", msg)
	}
	w.C.AdvanceBlock(0)
	val, _ := ts.Keepers.StakingKeeper.GetValidator(ts.Ctx, valAddrOf(w.Validators[0]))
	consAddr, _ := val.GetConsAddr()
	power := val.ConsensusPower(ts.Keepers.StakingKeeper.PowerReduction(ts.Ctx))
	ts.Keepers.SlashingKeeper.Slash(ts.Ctx, consAddr, sdk.NewDecWithPrec(10, 2), power, ts.Ctx.BlockHeight())
	ts.Keepers.Dualstaking.BeginBlock(ts.Ctx, abci.RequestBeginBlock{})
	w.C.AdvanceBlock(0)
	if ok, msg := balanceReport(w, d); !ok {
		t.Fatalf("%s", ev.Violation("C06", "after slashing validator 0 by 10%% and the dualstaking BeginBlocker: %s (delegations 3, 3, 7 to three providers; UnbondUniformProviders issued a zero-amount unbond, HandleSlashedValidators dropped the error)", msg))
	}
}

// Witness of known finding c06-stale-redelegation-flag-at-beginblock: a delegator delegates 3000 to a
// provider through validator 0 and later redelegates all of it to validator 1 (the ante handler
// stores the "hooks disabled" flag; no further transaction follows in that block). In the next
// BeginBlock validator 0 is slashed by 5 % for an infraction at the redelegation's height:
// staking.SlashRedelegation unbonds 5 % of the delegator's shares at validator 1, but the
// dualstaking hooks are still disabled, and HandleSlashedValidators does not visit the delegator
// (it no longer delegates to validator 0): 3000 provider tokens for 2850 validator tokens.
func TestC06Known_staleRedelegationFlagAtBeginBlock(t *testing.T) {
	defer witnessGuard(t)
	w, werr := fixedWorld(t, 1, 2, []fixedProv{{ownVault: false, stakes: map[string]int64{"SP0": 5000}, val: 0}}, 1)
	if werr != nil {
		t.Skipf("witness cannot be set up (treated as: finding does not reproduce, search runs without exclusion): %v", werr)
	}
	ts := w.C.TS
	d := w.Delegators[0]
	msg := &dualstakingtypes.MsgDelegate{Creator: d.Addr.String(), Validator: valAddrOf(w.Validators[0]).String(), Provider: w.Providers[0].Addr(), Amount: coin(w, 3000)}
	if err := anteTx(w, msg, "delegate", msg.ValidateBasic, func() error {
		_, err := ts.Servers.DualstakingServer.Delegate(ts.GoCtx, msg)
		return err
	}); err != nil {
		t.Skipf("witness cannot be set up (treated as: finding does not reproduce, search runs without exclusion): delegate failed: %v", err)
	}
	w.C.AdvanceBlock(0)
	rmsg := stakingtypes.NewMsgBeginRedelegate(d.Addr, valAddrOf(w.Validators[0]), valAddrOf(w.Validators[1]), coin(w, 3000))
	redelegationHeight := ts.Ctx.BlockHeight()
	if err := anteTx(w, rmsg, "redelegate", rmsg.ValidateBasic, func() error {
		_, err := ts.Servers.StakingServer.BeginRedelegate(ts.GoCtx, rmsg)
		return err
	}); err != nil {
		t.Skipf("witness cannot be set up (treated as: finding does not reproduce, search runs without exclusion): redelegate failed: %v", err)
	}
	if ok, msg := balanceReport(w, d.Addr.String()); !ok {
		t.Skipf("witness cannot be set up (treated as: finding does not reproduce, search runs without exclusion): unbalanced before the slash: %s", msg)
	}
	w.C.AdvanceBlock(0) // EndBlock of the redelegation's block, BeginBlock of the next one
	val, _ := ts.Keepers.StakingKeeper.GetValidator(ts.Ctx, valAddrOf(w.Validators[0]))
	consAddr, _ := val.GetConsAddr()
	power := val.ConsensusPower(ts.Keepers.StakingKeeper.PowerReduction(ts.Ctx))
	ts.Keepers.SlashingKeeper.Slash(ts.Ctx, consAddr, sdk.NewDecWithPrec(5, 2), power, redelegationHeight)
	ts.Keepers.Dualstaking.BeginBlock(ts.Ctx, abci.RequestBeginBlock{})
	if ok, msg := balanceReport(w, d.Addr.String()); !ok {
		t.Fatalf("%s", ev.Violation("C06", "redelegation of 3000 from validator 0 to validator 1 as the last transaction of a block, then validator 0 slashed by 5%% in the next BeginBlock: %s (the redelegation ante flag was still set, so the unbonding done by staking.SlashRedelegation was not mirrored)", msg))
	}
}

// slashProcessed reports whether a validator slash was executed in this history.
func slashProcessed(w *chain.World) bool {
	for _, h := range w.C.Hist {
		if strings.Contains(h, "BeginBlock: slash(") && strings.HasSuffix(h, "-> ok") {
			return true
		}
	}
	return false
}
