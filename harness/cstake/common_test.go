package cstake

import (
	"fmt"
	"math/big"
	"os"
	"sort"
	"strings"
	"testing"

	abci "github.com/cometbft/cometbft/abci/types"
	sdk "github.com/cosmos/cosmos-sdk/types"
	stakingtypes "github.com/cosmos/cosmos-sdk/x/staking/types"
	"github.com/lavanet/lava/v5/testutil/common"
	commontypes "github.com/lavanet/lava/v5/utils/common/types"
	"github.com/lavanet/lava/v5/utils/sigs"
	dualstakingante "github.com/lavanet/lava/v5/x/dualstaking/ante"
	dualstakingtypes "github.com/lavanet/lava/v5/x/dualstaking/types"
	epochstoragetypes "github.com/lavanet/lava/v5/x/epochstorage/types"
	"pgregory.net/rapid"

	"verifharness/internal/chain"
	"verifharness/internal/ev"
)

const emptyProvider = commontypes.EMPTY_PROVIDER

// stakeCfg is the world shape of the staking/delegation properties.
var stakeCfg = chain.Cfg{Specs: [2]int{2, 3}, Validators: [2]int{2, 3}, Delegators: [2]int{1, 4}, Providers: [2]int{2, 5}}

func histString(w *chain.World, n int) string { return strings.Join(w.C.HistTail(n), "\n  ") }

func fingerprint(w *chain.World) string { return fmt.Sprint(w.C.Hist) }

func pick[T any](t *rapid.T, label string, xs []T) T {
	return xs[rapid.IntRange(0, len(xs)-1).Draw(t, label)]
}

func short(addr string) string {
	if len(addr) > 8 {
		return addr[len(addr)-6:]
	}
	return addr
}

func coin(w *chain.World, amount int64) sdk.Coin { return sdk.NewCoin(w.C.Denom(), sdk.NewInt(amount)) }

// withAnte runs, before a transaction action, what the RedelegationFlager ante handler does on the
// real chain for every transaction: DisableRedelegationHooks over the transaction's messages -
// here a non-redelegation message, which clears the "disable dualstaking hooks" flag. (The ante
// handler's write survives even if the message fails.) The redelegation action calls the same
// function with its MsgBeginRedelegate inside its transaction, as
// testutil/common.Tester.TxReDelegateValidator does.
func withAnte(w *chain.World, act func(*rapid.T)) func(*rapid.T) {
	return func(t *rapid.T) {
		if w.C.Halt == "" {
			rf := dualstakingante.NewRedelegationFlager(w.C.TS.Keepers.Dualstaking)
			_ = rf.DisableRedelegationHooks(w.C.TS.Ctx, []sdk.Msg{&stakingtypes.MsgDelegate{}})
		}
		act(t)
	}
}

// anteTx runs the ante step with the transaction's real message and then the transaction.
func anteTx(w *chain.World, msg sdk.Msg, name string, validate func() error, fn func() error) error {
	if w.C.Halt == "" {
		rf := dualstakingante.NewRedelegationFlager(w.C.TS.Keepers.Dualstaking)
		if err := rf.DisableRedelegationHooks(w.C.TS.Ctx, []sdk.Msg{msg}); err != nil {
			return err
		}
	}
	return w.C.Tx(name, validate, fn)
}

// actorPool: every account that can hold validator and provider delegations: delegators, provider
// vaults (a vault may be the provider itself) and the validators' own accounts (self-delegators).
func actorPool(w *chain.World) []sigs.Account {
	seen := map[string]bool{}
	var out []sigs.Account
	add := func(a sigs.Account) {
		if !seen[a.Addr.String()] {
			seen[a.Addr.String()] = true
			out = append(out, a)
		}
	}
	for _, d := range w.Delegators {
		add(d)
	}
	for _, p := range w.Providers {
		add(*p.Acc.Vault)
	}
	for _, v := range w.Validators {
		add(v)
	}
	return out
}

func valAddrOf(a sigs.Account) sdk.ValAddress { return sdk.ValAddress(a.Addr) }

func drawPart(t *rapid.T, total int64) int64 {
	if total <= 0 {
		return 1
	}
	switch rapid.IntRange(0, 5).Draw(t, "part") {
	case 0:
		return total
	case 1:
		return total/2 + 1
	case 2:
		return 1
	case 3:
		return total/3 + 1
	case 4:
		if total > 1 {
			return total - 1
		}
		return 1
	default:
		return int64(rapid.Int64Range(1, total).Draw(t, "partExact"))
	}
}

// ---- raw state readers (oracle side) ---------------------------------------------------------

// dualSnap: delegator -> provider (including the empty-provider placeholder) -> amount.
type dualSnap map[string]map[string]*big.Int

// readDual reads every provider delegation from the dualstaking store. problems lists negative
// or malformed amounts.
func readDual(w *chain.World) (dualSnap, []string, error) {
	all, err := w.C.TS.Keepers.Dualstaking.GetAllDelegations(w.C.TS.Ctx)
	if err != nil {
		return nil, nil, err
	}
	snap := dualSnap{}
	var problems []string
	for _, d := range all {
		if d.Amount.Amount.IsNil() {
			problems = append(problems, fmt.Sprintf("delegation %s->%s has a nil amount", short(d.Delegator), short(d.Provider)))
			continue
		}
		if d.Amount.Amount.IsNegative() {
			problems = append(problems, fmt.Sprintf("delegation %s->%s is negative: %s", short(d.Delegator), short(d.Provider), d.Amount))
		}
		if snap[d.Delegator] == nil {
			snap[d.Delegator] = map[string]*big.Int{}
		}
		snap[d.Delegator][d.Provider] = d.Amount.Amount.BigInt()
	}
	return snap, problems, nil
}

func (s dualSnap) total(delegator string) *big.Int {
	sum := new(big.Int)
	for _, a := range s[delegator] {
		sum.Add(sum, a)
	}
	return sum
}

// stakeSnap is the raw staking state: per validator its tokens and total shares, and per
// validator the shares of every delegator (shares as raw 18-decimal integers).
type valState struct{ T, S *big.Int }

type stakeSnap struct {
	vals   map[string]valState
	shares map[string]map[string]*big.Int // validator -> delegator -> shares
}

func readStaking(w *chain.World) stakeSnap {
	ts := w.C.TS
	snap := stakeSnap{vals: map[string]valState{}, shares: map[string]map[string]*big.Int{}}
	for _, v := range ts.Keepers.StakingKeeper.GetAllValidators(ts.Ctx) {
		snap.vals[v.OperatorAddress] = valState{T: v.Tokens.BigInt(), S: v.DelegatorShares.BigInt()}
	}
	for _, d := range ts.Keepers.StakingKeeper.GetAllDelegations(ts.Ctx) {
		if snap.shares[d.ValidatorAddress] == nil {
			snap.shares[d.ValidatorAddress] = map[string]*big.Int{}
		}
		snap.shares[d.ValidatorAddress][d.DelegatorAddress] = d.Shares.BigInt()
	}
	return snap
}

var decOne = new(big.Int).Exp(big.NewInt(10), big.NewInt(18), nil)

// unitRate: one share is worth exactly one token (no rounding can occur on this validator).
func (v valState) unitRate() bool {
	if v.S == nil || v.S.Sign() == 0 {
		return true
	}
	return new(big.Int).Mul(v.T, decOne).Cmp(v.S) == 0
}

// bounds returns, per delegator, the sum over validators of floor and of ceil of the exact token
// value of its shares (shares * validator.Tokens / validator.DelegatorShares, exact rational
// arithmetic on the raw 18-decimal share values).
func (s stakeSnap) bounds() map[string][2]*big.Int {
	out := map[string][2]*big.Int{}
	for _, val := range sortedKeys(s.shares) {
		v, ok := s.vals[val]
		if !ok {
			continue
		}
		for _, del := range sortedKeys(s.shares[val]) {
			cur, ok := out[del]
			if !ok {
				cur = [2]*big.Int{new(big.Int), new(big.Int)}
			}
			if v.S.Sign() > 0 {
				num := new(big.Int).Mul(s.shares[val][del], v.T)
				q, r := new(big.Int).QuoRem(num, v.S, new(big.Int))
				cur[0].Add(cur[0], q)
				cur[1].Add(cur[1], q)
				if r.Sign() > 0 {
					cur[1].Add(cur[1], big.NewInt(1))
				}
			}
			out[del] = cur
		}
	}
	return out
}

// roundingEvents compares two staking snapshots. It returns (a) per delegator the number of
// operations that happened on validators whose share price is not exactly 1 and on which the
// delegator holds shares - each such operation (by anybody) may move the token value of the
// delegator's shares by less than one token (cosmos share rounding) - and (b) the delegators
// that have a created or modified (still existing) validator delegation: for those the staking
// hook AfterDelegationModified ran, which re-balances the delegator completely. (When a
// delegation is removed entirely, BeforeDelegationRemoved only unbonds that delegation's worth.)
func roundingEvents(before, after stakeSnap) (events map[string]int, changed map[string]bool) {
	events, changed = map[string]int{}, map[string]bool{}
	vals := map[string]bool{}
	for v := range before.vals {
		vals[v] = true
	}
	for v := range after.vals {
		vals[v] = true
	}
	for val := range vals {
		b, a := before.vals[val], after.vals[val]
		ops := 0
		dels := map[string]bool{}
		for d, sh := range before.shares[val] {
			dels[d] = true
			if x := after.shares[val][d]; x == nil {
				ops++ // delegation removed: BeforeDelegationRemoved only unbonds that delegation's worth
			} else if x.Cmp(sh) != 0 {
				ops++
				changed[d] = true
			}
		}
		for d := range after.shares[val] {
			dels[d] = true
			if before.shares[val][d] == nil {
				ops++
				changed[d] = true
			}
		}
		same := b.T != nil && a.T != nil && b.T.Cmp(a.T) == 0 && b.S.Cmp(a.S) == 0
		if same && ops == 0 {
			continue
		}
		if ops == 0 {
			ops = 1
		}
		if b.unitRate() && a.unitRate() {
			continue
		}
		for d := range dels {
			events[d] += ops
		}
	}
	return events, changed
}

func sortedKeys[V any](m map[string]V) []string {
	out := make([]string, 0, len(m))
	for k := range m {
		out = append(out, k)
	}
	sort.Strings(out)
	return out
}

// ---- own actions ---------------------------------------------------------------------------------

// Known findings of the slash path. After a validator slash the dualstaking BeginBlocker
// (HandleSlashedValidators -> BalanceValidatorsDelegators) calls BalanceDelegator for every
// delegator of the validator and DROPS its error. Two causes make BalanceDelegator fail there:
//
// findingSlashVault: the delegator is a provider vault; the part of its loss taken from its own
// provider is split EVENLY over the provider's stake entries by AfterDelegationModified, which
// refuses it when an entry would drop below MinSelfDelegation.
//
// findingSlashZeroShare: UnbondUniformProviders spreads an amount smaller than the number of the
// delegator's (non-empty) providers: the per-provider share is 0 and keeper.unbond rejects a
// zero coin.
//
// findingStaleFlag (not an error-dropping case): the RedelegationFlager ante handler stores the
// "disable dualstaking hooks" flag in the KV store and only the NEXT transaction's ante handler
// clears it. If a staking redelegation is the last transaction of a block and the source
// validator is slashed in the next BeginBlock with an infraction height not after the
// redelegation, staking.SlashRedelegation unbonds shares at the destination validator while the
// hooks are still disabled, so that delegator is not re-balanced (and HandleSlashedValidators only
// visits current delegators of the slashed validator).
const (
	findingSlashVault     = "c06-slash-vault-rebalance-error-dropped"
	findingSlashZeroShare = "c06-slash-zero-share-unbond-error-dropped"
	findingStaleFlag      = "c06-stale-redelegation-flag-at-beginblock"
)

// staleFlagClass: the hooks are still disabled from the previous transaction and the validator is
// the source of a redelegation young enough to be slashed.
func staleFlagClass(w *chain.World, val stakingtypes.Validator, infraction int64) bool {
	ts := w.C.TS
	if !ts.Keepers.Dualstaking.GetDisableDualstakingHook(ts.Ctx) {
		return false
	}
	for _, r := range ts.Keepers.StakingKeeper.GetRedelegationsFromSrcValidator(ts.Ctx, val.GetOperator()) {
		for _, e := range r.Entries {
			if e.CreationHeight >= infraction {
				return true
			}
		}
	}
	return false
}

// slashFindingClass evaluates the structural predicates of the two known findings on the state
// right AFTER the slash and BEFORE the dualstaking BeginBlocker (own raw reads, exact losses).
// It returns the id of the class the slash falls in, or "".
func slashFindingClass(w *chain.World, valOper string) string {
	ts := w.C.TS
	snap, _, err := readDual(w)
	if err != nil {
		return ""
	}
	stake := readStaking(w)
	bounds := stake.bounds()
	minSelf := ts.Keepers.Dualstaking.MinSelfDelegation(ts.Ctx).Amount.BigInt()
	for _, d := range sortedKeys(stake.shares[valOper]) {
		hi := new(big.Int)
		if b, ok := bounds[d]; ok {
			hi = b[1]
		}
		// what UnbondUniformProviders must take from the non-empty providers
		rest := new(big.Int).Sub(snap.total(d), hi)
		if e := snap[d][emptyProvider]; e != nil {
			rest.Sub(rest, e)
		}
		if os.Getenv("VERIF_LOGS") != "" {
			fmt.Printf("VERIF-DEBUG class d=%s total=%s hi=%s rest=%s\n", d, snap.total(d), hi, rest)
		}
		if rest.Sign() <= 0 {
			continue
		}
		n := 0
		for p := range snap[d] {
			if p != emptyProvider {
				n++
			}
		}
		if n >= 2 && rest.Cmp(big.NewInt(int64(n))) < 0 {
			return findingSlashZeroShare
		}
		md, found := ts.Keepers.Epochstorage.GetProviderMetadataByVault(ts.Ctx, d)
		if !found || len(md.Chains) == 0 || snap[d][md.Provider] == nil {
			continue
		}
		// exact probe of the known-finding class: run the re-balancing of this provider vault on a
		// discarded branch of the state; the class is "BalanceDelegator of a vault is refused because
		// an entry would fall below the minimum self delegation" (the error HandleSlashedValidators drops)
		if dAddr, aerr := sdk.AccAddressFromBech32(d); aerr == nil {
			cctx, _ := ts.Ctx.CacheContext()
			_, berr := ts.Keepers.Dualstaking.BalanceDelegator(cctx, dAddr)
			if os.Getenv("VERIF_LOGS") != "" {
				fmt.Printf("VERIF-DEBUG probe vault %s: err=%v\n", d, berr)
			}
			if berr != nil && strings.Contains(berr.Error(), "self delegation below minimum") {
				return findingSlashVault
			}
		}
		// upper bound of what one entry loses: ceil(min(rest, self delegation) / entries) (+1 slack)
		take := rest
		if snap[d][md.Provider].Cmp(take) < 0 {
			take = snap[d][md.Provider]
		}
		perEntry := new(big.Int).Quo(take, big.NewInt(int64(len(md.Chains))))
		perEntry.Add(perEntry, big.NewInt(2))
		for _, chainID := range md.Chains {
			e, ok := ts.Keepers.Epochstorage.GetStakeEntryCurrent(ts.Ctx, chainID, md.Provider)
			if ok && new(big.Int).Sub(e.Stake.Amount.BigInt(), perEntry).Cmp(minSelf) < 0 {
				return findingSlashVault
			}
		}
	}
	return ""
}

type stakeActs struct {
	w *chain.World
	c *ev.Collector
	// kind of the last executed step, read (and cleared) by the invariant step:
	// "redelegate" = staking redelegation (hooks disabled: no re-balancing is expected),
	// "slash" = validator slash followed by the dualstaking BeginBlocker.
	lastKind    string
	lastSlashed string // operator address of the validator slashed by the last step
	lastOps     int    // number of staking operations executed by the last step (multi-message tx), 0 = one

	slashesWithProviderDelegations  int
	cancelOK                        int
	valRedelOK                      int
	valUnbondOK                     int
	batchOK, batchMixed, batchAuthz int
	vaultClassProbed                int
}

func (a *stakeActs) valDelegate(t *rapid.T) {
	w := a.w
	d := pick(t, "delegator", actorPool(w))
	v := pick(t, "validator", w.Validators)
	amount := int64(rapid.SampledFrom([]int{1, 2, 13, 1000, 99_999, 1_000_000}).Draw(t, "amount"))
	msg := stakingtypes.NewMsgDelegate(d.Addr, valAddrOf(v), coin(w, amount))
	_ = anteTx(w, msg, fmt.Sprintf("valDelegate(%s,val=%s,%d)", short(d.Addr.String()), short(v.Addr.String()), amount), msg.ValidateBasic, func() error {
		_, err := w.C.TS.Servers.StakingServer.Delegate(w.C.TS.GoCtx, msg)
		return err
	})
}

func (a *stakeActs) valUnbond(t *rapid.T) {
	w := a.w
	ts := w.C.TS
	d := pick(t, "delegator", actorPool(w))
	dels := ts.Keepers.StakingKeeper.GetAllDelegatorDelegations(ts.Ctx, d.Addr)
	if len(dels) == 0 {
		t.Skip("no validator delegations")
	}
	del := pick(t, "delegation", dels)
	val, found := ts.Keepers.StakingKeeper.GetValidator(ts.Ctx, del.GetValidatorAddr())
	if !found {
		t.Skip("validator gone")
	}
	tokens := val.TokensFromShares(del.Shares).TruncateInt().Int64()
	amount := drawPart(t, tokens)
	msg := stakingtypes.NewMsgUndelegate(d.Addr, del.GetValidatorAddr(), coin(w, amount))
	err := anteTx(w, msg, fmt.Sprintf("valUnbond(%s,val=%s,%d of %d)", short(d.Addr.String()), short(sdk.AccAddress(del.GetValidatorAddr()).String()), amount, tokens), msg.ValidateBasic, func() error {
		_, err := ts.Servers.StakingServer.Undelegate(ts.GoCtx, msg)
		return err
	})
	if err == nil {
		a.valUnbondOK++
	}
}

func (a *stakeActs) valRedelegate(t *rapid.T) {
	w := a.w
	ts := w.C.TS
	if len(w.Validators) < 2 {
		t.Skip("one validator")
	}
	d := pick(t, "delegator", actorPool(w))
	dels := ts.Keepers.StakingKeeper.GetAllDelegatorDelegations(ts.Ctx, d.Addr)
	if len(dels) == 0 {
		t.Skip("no validator delegations")
	}
	del := pick(t, "delegation", dels)
	to := pick(t, "to", w.Validators)
	if valAddrOf(to).Equals(del.GetValidatorAddr()) {
		t.Skip("same validator")
	}
	val, found := ts.Keepers.StakingKeeper.GetValidator(ts.Ctx, del.GetValidatorAddr())
	if !found {
		t.Skip("validator gone")
	}
	tokens := val.TokensFromShares(del.Shares).TruncateInt().Int64()
	amount := drawPart(t, tokens)
	msg := stakingtypes.NewMsgBeginRedelegate(d.Addr, del.GetValidatorAddr(), valAddrOf(to), coin(w, amount))
	err := w.C.Tx(fmt.Sprintf("valRedelegate(%s,%s->%s,%d of %d)", short(d.Addr.String()), short(sdk.AccAddress(del.GetValidatorAddr()).String()), short(to.Addr.String()), amount, tokens), msg.ValidateBasic, func() error {
		// the ante handler of the real chain disables the dualstaking hooks for this message
		rf := dualstakingante.NewRedelegationFlager(ts.Keepers.Dualstaking)
		if err := rf.DisableRedelegationHooks(ts.Ctx, []sdk.Msg{msg}); err != nil {
			return err
		}
		_, err := ts.Servers.StakingServer.BeginRedelegate(ts.GoCtx, msg)
		return err
	})
	a.lastKind = "redelegate"
	if err == nil {
		a.valRedelOK++
	}
}

// cancelUnbond: MsgCancelUnbondingDelegation on an existing unbonding entry (part or all of it).
func (a *stakeActs) cancelUnbond(t *rapid.T) {
	w := a.w
	ts := w.C.TS
	d := pick(t, "delegator", actorPool(w))
	ubds := ts.Keepers.StakingKeeper.GetUnbondingDelegations(ts.Ctx, d.Addr, 100)
	type cand struct {
		val    sdk.ValAddress
		height int64
		bal    int64
	}
	var cands []cand
	for _, u := range ubds {
		va, err := sdk.ValAddressFromBech32(u.ValidatorAddress)
		if err != nil {
			continue
		}
		for _, e := range u.Entries {
			if e.Balance.IsPositive() && e.CreationHeight > 0 {
				cands = append(cands, cand{va, e.CreationHeight, e.Balance.Int64()})
			}
		}
	}
	if len(cands) == 0 {
		t.Skip("no unbonding entries")
	}
	cd := pick(t, "entry", cands)
	amount := drawPart(t, cd.bal)
	msg := stakingtypes.NewMsgCancelUnbondingDelegation(d.Addr, cd.val, cd.height, coin(w, amount))
	err := anteTx(w, msg, fmt.Sprintf("cancelUnbond(%s,val=%s,h=%d,%d of %d)", short(d.Addr.String()), short(sdk.AccAddress(cd.val).String()), cd.height, amount, cd.bal), msg.ValidateBasic, func() error {
		_, err := ts.Servers.StakingServer.CancelUnbondingDelegation(ts.GoCtx, msg)
		return err
	})
	if err == nil {
		a.cancelOK++
	}
}

// slash models a validator slash as it happens on the real chain: in BeginBlock of a new block the
// slashing/evidence module calls staking.Slash and, later in the same BeginBlock (module order in
// app.go: ... slashing, evidence, dualstaking ...), the dualstaking BeginBlocker runs
// HandleSlashedValidators. No transaction can run in between. The infraction height may lie a few
// blocks back, so unbonding delegations and redelegations started since then are slashed too.
func (a *stakeActs) slash(t *rapid.T) {
	w := a.w
	ts := w.C.TS
	if w.C.Halt != "" {
		t.Skip("halted")
	}
	v := pick(t, "validator", w.Validators)
	frac := sdk.NewDecWithPrec(int64(rapid.SampledFrom([]int{1, 5, 33, 50}).Draw(t, "slashPct")), 2)
	back := int64(rapid.SampledFrom([]int{0, 1, 2, 5, 30}).Draw(t, "infractionBlocksBack"))
	if !w.C.AdvanceBlock(0) {
		t.Skip("halted")
	}
	val, found := ts.Keepers.StakingKeeper.GetValidator(ts.Ctx, valAddrOf(v))
	if !found || val.IsUnbonded() || val.Tokens.IsZero() {
		t.Skip("validator cannot be slashed")
	}
	snap, _, err := readDual(w)
	if err != nil {
		t.Skip("cannot read delegations")
	}
	withProv := false
	for _, d := range ts.Keepers.StakingKeeper.GetValidatorDelegations(ts.Ctx, valAddrOf(v)) {
		for p := range snap[d.DelegatorAddress] {
			if p != emptyProvider {
				withProv = true
			}
		}
	}
	infraction := ts.Ctx.BlockHeight() - back
	if infraction < 1 {
		infraction = 1
	}
	if ev.Excluded(findingStaleFlag) && staleFlagClass(w, val, infraction) {
		a.c.Exclude(findingStaleFlag)
		w.C.Logf("slash(validator %s) not generated: known finding %s", short(v.Addr.String()), findingStaleFlag)
		return
	}
	// Slash and dualstaking BeginBlocker run in one atomic step (store cache + bank snapshot, via
	// Chain.Tx) so that a slash that falls into a known-finding class can be taken back: the
	// class is then excluded "by construction" with predicates evaluated on the exact
	// post-slash state.
	excludedClass, branchViolation := "", ""
	err = w.C.Tx(fmt.Sprintf("BeginBlock: slash(validator %s, %s, infraction height %d) + dualstaking BeginBlocker", short(v.Addr.String()), frac, infraction), nil, func() error {
		power := val.ConsensusPower(ts.Keepers.StakingKeeper.PowerReduction(ts.Ctx))
		consAddr, _ := val.GetConsAddr()
		// the slashing module's Slash (what its BeginBlocker and the evidence module call; also what
		// testutil/common.Tester.SlashValidator uses) -> staking.SlashWithInfractionReason -> hooks
		ts.Keepers.SlashingKeeper.Slash(ts.Ctx, consAddr, frac, power, infraction)
		if cls := slashFindingClass(w, val.OperatorAddress); cls != "" && ev.Excluded(cls) {
			// the slash is taken back: in the class of a known finding the (non-atomic) BeginBlock leaves
			// partially written state behind that cascades into later steps of the history
			excludedClass = cls
			if cls == findingSlashVault {
				// Before the slash is taken back, the BeginBlocker still runs on this (discarded) branch to
				// check what the listed finding does not concern: whatever happens to a provider vault
				// whose re-balancing is refused, the plain (non-vault) delegators of the slashed validator
				// are re-balanced in the same BeginBlock. A plain delegator's re-balancing only touches its
				// own delegation records and the totals of its providers, so it cannot be affected by the
				// vault's refused step. Rounding tolerance: 2 tokens.
				func() {
					defer func() {
						if r := recover(); r != nil {
							branchViolation = fmt.Sprintf("the dualstaking BeginBlocker panicked after the slash: %v", r)
						}
					}()
					ts.Keepers.Dualstaking.BeginBlock(ts.Ctx, abci.RequestBeginBlock{})
				}()
				if branchViolation == "" {
					branchViolation = plainDelegatorsUnbalanced(w, val.OperatorAddress, 2)
				}
			}
			return fmt.Errorf("slash taken back: known finding %s", cls)
		}
		ts.Keepers.Dualstaking.BeginBlock(ts.Ctx, abci.RequestBeginBlock{})
		return nil
	})
	if branchViolation != "" {
		a.c.Clause("plain-delegators-rebalanced-although-a-vault-was-refused")
		t.Fatalf("%s", ev.Violation("C06", "validator slash with a provider vault whose re-balancing is refused (listed finding %s), evaluated on a branch of the state: %s\nhistory (tail):\n  %s", findingSlashVault, branchViolation, histString(w, 40)))
	}
	switch {
	case excludedClass != "":
		if excludedClass == findingSlashVault {
			a.c.Clause("plain-delegators-rebalanced-although-a-vault-was-refused")
			a.vaultClassProbed++
		}
		a.c.Exclude(excludedClass)
	case err != nil:
		// a panic in BeginBlock is a chain halt: C37's subject, this case ends here
		w.C.Halt = "panic in slash / dualstaking BeginBlock: " + err.Error()
	default:
		a.lastKind, a.lastSlashed = "slash", val.OperatorAddress
		if withProv {
			a.slashesWithProviderDelegations++
		}
	}
}

// dualRedelegate: MsgRedelegate between providers, from/to the empty provider included.
func (a *stakeActs) dualRedelegate(t *rapid.T) {
	w := a.w
	d := pick(t, "delegator", actorPool(w))
	snap, _, err := readDual(w)
	if err != nil || len(snap[d.Addr.String()]) == 0 {
		t.Skip("no delegations")
	}
	froms := sortedKeys(snap[d.Addr.String()])
	from := pick(t, "from", froms)
	tos := []string{emptyProvider}
	for _, p := range w.Providers {
		tos = append(tos, p.Addr())
	}
	to := pick(t, "to", tos)
	if to == from {
		t.Skip("same provider")
	}
	have := snap[d.Addr.String()][from]
	amount := drawPart(t, have.Int64())
	msg := &dualstakingtypes.MsgRedelegate{Creator: d.Addr.String(), FromProvider: from, ToProvider: to, Amount: coin(w, amount)}
	_ = anteTx(w, msg, fmt.Sprintf("dualRedelegate(%s:%s->%s,%d of %s)", short(d.Addr.String()), short(from), short(to), amount, have), msg.ValidateBasic, func() error {
		_, err := w.C.TS.Servers.DualstakingServer.Redelegate(w.C.TS.GoCtx, msg)
		return err
	})
}

// dualDelegate: MsgDelegate by any actor (delegators, vaults, validators) to a provider.
func (a *stakeActs) dualDelegate(t *rapid.T) {
	w := a.w
	d := pick(t, "delegator", actorPool(w))
	p := pick(t, "provider", w.Providers)
	v := pick(t, "validator", w.Validators)
	amount := int64(rapid.SampledFrom([]int{1, 7, 1000, 100_000, 10_000_000}).Draw(t, "amount"))
	msg := &dualstakingtypes.MsgDelegate{Creator: d.Addr.String(), Validator: valAddrOf(v).String(), Provider: p.Addr(), ChainID: "", Amount: coin(w, amount)}
	_ = anteTx(w, msg, fmt.Sprintf("dualDelegate(%s->%s,val=%s,%d)", short(d.Addr.String()), p.Name, short(v.Addr.String()), amount), msg.ValidateBasic, func() error {
		_, err := w.C.TS.Servers.DualstakingServer.Delegate(w.C.TS.GoCtx, msg)
		return err
	})
}

// dualUnbond: MsgUnbond by any actor from one of its providers through one of ITS validators.
func (a *stakeActs) dualUnbond(t *rapid.T) {
	w := a.w
	ts := w.C.TS
	d := pick(t, "delegator", actorPool(w))
	snap, _, err := readDual(w)
	if err != nil || len(snap[d.Addr.String()]) == 0 {
		t.Skip("no delegations")
	}
	from := pick(t, "from", sortedKeys(snap[d.Addr.String()]))
	if from == emptyProvider {
		t.Skip("MsgUnbond needs a provider address")
	}
	dels := ts.Keepers.StakingKeeper.GetAllDelegatorDelegations(ts.Ctx, d.Addr)
	if len(dels) == 0 {
		t.Skip("no validator delegations")
	}
	del := pick(t, "delegation", dels)
	have := snap[d.Addr.String()][from]
	amount := drawPart(t, have.Int64())
	msg := &dualstakingtypes.MsgUnbond{Creator: d.Addr.String(), Validator: del.ValidatorAddress, Provider: from, Amount: coin(w, amount)}
	_ = anteTx(w, msg, fmt.Sprintf("dualUnbond(%s:%s,val=%s,%d of %s)", short(d.Addr.String()), short(from), short(sdk.AccAddress(del.GetValidatorAddr()).String()), amount, have), msg.ValidateBasic, func() error {
		_, err := ts.Servers.DualstakingServer.Unbond(ts.GoCtx, msg)
		return err
	})
}

// ---- deterministic worlds for witness tests ---------------------------------------------------------

// fixedLight: skip the two epoch advances of fixedWorld (keeper-level properties do not need them).
var fixedLight = false

func fixedEndpoints() []epochstoragetypes.Endpoint {
	return []epochstoragetypes.Endpoint{{IPPORT: "10.0.0.1:443", Geolocation: 1, ApiInterfaces: []string{chain.IfJSON}}}
}

type fixedProv struct {
	ownVault bool
	stakes   map[string]int64 // chain -> stake
	val      int              // validator index used for the self delegation
}

// fixedWorld builds a small deterministic world by hand (no rapid draws): specs SP0.. with
// MinStakeProvider 1000, validators with 1e9 self-delegation, providers staked as described,
// nDel funded delegators.
func fixedWorld(t *testing.T, nSpecs, nVals int, provs []fixedProv, nDel int) (*chain.World, error) {
	c := chain.New(t, 7)
	w := &chain.World{C: c, Cfg: stakeCfg, Keys: map[string]sigs.Account{}, NextSess: 1}
	w.Cfg.Balance = 10_000_000_000
	ts := c.TS
	c.AdvanceBlock(0)
	for i := 0; i < nSpecs; i++ {
		s := chain.MakeSpec(fmt.Sprintf("SP%d", i), false, 1000, c.Denom())
		ts.AddSpec(s.Index, s)
		w.Specs = append(w.Specs, s)
	}
	for i := 0; i < nVals; i++ {
		acc, _ := ts.AddAccount(common.VALIDATOR, i, w.Cfg.Balance)
		w.Keys[acc.Addr.String()] = acc
		ts.TxCreateValidator(acc, sdk.NewInt(w.Cfg.Balance/10))
		w.Validators = append(w.Validators, acc)
	}
	for i, fp := range provs {
		acc := w.NewAccount(w.Cfg.Balance)
		if fp.ownVault {
			self := acc
			acc.Vault = &self
		} else {
			v := w.NewAccount(w.Cfg.Balance)
			acc.Vault = &v
		}
		w.Keys[acc.Addr.String()] = acc
		w.Providers = append(w.Providers, &chain.Prov{Name: fmt.Sprintf("prov%d", i), Acc: acc})
	}
	if fixedLight {
		c.AdvanceBlock(0)
	} else {
		c.AdvanceEpoch()
	}
	for i, fp := range provs {
		for _, chainID := range sortedKeys(fp.stakes) {
			if err := w.StakeProvider(w.Providers[i], chainID, fp.stakes[chainID], 1, fixedEndpoints(), 50, w.Validators[fp.val]); err != nil {
				return nil, fmt.Errorf("fixed world: stake failed: %v", err)
			}
		}
	}
	for i := 0; i < nDel; i++ {
		w.Delegators = append(w.Delegators, w.NewAccount(w.Cfg.Balance))
	}
	if fixedLight {
		c.AdvanceBlock(0)
	} else {
		c.AdvanceEpoch()
	}
	c.Hist = nil
	return w, nil
}

// witnessGuard makes a known-finding witness robust: if the scenario cannot even be set up (setup
// transaction rejected, panic), the witness is skipped, which the driver reads as "finding does
// not reproduce" - the search then runs WITHOUT the exclusion, so nothing is hidden.
func witnessGuard(t *testing.T) {
	if r := recover(); r != nil {
		t.Skipf("witness cannot be set up (treated as: finding does not reproduce, search runs without exclusion): panic: %v", r)
	}
}

// plainDelegatorsUnbalanced names a non-vault delegator of validator valOper whose provider delegations
// exceed the ceiling of its validator tokens by more than tol tokens ("" if none).
func plainDelegatorsUnbalanced(w *chain.World, valOper string, tol int64) string {
	snap, _, err := readDual(w)
	if err != nil {
		return ""
	}
	stake := readStaking(w)
	bounds := stake.bounds()
	for _, d := range sortedKeys(stake.shares[valOper]) {
		if _, isVault := w.C.TS.Keepers.Epochstorage.GetProviderMetadataByVault(w.C.TS.Ctx, d); isVault {
			continue
		}
		b, ok := bounds[d]
		if !ok {
			continue
		}
		sum := snap.total(d)
		hi := new(big.Int).Add(b[1], big.NewInt(tol))
		lo := new(big.Int).Sub(b[0], big.NewInt(tol))
		if sum.Cmp(hi) > 0 || sum.Cmp(lo) < 0 {
			return fmt.Sprintf("plain delegator %s of the slashed validator was not re-balanced in the BeginBlock of the slash: provider delegations sum to %s, validator delegations are worth between %s and %s tokens", short(d), sum, b[0], b[1])
		}
	}
	return ""
}
