package cstake

import (
	"fmt"
	"math/big"
	"sort"
	"strings"
	"testing"

	dualstakingtypes "github.com/lavanet/lava/v5/x/dualstaking/types"
	epochstoragetypes "github.com/lavanet/lava/v5/x/epochstorage/types"
	pairingtypes "github.com/lavanet/lava/v5/x/pairing/types"
	"pgregory.net/rapid"

	"verifharness/internal/chain"
	"verifharness/internal/ev"
)

// C07: provider metadata, stake entries and delegations stay consistent.
//
//	I1 metadata.Chains == set of chains with a current stake entry; metadata exists <=> >=1 entry
//	I2 sum of entry.Stake == delegation(provider, vault)
//	I3 metadata.TotalDelegations == sum of the non-vault delegations to the provider
//	after a transaction that changed the provider's stakes or delegations:
//	I4 each entry.DelegateTotal == floor(TotalDelegations * entry.Stake / sum of Stake)
//	I5 an entry whose total stake (Stake+DelegateTotal) fell below the spec minimum through that
//	   transaction is frozen
//
// All five are computed from raw reads (GetAllMetadata, GetAllStakeEntriesCurrent,
// GetAllDelegations) with big-int arithmetic.

// findingUnstakeByProvider: UnstakeEntry called by the provider address (not the vault) hands the
// removed entry's stake to the remaining entries without AfterDelegationModified, so their
// DelegateTotal is not re-proportioned (I4).
const findingUnstakeByProvider = "c07-unstake-by-provider-no-redistribution"

// findingUnfreezeStaleCopy: StakeNewEntry (modify by the vault) writes the entry, lets DelegateFull ->
// AfterDelegationModified recompute every DelegateTotal, and then - when the increase lifts a frozen
// entry from below to at least the spec minimum - unfreezes and stores its OWN stale copy of the
// entry, overwriting the recomputed DelegateTotal (I4).
const findingUnfreezeStaleCopy = "c07-auto-unfreeze-overwrites-delegate-total"

type provState struct {
	meta    *epochstoragetypes.ProviderMetadata
	entries map[string]epochstoragetypes.StakeEntry // chain -> entry
	dels    map[string]*big.Int                     // delegator -> amount
}

type provSnap map[string]*provState

func readProviders(w *chain.World) (provSnap, error) {
	ts := w.C.TS
	snap := provSnap{}
	get := func(p string) *provState {
		if snap[p] == nil {
			snap[p] = &provState{entries: map[string]epochstoragetypes.StakeEntry{}, dels: map[string]*big.Int{}}
		}
		return snap[p]
	}
	metas, err := ts.Keepers.Epochstorage.GetAllMetadata(ts.Ctx)
	if err != nil {
		return nil, err
	}
	for i := range metas {
		m := metas[i]
		get(m.Provider).meta = &m
	}
	for _, e := range ts.Keepers.Epochstorage.GetAllStakeEntriesCurrent(ts.Ctx) {
		get(e.Address).entries[e.Chain] = e
	}
	dels, err := ts.Keepers.Dualstaking.GetAllDelegations(ts.Ctx)
	if err != nil {
		return nil, err
	}
	for _, d := range dels {
		if d.Provider == emptyProvider {
			continue
		}
		get(d.Provider).dels[d.Delegator] = d.Amount.Amount.BigInt()
	}
	return snap, nil
}

func (p *provState) sumStake() *big.Int {
	s := new(big.Int)
	for _, e := range p.entries {
		s.Add(s, e.Stake.Amount.BigInt())
	}
	return s
}

func (p *provState) describe() string {
	var parts []string
	for _, c := range sortedKeys(p.entries) {
		e := p.entries[c]
		parts = append(parts, fmt.Sprintf("%s{stake=%s delegateTotal=%s frozen=%v}", c, e.Stake.Amount, e.DelegateTotal.Amount, e.IsFrozen()))
	}
	if p.meta != nil {
		parts = append(parts, fmt.Sprintf("meta{chains=%v totalDelegations=%s vault=%s}", p.meta.Chains, p.meta.TotalDelegations.Amount, short(p.meta.Vault)))
	} else {
		parts = append(parts, "meta{none}")
	}
	for _, d := range sortedKeys(p.dels) {
		parts = append(parts, fmt.Sprintf("del[%s]=%s", short(d), p.dels[d]))
	}
	return strings.Join(parts, " ")
}

// changed: did a step change the provider's stakes or delegations?
func provChanged(b, a *provState) bool {
	if (b == nil) != (a == nil) {
		return true
	}
	if b == nil {
		return false
	}
	if len(b.entries) != len(a.entries) || len(b.dels) != len(a.dels) || (b.meta == nil) != (a.meta == nil) {
		return true
	}
	for c, eb := range b.entries {
		ea, ok := a.entries[c]
		if !ok || !ea.Stake.Amount.Equal(eb.Stake.Amount) || !ea.DelegateTotal.Amount.Equal(eb.DelegateTotal.Amount) {
			return true
		}
	}
	for d, x := range b.dels {
		y, ok := a.dels[d]
		if !ok || x.Cmp(y) != 0 {
			return true
		}
	}
	if b.meta != nil && !b.meta.TotalDelegations.Amount.Equal(a.meta.TotalDelegations.Amount) {
		return true
	}
	return false
}

// checkStatic checks I1-I3 for every provider; returns a violation text or "".
func checkStatic(c *ev.Collector, snap provSnap) string {
	for _, p := range sortedKeys(snap) {
		st := snap[p]
		c.Clause("I1-metadata-chains-match-entries")
		if (st.meta != nil) != (len(st.entries) > 0) {
			return fmt.Sprintf("I1: provider %s: metadata exists=%v but it has %d current stake entries: %s", short(p), st.meta != nil, len(st.entries), st.describe())
		}
		if st.meta == nil {
			continue
		}
		chains := append([]string{}, st.meta.Chains...)
		sort.Strings(chains)
		if strings.Join(chains, ",") != strings.Join(sortedKeys(st.entries), ",") {
			return fmt.Sprintf("I1: provider %s: metadata chains %v != chains with a current stake entry %v", short(p), st.meta.Chains, sortedKeys(st.entries))
		}
		c.Clause("I2-self-stake-equals-vault-delegation")
		vaultDel := st.dels[st.meta.Vault]
		if vaultDel == nil {
			vaultDel = new(big.Int)
		}
		if st.sumStake().Cmp(vaultDel) != 0 {
			return fmt.Sprintf("I2: provider %s: stake of its entries sums to %s but its vault's delegation to it is %s: %s", short(p), st.sumStake(), vaultDel, st.describe())
		}
		c.Clause("I3-total-delegations")
		ext := new(big.Int)
		for d, x := range st.dels {
			if d != st.meta.Vault {
				ext.Add(ext, x)
			}
		}
		if st.meta.TotalDelegations.Amount.BigInt().Cmp(ext) != 0 {
			return fmt.Sprintf("I3: provider %s: metadata.TotalDelegations=%s but its non-vault delegations sum to %s: %s", short(p), st.meta.TotalDelegations.Amount, ext, st.describe())
		}
	}
	return ""
}

// checkTouched checks I4 and I5 for every provider whose stakes or delegations changed between
// before and after. minStake: chain -> spec minimum.
func checkTouched(c *ev.Collector, before, after provSnap, minStake map[string]*big.Int) (violation string, touchedMultiChainWithDelegator bool) {
	all := map[string]bool{}
	for p := range before {
		all[p] = true
	}
	for p := range after {
		all[p] = true
	}
	for _, p := range sortedKeys(all) {
		b, a := before[p], after[p]
		if !provChanged(b, a) || a == nil || a.meta == nil {
			continue
		}
		total := a.sumStake()
		ext := 0
		for d := range a.dels {
			if d != a.meta.Vault {
				ext++
			}
		}
		if len(a.entries) >= 2 && ext >= 1 {
			touchedMultiChainWithDelegator = true
		}
		for _, ch := range sortedKeys(a.entries) {
			e := a.entries[ch]
			if total.Sign() > 0 {
				c.Clause("I4-delegate-total-proportional")
				want := new(big.Int).Mul(a.meta.TotalDelegations.Amount.BigInt(), e.Stake.Amount.BigInt())
				want.Quo(want, total)
				if e.DelegateTotal.Amount.BigInt().Cmp(want) != 0 {
					return fmt.Sprintf("I4: provider %s chain %s: DelegateTotal=%s but floor(TotalDelegations %s * stake %s / total stake %s) = %s: %s",
						short(p), ch, e.DelegateTotal.Amount, a.meta.TotalDelegations.Amount, e.Stake.Amount, total, want, a.describe()), touchedMultiChainWithDelegator
				}
			}
			if b != nil {
				if eb, ok := b.entries[ch]; ok && minStake[ch] != nil {
					c.Clause("I5-frozen-below-min-stake")
					tb := eb.TotalStake().BigInt()
					ta := e.TotalStake().BigInt()
					if tb.Cmp(minStake[ch]) >= 0 && ta.Cmp(minStake[ch]) < 0 && !e.IsFrozen() {
						return fmt.Sprintf("I5: provider %s chain %s: total stake fell from %s to %s (spec minimum %s) but the entry is not frozen: %s", short(p), ch, tb, ta, minStake[ch], a.describe()), touchedMultiChainWithDelegator
					}
				}
			}
		}
	}
	return "", touchedMultiChainWithDelegator
}

type c07Acts struct {
	*stakeActs
	unstakeByProviderOK, moveOK, modifyOK, froze, proppedUp int
}

// unstake: by the vault, or by the provider address (only meaningful when they differ).
func (a *c07Acts) unstake(t *rapid.T) {
	w := a.w
	p := pick(t, "provider", w.Providers)
	chains := w.ChainsOf(p)
	if len(chains) == 0 {
		t.Skip("not staked")
	}
	ch := pick(t, "chain", chains)
	creator, by := p.Vault(), "vault"
	if p.Vault() != p.Addr() && rapid.IntRange(0, 2).Draw(t, "byProvider") > 0 {
		creator, by = p.Addr(), "provider"
		if ev.Excluded(findingUnstakeByProvider) && len(chains) >= 2 {
			md, err := w.C.TS.Keepers.Epochstorage.GetMetadata(w.C.TS.Ctx, p.Addr())
			if err == nil && !md.TotalDelegations.IsZero() {
				a.c.Exclude(findingUnstakeByProvider)
				t.Skip("known finding: unstake by provider address with >=2 chains and delegations")
			}
		}
	}
	v := pick(t, "validator", w.Validators)
	msg := &pairingtypes.MsgUnstakeProvider{Creator: creator, ChainID: ch, Validator: valAddrOf(v).String()}
	err := w.C.Tx(fmt.Sprintf("unstake(%s,%s,by=%s,chains=%d)", p.Name, ch, by, len(chains)), msg.ValidateBasic, func() error {
		_, err := w.C.TS.Servers.PairingServer.UnstakeProvider(w.C.TS.GoCtx, msg)
		return err
	})
	if err == nil && by == "provider" {
		a.unstakeByProviderOK++
	}
}

// modifyStake: re-stake an existing entry with another amount, mostly keeping the commission
// (commission changes are rate limited once the provider has delegations).
func (a *c07Acts) modifyStake(t *rapid.T) {
	w := a.w
	ts := w.C.TS
	p := pick(t, "provider", w.Providers)
	chains := w.ChainsOf(p)
	if len(chains) == 0 {
		t.Skip("not staked")
	}
	ch := pick(t, "chain", chains)
	entry, _ := ts.Keepers.Epochstorage.GetStakeEntryCurrent(ts.Ctx, ch, p.Addr())
	md, err := ts.Keepers.Epochstorage.GetMetadata(ts.Ctx, p.Addr())
	if err != nil {
		t.Skip("no metadata")
	}
	cur := entry.Stake.Amount.Int64()
	var amount int64
	switch rapid.IntRange(0, 5).Draw(t, "how") {
	case 0:
		amount = cur / 2
	case 1:
		amount = cur + 1
	case 2:
		amount = cur + int64(rapid.SampledFrom([]int{1000, 100_000}).Draw(t, "inc"))
	case 3:
		amount = cur - 1
	case 4:
		amount = int64(rapid.Int64Range(100, cur+100).Draw(t, "exact"))
	default:
		amount = cur
	}
	commission := md.DelegateCommission
	switch rapid.IntRange(0, 5).Draw(t, "commissionChange") {
	case 0:
		commission++
	case 1:
		commission = uint64(rapid.SampledFrom([]int{0, 10, 50, 100}).Draw(t, "commission"))
	}
	if commission > 100 {
		commission = 100
	}
	if ev.Excluded(findingUnfreezeStaleCopy) && entry.IsFrozen() && amount > cur && !md.TotalDelegations.IsZero() {
		if min := w.SpecByIndex(ch).MinStakeProvider.Amount.Int64(); cur < min && amount >= min {
			a.c.Exclude(findingUnfreezeStaleCopy)
			t.Skip("known finding: stake increase that auto-unfreezes an entry of a provider with delegations")
		}
	}
	v := pick(t, "validator", w.Validators)
	if w.StakeProvider(p, ch, amount, entry.Geolocation, entry.Endpoints, commission, v) == nil {
		a.modifyOK++
	}
}

func (a *c07Acts) moveStake(t *rapid.T) {
	w := a.w
	p := pick(t, "provider", w.Providers)
	chains := w.ChainsOf(p)
	if len(chains) < 2 {
		t.Skip("needs two chains")
	}
	src := pick(t, "src", chains)
	dst := pick(t, "dst", chains)
	if src == dst {
		t.Skip("same chain")
	}
	entry, _ := w.C.TS.Keepers.Epochstorage.GetStakeEntryCurrent(w.C.TS.Ctx, src, p.Addr())
	amount := drawPart(t, entry.Stake.Amount.Int64())
	creator := p.Vault()
	msg := &pairingtypes.MsgMoveProviderStake{Creator: creator, SrcChain: src, DstChain: dst, Amount: coin(w, amount)}
	err := w.C.Tx(fmt.Sprintf("moveStake(%s,%s->%s,%d of %s)", p.Name, src, dst, amount, entry.Stake.Amount), msg.ValidateBasic, func() error {
		_, err := w.C.TS.Servers.PairingServer.MoveProviderStake(w.C.TS.GoCtx, msg)
		return err
	})
	if err == nil {
		a.moveOK++
	}
}

func TestC07(t *testing.T) {
	c := ev.For("C07")
	c.SetRule("rapid state machine on a generated world (2-5 providers, vault equal to or different from the provider, on 2-3 chains; 1-4 delegators plus vaults and validators as delegators): stake on a new chain / modify stake and commission / move-stake / unstake by vault / unstake by the provider address / freeze, unfreeze / a directed scenario with drawn parameters (self stake lowered below the spec minimum, a delegator adds the missing amount, unfreeze, the delegator unbonds a drawn part) / dualstaking delegate, redelegate (empty provider included), unbond / validator-side delegate, undelegate, redelegate, cancel-unbond, hours-days advancing; oracle I1-I3 after every step and block, I4-I5 after every transaction for the providers whose stakes or delegations it changed; non-trivial = a transaction changed a provider staked on >=2 chains that has >=1 non-vault delegator; distinct = distinct histories")
	c.Assume("transactions run atomically (cache context + bank snapshot) as under BaseApp",
		"no validator slashes in this alphabet (the slash path is C06's subject; its known finding also leaves entries and vault delegation apart)",
		"spec minimum stakes are constant during a history")
	rapid.Check(t, func(rt *rapid.T) { propC07(rt, t, c) })
}

func propC07(rt *rapid.T, t *testing.T, c *ev.Collector) {
	w := chain.NewWorld(rt, t, stakeCfg)
	a := &c07Acts{stakeActs: &stakeActs{w: w, c: c}}
	minStake := map[string]*big.Int{}
	for _, s := range w.Specs {
		minStake[s.Index] = s.MinStakeProvider.Amount.BigInt()
	}
	prev, err := readProviders(w)
	if err != nil {
		t.Fatalf("%s", ev.HarnessError("cannot read provider state: %v", err))
	}
	if v := checkStatic(c, prev); v != "" {
		rt.Fatalf("%s", ev.Violation("C07", "%s (right after world setup)", v))
	}
	ntSteps := 0
	check := func(where string, tx bool) {
		if w.C.Halt != "" {
			return
		}
		snap, err := readProviders(w)
		if err != nil {
			t.Fatalf("%s", ev.HarnessError("cannot read provider state: %v", err))
		}
		if v := checkStatic(c, snap); v != "" {
			rt.Fatalf("%s", ev.Violation("C07", "%s (%s)\nhistory (tail):\n  %s", v, where, histString(w, 40)))
		}
		if tx {
			v, nt := checkTouched(c, prev, snap, minStake)
			if v != "" {
				rt.Fatalf("%s", ev.Violation("C07", "%s (%s)\nhistory (tail):\n  %s", v, where, histString(w, 40)))
			}
			if nt {
				ntSteps++
			}
			for p, st := range snap {
				for ch, e := range st.entries {
					if b := prev[p]; b != nil {
						if eb, ok := b.entries[ch]; ok && !eb.IsFrozen() && e.IsFrozen() {
							a.froze++
						}
					}
				}
			}
		}
		prev = snap
	}
	w.C.BlockHook = func() {
		check(fmt.Sprintf("after the block boundary reaching height %d", w.C.Height()), false)
	}
	// proppedUp (directed, drawn parameters): an entry whose self stake is below the spec minimum
	// and that is active only thanks to delegations (self stake lowered below the minimum => frozen,
	// a delegator adds the missing amount, the provider unfreezes); then the delegator takes a drawn
	// part back. Every transaction is followed by the oracle.
	proppedUp := func(rt *rapid.T) {
		p := pick(rt, "provider", w.Providers)
		chains := w.ChainsOf(p)
		if len(chains) == 0 {
			rt.Skip("not staked")
		}
		ch := pick(rt, "chain", chains)
		ks := w.C.TS.Keepers
		entry, found := ks.Epochstorage.GetStakeEntryCurrent(w.C.TS.Ctx, ch, p.Addr())
		md, err := ks.Epochstorage.GetMetadata(w.C.TS.Ctx, p.Addr())
		if !found || err != nil {
			rt.Skip("no entry")
		}
		min := w.SpecByIndex(ch).MinStakeProvider.Amount.Int64()
		below := int64(rapid.SampledFrom([]int{1, 10, 400}).Draw(rt, "below"))
		v := pick(rt, "validator", w.Validators)
		step := func(what string) { check("after "+what+" of the propped-up scenario", true) }
		if w.StakeProvider(p, ch, min-below, entry.Geolocation, entry.Endpoints, md.DelegateCommission, v) != nil {
			step("the stake decrease")
			return
		}
		step("the stake decrease")
		d := pick(rt, "delegator", w.Delegators)
		// the delegation is spread over the provider's chains in proportion to the self stakes
		amount := (below + int64(rapid.SampledFrom([]int{0, 1, 50}).Draw(rt, "spare"))) * int64(len(chains)) * int64(rapid.SampledFrom([]int{1, 2, 40}).Draw(rt, "factor"))
		dmsg := &dualstakingtypes.MsgDelegate{Creator: d.Addr.String(), Validator: valAddrOf(v).String(), Provider: p.Addr(), ChainID: "", Amount: coin(w, amount)}
		err = anteTx(w, dmsg, fmt.Sprintf("dualDelegate*(%s->%s,%d)", short(d.Addr.String()), p.Name, amount), dmsg.ValidateBasic, func() error {
			_, err := w.C.TS.Servers.DualstakingServer.Delegate(w.C.TS.GoCtx, dmsg)
			return err
		})
		step("the delegation")
		if err != nil {
			return
		}
		umsg := &pairingtypes.MsgUnfreezeProvider{Creator: p.Addr(), ChainIds: []string{ch}}
		err = w.C.Tx(fmt.Sprintf("unfreeze*(%s,%s)", p.Name, ch), umsg.ValidateBasic, func() error {
			_, err := w.C.TS.Servers.PairingServer.UnfreezeProvider(w.C.TS.GoCtx, umsg)
			return err
		})
		step("the unfreeze")
		if err != nil {
			return
		}
		a.proppedUp++
		back := drawPart(rt, amount)
		bmsg := &dualstakingtypes.MsgUnbond{Creator: d.Addr.String(), Validator: valAddrOf(v).String(), Provider: p.Addr(), Amount: coin(w, back)}
		_ = anteTx(w, bmsg, fmt.Sprintf("dualUnbond*(%s:%s,%d of %d)", short(d.Addr.String()), p.Name, back, amount), bmsg.ValidateBasic, func() error {
			_, err := w.C.TS.Servers.DualstakingServer.Unbond(w.C.TS.GoCtx, bmsg)
			return err
		})
		step("the delegator's unbond")
	}
	acts := map[string]func(*rapid.T){
		"proppedUp":      proppedUp,
		"freeze":         withAnte(w, w.ActFreeze),
		"stakeNewChain":  withAnte(w, w.ActStakeNewChain),
		"modifyStake":    withAnte(w, a.modifyStake),
		"modifyStake2":   withAnte(w, a.modifyStake),
		"moveStake":      withAnte(w, a.moveStake),
		"moveStake2":     withAnte(w, a.moveStake),
		"unstake":        withAnte(w, a.unstake),
		"unstake2":       withAnte(w, a.unstake),
		"dualDelegate":   withAnte(w, a.dualDelegate),
		"dualDelegate2":  withAnte(w, w.ActDualDelegate),
		"dualRedelegate": withAnte(w, a.dualRedelegate),
		"dualUnbond":     withAnte(w, a.dualUnbond),
		"valDelegate":    withAnte(w, a.valDelegate),
		"valUnbond":      withAnte(w, a.valUnbond),
		"valRedelegate":  withAnte(w, a.valRedelegate),
		"cancelUnbond":   withAnte(w, a.cancelUnbond),
		"advanceBlocks":  w.ActAdvanceBlocks,
		"advanceTime":    w.ActAdvanceTime,
		"": func(rt *rapid.T) {
			if w.C.Halt != "" {
				rt.Skip("chain halted (reported by C37)")
			}
			check("after the last step", true)
		},
	}
	rt.Repeat(acts)

	nt := w.C.Halt == "" && ntSteps > 0
	var classes []string
	if ntSteps > 0 {
		classes = append(classes, "changed-multichain-provider-with-delegator")
	}
	if a.unstakeByProviderOK > 0 {
		classes = append(classes, "unstake-by-provider-address-accepted")
	}
	if a.moveOK > 0 {
		classes = append(classes, "move-stake-accepted")
	}
	if a.modifyOK > 0 {
		classes = append(classes, "modify-stake-accepted")
	}
	if a.froze > 0 {
		classes = append(classes, "entry-frozen-by-a-change")
	}
	if a.proppedUp > 0 {
		classes = append(classes, "active-entry-with-self-stake-below-minimum-then-delegator-unbond")
	}
	if w.C.Halt != "" {
		classes = append(classes, "halted")
	}
	c.AddExtra("tx_ok", w.C.TxOK)
	c.AddExtra("tx_failed", w.C.TxFail)
	c.Case(nt, fingerprint(w), classes...)
	if nt {
		c.Sample(map[string]any{"history_tail": w.C.HistTail(25), "tx_ok": w.C.TxOK, "tx_failed": w.C.TxFail, "nontrivial_steps": ntSteps})
	}
}

// Witness of known finding c07-unstake-by-provider-no-redistribution: a provider with a separate
// vault is staked 1000 on SP0 and 3000 on SP1; a delegator delegates 400 (DelegateTotal 100 / 300).
// The provider address (not the vault) unstakes SP1: UnstakeEntry hands the 3000 to the SP0 entry
// (stake 4000) without AfterDelegationModified, so SP0 keeps DelegateTotal 100 instead of
// floor(400*4000/4000) = 400.
func TestC07Known_unstakeByProviderNoRedistribution(t *testing.T) {
	defer witnessGuard(t)
	w, werr := fixedWorld(t, 2, 1, []fixedProv{{ownVault: false, stakes: map[string]int64{"SP0": 1000, "SP1": 3000}, val: 0}}, 1)
	if werr != nil {
		t.Skipf("witness cannot be set up (treated as: finding does not reproduce, search runs without exclusion): %v", werr)
	}
	c := ev.For("C07-witness")
	ts := w.C.TS
	p := w.Providers[0]
	msg := &dualstakingtypes.MsgDelegate{Creator: w.Delegators[0].Addr.String(), Validator: valAddrOf(w.Validators[0]).String(), Provider: p.Addr(), Amount: coin(w, 400)}
	if err := w.C.Tx("delegate", msg.ValidateBasic, func() error {
		_, err := ts.Servers.DualstakingServer.Delegate(ts.GoCtx, msg)
		return err
	}); err != nil {
		t.Skipf("%s", fmt.Sprintf("witness cannot be set up (treated as: finding does not reproduce, search runs without exclusion): witness setup: delegate failed: %v", err))
	}
	before, err := readProviders(w)
	if err != nil {
		t.Skipf("%s", fmt.Sprintf("witness cannot be set up (treated as: finding does not reproduce, search runs without exclusion): witness: %v", err))
	}
	minStake := map[string]*big.Int{"SP0": big.NewInt(1000), "SP1": big.NewInt(1000)}
	if v := checkStatic(c, before); v != "" {
		t.Skipf("%s", fmt.Sprintf("witness cannot be set up (treated as: finding does not reproduce, search runs without exclusion): witness world inconsistent before the unstake: %s", v))
	}
	um := &pairingtypes.MsgUnstakeProvider{Creator: p.Addr(), ChainID: "SP1", Validator: valAddrOf(w.Validators[0]).String()}
	if err := w.C.Tx("unstake by provider", um.ValidateBasic, func() error {
		_, err := ts.Servers.PairingServer.UnstakeProvider(ts.GoCtx, um)
		return err
	}); err != nil {
		t.Skipf("%s", fmt.Sprintf("witness cannot be set up (treated as: finding does not reproduce, search runs without exclusion): witness: unstake by provider address failed: %v", err))
	}
	after, err := readProviders(w)
	if err != nil {
		t.Skipf("%s", fmt.Sprintf("witness cannot be set up (treated as: finding does not reproduce, search runs without exclusion): witness: %v", err))
	}
	if v := checkStatic(c, after); v != "" {
		t.Fatalf("%s", ev.Violation("C07", "after unstake of SP1 by the provider address: %s", v))
	}
	if v, _ := checkTouched(c, before, after, minStake); v != "" {
		t.Fatalf("%s", ev.Violation("C07", "after unstake of SP1 by the provider address (provider staked 1000 on SP0 and 3000 on SP1, one delegator with 400): %s", v))
	}
}

// Witness of known finding c07-auto-unfreeze-overwrites-delegate-total: a provider (own vault) is
// frozen after its stake was lowered to 999 (below the spec minimum 1000) and has one delegator
// with 1000; it then stakes 1000 on SP0 (SP1 holds 499 of the delegations) and finally raises SP1 to
// 100999. AfterDelegationModified recomputes SP1's DelegateTotal (990), but the auto-unfreeze branch
// of StakeNewEntry stores its stale copy of the entry (DelegateTotal 499) afterwards.
func TestC07Known_autoUnfreezeOverwritesDelegateTotal(t *testing.T) {
	defer witnessGuard(t)
	w, werr := fixedWorld(t, 2, 1, []fixedProv{{ownVault: true, stakes: map[string]int64{"SP1": 1000}, val: 0}}, 1)
	if werr != nil {
		t.Skipf("witness cannot be set up (treated as: finding does not reproduce, search runs without exclusion): %v", werr)
	}
	c := ev.For("C07-witness")
	ts := w.C.TS
	p := w.Providers[0]
	skip := func(what string, err error) {
		t.Skipf("witness cannot be set up (treated as: finding does not reproduce, search runs without exclusion): %s: %v", what, err)
	}
	// 1. lower the only stake below the spec minimum (no delegations yet): the entry is frozen
	if err := w.StakeProvider(p, "SP1", 999, 1, fixedEndpoints(), 50, w.Validators[0]); err != nil {
		skip("stake decrease", err)
	}
	// 2. a delegator delegates 1000
	msg := &dualstakingtypes.MsgDelegate{Creator: w.Delegators[0].Addr.String(), Validator: valAddrOf(w.Validators[0]).String(), Provider: p.Addr(), Amount: coin(w, 1000)}
	if err := w.C.Tx("delegate", msg.ValidateBasic, func() error {
		_, err := ts.Servers.DualstakingServer.Delegate(ts.GoCtx, msg)
		return err
	}); err != nil {
		skip("delegate", err)
	}
	// 3. stake 1000 on a second chain: SP1 now holds floor(1000*999/1999) = 499 of the delegations
	if err := w.StakeProvider(p, "SP0", 1000, 1, fixedEndpoints(), 50, w.Validators[0]); err != nil {
		skip("stake on SP0", err)
	}
	before, err := readProviders(w)
	if err != nil {
		skip("read", err)
	}
	if e := before[p.Addr()].entries["SP1"]; !e.IsFrozen() {
		t.Skipf("witness cannot be set up (treated as: finding does not reproduce, search runs without exclusion): SP1 entry is not frozen after the decrease below the spec minimum")
	}
	// 4. the vault raises SP1 to 100999 (>= spec minimum): auto-unfreeze
	if err := w.StakeProvider(p, "SP1", 100999, 1, fixedEndpoints(), 50, w.Validators[0]); err != nil {
		skip("stake increase", err)
	}
	after, err := readProviders(w)
	if err != nil {
		skip("read", err)
	}
	minStake := map[string]*big.Int{"SP0": big.NewInt(1000), "SP1": big.NewInt(1000)}
	if v := checkStatic(c, after); v != "" {
		t.Fatalf("%s", ev.Violation("C07", "after the stake increase: %s", v))
	}
	if v, _ := checkTouched(c, before, after, minStake); v != "" {
		t.Fatalf("%s", ev.Violation("C07", "vault raises the frozen SP1 entry from 999 to 100999 (spec minimum 1000; provider also staked 1000 on SP0, one delegator with 1000): %s", v))
	}
}
