package cstake

import (
	"fmt"
	"strings"

	sdk "github.com/cosmos/cosmos-sdk/types"
	"github.com/cosmos/cosmos-sdk/x/authz"
	stakingtypes "github.com/cosmos/cosmos-sdk/x/staking/types"
	dualstakingante "github.com/lavanet/lava/v5/x/dualstaking/ante"

	"pgregory.net/rapid"
)

// batchTxT is the minimal sdk.Tx the ante decorator reads.
type batchTxT struct{ msgs []sdk.Msg }

func (b batchTxT) GetMsgs() []sdk.Msg   { return b.msgs }
func (b batchTxT) ValidateBasic() error { return nil }

// batchTx: one transaction with 2-3 staking messages of one signer (delegate / undelegate /
// redelegate), each possibly wrapped in an authz MsgExec whose grantee is the signer itself (no
// grant needed), nested up to two levels. It goes through the real ante decorator
// (RedelegationFlager.AnteHandle: authz unwrapping, "redelegations may not be mixed with other
// messages", hooks flag) and is then executed message by message, atomically, as the message router
// and the authz keeper would (granter == grantee dispatches the inner messages directly).
func (a *stakeActs) batchTx(t *rapid.T) {
	w := a.w
	ts := w.C.TS
	d := pick(t, "delegator", actorPool(w))
	dels := ts.Keepers.StakingKeeper.GetAllDelegatorDelegations(ts.Ctx, d.Addr)
	n := rapid.IntRange(2, 3).Draw(t, "nMsgs")
	var msgs []sdk.Msg
	var descs []string
	redelegations, others := 0, 0
	for i := 0; i < n; i++ {
		var m sdk.Msg
		kind := rapid.SampledFrom([]string{"delegate", "undelegate", "redelegate", "redelegate"}).Draw(t, fmt.Sprintf("kind%d", i))
		if len(dels) == 0 || (kind == "redelegate" && len(w.Validators) < 2) {
			kind = "delegate"
		}
		desc := ""
		switch kind {
		case "delegate":
			v := pick(t, fmt.Sprintf("validator%d", i), w.Validators)
			amount := int64(rapid.SampledFrom([]int{1, 13, 1000, 1_000_000}).Draw(t, fmt.Sprintf("amount%d", i)))
			m = stakingtypes.NewMsgDelegate(d.Addr, valAddrOf(v), coin(w, amount))
			desc = fmt.Sprintf("delegate(%s,%d)", short(v.Addr.String()), amount)
			others++
		case "undelegate":
			del := pick(t, fmt.Sprintf("delegation%d", i), dels)
			val, _ := ts.Keepers.StakingKeeper.GetValidator(ts.Ctx, del.GetValidatorAddr())
			amount := drawPart(t, val.TokensFromShares(del.Shares).TruncateInt().Int64())
			m = stakingtypes.NewMsgUndelegate(d.Addr, del.GetValidatorAddr(), coin(w, amount))
			desc = fmt.Sprintf("undelegate(%s,%d)", short(sdk.AccAddress(del.GetValidatorAddr()).String()), amount)
			others++
		default:
			del := pick(t, fmt.Sprintf("delegation%d", i), dels)
			to := pick(t, fmt.Sprintf("to%d", i), w.Validators)
			val, _ := ts.Keepers.StakingKeeper.GetValidator(ts.Ctx, del.GetValidatorAddr())
			amount := drawPart(t, val.TokensFromShares(del.Shares).TruncateInt().Int64())
			m = stakingtypes.NewMsgBeginRedelegate(d.Addr, del.GetValidatorAddr(), valAddrOf(to), coin(w, amount))
			desc = fmt.Sprintf("redelegate(%s->%s,%d)", short(sdk.AccAddress(del.GetValidatorAddr()).String()), short(to.Addr.String()), amount)
			redelegations++
		}
		for wrap := rapid.IntRange(0, 2).Draw(t, fmt.Sprintf("authzLevels%d", i)); wrap > 0; wrap-- {
			x := authz.NewMsgExec(d.Addr, []sdk.Msg{m})
			m = &x
			desc = "exec[" + desc + "]"
			a.batchAuthz++
		}
		msgs = append(msgs, m)
		descs = append(descs, desc)
	}
	var exec func(m sdk.Msg) error
	exec = func(m sdk.Msg) error {
		switch x := m.(type) {
		case *stakingtypes.MsgDelegate:
			_, err := ts.Servers.StakingServer.Delegate(ts.GoCtx, x)
			return err
		case *stakingtypes.MsgUndelegate:
			_, err := ts.Servers.StakingServer.Undelegate(ts.GoCtx, x)
			return err
		case *stakingtypes.MsgBeginRedelegate:
			_, err := ts.Servers.StakingServer.BeginRedelegate(ts.GoCtx, x)
			return err
		case *authz.MsgExec:
			inner, err := x.GetMessages()
			if err != nil {
				return err
			}
			for _, im := range inner {
				if err := exec(im); err != nil {
					return err
				}
			}
			return nil
		}
		return fmt.Errorf("VERIF-HARNESS-ERROR: unexpected message %T", m)
	}
	err := w.C.Tx(fmt.Sprintf("batch(%s: %s)", short(d.Addr.String()), strings.Join(descs, ", ")), func() error {
		for _, m := range msgs {
			if err := m.ValidateBasic(); err != nil {
				return err
			}
		}
		return nil
	}, func() error {
		rf := dualstakingante.NewRedelegationFlager(ts.Keepers.Dualstaking)
		if _, err := rf.AnteHandle(ts.Ctx, batchTxT{msgs}, false, func(ctx sdk.Context, _ sdk.Tx, _ bool) (sdk.Context, error) { return ctx, nil }); err != nil {
			return err
		}
		for _, m := range msgs {
			if err := exec(m); err != nil {
				return err
			}
		}
		return nil
	})
	if redelegations > 0 && others > 0 {
		a.batchMixed++
	}
	if err == nil {
		a.batchOK++
		a.lastOps = len(msgs)
		if redelegations > 0 && others == 0 {
			a.lastKind = "redelegate"
			a.valRedelOK++
		}
	}
}
