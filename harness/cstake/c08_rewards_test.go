package cstake

import (
	"fmt"
	"math/big"
	"sort"
	"strings"
	"testing"
	"time"

	"cosmossdk.io/math"
	sdk "github.com/cosmos/cosmos-sdk/types"
	testkeeper "github.com/lavanet/lava/v5/testutil/keeper"
	"github.com/lavanet/lava/v5/utils/sigs"
	dualstakingtypes "github.com/lavanet/lava/v5/x/dualstaking/types"
	rewardstypes "github.com/lavanet/lava/v5/x/rewards/types"
	subscriptiontypes "github.com/lavanet/lava/v5/x/subscription/types"
	"pgregory.net/rapid"

	"verifharness/internal/chain"
	"verifharness/internal/ev"
)

// C08: RewardProvidersAndDelegators splits a reward between spec contributors, the provider and its
// delegators. Oracle, per denom, with big-int arithmetic written from the statement:
//
//	contributors + sum(delegator parts) + provider part == reward, none negative
//	delegator_i == floor(pool * credit_i / sum credit)
//	provider == own-credit share + commission on the delegators' raw share + rounding remainder
//	commission 100  =>  provider gets everything after the contributors
//	bank: sender -reward, dualstaking module +(provider + delegators parts), contributors +their parts;
//	DelegatorReward records grow by exactly the parts.
//
// Credits are NOT read from the keeper: every delegation in this check has had one amount since it
// was created, so by the statement of C23 (time-weighted over 30 days, hour resolution as documented
// in delegate_credit.go) its credit is floor(amount * min(whole hours held, 720) / 720).

const contributorPrecision = 100000 // spectypes.ContributorPrecision: percentage steps of 1e-5

type c08Delegation struct {
	addr   string
	amount int64
	since  int64 // block time of the delegation tx
}

func refCredit(amount, since, now int64) *big.Int {
	h := (now - since) / hour
	if h > 720 {
		h = 720
	}
	if h < 0 {
		h = 0
	}
	c := new(big.Int).Mul(big.NewInt(amount), big.NewInt(h))
	return c.Quo(c, big.NewInt(720))
}

type c08Expect struct {
	contribEach map[string]*big.Int // per denom, per contributor
	provider    map[string]*big.Int
	delegators  []map[string]*big.Int // parallel to the delegations
	remainder   bool                  // some denom left a rounding remainder in the delegators split
}

// expectSplit computes the split from the statement.
func expectSplit(reward sdk.Coins, nContrib int, pctSteps int64, commission uint64, selfCredit *big.Int, credits []*big.Int) c08Expect {
	ex := c08Expect{contribEach: map[string]*big.Int{}, provider: map[string]*big.Int{}}
	for range credits {
		ex.delegators = append(ex.delegators, map[string]*big.Int{})
	}
	sumCredit := new(big.Int)
	for _, c := range credits {
		sumCredit.Add(sumCredit, c)
	}
	all := new(big.Int).Add(sumCredit, selfCredit)
	for _, coin := range reward {
		r := coin.Amount.BigInt()
		each := new(big.Int)
		if nContrib > 0 && pctSteps > 0 {
			tot := new(big.Int).Mul(r, big.NewInt(pctSteps))
			tot.Quo(tot, big.NewInt(contributorPrecision))
			each.Quo(tot, big.NewInt(int64(nContrib)))
		}
		ex.contribEach[coin.Denom] = each
		rest := new(big.Int).Sub(r, new(big.Int).Mul(each, big.NewInt(int64(nContrib))))
		prov := new(big.Int)
		if commission == 100 || sumCredit.Sign() == 0 {
			prov.Set(rest)
		} else {
			own := new(big.Int).Mul(rest, selfCredit)
			own.Quo(own, all)
			prov.Set(own)
			if commission > 0 {
				raw := new(big.Int).Mul(rest, sumCredit)
				raw.Quo(raw, all)
				comm := raw.Mul(raw, big.NewInt(int64(commission)))
				comm.Quo(comm, big.NewInt(100))
				prov.Add(prov, comm)
			}
			pool := new(big.Int).Sub(rest, prov)
			used := new(big.Int)
			for i, c := range credits {
				part := new(big.Int).Mul(pool, c)
				part.Quo(part, sumCredit)
				ex.delegators[i][coin.Denom] = part
				used.Add(used, part)
			}
			rem := new(big.Int).Sub(pool, used)
			if rem.Sign() > 0 {
				ex.remainder = true
			}
			prov.Add(prov, rem)
		}
		ex.provider[coin.Denom] = prov
	}
	return ex
}

func coinsMap(c sdk.Coins) map[string]*big.Int {
	m := map[string]*big.Int{}
	for _, x := range c {
		m[x.Denom] = x.Amount.BigInt()
	}
	return m
}

func amt(m map[string]*big.Int, denom string) *big.Int {
	if v, ok := m[denom]; ok && v != nil {
		return v
	}
	return new(big.Int)
}

var c08Denoms = []string{"", "ibc/27394FB092D2ECCD56123C74F36E4C1F926001CEADA9CA97EA622B25F41E5EB2", "uusdc"}

var c08RewardAmounts = []int64{0, 1, 2, 97, 1009, 1_000_003, 999_999_999_989, 1_000_000_000_000_000_000}

var c08Gaps = []int64{0, 1800, hour, 5 * hour, day, 10 * day, 29*day + 23*hour, 30 * day, 31 * day, 60 * day}

func TestC08(t *testing.T) {
	c := ev.For("C08")
	c.SetRule("per case a fresh chain: one spec with 0-3 contributors (percentage 1e-5 ... 0.8 in 1e-5 steps), one provider (vault = provider or separate) with self stake 1e3..1e9 and commission 0..100, 0-8 delegators with one delegation each (1 ... 1e12) made at generated block times (gaps 0, 30 min, hours, days, 30/31/60 days), then 1-2 rewards of 1-3 denoms (amounts 0, 1, 2, primes, 1e18) paid with RewardProvidersAndDelegators from an exactly funded module inside an atomic transaction (3/4 real payout, 1/4 calc-only as the monthly-payout query does); oracle = conservation per denom, floor shares by credit, commission and remainder to the provider, bank and DelegatorReward deltas; non-trivial = >=2 delegators with distinct positive credits and a rounding remainder in the delegators' split; distinct = distinct (setup, reward)")
	c.Assume("every delegation has had a single amount since creation, so its credit is floor(amount*min(whole hours held,720)/720) computed by the check (not read from the keeper)",
		"the provider's self delegation is at least one hour old (its credit is positive); the code marks the opposite as 'should never happen'",
		"all integer divisions round down (provider base = floor own share + floor commission), remainder of the delegators' split to the provider",
		"a call that returns an error is not a split: the transaction is rolled back and only counted (e.g. contributors present but the per-contributor amount rounds to zero in every denom)")
	rapid.Check(t, func(rt *rapid.T) { propC08(rt, t, c) })
}

func propC08(rt *rapid.T, t *testing.T, c *ev.Collector) {
	fixedLight = true
	w, err := fixedWorld(t, 1, 1, nil, 0)
	fixedLight = false
	if err != nil {
		t.Fatalf("%s", ev.HarnessError("cannot build the C08 world: %v", err))
	}
	ts := w.C.TS
	denom := w.C.Denom()
	specID := w.Specs[0].Index

	// contributors
	nContrib := rapid.IntRange(0, 3).Draw(rt, "nContributors")
	pctSteps := int64(0)
	var contributors []sigs.Account
	if nContrib > 0 {
		pctSteps = int64(rapid.SampledFrom([]int{1, 10, 333, 12345, 50000, 80000}).Draw(rt, "contributorPctSteps"))
		if rapid.IntRange(0, 3).Draw(rt, "pctExact") == 0 {
			pctSteps = int64(rapid.IntRange(1, 80000).Draw(rt, "pctStepsExact"))
		}
		s := w.Specs[0]
		for i := 0; i < nContrib; i++ {
			a := w.NewAccount(0)
			contributors = append(contributors, a)
			s.Contributor = append(s.Contributor, a.Addr.String())
		}
		pct := math.LegacyNewDecWithPrec(pctSteps, 5)
		s.ContributorPercentage = &pct
		ts.AddSpec(s.Index, s)
		w.Specs[0] = s
	}

	// provider
	acc := w.NewAccount(w.Cfg.Balance)
	if rapid.Bool().Draw(rt, "ownVault") {
		self := acc
		acc.Vault = &self
	} else {
		v := w.NewAccount(w.Cfg.Balance)
		acc.Vault = &v
	}
	p := &chain.Prov{Name: "prov0", Acc: acc}
	w.Providers = append(w.Providers, p)
	commission := uint64(rapid.SampledFrom([]int{0, 1, 10, 33, 50, 99, 100}).Draw(rt, "commission"))
	if rapid.IntRange(0, 2).Draw(rt, "commissionExact") == 0 {
		commission = uint64(rapid.IntRange(0, 100).Draw(rt, "commissionAny"))
	}
	selfStake := int64(rapid.SampledFrom([]int{1000, 5000, 1_000_000, 1_000_000_000}).Draw(rt, "selfStake"))
	if err := stakeFixed(w, p, specID, selfStake, commission); err != nil {
		t.Fatalf("%s", ev.HarnessError("stake failed: %v", err))
	}
	self := c08Delegation{addr: p.Vault(), amount: selfStake, since: ts.Ctx.BlockTime().UTC().Unix()}

	advance := func(label string, min int64) {
		gap := c08Gaps[rapid.IntRange(0, len(c08Gaps)-1).Draw(rt, label)]
		if gap < min {
			gap = min
		}
		if gap > 0 && !w.C.AdvanceBlock(time.Duration(gap)*time.Second) {
			rt.Skip("chain halted (C37)")
		}
	}
	advance("providerAge", hour)

	// delegators
	nDel := rapid.IntRange(0, 8).Draw(rt, "nDelegators")
	var dels []c08Delegation
	for i := 0; i < nDel; i++ {
		amount := int64(rapid.SampledFrom([]int{1, 7, 1000, 99_991, 1_000_000, 1_000_000_000, 1_000_000_000_000}).Draw(rt, fmt.Sprintf("del%d_amount", i)))
		d := w.NewAccount(amount + 10)
		msg := &dualstakingtypes.MsgDelegate{Creator: d.Addr.String(), Validator: valAddrOf(w.Validators[0]).String(), Provider: p.Addr(), Amount: coin(w, amount)}
		if err := anteTx(w, msg, fmt.Sprintf("delegate(%d)", amount), msg.ValidateBasic, func() error {
			_, err := ts.Servers.DualstakingServer.Delegate(ts.GoCtx, msg)
			return err
		}); err != nil {
			t.Fatalf("%s", ev.HarnessError("valid delegation rejected: %v", err))
		}
		dels = append(dels, c08Delegation{addr: d.Addr.String(), amount: amount, since: ts.Ctx.BlockTime().UTC().Unix()})
		advance(fmt.Sprintf("gapAfterDel%d", i), 0)
	}

	nRewards := rapid.IntRange(1, 2).Draw(rt, "nRewards")
	nontrivial := false
	classes := map[string]bool{}
	var fp []string
	for k := 0; k < nRewards; k++ {
		now := ts.Ctx.BlockTime().UTC().Unix()
		// reward coins
		nDen := rapid.IntRange(1, 3).Draw(rt, fmt.Sprintf("r%d_nDenoms", k))
		reward := sdk.NewCoins()
		for j := 0; j < nDen; j++ {
			dn := c08Denoms[j]
			if dn == "" {
				dn = denom
			}
			a := c08RewardAmounts[rapid.IntRange(0, len(c08RewardAmounts)-1).Draw(rt, fmt.Sprintf("r%d_amount%d", k, j))]
			if a > 0 {
				reward = reward.Add(sdk.NewCoin(dn, sdk.NewInt(a)))
			}
		}
		if reward.IsZero() {
			reward = sdk.NewCoins(sdk.NewCoin(denom, sdk.NewInt(1009)))
		}
		sender := rapid.SampledFrom([]string{subscriptiontypes.ModuleName, string(rewardstypes.ProviderRewardsDistributionPool), string(rewardstypes.IprpcPoolName)}).Draw(rt, fmt.Sprintf("r%d_sender", k))
		calcOnly := rapid.IntRange(0, 3).Draw(rt, fmt.Sprintf("r%d_calcOnly", k)) == 0

		// reference credits
		selfCredit := refCredit(self.amount, self.since, now)
		if selfCredit.Sign() == 0 {
			t.Fatalf("%s", ev.HarnessError("provider self credit is zero by construction error"))
		}
		var credits []*big.Int
		var idx []int // delegations with positive credit
		distinct := map[string]bool{}
		for i, d := range dels {
			cr := refCredit(d.amount, d.since, now)
			if cr.Sign() > 0 {
				credits = append(credits, cr)
				idx = append(idx, i)
				distinct[cr.String()] = true
			}
		}
		ex := expectSplit(reward, nContrib, pctSteps, commission, selfCredit, credits)

		// fund the sender exactly (setup, outside the checked step)
		senderAddr := testkeeper.GetModuleAddress(sender)
		_ = ts.Keepers.BankKeeper.AddToBalance(senderAddr, append(sdk.Coins{}, reward...))
		dualAddr := testkeeper.GetModuleAddress(dualstakingtypes.ModuleName)
		balBefore := w.C.Balances()
		recBefore := map[string]map[string]*big.Int{}
		for _, r := range ts.Keepers.Dualstaking.GetAllDelegatorReward(ts.Ctx) {
			if r.Provider == p.Addr() {
				recBefore[r.Delegator] = coinsMap(r.Amount)
			}
		}

		var got sdk.Coins
		txErr := w.C.Tx(fmt.Sprintf("reward(%s from %s, calcOnly=%v)", reward, sender, calcOnly), nil, func() error {
			var err error
			got, err = ts.Keepers.Dualstaking.RewardProvidersAndDelegators(ts.Ctx, p.Addr(), specID, reward, sender, calcOnly, calcOnly, calcOnly)
			return err
		})
		describe := func() string {
			var ds []string
			for i, d := range dels {
				ds = append(ds, fmt.Sprintf("del%d{amount=%d age=%s credit=%s}", i, d.amount, fmtDur(now-d.since), refCredit(d.amount, d.since, now)))
			}
			return fmt.Sprintf("reward %s from %s calcOnly=%v; contributors=%d pct=%d/1e5; commission=%d; self{stake=%d age=%s credit=%s}; %s",
				reward, sender, calcOnly, nContrib, pctSteps, commission, self.amount, fmtDur(now-self.since), selfCredit, strings.Join(ds, " "))
		}
		fp = append(fp, describe())
		if txErr != nil {
			classes["rejected(no split)"] = true
			// rolled back: give the funds back so that the next reward starts clean
			_ = ts.Keepers.BankKeeper.SubFromBalance(senderAddr, reward)
			continue
		}
		balAfter := w.C.Balances()
		recAfter := map[string]map[string]*big.Int{}
		for _, r := range ts.Keepers.Dualstaking.GetAllDelegatorReward(ts.Ctx) {
			if r.Provider == p.Addr() {
				recAfter[r.Delegator] = coinsMap(r.Amount)
			}
		}
		delta := func(addr, dn string) *big.Int {
			return new(big.Int).Sub(balAfter[addr].AmountOf(dn).BigInt(), balBefore[addr].AmountOf(dn).BigInt())
		}
		recDelta := func(delegator, dn string) *big.Int {
			return new(big.Int).Sub(amt(recAfter[delegator], dn), amt(recBefore[delegator], dn))
		}
		fail := func(format string, args ...any) {
			rt.Fatalf("%s", ev.Violation("C08", "%s\n  case: %s", fmt.Sprintf(format, args...), describe()))
		}
		gotMap := coinsMap(got)
		for _, coin := range reward {
			dn := coin.Denom
			c.Clause("provider-part-as-stated")
			if amt(gotMap, dn).Cmp(ex.provider[dn]) != 0 {
				fail("%s: returned provider reward %s, expected own-credit share + commission + remainder = %s", dn, amt(gotMap, dn), ex.provider[dn])
			}
			if calcOnly {
				c.Clause("calc-only-moves-nothing")
				if delta(senderAddr.String(), dn).Sign() != 0 || delta(dualAddr.String(), dn).Sign() != 0 {
					fail("%s: calc-only call moved funds (sender %s, dualstaking %s)", dn, delta(senderAddr.String(), dn), delta(dualAddr.String(), dn))
				}
				continue
			}
			// recorded parts
			c.Clause("delegator-part-floor-by-credit")
			sumRecords := new(big.Int)
			inIdx := map[int]int{}
			for j, i := range idx {
				inIdx[i] = j
			}
			for i, d := range dels {
				if d.addr == self.addr {
					continue
				}
				want := new(big.Int)
				if j, ok := inIdx[i]; ok {
					want = amt(ex.delegators[j], dn)
				}
				gotPart := recDelta(d.addr, dn)
				if gotPart.Sign() < 0 {
					fail("%s: delegator %d part is negative: %s", dn, i, gotPart)
				}
				if gotPart.Cmp(want) != 0 {
					fail("%s: delegator %d received %s, expected floor(pool*credit/total credit) = %s", dn, i, gotPart, want)
				}
				sumRecords.Add(sumRecords, gotPart)
			}
			vaultPart := recDelta(self.addr, dn)
			if vaultPart.Sign() < 0 {
				fail("%s: provider part is negative: %s", dn, vaultPart)
			}
			if vaultPart.Cmp(ex.provider[dn]) != 0 {
				fail("%s: provider (vault) reward record grew by %s, expected %s", dn, vaultPart, ex.provider[dn])
			}
			sumRecords.Add(sumRecords, vaultPart)
			c.Clause("contributors-equal-parts")
			contribTotal := new(big.Int)
			for i, ca := range contributors {
				g := delta(ca.Addr.String(), dn)
				if g.Cmp(ex.contribEach[dn]) != 0 {
					fail("%s: contributor %d received %s, expected %s (floor(floor(reward*pct)/n))", dn, i, g, ex.contribEach[dn])
				}
				contribTotal.Add(contribTotal, g)
			}
			c.Clause("conservation")
			total := new(big.Int).Add(contribTotal, sumRecords)
			if total.Cmp(coin.Amount.BigInt()) != 0 {
				fail("%s: contributors %s + delegators and provider %s = %s != reward %s", dn, contribTotal, sumRecords, total, coin.Amount)
			}
			c.Clause("bank-moves-match")
			if d := delta(senderAddr.String(), dn); new(big.Int).Neg(d).Cmp(coin.Amount.BigInt()) != 0 {
				fail("%s: sender module balance changed by %s, expected -%s", dn, d, coin.Amount)
			}
			if d := delta(dualAddr.String(), dn); d.Cmp(sumRecords) != 0 {
				fail("%s: dualstaking module balance grew by %s but the recorded rewards grew by %s", dn, d, sumRecords)
			}
			if commission == 100 {
				c.Clause("commission-100-provider-gets-all")
				rest := new(big.Int).Sub(coin.Amount.BigInt(), contribTotal)
				if vaultPart.Cmp(rest) != 0 {
					fail("%s: commission 100 but provider got %s of %s after contributors", dn, vaultPart, rest)
				}
			}
		}
		// no other account or record may have changed
		if !calcOnly {
			c.Clause("nobody-else-paid")
			known := map[string]bool{senderAddr.String(): true, dualAddr.String(): true}
			for _, ca := range contributors {
				known[ca.Addr.String()] = true
			}
			for _, a := range sortedKeys(balAfter) {
				if !known[a] && !balAfter[a].IsEqual(balBefore[a]) {
					fail("balance of unrelated account %s changed: %s -> %s", short(a), balBefore[a], balAfter[a])
				}
			}
			isDel := map[string]bool{self.addr: true}
			for _, d := range dels {
				isDel[d.addr] = true
			}
			for _, r := range sortedKeys(recAfter) {
				if !isDel[r] {
					fail("reward record for %s who does not delegate to the provider", short(r))
				}
			}
		}
		if len(distinct) >= 2 && ex.remainder && commission != 100 {
			nontrivial = true
			classes[">=2-distinct-credits+remainder"] = true
		}
		if calcOnly {
			classes["calc-only"] = true
		} else {
			classes["payout"] = true
		}
		if commission == 100 {
			classes["commission-100"] = true
		}
		if commission == 0 {
			classes["commission-0"] = true
		}
		if nContrib > 0 {
			classes["contributors"] = true
		}
		if len(reward) > 1 {
			classes["multi-denom"] = true
		}
		if len(credits) < len(dels) {
			classes["delegator-with-zero-credit(<1h)"] = true
		}
		if len(dels) == 0 {
			classes["no-delegators"] = true
		}
	}
	var cl []string
	for k := range classes {
		cl = append(cl, k)
	}
	sort.Strings(cl)
	c.Case(nontrivial, strings.Join(fp, " || "), cl...)
	if nontrivial {
		c.Sample(map[string]any{"rewards": fp})
	}
}

func stakeFixed(w *chain.World, p *chain.Prov, chainID string, amount int64, commission uint64) error {
	return w.StakeProvider(p, chainID, amount, 1, fixedEndpoints(), commission, w.Validators[0])
}
