package cstake

import (
	"fmt"
	"math/big"
	"sort"
	"strings"
	"testing"
	"time"

	sdk "github.com/cosmos/cosmos-sdk/types"
	stakingtypes "github.com/cosmos/cosmos-sdk/x/staking/types"
	dualstakingtypes "github.com/lavanet/lava/v5/x/dualstaking/types"
	"pgregory.net/rapid"

	"verifharness/internal/chain"
	"verifharness/internal/ev"
)

// C23: the credit of a delegation (CalculateMonthlyCredit on the stored delegation - the function
// under test) is a bounded time-weighted average:
//
//	clause 1: 0 <= credit <= largest amount held in [now-30d, now]
//	clause 2: unchanged for >= 30 days  =>  credit == amount
//	clause 3: for an unchanged delegation credit(t) is non-decreasing in t. Asserted where every
//	          exact 30-day time-weighted average satisfies it: the current amount is >= every amount
//	          held since 30 days before the earlier evaluation time (otherwise larger old amounts
//	          leaving the window legitimately lower the average).
//
// The history is applied with real MsgRedelegate transactions between the empty provider and the
// provider at generated block times; the model is the plain list of (time, amount) changes.

// findingCreditWindow: the stored credit is one average over [CreditTimestamp, Timestamp]; when the
// 30-day window start moves into that period only the period's WEIGHT is cut, the averaged value
// still contains amounts held before the window.
const findingCreditWindow = "c23-credit-keeps-amounts-older-than-window"

const (
	hour     = int64(3600)
	day      = 24 * hour
	window   = 30 * day
	c23Funds = int64(4_000_000_000_000_000_000)
)

type change struct {
	at     int64 // unix seconds
	amount int64
}

// creditModel is the piecewise-constant amount history of one (delegator, provider).
type creditModel struct {
	changes []change // ascending time; amount held from changes[i].at until changes[i+1].at

	// bookkeeping for the known-finding class (see exclusion()): how many amounts the credit stored
	// with the delegation averages, since when, and whether a change already cut that period
	averaged   int
	chainStart int64
	tainted    bool
}

func (m *creditModel) current() int64 {
	if len(m.changes) == 0 {
		return 0
	}
	return m.changes[len(m.changes)-1].amount
}

func (m *creditModel) lastChange() int64 { return m.changes[len(m.changes)-1].at }

// maxHeld: the largest amount held at any moment of [from, to] (closed interval).
func (m *creditModel) maxHeld(from, to int64) int64 {
	mx := int64(0)
	for i, c := range m.changes {
		end := int64(1<<62 - 1)
		if i+1 < len(m.changes) {
			end = m.changes[i+1].at
		}
		if c.at <= to && end >= from && c.amount > mx {
			mx = c.amount
		}
	}
	return mx
}

// exactAverage: the exact time-weighted average of the amount over [now-30d, now] (floor).
func (m *creditModel) exactAverage(now int64) *big.Int {
	sum := new(big.Int)
	from := now - window
	for i, c := range m.changes {
		end := now
		if i+1 < len(m.changes) && m.changes[i+1].at < now {
			end = m.changes[i+1].at
		}
		start := c.at
		if start < from {
			start = from
		}
		if end > start {
			sum.Add(sum, new(big.Int).Mul(big.NewInt(c.amount), big.NewInt(end-start)))
		}
	}
	return sum.Quo(sum, big.NewInt(window))
}

// set records a change in the model, including the bookkeeping of the known-finding class.
func (m *creditModel) set(at, amount int64) {
	prev := m.current()
	if prev == 0 {
		// no delegation object existed: a new one is created, nothing is averaged yet
		m.averaged, m.chainStart, m.tainted = 0, at, false
	} else {
		last := m.lastChange()
		if at-last > window {
			// unchanged for more than 30 days: older history is dropped, the credit is the previous amount alone
			m.averaged, m.chainStart, m.tainted = 1, at-window, false
		} else {
			if m.averaged >= 2 && at-window > m.chainStart {
				m.tainted = true
			}
			if at-window > m.chainStart {
				m.chainStart = at - window
			}
			m.averaged++
		}
	}
	m.changes = append(m.changes, change{at, amount})
}

// inFindingClass: at evaluation time now, does the stored credit average >= 2 amounts over a period
// that starts before the window (or was it already cut by an earlier change)?
func (m *creditModel) inFindingClass(now int64) bool {
	if now-m.lastChange() > window {
		return false // reset branch: exact
	}
	return m.tainted || (m.averaged >= 2 && now-window > m.chainStart)
}

type c23World struct {
	w         *chain.World
	delegator sdk.AccAddress
	provider  string
}

func newC23World(t *testing.T) (*c23World, error) {
	fixedLight = true
	defer func() { fixedLight = false }()
	w, err := fixedWorld(t, 1, 1, []fixedProv{{ownVault: false, stakes: map[string]int64{"SP0": 5000}, val: 0}}, 0)
	if err != nil {
		return nil, err
	}
	acc := w.NewAccount(c23Funds)
	ts := w.C.TS
	msg := stakingtypes.NewMsgDelegate(acc.Addr, valAddrOf(w.Validators[0]), sdk.NewCoin(w.C.Denom(), sdk.NewInt(c23Funds/2)))
	if err := anteTx(w, msg, "fund empty provider", msg.ValidateBasic, func() error {
		_, err := ts.Servers.StakingServer.Delegate(ts.GoCtx, msg)
		return err
	}); err != nil {
		return nil, err
	}
	return &c23World{w: w, delegator: acc.Addr, provider: w.Providers[0].Addr()}, nil
}

// setAmount moves the delegation to the provider to exactly amount with one MsgRedelegate
// between the empty provider and the provider.
func (cw *c23World) setAmount(cur, amount int64) error {
	w := cw.w
	ts := w.C.TS
	if amount == cur {
		return nil
	}
	from, to, diff := emptyProvider, cw.provider, amount-cur
	if amount < cur {
		from, to, diff = cw.provider, emptyProvider, cur-amount
	}
	msg := &dualstakingtypes.MsgRedelegate{Creator: cw.delegator.String(), FromProvider: from, ToProvider: to, Amount: sdk.NewCoin(w.C.Denom(), sdk.NewInt(diff))}
	return anteTx(w, msg, fmt.Sprintf("set delegation %d -> %d", cur, amount), msg.ValidateBasic, func() error {
		_, err := ts.Servers.DualstakingServer.Redelegate(ts.GoCtx, msg)
		return err
	})
}

// creditAt reads the stored delegation and evaluates the function under test at time now.
func (cw *c23World) creditAt(now int64) (credit sdk.Int, stored dualstakingtypes.Delegation, found bool) {
	ts := cw.w.C.TS
	d, found := ts.Keepers.Dualstaking.GetDelegation(ts.Ctx, cw.provider, cw.delegator.String())
	if !found {
		return sdk.ZeroInt(), d, false
	}
	ctx := ts.Ctx.WithBlockTime(time.Unix(now, 0).UTC())
	return ts.Keepers.Dualstaking.CalculateMonthlyCredit(ctx, d).Amount, d, true
}

func (m *creditModel) String() string {
	var parts []string
	t0 := int64(0)
	if len(m.changes) > 0 {
		t0 = m.changes[0].at
	}
	for _, c := range m.changes {
		parts = append(parts, fmt.Sprintf("+%s:%d", fmtDur(c.at-t0), c.amount))
	}
	return strings.Join(parts, " ")
}

func fmtDur(sec int64) string {
	d, r := sec/day, sec%day
	return fmt.Sprintf("%dd%02dh%02dm%02ds", d, r/hour, (r%hour)/60, r%60)
}

var c23Amounts = []int64{0, 1, 2, 7, 1000, 999_983, 1_000_000, 1_000_000_007, 1_000_000_000_000_000}

// deltas between changes / evaluation offsets, in seconds
func drawDelta(t *rapid.T, label string) int64 {
	switch rapid.IntRange(0, 7).Draw(t, label+"_kind") {
	case 0:
		return int64(rapid.IntRange(0, 3599).Draw(t, label+"_sameHourSec"))
	case 1:
		return int64(rapid.IntRange(1, 48).Draw(t, label+"_hours")) * hour
	case 2:
		return int64(rapid.IntRange(1, 29).Draw(t, label+"_days")) * day
	case 3:
		return window + int64(rapid.SampledFrom([]int{-3601, -3600, -1, 0, 1, 3599, 3600, 3601}).Draw(t, label+"_around30d"))
	case 4:
		return int64(rapid.IntRange(31, 70).Draw(t, label+"_manyDays")) * day
	case 5:
		return int64(rapid.IntRange(1, 100_000).Draw(t, label+"_seconds"))
	case 6:
		return int64(rapid.IntRange(1, 720).Draw(t, label+"_h")) * hour
	default:
		return int64(rapid.IntRange(1, 60*24*40).Draw(t, label+"_minutes")) * 60
	}
}

func TestC23(t *testing.T) {
	c := ev.For("C23")
	c.SetRule("per case a fresh chain with one staked provider and one delegator; 1-7 changes of the delegation amount (0 = remove, 1 ... 1e15; gaps from seconds within one hour, hours, days, exactly around 30 days, up to 70 days) applied with real MsgRedelegate transactions at generated block times; after every change the stored delegation's CalculateMonthlyCredit is evaluated at 2-6 generated later times; oracle = the three clauses of the statement against the plain (time, amount) history; non-trivial = >=2 changes and an evaluation at which one change is older than 30 days; distinct = distinct (history, evaluation times)")
	c.Assume("credit is read with CalculateMonthlyCredit on the stored delegation at ctx.WithBlockTime(t) (it is the function under test; the oracle is the statement)",
		"clause 3 is asserted for evaluation pairs where the current amount is the largest amount held since 30 days before the earlier evaluation (for other pairs an exact windowed average may legitimately decrease)",
		"amounts up to 1e15, block times from 2024-05-01, seconds resolution")
	rapid.Check(t, func(rt *rapid.T) { propC23(rt, t, c) })
}

type evalPoint struct {
	at     int64
	credit sdk.Int
}

func propC23(rt *rapid.T, t *testing.T, c *ev.Collector) {
	cw, err := newC23World(t)
	if err != nil {
		t.Fatalf("%s", ev.HarnessError("cannot build the C23 world: %v", err))
	}
	w := cw.w
	m := &creditModel{}
	nChanges := rapid.IntRange(1, 7).Draw(rt, "nChanges")
	nontrivial := false
	excludedEvals, evals := 0, 0
	classes := map[string]bool{}
	maxAbove := new(big.Int) // diagnostic: largest credit - exactAverage seen
	var fp []string

	for i := 0; i < nChanges; i++ {
		if i > 0 || rapid.Bool().Draw(rt, "initialGap") {
			delta := drawDelta(rt, fmt.Sprintf("gap%d", i))
			if delta > 0 && !w.C.AdvanceBlock(time.Duration(delta)*time.Second) {
				rt.Skip("chain halted (C37)")
			}
		}
		now := w.C.TS.Ctx.BlockTime().UTC().Unix()
		cur := m.current()
		amount := c23Amounts[rapid.IntRange(0, len(c23Amounts)-1).Draw(rt, fmt.Sprintf("amount%d", i))]
		if amount == cur {
			if cur == 0 {
				amount = 1000
			} else {
				amount = cur + 1 // a change by one token is a change too
			}
		}
		if err := cw.setAmount(cur, amount); err != nil {
			t.Fatalf("%s", ev.HarnessError("valid redelegation rejected: %v\n  %s", err, histString(w, 10)))
		}
		m.set(now, amount)
		if i > 0 && now-m.changes[len(m.changes)-2].at < hour {
			classes["change-within-the-same-hour"] = true
		}
		if amount == 0 {
			classes["removed"] = true
		}

		// evaluation times after this change (before the next one is applied)
		nEval := rapid.IntRange(2, 6).Draw(rt, fmt.Sprintf("nEval%d", i))
		var offs []int64
		for j := 0; j < nEval; j++ {
			offs = append(offs, drawDelta(rt, fmt.Sprintf("eval%d_%d", i, j)))
		}
		sort.Slice(offs, func(a, b int) bool { return offs[a] < offs[b] })
		var points []evalPoint
		for _, off := range offs {
			at := now + off
			credit, stored, found := cw.creditAt(at)
			evals++
			fp = append(fp, fmt.Sprintf("e%d", off))
			if !found {
				if amount != 0 {
					rt.Fatalf("%s", ev.Violation("C23", "delegation of %d disappeared from the store; history %s", amount, m))
				}
				continue
			}
			describe := func() string {
				return fmt.Sprintf("history [%s], evaluated %s after the last change (stored: amount=%s credit=%s creditTimestamp=%s before evaluation, timestamp=%s before evaluation)",
					m, fmtDur(off), stored.Amount.Amount, stored.Credit.Amount, fmtDur(at-stored.CreditTimestamp), fmtDur(at-stored.Timestamp))
			}
			inClass := m.inFindingClass(at)
			if inClass {
				classes["credit-period-reaches-past-window(known-finding class)"] = true
			}
			if inClass && ev.Excluded(findingCreditWindow) {
				c.Exclude(findingCreditWindow)
				excludedEvals++
			} else {
				c.Clause("1-bounded-by-window-max")
				mx := m.maxHeld(at-window, at)
				if credit.IsNegative() || credit.GT(sdk.NewInt(mx)) {
					rt.Fatalf("%s", ev.Violation("C23", "clause 1: credit %s is outside [0, %d] (largest amount held in the last 30 days); %s", credit, mx, describe()))
				}
				points = append(points, evalPoint{at, credit})
			}
			if at-now >= window {
				c.Clause("2-unchanged-30d-equals-amount")
				classes["unchanged>=30d"] = true
				if !credit.Equal(sdk.NewInt(amount)) {
					rt.Fatalf("%s", ev.Violation("C23", "clause 2: delegation unchanged for %s but credit %s != amount %d; %s", fmtDur(off), credit, amount, describe()))
				}
			}
			if ex := m.exactAverage(at); credit.BigInt().Cmp(ex) > 0 {
				if d := new(big.Int).Sub(credit.BigInt(), ex); d.Cmp(maxAbove) > 0 {
					maxAbove = d
				}
			}
			if len(m.changes) >= 2 && at-m.changes[len(m.changes)-2].at > window && at-now <= window {
				nontrivial = true
				classes[">=2-changes,one-older-than-30d"] = true
			}
			if len(m.changes) >= 2 && at-m.changes[0].at > window {
				nontrivial = true
			}
		}
		// clause 3 over the evaluation points of this unchanged stretch
		for j := 1; j < len(points); j++ {
			a, b := points[j-1], points[j]
			if int64(amount) < m.maxHeld(a.at-window, b.at) {
				continue
			}
			c.Clause("3-non-decreasing-while-unchanged")
			if b.credit.LT(a.credit) {
				rt.Fatalf("%s", ev.Violation("C23", "clause 3: credit fell from %s (at +%s) to %s (at +%s) while the delegation of %d was unchanged and no larger amount was held since 30 days before the first evaluation; history [%s]",
					a.credit, fmtDur(a.at-now), b.credit, fmtDur(b.at-now), amount, m))
			}
		}
	}
	if len(m.changes) >= 3 {
		classes[">=3-changes"] = true
	}
	var cl []string
	for k := range classes {
		cl = append(cl, k)
	}
	sort.Strings(cl)
	c.AddExtra("evaluations_of_credit", evals)
	c.AddExtra("evaluations_in_known_finding_class", excludedEvals)
	c.Case(nontrivial, m.String()+"|"+strings.Join(fp, ","), cl...)
	if nontrivial {
		c.Sample(map[string]any{"history": m.String(), "evaluation_offsets": fp, "max_credit_above_exact_average": maxAbove.String()})
	}
}

// Witness of known finding c23-credit-keeps-amounts-older-than-window: 1000 tokens for one day,
// then 1 token for one day, then 2 tokens. 29.5 days after the last change the 30-day window
// starts half a day after the 1000 tokens were reduced, so the largest amount held in the window
// is 2 - but the stored credit (average 500 of the first two days) keeps its value and only its
// weight is cut to 12 hours: credit = (2*708h + 500*12h)/720h = 10.
func TestC23Known_creditKeepsAmountsOlderThanWindow(t *testing.T) {
	defer witnessGuard(t)
	cw, err := newC23World(t)
	if err != nil {
		t.Skipf("witness cannot be set up (treated as: finding does not reproduce, search runs without exclusion): %v", err)
	}
	w := cw.w
	m := &creditModel{}
	steps := []struct {
		gap    int64
		amount int64
	}{{0, 1000}, {day, 1}, {day, 2}}
	for _, s := range steps {
		if s.gap > 0 {
			w.C.AdvanceBlock(time.Duration(s.gap) * time.Second)
		}
		now := w.C.TS.Ctx.BlockTime().UTC().Unix()
		if err := cw.setAmount(m.current(), s.amount); err != nil {
			t.Skipf("witness cannot be set up (treated as: finding does not reproduce, search runs without exclusion): %v", err)
		}
		m.set(now, s.amount)
	}
	at := m.lastChange() + 29*day + 12*hour
	credit, _, found := cw.creditAt(at)
	if !found {
		t.Skipf("witness cannot be set up (treated as: finding does not reproduce, search runs without exclusion): delegation not found")
	}
	if !m.inFindingClass(at) {
		t.Fatalf("%s", ev.HarnessError("witness history is not in the class that the generator excludes"))
	}
	mx := m.maxHeld(at-window, at)
	if credit.IsNegative() || credit.GT(sdk.NewInt(mx)) {
		t.Fatalf("%s", ev.Violation("C23", "clause 1: history [%s], 29d12h after the last change: credit %s exceeds %d, the largest amount held in the last 30 days", m, credit, mx))
	}
}
