package cstake

import (
	"os"
	"testing"

	"github.com/rs/zerolog"

	"verifharness/internal/ev"
)

func TestMain(m *testing.M) {
	if os.Getenv("VERIF_LOGS") == "" {
		zerolog.SetGlobalLevel(zerolog.Disabled) // keepers log every rejected tx
	}
	code := m.Run()
	ev.Flush()
	os.Exit(code)
}
