package rewardsrv

import (
	"bytes"
	"context"
	"fmt"
	"strings"
	"sync"
	"testing"
	"time"

	"github.com/lavanet/lava/v5/protocol/rpcprovider/rewardserver"
	pairingtypes "github.com/lavanet/lava/v5/x/pairing/types"
	"github.com/rs/zerolog"
	zerologlog "github.com/rs/zerolog/log"

	"verifharness/internal/ev"
)

type lockedBuf struct {
	mu sync.Mutex
	b  bytes.Buffer
}

func (l *lockedBuf) Write(p []byte) (int, error) {
	l.mu.Lock()
	defer l.mu.Unlock()
	return l.b.Write(p)
}

func (l *lockedBuf) String() string {
	l.mu.Lock()
	defer l.mu.Unlock()
	return l.b.String()
}

// scriptedTx is a tx sender whose two payment calls of one round return distinct errors at
// moments chosen by the test.
type scriptedTx struct {
	txMock
	mu       sync.Mutex
	arrived  int
	both     chan struct{}
	release  [2]chan struct{}
	armed    bool
	isRetry  func([]*pairingtypes.RelaySession) bool
	firstErr error
}

func (s *scriptedTx) TxRelayPayment(ctx context.Context, relays []*pairingtypes.RelaySession, d string, lb []*pairingtypes.LatestBlockReport) error {
	if !s.armed {
		return fmt.Errorf("tx failed (setup round)")
	}
	idx := 1
	if s.isRetry(relays) {
		idx = 0
	}
	s.mu.Lock()
	s.arrived++
	if s.arrived == 2 {
		close(s.both)
	}
	s.mu.Unlock()
	<-s.release[idx]
	return fmt.Errorf("tx-error-of-call-%d", idx)
}

// TestC29Known_payment_goroutines_share_err is the deterministic witness of the known finding
// "c29-payment-goroutines-share-err-variable".
//
// In RewardServer.sendRewardsClaim (reward_server.go) the goroutine that sends the new claims and
// the goroutine that sends the retries of failed claims run concurrently and both execute
// `err = rws.rewardsTxSender.TxRelayPayment(...)` on the *same* captured variable `err` of the
// enclosing function, then read it back (`utils.LavaFormatError("failed sending rewards claim", err)`).
// Observed consequence (stress run, about 1 in 10^4 rounds with one failing and one succeeding tx):
// the failing goroutine reads a torn interface value (type of its own error, nil data written by the
// succeeding goroutine), err.Error() panics, the deferred recover books the failure a SECOND time
// (updatePaymentRequestAttempt(rewards,false) twice for one tx): proofs whose retry budget was just
// exhausted re-enter the retry table with a fresh budget and are submitted 5 times in one process
// lifetime (statement: once + 3 retries), other proofs lose a retry.
//
// The torn read itself cannot be scheduled from outside, so the witness shows the shared variable
// deterministically: it parks both goroutines behind the server lock (a snapshot whose DB write the
// test blocks holds the read lock) after their txs returned two *different* errors one after the
// other, and then looks at what each goroutine reports as the error of its own tx.
func TestC29Known_payment_goroutines_share_err(t *testing.T) {
	w := newWorld(10, 1, 12, 0)
	stx := &scriptedTx{txMock: txMock{w: w}, both: make(chan struct{}), release: [2]chan struct{}{make(chan struct{}), make(chan struct{})}}
	rdb := rewardserver.NewRewardDB()
	for _, s := range specs {
		if err := rdb.AddDB(w.dbs[s]); err != nil {
			t.Fatalf("%s", ev.HarnessError("AddDB: %v", err))
		}
	}
	srv := rewardserver.NewRewardServer(stx, nil, rdb, "", 1<<30, 1<<22, nil)
	send := func(k rkey, cu uint64) *proofInfo {
		pi, err := makeProof(k, cu, 1)
		if err != nil {
			t.Fatalf("%s", ev.HarnessError("makeProof: %v", err))
		}
		srv.SendNewProof(context.Background(), pi.proof, k.Epoch, consumers[k.Cons].addr.String(), "jsonrpc")
		return pi
	}
	// round 1: proof P is claimed and the tx fails -> P waits for a retry
	p := send(rkey{Epoch: w.cur, Cons: 0, Chain: 0, Sid: 1001}, 5)
	w.cur += w.epochSize
	srv.VerifRunEpochUpdate(w.cur)
	if tab := srv.VerifFailedRetryTable(); len(tab) != 1 {
		t.Fatalf("%s", ev.HarnessError("setup: retry table %+v", tab))
	}
	// round 2: new claim Q and the retry of P are sent by two goroutines
	send(rkey{Epoch: w.cur, Cons: 1, Chain: 1, Sid: 1002}, 7)
	w.cur += w.epochSize
	send(rkey{Epoch: w.cur, Cons: 1, Chain: 0, Sid: 1003}, 9) // stays in memory, so that a snapshot has something to save
	stx.isRetry = func(rs []*pairingtypes.RelaySession) bool {
		return len(rs) == 1 && string(rs[0].Sig) == string(p.proof.Sig)
	}
	stx.armed = true

	logs := &lockedBuf{}
	oldLogger := zerologlog.Logger
	zerologlog.Logger = zerolog.New(logs).Level(zerolog.ErrorLevel)
	defer func() { zerologlog.Logger = oldLogger }()

	done := make(chan struct{})
	go func() { srv.VerifRunEpochUpdate(w.cur); close(done) }()
	wait := func(ch chan struct{}, what string) {
		select {
		case <-ch:
		case <-time.After(20 * time.Second):
			t.Fatalf("%s", ev.HarnessError("timeout waiting for %s", what))
		}
	}
	wait(stx.both, "both payment calls")
	// hold the server's read lock: a snapshot whose DB write blocks
	blk, ent := make(chan struct{}), make(chan struct{}, 1)
	for _, s := range specs {
		w.dbs[s].blockSave, w.dbs[s].entered = blk, ent
	}
	snapDone := make(chan struct{})
	go func() { srv.VerifSnapshot(); close(snapDone) }()
	wait(ent, "snapshot to reach the DB")
	close(stx.release[0]) // retry tx returns "tx-error-of-call-0"; its goroutine stores it and parks on the server lock
	time.Sleep(100 * time.Millisecond)
	close(stx.release[1]) // new-claim tx returns "tx-error-of-call-1"; its goroutine stores it and parks too
	time.Sleep(100 * time.Millisecond)
	close(blk) // snapshot finishes, both goroutines book their failure and report "their" error
	wait(snapDone, "snapshot")
	wait(done, "claim round")
	for _, s := range specs {
		w.dbs[s].blockSave = nil
	}

	n0 := strings.Count(logs.String(), "tx-error-of-call-0")
	n1 := strings.Count(logs.String(), "tx-error-of-call-1")
	if n0+n1 != 2 {
		t.Fatalf("%s", ev.HarnessError("expected two 'failed sending rewards claim' reports, log was:\n%s", logs.String()))
	}
	if n0 != 1 || n1 != 1 {
		t.Fatalf("%s", ev.Violation("C29", "sendRewardsClaim: the goroutine of the retry tx (which failed with tx-error-of-call-0) reported the error of the concurrent new-claim tx: both goroutines share one `err` variable (reported errors: call-0 x%d, call-1 x%d). Under the race a failing tx is booked twice and proofs exceed once+%d retries (see test comment)\nlog:\n%s",
			n0, n1, rewardserver.MaxPaymentRequestsRetiresForSession, logs.String()))
	}
}
