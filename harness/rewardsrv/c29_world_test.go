package rewardsrv

import (
	"context"
	"encoding/json"
	"fmt"
	"sort"
	"strings"
	"sync"
	"sync/atomic"
	"time"

	btcSecp256k1 "github.com/btcsuite/btcd/btcec/v2"
	"github.com/cosmos/cosmos-sdk/crypto/keys/secp256k1"
	sdk "github.com/cosmos/cosmos-sdk/types"
	"github.com/lavanet/lava/v5/protocol/rpcprovider/rewardserver"
	"github.com/lavanet/lava/v5/utils/sigs"
	pairingtypes "github.com/lavanet/lava/v5/x/pairing/types"

	"verifharness/internal/ev"
)

// ---- C29 world: a real RewardServer driven synchronously, a mock tx sender, a shared DB --------

const (
	baseEpoch = 1000 // all epochs have 4 decimal digits (the DB deletes by decimal key prefix)
	// "submitted once plus at most the configured number of retries"
	maxSubmissionsPerLifetime = 1 + rewardserver.MaxPaymentRequestsRetiresForSession

	outOK    = 0
	outErr   = 1
	outPanic = 2

	orderFree       = 0
	orderNewFirst   = 1
	orderRetryFirst = 2
	orderBarrier    = 3 // both payment calls return at the same moment

	findingSharedErr = "c29-payment-goroutines-share-err-variable"
)

var specs = []string{"SPECA", "SPECB"}

var errInjected = fmt.Errorf("txmock: injected tx failure")

type consumerID struct {
	key  *btcSecp256k1.PrivateKey
	addr sdk.AccAddress
}

var consumers = func() []consumerID {
	out := []consumerID{}
	for i := 0; i < 2; i++ {
		raw := make([]byte, 32)
		for j := range raw {
			raw[j] = byte(17*i + j + 1)
		}
		sk := secp256k1.PrivKey{Key: raw}
		k, _ := btcSecp256k1.PrivKeyFromBytes(raw)
		out = append(out, consumerID{key: k, addr: sdk.AccAddress(sk.PubKey().Address())})
	}
	return out
}()

// rkey identifies one reward: epoch, consumer, chain, session.
type rkey struct {
	Epoch uint64
	Cons  int
	Chain int
	Sid   uint64
}

func (k rkey) String() string {
	return fmt.Sprintf("(e%d,c%d,%s,s%d)", k.Epoch, k.Cons, specs[k.Chain], k.Sid)
}

type proofInfo struct {
	key      rkey
	cu       uint64
	relayNum uint64
	proof    *pairingtypes.RelaySession
}

var (
	proofCache   = map[string]*proofInfo{}
	proofCacheMu sync.Mutex
)

func makeProof(k rkey, cu, relayNum uint64) (*proofInfo, error) {
	proofCacheMu.Lock()
	defer proofCacheMu.Unlock()
	ck := fmt.Sprintf("%v/%d/%d", k, cu, relayNum)
	if pi, ok := proofCache[ck]; ok {
		cp := *pi.proof
		return &proofInfo{key: k, cu: cu, relayNum: relayNum, proof: &cp}, nil
	}
	p := &pairingtypes.RelaySession{
		SpecId:      specs[k.Chain],
		ContentHash: []byte{0xC2, 0x9C, 0x29},
		SessionId:   k.Sid,
		CuSum:       cu,
		Provider:    "lava@verifprovider",
		RelayNum:    relayNum,
		Epoch:       int64(k.Epoch),
		LavaChainId: "lava",
	}
	sig, err := sigs.Sign(consumers[k.Cons].key, *p)
	if err != nil {
		return nil, err
	}
	p.Sig = sig
	proofCache[ck] = &proofInfo{key: k, cu: cu, relayNum: relayNum, proof: p}
	cp := *p
	return &proofInfo{key: k, cu: cu, relayNum: relayNum, proof: &cp}, nil
}

// ---- shared DB (the harness's own implementation of rewardserver.DB) -------------------------

type memDB struct {
	spec     string
	mu       sync.Mutex
	data     map[string][]byte
	failNext int
	saveErrs int
	// witness support: when blockSave is set, BatchSave signals entered and waits for release
	blockSave chan struct{}
	entered   chan struct{}
}

var _ rewardserver.DB = (*memDB)(nil)

func (d *memDB) Key() string { return d.spec }
func (d *memDB) Save(e *rewardserver.DBEntry) error {
	return d.BatchSave([]*rewardserver.DBEntry{e})
}

func (d *memDB) BatchSave(es []*rewardserver.DBEntry) error {
	if d.blockSave != nil {
		select {
		case d.entered <- struct{}{}:
		default:
		}
		<-d.blockSave
	}
	d.mu.Lock()
	defer d.mu.Unlock()
	if d.failNext > 0 {
		d.failNext--
		d.saveErrs++
		return fmt.Errorf("memDB: injected save error")
	}
	for _, e := range es {
		d.data[e.Key] = append([]byte(nil), e.Data...)
	}
	return nil
}

func (d *memDB) FindOne(key string) ([]byte, error) {
	d.mu.Lock()
	defer d.mu.Unlock()
	v, ok := d.data[key]
	if !ok {
		return nil, fmt.Errorf("memDB: key not found")
	}
	return append([]byte(nil), v...), nil
}

func (d *memDB) FindAll() (map[string][]byte, error) {
	d.mu.Lock()
	defer d.mu.Unlock()
	out := map[string][]byte{}
	for k, v := range d.data {
		out[k] = append([]byte(nil), v...)
	}
	return out, nil
}

func (d *memDB) Delete(key string) error {
	d.mu.Lock()
	defer d.mu.Unlock()
	delete(d.data, key)
	return nil
}

func (d *memDB) DeletePrefix(prefix string) error {
	d.mu.Lock()
	defer d.mu.Unlock()
	for k := range d.data {
		if strings.HasPrefix(k, prefix) {
			delete(d.data, k)
		}
	}
	return nil
}

func (d *memDB) Close() error { return nil }

// ---- model ----------------------------------------------------------------------------------

type lifeState struct {
	count      int  // submissions in this process lifetime
	succeeded  bool // a submission of this lifetime succeeded
	lastFailed bool
	lastRound  int
	cu         uint64 // CU of the first submission in this lifetime
}

type roundCtx struct {
	no          int
	cur, m, thr uint64
	expectedNew map[rkey]bool
	outNew      int
	outRetry    int
	order       int
	submitted   map[rkey]string // key -> "new" | "retry"
	newCalls    int
	retryCalls  int
	sharedCall  bool // one call carried two keys with the same session id

	firstDone          chan struct{}
	firstDoneOnce      sync.Once
	firstEffectCertain bool
	firstSnapshot      string
	orderTimeout       bool
	arrived            int
	releaseAt          atomic.Int64
	barrier            chan struct{}
}

type world struct {
	// parameters
	epochSize uint64
	collect   uint64 // recommended epochs to collect payment
	memEpochs uint64 // epochs kept in chain memory
	cur       uint64 // current epoch (block of its start)

	dbs      map[string]*memDB
	srv      *rewardserver.RewardServer
	lifetime int
	roundNo  int

	firstRoundOfLife bool
	barrierSkewNanos int64
	freeRun          bool // never impose a completion order (diagnostics only)

	mu         sync.Mutex // guards everything the mock touches from the payment goroutines
	mem        map[rkey]*proofInfo
	dbModel    map[rkey]*proofInfo
	everSubmit map[rkey]bool
	paid       map[rkey]bool
	life       map[rkey]*lifeState
	received   map[string]*proofInfo // by signature: every proof ever handed to the server
	rc         *roundCtx
	violations []string

	log   []string
	stats map[string]int
}

func newWorld(epochSize, collect, memEpochs, startEpochs uint64) *world {
	w := &world{
		epochSize: epochSize, collect: collect, memEpochs: memEpochs,
		cur: baseEpoch + startEpochs*epochSize,
		dbs: map[string]*memDB{}, mem: map[rkey]*proofInfo{}, dbModel: map[rkey]*proofInfo{}, everSubmit: map[rkey]bool{},
		paid: map[rkey]bool{}, life: map[rkey]*lifeState{}, received: map[string]*proofInfo{}, stats: map[string]int{},
	}
	for _, s := range specs {
		w.dbs[s] = &memDB{spec: s, data: map[string][]byte{}}
	}
	w.logf("params epochSize=%d collectEpochs=%d memoryEpochs=%d startEpoch=%d", epochSize, collect, memEpochs, w.cur)
	return w
}

func (w *world) logf(f string, a ...any) { w.log = append(w.log, fmt.Sprintf(f, a...)) }
func (w *world) history() string         { return strings.Join(w.log, " ; ") }
func (w *world) dist() uint64            { return w.epochSize * w.collect }
func (w *world) earliest() uint64 {
	if w.cur > w.memEpochs*w.epochSize {
		return w.cur - w.memEpochs*w.epochSize
	}
	return 0
}

// activeEpochs are the epochs for which a provider still serves relays: epoch > current - distance.
func (w *world) activeEpochs() []uint64 {
	out := []uint64{}
	for j := uint64(0); j < w.collect; j++ {
		out = append(out, w.cur-j*w.epochSize)
	}
	return out
}

func (w *world) violate(f string, a ...any) {
	w.violations = append(w.violations, fmt.Sprintf(f, a...))
}

// firstViolation returns the first recorded violation (with history), or "".
func (w *world) firstViolation() string {
	w.mu.Lock()
	defer w.mu.Unlock()
	if len(w.violations) == 0 {
		return ""
	}
	return ev.Violation("C29", "%s\nhistory: %s", w.violations[0], w.history())
}

// ---- mock tx sender ---------------------------------------------------------------------------

type txMock struct{ w *world }

var _ rewardserver.RewardsTxSender = (*txMock)(nil)

func (m *txMock) GetEpochSizeMultipliedByRecommendedEpochNumToCollectPayment(ctx context.Context) (uint64, error) {
	return m.w.dist(), nil
}
func (m *txMock) EarliestBlockInMemory(ctx context.Context) (uint64, error) {
	return m.w.earliest(), nil
}
func (m *txMock) GetEpochSize(ctx context.Context) (uint64, error) { return m.w.epochSize, nil }
func (m *txMock) LatestBlock() int64                               { return int64(m.w.cur + m.w.epochSize) } // reward delay is always over
func (m *txMock) GetAverageBlockTime() time.Duration               { return time.Millisecond }

func tableString(tab []rewardserver.VerifFailed) string { return fmt.Sprintf("%+v", tab) }

func (m *txMock) TxRelayPayment(ctx context.Context, relays []*pairingtypes.RelaySession, description string, latestBlocks []*pairingtypes.LatestBlockReport) error {
	w := m.w
	w.mu.Lock()
	rc := w.rc
	if rc == nil {
		w.violate("TxRelayPayment called outside of a claim round with %d relays", len(relays))
		w.mu.Unlock()
		return nil
	}
	class := w.judgeCall(rc, relays)
	out := rc.outNew
	if class == "retry" {
		out = rc.outRetry
	}
	srv := w.srv
	order := rc.order
	w.mu.Unlock()

	if order == orderBarrier {
		w.mu.Lock()
		rc.arrived++
		n := rc.arrived
		w.mu.Unlock()
		if n == 2 {
			rc.releaseAt.Store(time.Now().Add(200 * time.Microsecond).UnixNano())
			close(rc.barrier)
		} else {
			select {
			case <-rc.barrier:
			case <-time.After(3 * time.Second):
				rc.orderTimeout = true
			}
		}
		// both goroutines spin to a common instant (plus a configurable skew for the retry tx) so that
		// they return within nanoseconds of each other
		at := rc.releaseAt.Load()
		if class == "retry" {
			at += w.barrierSkewNanos
		}
		var res error
		if out == outErr {
			res = errInjected
		}
		for at != 0 && time.Now().UnixNano() < at {
		}
		if out == outPanic {
			panic("txmock: injected panic in tx sender")
		}
		return res
	} else if order != orderFree {
		first := "new"
		if order == orderRetryFirst {
			first = "retry"
		}
		if class == first {
			// the table cannot change while this call is in flight: the other call is held back below
			rc.firstSnapshot = tableString(srv.VerifFailedRetryTable())
			// a failed tx always changes the retry table, a successful retry always removes its entry;
			// a successful new claim changes it only if the table is (wrongly) shared between proofs
			rc.firstEffectCertain = out != outOK || class == "retry"
			defer rc.firstDoneOnce.Do(func() { close(rc.firstDone) })
		} else {
			// hold this call until the first one has returned and its bookkeeping is visible
			select {
			case <-rc.firstDone:
				maxWait := 3 * time.Millisecond
				if rc.firstEffectCertain {
					maxWait = 3 * time.Second
				}
				deadline := time.Now().Add(maxWait)
				for tableString(srv.VerifFailedRetryTable()) == rc.firstSnapshot {
					if time.Now().After(deadline) {
						if rc.firstEffectCertain {
							rc.orderTimeout = true
						}
						break
					}
					time.Sleep(20 * time.Microsecond)
				}
			case <-time.After(3 * time.Second):
				rc.orderTimeout = true
			}
		}
	}
	switch out {
	case outErr:
		return fmt.Errorf("txmock: injected tx failure")
	case outPanic:
		panic("txmock: injected panic in tx sender")
	}
	return nil
}

// judgeCall checks every relay of one TxRelayPayment call against the model (w.mu held) and
// returns the class of the call ("new" or "retry").
func (w *world) judgeCall(rc *roundCtx, relays []*pairingtypes.RelaySession) string {
	c := ev.For("C29")
	class := ""
	sids := map[uint64]bool{}
	for _, r := range relays {
		pi, ok := w.received[string(r.Sig)]
		if !ok {
			w.violate("round %d: TxRelayPayment carries a proof the provider never received: %+v", rc.no, r)
			continue
		}
		k := pi.key
		c.Clause("submitted-proof-is-a-received-proof")
		if r.SpecId != pi.proof.SpecId || r.SessionId != pi.proof.SessionId || r.CuSum != pi.proof.CuSum || r.RelayNum != pi.proof.RelayNum ||
			r.Epoch != pi.proof.Epoch || r.Provider != pi.proof.Provider || r.LavaChainId != pi.proof.LavaChainId || string(r.ContentHash) != string(pi.proof.ContentHash) {
			w.violate("round %d: submitted proof for %v was altered: got %+v, received %+v", rc.no, k, r, pi.proof)
		}
		if w.lifetime > 0 { // restored proofs went through the DB encoding: the consumer signature must still verify
			addr, err := sigs.ExtractSignerAddress(r)
			if err != nil || !addr.Equals(consumers[k.Cons].addr) {
				w.violate("round %d: submitted proof for %v no longer carries the consumer's valid signature (signer %v err %v)", rc.no, k, addr, err)
			}
		}
		if sids[k.Sid] {
			rc.sharedCall = true
		}
		sids[k.Sid] = true

		ls := w.life[k]
		if ls == nil {
			ls = &lifeState{}
			w.life[k] = ls
		}
		isRetry := ls.count > 0 && ls.lastFailed
		kc := "new"
		if isRetry {
			kc = "retry"
		}
		if class == "" {
			class = kc
		}

		// window: only after the epoch left the active window, and while still in chain memory
		c.Clause("submitted-only-inside-claim-window")
		if k.Epoch > rc.thr {
			w.violate("round %d (current epoch %d, distance %d): %v submitted while its epoch is still active (epoch > %d)", rc.no, rc.cur, w.dist(), k, rc.thr)
		}
		if k.Epoch < rc.m {
			w.violate("round %d (current epoch %d): %v submitted after its epoch left chain memory (earliest block in memory %d)", rc.no, rc.cur, k, rc.m)
		}
		if prev, dup := rc.submitted[k]; dup {
			w.violate("round %d: %v submitted twice in one claim round (%s and %s)", rc.no, k, prev, kc)
		}
		rc.submitted[k] = kc

		if isRetry {
			c.Clause("retry-carries-the-claimed-proof")
			if r.CuSum != ls.cu {
				w.violate("round %d: retry for %v carries CuSum %d, the claim carried %d", rc.no, k, r.CuSum, ls.cu)
			}
		} else {
			c.Clause("claim-carries-best-proof")
			if ls.count > 0 {
				w.violate("round %d: %v submitted again (CuSum %d) although an earlier submission of this process lifetime succeeded", rc.no, k, r.CuSum)
			} else if best, inMem := w.mem[k]; inMem {
				if r.CuSum != best.cu {
					w.violate("round %d: claim for %v carries CuSum %d but the highest CuSum received is %d", rc.no, k, r.CuSum, best.cu)
				}
			} else if snap, inDB := w.dbModel[k]; inDB && w.everSubmit[k] && w.lifetime > 0 {
				// restored from the DB after a restart, was already submitted by an earlier process: allowed, not required
				c.Class("resubmitted-after-restart")
				if r.CuSum != snap.cu {
					w.violate("round %d: restored claim for %v carries CuSum %d but the snapshot held %d", rc.no, k, r.CuSum, snap.cu)
				}
			} else {
				w.violate("round %d: claim for %v (CuSum %d) but the provider should not hold a proof for it (not in memory model, not restorable)", rc.no, k, r.CuSum)
			}
			ls.cu = r.CuSum
		}
		c.Clause("submissions-per-lifetime-bounded")
		ls.count++
		if ls.count > maxSubmissionsPerLifetime {
			w.violate("round %d: %v submitted %d times in one process lifetime (limit: once + %d retries)", rc.no, k, ls.count, rewardserver.MaxPaymentRequestsRetiresForSession)
		}
		out := rc.outNew
		if class == "retry" {
			out = rc.outRetry
		}
		ls.lastRound = rc.no
		ls.lastFailed = out != outOK
		if out == outOK {
			ls.succeeded = true
		}
		w.everSubmit[k] = true
	}
	if class == "retry" {
		rc.retryCalls++
	} else {
		rc.newCalls++
	}
	return class
}

// ---- steps -------------------------------------------------------------------------------------

func (w *world) start() {
	rdb := rewardserver.NewRewardDB()
	for _, s := range specs {
		if err := rdb.AddDB(w.dbs[s]); err != nil {
			panic(err)
		}
	}
	// snapshot threshold and timer are set so that neither ever triggers: snapshots are explicit steps
	w.srv = rewardserver.NewRewardServer(&txMock{w: w}, nil, rdb, "", 1<<30, 1<<22, nil)
}

// sendProof hands one proof to the server and checks the returned (existingCU, updated).
func (w *world) sendProof(k rkey, cu, relayNum uint64) error {
	pi, err := makeProof(k, cu, relayNum)
	if err != nil {
		return err
	}
	w.received[string(pi.proof.Sig)] = pi
	existing, updated := w.srv.SendNewProof(context.Background(), pi.proof, k.Epoch, consumers[k.Cons].addr.String(), "jsonrpc")
	c := ev.For("C29")
	c.Clause("send-new-proof-result")
	best, have := w.mem[k]
	wantUpdated := !have || cu > best.cu
	w.logf("proof %v cu=%d rn=%d", k, cu, relayNum)
	if updated != wantUpdated || (!updated && existing != best.cu) {
		bestCu := uint64(0)
		if have {
			bestCu = best.cu
		}
		w.violate("SendNewProof(%v, CuSum %d) returned (existingCU=%d, updated=%v); best CuSum received before was %d (have=%v)", k, cu, existing, updated, bestCu, have)
	}
	if have && cu < best.cu {
		w.stats["out-of-order-proof"]++
	}
	if have && cu == best.cu {
		w.stats["equal-cu-proof"]++
	}
	if wantUpdated {
		w.mem[k] = pi
	}
	return nil
}

// burst sends several proofs of one key concurrently.
func (w *world) burst(k rkey, cus []uint64, relayNum uint64) error {
	var wg sync.WaitGroup
	pis := []*proofInfo{}
	for i, cu := range cus {
		pi, err := makeProof(k, cu, relayNum+uint64(i))
		if err != nil {
			return err
		}
		w.received[string(pi.proof.Sig)] = pi
		pis = append(pis, pi)
	}
	for _, pi := range pis {
		wg.Add(1)
		go func(pi *proofInfo) {
			defer wg.Done()
			w.srv.SendNewProof(context.Background(), pi.proof, k.Epoch, consumers[k.Cons].addr.String(), "jsonrpc")
		}(pi)
	}
	wg.Wait()
	w.logf("burst %v cus=%v", k, cus)
	for _, pi := range pis {
		if best, have := w.mem[k]; !have || pi.cu > best.cu {
			w.mem[k] = pi
		}
	}
	w.stats["burst"]++
	return nil
}

type dbRow struct {
	cu uint64
}

// dbContents decodes the shared DB.
func (w *world) dbContents() (map[rkey]dbRow, error) {
	out := map[rkey]dbRow{}
	for ci, s := range specs {
		all, _ := w.dbs[s].FindAll()
		for key, raw := range all {
			re := rewardserver.RewardEntity{}
			if err := json.Unmarshal(raw, &re); err != nil || re.Proof == nil {
				return nil, fmt.Errorf("undecodable DB entry %q: %v", key, err)
			}
			cons := -1
			for i, c := range consumers {
				if c.addr.String() == re.ConsumerAddr {
					cons = i
				}
			}
			chain := -1
			for i, sp := range specs {
				if sp == re.Proof.SpecId {
					chain = i
				}
			}
			if cons < 0 || chain != ci {
				return nil, fmt.Errorf("DB entry %q in db %s has consumer %q spec %q", key, s, re.ConsumerAddr, re.Proof.SpecId)
			}
			out[rkey{Epoch: re.Epoch, Cons: cons, Chain: chain, Sid: re.SessionId}] = dbRow{cu: re.Proof.CuSum}
		}
	}
	return out, nil
}

// snapshot forces a snapshot (optionally with injected save errors that the server's retry absorbs).
func (w *world) snapshot(failSaves [2]int) {
	for i, s := range specs {
		w.dbs[s].failNext = failSaves[i]
	}
	w.srv.VerifSnapshot()
	for _, s := range specs {
		w.dbs[s].failNext = 0
	}
	w.logf("snapshot failSaves=%v", failSaves)
	for k, pi := range w.mem {
		w.dbModel[k] = pi
	}
	w.stats["snapshot"]++
	if failSaves[0]+failSaves[1] > 0 {
		w.stats["snapshot-with-save-errors"]++
	}
	// RewardDB contents: every proof in memory is now persisted with its best CuSum
	c := ev.For("C29")
	c.Clause("snapshot-persists-best-proofs")
	rows, err := w.dbContents()
	if err != nil {
		w.violate("after snapshot: %v", err)
		return
	}
	for _, k := range sortedKeys(w.mem) {
		row, ok := rows[k]
		if !ok {
			w.violate("after snapshot: proof for %v (CuSum %d) is in memory but not in the reward DB", k, w.mem[k].cu)
		} else if row.cu != w.mem[k].cu {
			w.violate("after snapshot: reward DB holds CuSum %d for %v, the best proof received has %d", row.cu, k, w.mem[k].cu)
		}
	}
}

func sortedKeys[V any](m map[rkey]V) []rkey {
	ks := make([]rkey, 0, len(m))
	for k := range m {
		ks = append(ks, k)
	}
	sort.Slice(ks, func(i, j int) bool {
		a, b := ks[i], ks[j]
		if a.Epoch != b.Epoch {
			return a.Epoch < b.Epoch
		}
		if a.Cons != b.Cons {
			return a.Cons < b.Cons
		}
		if a.Chain != b.Chain {
			return a.Chain < b.Chain
		}
		return a.Sid < b.Sid
	})
	return ks
}

// restart simulates a process restart: a new RewardServer on the same shared DB, after the process
// was down for `downEpochs` epochs (the chain moves on while the provider is down).
func (w *world) restart(downEpochs uint64) {
	w.lifetime++
	w.cur += downEpochs * w.epochSize
	unsnapshotted := 0
	for k, pi := range w.mem {
		if s, ok := w.dbModel[k]; !ok || s.cu != pi.cu {
			unsnapshotted++
		}
	}
	w.life = map[rkey]*lifeState{}
	w.firstRoundOfLife = true
	w.start()
	for _, s := range specs {
		if err := w.srv.VerifRestoreFromDB(s); err != nil {
			w.violate("restart: restoring spec %s from the reward DB failed: %v", s, err)
		}
	}
	m := w.earliest()
	newMem := map[rkey]*proofInfo{}
	for k, pi := range w.dbModel {
		if k.Epoch < m {
			delete(w.dbModel, k)
			continue
		}
		if !w.everSubmit[k] {
			newMem[k] = pi
		}
	}
	w.mem = newMem
	w.logf("RESTART after %d epochs down, epoch now %d (lifetime %d, %d unclaimed snapshotted proofs to restore, %d proofs lost unsnapshotted)", downEpochs, w.cur, w.lifetime, len(newMem), unsnapshotted)
	w.stats["restart"]++
	if len(newMem) > 0 {
		w.stats["restart-with-unclaimed-snapshotted"]++
	}
	if unsnapshotted > 0 {
		w.stats["restart-loses-unsnapshotted"]++
	}
	if downEpochs > 0 {
		w.stats["restart-after-downtime"]++
	}
	for k := range newMem {
		if k.Epoch == m {
			w.stats["restart-restores-proof-of-earliest-epoch-in-memory"]++
			break
		}
	}
	// restored memory: every unclaimed snapshotted proof is back with its snapshotted CuSum; nothing else appears
	c := ev.For("C29")
	c.Clause("restart-restores-unclaimed-snapshotted-proofs")
	got := map[rkey]uint64{}
	for _, p := range w.srv.VerifDumpProofs() {
		cons, chain := -1, -1
		for i, cc := range consumers {
			if cc.addr.String() == p.Consumer {
				cons = i
			}
		}
		for i, sp := range specs {
			if sp == p.SpecId {
				chain = i
			}
		}
		got[rkey{Epoch: p.Epoch, Cons: cons, Chain: chain, Sid: p.SessionId}] = p.CuSum
	}
	for _, k := range sortedKeys(newMem) {
		cu, ok := got[k]
		if !ok {
			w.violate("after restart: %v was snapshotted (CuSum %d) and never claimed, but it was not restored", k, newMem[k].cu)
		} else if cu != newMem[k].cu {
			w.violate("after restart: %v restored with CuSum %d, the snapshot held %d", k, cu, newMem[k].cu)
		}
	}
	for k, cu := range got {
		snap, ok := w.dbModel[k]
		if !ok || snap.cu != cu {
			w.violate("after restart: memory holds %v with CuSum %d which is not what was snapshotted (%v)", k, cu, snap)
		}
	}
}

// pay reports an on-chain payment of a successfully submitted reward the way the payment updater does.
func (w *world) pay(k rkey) {
	ls := w.life[k]
	w.srv.PaymentHandler(&rewardserver.PaymentRequest{
		CU:                  ls.cu,
		BlockHeightDeadline: int64(w.cur),
		PaymentEpoch:        k.Epoch,
		Client:              consumers[k.Cons].addr,
		UniqueIdentifier:    k.Sid,
		Description:         w.srv.Description(),
		ChainID:             specs[k.Chain],
	})
	w.paid[k] = true
	w.logf("pay %v", k)
	w.stats["payment"]++
}

// round advances the chain by `jump` epochs and runs one claim round (what UpdateEpoch starts).
func (w *world) round(jump uint64, outNew, outRetry, order int, restrictOrder, excludeRace bool) {
	c := ev.For("C29")
	w.cur += jump * w.epochSize
	w.roundNo++
	rc := &roundCtx{no: w.roundNo, cur: w.cur, m: w.earliest(), thr: w.cur - w.dist(), expectedNew: map[rkey]bool{},
		outNew: outNew, outRetry: outRetry, submitted: map[rkey]string{}, firstDone: make(chan struct{}), barrier: make(chan struct{})}
	newSids := map[uint64]bool{}
	for k := range w.mem {
		if k.Epoch < rc.m {
			continue
		}
		if k.Epoch <= rc.thr {
			rc.expectedNew[k] = true
			newSids[k.Sid] = true
		}
	}
	if w.lifetime > 0 && w.firstRoundOfLife { // restored, already submitted proofs may be claimed again (right after the restart)
		for k := range w.dbModel {
			if w.everSubmit[k] && k.Epoch >= rc.m && k.Epoch <= rc.thr && (w.life[k] == nil || w.life[k].count == 0) {
				newSids[k.Sid] = true
			}
		}
	}
	// do a pending failed claim and a new claim share a session id? then the order in which the two
	// concurrent payment goroutines finish matters and the mock imposes the generated order
	share := false
	pendingRetry := false
	for _, e := range w.srv.VerifFailedRetryTable() {
		if uint64(e.Epoch) >= rc.m {
			pendingRetry = true
			if newSids[e.SessionId] {
				share = true
			}
		}
	}
	// the new-claim tx and the retry tx of one round are sent by two concurrent goroutines: the mock
	// imposes the generated completion order (new first / retry first / both at the same moment)
	if pendingRetry && len(rc.expectedNew) > 0 && !w.freeRun {
		if order == orderFree {
			order = orderNewFirst
		}
		w.stats["round-with-two-concurrent-txs"]++
		if share {
			// a pending failed claim and a new claim share a session id: the bookkeeping does not commute
			if order == orderBarrier {
				order = orderRetryFirst
			}
			if restrictOrder && outRetry != outOK && order == orderNewFirst {
				// domain restriction (see TestC29 assumptions): with colliding session ids the interleaving
				// "new claim's bookkeeping before a failing retry's" is not explored
				order = orderRetryFirst
				w.stats["colliding-ids-order-restricted-to-retry-first"]++
			}
			w.stats["shared-sid-between-retry-and-new-claim"]++
		}
		if !share && excludeRace && ((outNew == outOK && outRetry == outErr) || (outNew == outErr && outRetry == outOK)) {
			// known finding: the two goroutines share one err variable. While it is listed, a round with one
			// succeeding and one failing tx is only explored with the succeeding tx completing first (its
			// write of the shared variable is then over before the failing goroutine reads it back)
			want := orderNewFirst
			if outRetry == outOK {
				want = orderRetryFirst
			}
			if order != want {
				order = want
				c.Exclude(findingSharedErr)
			}
		}
		rc.order = order
		w.stats[[]string{"", "order-new-claim-first", "order-retry-first", "order-simultaneous"}[order]]++
	}
	w.logf("ROUND %d epoch=%d earliest=%d threshold=%d new=%s retry=%s order=%d expect=%v", rc.no, rc.cur, rc.m, rc.thr,
		[]string{"ok", "err", "panic"}[outNew], []string{"ok", "err", "panic"}[outRetry], rc.order, sortedKeys(rc.expectedNew))

	w.firstRoundOfLife = false
	w.mu.Lock()
	w.rc = rc
	w.mu.Unlock()
	w.srv.VerifRunEpochUpdate(w.cur)
	w.mu.Lock()
	w.rc = nil
	defer w.mu.Unlock()

	if rc.orderTimeout {
		w.stats["order-timeout"]++
	}
	// liveness: every proof whose epoch left the active window and is still in memory is submitted now
	c.Clause("eligible-proofs-are-submitted")
	for _, k := range sortedKeys(rc.expectedNew) {
		if rc.submitted[k] != "new" {
			w.violate("round %d (current epoch %d, threshold %d, earliest %d): %v (best CuSum %d) left the active window and is in chain memory but was not submitted", rc.no, rc.cur, rc.thr, rc.m, k, w.mem[k].cu)
		}
	}
	// per code: a failed claim whose session id is not shared with any other submitted proof is retried in the next round
	c.Clause("failed-claim-is-retried")
	for _, k := range sortedKeys(w.life) {
		ls := w.life[k]
		if !(ls.lastFailed && ls.lastRound == rc.no-1 && ls.count < rewardserver.MaxPaymentRequestsRetiresForSession && k.Epoch >= rc.m) {
			continue
		}
		clean := true
		for k2, ls2 := range w.life {
			if k2 != k && k2.Sid == k.Sid && ls2.count > 0 {
				clean = false
			}
		}
		if clean && rc.submitted[k] != "retry" {
			w.violate("round %d: the claim for %v failed in round %d (submission #%d) and is still in chain memory, but it was not retried", rc.no, k, rc.no-1, ls.count)
		}
	}
	dropped := 0
	for k := range w.mem {
		if k.Epoch < rc.m {
			delete(w.mem, k)
			dropped++
		} else if rc.expectedNew[k] {
			delete(w.mem, k)
		}
	}
	for k := range w.dbModel {
		if k.Epoch < rc.m && !w.everSubmit[k] {
			delete(w.dbModel, k)
		}
	}
	if dropped > 0 {
		w.stats["epoch-left-memory-unclaimed"]++
	}
	if len(rc.expectedNew) > 0 {
		w.stats["round-with-new-claims"]++
	}
	if rc.retryCalls > 0 {
		w.stats["round-with-retries"]++
	}
	if rc.sharedCall {
		w.stats["equal-session-ids-in-one-tx"]++
	}
	if len(rc.submitted) > 0 && outNew != outOK || rc.retryCalls > 0 && outRetry != outOK {
		w.stats["tx-failure"]++
	}
	if (len(rc.expectedNew) > 0 && outNew == outPanic) || (rc.retryCalls > 0 && outRetry == outPanic) {
		w.stats["tx-panic"]++
	}
	for _, ls := range w.life {
		if ls.count >= 3 && ls.lastRound == rc.no {
			w.stats["third-submission"]++
		}
	}
	_ = pendingRetry
}
