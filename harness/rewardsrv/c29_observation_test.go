package rewardsrv

import (
	"os"
	"testing"

	"verifharness/internal/ev"
)

// TestC29Observation_retry_budget_shared_by_session_id documents an observation that is NOT listed
// as a finding: RewardServer.failedRewardsPaymentRequests is keyed by the session id alone. With
// session ids that collide across epochs/consumers (the reference consumer draws 63-bit random ids,
// so only a non-standard consumer sends such ids) and one particular interleaving of the two
// concurrent payment goroutines of a claim round, a failing proof is re-inserted into the retry
// table with a fresh budget in every round and is submitted 5 times in one process lifetime
// (statement: once + MaxPaymentRequestsRetiresForSession = 4 at most). The main check does not
// explore that interleaving (see the assumptions of TestC29). Run with VERIF_C29_OBSERVE=1 to see
// the sequence fail.
func TestC29Observation_retry_budget_shared_by_session_id(t *testing.T) {
	if os.Getenv("VERIF_C29_OBSERVE") == "" {
		t.Skip("documentation of an out-of-domain observation; set VERIF_C29_OBSERVE=1 to run")
	}
	w := newWorld(10, 2, 12, 0)
	w.start()
	a := rkey{Epoch: 1000, Cons: 0, Chain: 0, Sid: 101}
	must := func(err error) {
		if err != nil {
			t.Fatalf("%s", ev.HarnessError("makeProof: %v", err))
		}
	}
	must(w.sendProof(a, 5, 1))
	w.round(2, outErr, outOK, orderFree, false, false) // round 1: A claimed, tx fails
	for i := 1; i <= 4; i++ {
		// a proof of the current epoch with the same session id (alternating consumer)
		must(w.sendProof(rkey{Epoch: w.cur, Cons: i % 2, Chain: 0, Sid: 101}, uint64(3+i), 1))
		// next claim round: the new claim succeeds and its bookkeeping completes first, A's retry fails
		w.round(2, outOK, outErr, orderNewFirst, false, false)
	}
	if v := w.firstViolation(); v != "" {
		t.Fatalf("observation reproduced (not a listed finding): %s", v)
	}
}
