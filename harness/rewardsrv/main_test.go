package rewardsrv

import (
	"os"
	"testing"

	"github.com/lavanet/lava/v5/utils"
	lavarand "github.com/lavanet/lava/v5/utils/rand"

	"verifharness/internal/ev"
)

func TestMain(m *testing.M) {
	// NewRewardServer draws a server id and the claim delay from utils/rand; no oracle depends on them
	lavarand.InitRandomSeed()
	utils.SetGlobalLoggingLevel("fatal")
	code := m.Run()
	ev.Flush()
	os.Exit(code)
}
