package rewardsrv

import (
	"fmt"
	"sort"
	"testing"

	"github.com/lavanet/lava/v5/protocol/rpcprovider/rewardserver"
	"pgregory.net/rapid"

	"verifharness/internal/ev"
)

// ---- C29: provider reward proofs keep the best proof and are claimed in window -------------------

func check(t *rapid.T, w *world) {
	if v := w.firstViolation(); v != "" {
		t.Fatalf("%s", v)
	}
}

func propC29(t *rapid.T) {
	c := ev.For("C29")
	excludeRace := ev.Excluded(findingSharedErr)

	epochSize := uint64(rapid.SampledFrom([]int{10, 20}).Draw(t, "epochSize"))
	collect := uint64(rapid.SampledFrom([]int{1, 1, 2, 2, 3}).Draw(t, "collectEpochs"))
	memEpochs := collect + uint64(rapid.SampledFrom([]int{1, 2, 3, 5}).Draw(t, "memoryExtraEpochs"))
	w := newWorld(epochSize, collect, memEpochs, uint64(rapid.IntRange(0, 3).Draw(t, "startEpochs")))
	w.start()
	// session ids: real consumers draw one random 63-bit id per session, so ids of different
	// (epoch, consumer, chain) sessions are distinct ("distinct" mode, 4-digit ids assigned on first use).
	// "colliding" mode reuses 1-2 ids for every consumer, chain and epoch (ids a non-standard consumer could send).
	sidMode := rapid.SampledFrom([]string{"distinct", "distinct", "colliding"}).Draw(t, "sessionIdMode")
	sidPool := []uint64{101, 102}
	if sidMode == "colliding" && rapid.Bool().Draw(t, "singleId") {
		sidPool = []uint64{101}
	}
	type sessSlot struct {
		Epoch       uint64
		Cons, Chain int
		Slot        int
	}
	sidOf := map[sessSlot]uint64{}

	drawKey := func(t *rapid.T) rkey {
		eps := w.activeEpochs()
		k := rkey{
			Epoch: eps[rapid.IntRange(0, len(eps)-1).Draw(t, "epochIdx")],
			Cons:  rapid.IntRange(0, 1).Draw(t, "consumer"),
			Chain: rapid.IntRange(0, 1).Draw(t, "chain"),
			Sid:   rapid.SampledFrom(sidPool).Draw(t, "session"),
		}
		if sidMode == "distinct" {
			sl := sessSlot{k.Epoch, k.Cons, k.Chain, rapid.IntRange(0, 2).Draw(t, "sessionSlot")}
			if _, ok := sidOf[sl]; !ok {
				sidOf[sl] = uint64(1001 + len(sidOf))
			}
			k.Sid = sidOf[sl]
		}
		return k
	}
	proofStep := func(t *rapid.T) {
		k := drawKey(t)
		// prefer keys that already have a proof, so that orders of CU sums are exercised
		if ks := sortedKeys(w.mem); len(ks) > 0 && rapid.IntRange(0, 2).Draw(t, "reuseKey") > 0 {
			cand := ks[rapid.IntRange(0, len(ks)-1).Draw(t, "which")]
			if cand.Epoch > w.cur-w.dist() { // only epochs that are still served
				k = cand
			}
		}
		cu := uint64(rapid.IntRange(1, 15).Draw(t, "cuSum"))
		rn := uint64(rapid.IntRange(1, 3).Draw(t, "relayNum"))
		if err := w.sendProof(k, cu, rn); err != nil {
			t.Fatalf("%s", ev.HarnessError("makeProof: %v", err))
		}
		check(t, w)
	}

	roundStep := func(t *rapid.T) {
		jump := uint64(rapid.SampledFrom([]int{1, 1, 1, 1, 1, 1, 2, 3, int(w.memEpochs) + 1}).Draw(t, "epochJump"))
		if w.cur+jump*w.epochSize > 9990 {
			t.Skip("epoch range of the case exhausted")
		}
		outs := []int{outOK, outOK, outOK, outErr, outErr, outErr, outPanic}
		outNew := rapid.SampledFrom(outs).Draw(t, "newClaimOutcome")
		outRetry := rapid.SampledFrom(outs).Draw(t, "retryOutcome")
		order := rapid.SampledFrom([]int{orderNewFirst, orderRetryFirst, orderBarrier, orderBarrier}).Draw(t, "completionOrder")
		w.round(jump, outNew, outRetry, order, true, excludeRace)
		check(t, w)
	}

	t.Repeat(map[string]func(*rapid.T){
		"proof":  proofStep,
		"proof2": proofStep,
		"proof3": proofStep,
		"burst": func(t *rapid.T) {
			k := drawKey(t)
			n := rapid.IntRange(2, 4).Draw(t, "burstLen")
			cus := []uint64{}
			for i := 0; i < n; i++ {
				cus = append(cus, uint64(rapid.IntRange(1, 15).Draw(t, "cuSum")))
			}
			if err := w.burst(k, cus, uint64(10*rapid.IntRange(1, 2).Draw(t, "relayNum"))); err != nil {
				t.Fatalf("%s", ev.HarnessError("makeProof: %v", err))
			}
			check(t, w)
		},
		"snapshot": func(t *rapid.T) {
			fails := [2]int{}
			if rapid.IntRange(0, 4).Draw(t, "saveErrors") == 0 {
				fails[0] = rapid.IntRange(0, 3).Draw(t, "failA")
				fails[1] = rapid.IntRange(0, 3).Draw(t, "failB")
			}
			w.snapshot(fails)
			check(t, w)
		},
		"round": roundStep, "round2": roundStep, "round3": roundStep,
		"restart": func(t *rapid.T) {
			if rapid.IntRange(0, 2).Draw(t, "reallyRestart") == 0 {
				roundStep(t)
				return
			}
			if rapid.IntRange(0, 1).Draw(t, "snapshotFirst") == 1 {
				w.snapshot([2]int{})
			}
			down := uint64(rapid.SampledFrom([]int{0, 0, 0, 1, 2, int(w.memEpochs) - 1, int(w.memEpochs)}).Draw(t, "downEpochs"))
			if w.cur+down*w.epochSize > 9990 {
				down = 0
			}
			w.restart(down)
			check(t, w)
		},
		"pay": func(t *rapid.T) {
			cands := []rkey{}
			for _, k := range sortedKeys(w.life) {
				if w.life[k].succeeded && !w.paid[k] {
					cands = append(cands, k)
				}
			}
			if len(cands) == 0 {
				proofStep(t)
				return
			}
			w.pay(cands[rapid.IntRange(0, len(cands)-1).Draw(t, "payWhich")])
			check(t, w)
		},
	})
	if w.stats["order-timeout"] > 0 {
		c.AddExtra("rounds_where_imposed_completion_order_timed_out", w.stats["order-timeout"])
	}
	submissions := 0
	for _, k := range sortedKeys(w.everSubmit) {
		_ = k
		submissions++
	}
	ooo := w.stats["out-of-order-proof"] > 0
	disturbed := w.stats["tx-failure"] > 0 || w.stats["restart"] > 0
	nontrivial := ooo && disturbed && submissions > 0
	classes := []string{}
	names := make([]string, 0, len(w.stats))
	for n := range w.stats {
		names = append(names, n)
	}
	sort.Strings(names)
	for _, n := range names {
		classes = append(classes, "case:"+n)
	}
	classes = append(classes, "sessionIds="+sidMode, fmt.Sprintf("collectEpochs=%d", collect))
	if submissions == 0 {
		classes = append(classes, "case:no-submission")
	}
	c.Case(nontrivial, w.history(), classes...)
	if nontrivial {
		c.Sample(map[string]any{"history": w.log, "stats": w.stats})
	}
}

func c29Setup() {
	c := ev.For("C29")
	c.SetRule("rapid action sequences on a real RewardServer driven synchronously: SendNewProof for 2 consumers x 2 chains x up to 3 sessions per epoch (session ids: 2/3 of the cases 'distinct' = one fresh id per (epoch, consumer, chain, session) as real consumers draw them, 1/3 'colliding' = the same 1-2 ids for every consumer, chain and epoch); CU sums 1-15 in any order, ties, concurrent bursts; forced snapshots (with injected DB save errors); claim rounds (epoch jumps 1-3 or past chain memory; tx outcome success/error/panic drawn separately for the new-claim tx and the retry tx; generated completion order (new first / retry first / simultaneous) of the two concurrent payment goroutines of a round); payment events; restarts (new RewardServer on the same shared DB, optionally after some epochs of downtime) between any two steps. non-trivial = the history has an out-of-order (lower CU after higher) proof for some key, a tx failure or a restart, and at least one submission; distinct = distinct step histories")
	c.Assume("proofs arrive only for epochs the provider still serves (epoch > current epoch - epochSize*recommendedEpochNumToCollectPayment), as the provider session manager enforces",
		"claim rounds are run synchronously through the verif hook VerifRunEpochUpdate (= what UpdateEpoch starts in a goroutine) with strictly increasing epochs; the mock reports LatestBlock past the random reward delay",
		"snapshots are explicit (VerifSnapshot = what the snapshot timer/threshold trigger); the timer and the RelayNum threshold never fire",
		"the reward DB is the harness's own in-memory implementation of rewardserver.DB shared across restarts (badger durability and TTL are out of scope); restore uses VerifRestoreFromDB = the restore step of AddDataBase",
		"within a case all epochs have 4 decimal digits and all session ids the same number of digits (RewardDB deletes by decimal key prefix)",
		fmt.Sprintf("'configured number of retries' = MaxPaymentRequestsRetiresForSession = %d, so at most %d submissions per proof and process lifetime", rewardserver.MaxPaymentRequestsRetiresForSession, maxSubmissionsPerLifetime),
		"liveness is asserted as the code implements it: a proof is claimed in the first claim round in which its epoch has left the active window and is still in chain memory; a failed claim with a session id not shared with any other submitted proof is retried in the next round",
		"colliding session ids (which the reference consumer, drawing 63-bit random ids, does not produce): when a failing retry and a new claim of the same round share a session id, only the interleaving in which the retry's bookkeeping completes first is explored; the other interleaving lets one proof exceed the retry cap because the retry table is keyed by session id alone (TestC29Observation_retry_budget_shared_by_session_id, reported, not listed as a finding)")
}

func TestC29(t *testing.T) {
	c29Setup()
	rapid.Check(t, propC29)
}
