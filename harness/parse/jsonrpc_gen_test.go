package parse

import (
	"encoding/json"
	"fmt"

	spectypes "github.com/lavanet/lava/v5/x/spec/types"
	"pgregory.net/rapid"
)

// ---- generators of valid Ethereum JSON-RPC requests (ETH1 spec) shared by C31 / C32 / C38 ----

// blockReq is the block a generated request asks for, as the *generator* knows it.
type blockReq struct {
	Kind string `json:"kind"` // "num" | "latest" | "earliest" | "pending" | "safe" | "finalized" | "none" (method without block / not applicable)
	Num  uint64 `json:"num,omitempty"`
	Repr string `json:"repr"` // how the number is written: "hex" | "dec" | "jsonnum"
}

func (b blockReq) isTag() bool { return b.Kind != "num" && b.Kind != "none" }

// value returns the JSON value placed in the request.
func (b blockReq) value() any {
	switch b.Kind {
	case "num":
		switch b.Repr {
		case "dec":
			return fmt.Sprintf("%d", b.Num)
		case "jsonnum":
			return json.Number(fmt.Sprintf("%d", b.Num))
		default:
			return fmt.Sprintf("0x%x", b.Num)
		}
	case "none":
		return nil
	default:
		return b.Kind
	}
}

// expected parsed value (lava's int64 encoding) of a block the generator asked for.
func (b blockReq) parsed() int64 {
	switch b.Kind {
	case "num":
		return int64(b.Num)
	case "latest":
		return spectypes.LATEST_BLOCK
	case "earliest":
		return spectypes.EARLIEST_BLOCK
	case "pending":
		return spectypes.PENDING_BLOCK
	case "safe":
		return spectypes.SAFE_BLOCK
	case "finalized":
		return spectypes.FINALIZED_BLOCK
	}
	return spectypes.NOT_APPLICABLE
}

func (b blockReq) String() string {
	if b.Kind == "num" {
		return fmt.Sprintf("%d/%s", b.Num, b.Repr)
	}
	return b.Kind
}

// ethMethod describes a method of the ETH1 spec and how to build valid params around a block value.
type ethMethod struct {
	Name   string
	Addon  string
	CU     uint64 // compute units in specs/mainnet-1/specs/ethereum.json (cross-checked at start-up against the loaded spec)
	Block  bool   // takes a block parameter
	NoBlk  int64  // parsed block when the method has no block parameter (LATEST_BLOCK for DEFAULT parsers, NOT_APPLICABLE for EMPTY)
	Params func(blk any) []any
}

const (
	addrA = "0x407d73d8a49eeb85d32cf465507dd71d507100c1"
	slot0 = "0x0"
)

var ethBlockMethods = []ethMethod{
	{Name: "eth_getBalance", CU: 20, Block: true, Params: func(b any) []any { return []any{addrA, b} }},
	{Name: "eth_call", CU: 20, Block: true, Params: func(b any) []any {
		return []any{map[string]any{"to": addrA, "data": "0x70a08231"}, b}
	}},
	{Name: "eth_getCode", CU: 20, Block: true, Params: func(b any) []any { return []any{addrA, b} }},
	{Name: "eth_getTransactionCount", CU: 20, Block: true, Params: func(b any) []any { return []any{addrA, b} }},
	{Name: "eth_getStorageAt", CU: 20, Block: true, Params: func(b any) []any { return []any{addrA, slot0, b} }},
	{Name: "eth_getProof", CU: 20, Block: true, Params: func(b any) []any { return []any{addrA, []any{slot0}, b} }},
	{Name: "eth_getBlockByNumber", CU: 20, Block: true, Params: func(b any) []any { return []any{b, false} }},
	{Name: "eth_getBlockTransactionCountByNumber", CU: 20, Block: true, Params: func(b any) []any { return []any{b} }},
	{Name: "eth_getBlockReceipts", CU: 20, Block: true, Params: func(b any) []any { return []any{b} }},
	{Name: "eth_getUncleCountByBlockNumber", CU: 10, Block: true, Params: func(b any) []any { return []any{b} }},
	{Name: "eth_getTransactionByBlockNumberAndIndex", CU: 10, Block: true, Params: func(b any) []any { return []any{b, "0x0"} }},
	{Name: "eth_getLogs", CU: 80, Block: true, Params: func(b any) []any {
		return []any{map[string]any{"toBlock": b, "address": addrA}}
	}},
}

var ethAddonBlockMethods = []ethMethod{
	{Name: "debug_traceBlockByNumber", Addon: "debug", CU: 100, Block: true, Params: func(b any) []any { return []any{b, map[string]any{}} }},
	{Name: "debug_traceCall", Addon: "debug", CU: 100, Block: true, Params: func(b any) []any {
		return []any{map[string]any{"to": addrA}, b, map[string]any{}}
	}},
	{Name: "debug_getRawHeader", Addon: "debug", CU: 50, Block: true, Params: func(b any) []any { return []any{b} }},
	{Name: "trace_block", Addon: "trace", CU: 200, Block: true, Params: func(b any) []any { return []any{b} }},
	{Name: "trace_replayBlockTransactions", Addon: "trace", CU: 500, Block: true, Params: func(b any) []any { return []any{b, []any{"trace"}} }},
}

var ethNoBlockMethods = []ethMethod{
	{Name: "eth_blockNumber", CU: 10, NoBlk: spectypes.LATEST_BLOCK, Params: func(any) []any { return []any{} }},
	{Name: "eth_chainId", CU: 10, NoBlk: spectypes.LATEST_BLOCK, Params: func(any) []any { return []any{} }},
	{Name: "eth_gasPrice", CU: 20, NoBlk: spectypes.LATEST_BLOCK, Params: func(any) []any { return []any{} }},
	{Name: "eth_estimateGas", CU: 100, NoBlk: spectypes.LATEST_BLOCK, Params: func(any) []any { return []any{map[string]any{"to": addrA}} }},
	{Name: "net_version", CU: 10, NoBlk: spectypes.NOT_APPLICABLE, Params: func(any) []any { return []any{} }},
	{Name: "eth_syncing", CU: 10, NoBlk: spectypes.NOT_APPLICABLE, Params: func(any) []any { return []any{} }},
	{Name: "eth_mining", CU: 10, NoBlk: spectypes.NOT_APPLICABLE, Params: func(any) []any { return []any{} }},
}

var ethAddonNoBlockMethods = []ethMethod{
	{Name: "debug_getBadBlocks", Addon: "debug", CU: 200, NoBlk: spectypes.LATEST_BLOCK, Params: func(any) []any { return []any{} }},
	{Name: "trace_call", Addon: "trace", CU: 200, NoBlk: spectypes.LATEST_BLOCK, Params: func(any) []any { return []any{map[string]any{"to": addrA}, []any{"trace"}} }},
}

// rpcMember is one JSON-RPC request object.
type rpcMember struct {
	M   ethMethod `json:"-"`
	Blk blockReq  `json:"block"`
	ID  int       `json:"id"`
}

func (m rpcMember) Method() string { return m.M.Name }

func (m rpcMember) object() map[string]any {
	return map[string]any{"jsonrpc": "2.0", "id": m.ID, "method": m.M.Name, "params": m.M.Params(m.Blk.value())}
}

// wantBlock is the requested block the member asks for (lava encoding).
func (m rpcMember) wantBlock() int64 {
	if !m.M.Block {
		return m.M.NoBlk
	}
	return m.Blk.parsed()
}

func (m rpcMember) String() string {
	if !m.M.Block {
		return m.M.Name
	}
	return m.M.Name + "@" + m.Blk.String()
}

func mustJSON(v any) []byte {
	b, err := json.Marshal(v)
	if err != nil {
		panic("harness: cannot marshal generated request: " + err.Error())
	}
	return b
}

func singleBody(m rpcMember) []byte { return mustJSON(m.object()) }

func batchBody(ms []rpcMember) []byte {
	arr := make([]any, len(ms))
	for i, m := range ms {
		arr[i] = m.object()
	}
	return mustJSON(arr)
}

var blockTags = []string{"latest", "earliest", "pending", "safe", "finalized"}

func genNumRepr(t *rapid.T, n uint64) string {
	if n >= 1<<53 {
		return rapid.SampledFrom([]string{"hex", "hex", "dec"}).Draw(t, "repr")
	}
	return rapid.SampledFrom([]string{"hex", "hex", "hex", "dec", "jsonnum"}).Draw(t, "repr")
}

// validateEthTable cross-checks the method table above against the loaded ETH1 spec (name, add-on,
// compute units, enabled); a mismatch is a harness problem, never a violation.
func validateEthTable() error {
	spec, err := loadSpec("ETH1")
	if err != nil {
		return err
	}
	type k struct{ name, addon string }
	cu := map[k]uint64{}
	for _, col := range spec.ApiCollections {
		if col.CollectionData.ApiInterface != spectypes.APIInterfaceJsonRPC || !col.Enabled {
			continue
		}
		for _, a := range col.Apis {
			if a.Enabled {
				cu[k{a.Name, col.CollectionData.AddOn}] = a.ComputeUnits
			}
		}
	}
	for _, tbl := range [][]ethMethod{ethBlockMethods, ethAddonBlockMethods, ethNoBlockMethods, ethAddonNoBlockMethods} {
		for _, m := range tbl {
			got, ok := cu[k{m.Name, m.Addon}]
			if !ok {
				return fmt.Errorf("method %s (add-on %q) not found enabled in the ETH1 spec", m.Name, m.Addon)
			}
			if got != m.CU {
				return fmt.Errorf("method %s: table says %d CU, spec says %d", m.Name, m.CU, got)
			}
		}
	}
	return nil
}
