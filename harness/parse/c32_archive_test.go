package parse

import (
	"fmt"
	"math"
	"testing"

	"github.com/lavanet/lava/v5/protocol/chainlib"
	"github.com/lavanet/lava/v5/protocol/chainlib/extensionslib"
	spectypes "github.com/lavanet/lava/v5/x/spec/types"
	"pgregory.net/rapid"

	"verifharness/internal/ev"
)

// ---- C32: archive routing follows the configured block rule ----------------------------------

const findC32EthCall = "c32-ethcall-young-chain"

// wantArchiveC32 is the predicate of the property statement, clause by clause:
//
//	"a request that carries no explicit extension choice is marked as needing archive if and only if
//	 it asks for the earliest block, or it asks for a specific block and either the latest block is
//	 unknown, its earliest requested block is more than the rule distance behind the latest block, or
//	 it is an eth_call more than 126 blocks behind the latest block. Requests for the latest block or
//	 for no specific block are never marked."
//
// requested is lava's encoding of the requested block (>= 0 specific block, negative = tag),
// latest == 0 means "latest block unknown".
func wantArchiveC32(requested int64, latest uint64, ruleDistance uint64, isEthCall bool) bool {
	if requested == spectypes.EARLIEST_BLOCK {
		return true // asks for the earliest block
	}
	if requested < 0 {
		return false // latest block (or pending/safe/finalized) or no specific block: never marked
	}
	// asks for a specific block
	if latest == 0 {
		return true // the latest block is unknown
	}
	behind := uint64(0) // how many blocks the requested block is behind the latest block
	if latest > uint64(requested) {
		behind = latest - uint64(requested)
	}
	if behind > ruleDistance {
		return true // more than the rule distance behind the latest block
	}
	if isEthCall && behind > 126 {
		return true // an eth_call more than 126 blocks behind the latest block
	}
	return false
}

var c32Rules = []uint64{0 /* = keep the spec's own rule (127) */, 1, 2, 3, 50, 100, 124, 125, 126, 127, 128, 129, 130, 200, 500, 1000, 2840, 42600, 1000000}

func c32Parser(rule uint64) (chainlib.ChainParser, uint64, error) {
	if rule == 0 {
		p, err := parserFor("ETH1", spectypes.APIInterfaceJsonRPC, "c32")
		return p, 127, err
	}
	p, err := parserWithRule("ETH1", spectypes.APIInterfaceJsonRPC, rule)
	return p, rule, err
}

type c32Case struct {
	Method string   `json:"method"`
	Block  blockReq `json:"block"`
	Latest uint64   `json:"latest"`
	Rule   uint64   `json:"rule"`
	Body   string   `json:"body"`
	Want   bool     `json:"want_archive"`
	Got    bool     `json:"got_archive"`
}

func genC32Latest(t *rapid.T, rule uint64) uint64 {
	switch rapid.IntRange(0, 9).Draw(t, "latestClass") {
	case 0:
		return 0
	case 1, 2, 3:
		return uint64(rapid.IntRange(1, 200).Draw(t, "latestSmall"))
	case 4, 5:
		v := int64(rule) + int64(rapid.IntRange(-3, 3).Draw(t, "latestAroundRule"))
		if v < 0 {
			v = 0
		}
		return uint64(v)
	case 6:
		return uint64(126 + rapid.IntRange(-3, 3).Draw(t, "latestAround126"))
	case 7:
		return uint64(rapid.Int64Range(201, 30_000_000).Draw(t, "latestMid"))
	case 8:
		return rapid.Uint64Range(1<<40, math.MaxInt64).Draw(t, "latestLarge")
	default:
		return rapid.SampledFrom([]uint64{math.MaxInt64, math.MaxInt64 + 1, math.MaxUint64 - 126, math.MaxUint64 - 1, math.MaxUint64, 253, 254, 255, 256}).Draw(t, "latestEdge")
	}
}

func genC32Block(t *rapid.T, latest, rule uint64) blockReq {
	if rapid.IntRange(0, 9).Draw(t, "blockIsTag") < 3 {
		return blockReq{Kind: rapid.SampledFrom(blockTags).Draw(t, "tag")}
	}
	var n uint64
	sub := func(a, d uint64) uint64 {
		if d > a {
			return 0
		}
		return a - d
	}
	switch rapid.IntRange(0, 7).Draw(t, "blockClass") {
	case 0:
		n = sub(latest, uint64(rapid.IntRange(0, 3).Draw(t, "behindSmall")))
	case 1, 2:
		d := int64(rule) + int64(rapid.IntRange(-2, 2).Draw(t, "behindAroundRule"))
		if d < 0 {
			d = 0
		}
		n = sub(latest, uint64(d))
	case 3, 4:
		n = sub(latest, uint64(126+rapid.IntRange(-2, 2).Draw(t, "behindAround126")))
	case 5:
		hi := latest
		if hi > 400 {
			hi = 400
		}
		n = rapid.Uint64Range(0, hi).Draw(t, "blockLow")
	case 6:
		add := rapid.SampledFrom([]uint64{1, 2, 1000}).Draw(t, "ahead")
		if latest < math.MaxInt64-add {
			n = latest + add
		} else {
			n = math.MaxInt64
		}
	default:
		n = rapid.Uint64Range(0, math.MaxInt64).Draw(t, "blockAny")
	}
	if n > math.MaxInt64 {
		n = math.MaxInt64 // block numbers are int64 in lava
	}
	return blockReq{Kind: "num", Num: n, Repr: genNumRepr(t, n)}
}

func propC32(t *rapid.T) {
	c := ev.For("C32")
	ruleSel := rapid.SampledFrom(c32Rules).Draw(t, "rule")
	p, rule, err := c32Parser(ruleSel)
	if err != nil {
		t.Fatalf("%s", ev.HarnessError("cannot build ETH1 parser with rule %d: %v", ruleSel, err))
	}
	var m ethMethod
	switch rapid.IntRange(0, 9).Draw(t, "methodClass") {
	case 0, 1, 2, 3:
		m = ethBlockMethods[1] // eth_call
	case 4, 5, 6, 7:
		m = rapid.SampledFrom(ethBlockMethods).Draw(t, "method")
	case 8:
		m = rapid.SampledFrom(ethAddonBlockMethods).Draw(t, "addonMethod")
	default:
		m = rapid.SampledFrom(append(append([]ethMethod{}, ethNoBlockMethods...), ethAddonNoBlockMethods...)).Draw(t, "noBlockMethod")
	}
	latest := genC32Latest(t, rule)
	if m.Name == "eth_call" && latest >= 1 && latest <= 125 && ev.Excluded(findC32EthCall) {
		// known finding: eth_call on a chain younger than 126 blocks (unsigned underflow of latest-126)
		c.Exclude(findC32EthCall)
		latest += 126
	}
	mem := rpcMember{M: m, ID: 1}
	if m.Block {
		mem.Blk = genC32Block(t, latest, rule)
	} else {
		mem.Blk = blockReq{Kind: "none"}
	}
	body := singleBody(mem)
	requested := mem.wantBlock()
	isEthCall := m.Name == "eth_call"
	want := wantArchiveC32(requested, latest, rule, isEthCall)

	msg, perr := p.ParseMsg("", body, "POST", nil, extensionslib.ExtensionInfo{LatestBlock: latest})
	if perr != nil {
		t.Fatalf("%s", ev.HarnessError("generated valid request does not parse: %s: %v", body, perr))
	}
	gotLatest, gotEarliest := msg.RequestedBlock()
	got := hasArchive(msg)
	cs := c32Case{Method: m.Name, Block: mem.Blk, Latest: latest, Rule: rule, Body: string(body), Want: want, Got: got}

	// evidence
	behind := uint64(0)
	if requested >= 0 && latest > uint64(requested) {
		behind = latest - uint64(requested)
	}
	near := func(x, y uint64) bool { return x+2 >= y && x <= y+2 }
	boundary := requested >= 0 && latest != 0 && (near(behind, rule) || (isEthCall && near(behind, 126)))
	young := latest != 0 && (latest < rule || latest < 126)
	nontrivial := young || boundary
	classes := []string{"want-archive=" + fmt.Sprint(want)}
	if isEthCall {
		classes = append(classes, "eth_call")
	} else if m.Addon != "" {
		classes = append(classes, "addon-method")
	} else if !m.Block {
		classes = append(classes, "method-without-block")
	} else {
		classes = append(classes, "other-block-method")
	}
	switch {
	case requested >= 0:
		classes = append(classes, "block-numeric")
	case requested == spectypes.EARLIEST_BLOCK:
		classes = append(classes, "block-earliest")
	case requested == spectypes.NOT_APPLICABLE:
		classes = append(classes, "block-not-applicable")
	default:
		classes = append(classes, "block-latest-like-tag")
	}
	if latest == 0 {
		classes = append(classes, "latest-unknown")
	}
	if latest != 0 && latest < 126 {
		classes = append(classes, "latest<126")
	}
	if latest != 0 && latest < rule {
		classes = append(classes, "latest<rule")
	}
	if boundary {
		classes = append(classes, "within-2-of-threshold")
	}
	if isEthCall && young {
		classes = append(classes, "eth_call-young-chain")
	}
	if isEthCall && requested >= 0 && behind > 126 && behind <= rule {
		classes = append(classes, "eth_call-126-clause-decides")
	}
	c.Case(nontrivial, fmt.Sprintf("%s|%s|%d|%d", m.Name, mem.Blk, latest, rule), classes...)
	if nontrivial {
		c.Sample(cs)
	}

	c.Clause("archive-iff-statement-predicate")
	if got != want {
		t.Fatalf("%s", ev.Violation("C32", "archive marking differs from the rule: method=%s requested=%d (%s) latest=%d ruleDistance=%d: want archive=%v, parser extensions=%v; request=%s",
			m.Name, requested, mem.Blk, latest, rule, want, extNames(msg), body))
	}
	c.Clause("no-other-extension")
	if n := len(msg.GetExtensions()); (want && n != 1) || (!want && n != 0) {
		t.Fatalf("%s", ev.Violation("C32", "unexpected extension set %v for request %s latest=%d rule=%d", extNames(msg), body, latest, rule))
	}
	if gotLatest != requested || gotEarliest != requested {
		// the archive marking is right for the block the request asks for, but the parser reports another
		// requested block than the generator assumes: the case does not test what it claims to
		t.Fatalf("%s", ev.HarnessError("generator expected requested block %d, parser reports (%d,%d) for %s", requested, gotLatest, gotEarliest, body))
	}
}

func TestC32(t *testing.T) {
	c := ev.For("C32")
	c.SetRule("single Ethereum JSON-RPC requests (eth_call 40%, 11 other block-taking methods, debug/trace add-on methods, methods without block) built for the real ETH1 chain parser with the spec's own archive rule (127) or one of 18 overridden rule distances; requested block = tag (latest/earliest/pending/safe/finalized) or number written as hex/decimal/JSON number, chosen relative to the latest block (0..3 behind, rule±2 behind, 126±2 behind, ahead, low, arbitrary); latest block in {0, 1..200, rule±3, 126±3, mid, huge, uint64 edges}; parsed with ExtensionInfo{LatestBlock} and no override. non-trivial = chain younger than the rule distance or than 126 blocks, or requested block within 2 of a threshold; distinct = (method, block, latest, rule)")
	c.Assume("requests carry no explicit extension choice (no override / additional extensions)",
		"the consumer's policy allows the archive extension on every collection of the spec",
		"block numbers fit in int64 (lava's block type); pending/safe/finalized count as 'not a specific block'")
	if _, _, err := c32Parser(0); err != nil {
		t.Fatalf("%s", ev.HarnessError("cannot build ETH1 parser: %v", err))
	}
	rapid.Check(t, propC32)
}

// TestC32Known_EthCallYoungChain is the deterministic witness of finding c32-ethcall-young-chain:
// protocol/chainlib/jsonRPC.go ParseMsg computes `uint64(parsedBlock) < extensionInfo.LatestBlock-126`,
// which wraps around when 0 < LatestBlock < 126.
func TestC32Known_EthCallYoungChain(t *testing.T) {
	p, rule, err := c32Parser(0)
	if err != nil {
		t.Fatalf("%s", ev.HarnessError("cannot build ETH1 parser: %v", err))
	}
	for _, w := range []struct {
		blk    blockReq
		latest uint64
	}{
		{blockReq{Kind: "num", Num: 100, Repr: "hex"}, 120},
		{blockReq{Kind: "latest"}, 125},
		{blockReq{Kind: "num", Num: 1, Repr: "hex"}, 1},
	} {
		mem := rpcMember{M: ethBlockMethods[1], ID: 1, Blk: w.blk}
		body := singleBody(mem)
		msg, err := p.ParseMsg("", body, "POST", nil, extensionslib.ExtensionInfo{LatestBlock: w.latest})
		if err != nil {
			t.Fatalf("%s", ev.HarnessError("witness request does not parse: %v", err))
		}
		want := wantArchiveC32(mem.wantBlock(), w.latest, rule, true)
		if got := hasArchive(msg); got != want {
			t.Fatalf("%s", ev.Violation("C32", "known finding %s: eth_call %s with latest block %d (rule %d) marked archive=%v, want %v", findC32EthCall, body, w.latest, rule, got, want))
		}
	}
}
