package parse

import (
	"strings"
	"testing"

	pairingtypes "github.com/lavanet/lava/v5/x/pairing/types"
	spectypes "github.com/lavanet/lava/v5/x/spec/types"
	"pgregory.net/rapid"

	"verifharness/internal/ev"
)

// ---- C38 native fuzz targets (thorough tier): byte-level search with the same semantic oracle ----

const fuzzMaxBody = 16 << 10

func fuzzTarget(f *testing.F, spec, iface string) *c38Target {
	tg, err := c38Target_(spec, iface)
	if err != nil {
		f.Fatalf("%s", ev.HarnessError("cannot build %s/%s parsers: %v", spec, iface, err))
	}
	c := ev.For("C38")
	c.SetRule("native go fuzzing of the request bytes / URL / header value with the C38 oracle inside (consumer parse under recover+watchdog, API enabled with CU>=1 and in the spec, provider re-parse agrees); seeded from generated valid and mutated requests and hostile constants")
	return tg
}

func fuzzVerdict(t *testing.T, tg *c38Target, r c38Req) {
	if len(r.Data) > fuzzMaxBody || len(r.URL) > fuzzMaxBody {
		// go's fuzz engine kills a worker whose single execution takes ~10 s; on a loaded machine the
		// coverage-instrumented parser gets there with large inputs, so native fuzzing stays below 16 KiB
		// (larger and deeper documents are covered by the rapid tier)
		t.Skip("over the size bound of the native-fuzz domain")
	}
	c := ev.For("C38")
	res := checkC38(tg, r, c, ev.Excluded)
	for _, x := range res.excluded {
		c.Exclude(x)
	}
	c.Case(res.parsed, r.String(), append(res.classes, "native-fuzz")...)
	if res.inconclusive != "" {
		t.Fatalf("%s", ev.HarnessError("%s", res.inconclusive))
	}
	if res.violation != "" {
		t.Fatalf("%s", ev.Violation("C38", "%s", res.violation))
	}
}

// seedsFor draws n generated requests of the given interface (deterministic examples of the rapid generator).
func seedsFor(spec, iface string, n int) []c38Req {
	gen := rapid.Custom(func(t *rapid.T) c38Req {
		_, r, _ := genC38Plan(t, c38Plan{spec, iface})
		return r
	})
	var out []c38Req
	for i := 0; len(out) < n && i < 4*n; i++ {
		if r := gen.Example(i); len(r.Data) <= 4<<10 && len(r.URL) <= 4<<10 {
			out = append(out, r)
		}
	}
	return out
}

func FuzzC38JsonRPC(f *testing.F) {
	tg := fuzzTarget(f, "ETH1", spectypes.APIInterfaceJsonRPC)
	for _, tbl := range [][]ethMethod{ethBlockMethods, ethAddonBlockMethods, ethNoBlockMethods} {
		for i, m := range tbl {
			blk := blockReq{Kind: blockTags[i%len(blockTags)]}
			if i%2 == 0 {
				blk = numBlk(uint64(1 + 1000*i))
			}
			f.Add(singleBody(rpcMember{M: m, ID: 1, Blk: blk}), uint32(10_000_000))
		}
	}
	f.Add(batchBody([]rpcMember{getBalance(numBlk(100), 1), getBalance(tagBlk("earliest"), 2), {M: ethNoBlockMethods[4], ID: 3, Blk: blockReq{Kind: "none"}}}), uint32(500))
	for _, s := range []string{"", " ", "[]", "[[]]", "[null]", "{}", "null", "\xef\xbb\xbf{}", `{"method":5}`, `{"jsonrpc":"2.0","id":1,"method":"eth_getBalance","params":["0x0","1e400"]}`,
		`{"jsonrpc":"2.0","id":1,"method":"eth_call","params":[{},"0x` + strings.Repeat("ab", 32) + `"]}`, `{"jsonrpc":"2.0","id":1,"method":"eth_getLogs","params":[{"toBlock":{"a":[1]}}]}`,
		`{"jsonrpc":"2.0","id":1,"method":"eth_getBlockByNumber","params":` + strings.Repeat("[", 200) + strings.Repeat("]", 200) + `}`} {
		f.Add([]byte(s), uint32(0))
	}
	for _, r := range seedsFor("ETH1", spectypes.APIInterfaceJsonRPC, 60) {
		f.Add(r.Data, uint32(r.Latest))
	}
	f.Fuzz(func(t *testing.T, data []byte, latest uint32) {
		fuzzVerdict(t, tg, c38Req{Spec: tg.Spec, Iface: tg.Iface, URL: "", Data: data, Conn: "POST", Latest: uint64(latest)})
	})
}

func FuzzC38Rest(f *testing.F) {
	tg := fuzzTarget(f, "LAV1", spectypes.APIInterfaceRest)
	for _, u := range []string{"/cosmos/base/tendermint/v1beta1/blocks/5", "/cosmos/base/tendermint/v1beta1/blocks/latest", "/cosmos/bank/v1beta1/balances/lava@1abc?height=7", "/lavanet/lava/pairing/verify_pairing/LAV1/a/b/77",
		"/cosmos/tx/v1beta1/txs/" + strings.Repeat("AB", 32), "/cosmos/staking/v1beta1/historical_info/9", "", "/", "%zz", "/a\x00b", "http://[::1", "/cosmos/base/tendermint/v1beta1/validatorsets/12?pagination.limit=1"} {
		f.Add(u, []byte{}, "", false, uint32(10_000_000))
		f.Add(u, []byte{}, "123", false, uint32(0))
	}
	f.Add("/cosmos/tx/v1beta1/simulate", []byte(`{"tx_bytes":"AAAA"}`), "latest", true, uint32(100))
	for _, r := range seedsFor("LAV1", spectypes.APIInterfaceRest, 60) {
		hv := ""
		if len(r.Meta) > 0 {
			hv = r.Meta[0].Value
		}
		f.Add(r.URL, r.Data, hv, r.Conn == "POST", uint32(r.Latest))
	}
	f.Fuzz(func(t *testing.T, url string, data []byte, heightHeader string, post bool, latest uint32) {
		r := c38Req{Spec: tg.Spec, Iface: tg.Iface, URL: url, Data: data, Conn: "GET", Latest: uint64(latest)}
		if post {
			r.Conn = "POST"
		}
		if heightHeader != "" {
			r.Meta = []pairingtypes.Metadata{{Name: "x-cosmos-block-height", Value: heightHeader}}
		}
		fuzzVerdict(t, tg, r)
	})
}

func FuzzC38Tendermint(f *testing.F) {
	tg := fuzzTarget(f, "LAV1", spectypes.APIInterfaceTendermintRPC)
	for _, u := range []string{"block?height=5", "/block?height=latest", "status", "abci_query?path=\"/a\"&data=0x00&height=7", "blockchain?minHeight=1&maxHeight=20", "unknown?x=1", "", "%zz", "block?height=%zz"} {
		f.Add(u, []byte{}, uint32(10_000_000))
	}
	for _, s := range []string{`{"jsonrpc":"2.0","id":1,"method":"block","params":{"height":"5"}}`, `{"jsonrpc":"2.0","id":1,"method":"block","params":["5"]}`, `{"jsonrpc":"2.0","id":1,"method":"abci_query","params":["/a","00","9",false]}`,
		`[{"jsonrpc":"2.0","id":1,"method":"block","params":["5"]},{"jsonrpc":"2.0","id":2,"method":"status","params":[]}]`, `{"jsonrpc":"2.0","id":1,"method":"tx","params":{"hash":"` + strings.Repeat("AB", 32) + `"}}`, "[]", "{}", "null"} {
		f.Add("", []byte(s), uint32(100))
	}
	for _, r := range seedsFor("LAV1", spectypes.APIInterfaceTendermintRPC, 60) {
		f.Add(r.URL, r.Data, uint32(r.Latest))
	}
	f.Fuzz(func(t *testing.T, url string, data []byte, latest uint32) {
		fuzzVerdict(t, tg, c38Req{Spec: tg.Spec, Iface: tg.Iface, URL: url, Data: data, Conn: "", Latest: uint64(latest)})
	})
}

func FuzzC38Grpc(f *testing.F) {
	tg := fuzzTarget(f, "LAV1", spectypes.APIInterfaceGrpc)
	for _, u := range []string{"cosmos.base.tendermint.v1beta1.Service/GetBlockByHeight", "cosmos.base.tendermint.v1beta1.Service/GetValidatorSetByHeight", "cosmos.staking.v1beta1.Query/HistoricalInfo", "lavanet.lava.pairing.Query/VerifyPairing",
		"cosmos.tx.v1beta1.Service/GetTx", "cosmos.bank.v1beta1.Query/Balance", "foo.bar/Baz", "", "/"} {
		f.Add(u, []byte(`{"height":"5"}`), "", uint32(10_000_000))
		f.Add(u, protoVarintField(1, 77), "9", uint32(0))
		f.Add(u, []byte{}, "", uint32(100))
		f.Add(u, []byte("{"), "latest", uint32(100))
	}
	for _, r := range seedsFor("LAV1", spectypes.APIInterfaceGrpc, 40) {
		hv := ""
		if len(r.Meta) > 0 {
			hv = r.Meta[0].Value
		}
		f.Add(r.URL, r.Data, hv, uint32(r.Latest))
	}
	f.Fuzz(func(t *testing.T, url string, data []byte, heightHeader string, latest uint32) {
		r := c38Req{Spec: tg.Spec, Iface: tg.Iface, URL: url, Data: data, Conn: "", Latest: uint64(latest)}
		if heightHeader != "" {
			r.Meta = []pairingtypes.Metadata{{Name: "x-cosmos-block-height", Value: heightHeader}}
		}
		fuzzVerdict(t, tg, r)
	})
}
