package parse

import (
	"fmt"
	"os"
	"sort"
	"strings"
	"sync"

	"github.com/lavanet/lava/v5/protocol/chainlib"
	"github.com/lavanet/lava/v5/protocol/chainlib/extensionslib"
	"github.com/lavanet/lava/v5/utils"
	specutils "github.com/lavanet/lava/v5/utils/keeper"
	epochstorage "github.com/lavanet/lava/v5/x/epochstorage/types"
	spectypes "github.com/lavanet/lava/v5/x/spec/types"
)

// ---- shared fixtures: real chain parsers built once per process from the checked-in spec files ----

func repoRoot() string {
	r := os.Getenv("VERIF_REPO")
	if r == "" {
		r = "/repo"
	}
	return strings.TrimRight(r, "/") + "/"
}

// allPolicy allows every add-on of the spec and the archive extension on every collection, the way a
// consumer policy / provider endpoint configuration that supports everything would.
type allPolicy struct {
	addons []string
	exts   []epochstorage.EndpointService
}

func (p *allPolicy) GetSupportedAddons(string) ([]string, error) { return p.addons, nil }
func (p *allPolicy) GetSupportedExtensions(string) ([]epochstorage.EndpointService, error) {
	return p.exts, nil
}

func policyFor(spec spectypes.Spec, apiInterface string) *allPolicy {
	p := &allPolicy{}
	seenA := map[string]bool{}
	seenE := map[string]bool{}
	for _, col := range spec.ApiCollections {
		if col.CollectionData.ApiInterface != apiInterface {
			continue
		}
		if !seenA[col.CollectionData.AddOn] {
			seenA[col.CollectionData.AddOn] = true
			p.addons = append(p.addons, col.CollectionData.AddOn)
		}
		for _, e := range col.Extensions {
			k := col.CollectionData.AddOn + "|" + e.Name
			if e.Name != "" && !seenE[k] {
				seenE[k] = true
				p.exts = append(p.exts, epochstorage.EndpointService{ApiInterface: apiInterface, Addon: col.CollectionData.AddOn, Extension: e.Name})
			}
		}
	}
	sort.Strings(p.addons)
	return p
}

var (
	quietOnce sync.Once
	specMu    sync.Mutex
	specCache = map[string]spectypes.Spec{}
	specErr   = map[string]error{}
)

func quietLogs() {
	quietOnce.Do(func() { utils.SetGlobalLoggingLevel("fatal") })
}

// loadSpec returns the fully expanded spec `index` from the checked-in spec JSON files.
func loadSpec(index string) (spectypes.Spec, error) {
	quietLogs()
	specMu.Lock()
	defer specMu.Unlock()
	if s, ok := specCache[index]; ok {
		return s, nil
	}
	if e, ok := specErr[index]; ok {
		return spectypes.Spec{}, e
	}
	s, err := specutils.GetASpec(index, repoRoot(), nil, nil)
	if err != nil {
		specErr[index] = err
		return spectypes.Spec{}, err
	}
	specCache[index] = s
	return s, nil
}

// newParser builds a chain parser for (spec, interface) with everything allowed by policy.
func newParser(spec spectypes.Spec, apiInterface string) (chainlib.ChainParser, error) {
	quietLogs()
	p, err := chainlib.NewChainParser(apiInterface)
	if err != nil {
		return nil, err
	}
	p.SetSpec(spec)
	if err := p.SetPolicy(policyFor(spec, apiInterface), spec.Index, apiInterface); err != nil {
		return nil, err
	}
	return p, nil
}

type parserKey struct {
	spec, iface, variant string
}

var (
	parserMu    sync.Mutex
	parserCache = map[parserKey]chainlib.ChainParser{}
)

// parserFor returns a cached parser; variant distinguishes independent instances (consumer / provider).
func parserFor(index, apiInterface, variant string) (chainlib.ChainParser, error) {
	parserMu.Lock()
	if p, ok := parserCache[parserKey{index, apiInterface, variant}]; ok {
		parserMu.Unlock()
		return p, nil
	}
	parserMu.Unlock()
	spec, err := loadSpec(index)
	if err != nil {
		return nil, err
	}
	p, err := newParser(spec, apiInterface)
	if err != nil {
		return nil, err
	}
	parserMu.Lock()
	defer parserMu.Unlock()
	parserCache[parserKey{index, apiInterface, variant}] = p
	return p, nil
}

// parserWithRule builds (and caches) a parser whose archive extensions carry the
// given rule distance instead of the one in the spec file.
func parserWithRule(index, apiInterface string, rule uint64) (chainlib.ChainParser, error) {
	key := parserKey{index, apiInterface, fmt.Sprintf("rule=%d", rule)}
	parserMu.Lock()
	if p, ok := parserCache[key]; ok {
		parserMu.Unlock()
		return p, nil
	}
	parserMu.Unlock()
	spec, err := loadSpec(index)
	if err != nil {
		return nil, err
	}
	// deep copy of the parts we touch
	cp := spec
	cp.ApiCollections = make([]*spectypes.ApiCollection, len(spec.ApiCollections))
	for i, col := range spec.ApiCollections {
		c := *col
		c.Extensions = make([]*spectypes.Extension, len(col.Extensions))
		for j, e := range col.Extensions {
			ee := *e
			if ee.Name == extensionslib.ArchiveExtension {
				ee.Rule = &spectypes.Rule{Block: rule}
			}
			c.Extensions[j] = &ee
		}
		cp.ApiCollections[i] = &c
	}
	p, err := newParser(cp, apiInterface)
	if err != nil {
		return nil, err
	}
	parserMu.Lock()
	defer parserMu.Unlock()
	parserCache[key] = p
	return p, nil
}

func extNames(m chainlib.ChainMessage) []string {
	var out []string
	for _, e := range m.GetExtensions() {
		out = append(out, e.Name)
	}
	sort.Strings(out)
	return out
}

func hasArchive(m chainlib.ChainMessage) bool {
	for _, e := range m.GetExtensions() {
		if e.Name == extensionslib.ArchiveExtension {
			return true
		}
	}
	return false
}
