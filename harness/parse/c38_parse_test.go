package parse

import (
	"context"
	"encoding/json"
	"fmt"
	neturl "net/url"
	"regexp"
	"sort"
	"strings"
	"sync"
	"testing"
	"time"
	"unicode/utf8"

	"github.com/lavanet/lava/v5/protocol/chainlib"
	"github.com/lavanet/lava/v5/protocol/chainlib/chainproxy/rpcInterfaceMessages"
	"github.com/lavanet/lava/v5/protocol/chainlib/extensionslib"
	"github.com/lavanet/lava/v5/utils"
	pairingtypes "github.com/lavanet/lava/v5/x/pairing/types"
	spectypes "github.com/lavanet/lava/v5/x/spec/types"
	"pgregory.net/rapid"

	"verifharness/internal/ev"
)

// ---- C38: request parsing is total and consistent on consumer and provider side -------------

const (
	// same root cause as c32-ethcall-young-chain: with LatestBlock 0 (provider side) LatestBlock-126 wraps
	// around and every eth_call with a numeric block gets the archive extension added, whatever the consumer chose
	findC38EthCall = "c38-ethcall-provider-archive"
	// REST routes are matched by iterating a map of regular expressions; a URL that matches two spec
	// routes resolves to either, per call
	findC38RestAmbiguous = "c38-rest-ambiguous-route"

	c38Watchdog = 120 * time.Second
	c38MaxBody  = 256 << 10
)

// c38Target is one (spec, interface) pair with an independent consumer and provider parser.
type c38Target struct {
	Spec, Iface string
	consumer    chainlib.ChainParser
	provider    chainlib.ChainParser
	// spec facts used by generator and oracle
	apis     map[string]map[string]uint64 // connection type -> api name -> CU (enabled apis of enabled collections)
	apiNames map[string][]string          // connection type -> sorted names
	routes   map[string][]*regexp.Regexp  // REST: connection type -> route patterns (for the ambiguity predicate)
	headers  []string                     // header names with a directive
}

var (
	c38Mu      sync.Mutex
	c38Targets = map[string]*c38Target{}
	c38Closers []func()
)

func grpcMockParser(spec spectypes.Spec) (chainlib.ChainParser, error) {
	p, _, _, closer, _, err := chainlib.CreateChainLibMocks(context.Background(), spec.Index, spectypes.APIInterfaceGrpc, nil, nil, repoRoot(), nil)
	utils.SetGlobalLoggingLevel("fatal") // CreateChainLibMocks switches to debug
	if err != nil {
		if closer != nil {
			closer()
		}
		return nil, err
	}
	c38Closers = append(c38Closers, closer)
	if err := p.SetPolicy(policyFor(spec, spectypes.APIInterfaceGrpc), spec.Index, spectypes.APIInterfaceGrpc); err != nil {
		return nil, err
	}
	return p, nil
}

// restRoutePattern mirrors how the REST parser turns a spec route into a regular expression; it is
// used only to classify generated URLs as ambiguous (matching more than one route), never as oracle.
func restRoutePattern(name string) *regexp.Regexp {
	re := regexp.MustCompile(`{[^}]+}`)
	pn := string(re.ReplaceAll([]byte(name), []byte("replace-me-with-regex")))
	pn = regexp.QuoteMeta(pn)
	pn = strings.ReplaceAll(pn, "replace-me-with-regex/", `[^\/\s]+/`)
	pn = strings.ReplaceAll(pn, "replace-me-with-regex", `[^\/\s]*`)
	r, err := regexp.Compile("^" + pn + "$")
	if err != nil {
		return nil
	}
	return r
}

func c38Target_(specIndex, iface string) (*c38Target, error) {
	c38Mu.Lock()
	defer c38Mu.Unlock()
	key := specIndex + "|" + iface
	if t, ok := c38Targets[key]; ok {
		return t, nil
	}
	spec, err := loadSpec(specIndex)
	if err != nil {
		return nil, err
	}
	t := &c38Target{Spec: specIndex, Iface: iface, apis: map[string]map[string]uint64{}, apiNames: map[string][]string{}, routes: map[string][]*regexp.Regexp{}}
	if iface == spectypes.APIInterfaceGrpc {
		if t.consumer, err = grpcMockParser(spec); err != nil {
			return nil, err
		}
		if t.provider, err = grpcMockParser(spec); err != nil {
			return nil, err
		}
	} else {
		if t.consumer, err = newParser(spec, iface); err != nil {
			return nil, err
		}
		if t.provider, err = newParser(spec, iface); err != nil {
			return nil, err
		}
	}
	hs := map[string]bool{}
	seenRoute := map[string]bool{}
	for _, col := range spec.ApiCollections {
		if col.CollectionData.ApiInterface != iface || !col.Enabled {
			continue
		}
		ct := col.CollectionData.Type
		if t.apis[ct] == nil {
			t.apis[ct] = map[string]uint64{}
		}
		for _, a := range col.Apis {
			if !a.Enabled {
				continue
			}
			t.apis[ct][a.Name] = a.ComputeUnits
			if iface == spectypes.APIInterfaceRest {
				// routes whose patterns are textually equal share one entry in the parser's table
				if r := restRoutePattern(a.Name); r != nil && !seenRoute[ct+"|"+r.String()] {
					seenRoute[ct+"|"+r.String()] = true
					t.routes[ct] = append(t.routes[ct], r)
				}
			}
		}
		for _, h := range col.Headers {
			hs[h.Name] = true
		}
	}
	for ct, m := range t.apis {
		for n := range m {
			t.apiNames[ct] = append(t.apiNames[ct], n)
		}
		sort.Strings(t.apiNames[ct])
	}
	for h := range hs {
		t.headers = append(t.headers, h)
	}
	sort.Strings(t.headers)
	c38Targets[key] = t
	return t, nil
}

// urlParse returns the decoded path of a raw URL.
func urlParse(raw string) (string, error) {
	u, err := neturl.Parse(raw)
	if err != nil {
		return "", err
	}
	return u.Path, nil
}

func (t *c38Target) ambiguousRestRoute(rawURL, connType string) bool {
	if t.Iface != spectypes.APIInterfaceRest {
		return false
	}
	path := rawURL
	if i := strings.IndexAny(path, "?#"); i >= 0 {
		path = path[:i]
	}
	// the parser matches the decoded path; be conservative and test both spellings
	cands := []string{path}
	if u, err := urlParse(rawURL); err == nil && u != path {
		cands = append(cands, u)
	}
	for _, p := range cands {
		n := 0
		for _, r := range t.routes[connType] {
			if r.MatchString(p) {
				n++
			}
		}
		if n >= 2 {
			return true
		}
	}
	return false
}

// c38Req is one request as the consumer's listener hands it to the parser.
type c38Req struct {
	Spec   string                  `json:"spec"`
	Iface  string                  `json:"interface"`
	URL    string                  `json:"url"`
	Data   []byte                  `json:"-"`
	DataS  string                  `json:"data"`
	Conn   string                  `json:"connection_type"`
	Meta   []pairingtypes.Metadata `json:"metadata,omitempty"`
	Latest uint64                  `json:"consumer_latest_block"`
}

type parseOut struct {
	msg      chainlib.ChainMessage
	err      error
	panicked any
	timedOut bool
}

// guardedParse runs ParseMsg under recover and a generous watchdog.
func guardedParse(p chainlib.ChainParser, url string, data []byte, conn string, meta []pairingtypes.Metadata, info extensionslib.ExtensionInfo) parseOut {
	ch := make(chan parseOut, 1)
	go func() {
		var out parseOut
		defer func() {
			if r := recover(); r != nil {
				out.panicked = r
				out.msg, out.err = nil, nil
			}
			ch <- out
		}()
		out.msg, out.err = p.ParseMsg(url, data, conn, meta, info)
	}()
	timer := time.NewTimer(c38Watchdog)
	defer timer.Stop()
	select {
	case o := <-ch:
		return o
	case <-timer.C:
		return parseOut{timedOut: true}
	}
}

type c38Result struct {
	violation    string
	inconclusive string
	parsed       bool
	classes      []string
	excluded     []string
}

func show(b []byte) string {
	if len(b) > 600 {
		return fmt.Sprintf("%q...(%d bytes)", b[:600], len(b))
	}
	return fmt.Sprintf("%q", b)
}

func (r c38Req) String() string {
	return fmt.Sprintf("spec=%s interface=%s url=%q connectionType=%q data=%s metadata=%v consumerLatest=%d", r.Spec, r.Iface, r.URL, r.Conn, show(r.Data), r.Meta, r.Latest)
}

func isNilMsg(m chainlib.ChainMessage) bool {
	if m == nil {
		return true
	}
	defer func() { _ = recover() }()
	return m.GetApi() == nil
}

// methodsOf lists the JSON-RPC methods of a parsed message (single or batch), empty for REST/gRPC.
func methodsOf(m chainlib.ChainMessage) []string {
	switch x := m.GetRPCMessage().(type) {
	case *rpcInterfaceMessages.JsonrpcMessage:
		return []string{x.Method}
	case *rpcInterfaceMessages.TendermintrpcMessage:
		return []string{x.Method}
	case *rpcInterfaceMessages.JsonrpcBatchMessage:
		var out []string
		for _, e := range x.GetBatch() {
			out = append(out, e.Method)
		}
		return out
	}
	return nil
}

// checkC38 is the whole oracle; it is shared by the rapid property and the native fuzz targets.
func checkC38(t *c38Target, r c38Req, c *ev.Collector, excluded func(string) bool) c38Result {
	var res c38Result
	res.classes = append(res.classes, "iface="+t.Iface)
	// ---- clause 1: total (consumer side) ----
	c.Clause("consumer-parse-returns-without-panic")
	co := guardedParse(t.consumer, r.URL, r.Data, r.Conn, r.Meta, extensionslib.ExtensionInfo{LatestBlock: r.Latest})
	if co.timedOut {
		res.inconclusive = fmt.Sprintf("consumer ParseMsg did not return within %v for %s", c38Watchdog, r)
		return res
	}
	if co.panicked != nil {
		res.violation = fmt.Sprintf("consumer ParseMsg panicked: %v; request: %s", co.panicked, r)
		return res
	}
	if co.err != nil {
		res.classes = append(res.classes, "parse-error")
		return res
	}
	// ---- clause 2: success yields a supported API with >= 1 CU ----
	c.Clause("success-yields-enabled-api-with-cu>=1")
	if isNilMsg(co.msg) {
		res.violation = fmt.Sprintf("consumer ParseMsg returned neither an error nor a message with an API; request: %s", r)
		return res
	}
	res.parsed = true
	res.classes = append(res.classes, "parsed-ok")
	api := co.msg.GetApi()
	col := co.msg.GetApiCollection()
	if col == nil {
		res.violation = fmt.Sprintf("parsed message has no API collection; request: %s", r)
		return res
	}
	if !api.Enabled || api.ComputeUnits < 1 {
		res.violation = fmt.Sprintf("parsed message has API %q enabled=%v computeUnits=%d; request: %s", api.Name, api.Enabled, api.ComputeUnits, r)
		return res
	}
	mult := uint64(1)
	for _, e := range co.msg.GetExtensions() {
		mult *= e.CuMultiplier
	}
	isBatch := co.msg.IsBatch()
	isDefault := strings.HasPrefix(api.Name, chainlib.DefaultApiName)
	switch {
	case isBatch:
		res.classes = append(res.classes, "batch")
	case isDefault:
		res.classes = append(res.classes, "default-api(unknown method)")
	default:
		c.Clause("api-is-in-the-spec-with-its-cu")
		cu, ok := t.apis[col.CollectionData.Type][api.Name]
		if !ok {
			res.violation = fmt.Sprintf("parsed API %q (connection type %q) is not an enabled API of spec %s/%s; request: %s", api.Name, col.CollectionData.Type, t.Spec, t.Iface, r)
			return res
		}
		if api.ComputeUnits != cu*mult {
			res.violation = fmt.Sprintf("parsed API %q costs %d CU, spec says %d x extension multiplier %d; request: %s", api.Name, api.ComputeUnits, cu, mult, r)
			return res
		}
		res.classes = append(res.classes, "spec-api")
	}
	if len(co.msg.GetExtensions()) > 0 {
		res.classes = append(res.classes, "consumer-chose-archive")
	}
	// ---- clause 3: the provider, honouring the consumer's extensions, agrees ----
	names := []string{}
	for _, e := range co.msg.GetExtensions() {
		names = append(names, e.Name)
	}
	provMeta := co.msg.GetRPCMessage().GetHeaders() // what the consumer puts into RelayData.Metadata
	c.Clause("provider-parse-returns-without-panic")
	po := guardedParse(t.provider, r.URL, r.Data, r.Conn, provMeta, extensionslib.ExtensionInfo{LatestBlock: 0, ExtensionOverride: names})
	if po.timedOut {
		res.inconclusive = fmt.Sprintf("provider ParseMsg did not return within %v for %s", c38Watchdog, r)
		return res
	}
	if po.panicked != nil {
		res.violation = fmt.Sprintf("provider ParseMsg panicked: %v; request: %s (extensions %v)", po.panicked, r, names)
		return res
	}
	skipAgreement := false
	if excluded(findC38EthCall) {
		for _, m := range methodsOf(co.msg) {
			if m == "eth_call" {
				skipAgreement = true
				res.excluded = append(res.excluded, findC38EthCall)
				break
			}
		}
	}
	ambiguous := t.ambiguousRestRoute(r.URL, r.Conn)
	if ambiguous {
		res.classes = append(res.classes, "rest-url-matches-two-routes")
		if excluded(findC38RestAmbiguous) {
			skipAgreement = true
			res.excluded = append(res.excluded, findC38RestAmbiguous)
		}
	}
	if skipAgreement {
		return res
	}
	compare := func(po parseOut) string {
		if po.err != nil || isNilMsg(po.msg) {
			return fmt.Sprintf("consumer parsed the request (API %q, %d CU) but the provider fails on it: %v", api.Name, api.ComputeUnits, po.err)
		}
		papi := po.msg.GetApi()
		cl, ce := co.msg.RequestedBlock()
		pl, pe := po.msg.RequestedBlock()
		caddon := col.CollectionData.AddOn
		paddon := ""
		if pc := po.msg.GetApiCollection(); pc != nil {
			paddon = pc.CollectionData.AddOn
		}
		pcolData, ccolData := "", col.CollectionData.String()
		if pc := po.msg.GetApiCollection(); pc != nil {
			pcolData = pc.CollectionData.String()
		}
		if papi.Name != api.Name || papi.ComputeUnits != api.ComputeUnits || caddon != paddon || cl != pl || ce != pe {
			return fmt.Sprintf("consumer and provider disagree: consumer API=%q CU=%d addon=%q block=(%d,%d) extensions=%v | provider API=%q CU=%d addon=%q block=(%d,%d) extensions=%v",
				api.Name, api.ComputeUnits, caddon, cl, ce, names, papi.Name, papi.ComputeUnits, paddon, pl, pe, extNames(po.msg))
		}
		// "the API" is the whole spec entry (category, block parsing, ...) of one collection (interface, connection type, add-on)
		if papi.String() != api.String() || pcolData != ccolData {
			return fmt.Sprintf("consumer and provider resolve the request to different spec entries: consumer collection {%s} API {%s} | provider collection {%s} API {%s}", ccolData, api.String(), pcolData, papi.String())
		}
		return ""
	}
	c.Clause("provider-agrees-on-api-cu-addon-block")
	res.classes = append(res.classes, "provider-compared")
	if d := compare(po); d != "" {
		res.violation = d + "; request: " + r.String()
		return res
	}
	if ambiguous {
		// the route is resolved per call: repeat so that a disagreement is found (practically) always
		for i := 0; i < 24; i++ {
			po = guardedParse(t.provider, r.URL, r.Data, r.Conn, provMeta, extensionslib.ExtensionInfo{LatestBlock: 0, ExtensionOverride: names})
			if po.timedOut || po.panicked != nil {
				break
			}
			if d := compare(po); d != "" {
				res.violation = d + "; request: " + r.String()
				return res
			}
		}
	}
	return res
}

// ---------------------------------------------------------------------------------------------
// generators: valid requests + structured mutations
// ---------------------------------------------------------------------------------------------

var hostileBlocks = []any{
	"", "0x", "0xzz", "-1", "-0x5", "1e3", "1.5", " latest", "LATEST", "Latest", "\"latest\"", "'latest'", "0b101", "0o17", "017", "1_000", "+5",
	"9223372036854775807", "9223372036854775808", "18446744073709551615", "18446744073709551616", "0x7fffffffffffffff", "0x8000000000000000", "0xffffffffffffffff", "0x10000000000000000",
	"0x" + strings.Repeat("ab", 32), "0x" + strings.Repeat("ab", 32) + "c", "0x" + strings.Repeat("ab", 64), strings.Repeat("ab", 32), "0x" + strings.Repeat("0", 63) + "5",
	"١٢٣", "latest\x00", "ear\nliest", strings.Repeat("9", 400), "validated", "%!s(<nil>)", "-1", "-2", "-3",
	json.Number("1e400"), json.Number("-7"), json.Number("1.5"), json.Number("0"), json.Number("9223372036854775808"), json.Number("1e18"), json.Number("123456789012345678901234567890"),
	true, nil, map[string]any{}, map[string]any{"blockNumber": "0x5"}, map[string]any{"blockHash": "0x" + strings.Repeat("cd", 32)}, []any{}, []any{"0x5"}, []any{[]any{[]any{"latest"}}},
}

var hostileMethods = []any{"", "foo_bar", "eth_call&eth_call", "Default-eth_call", "ETH_CALL", "eth_call ", "eth_subscribe", "eth_unsubscribe", "net_version", strings.Repeat("m", 5000), "méthode", "eth\x00call", json.Number("5"), nil, true, []any{"eth_call"}, map[string]any{}}

// deepValue stands for `leaf` wrapped in `depth` levels of alternating arrays and objects. It is
// marshalled as a short marker string and expanded textually by expandDeep (encoding/json is very
// slow on, and refuses, very deep values).
func deepValue(depth int, leaf string) any {
	return fmt.Sprintf("@@DEEP:%d:%s@@", depth, leaf)
}

var deepRe = regexp.MustCompile(`"@@DEEP:(\d+):([^@"]*)@@"`)

func expandDeep(b []byte) []byte {
	if !strings.Contains(string(b), "@@DEEP:") {
		return b
	}
	expanded := 0
	return deepRe.ReplaceAllFunc(b, func(m []byte) []byte {
		expanded++
		if expanded > 2 { // keep documents small: only the first two markers become deep values
			return []byte(`"0x5"`)
		}
		sub := deepRe.FindSubmatch(m)
		depth := 0
		fmt.Sscanf(string(sub[1]), "%d", &depth)
		var sb strings.Builder
		for i := depth - 1; i >= 0; i-- {
			if i%2 == 0 {
				sb.WriteString("[")
			} else {
				sb.WriteString(`{"a":`)
			}
		}
		sb.WriteString(`"` + string(sub[2]) + `"`)
		for i := 0; i < depth; i++ {
			if i%2 == 0 {
				sb.WriteString("]")
			} else {
				sb.WriteString("}")
			}
		}
		return []byte(sb.String())
	})
}

func genHostileBlock(t *rapid.T) any {
	switch rapid.IntRange(0, 9).Draw(t, "hostileKind") {
	case 0:
		return deepValue(rapid.SampledFrom([]int{3, 50, 1500, 11000}).Draw(t, "depth"), "latest")
	case 1:
		return rapid.StringN(0, 40, -1).Draw(t, "randomString")
	case 2:
		return json.Number(fmt.Sprintf("%d", rapid.Int64().Draw(t, "anyInt")))
	case 3:
		return fmt.Sprintf("0x%x", rapid.Uint64().Draw(t, "anyHex"))
	default:
		return rapid.SampledFrom(hostileBlocks).Draw(t, "hostileBlock")
	}
}

// genEthObject returns one JSON-RPC request object (valid, then possibly mutated at tree level).
func genEthObject(t *rapid.T, id int) map[string]any {
	var m ethMethod
	switch rapid.IntRange(0, 9).Draw(t, "methodClass") {
	case 0, 1:
		m = ethBlockMethods[1]
	case 2, 3, 4, 5:
		m = rapid.SampledFrom(ethBlockMethods).Draw(t, "method")
	case 6:
		m = rapid.SampledFrom(ethAddonBlockMethods).Draw(t, "addonMethod")
	case 7:
		m = rapid.SampledFrom(ethAddonNoBlockMethods).Draw(t, "addonNoBlock")
	default:
		m = rapid.SampledFrom(ethNoBlockMethods).Draw(t, "noBlockMethod")
	}
	var blk any
	if rapid.IntRange(0, 9).Draw(t, "blockKind") < 5 {
		n := rapid.SampledFrom([]uint64{0, 1, 5, 100, 127, 5000, 9_999_990, 10_000_000, 1 << 40}).Draw(t, "blockNum")
		blk = blockReq{Kind: "num", Num: n, Repr: genNumRepr(t, n)}.value()
	} else {
		blk = rapid.SampledFrom(blockTags).Draw(t, "tag")
	}
	obj := map[string]any{"jsonrpc": "2.0", "id": id, "method": m.Name, "params": m.Params(blk)}
	nMut := rapid.SampledFrom([]int{0, 0, 1, 1, 1, 2, 3}).Draw(t, "treeMutations")
	for i := 0; i < nMut; i++ {
		switch rapid.IntRange(0, 12).Draw(t, "treeMutation") {
		case 12: // object-path block parsers (eth_getLogs / eth_newFilter: params[0].toBlock) fed with other shapes
			obj["method"] = rapid.SampledFrom([]string{"eth_getLogs", "eth_getLogs", "eth_newFilter"}).Draw(t, "canonicalMethod")
			hb := genHostileBlock(t)
			obj["params"] = rapid.SampledFrom([]any{[]any{"latest"}, []any{json.Number("5")}, []any{nil}, []any{true}, []any{[]any{"toBlock"}}, []any{[]any{map[string]any{"toBlock": "0x5"}}},
				[]any{[]any{}}, map[string]any{"toBlock": "0x5"}, map[string]any{"toBlock": hb}, map[string]any{"0": map[string]any{"toBlock": "0x1"}}, map[string]any{"toBlock": map[string]any{"toBlock": "0x1"}},
				"latest", []any{map[string]any{"toBlock": hb}}, []any{map[string]any{"fromBlock": "0x1"}}, []any{map[string]any{"toBlock": nil}}, []any{map[string]any{}, "0x5"}, []any{"0x5", map[string]any{"toBlock": "0x9"}}}).Draw(t, "canonicalParams")
		case 0, 1, 2, 3: // hostile block value in the block position
			obj["params"] = m.Params(genHostileBlock(t))
		case 4:
			obj["method"] = rapid.SampledFrom(hostileMethods).Draw(t, "hostileMethod")
		case 5: // params of another shape
			obj["params"] = rapid.SampledFrom([]any{nil, map[string]any{}, map[string]any{"0": "latest", "1": "0x5", "toBlock": "0x5", "height": "7"}, "latest", json.Number("5"), []any{}, []any{nil}, []any{"0x5"},
				[]any{map[string]any{"toBlock": map[string]any{"x": 1}}}, []any{map[string]any{"toBlock": []any{"0x5"}}}, true}).Draw(t, "paramsShape")
		case 6:
			if ps, ok := obj["params"].([]any); ok && len(ps) > 0 { // drop / duplicate / extend params
				switch rapid.IntRange(0, 2).Draw(t, "arity") {
				case 0:
					obj["params"] = ps[:len(ps)-1]
				case 1:
					obj["params"] = append(append([]any{}, ps...), ps...)
				default:
					big := make([]any, 0, 3000)
					for len(big) < 3000 {
						big = append(big, ps...)
					}
					obj["params"] = big
				}
			}
		case 7:
			obj["id"] = rapid.SampledFrom([]any{nil, "abc", json.Number("1.5"), map[string]any{"a": 1}, []any{1}, strings.Repeat("9", 100), true, ""}).Draw(t, "id")
		case 8:
			delete(obj, rapid.SampledFrom([]string{"jsonrpc", "id", "method", "params"}).Draw(t, "dropKey"))
		case 9:
			obj[rapid.SampledFrom([]string{"error", "result", "Method", "METHOD", "params ", "extra"}).Draw(t, "extraKey")] = rapid.SampledFrom([]any{nil, "x", map[string]any{"code": -32000, "message": "boom"}, []any{1, 2}, json.Number("3")}).Draw(t, "extraVal")
		case 10:
			obj["jsonrpc"] = rapid.SampledFrom([]any{"1.0", "", json.Number("2"), nil, "2.0 "}).Draw(t, "version")
		default:
			obj["params"] = deepValue(rapid.SampledFrom([]int{20, 1500, 11000}).Draw(t, "paramsDepth"), "0x5")
		}
	}
	return obj
}

func mutateText(t *rapid.T, b []byte) []byte {
	nMut := rapid.SampledFrom([]int{0, 0, 0, 1, 1, 2}).Draw(t, "textMutations")
	for i := 0; i < nMut; i++ {
		switch rapid.IntRange(0, 9).Draw(t, "textMutation") {
		case 0: // truncate
			if len(b) > 0 {
				b = b[:rapid.IntRange(0, len(b)-1).Draw(t, "cut")]
			}
		case 1: // delete one byte
			if len(b) > 0 {
				p := rapid.IntRange(0, len(b)-1).Draw(t, "del")
				b = append(append([]byte{}, b[:p]...), b[p+1:]...)
			}
		case 2: // insert a hostile token
			tok := rapid.SampledFrom([]string{"\x00", "\xff\xfe", "\"", "\\", "[", "]", "{", "}", ",", ":", "null", "1e999", " ", "\\u0000", "\\ud800", "/*x*/", "\n", "\t", " ", "'", "-", "0x"}).Draw(t, "token")
			p := rapid.IntRange(0, len(b)).Draw(t, "ins")
			b = append(append(append([]byte{}, b[:p]...), tok...), b[p:]...)
		case 3: // duplicate a slice
			if len(b) > 1 {
				a := rapid.IntRange(0, len(b)-1).Draw(t, "dupFrom")
				z := rapid.IntRange(a, len(b)).Draw(t, "dupTo")
				b = append(append(append([]byte{}, b[:z]...), b[a:z]...), b[z:]...)
			}
		case 4: // prefix
			b = append([]byte(rapid.SampledFrom([]string{"\xef\xbb\xbf", " \n\t", "\xef\xbb\xbf\xef\xbb\xbf", "\x00", "//c\n", ")]}'\n", "\xfe\xff"}).Draw(t, "prefix")), b...)
		case 5: // suffix
			b = append(b, rapid.SampledFrom([]string{" ", "\n", ",", "]", "}", "{}", "[]", "null", "\x00", "garbage"}).Draw(t, "suffix")...)
		case 6: // flip one byte
			if len(b) > 0 {
				p := rapid.IntRange(0, len(b)-1).Draw(t, "flip")
				b = append([]byte{}, b...)
				b[p] ^= byte(rapid.SampledFrom([]int{1, 0x20, 0x80, 0xff}).Draw(t, "flipMask"))
			}
		case 7: // quotes
			b = []byte(strings.ReplaceAll(string(b), "\"", "'"))
		case 8: // wrap
			b = append(append([]byte(rapid.SampledFrom([]string{"[", "[[", "{\"a\":", "\""}).Draw(t, "wrapL")), b...), rapid.SampledFrom([]string{"]", "]]", "}", "\""}).Draw(t, "wrapR")...)
		default: // replace all by something tiny
			b = []byte(rapid.SampledFrom([]string{"", " ", "[]", "{}", "[[]]", "[{}]", "[null]", "[1]", "null", "0", "\"\"", "true", "[,]", "{", "[", "\xef\xbb\xbf", "[{\"method\":5}]", "{\"method\":null}", "{\"params\":[]}"}).Draw(t, "tiny"))
		}
	}
	return b
}

func genJSONRPCBody(t *rapid.T, obj func(id int) map[string]any) []byte {
	var v any
	switch rapid.IntRange(0, 9).Draw(t, "shape") {
	case 0, 1, 2, 3, 4:
		v = obj(1)
	default:
		n := rapid.SampledFrom([]int{0, 1, 2, 2, 3, 4, 6}).Draw(t, "batchLen")
		arr := make([]any, 0, n)
		for i := 0; i < n; i++ {
			if rapid.IntRange(0, 19).Draw(t, "batchElem") == 0 {
				arr = append(arr, rapid.SampledFrom([]any{nil, json.Number("1"), "x", []any{}, map[string]any{}, []any{obj(9)}}).Draw(t, "oddElem"))
			} else {
				arr = append(arr, obj(i+1))
			}
		}
		v = arr
	}
	b, err := json.Marshal(v)
	if err != nil {
		b = []byte("{}")
	}
	b = mutateText(t, expandDeep(b))
	if len(b) > c38MaxBody {
		b = b[:c38MaxBody] // request bodies are kept below 256 KiB (a cut is one more truncation)
	}
	return b
}

func genLatest(t *rapid.T) uint64 {
	switch rapid.IntRange(0, 4).Draw(t, "latestClass") {
	case 0:
		return 0
	case 1:
		return uint64(rapid.IntRange(1, 300).Draw(t, "latestSmall"))
	default:
		return rapid.SampledFrom([]uint64{5000, 10_000_000, 10_000_100, 1 << 41}).Draw(t, "latestBig")
	}
}

func genMeta(t *rapid.T, tg *c38Target) []pairingtypes.Metadata {
	if rapid.IntRange(0, 9).Draw(t, "withMeta") < 6 {
		return nil
	}
	var out []pairingtypes.Metadata
	n := rapid.IntRange(1, 3).Draw(t, "metaN")
	for i := 0; i < n; i++ {
		name := "x-random-header"
		if len(tg.headers) > 0 && rapid.IntRange(0, 3).Draw(t, "knownHeader") > 0 {
			name = rapid.SampledFrom(tg.headers).Draw(t, "headerName")
			if rapid.Bool().Draw(t, "upperHeader") {
				name = strings.ToUpper(name)
			}
		}
		val := rapid.SampledFrom([]string{"5", "100", "9999990", "0", "latest", "earliest", "", "-1", "0x10", "abc", "18446744073709551616", " 7", "7,8", strings.Repeat("1", 300)}).Draw(t, "headerValue")
		out = append(out, pairingtypes.Metadata{Name: name, Value: val})
	}
	return out
}

var pathFills = []string{"1", "5", "100", "9999990", "latest", "earliest", "0", "-1", "", "lava@1xyz", "cosmos1qqqq", "a b", "%20", "%2F", "%zz", "..", ".", "a/b", "x?y=1", "{height}", "é", "0x10", "18446744073709551616", strings.Repeat("7", 200)}

var paramRe = regexp.MustCompile(`{[^}]+}`)

func genRestURL(t *rapid.T, tg *c38Target, conn string) string {
	names := tg.apiNames[conn]
	var u string
	if len(names) == 0 || rapid.IntRange(0, 19).Draw(t, "unknownRoute") == 0 {
		u = rapid.SampledFrom([]string{"/", "", "/unknown/route", "/cosmos", "cosmos/bank/v1beta1/params", "//", "/cosmos/bank/v1beta1/params/", "/COSMOS/BANK/V1BETA1/PARAMS"}).Draw(t, "oddRoute")
	} else {
		name := rapid.SampledFrom(names).Draw(t, "route")
		if rapid.IntRange(0, 3).Draw(t, "sharedRoute") == 0 { // favour routes the spec defines under several connection types
			var shared []string
			for _, n := range names {
				for ct, m := range tg.apis {
					if _, ok := m[n]; ok && ct != conn {
						shared = append(shared, n)
						break
					}
				}
			}
			if len(shared) > 0 {
				name = rapid.SampledFrom(shared).Draw(t, "sharedRouteName")
			}
		} else if rapid.IntRange(0, 3).Draw(t, "blockRoute") == 0 { // favour routes that carry a height
			var hs []string
			for _, n := range names {
				if strings.Contains(n, "height}") || strings.Contains(n, "{block}") {
					hs = append(hs, n)
				}
			}
			if len(hs) > 0 {
				name = rapid.SampledFrom(hs).Draw(t, "heightRoute")
			}
		}
		u = paramRe.ReplaceAllStringFunc(name, func(string) string { return rapid.SampledFrom(pathFills).Draw(t, "fill") })
	}
	if rapid.IntRange(0, 9).Draw(t, "withQuery") < 4 {
		q := rapid.SampledFrom([]string{"?height=5", "?height=latest", "?height=", "?height=5&height=6", "?pagination.limit=5", "?block=7", "?a=%zz", "?a;b", "?", "#frag", "?height=9999990&x=1", "?%", "?height=-1", "?height=0x5"}).Draw(t, "query")
		u += q
	}
	nMut := rapid.SampledFrom([]int{0, 0, 0, 1, 1, 2}).Draw(t, "urlMutations")
	for i := 0; i < nMut; i++ {
		switch rapid.IntRange(0, 7).Draw(t, "urlMutation") {
		case 0:
			if len(u) > 0 {
				u = u[:rapid.IntRange(0, len(u)-1).Draw(t, "cut")]
			}
		case 1:
			p := rapid.IntRange(0, len(u)).Draw(t, "ins")
			u = u[:p] + rapid.SampledFrom([]string{"/", "//", "%", "%00", "\x00", "\n", " ", "\x7f", "?", "#", ":", "@", "\\", "é", "%c3%28", "{", "}", "*", "+"}).Draw(t, "urlToken") + u[p:]
		case 2:
			u = rapid.SampledFrom([]string{"http://host", "https://u:p@host:1", "//host", "host:80", ":", "http://[::1", "file://"}).Draw(t, "urlPrefix") + u
		case 3:
			u = strings.ToUpper(u)
		case 4:
			u += "/"
		case 5:
			u = strings.Replace(u, "/", "//", 1)
		case 6:
			u = strings.Repeat(u, rapid.IntRange(2, 40).Draw(t, "repeat"))
		default:
			u = rapid.StringN(0, 30, -1).Draw(t, "randomURL")
		}
	}
	return u
}

var tmMethods = []string{"block", "block_results", "commit", "consensus_params", "validators", "header", "abci_query", "blockchain", "status", "health", "tx", "check_tx", "block_search", "subscribe", "unsubscribe_all", "abci_info", "unknown_method", ""}

func genTendermintObject(t *rapid.T, id int) map[string]any {
	m := rapid.SampledFrom(tmMethods).Draw(t, "tmMethod")
	var h any = rapid.SampledFrom([]any{"5", "100", "9999990", "0", "latest", "", json.Number("7"), "0x10", "-1", nil}).Draw(t, "height")
	var params any
	switch rapid.IntRange(0, 5).Draw(t, "tmParams") {
	case 0:
		params = map[string]any{"height": h}
	case 1:
		params = []any{h}
	case 2:
		params = map[string]any{"path": "/a", "data": "00", "height": h, "prove": false}
	case 3:
		params = []any{"/a", "00", h, false}
	case 4:
		params = map[string]any{"minHeight": "1", "maxHeight": h}
	default:
		params = []any{}
	}
	obj := map[string]any{"jsonrpc": "2.0", "id": id, "method": m, "params": params}
	nMut := rapid.SampledFrom([]int{0, 0, 1, 1, 2}).Draw(t, "treeMutations")
	for i := 0; i < nMut; i++ {
		switch rapid.IntRange(0, 5).Draw(t, "treeMutation") {
		case 0, 1:
			hb := genHostileBlock(t)
			if rapid.Bool().Draw(t, "asMap") {
				obj["params"] = map[string]any{"height": hb}
			} else {
				obj["params"] = []any{hb}
			}
		case 2:
			obj["method"] = rapid.SampledFrom(hostileMethods).Draw(t, "hostileMethod")
		case 3:
			obj["params"] = rapid.SampledFrom([]any{nil, "5", json.Number("5"), true, map[string]any{"height": map[string]any{}}, map[string]any{"height": []any{"5"}}, []any{nil}, deepValue(1500, "5")}).Draw(t, "paramsShape")
		case 4:
			delete(obj, rapid.SampledFrom([]string{"jsonrpc", "id", "method", "params"}).Draw(t, "dropKey"))
		default:
			obj["error"] = map[string]any{"code": 1, "message": "x"}
		}
	}
	return obj
}

func genTendermintURI(t *rapid.T) string {
	m := rapid.SampledFrom(tmMethods).Draw(t, "tmMethod")
	u := m
	if rapid.Bool().Draw(t, "leadingSlash") {
		u = "/" + u
	}
	q := rapid.SampledFrom([]string{"", "?height=5", "?height=9999990", "?height=latest", "?height=", "?height=0", "?height=5&height=6", "?height=\"5\"", "?path=\"/a\"&data=0x00&height=7&prove=false", "?minHeight=1&maxHeight=20", "?height=%zz", "?height=-1", "?height=0x10", "?HEIGHT=5", "?height=18446744073709551616", "?a;b=1"}).Draw(t, "query")
	u += q
	if rapid.IntRange(0, 5).Draw(t, "mutURI") == 0 {
		p := rapid.IntRange(0, len(u)).Draw(t, "ins")
		u = u[:p] + rapid.SampledFrom([]string{"\x00", "%", " ", "\n", "//", "#", "é", ":", "http://h/"}).Draw(t, "urlToken") + u[p:]
	}
	return u
}

func protoVarintField(field int, v uint64) []byte {
	out := []byte{byte(field<<3 | 0)}
	for v >= 0x80 {
		out = append(out, byte(v)|0x80)
		v >>= 7
	}
	return append(out, byte(v))
}

func genGrpc(t *rapid.T, tg *c38Target) (string, []byte) {
	names := tg.apiNames[""]
	var u string
	switch k := rapid.IntRange(0, 9).Draw(t, "grpcRoute"); {
	case k <= 3 && len(names) > 0:
		var hs []string
		for _, n := range names {
			if strings.Contains(n, "Height") || strings.Contains(n, "Historical") || strings.Contains(n, "VerifyPairing") || strings.Contains(n, "UpgradedConsensusState") || strings.Contains(n, "GetTx") {
				hs = append(hs, n)
			}
		}
		if len(hs) == 0 {
			hs = names
		}
		u = rapid.SampledFrom(hs).Draw(t, "heightRoute")
	case k <= 7 && len(names) > 0:
		u = rapid.SampledFrom(names).Draw(t, "route")
	default:
		u = rapid.SampledFrom([]string{"", "/", "foo.bar/Baz", "cosmos.base.tendermint.v1beta1.Service", "cosmos.base.tendermint.v1beta1.Service/", "/cosmos.base.tendermint.v1beta1.Service/GetBlockByHeight", "cosmos.base.tendermint.v1beta1.GetBlockByHeightRequest",
			"cosmos.base.tendermint.v1beta1.Service.GetBlockByHeight", "cosmos/base/tendermint/v1beta1/Service/GetBlockByHeight", "a/b/c", "é/ü", strings.Repeat("a.", 300) + "/X"}).Draw(t, "oddRoute")
	}
	if rapid.IntRange(0, 9).Draw(t, "mutRoute") == 0 && len(u) > 0 {
		p := rapid.IntRange(0, len(u)).Draw(t, "ins")
		u = u[:p] + rapid.SampledFrom([]string{"/", ".", "\x00", " ", "x"}).Draw(t, "routeToken") + u[p:]
	}
	var data []byte
	switch rapid.IntRange(0, 9).Draw(t, "grpcBody") {
	case 0:
		data = nil
	case 1, 2:
		h := rapid.SampledFrom([]any{"5", "100", "9999990", "0", "latest", "", json.Number("7"), "-1", nil, map[string]any{}, genHostileBlock(t)}).Draw(t, "height")
		b, err := json.Marshal(map[string]any{"height": h, "block": h, "last_height": h, "hash": strings.Repeat("AB", 32)})
		if err != nil {
			b = []byte("{}")
		}
		data = expandDeep(b)
	case 3:
		b, err := json.Marshal([]any{rapid.SampledFrom([]any{"5", "latest", json.Number("9999990"), nil}).Draw(t, "arrHeight")})
		if err != nil {
			b = []byte("[]")
		}
		data = b
	case 4, 5, 6:
		data = protoVarintField(rapid.IntRange(1, 4).Draw(t, "field"), rapid.SampledFrom([]uint64{0, 5, 100, 9_999_990, 1 << 40, 1<<63 - 1, 1 << 63, 1<<64 - 1}).Draw(t, "varint"))
		if rapid.Bool().Draw(t, "appendString") {
			data = append(data, 0x12, 0x03, 'a', 'b', 'c')
		}
	case 7:
		data = rapid.SliceOfN(rapid.Byte(), 0, 40).Draw(t, "randomBytes")
	default:
		data = []byte(rapid.SampledFrom([]string{"{", "[", "{\"height\":", "{}", "[]", "[[[[", "{\"height\":\"5\"}garbage", "\x00", "\xff\xff\xff\xff\xff\xff\xff\xff\xff\xff\xff", "\x0a\xff\xff\xff\xff\x0f"}).Draw(t, "oddBody"))
	}
	return u, mutateTextLight(t, data)
}

func mutateTextLight(t *rapid.T, b []byte) []byte {
	if rapid.IntRange(0, 9).Draw(t, "lightMut") > 1 || len(b) == 0 {
		return b
	}
	p := rapid.IntRange(0, len(b)-1).Draw(t, "pos")
	if rapid.Bool().Draw(t, "cutOrFlip") {
		return b[:p]
	}
	c := append([]byte{}, b...)
	c[p] ^= 0x81
	return c
}

type c38Plan struct {
	spec, iface string
}

var c38Plans = []c38Plan{
	{"ETH1", spectypes.APIInterfaceJsonRPC}, {"ETH1", spectypes.APIInterfaceJsonRPC}, {"ETH1", spectypes.APIInterfaceJsonRPC},
	{"LAV1", spectypes.APIInterfaceRest}, {"COSMOSHUB", spectypes.APIInterfaceRest},
	{"LAV1", spectypes.APIInterfaceTendermintRPC}, {"COSMOSHUB", spectypes.APIInterfaceTendermintRPC}, {"LAV1", spectypes.APIInterfaceTendermintRPC},
	{"LAV1", spectypes.APIInterfaceGrpc}, {"COSMOSHUB", spectypes.APIInterfaceGrpc},
}

func genC38(t *rapid.T) (*c38Target, c38Req, string) {
	return genC38Plan(t, rapid.SampledFrom(c38Plans).Draw(t, "target"))
}

func genC38Plan(t *rapid.T, plan c38Plan) (*c38Target, c38Req, string) {
	tg, err := c38Target_(plan.spec, plan.iface)
	if err != nil {
		t.Fatalf("%s", ev.HarnessError("cannot build %s/%s parsers: %v", plan.spec, plan.iface, err))
	}
	r := c38Req{Spec: plan.spec, Iface: plan.iface, Latest: genLatest(t)}
	form := ""
	switch plan.iface {
	case spectypes.APIInterfaceJsonRPC:
		r.Conn = rapid.SampledFrom([]string{"POST", "POST", "POST", "POST", "POST", "POST", "POST", "GET", "", "post"}).Draw(t, "connType")
		r.URL = rapid.SampledFrom([]string{"", "", "", "", "", "", "/", "/ws", "/x?y=1", "%zz"}).Draw(t, "url")
		r.Data = genJSONRPCBody(t, func(id int) map[string]any { return genEthObject(t, id) })
		form = "jsonrpc"
	case spectypes.APIInterfaceRest:
		r.Conn = rapid.SampledFrom([]string{"GET", "GET", "GET", "GET", "GET", "GET", "POST", "POST", "PUT", ""}).Draw(t, "connType")
		r.URL = genRestURL(t, tg, r.Conn)
		if r.Conn == "POST" || rapid.IntRange(0, 9).Draw(t, "bodyOnGet") == 0 {
			r.Data = mutateText(t, []byte(rapid.SampledFrom([]string{`{"tx_bytes":"AAAA","mode":"BROADCAST_MODE_SYNC"}`, `{"tx":{"body":{}}}`, `{}`, ``, `[]`, `{"height":"5"}`}).Draw(t, "restBody")))
		}
		r.Meta = genMeta(t, tg)
		form = "rest"
	case spectypes.APIInterfaceTendermintRPC:
		r.Conn = rapid.SampledFrom([]string{"", "", "", "", "", "", "GET", "POST"}).Draw(t, "connType")
		switch rapid.IntRange(0, 9).Draw(t, "tmForm") {
		case 0, 1, 2, 3:
			r.URL = genTendermintURI(t)
			form = "tendermint-uri"
		case 9:
			r.URL = genTendermintURI(t)
			r.Data = genJSONRPCBody(t, func(id int) map[string]any { return genTendermintObject(t, id) })
			form = "tendermint-uri+body"
		default:
			r.Data = genJSONRPCBody(t, func(id int) map[string]any { return genTendermintObject(t, id) })
			form = "tendermint-jsonrpc"
		}
		r.Meta = genMeta(t, tg)
	case spectypes.APIInterfaceGrpc:
		r.Conn = rapid.SampledFrom([]string{"", "", "", "", "", "", "", "GET", "POST"}).Draw(t, "connType")
		r.URL, r.Data = genGrpc(t, tg)
		r.Meta = genMeta(t, tg)
		form = "grpc"
	}
	if utf8.Valid(r.Data) {
		r.DataS = string(r.Data)
	} else {
		r.DataS = fmt.Sprintf("%q", r.Data)
	}
	return tg, r, form
}

func propC38(t *rapid.T) {
	c := ev.For("C38")
	plan := rapid.SampledFrom(c38Plans).Draw(t, "target")
	tg, r, form := genC38Plan(t, plan)
	var extraClasses []string
	// 1 case in 4 (not gRPC, whose parser needs a reflection server): parsing must be a function of
	// the request, not of what a parser instance parsed before. The consumer is a NEW parser that
	// first parses 1-2 other requests (the same request under another connection type, or another
	// generated request); the provider is a NEW, unused parser.
	if plan.iface != spectypes.APIInterfaceGrpc && rapid.IntRange(0, 3).Draw(t, "freshParsers") == 0 {
		spec, err := loadSpec(plan.spec)
		if err != nil {
			t.Fatalf("%s", ev.HarnessError("cannot load spec %s: %v", plan.spec, err))
		}
		cp := *tg
		if cp.consumer, err = newParser(spec, plan.iface); err != nil {
			t.Fatalf("%s", ev.HarnessError("cannot build parser: %v", err))
		}
		if cp.provider, err = newParser(spec, plan.iface); err != nil {
			t.Fatalf("%s", ev.HarnessError("cannot build parser: %v", err))
		}
		n := rapid.IntRange(1, 2).Draw(t, "warmups")
		for i := 0; i < n; i++ {
			wr := r
			if rapid.IntRange(0, 2).Draw(t, "warmupKind") < 2 {
				var others []string
				for _, ct := range []string{"GET", "POST", "PUT", "DELETE", ""} {
					if ct != r.Conn {
						others = append(others, ct)
					}
				}
				wr.Conn = rapid.SampledFrom(others).Draw(t, "warmupConn")
				extraClasses = append(extraClasses, "warm-up:same-request-other-connection-type")
			} else {
				_, wr, _ = genC38Plan(t, plan)
				extraClasses = append(extraClasses, "warm-up:other-request")
			}
			wo := guardedParse(cp.consumer, wr.URL, wr.Data, wr.Conn, wr.Meta, extensionslib.ExtensionInfo{LatestBlock: wr.Latest})
			if wo.timedOut {
				t.Fatalf("%s", ev.HarnessError("warm-up ParseMsg did not return within %v for %s", c38Watchdog, wr))
			}
		}
		tg = &cp
		extraClasses = append(extraClasses, "fresh-parsers-with-warm-up")
	}
	res := checkC38(tg, r, c, ev.Excluded)
	res.classes = append(res.classes, extraClasses...)
	for _, x := range res.excluded {
		c.Exclude(x)
	}
	classes := append(res.classes, "form="+form)
	c.Case(res.parsed, fmt.Sprintf("%s|%s|%s|%q|%s|%v|%d", r.Spec, r.Iface, r.URL, r.Data, r.Conn, r.Meta, r.Latest), classes...)
	if res.parsed {
		c.Sample(r)
	}
	if res.inconclusive != "" {
		t.Fatalf("%s", ev.HarnessError("%s", res.inconclusive))
	}
	if res.violation != "" {
		t.Fatalf("%s", ev.Violation("C38", "%s", res.violation))
	}
}

func c38Warmup() error {
	for _, p := range c38Plans {
		if _, err := c38Target_(p.spec, p.iface); err != nil {
			return fmt.Errorf("%s/%s: %w", p.spec, p.iface, err)
		}
	}
	return nil
}

func TestC38(t *testing.T) {
	c := ev.For("C38")
	c.SetRule("requests for 7 (spec, interface) pairs built from the checked-in specs - ETH1 JSON-RPC (single and batch), LAV1/COSMOSHUB REST (GET/POST routes of the spec with filled path parameters and query strings), Tendermint RPC (URI form, JSON-RPC form, both) and gRPC (JSON, protobuf, empty and garbage bodies; parser wired to a local reflection server as providers do) - start from a valid request and get 0-3 structured mutations at JSON-tree level (hostile block values: huge/negative/float/exponent numbers, hashes, odd tags, deep nesting up to 11000 levels, other types; unknown/odd methods; params of other shapes and arities; ids, versions, extra keys; odd batch elements) plus 0-2 text-level mutations (truncate, delete, insert tokens, duplicate, BOM/prefix, suffix, byte flip, quote change, wrap, tiny documents) or URL mutations (cut, control characters, bad escapes, prefixes, case, repeats), optional spec headers (x-cosmos-block-height ...) with odd values, odd connection types, consumer latest block in {0, small, large}. Each is parsed as the consumer under recover+120s watchdog, then, if it parsed, as the provider does (metadata = the consumer message's headers, ExtensionOverride = the consumer message's extension names, LatestBlock 0) by an independent parser instance; in 1 case in 4 (not gRPC) both parsers are new instances and the consumer's first parses 1-2 other requests (the same request under another connection type, or another generated request): the result may not depend on a parser's earlier requests; agreement covers the whole spec entry of the API and its collection (interface, connection type, add-on). non-trivial = the consumer parse succeeded; distinct = whole request")
	c.Assume("the consumer's policy and the provider's endpoint allow all add-ons and the archive extension",
		"an unknown method/route that the parser maps to its 'Default-' API (20 CU) counts as a supported API; for spec APIs the name must be an enabled API of the spec and cost the spec's CU times the extension multiplier",
		"a call that does not return within 120 s is inconclusive, not a violation",
		"the gRPC parsers resolve protobuf descriptors through server reflection of a local in-process gRPC server (chainlib.CreateChainLibMocks), as a provider does against its node")
	if err := c38Warmup(); err != nil {
		t.Fatalf("%s", ev.HarnessError("cannot build parsers: %v", err))
	}
	rapid.Check(t, propC38)
}

// ---- known-finding witnesses ----

func TestC38Known_EthCallProviderArchive(t *testing.T) {
	tg, err := c38Target_("ETH1", spectypes.APIInterfaceJsonRPC)
	if err != nil {
		t.Fatalf("%s", ev.HarnessError("%v", err))
	}
	body := singleBody(rpcMember{M: ethBlockMethods[1], ID: 1, Blk: numBlk(9_999_990)})
	r := c38Req{Spec: "ETH1", Iface: tg.Iface, Data: body, Conn: "POST", Latest: 10_000_000}
	res := checkC38(tg, r, ev.For("C38"), func(string) bool { return false })
	if res.violation != "" {
		t.Fatalf("%s", ev.Violation("C38", "known finding %s: %s", findC38EthCall, res.violation))
	}
	if res.inconclusive != "" || !res.parsed {
		t.Fatalf("%s", ev.HarnessError("witness did not parse: %+v", res))
	}
}

func TestC38Known_RestAmbiguousRoute(t *testing.T) {
	tg, err := c38Target_("LAV1", spectypes.APIInterfaceRest)
	if err != nil {
		t.Fatalf("%s", ev.HarnessError("%v", err))
	}
	r := c38Req{Spec: "LAV1", Iface: tg.Iface, URL: "/cosmos/base/tendermint/v1beta1/blocks/latest", Conn: "GET", Latest: 10_000_000}
	if !tg.ambiguousRestRoute(r.URL, r.Conn) {
		t.Fatalf("%s", ev.HarnessError("witness URL is not ambiguous in this spec any more"))
	}
	res := checkC38(tg, r, ev.For("C38"), func(string) bool { return false })
	if res.violation != "" {
		t.Fatalf("%s", ev.Violation("C38", "known finding %s: %s", findC38RestAmbiguous, res.violation))
	}
	if res.inconclusive != "" || !res.parsed {
		t.Fatalf("%s", ev.HarnessError("witness did not parse: %+v", res))
	}
}
