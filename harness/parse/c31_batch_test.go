package parse

import (
	"fmt"
	"sort"
	"strings"
	"testing"

	"github.com/lavanet/lava/v5/protocol/chainlib"
	"github.com/lavanet/lava/v5/protocol/chainlib/extensionslib"
	spectypes "github.com/lavanet/lava/v5/x/spec/types"
	"pgregory.net/rapid"

	"verifharness/internal/ev"
)

// ---- C31: JSON-RPC batch requests are summarised order-independently --------------------------

const (
	// the first member's block never enters the batch's earliest block (it starts at 0 = "unset")
	findC31First = "c31-first-member-earliest"
	// a member without a block (NOT_APPLICABLE) erases the earliest block of the whole batch
	findC31NA = "c31-not-applicable-member"
	// block number 0 is also the "unset" marker
	findC31Zero = "c31-block-zero"
	// 'earliest' (-3) outranks pending/safe/finalized (-4..-6) when two tags are combined for the latest block
	findC31Rank = "c31-earliest-tag-rank"
)

type soloInfo struct {
	block   int64
	cuBase  uint64
	archive bool
}

type batchSummary struct {
	latest, earliest int64
	cu               uint64
	archive          bool
	mult             uint64
}

func parseBatchC31(p chainlib.ChainParser, ms []rpcMember, latest uint64, none bool) (batchSummary, error) {
	info := extensionslib.ExtensionInfo{LatestBlock: latest}
	if none {
		info.ExtensionOverride = []string{}
	}
	msg, err := p.ParseMsg("", batchBody(ms), "POST", nil, info)
	if err != nil {
		return batchSummary{}, err
	}
	l, e := msg.RequestedBlock()
	s := batchSummary{latest: l, earliest: e, cu: msg.GetApi().ComputeUnits, archive: hasArchive(msg), mult: 1}
	for _, x := range msg.GetExtensions() {
		s.mult *= x.CuMultiplier
	}
	return s, nil
}

// parseSoloC31 parses one member alone. `note` is non-empty when the result is not what the generator
// expects of a valid single request (range instead of one block, CU differing from the spec): that is
// reported as a harness problem only if no clause of the property fails (see checkBatchC31).
func parseSoloC31(p chainlib.ChainParser, m rpcMember, latest uint64) (si soloInfo, note string, err error) {
	body := singleBody(m)
	auto, err := p.ParseMsg("", body, "POST", nil, extensionslib.ExtensionInfo{LatestBlock: latest})
	if err != nil {
		return soloInfo{}, "", err
	}
	l, e := auto.RequestedBlock()
	if l != e || l != m.wantBlock() {
		note = fmt.Sprintf("member %s alone reports requested block (%d,%d), generator expects %d", m, l, e, m.wantBlock())
	}
	mult := uint64(1)
	for _, x := range auto.GetExtensions() {
		mult *= x.CuMultiplier
	}
	// m.M.CU is the method's compute units in the spec file (checked against the loaded spec in TestC31)
	if got := auto.GetApi().ComputeUnits; got != m.M.CU*mult {
		note = fmt.Sprintf("member %s alone costs %d CU, spec says %d x extension multiplier %d", m, got, m.M.CU, mult)
	}
	return soloInfo{block: m.wantBlock(), cuBase: m.M.CU, archive: hasArchive(auto)}, note, nil
}

func isHeadTag(b int64) bool {
	return b == spectypes.LATEST_BLOCK || b == spectypes.PENDING_BLOCK || b == spectypes.SAFE_BLOCK || b == spectypes.FINALIZED_BLOCK
}

func membersString(ms []rpcMember) string {
	s := make([]string, len(ms))
	for i, m := range ms {
		s[i] = m.String()
	}
	return "[" + strings.Join(s, ", ") + "]"
}

// checkBatchC31 evaluates all clauses of the property on one batch and the given permutations
// (index slices). skipEarliestSide disables the clauses that read the summarised earliest block
// (known finding c31-first-member-earliest) for batches whose members ask for different blocks.
func checkBatchC31(p chainlib.ChainParser, ms []rpcMember, latest uint64, perms [][]int, skipEarliestSide bool, c *ev.Collector) (viol string, harness string, skipped bool) {
	n := len(ms)
	solos := make([]soloInfo, n)
	softNote := ""
	defer func() {
		if viol == "" && harness == "" && softNote != "" {
			harness = softNote // nothing of the property failed, but the fixture is not what the generator assumes
		}
	}()
	var sumBase uint64
	anyArchive := false
	hetero := false
	for i, m := range ms {
		si, note, err := parseSoloC31(p, m, latest)
		if err != nil {
			return "", fmt.Sprintf("member %s does not parse alone: %v", m, err), false
		}
		if note != "" {
			softNote = note
		}
		solos[i] = si
		sumBase += si.cuBase
		anyArchive = anyArchive || si.archive
		if si.block != solos[0].block {
			hetero = true
		}
	}
	skipE := skipEarliestSide && hetero
	var first batchSummary
	desc := func(perm []int) string {
		o := make([]rpcMember, n)
		for i, j := range perm {
			o[i] = ms[j]
		}
		return membersString(o)
	}
	for pi, perm := range perms {
		ordered := make([]rpcMember, n)
		for i, j := range perm {
			ordered[i] = ms[j]
		}
		b, err := parseBatchC31(p, ordered, latest, false)
		if err != nil {
			return "", fmt.Sprintf("batch %s of individually valid members does not parse: %v", desc(perm), err), false
		}
		if pi == 0 {
			first = b
		}
		c.Clause("cu-is-sum-of-members")
		if b.cu != sumBase*b.mult {
			return fmt.Sprintf("batch %s latest=%d: compute units %d, want sum of members %d x extension multiplier %d", desc(perm), latest, b.cu, sumBase, b.mult), "", false
		}
		c.Clause("latest-order-independent")
		if b.latest != first.latest {
			return fmt.Sprintf("summarised latest block depends on the order: %s -> (%d,%d) but %s -> (%d,%d)", desc(perms[0]), first.latest, first.earliest, desc(perm), b.latest, b.earliest), "", false
		}
		if !skipE {
			c.Clause("earliest-order-independent")
			if b.earliest != first.earliest {
				return fmt.Sprintf("summarised earliest block depends on the order: %s -> (%d,%d) but %s -> (%d,%d)", desc(perms[0]), first.latest, first.earliest, desc(perm), b.latest, b.earliest), "", false
			}
			c.Clause("archive-order-independent")
			if b.archive != first.archive {
				return fmt.Sprintf("archive requirement depends on the order (latest block %d): %s -> %v but %s -> %v", latest, desc(perms[0]), first.archive, desc(perm), b.archive), "", false
			}
		}
		allNumeric, maxN, minN := true, int64(-1), int64(-1)
		for i, si := range solos {
			if si.block < 0 {
				allNumeric = false
				continue
			}
			if maxN < 0 || si.block > maxN {
				maxN = si.block
			}
			if minN < 0 || si.block < minN {
				minN = si.block
			}
			// the summarised range covers every member's numeric requested block
			c.Clause("range-covers-numeric-member-from-above")
			okUp := b.latest == spectypes.NOT_APPLICABLE || isHeadTag(b.latest) || (b.latest >= 0 && b.latest >= si.block) || (b.latest == spectypes.EARLIEST_BLOCK && si.block == 0)
			if !okUp {
				return fmt.Sprintf("batch %s summarised as (latest=%d, earliest=%d) does not cover member %s (block %d) from above", desc(perm), b.latest, b.earliest, ms[i], si.block), "", false
			}
			if !skipE {
				c.Clause("range-covers-numeric-member-from-below")
				okDown := b.earliest == spectypes.NOT_APPLICABLE || b.earliest == spectypes.EARLIEST_BLOCK || (b.earliest >= 0 && b.earliest <= si.block)
				if !okDown {
					return fmt.Sprintf("batch %s summarised as (latest=%d, earliest=%d) does not cover member %s (block %d) from below", desc(perm), b.latest, b.earliest, ms[i], si.block), "", false
				}
			}
		}
		if allNumeric {
			c.Clause("all-numeric-latest-is-max")
			if b.latest != maxN {
				return fmt.Sprintf("batch %s of numeric blocks: summarised latest %d, want the maximum %d", desc(perm), b.latest, maxN), "", false
			}
			if !skipE {
				c.Clause("all-numeric-earliest-is-min")
				if b.earliest != minN {
					return fmt.Sprintf("batch %s of numeric blocks: summarised earliest %d, want the minimum %d", desc(perm), b.earliest, minN), "", false
				}
			}
		}
		if !hetero {
			c.Clause("same-block-everywhere-summary-is-that-block")
			if b.latest != solos[0].block || b.earliest != solos[0].block {
				return fmt.Sprintf("batch %s whose members all ask for block %d is summarised as (%d,%d)", desc(perm), solos[0].block, b.latest, b.earliest), "", false
			}
			c.Clause("same-block-everywhere-archive-equals-members")
			if b.archive != anyArchive {
				return fmt.Sprintf("batch %s (all members block %d, latest block %d): archive=%v but members alone: %v", desc(perm), solos[0].block, latest, b.archive, anyArchive), "", false
			}
		}
		if skipE {
			// While the known finding reproduces, the earliest-side clauses are still evaluated on the
			// (order, member) pairs it cannot touch: an 'earliest' member that is not first, and members
			// at index >= 2 when index 1 holds a latest-like tag (the tag re-initialises the fold).
			tagAt1 := n >= 3 && isHeadTag(solos[perm[1]].block)
			for pos, j := range perm {
				si := solos[j]
				switch {
				case pos >= 1 && si.block == spectypes.EARLIEST_BLOCK:
					c.Clause("partial:earliest-member-not-first-implies-archive")
					if b.earliest != spectypes.EARLIEST_BLOCK || !b.archive {
						return fmt.Sprintf("batch %s (latest block %d) has an 'earliest' member at index %d but is summarised as (%d,%d), archive=%v", desc(perm), latest, pos, b.latest, b.earliest, b.archive), "", false
					}
				case tagAt1 && pos >= 2 && si.block >= 0:
					c.Clause("partial:cover-from-below-after-tag")
					okDown := b.earliest == spectypes.NOT_APPLICABLE || b.earliest == spectypes.EARLIEST_BLOCK || (b.earliest >= 0 && b.earliest <= si.block)
					if !okDown {
						return fmt.Sprintf("batch %s summarised as (latest=%d, earliest=%d) does not cover member %s (block %d, index %d) from below", desc(perm), b.latest, b.earliest, ms[j], si.block, pos), "", false
					}
					c.Clause("partial:member-archive-implies-batch-archive-after-tag")
					if si.archive && !b.archive {
						return fmt.Sprintf("member %s (index %d) alone requires archive (latest block %d) but batch %s, summarised as (%d,%d), does not", ms[j], pos, latest, desc(perm), b.latest, b.earliest), "", false
					}
				}
			}
		}
		if !skipE {
			c.Clause("member-needs-archive-implies-batch-needs-archive")
			if anyArchive && !b.archive {
				who := ""
				for i, si := range solos {
					if si.archive {
						who = ms[i].String()
						break
					}
				}
				return fmt.Sprintf("member %s alone requires the archive extension (latest block %d) but batch %s, summarised as (%d,%d), does not", who, latest, desc(perm), b.latest, b.earliest), "", false
			}
		}
	}
	return "", "", skipE
}

func allPermutations(n int) [][]int {
	var out [][]int
	a := make([]int, n)
	for i := range a {
		a[i] = i
	}
	var rec func(k int)
	rec = func(k int) {
		if k == n {
			out = append(out, append([]int{}, a...))
			return
		}
		for i := k; i < n; i++ {
			a[k], a[i] = a[i], a[k]
			rec(k + 1)
			a[k], a[i] = a[i], a[k]
		}
	}
	rec(0)
	return out
}

func genPermsC31(t *rapid.T, n int) [][]int {
	if n <= 5 {
		return allPermutations(n)
	}
	id := make([]int, n)
	for i := range id {
		id[i] = i
	}
	out := [][]int{append([]int{}, id...)}
	rev := make([]int, n)
	for i := range rev {
		rev[i] = n - 1 - i
	}
	out = append(out, rev)
	for r := 1; r < n; r++ { // rotations: every member gets to be first
		rot := make([]int, n)
		for i := range rot {
			rot[i] = (i + r) % n
		}
		out = append(out, rot)
	}
	for k := 0; k < 24; k++ {
		out = append(out, rapid.Permutation(id).Draw(t, "perm"))
	}
	return out
}

func genBatchC31(t *rapid.T, c *ev.Collector, latest uint64, rule uint64) []rpcMember {
	n := rapid.SampledFrom([]int{1, 2, 2, 3, 3, 3, 4, 4, 5, 5, 6, 7, 8}).Draw(t, "n")
	// a small pool of numeric blocks so that members collide and mix
	poolN := rapid.IntRange(1, 3).Draw(t, "poolSize")
	pool := make([]uint64, poolN)
	for i := range pool {
		switch rapid.IntRange(0, 5).Draw(t, "poolClass") {
		case 0:
			pool[i] = uint64(rapid.IntRange(0, 5).Draw(t, "tiny"))
		case 1:
			d := uint64(rapid.IntRange(0, 3).Draw(t, "recent"))
			if latest > d {
				pool[i] = latest - d
			} else {
				pool[i] = 1
			}
		case 2:
			d := int64(rule) + int64(rapid.IntRange(-2, 2).Draw(t, "aroundRule"))
			if d > 0 && latest > uint64(d) {
				pool[i] = latest - uint64(d)
			} else {
				pool[i] = 2
			}
		case 3:
			d := uint64(126 + rapid.IntRange(-2, 2).Draw(t, "around126"))
			if latest > d {
				pool[i] = latest - d
			} else {
				pool[i] = 3
			}
		default:
			pool[i] = uint64(rapid.Int64Range(1, 40_000_000).Draw(t, "anyBlock"))
		}
		if pool[i] == 0 && ev.Excluded(findC31Zero) {
			c.Exclude(findC31Zero)
			pool[i] = 1
		}
	}
	addon := rapid.SampledFrom([]string{"", "", "", "debug", "trace"}).Draw(t, "addon")
	var addonBlock, addonNoBlock []ethMethod
	for _, m := range ethAddonBlockMethods {
		if m.Addon == addon {
			addonBlock = append(addonBlock, m)
		}
	}
	for _, m := range ethAddonNoBlockMethods {
		if m.Addon == addon {
			addonNoBlock = append(addonNoBlock, m)
		}
	}
	tagWeights := rapid.SampledFrom([][]string{
		blockTags,
		{"latest", "latest", "earliest"},
		{"latest"},
		{"pending", "safe", "finalized", "latest"},
		{"earliest"},
	}).Draw(t, "tagSet")
	numericBias := rapid.IntRange(2, 9).Draw(t, "numericBias")
	ms := make([]rpcMember, n)
	for i := range ms {
		var m ethMethod
		k := rapid.IntRange(0, 11).Draw(t, "memberClass")
		switch {
		case k <= 1:
			m = ethBlockMethods[1] // eth_call
		case k <= 7:
			m = rapid.SampledFrom(ethBlockMethods).Draw(t, "method")
		case k == 8 && len(addonBlock) > 0:
			m = rapid.SampledFrom(addonBlock).Draw(t, "addonMethod")
		case k == 9 && len(addonNoBlock) > 0:
			m = rapid.SampledFrom(addonNoBlock).Draw(t, "addonNoBlockMethod")
		case k <= 10:
			m = rapid.SampledFrom(ethNoBlockMethods).Draw(t, "noBlockMethod")
		default:
			m = rapid.SampledFrom(ethBlockMethods).Draw(t, "method2")
		}
		mem := rpcMember{M: m, ID: i + 1, Blk: blockReq{Kind: "none"}}
		if m.Block {
			if rapid.IntRange(0, 9).Draw(t, "numeric") < numericBias {
				v := rapid.SampledFrom(pool).Draw(t, "poolPick")
				mem.Blk = blockReq{Kind: "num", Num: v, Repr: genNumRepr(t, v)}
			} else {
				mem.Blk = blockReq{Kind: rapid.SampledFrom(tagWeights).Draw(t, "tag")}
			}
		}
		ms[i] = mem
	}
	// exclusions by construction for listed known findings
	hasEarliest, hasPSF, hasNA, hasArchCandidate := false, false, false, false
	for _, m := range ms {
		switch b := m.wantBlock(); {
		case b == spectypes.EARLIEST_BLOCK:
			hasEarliest, hasArchCandidate = true, true
		case b == spectypes.PENDING_BLOCK || b == spectypes.SAFE_BLOCK || b == spectypes.FINALIZED_BLOCK:
			hasPSF = true
		case b == spectypes.NOT_APPLICABLE:
			hasNA = true
		case b >= 0:
			hasArchCandidate = true
		}
	}
	if hasEarliest && hasPSF && ev.Excluded(findC31Rank) {
		c.Exclude(findC31Rank)
		for i := range ms {
			if k := ms[i].Blk.Kind; k == "pending" || k == "safe" || k == "finalized" {
				ms[i].Blk = blockReq{Kind: "latest"}
			}
		}
	}
	if hasNA && hasArchCandidate && ev.Excluded(findC31NA) {
		c.Exclude(findC31NA)
		for i := range ms {
			if ms[i].wantBlock() == spectypes.NOT_APPLICABLE {
				ms[i].M = ethNoBlockMethods[1] // eth_chainId: same CU class, block = latest
			}
		}
	}
	return ms
}

type c31Sample struct {
	Members string `json:"members"`
	Body    string `json:"body"`
	Latest  uint64 `json:"latest_block"`
	Rule    uint64 `json:"rule"`
	Perms   int    `json:"permutations_checked"`
}

func propC31(t *rapid.T) {
	c := ev.For("C31")
	ruleSel := rapid.SampledFrom([]uint64{0, 0, 0, 3, 50, 1000}).Draw(t, "rule")
	p, rule, err := c32Parser(ruleSel)
	if err != nil {
		t.Fatalf("%s", ev.HarnessError("cannot build ETH1 parser: %v", err))
	}
	var latest uint64
	switch rapid.IntRange(0, 5).Draw(t, "latestClass") {
	case 0:
		latest = 0
	case 1:
		latest = uint64(rapid.IntRange(1, 400).Draw(t, "latestSmall"))
	case 2:
		latest = rule + uint64(rapid.IntRange(0, 6).Draw(t, "latestAboveRule"))
	default:
		latest = uint64(rapid.Int64Range(401, 40_000_000).Draw(t, "latestMid"))
	}
	ms := genBatchC31(t, c, latest, rule)
	perms := genPermsC31(t, len(ms))

	viol, harness, skipped := checkBatchC31(p, ms, latest, perms, ev.Excluded(findC31First), c)
	if harness != "" {
		t.Fatalf("%s", ev.HarnessError("%s", harness))
	}
	if skipped {
		c.Exclude(findC31First)
	}

	// evidence
	nums := map[int64]bool{}
	tags := map[int64]bool{}
	hasAddon := false
	for _, m := range ms {
		if b := m.wantBlock(); b >= 0 {
			nums[b] = true
		} else {
			tags[b] = true
		}
		if m.M.Addon != "" {
			hasAddon = true
		}
	}
	nontrivial := len(ms) >= 2 && (len(nums) >= 2 || (len(nums) >= 1 && len(tags) >= 1))
	classes := []string{fmt.Sprintf("n=%d", len(ms))}
	if len(nums) >= 2 {
		classes = append(classes, "two-or-more-distinct-numbers")
	}
	if len(nums) >= 1 && len(tags) >= 1 {
		classes = append(classes, "number-with-tag")
	}
	if len(nums)+len(tags) == 1 && len(ms) >= 2 {
		classes = append(classes, "all-members-same-block")
	}
	for tg, name := range map[int64]string{spectypes.EARLIEST_BLOCK: "has-earliest", spectypes.NOT_APPLICABLE: "has-not-applicable", spectypes.LATEST_BLOCK: "has-latest",
		spectypes.PENDING_BLOCK: "has-pending", spectypes.SAFE_BLOCK: "has-safe", spectypes.FINALIZED_BLOCK: "has-finalized"} {
		if tags[tg] {
			classes = append(classes, name)
		}
	}
	sort.Strings(classes[1:])
	if hasAddon {
		classes = append(classes, "with-addon-member")
	}
	if latest == 0 {
		classes = append(classes, "latest-unknown")
	}
	if skipped {
		classes = append(classes, "earliest-side-clauses-skipped(known finding)")
	}
	c.Case(nontrivial, fmt.Sprintf("%s|%d|%d", membersString(ms), latest, rule), classes...)
	if nontrivial {
		c.Sample(c31Sample{Members: membersString(ms), Body: string(batchBody(ms)), Latest: latest, Rule: rule, Perms: len(perms)})
	}
	if viol != "" {
		t.Fatalf("%s", ev.Violation("C31", "%s; latest block %d, rule distance %d, batch body (generated order): %s", viol, latest, rule, batchBody(ms)))
	}
}

func TestC31(t *testing.T) {
	c := ev.For("C31")
	c.SetRule("JSON-RPC batches of 1-8 requests for the real ETH1 chain parser (spec rule 127 or overridden 3/50/1000): 12 block-taking methods incl. eth_call and eth_getLogs, methods defaulting to latest, methods without a block (not applicable), optional debug/trace add-on members; blocks = numbers from a pool of 1-3 values placed relative to the latest block (recent, rule±2, 126±2 behind, tiny, arbitrary; hex/decimal/JSON number) or tags latest/earliest/pending/safe/finalized; latest block in {0, 1..400, rule..rule+6, mid}. Every batch is parsed in all permutations (n<=5) or identity+reverse+all rotations+24 random permutations (n>5) and every member is parsed alone with the same latest block. non-trivial = n>=2 and (>=2 distinct numeric blocks or a number together with a tag); distinct = (ordered member list, latest, rule)")
	c.Assume("all members belong to the base collection plus at most one add-on (batches mixing two add-ons are rejected by the parser by design)",
		"a summarised bound NOT_APPLICABLE (-1) is read as 'unknown' and counts as covering; latest/pending/safe/finalized as upper bound count as covering any number",
		"a member's compute units are the method's compute units in the spec file; a batch that carries an extension costs that sum times the extension's multiplier, like any single request")
	if err := validateEthTable(); err != nil {
		t.Fatalf("%s", ev.HarnessError("%v", err))
	}
	rapid.Check(t, propC31)
}

// ---- known-finding witnesses (deterministic) ----

func c31Witness(t *testing.T) chainlib.ChainParser {
	p, _, err := c32Parser(0)
	if err != nil {
		t.Fatalf("%s", ev.HarnessError("cannot build ETH1 parser: %v", err))
	}
	return p
}

func numBlk(n uint64) blockReq { return blockReq{Kind: "num", Num: n, Repr: "hex"} }
func tagBlk(k string) blockReq { return blockReq{Kind: k} }
func getBalance(b blockReq, id int) rpcMember {
	return rpcMember{M: ethBlockMethods[0], Blk: b, ID: id}
}

func mustBatch(t *testing.T, p chainlib.ChainParser, ms []rpcMember, latest uint64) batchSummary {
	b, err := parseBatchC31(p, ms, latest, false)
	if err != nil {
		t.Fatalf("%s", ev.HarnessError("witness batch %s does not parse: %v", membersString(ms), err))
	}
	return b
}

// jsonRPC.go ParseMsg: on idx==0 only latestRequestedBlock is stored; earliestRequestedBlock stays 0,
// and CompareRequestedBlockInBatch's min(0, n) / RequestedBlock's "0 = unset" then lose the first member.
func TestC31Known_FirstMemberEarliest(t *testing.T) {
	p := c31Witness(t)
	ms := []rpcMember{getBalance(numBlk(100), 1), getBalance(numBlk(200), 2), getBalance(numBlk(50), 3)}
	if b := mustBatch(t, p, ms, 10000); b.earliest != 50 || b.latest != 200 {
		t.Fatalf("%s", ev.Violation("C31", "known finding %s: batch %s summarised as (latest=%d, earliest=%d), want (200,50): members 100 and 50 are not covered", findC31First, membersString(ms), b.latest, b.earliest))
	}
	a := mustBatch(t, p, []rpcMember{getBalance(tagBlk("earliest"), 1), getBalance(numBlk(100), 2)}, 10000)
	b := mustBatch(t, p, []rpcMember{getBalance(numBlk(100), 1), getBalance(tagBlk("earliest"), 2)}, 10000)
	if a.latest != b.latest || a.earliest != b.earliest {
		t.Fatalf("%s", ev.Violation("C31", "known finding %s: [earliest,100] -> (%d,%d) but [100,earliest] -> (%d,%d)", findC31First, a.latest, a.earliest, b.latest, b.earliest))
	}
	// earliest member first, recent number second: the batch must still require archive
	if x := mustBatch(t, p, []rpcMember{getBalance(tagBlk("earliest"), 1), getBalance(numBlk(9990), 2)}, 10000); !x.archive {
		t.Fatalf("%s", ev.Violation("C31", "known finding %s: [earliest, 9990] with latest block 10000 does not require archive although 'earliest' alone does", findC31First))
	}
}

// common.go CompareRequestedBlockInBatch: NOT_APPLICABLE wins the earliest block too, so a member that
// needs archive is hidden by e.g. net_version in the same batch.
func TestC31Known_NotApplicableMember(t *testing.T) {
	p := c31Witness(t)
	na := rpcMember{M: ethNoBlockMethods[4], Blk: blockReq{Kind: "none"}, ID: 2} // net_version
	for _, ms := range [][]rpcMember{{getBalance(numBlk(100), 1), na}, {na, getBalance(numBlk(100), 1)}, {getBalance(numBlk(100), 1), getBalance(numBlk(100), 3), na}} {
		if b := mustBatch(t, p, ms, 10000); !b.archive {
			t.Fatalf("%s", ev.Violation("C31", "known finding %s: eth_getBalance@100 alone requires archive (latest block 10000) but batch %s, summarised as (%d,%d), does not", findC31NA, membersString(ms), b.latest, b.earliest))
		}
	}
}

// chain_message.go RequestedBlock: earliest == 0 means "unset", so a member asking for block 0 is dropped.
func TestC31Known_BlockZero(t *testing.T) {
	p := c31Witness(t)
	for _, ms := range [][]rpcMember{{getBalance(numBlk(0), 1), getBalance(numBlk(5), 2)}, {getBalance(numBlk(5), 1), getBalance(numBlk(0), 2)}} {
		b := mustBatch(t, p, ms, 130)
		if b.earliest != 0 {
			t.Fatalf("%s", ev.Violation("C31", "known finding %s: batch %s summarised as (latest=%d, earliest=%d): block 0 is not covered", findC31Zero, membersString(ms), b.latest, b.earliest))
		}
		if !b.archive { // block 0 is 130 > 127 behind
			t.Fatalf("%s", ev.Violation("C31", "known finding %s: batch %s with latest block 130 does not require archive although block 0 alone does", findC31Zero, membersString(ms)))
		}
	}
}

// common.go CompareRequestedBlockInBatch latestCallback: for two negative values it takes max(), and
// EARLIEST_BLOCK (-3) > PENDING/SAFE/FINALIZED (-4,-5,-6), against the hierarchy in its own comment.
func TestC31Known_EarliestTagRank(t *testing.T) {
	p := c31Witness(t)
	a := mustBatch(t, p, []rpcMember{getBalance(tagBlk("earliest"), 1), getBalance(tagBlk("pending"), 2), getBalance(numBlk(100), 3)}, 10000)
	b := mustBatch(t, p, []rpcMember{getBalance(tagBlk("pending"), 2), getBalance(numBlk(100), 3), getBalance(tagBlk("earliest"), 1)}, 10000)
	if a.latest != b.latest {
		t.Fatalf("%s", ev.Violation("C31", "known finding %s: [earliest,pending,100] -> latest %d but [pending,100,earliest] -> latest %d", findC31Rank, a.latest, b.latest))
	}
	if b.latest == spectypes.EARLIEST_BLOCK {
		t.Fatalf("%s", ev.Violation("C31", "known finding %s: [pending,100,earliest] summarised with latest=EARLIEST, which does not cover block 100", findC31Rank))
	}
}
