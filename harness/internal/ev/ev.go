// Package ev collects what a check actually explored: number of generated cases, distinct
// non-trivial cases (by fingerprint), class histogram, oracle-clause evaluation counts and a
// few cases written out in full. Each test process writes one partial file per property into
// $VERIF_EV_DIR; the ./check driver merges the partial files of all shards into
// /verif/evidence/<id>.json.
package ev

import (
	"crypto/sha256"
	"encoding/hex"
	"encoding/json"
	"fmt"
	"os"
	"path/filepath"
	"sort"
	"sync"
)

const (
	maxSamples   = 6
	maxDistinct  = 200000
	violationTag = "VERIF-VIOLATION"
	harnessTag   = "VERIF-HARNESS-ERROR"
)

type Collector struct {
	mu          sync.Mutex
	Prop        string            `json:"property_id"`
	Rule        string            `json:"rule"`
	Evaluations int               `json:"evaluations"`
	Nontrivial  int               `json:"nontrivial_evaluations"`
	Classes     map[string]int    `json:"classes"`
	Clauses     map[string]int    `json:"oracle_clauses"`
	Excluded    map[string]int    `json:"excluded_known_findings"`
	Samples     []json.RawMessage `json:"samples"`
	Fingerprint []string          `json:"fingerprints"`
	Assumptions []string          `json:"assumptions"`
	Extra       map[string]any    `json:"extra"`
	distinct    map[string]struct{}
	sampleSeen  int
}

var (
	regMu sync.Mutex
	reg   = map[string]*Collector{}
)

// For returns the process-wide collector of a property.
func For(prop string) *Collector {
	regMu.Lock()
	defer regMu.Unlock()
	c, ok := reg[prop]
	if !ok {
		c = &Collector{Prop: prop, Classes: map[string]int{}, Clauses: map[string]int{}, Excluded: map[string]int{},
			distinct: map[string]struct{}{}, Extra: map[string]any{}}
		reg[prop] = c
	}
	return c
}

// SetRule states how cases are generated and what makes one non-trivial.
func (c *Collector) SetRule(rule string) {
	c.mu.Lock()
	c.Rule = rule
	c.mu.Unlock()
}

func (c *Collector) Assume(a ...string) {
	c.mu.Lock()
	defer c.mu.Unlock()
	for _, s := range a {
		dup := false
		for _, o := range c.Assumptions {
			if o == s {
				dup = true
			}
		}
		if !dup {
			c.Assumptions = append(c.Assumptions, s)
		}
	}
}

// Case records one generated case. fingerprint identifies the case for distinct counting
// (any string; hashed). classes are free labels for the histogram.
func (c *Collector) Case(nontrivial bool, fingerprint string, classes ...string) {
	c.mu.Lock()
	defer c.mu.Unlock()
	c.Evaluations++
	for _, cl := range classes {
		c.Classes[cl]++
	}
	if nontrivial {
		c.Nontrivial++
		if len(c.distinct) < maxDistinct {
			h := sha256.Sum256([]byte(fingerprint))
			c.distinct[hex.EncodeToString(h[:8])] = struct{}{}
		}
	}
}

// Class adds to the histogram without counting a case.
func (c *Collector) Class(classes ...string) {
	c.mu.Lock()
	for _, cl := range classes {
		c.Classes[cl]++
	}
	c.mu.Unlock()
}

// Clause counts one evaluation of a named oracle clause.
func (c *Collector) Clause(name string) {
	c.mu.Lock()
	c.Clauses[name]++
	c.mu.Unlock()
}

func (c *Collector) ClauseN(name string, n int) {
	c.mu.Lock()
	c.Clauses[name] += n
	c.mu.Unlock()
}

// Exclude counts a generated case that was skipped/rewritten because it falls in the class of a
// listed known finding.
func (c *Collector) Exclude(finding string) {
	c.mu.Lock()
	c.Excluded[finding]++
	c.mu.Unlock()
}

// Sample keeps a few cases written out in full: the first maxSamples/2 and then a sparse
// deterministic selection (every 2^k-th) of later ones.
func (c *Collector) Sample(v any) {
	c.mu.Lock()
	defer c.mu.Unlock()
	c.sampleSeen++
	n := c.sampleSeen
	keep := n <= maxSamples/2 || (n&(n-1)) == 0
	if !keep {
		return
	}
	b, err := json.Marshal(v)
	if err != nil {
		b, _ = json.Marshal(fmt.Sprintf("%+v", v))
	}
	if len(b) > 6000 {
		b, _ = json.Marshal(string(b[:6000]) + "...(truncated)")
	}
	if len(c.Samples) >= maxSamples {
		// replace the newest half round-robin so early and late samples both survive
		idx := maxSamples/2 + (n % (maxSamples - maxSamples/2))
		c.Samples[idx] = b
		return
	}
	c.Samples = append(c.Samples, b)
}

func (c *Collector) SetExtra(k string, v any) {
	c.mu.Lock()
	c.Extra[k] = v
	c.mu.Unlock()
}

func (c *Collector) AddExtra(k string, n int) {
	c.mu.Lock()
	cur, _ := c.Extra[k].(int)
	c.Extra[k] = cur + n
	c.mu.Unlock()
}

// AddExtraAll adds n to counter k of every collector of this process (used by the chain engine to
// make chain halts visible in the evidence of whatever property's history ran into them).
func AddExtraAll(k string, n int) {
	regMu.Lock()
	cs := make([]*Collector, 0, len(reg))
	for _, c := range reg {
		cs = append(cs, c)
	}
	regMu.Unlock()
	for _, c := range cs {
		c.AddExtra(k, n)
	}
}

// Flush writes all collectors of this process into $VERIF_EV_DIR.
func Flush() {
	dir := os.Getenv("VERIF_EV_DIR")
	if dir == "" {
		return
	}
	_ = os.MkdirAll(dir, 0o755)
	regMu.Lock()
	defer regMu.Unlock()
	for _, c := range reg {
		c.mu.Lock()
		c.Fingerprint = c.Fingerprint[:0]
		for k := range c.distinct {
			c.Fingerprint = append(c.Fingerprint, k)
		}
		sort.Strings(c.Fingerprint)
		b, _ := json.Marshal(c)
		c.mu.Unlock()
		name := filepath.Join(dir, fmt.Sprintf("%s.%d.json", c.Prop, os.Getpid()))
		_ = os.WriteFile(name, b, 0o644)
	}
}

// Violation formats a message the driver recognises as a property violation.
func Violation(prop, format string, args ...any) string {
	return fmt.Sprintf("%s property=%s: %s", violationTag, prop, fmt.Sprintf(format, args...))
}

// HarnessError formats a message the driver maps to "inconclusive" (exit 2), never a violation.
func HarnessError(format string, args ...any) string {
	return fmt.Sprintf("%s: %s", harnessTag, fmt.Sprintf(format, args...))
}

// Excluded reports whether the driver asked to exclude the class of a known finding
// (VERIF_EXCLUDE is a comma separated list of finding ids whose witness still fails).
func Excluded(finding string) bool {
	v := os.Getenv("VERIF_EXCLUDE")
	for len(v) > 0 {
		i := 0
		for i < len(v) && v[i] != ',' {
			i++
		}
		if v[:i] == finding {
			return true
		}
		if i == len(v) {
			break
		}
		v = v[i+1:]
	}
	return false
}
