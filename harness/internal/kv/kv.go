// Package kv builds a bare multistore + context for the store-level engines (E2).
package kv

import (
	"time"

	tmdb "github.com/cometbft/cometbft-db"
	"github.com/cometbft/cometbft/libs/log"
	tmproto "github.com/cometbft/cometbft/proto/tendermint/types"
	"github.com/cosmos/cosmos-sdk/codec"
	codectypes "github.com/cosmos/cosmos-sdk/codec/types"
	"github.com/cosmos/cosmos-sdk/store"
	storetypes "github.com/cosmos/cosmos-sdk/store/types"
	sdk "github.com/cosmos/cosmos-sdk/types"
)

type Env struct {
	Ctx sdk.Context
	Cdc *codec.ProtoCodec
	Key *storetypes.KVStoreKey
}

// New returns a fresh in-memory store at height 0 / fixed time.
func New() *Env {
	db := tmdb.NewMemDB()
	ms := store.NewCommitMultiStore(db)
	key := sdk.NewKVStoreKey("storeKey")
	mem := storetypes.NewMemoryStoreKey("storeMemKey")
	ms.MountStoreWithDB(key, storetypes.StoreTypeDB, db)
	ms.MountStoreWithDB(mem, storetypes.StoreTypeMemory, nil)
	if err := ms.LoadLatestVersion(); err != nil {
		panic(err)
	}
	cdc := codec.NewProtoCodec(codectypes.NewInterfaceRegistry())
	ctx := sdk.NewContext(ms, tmproto.Header{Height: 0, Time: time.Unix(1_700_000_000, 0).UTC()}, false, log.NewNopLogger())
	return &Env{Ctx: ctx, Cdc: cdc, Key: key}
}

// At returns the context moved to the given height and unix time.
func (e *Env) At(height int64, unix int64) sdk.Context {
	e.Ctx = e.Ctx.WithBlockHeight(height).WithBlockTime(time.Unix(unix, 0).UTC())
	return e.Ctx
}
