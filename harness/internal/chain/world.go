package chain

import (
	"fmt"
	"sort"
	"testing"

	"cosmossdk.io/math"
	sdk "github.com/cosmos/cosmos-sdk/types"
	stakingtypes "github.com/cosmos/cosmos-sdk/x/staking/types"
	"github.com/lavanet/lava/v5/testutil/common"
	"github.com/lavanet/lava/v5/utils/sigs"
	epochstoragetypes "github.com/lavanet/lava/v5/x/epochstorage/types"
	pairingtypes "github.com/lavanet/lava/v5/x/pairing/types"
	planstypes "github.com/lavanet/lava/v5/x/plans/types"
	projectstypes "github.com/lavanet/lava/v5/x/projects/types"
	spectypes "github.com/lavanet/lava/v5/x/spec/types"
	"pgregory.net/rapid"
)

// Cfg bounds the generated world. Zero values get defaults.
type Cfg struct {
	Specs      [2]int // number of specs
	Plans      [2]int
	Validators [2]int
	Providers  [2]int
	Consumers  [2]int
	Delegators [2]int
	RichSpec   bool // add-ons, extensions, optional interface on spec 0
	RichPolicy bool // plan policies with chain requirements / selected providers / geolocation
	Geo        bool // providers and policies use several geolocations
	Contrib    bool // specs may have contributors
	Balance    int64
	MaxCU      uint64 // upper bound for plan CU limits (default 1e6)
	Seed       int64
}

func (c *Cfg) defaults() {
	def := func(r *[2]int, lo, hi int) {
		if r[1] == 0 {
			r[0], r[1] = lo, hi
		}
	}
	def(&c.Specs, 1, 2)
	def(&c.Plans, 1, 2)
	def(&c.Validators, 1, 2)
	def(&c.Providers, 2, 6)
	def(&c.Consumers, 1, 3)
	def(&c.Delegators, 0, 2)
	if c.Balance == 0 {
		c.Balance = 10_000_000_000
	}
	if c.MaxCU == 0 {
		c.MaxCU = 1_000_000
	}
}

type Prov struct {
	Name string
	Acc  sigs.Account // Acc.Vault is always set (may equal the provider itself)
}

func (p *Prov) Addr() string  { return p.Acc.Addr.String() }
func (p *Prov) Vault() string { return p.Acc.GetVaultAddr() }

type Cons struct {
	Name string
	Acc  sigs.Account   // subscription consumer (and creator unless stated)
	Devs []sigs.Account // developer keys of the admin project (Acc itself is the first)
}

func (c *Cons) Addr() string { return c.Acc.Addr.String() }

type World struct {
	C          *Chain
	Cfg        Cfg
	Specs      []spectypes.Spec
	Plans      []planstypes.Plan
	Validators []sigs.Account
	Providers  []*Prov
	Consumers  []*Cons
	Delegators []sigs.Account
	Keys       map[string]sigs.Account // every account by address
	NextSess   uint64

	conflictInfos map[string]*conflictInfo // open conflict votes this harness created (see conflict.go)
}

const (
	IfJSON  = "jsonrpc"
	IfREST  = "rest"
	IfGRPC  = "grpc" // optional interface on rich specs
	AddonDB = "debug"
	ExtArch = "archive"
)

// MakeSpec builds a valid spec. rich adds a second mandatory interface, an add-on on both
// interfaces, an optional interface and an extension.
func MakeSpec(index string, rich bool, minStake int64, denom string) spectypes.Spec {
	api := func(name string, cu uint64) *spectypes.Api {
		return &spectypes.Api{Enabled: true, Name: name, ComputeUnits: cu,
			BlockParsing: spectypes.BlockParser{ParserFunc: spectypes.PARSER_FUNC_EMPTY},
			Category:     spectypes.SpecCategory{}}
	}
	s := spectypes.Spec{
		Index: index, Name: index + " chain", Enabled: true, ReliabilityThreshold: 4294967295, DataReliabilityEnabled: true,
		BlockDistanceForFinalizedData: 0, BlocksInFinalizationProof: 1, AverageBlockTime: 10000, AllowedBlockLagForQosSync: 1,
		MinStakeProvider: sdk.NewCoin(denom, sdk.NewInt(minStake)), Shares: 1,
	}
	col := func(iface, typ, addon string, exts []string, apis ...*spectypes.Api) *spectypes.ApiCollection {
		c := &spectypes.ApiCollection{Enabled: true, CollectionData: spectypes.CollectionData{ApiInterface: iface, Type: typ, AddOn: addon}, Apis: apis}
		for _, e := range exts {
			c.Extensions = append(c.Extensions, &spectypes.Extension{Name: e, CuMultiplier: 2, Rule: &spectypes.Rule{Block: 100}})
		}
		return c
	}
	if !rich {
		s.ApiCollections = []*spectypes.ApiCollection{col(IfJSON, "POST", "", nil, api(index+"_call", 10), api(index+"_heavy", 100))}
		return s
	}
	s.ApiCollections = []*spectypes.ApiCollection{
		col(IfJSON, "POST", "", []string{ExtArch}, api(index+"_call", 10), api(index+"_heavy", 100)),
		col(IfREST, "GET", "", []string{ExtArch}, api("/"+index+"/call", 10)),
		col(IfJSON, "POST", AddonDB, []string{ExtArch}, api(index+"_debug", 50)),
		col(IfREST, "GET", AddonDB, []string{ExtArch}, api("/"+index+"/debug", 50)),
		col(IfGRPC, "", IfGRPC, nil, api(index+".Service/Call", 10)),
	}
	return s
}

// SpecServices lists the mandatory interfaces of a spec, the add-ons/extensions providers may
// add to an endpoint, and the optional interfaces (served from endpoints of their own).
func SpecServices(s spectypes.Spec) (mandatoryIfaces []string, optional []string, optIfaces []string) {
	seenM, seenO, seenI := map[string]bool{}, map[string]bool{}, map[string]bool{}
	for _, c := range s.ApiCollections {
		cd := c.CollectionData
		switch {
		case cd.AddOn == "":
			if !seenM[cd.ApiInterface] {
				seenM[cd.ApiInterface] = true
				mandatoryIfaces = append(mandatoryIfaces, cd.ApiInterface)
			}
		case cd.AddOn == cd.ApiInterface:
			if !seenI[cd.AddOn] {
				seenI[cd.AddOn] = true
				optIfaces = append(optIfaces, cd.AddOn)
			}
			continue
		default:
			if !seenO[cd.AddOn] {
				seenO[cd.AddOn] = true
				optional = append(optional, cd.AddOn)
			}
		}
		for _, e := range c.Extensions {
			if !seenO[e.Name] {
				seenO[e.Name] = true
				optional = append(optional, e.Name)
			}
		}
	}
	return
}

var GeoBits = []int32{1, 2, 4}

// GenEndpoints draws endpoints for a provider: one per geolocation bit, implementing all
// mandatory interfaces plus a drawn subset of add-ons / extensions / optional interfaces.
func GenEndpoints(t *rapid.T, s spectypes.Spec, geo int32, label string) []epochstoragetypes.Endpoint {
	mand, opt, optIf := SpecServices(s)
	var eps []epochstoragetypes.Endpoint
	var chosen, chosenIf []string
	for _, o := range opt {
		if rapid.IntRange(0, 2).Draw(t, label+"_svc_"+o) > 0 { // 2/3 support each optional service
			chosen = append(chosen, o)
		}
	}
	for _, o := range optIf {
		if rapid.Bool().Draw(t, label+"_iface_"+o) {
			chosenIf = append(chosenIf, o)
		}
	}
	for _, bit := range GeoBits {
		if geo&bit == 0 {
			continue
		}
		eps = append(eps, epochstoragetypes.Endpoint{IPPORT: "10.0.0.1:443", Geolocation: bit,
			ApiInterfaces: append([]string{}, mand...), Addons: append([]string{}, chosen...)})
		for _, i := range chosenIf {
			eps = append(eps, epochstoragetypes.Endpoint{IPPORT: "10.0.0.1:9090", Geolocation: bit, ApiInterfaces: []string{i}})
		}
	}
	return eps
}

// NewWorld generates and installs a world: specs, plans, validators, staked providers and
// consumers with subscriptions. All setup txs must succeed (harness error otherwise).
func NewWorld(t *rapid.T, outer *testing.T, cfg Cfg) *World {
	cfg.defaults()
	seed := cfg.Seed
	if seed == 0 {
		seed = int64(rapid.IntRange(1, 1<<30).Draw(t, "chainSeed"))
	}
	c := New(outer, seed)
	w := &World{C: c, Cfg: cfg, Keys: map[string]sigs.Account{}, NextSess: 1}
	ts := c.TS
	denom := c.Denom()
	c.AdvanceBlock(0) // first block fixes the start time

	// specs
	nSpecs := rapid.IntRange(cfg.Specs[0], cfg.Specs[1]).Draw(t, "nSpecs")
	for i := 0; i < nSpecs; i++ {
		minStake := int64(rapid.SampledFrom([]int{1000, 5000}).Draw(t, fmt.Sprintf("spec%d_minStake", i)))
		s := MakeSpec(fmt.Sprintf("SP%d", i), cfg.RichSpec && i == 0, minStake, denom)
		if cfg.Contrib && rapid.Bool().Draw(t, fmt.Sprintf("spec%d_contrib", i)) {
			n := rapid.IntRange(1, 3).Draw(t, fmt.Sprintf("spec%d_ncontrib", i))
			for j := 0; j < n; j++ {
				acc := w.newAccount(0)
				s.Contributor = append(s.Contributor, acc.Addr.String())
			}
			pct := math.LegacyNewDecWithPrec(int64(rapid.IntRange(1, 50).Draw(t, fmt.Sprintf("spec%d_contribPct", i))), 2)
			s.ContributorPercentage = &pct
		}
		ts.AddSpec(s.Index, s)
		w.Specs = append(w.Specs, s)
	}

	// validators
	nVals := rapid.IntRange(cfg.Validators[0], cfg.Validators[1]).Draw(t, "nValidators")
	for i := 0; i < nVals; i++ {
		acc, _ := ts.AddAccount(common.VALIDATOR, i, cfg.Balance)
		w.Keys[acc.Addr.String()] = acc
		ts.TxCreateValidator(acc, math.NewInt(cfg.Balance/10))
		w.Validators = append(w.Validators, acc)
	}

	// providers (accounts first: selected-provider lists in plan policies need addresses)
	nProv := rapid.IntRange(cfg.Providers[0], cfg.Providers[1]).Draw(t, "nProviders")
	for i := 0; i < nProv; i++ {
		acc := w.newAccount(cfg.Balance)
		if rapid.IntRange(0, 3).Draw(t, fmt.Sprintf("prov%d_ownVault", i)) == 0 {
			self := acc
			acc.Vault = &self
		} else {
			v := w.newAccount(cfg.Balance)
			acc.Vault = &v
		}
		w.Keys[acc.Addr.String()] = acc
		w.Providers = append(w.Providers, &Prov{Name: fmt.Sprintf("prov%d", i), Acc: acc})
	}

	// plans
	nPlans := rapid.IntRange(cfg.Plans[0], cfg.Plans[1]).Draw(t, "nPlans")
	for i := 0; i < nPlans; i++ {
		p := w.GenPlan(t, fmt.Sprintf("plan%d", i), fmt.Sprintf("plan%d", i))
		if err := ts.TxProposalAddPlans(p); err != nil {
			outer.Fatalf("VERIF-HARNESS-ERROR: add plan failed: %v (%+v)", err, p)
		}
		w.Plans = append(w.Plans, p)
	}
	c.AdvanceEpoch()

	// stake providers
	for i, p := range w.Providers {
		nChains := 1
		if len(w.Specs) > 1 && rapid.Bool().Draw(t, fmt.Sprintf("prov%d_multichain", i)) {
			nChains = len(w.Specs)
		}
		first := rapid.IntRange(0, len(w.Specs)-1).Draw(t, fmt.Sprintf("prov%d_firstChain", i))
		for k := 0; k < nChains; k++ {
			s := w.Specs[(first+k)%len(w.Specs)]
			label := fmt.Sprintf("prov%d_%s", i, s.Index)
			stake := s.MinStakeProvider.Amount.Int64() * int64(rapid.SampledFrom([]int{1, 2, 10, 100, 1000}).Draw(t, label+"_stakeMul"))
			geo := int32(1)
			if cfg.Geo {
				geo = int32(rapid.IntRange(1, 7).Draw(t, label+"_geo"))
			}
			eps := GenEndpoints(t, s, geo, label)
			commission := uint64(rapid.SampledFrom([]int{0, 10, 50, 100}).Draw(t, label+"_commission"))
			val := w.Validators[rapid.IntRange(0, len(w.Validators)-1).Draw(t, label+"_validator")]
			err := w.StakeProvider(p, s.Index, stake, geo, eps, commission, val)
			if err != nil {
				outer.Fatalf("VERIF-HARNESS-ERROR: initial stake failed: %v", err)
			}
		}
	}

	// delegators
	nDel := rapid.IntRange(cfg.Delegators[0], cfg.Delegators[1]).Draw(t, "nDelegators")
	for i := 0; i < nDel; i++ {
		w.Delegators = append(w.Delegators, w.newAccount(cfg.Balance))
	}

	// consumers with subscriptions
	nCons := rapid.IntRange(cfg.Consumers[0], cfg.Consumers[1]).Draw(t, "nConsumers")
	for i := 0; i < nCons; i++ {
		acc := w.newAccount(cfg.Balance)
		cons := &Cons{Name: fmt.Sprintf("cons%d", i), Acc: acc, Devs: []sigs.Account{acc}}
		w.Consumers = append(w.Consumers, cons)
		plan := w.Plans[rapid.IntRange(0, len(w.Plans)-1).Draw(t, fmt.Sprintf("cons%d_plan", i))]
		months := rapid.IntRange(1, 3).Draw(t, fmt.Sprintf("cons%d_months", i))
		if _, err := ts.TxSubscriptionBuy(cons.Addr(), cons.Addr(), plan.Index, months, false, false); err != nil {
			outer.Fatalf("VERIF-HARNESS-ERROR: initial subscription buy failed: %v", err)
		}
	}
	c.AdvanceEpoch()
	c.Hist = nil
	return w
}

func (w *World) newAccount(balance int64) sigs.Account {
	acc := common.CreateNewAccount(w.C.TS.GoCtx, *w.C.TS.Keepers, balance)
	w.Keys[acc.Addr.String()] = acc
	return acc
}

// NewAccount creates a funded account (setup only: it mints).
func (w *World) NewAccount(balance int64) sigs.Account { return w.newAccount(balance) }

// GenPlan draws a valid plan.
func (w *World) GenPlan(t *rapid.T, index, label string) planstypes.Plan {
	cfg := w.Cfg
	total := uint64(rapid.SampledFrom([]int{1000, 100_000, 1_000_000}).Draw(t, label+"_totalCU"))
	if total > cfg.MaxCU {
		total = cfg.MaxCU
	}
	epochCU := total / uint64(rapid.SampledFrom([]int{1, 10, 100}).Draw(t, label+"_epochDiv"))
	if epochCU == 0 {
		epochCU = 1
	}
	pol := planstypes.Policy{
		TotalCuLimit: total, EpochCuLimit: epochCU,
		MaxProvidersToPair: uint64(rapid.IntRange(2, 5).Draw(t, label+"_maxProviders")),
		GeolocationProfile: 1,
	}
	if cfg.Geo {
		pol.GeolocationProfile = int32(rapid.SampledFrom([]int{1, 2, 3, 5, 7, int(planstypes.Geolocation_GL)}).Draw(t, label+"_geo"))
	}
	if cfg.RichPolicy {
		w.GenPolicyExtras(t, &pol, label, true)
	}
	price := int64(rapid.SampledFrom([]int{100, 1000, 12345, 1_000_000}).Draw(t, label+"_price"))
	return planstypes.Plan{
		Index: index, Description: "generated", Type: "rpc", Price: sdk.NewCoin(w.C.Denom(), sdk.NewInt(price)),
		AllowOveruse: false, OveruseRate: 0, AnnualDiscountPercentage: uint64(rapid.SampledFrom([]int{0, 20}).Draw(t, label+"_discount")),
		PlanPolicy: pol, ProjectsLimit: 5,
	}
}

// GenPolicyExtras draws chain policies (requirements with add-ons/extensions/mixed) and a
// selected-providers configuration into pol.
func (w *World) GenPolicyExtras(t *rapid.T, pol *planstypes.Policy, label string, isPlan bool) {
	// chain policies
	if rapid.Bool().Draw(t, label+"_hasChainPolicy") && len(w.Specs) > 0 {
		s := w.Specs[0]
		cp := planstypes.ChainPolicy{ChainId: s.Index}
		_, opt, _ := SpecServices(s)
		hasAddon, hasExt := false, false
		for _, o := range opt {
			if o == AddonDB {
				hasAddon = true
			}
			if o == ExtArch {
				hasExt = true
			}
		}
		nReq := rapid.IntRange(0, 2).Draw(t, label+"_nReq")
		for i := 0; i < nReq; i++ {
			l := fmt.Sprintf("%s_req%d", label, i)
			iface := IfJSON
			typ := "POST"
			if hasAddon && rapid.Bool().Draw(t, l+"_rest") {
				iface, typ = IfREST, "GET"
			}
			req := planstypes.ChainRequirement{Collection: spectypes.CollectionData{ApiInterface: iface, Type: typ}}
			if hasAddon && rapid.Bool().Draw(t, l+"_addon") {
				req.Collection.AddOn = AddonDB
			}
			if hasExt && rapid.Bool().Draw(t, l+"_ext") {
				req.Extensions = []string{ExtArch}
			}
			req.Mixed = rapid.Bool().Draw(t, l+"_mixed")
			cp.Requirements = append(cp.Requirements, req)
		}
		pol.ChainPolicies = append(pol.ChainPolicies, cp)
		// other chains stay allowed: a policy with chain policies allows only listed chains
		for _, o := range w.Specs[1:] {
			pol.ChainPolicies = append(pol.ChainPolicies, planstypes.ChainPolicy{ChainId: o.Index})
		}
	}
	// selected providers
	modes := []planstypes.SELECTED_PROVIDERS_MODE{planstypes.SELECTED_PROVIDERS_MODE_ALLOWED, planstypes.SELECTED_PROVIDERS_MODE_ALLOWED,
		planstypes.SELECTED_PROVIDERS_MODE_MIXED, planstypes.SELECTED_PROVIDERS_MODE_EXCLUSIVE}
	if isPlan {
		modes = append(modes, planstypes.SELECTED_PROVIDERS_MODE_DISABLED)
	}
	mode := modes[rapid.IntRange(0, len(modes)-1).Draw(t, label+"_selMode")]
	pol.SelectedProvidersMode = mode
	if mode == planstypes.SELECTED_PROVIDERS_MODE_MIXED || mode == planstypes.SELECTED_PROVIDERS_MODE_EXCLUSIVE {
		for i, p := range w.Providers {
			if rapid.Bool().Draw(t, fmt.Sprintf("%s_sel%d", label, i)) {
				pol.SelectedProviders = append(pol.SelectedProviders, p.Addr())
			}
		}
	}
}

// StakeProvider sends MsgStakeProvider from the provider's vault.
func (w *World) StakeProvider(p *Prov, chain string, amount int64, geo int32, eps []epochstoragetypes.Endpoint, commission uint64, val sigs.Account) error {
	ts := w.C.TS
	msg := &pairingtypes.MsgStakeProvider{
		Creator: p.Vault(), Validator: sdk.ValAddress(val.Addr).String(), ChainID: chain,
		Amount: sdk.NewCoin(w.C.Denom(), sdk.NewInt(amount)), Geolocation: geo, Endpoints: eps,
		DelegateLimit: sdk.NewCoin(w.C.Denom(), sdk.ZeroInt()), DelegateCommission: commission,
		Address: p.Addr(), Description: stakingtypes.NewDescription(p.Name, "", "", "", ""),
	}
	return w.C.Tx(fmt.Sprintf("stake(%s,%s,%d,geo=%d,comm=%d)", p.Name, chain, amount, geo, commission), msg.ValidateBasic, func() error {
		_, err := ts.Servers.PairingServer.StakeProvider(ts.GoCtx, msg)
		return err
	})
}

// ---- queries used by generators (never by oracles) ---------------------------------------------

// StakedOn returns the providers with a current stake entry on chain, sorted by name.
func (w *World) StakedOn(chain string) []*Prov {
	var out []*Prov
	for _, p := range w.Providers {
		if _, found := w.C.TS.Keepers.Epochstorage.GetStakeEntryCurrent(w.C.TS.Ctx, chain, p.Addr()); found {
			out = append(out, p)
		}
	}
	return out
}

// ChainsOf returns the chains a provider currently has an entry on.
func (w *World) ChainsOf(p *Prov) []string {
	var out []string
	for _, s := range w.Specs {
		if _, found := w.C.TS.Keepers.Epochstorage.GetStakeEntryCurrent(w.C.TS.Ctx, s.Index, p.Addr()); found {
			out = append(out, s.Index)
		}
	}
	return out
}

// LiveConsumers returns consumers that currently have a subscription.
func (w *World) LiveConsumers() []*Cons {
	var out []*Cons
	for _, c := range w.Consumers {
		if _, found := w.C.TS.Keepers.Subscription.GetSubscription(w.C.TS.Ctx, c.Addr()); found {
			out = append(out, c)
		}
	}
	return out
}

func (w *World) ProvByAddr(addr string) *Prov {
	for _, p := range w.Providers {
		if p.Addr() == addr {
			return p
		}
	}
	return nil
}

func (w *World) SpecByIndex(idx string) *spectypes.Spec {
	for i := range w.Specs {
		if w.Specs[i].Index == idx {
			return &w.Specs[i]
		}
	}
	return nil
}

// AdminProject is the default project id of a consumer.
func AdminProject(consumer string) string {
	return projectstypes.ProjectIndex(consumer, projectstypes.ADMIN_PROJECT_NAME)
}

func SortedKeys[M ~map[string]V, V any](m M) []string {
	out := make([]string, 0, len(m))
	for k := range m {
		out = append(out, k)
	}
	sort.Strings(out)
	return out
}
