package chain

import (
	"fmt"

	"github.com/lavanet/lava/v5/testutil/common"
	"github.com/lavanet/lava/v5/utils/sigs"
	conflicttypes "github.com/lavanet/lava/v5/x/conflict/types"
	pairingtypes "github.com/lavanet/lava/v5/x/pairing/types"
	"pgregory.net/rapid"
)

// Conflict actions of the shared alphabet: a consumer reports two providers whose signed replies
// to the same request differ (MsgDetection, built with the repository's own test helper), and the
// listed voters commit and reveal votes. The begin-blocker of the conflict module moves a vote
// from commit to reveal and closes it (rewards, punishment of losing / absent providers) when the
// random history advances epochs.

type conflictInfo struct {
	h0, h1  []byte
	commits map[string]conflictCommit // voter -> what it committed to
}

type conflictCommit struct {
	nonce int64
	data  []byte
}

func (w *World) conflicts() map[string]*conflictInfo {
	if w.conflictInfos == nil {
		w.conflictInfos = map[string]*conflictInfo{}
	}
	return w.conflictInfos
}

// ActConflictDetect sends a response-conflict detection between two providers staked on a chain.
func (w *World) ActConflictDetect(t *rapid.T) {
	ts := w.C.TS
	cons := w.LiveConsumers()
	if len(cons) == 0 {
		t.Skip("no live consumer")
	}
	c := pick(t, "consumer", cons)
	spec := pick(t, "spec", w.Specs)
	staked := w.StakedOn(spec.Index)
	if len(staked) < 2 {
		t.Skip("fewer than two providers on the chain")
	}
	i0 := rapid.IntRange(0, len(staked)-1).Draw(t, "p0")
	i1 := rapid.IntRange(0, len(staked)-2).Draw(t, "p1")
	if i1 >= i0 {
		i1++
	}
	p0, p1 := staked[i0], staked[i1]
	msg, reply0, reply1, err := common.CreateResponseConflictMsgDetectionForTest(ts.GoCtx, c.Acc, p0.Acc, p1.Acc, &spec)
	if err != nil {
		t.Skip("cannot build a detection message")
	}
	rc := msg.GetResponseConflict()
	h0 := sigs.HashMsg(pairingtypes.NewRelayExchange(*rc.ConflictRelayData0.Request, *reply0).DataToSign())
	h1 := sigs.HashMsg(pairingtypes.NewRelayExchange(*rc.ConflictRelayData1.Request, *reply1).DataToSign())
	before := map[string]bool{}
	for _, v := range ts.Keepers.Conflict.GetAllConflictVote(ts.Ctx) {
		before[v.Index] = true
	}
	err = w.C.Tx(fmt.Sprintf("conflictDetection(%s: %s vs %s on %s)", c.Name, p0.Name, p1.Name, spec.Index), msg.ValidateBasic, func() error {
		_, e := ts.Servers.ConflictServer.Detection(ts.GoCtx, msg)
		return e
	})
	if err != nil {
		return
	}
	for _, v := range ts.Keepers.Conflict.GetAllConflictVote(ts.Ctx) {
		if !before[v.Index] {
			w.conflicts()[v.Index] = &conflictInfo{h0: h0, h1: h1, commits: map[string]conflictCommit{}}
		}
	}
}

// ActConflictVote: a commit or a reveal on an open vote, by a listed voter (mostly) or by somebody
// else, honest (mostly) or not.
func (w *World) ActConflictVote(t *rapid.T) {
	ts := w.C.TS
	votes := ts.Keepers.Conflict.GetAllConflictVote(ts.Ctx)
	if len(votes) == 0 {
		t.Skip("no open vote")
	}
	v := votes[rapid.IntRange(0, len(votes)-1).Draw(t, "vote")]
	info := w.conflicts()[v.Index]
	if info == nil {
		info = &conflictInfo{h0: sigs.HashMsg([]byte("a")), h1: sigs.HashMsg([]byte("b")), commits: map[string]conflictCommit{}}
		w.conflicts()[v.Index] = info
	}
	var voter string
	if len(v.Votes) > 0 && rapid.IntRange(0, 5).Draw(t, "listedVoter") > 0 {
		voter = v.Votes[rapid.IntRange(0, len(v.Votes)-1).Draw(t, "voter")].Address
	} else {
		voter = pick(t, "otherActor", w.Providers).Addr()
	}
	short := voter[len(voter)-6:]
	vid := v.Index
	if len(vid) > 10 {
		vid = "…" + vid[len(vid)-8:]
	}
	if v.VoteState == conflicttypes.StateCommit {
		var data []byte
		switch rapid.SampledFrom([]string{"p0", "p0", "p1", "p1", "none"}).Draw(t, "option") {
		case "p0":
			data = info.h0
		case "p1":
			data = info.h1
		default:
			data = sigs.HashMsg([]byte("some other response"))
		}
		nonce := int64(rapid.IntRange(-5, 1000).Draw(t, "nonce"))
		hash := conflicttypes.CommitVoteData(nonce, data, voter)
		msg := &conflicttypes.MsgConflictVoteCommit{Creator: voter, VoteID: v.Index, Hash: hash}
		if w.C.Tx(fmt.Sprintf("conflictCommit(%s by %s)", vid, short), msg.ValidateBasic, func() error {
			_, e := ts.Servers.ConflictServer.ConflictVoteCommit(ts.GoCtx, msg)
			return e
		}) == nil {
			info.commits[voter] = conflictCommit{nonce: nonce, data: data}
		}
		return
	}
	cm := info.commits[voter]
	nonce, data := cm.nonce, cm.data
	if rapid.IntRange(0, 7).Draw(t, "wrongReveal") == 0 {
		nonce++
	}
	msg := &conflicttypes.MsgConflictVoteReveal{Creator: voter, VoteID: v.Index, Nonce: nonce, Hash: data}
	_ = w.C.Tx(fmt.Sprintf("conflictReveal(%s by %s)", vid, short), msg.ValidateBasic, func() error {
		_, e := ts.Servers.ConflictServer.ConflictVoteReveal(ts.GoCtx, msg)
		return e
	})
}

// ConflictLifecycle is a directed scenario with drawn parameters: one detection, a commit by a drawn
// subset of the listed voters with drawn options, the commit period, reveals by a drawn subset, and
// the reveal period, so that the begin-blocker closes the vote (majority / no majority, rewards,
// punishment of the losing provider and of voters that did not reveal).
func (w *World) ConflictLifecycle(t *rapid.T) {
	ts := w.C.TS
	before := map[string]bool{}
	for _, v := range ts.Keepers.Conflict.GetAllConflictVote(ts.Ctx) {
		before[v.Index] = true
	}
	w.ActConflictDetect(t)
	var id string
	for _, v := range ts.Keepers.Conflict.GetAllConflictVote(ts.Ctx) {
		if !before[v.Index] {
			id = v.Index
		}
	}
	if id == "" || w.C.Halt != "" {
		return
	}
	info := w.conflicts()[id]
	v, _ := ts.Keepers.Conflict.GetConflictVote(ts.Ctx, id)
	favourite := rapid.SampledFrom([]string{"p0", "p1", "none", "split"}).Draw(t, "cl_favourite")
	for i, vt := range v.Votes {
		if rapid.IntRange(0, 4).Draw(t, fmt.Sprintf("cl_commits%d", i)) == 0 {
			continue // absent voter
		}
		opt := favourite
		if favourite == "split" || rapid.IntRange(0, 3).Draw(t, fmt.Sprintf("cl_dissent%d", i)) == 0 {
			opt = rapid.SampledFrom([]string{"p0", "p1", "none"}).Draw(t, fmt.Sprintf("cl_option%d", i))
		}
		data := sigs.HashMsg([]byte("some other response"))
		switch opt {
		case "p0":
			data = info.h0
		case "p1":
			data = info.h1
		}
		nonce := int64(i + 1)
		msg := &conflicttypes.MsgConflictVoteCommit{Creator: vt.Address, VoteID: id, Hash: conflicttypes.CommitVoteData(nonce, data, vt.Address)}
		if w.C.Tx(fmt.Sprintf("conflictCommit*(%s,%s)", vt.Address[len(vt.Address)-6:], opt), msg.ValidateBasic, func() error {
			_, e := ts.Servers.ConflictServer.ConflictVoteCommit(ts.GoCtx, msg)
			return e
		}) == nil {
			info.commits[vt.Address] = conflictCommit{nonce: nonce, data: data}
		}
	}
	period := int(ts.Keepers.Conflict.VotePeriod(ts.Ctx)) + 1
	for i := 0; i < period; i++ {
		if !w.C.AdvanceEpoch() {
			return
		}
	}
	for i, vt := range v.Votes {
		cm, ok := info.commits[vt.Address]
		if !ok || rapid.IntRange(0, 4).Draw(t, fmt.Sprintf("cl_reveals%d", i)) == 0 {
			continue
		}
		msg := &conflicttypes.MsgConflictVoteReveal{Creator: vt.Address, VoteID: id, Nonce: cm.nonce, Hash: cm.data}
		_ = w.C.Tx(fmt.Sprintf("conflictReveal*(%s)", vt.Address[len(vt.Address)-6:]), msg.ValidateBasic, func() error {
			_, e := ts.Servers.ConflictServer.ConflictVoteReveal(ts.GoCtx, msg)
			return e
		})
	}
	for i := 0; i < period; i++ {
		if !w.C.AdvanceEpoch() {
			return
		}
	}
}
