// Package chain is the deterministic, transaction-atomic chain driver (engine E1) on top of the
// repository's own test keepers (testutil/keeper.InitAllKeepers through testutil/common.Tester).
//
//   - fixed block time and a seeded header-hash/key randomizer: a run is a pure function of the
//     code, the seed and the drawn history;
//   - every transaction runs in a cache context and is discarded on error or panic, together with
//     a snapshot of the mock bank (hook H7), mimicking BaseApp's atomic DeliverTx;
//   - BeginBlock/EndBlock are NOT wrapped in a cache: a panic there is a chain halt (C37) and is
//     recorded in Halt with the stack.
package chain

import (
	"crypto/sha256"
	"encoding/binary"
	"fmt"
	"os"
	"runtime/debug"
	"sort"
	"testing"
	"time"
	"verifharness/internal/ev"

	storetypes "github.com/cosmos/cosmos-sdk/store/types"
	sdk "github.com/cosmos/cosmos-sdk/types"
	"github.com/lavanet/lava/v5/testutil/common"
	testkeeper "github.com/lavanet/lava/v5/testutil/keeper"
	"github.com/lavanet/lava/v5/utils/sigs"
)

type Chain struct {
	T    *testing.T
	TS   *common.Tester
	Hist []string // executed actions, for violation messages
	Halt string   // non-empty once Begin/EndBlock panicked

	LastEvents sdk.Events // events of the last successful tx
	TxOK       int
	TxFail     int
	Blocks     int

	// BlockHook, when set, runs after every block (after BeginBlock of the new height).
	BlockHook func()
}

// New creates a fresh chain at height 0 with fixed time. seed drives header hashes and keys.
func New(t *testing.T, seed int64) *Chain {
	testkeeper.SetFixedTime()
	ts := common.NewTesterRaw(t)
	if seed == 0 {
		seed = 1
	}
	testkeeper.Randomizer = sigs.NewZeroReader(seed)
	return &Chain{T: t, TS: ts}
}

func (c *Chain) Logf(format string, args ...any) {
	c.Hist = append(c.Hist, fmt.Sprintf("[h%d] ", c.Height())+fmt.Sprintf(format, args...))
}

func (c *Chain) Height() uint64 { return uint64(c.TS.Ctx.BlockHeight()) }

func (c *Chain) Ctx() sdk.Context { return c.TS.Ctx }

// Tx runs fn atomically: state changes (stores and mock bank) are kept only if fn returns nil
// and does not panic. validate, when non-nil, is the message's ValidateBasic.
func (c *Chain) Tx(name string, validate func() error, fn func() error) (err error) {
	if c.Halt != "" {
		return fmt.Errorf("chain halted")
	}
	if validate != nil {
		if verr := validate(); verr != nil {
			c.TxFail++
			c.Logf("tx %s -> rejected by ValidateBasic: %v", name, short(verr))
			return verr
		}
	}
	// the real chain's ante handler (x/dualstaking/ante) resets the "dualstaking hooks disabled"
	// flag for every transaction that is not a staking redelegation (the redelegation action sets it
	// itself inside its transaction); without this a flag left by a redelegation would switch the
	// hooks off for every later transaction of the harness - an artefact, not chain behaviour
	c.TS.Keepers.Dualstaking.SetDisableDualstakingHook(c.TS.Ctx, false)
	snap := testkeeper.VerifBankSnapshot()
	parentCtx, parentGo := c.TS.Ctx, c.TS.GoCtx
	cctx, write := parentCtx.CacheContext()
	c.TS.Ctx, c.TS.GoCtx = cctx, sdk.WrapSDKContext(cctx)
	defer func() {
		c.TS.Ctx, c.TS.GoCtx = parentCtx, parentGo
		if r := recover(); r != nil {
			err = fmt.Errorf("tx panic: %v", r)
			if os.Getenv("VERIF_PANIC_STACK") != "" {
				fmt.Printf("VERIF-DEBUG tx panic in %s: %v\n%s\n", name, r, debug.Stack())
			}
		}
		if err != nil {
			testkeeper.VerifBankRestore(snap)
			c.TxFail++
			c.Logf("tx %s -> error: %v", name, short(err))
			return
		}
		write()
		c.LastEvents = cctx.EventManager().Events()
		c.TxOK++
		c.Logf("tx %s -> ok", name)
	}()
	return fn()
}

// TxNonAtomic runs fn directly on the block context (as testutil/common.Tester does). Used only
// where a check wants to observe what a failed message leaves behind outside the store.
func (c *Chain) TxNonAtomic(name string, fn func() error) (err error) {
	defer func() {
		if r := recover(); r != nil {
			err = fmt.Errorf("tx panic: %v", r)
		}
	}()
	return fn()
}

func short(err error) string {
	s := err.Error()
	if len(s) > 160 {
		s = s[:160] + "..."
	}
	return s
}

// AdvanceBlock ends the current block and begins the next one, delta later. A panic in
// End/BeginBlock is recorded in c.Halt (the chain would halt) and false is returned.
func (c *Chain) AdvanceBlock(delta time.Duration) (ok bool) {
	if c.Halt != "" {
		return false
	}
	if !c.advanceBlockRecovered(delta) {
		return false
	}
	c.Blocks++
	// the hook runs outside the recover: a rapid Fatalf (a panic) raised by an invariant inside
	// the hook must reach rapid, not be mistaken for a chain halt.
	if c.BlockHook != nil {
		c.BlockHook()
	}
	return true
}

func (c *Chain) advanceBlockRecovered(delta time.Duration) (ok bool) {
	defer func() {
		if r := recover(); r != nil {
			c.Halt = fmt.Sprintf("panic in End/BeginBlock leaving height %d: %v\n%s", c.Height(), r, debug.Stack())
			ev.AddExtraAll("chain_halts_seen(a halt is C37's subject; other checks end the case there)", 1)
			ok = false
		}
	}()
	if delta > 0 {
		c.TS.AdvanceBlock(delta)
	} else {
		c.TS.AdvanceBlock()
	}
	return true
}

func (c *Chain) AdvanceBlocks(n int, delta time.Duration) bool {
	for i := 0; i < n; i++ {
		if !c.AdvanceBlock(delta) {
			return false
		}
	}
	return true
}

// AdvanceEpoch advances block by block to the next epoch start.
func (c *Chain) AdvanceEpoch() bool {
	if c.Halt != "" {
		return false
	}
	next, err := c.TS.Keepers.Epochstorage.GetNextEpoch(c.TS.Ctx, c.TS.Keepers.Epochstorage.GetEpochStart(c.TS.Ctx))
	if err != nil {
		// cannot happen on a healthy chain; treat as halt-equivalent information
		c.Halt = "GetNextEpoch failed: " + err.Error()
		return false
	}
	for c.Height() < next {
		if !c.AdvanceBlock(0) {
			return false
		}
	}
	return true
}

func (c *Chain) AdvanceEpochs(n int) bool {
	for i := 0; i < n; i++ {
		if !c.AdvanceEpoch() {
			return false
		}
	}
	return true
}

func (c *Chain) EpochStart() uint64 { return c.TS.Keepers.Epochstorage.GetEpochStart(c.TS.Ctx) }

func (c *Chain) Denom() string { return c.TS.TokenDenom() }

// ---- bank -----------------------------------------------------------------------------------

// Balances returns a copy of every mock-bank balance (address -> coins).
func (c *Chain) Balances() map[string]sdk.Coins { return testkeeper.VerifBankSnapshot() }

// Supply sums all balances of a denom.
func (c *Chain) Supply(denom string) sdk.Int {
	total := sdk.ZeroInt()
	for _, coins := range testkeeper.VerifBankSnapshot() {
		total = total.Add(coins.AmountOf(denom))
	}
	return total
}

func (c *Chain) Balance(addr sdk.AccAddress) sdk.Int {
	return c.TS.Keepers.BankKeeper.GetBalance(c.TS.Ctx, addr, c.Denom()).Amount
}

func (c *Chain) ModuleBalance(module string) sdk.Coins {
	return c.TS.Keepers.BankKeeper.GetAllBalances(c.TS.Ctx, testkeeper.GetModuleAddress(module))
}

// ---- state digest ---------------------------------------------------------------------------

type storeKeysByName interface {
	StoreKeysByName() map[string]storetypes.StoreKey
}

// StoreNames lists all mounted stores.
func (c *Chain) StoreNames() []string {
	ms, ok := c.TS.Ctx.MultiStore().(storeKeysByName)
	if !ok {
		return nil
	}
	var names []string
	for n := range ms.StoreKeysByName() {
		names = append(names, n)
	}
	sort.Strings(names)
	return names
}

// StoreDigests returns a SHA-256 per mounted store over all its key/value pairs, plus one entry
// "bank" for the mock bank. Only valid on the block context (not inside Tx).
func (c *Chain) StoreDigests() map[string][32]byte {
	out := map[string][32]byte{}
	ms, ok := c.TS.Ctx.MultiStore().(storeKeysByName)
	if !ok {
		panic("VERIF-HARNESS-ERROR: multistore does not expose StoreKeysByName")
	}
	for name, key := range ms.StoreKeysByName() {
		h := sha256.New()
		it := c.TS.Ctx.MultiStore().GetKVStore(key).Iterator(nil, nil)
		var lenbuf [8]byte
		for ; it.Valid(); it.Next() {
			k, v := it.Key(), it.Value()
			binary.BigEndian.PutUint64(lenbuf[:], uint64(len(k)))
			h.Write(lenbuf[:])
			h.Write(k)
			binary.BigEndian.PutUint64(lenbuf[:], uint64(len(v)))
			h.Write(lenbuf[:])
			h.Write(v)
		}
		it.Close()
		var d [32]byte
		copy(d[:], h.Sum(nil))
		out[name] = d
	}
	// bank
	bal := testkeeper.VerifBankSnapshot()
	addrs := make([]string, 0, len(bal))
	for a := range bal {
		addrs = append(addrs, a)
	}
	sort.Strings(addrs)
	h := sha256.New()
	for _, a := range addrs {
		coins := bal[a]
		if coins.IsZero() {
			continue
		}
		h.Write([]byte(a))
		h.Write([]byte(coins.String()))
		h.Write([]byte{0})
	}
	var d [32]byte
	copy(d[:], h.Sum(nil))
	out["bank"] = d
	return out
}

// Digest is one hash over all StoreDigests.
func (c *Chain) Digest() [32]byte {
	ds := c.StoreDigests()
	names := make([]string, 0, len(ds))
	for n := range ds {
		names = append(names, n)
	}
	sort.Strings(names)
	h := sha256.New()
	for _, n := range names {
		d := ds[n]
		h.Write([]byte(n))
		h.Write(d[:])
	}
	var d [32]byte
	copy(d[:], h.Sum(nil))
	return d
}

// DiffStores names the stores whose digest differs between two StoreDigests results.
func DiffStores(a, b map[string][32]byte) []string {
	var out []string
	for n, da := range a {
		if db, ok := b[n]; !ok || da != db {
			out = append(out, n)
		}
	}
	for n := range b {
		if _, ok := a[n]; !ok {
			out = append(out, n)
		}
	}
	sort.Strings(out)
	return out
}

// HistTail returns the last n history lines.
func (c *Chain) HistTail(n int) []string {
	if len(c.Hist) <= n {
		return c.Hist
	}
	return c.Hist[len(c.Hist)-n:]
}
