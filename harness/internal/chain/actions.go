package chain

import (
	"fmt"
	"runtime/debug"
	"time"

	abci "github.com/cometbft/cometbft/abci/types"

	sdk "github.com/cosmos/cosmos-sdk/types"
	authtypes "github.com/cosmos/cosmos-sdk/x/auth/types"
	govtypes "github.com/cosmos/cosmos-sdk/x/gov/types"
	stakingtypes "github.com/cosmos/cosmos-sdk/x/staking/types"
	"github.com/lavanet/lava/v5/utils/sigs"
	dualstakingante "github.com/lavanet/lava/v5/x/dualstaking/ante"
	dualstakingtypes "github.com/lavanet/lava/v5/x/dualstaking/types"
	pairingtypes "github.com/lavanet/lava/v5/x/pairing/types"
	planstypes "github.com/lavanet/lava/v5/x/plans/types"
	projectstypes "github.com/lavanet/lava/v5/x/projects/types"
	rewardstypes "github.com/lavanet/lava/v5/x/rewards/types"
	subscriptiontypes "github.com/lavanet/lava/v5/x/subscription/types"
	"pgregory.net/rapid"
)

// The shared action alphabet. Every action draws its arguments from the current chain state
// (so most transactions are accepted), runs atomically through Chain.Tx and appends to the
// history. Actions t.Skip when they are not applicable.

func pick[T any](t *rapid.T, label string, xs []T) T {
	return xs[rapid.IntRange(0, len(xs)-1).Draw(t, label)]
}

func (w *World) coin(amount int64) sdk.Coin { return sdk.NewCoin(w.C.Denom(), sdk.NewInt(amount)) }

func (w *World) valAddr(i int) string { return sdk.ValAddress(w.Validators[i].Addr).String() }

// ---- provider staking ---------------------------------------------------------------------------

func (w *World) ActStakeNewChain(t *rapid.T) {
	p := pick(t, "provider", w.Providers)
	var free []string
	have := map[string]bool{}
	for _, c := range w.ChainsOf(p) {
		have[c] = true
	}
	for _, s := range w.Specs {
		if !have[s.Index] {
			free = append(free, s.Index)
		}
	}
	if len(free) == 0 {
		t.Skip("provider staked everywhere")
	}
	chain := pick(t, "chain", free)
	s := w.SpecByIndex(chain)
	stake := s.MinStakeProvider.Amount.Int64() * int64(rapid.SampledFrom([]int{1, 2, 10, 100}).Draw(t, "stakeMul"))
	geo := int32(1)
	if w.Cfg.Geo {
		geo = int32(rapid.IntRange(1, 7).Draw(t, "geo"))
	}
	eps := GenEndpoints(t, *s, geo, "ep")
	val := pick(t, "validator", w.Validators)
	_ = w.StakeProvider(p, chain, stake, geo, eps, uint64(rapid.SampledFrom([]int{0, 50, 100}).Draw(t, "commission")), val)
}

// ActModifyStake re-stakes an existing entry with a different amount / endpoints / commission.
func (w *World) ActModifyStake(t *rapid.T) {
	p := pick(t, "provider", w.Providers)
	chains := w.ChainsOf(p)
	if len(chains) == 0 {
		t.Skip("not staked")
	}
	chain := pick(t, "chain", chains)
	entry, _ := w.C.TS.Keepers.Epochstorage.GetStakeEntryCurrent(w.C.TS.Ctx, chain, p.Addr())
	s := w.SpecByIndex(chain)
	cur := entry.Stake.Amount.Int64()
	delta := int64(rapid.SampledFrom([]int{-1, 0, 1, 1000, 100000}).Draw(t, "stakeDelta"))
	amount := cur + delta
	if delta == -1 {
		amount = cur / 2
	}
	geo := entry.Geolocation
	eps := entry.Endpoints
	if rapid.Bool().Draw(t, "newEndpoints") {
		if w.Cfg.Geo {
			geo = int32(rapid.IntRange(1, 7).Draw(t, "geo"))
		}
		eps = GenEndpoints(t, *s, geo, "ep")
	}
	val := pick(t, "validator", w.Validators)
	_ = w.StakeProvider(p, chain, amount, geo, eps, uint64(rapid.SampledFrom([]int{0, 10, 50, 100}).Draw(t, "commission")), val)
}

func (w *World) ActMoveStake(t *rapid.T) {
	p := pick(t, "provider", w.Providers)
	chains := w.ChainsOf(p)
	if len(chains) < 2 {
		t.Skip("needs two chains")
	}
	src := pick(t, "src", chains)
	dst := pick(t, "dst", chains)
	if src == dst {
		t.Skip("same chain")
	}
	entry, _ := w.C.TS.Keepers.Epochstorage.GetStakeEntryCurrent(w.C.TS.Ctx, src, p.Addr())
	amount := entry.Stake.Amount.Int64() / int64(rapid.SampledFrom([]int{1, 2, 10, 1000}).Draw(t, "div"))
	if amount == 0 {
		amount = 1
	}
	msg := &pairingtypes.MsgMoveProviderStake{Creator: p.Vault(), SrcChain: src, DstChain: dst, Amount: w.coin(amount)}
	_ = w.C.Tx(fmt.Sprintf("moveStake(%s,%s->%s,%d)", p.Name, src, dst, amount), msg.ValidateBasic, func() error {
		_, err := w.C.TS.Servers.PairingServer.MoveProviderStake(w.C.TS.GoCtx, msg)
		return err
	})
}

// ActUnstake unstakes one chain, by the vault (normal) or by the provider address.
func (w *World) ActUnstake(t *rapid.T) {
	p := pick(t, "provider", w.Providers)
	chains := w.ChainsOf(p)
	if len(chains) == 0 {
		t.Skip("not staked")
	}
	chain := pick(t, "chain", chains)
	creator := p.Vault()
	by := "vault"
	if rapid.IntRange(0, 3).Draw(t, "byProvider") == 0 {
		creator, by = p.Addr(), "provider"
	}
	msg := &pairingtypes.MsgUnstakeProvider{Creator: creator, ChainID: chain, Validator: w.valAddr(rapid.IntRange(0, len(w.Validators)-1).Draw(t, "validator"))}
	_ = w.C.Tx(fmt.Sprintf("unstake(%s,%s,by=%s)", p.Name, chain, by), msg.ValidateBasic, func() error {
		_, err := w.C.TS.Servers.PairingServer.UnstakeProvider(w.C.TS.GoCtx, msg)
		return err
	})
}

func (w *World) ActFreeze(t *rapid.T) {
	p := pick(t, "provider", w.Providers)
	chains := w.ChainsOf(p)
	if len(chains) == 0 {
		t.Skip("not staked")
	}
	chain := pick(t, "chain", chains)
	if rapid.Bool().Draw(t, "unfreeze") {
		msg := &pairingtypes.MsgUnfreezeProvider{Creator: p.Addr(), ChainIds: []string{chain}}
		_ = w.C.Tx(fmt.Sprintf("unfreeze(%s,%s)", p.Name, chain), msg.ValidateBasic, func() error {
			_, err := w.C.TS.Servers.PairingServer.UnfreezeProvider(w.C.TS.GoCtx, msg)
			return err
		})
		return
	}
	msg := &pairingtypes.MsgFreezeProvider{Creator: p.Addr(), ChainIds: []string{chain}, Reason: "maintenance"}
	_ = w.C.Tx(fmt.Sprintf("freeze(%s,%s)", p.Name, chain), msg.ValidateBasic, func() error {
		_, err := w.C.TS.Servers.PairingServer.FreezeProvider(w.C.TS.GoCtx, msg)
		return err
	})
}

// ---- dualstaking --------------------------------------------------------------------------------

// delegatorPool: delegators plus provider vaults.
func (w *World) delegatorPool() []sigs.Account {
	out := append([]sigs.Account{}, w.Delegators...)
	for _, p := range w.Providers {
		out = append(out, *p.Acc.Vault)
	}
	return out
}

func (w *World) ActDualDelegate(t *rapid.T) {
	if len(w.Delegators) == 0 {
		t.Skip("no delegators")
	}
	d := pick(t, "delegator", w.Delegators)
	p := pick(t, "provider", w.Providers)
	amount := int64(rapid.SampledFrom([]int{1, 7, 1000, 100_000, 10_000_000}).Draw(t, "amount"))
	msg := &dualstakingtypes.MsgDelegate{Creator: d.Addr.String(), Validator: w.valAddr(rapid.IntRange(0, len(w.Validators)-1).Draw(t, "validator")),
		Provider: p.Addr(), ChainID: "", Amount: w.coin(amount)}
	_ = w.C.Tx(fmt.Sprintf("dualDelegate(%s->%s,%d)", short8(d.Addr.String()), p.Name, amount), msg.ValidateBasic, func() error {
		_, err := w.C.TS.Servers.DualstakingServer.Delegate(w.C.TS.GoCtx, msg)
		return err
	})
}

func (w *World) delegationsOf(delegator string) []dualstakingtypes.Delegation {
	res, err := w.C.TS.QueryDualstakingDelegatorProviders(delegator)
	if err != nil {
		return nil
	}
	return res.Delegations
}

func (w *World) ActDualRedelegate(t *rapid.T) {
	d := pick(t, "delegator", w.delegatorPool())
	dels := w.delegationsOf(d.Addr.String())
	if len(dels) == 0 {
		t.Skip("no delegations")
	}
	from := pick(t, "from", dels)
	to := pick(t, "to", w.Providers)
	amount := w.drawPart(t, from.Amount.Amount.Int64())
	msg := &dualstakingtypes.MsgRedelegate{Creator: d.Addr.String(), FromProvider: from.Provider, ToProvider: to.Addr(), Amount: w.coin(amount)}
	_ = w.C.Tx(fmt.Sprintf("dualRedelegate(%s:%s->%s,%d)", short8(d.Addr.String()), short8(from.Provider), to.Name, amount), msg.ValidateBasic, func() error {
		_, err := w.C.TS.Servers.DualstakingServer.Redelegate(w.C.TS.GoCtx, msg)
		return err
	})
}

func (w *World) drawPart(t *rapid.T, total int64) int64 {
	if total <= 0 {
		return 1
	}
	switch rapid.IntRange(0, 3).Draw(t, "part") {
	case 0:
		return total
	case 1:
		return total/2 + 1
	case 2:
		return 1
	default:
		return total/3 + 1
	}
}

func (w *World) ActDualUnbond(t *rapid.T) {
	d := pick(t, "delegator", w.delegatorPool())
	dels := w.delegationsOf(d.Addr.String())
	if len(dels) == 0 {
		t.Skip("no delegations")
	}
	from := pick(t, "from", dels)
	amount := w.drawPart(t, from.Amount.Amount.Int64())
	msg := &dualstakingtypes.MsgUnbond{Creator: d.Addr.String(), Validator: w.valAddr(rapid.IntRange(0, len(w.Validators)-1).Draw(t, "validator")),
		Provider: from.Provider, Amount: w.coin(amount)}
	_ = w.C.Tx(fmt.Sprintf("dualUnbond(%s:%s,%d)", short8(d.Addr.String()), short8(from.Provider), amount), msg.ValidateBasic, func() error {
		_, err := w.C.TS.Servers.DualstakingServer.Unbond(w.C.TS.GoCtx, msg)
		return err
	})
}

func (w *World) ActClaimRewards(t *rapid.T) {
	d := pick(t, "delegator", w.delegatorPool())
	prov := ""
	if rapid.Bool().Draw(t, "oneProvider") {
		prov = pick(t, "provider", w.Providers).Addr()
	}
	msg := &dualstakingtypes.MsgClaimRewards{Creator: d.Addr.String(), Provider: prov}
	_ = w.C.Tx(fmt.Sprintf("claimRewards(%s,%s)", short8(d.Addr.String()), short8(prov)), msg.ValidateBasic, func() error {
		_, err := w.C.TS.Servers.DualstakingServer.ClaimRewards(w.C.TS.GoCtx, msg)
		return err
	})
}

// ---- cosmos staking (validator side) ---------------------------------------------------------------

func (w *World) ActValDelegate(t *rapid.T) {
	d := pick(t, "delegator", w.delegatorPool())
	v := pick(t, "validator", w.Validators)
	amount := int64(rapid.SampledFrom([]int{1, 13, 1000, 1_000_000}).Draw(t, "amount"))
	msg := stakingtypes.NewMsgDelegate(d.Addr, sdk.ValAddress(v.Addr), w.coin(amount))
	_ = w.C.Tx(fmt.Sprintf("valDelegate(%s,%d)", short8(d.Addr.String()), amount), msg.ValidateBasic, func() error {
		_, err := w.C.TS.Servers.StakingServer.Delegate(w.C.TS.GoCtx, msg)
		return err
	})
}

func (w *World) ActValUnbond(t *rapid.T) {
	d := pick(t, "delegator", w.delegatorPool())
	ts := w.C.TS
	dels := ts.Keepers.StakingKeeper.GetAllDelegatorDelegations(ts.Ctx, d.Addr)
	if len(dels) == 0 {
		t.Skip("no validator delegations")
	}
	del := pick(t, "delegation", dels)
	val, found := ts.Keepers.StakingKeeper.GetValidator(ts.Ctx, del.GetValidatorAddr())
	if !found {
		t.Skip("validator gone")
	}
	tokens := val.TokensFromShares(del.Shares).TruncateInt().Int64()
	amount := w.drawPart(t, tokens)
	msg := stakingtypes.NewMsgUndelegate(d.Addr, del.GetValidatorAddr(), w.coin(amount))
	_ = w.C.Tx(fmt.Sprintf("valUnbond(%s,%d of %d)", short8(d.Addr.String()), amount, tokens), msg.ValidateBasic, func() error {
		_, err := ts.Servers.StakingServer.Undelegate(ts.GoCtx, msg)
		return err
	})
}

func (w *World) ActValRedelegate(t *rapid.T) {
	if len(w.Validators) < 2 {
		t.Skip("one validator")
	}
	d := pick(t, "delegator", w.delegatorPool())
	ts := w.C.TS
	dels := ts.Keepers.StakingKeeper.GetAllDelegatorDelegations(ts.Ctx, d.Addr)
	if len(dels) == 0 {
		t.Skip("no validator delegations")
	}
	del := pick(t, "delegation", dels)
	to := pick(t, "to", w.Validators)
	if sdk.ValAddress(to.Addr).Equals(del.GetValidatorAddr()) {
		t.Skip("same validator")
	}
	val, found := ts.Keepers.StakingKeeper.GetValidator(ts.Ctx, del.GetValidatorAddr())
	if !found {
		t.Skip("validator gone")
	}
	tokens := val.TokensFromShares(del.Shares).TruncateInt().Int64()
	amount := w.drawPart(t, tokens)
	msg := stakingtypes.NewMsgBeginRedelegate(d.Addr, del.GetValidatorAddr(), sdk.ValAddress(to.Addr), w.coin(amount))
	_ = w.C.Tx(fmt.Sprintf("valRedelegate(%s,%d)", short8(d.Addr.String()), amount), msg.ValidateBasic, func() error {
		// the ante handler of the real chain disables the dualstaking hooks for this message
		rf := dualstakingante.NewRedelegationFlager(ts.Keepers.Dualstaking)
		if err := rf.DisableRedelegationHooks(ts.Ctx, []sdk.Msg{msg}); err != nil {
			return err
		}
		_, err := ts.Servers.StakingServer.BeginRedelegate(ts.GoCtx, msg)
		return err
	})
}

func (w *World) ActSlash(t *rapid.T) {
	v := pick(t, "validator", w.Validators)
	frac := sdk.NewDecWithPrec(int64(rapid.SampledFrom([]int{1, 5, 33, 50}).Draw(t, "slashPct")), 2)
	w.Slash(v, frac)
}

// Slash slashes validator v by frac at the start of a new block (see below).
func (w *World) Slash(v sigs.Account, frac sdk.Dec) {
	ts := w.C.TS
	// A validator is slashed by the slashing / evidence modules in BeginBlock, and the dualstaking
	// BeginBlocker (HandleSlashedValidators) runs later in the SAME BeginBlock (module order in
	// app.go: ... slashing, evidence, dualstaking ...), so no transaction can ever see the state
	// between the slash and the re-balancing. Model exactly that: start a new block, then slash
	// through the slashing keeper and run the dualstaking BeginBlocker at once. A panic in either is
	// a panic in BeginBlock, i.e. a chain halt.
	if !w.C.AdvanceBlock(0) {
		return
	}
	val, found := ts.Keepers.StakingKeeper.GetValidator(ts.Ctx, sdk.ValAddress(v.Addr))
	if !found || val.IsUnbonded() || val.Tokens.IsZero() {
		w.C.Logf("slash(validator %s) skipped: validator cannot be slashed", short8(v.Addr.String()))
		return
	}
	w.C.Logf("BeginBlock: slash(validator %s, %s) + dualstaking BeginBlocker", short8(v.Addr.String()), frac)
	func() {
		defer func() {
			if r := recover(); r != nil {
				w.C.Halt = fmt.Sprintf("panic in BeginBlock (validator slash + dualstaking BeginBlocker) at height %d: %v\n%s", w.C.Height(), r, debug.Stack())
			}
		}()
		power := val.ConsensusPower(ts.Keepers.StakingKeeper.PowerReduction(ts.Ctx))
		consAddr, _ := val.GetConsAddr()
		ts.Keepers.SlashingKeeper.Slash(ts.Ctx, consAddr, frac, power, ts.Ctx.BlockHeight())
		ts.Keepers.Dualstaking.BeginBlock(ts.Ctx, abci.RequestBeginBlock{})
	}()
}

// ---- subscriptions / projects ------------------------------------------------------------------------

func (w *World) ActSubBuy(t *rapid.T) {
	c := pick(t, "consumer", w.Consumers)
	plan := pick(t, "plan", w.Plans)
	months := rapid.SampledFrom([]int{1, 1, 2, 3, 6, 12, 13}).Draw(t, "months")
	adv := rapid.IntRange(0, 3).Draw(t, "advance") == 0
	auto := rapid.IntRange(0, 3).Draw(t, "autoRenew") == 0
	msg := &subscriptiontypes.MsgBuy{Creator: c.Addr(), Consumer: c.Addr(), Index: plan.Index, Duration: uint64(months), AutoRenewal: auto, AdvancePurchase: adv}
	_ = w.C.Tx(fmt.Sprintf("subBuy(%s,%s,%dm,auto=%v,adv=%v)", c.Name, plan.Index, months, auto, adv), msg.ValidateBasic, func() error {
		_, err := w.C.TS.Servers.SubscriptionServer.Buy(w.C.TS.GoCtx, msg)
		return err
	})
}

func (w *World) ActAutoRenew(t *rapid.T) {
	c := pick(t, "consumer", w.Consumers)
	enable := rapid.Bool().Draw(t, "enable")
	idx := ""
	if enable && rapid.Bool().Draw(t, "withPlan") {
		idx = pick(t, "plan", w.Plans).Index
	}
	msg := &subscriptiontypes.MsgAutoRenewal{Creator: c.Addr(), Consumer: c.Addr(), Enable: enable, Index: idx}
	_ = w.C.Tx(fmt.Sprintf("autoRenew(%s,%v,%s)", c.Name, enable, idx), msg.ValidateBasic, func() error {
		_, err := w.C.TS.Servers.SubscriptionServer.AutoRenewal(w.C.TS.GoCtx, msg)
		return err
	})
}

var projNames = []string{"pa", "pb"}

func (w *World) ActAddProject(t *rapid.T) {
	c := pick(t, "consumer", w.Consumers)
	name := pick(t, "projName", projNames)
	dev := w.devKeyFor(t, c)
	pd := projectstypes.ProjectData{Name: name, Enabled: true, ProjectKeys: []projectstypes.ProjectKey{projectstypes.ProjectDeveloperKey(dev.Addr.String())}}
	msg := &subscriptiontypes.MsgAddProject{Creator: c.Addr(), ProjectData: pd}
	_ = w.C.Tx(fmt.Sprintf("addProject(%s,%s,dev=%s)", c.Name, name, short8(dev.Addr.String())), msg.ValidateBasic, func() error {
		_, err := w.C.TS.Servers.SubscriptionServer.AddProject(w.C.TS.GoCtx, msg)
		return err
	})
}

func (w *World) ActDelProject(t *rapid.T) {
	c := pick(t, "consumer", w.Consumers)
	name := pick(t, "projName", projNames)
	msg := &subscriptiontypes.MsgDelProject{Creator: c.Addr(), Name: name}
	_ = w.C.Tx(fmt.Sprintf("delProject(%s,%s)", c.Name, name), msg.ValidateBasic, func() error {
		_, err := w.C.TS.Servers.SubscriptionServer.DelProject(w.C.TS.GoCtx, msg)
		return err
	})
}

// devKeyFor picks an existing developer key of the world (possibly owned by another consumer) or
// creates a new one for c.
func (w *World) devKeyFor(t *rapid.T, c *Cons) sigs.Account {
	var pool []sigs.Account
	for _, o := range w.Consumers {
		pool = append(pool, o.Devs...)
	}
	if len(pool) > 0 && rapid.IntRange(0, 2).Draw(t, "reuseKey") > 0 {
		return pick(t, "devKey", pool)
	}
	if len(c.Devs) >= 4 {
		return pick(t, "devKeyOwn", c.Devs)
	}
	acc := w.newAccount(0)
	c.Devs = append(c.Devs, acc)
	return acc
}

func (w *World) projectIDs(c *Cons) []string {
	ids := []string{AdminProject(c.Addr())}
	for _, n := range projNames {
		ids = append(ids, projectstypes.ProjectIndex(c.Addr(), n))
	}
	return ids
}

func (w *World) ActAddKeys(t *rapid.T) {
	c := pick(t, "consumer", w.Consumers)
	proj := pick(t, "project", w.projectIDs(c))
	dev := w.devKeyFor(t, c)
	key := projectstypes.ProjectDeveloperKey(dev.Addr.String())
	if rapid.IntRange(0, 4).Draw(t, "adminKey") == 0 {
		key = projectstypes.ProjectAdminKey(dev.Addr.String())
	}
	msg := &projectstypes.MsgAddKeys{Creator: c.Addr(), Project: proj, ProjectKeys: []projectstypes.ProjectKey{key}}
	_ = w.C.Tx(fmt.Sprintf("addKeys(%s,%s,%s kinds=%d)", c.Name, projShort(proj), short8(dev.Addr.String()), key.Kinds), msg.ValidateBasic, func() error {
		_, err := w.C.TS.Servers.ProjectServer.AddKeys(w.C.TS.GoCtx, msg)
		return err
	})
}

func (w *World) ActDelKeys(t *rapid.T) {
	c := pick(t, "consumer", w.Consumers)
	proj := pick(t, "project", w.projectIDs(c))
	if len(c.Devs) == 0 {
		t.Skip("no keys")
	}
	dev := pick(t, "devKey", c.Devs)
	msg := &projectstypes.MsgDelKeys{Creator: c.Addr(), Project: proj, ProjectKeys: []projectstypes.ProjectKey{projectstypes.ProjectDeveloperKey(dev.Addr.String())}}
	_ = w.C.Tx(fmt.Sprintf("delKeys(%s,%s,%s)", c.Name, projShort(proj), short8(dev.Addr.String())), msg.ValidateBasic, func() error {
		_, err := w.C.TS.Servers.ProjectServer.DelKeys(w.C.TS.GoCtx, msg)
		return err
	})
}

// GenPolicy draws a valid non-plan policy.
func (w *World) GenPolicy(t *rapid.T, label string) planstypes.Policy {
	total := uint64(rapid.SampledFrom([]int{50, 1000, 100_000, 1_000_000}).Draw(t, label+"_totalCU"))
	epochCU := total / uint64(rapid.SampledFrom([]int{1, 10}).Draw(t, label+"_epochDiv"))
	if epochCU == 0 {
		epochCU = 1
	}
	pol := planstypes.Policy{TotalCuLimit: total, EpochCuLimit: epochCU, MaxProvidersToPair: uint64(rapid.IntRange(2, 6).Draw(t, label+"_maxProviders")), GeolocationProfile: 1}
	if w.Cfg.Geo {
		pol.GeolocationProfile = int32(rapid.SampledFrom([]int{1, 2, 3, 4, 6, 7, int(planstypes.Geolocation_GL)}).Draw(t, label+"_geo"))
	}
	if w.Cfg.RichPolicy {
		w.GenPolicyExtras(t, &pol, label, false)
	}
	return pol
}

func (w *World) ActSetPolicy(t *rapid.T) {
	c := pick(t, "consumer", w.Consumers)
	proj := pick(t, "project", w.projectIDs(c))
	pol := w.GenPolicy(t, "pol")
	if rapid.Bool().Draw(t, "subscriptionPolicy") {
		msg := &projectstypes.MsgSetSubscriptionPolicy{Creator: c.Addr(), Projects: []string{proj}, Policy: &pol}
		_ = w.C.Tx(fmt.Sprintf("setSubPolicy(%s,%s,%s)", c.Name, projShort(proj), PolicyStr(pol)), msg.ValidateBasic, func() error {
			_, err := w.C.TS.Servers.ProjectServer.SetSubscriptionPolicy(w.C.TS.GoCtx, msg)
			return err
		})
		return
	}
	msg := &projectstypes.MsgSetPolicy{Creator: c.Addr(), Project: proj, Policy: &pol}
	_ = w.C.Tx(fmt.Sprintf("setAdminPolicy(%s,%s,%s)", c.Name, projShort(proj), PolicyStr(pol)), msg.ValidateBasic, func() error {
		_, err := w.C.TS.Servers.ProjectServer.SetPolicy(w.C.TS.GoCtx, msg)
		return err
	})
}

func PolicyStr(p planstypes.Policy) string {
	s := fmt.Sprintf("{tot=%d ep=%d max=%d geo=%d mode=%d sel=%d", p.TotalCuLimit, p.EpochCuLimit, p.MaxProvidersToPair, p.GeolocationProfile, p.SelectedProvidersMode, len(p.SelectedProviders))
	for _, cp := range p.ChainPolicies {
		s += " " + cp.ChainId + ":["
		for _, r := range cp.Requirements {
			s += fmt.Sprintf("(%s/%s ext=%v mixed=%v)", r.Collection.ApiInterface, r.Collection.AddOn, r.Extensions, r.Mixed)
		}
		s += "]"
	}
	return s + "}"
}

// ---- governance -----------------------------------------------------------------------------------------

func (w *World) ActPlanProposal(t *rapid.T) {
	ts := w.C.TS
	switch rapid.SampledFrom([]string{"modify", "modify", "add", "del"}).Draw(t, "planOp") {
	case "modify":
		old := pick(t, "plan", w.Plans)
		p := w.GenPlan(t, old.Index, "newplan")
		_ = w.C.Tx(fmt.Sprintf("planModify(%s,price=%s,%s)", p.Index, p.Price.Amount, PolicyStr(p.PlanPolicy)), p.ValidatePlan, func() error {
			return ts.TxProposalAddPlans(p)
		})
	case "add":
		idx := fmt.Sprintf("plan%d", len(w.Plans))
		if len(w.Plans) >= 4 {
			t.Skip("enough plans")
		}
		p := w.GenPlan(t, idx, "newplan")
		if err := w.C.Tx(fmt.Sprintf("planAdd(%s)", idx), p.ValidatePlan, func() error { return ts.TxProposalAddPlans(p) }); err == nil {
			w.Plans = append(w.Plans, p)
		}
	case "del":
		p := pick(t, "plan", w.Plans)
		_ = w.C.Tx(fmt.Sprintf("planDel(%s)", p.Index), nil, func() error { return ts.TxProposalDelPlans(p.Index) })
	}
}

// ---- IPRPC ---------------------------------------------------------------------------------------------------

func (w *World) ActIprpcSetData(t *rapid.T) {
	ts := w.C.TS
	var subs []string
	for i, c := range w.Consumers {
		if rapid.Bool().Draw(t, fmt.Sprintf("iprpcSub%d", i)) {
			subs = append(subs, c.Addr())
		}
	}
	cost := int64(rapid.SampledFrom([]int{0, 100, 1000}).Draw(t, "minCost"))
	authority := authtypes.NewModuleAddress(govtypes.ModuleName).String()
	msg := &rewardstypes.MsgSetIprpcData{Authority: authority, MinIprpcCost: w.coin(cost), IprpcSubscriptions: subs}
	_ = w.C.Tx(fmt.Sprintf("iprpcSetData(cost=%d,subs=%d)", cost, len(subs)), msg.ValidateBasic, func() error {
		_, err := ts.Servers.RewardsServer.SetIprpcData(ts.GoCtx, msg)
		return err
	})
}

func (w *World) ActIprpcFund(t *rapid.T) {
	ts := w.C.TS
	c := pick(t, "funder", w.Consumers)
	spec := pick(t, "spec", w.Specs)
	duration := uint64(rapid.IntRange(1, 4).Draw(t, "duration"))
	amount := int64(rapid.SampledFrom([]int{1000, 5000, 99_999, 1_000_000}).Draw(t, "fund"))
	msg := &rewardstypes.MsgFundIprpc{Creator: c.Addr(), Spec: spec.Index, Duration: duration, Amounts: sdk.NewCoins(w.coin(amount))}
	_ = w.C.Tx(fmt.Sprintf("iprpcFund(%s,%s,%dm,%d)", c.Name, spec.Index, duration, amount), msg.ValidateBasic, func() error {
		_, err := ts.Servers.RewardsServer.FundIprpc(ts.GoCtx, msg)
		return err
	})
}

// ---- time ------------------------------------------------------------------------------------------------------

func (w *World) ActAdvanceBlocks(t *rapid.T) {
	n := rapid.SampledFrom([]int{1, 1, 2, 5}).Draw(t, "blocks")
	w.C.Logf("advanceBlocks(%d)", n)
	w.C.AdvanceBlocks(n, 0)
}

func (w *World) ActAdvanceEpoch(t *rapid.T) {
	n := rapid.SampledFrom([]int{1, 1, 1, 2, 4}).Draw(t, "epochs")
	w.C.Logf("advanceEpochs(%d)", n)
	w.C.AdvanceEpochs(n)
}

// ActAdvanceTime jumps block time by hours or days in one block and then completes the epoch.
func (w *World) ActAdvanceTime(t *rapid.T) {
	hours := rapid.SampledFrom([]int{1, 6, 23, 24, 25, 24 * 7, 24 * 15}).Draw(t, "hours")
	w.C.Logf("advanceTime(%dh)", hours)
	if w.C.AdvanceBlock(time.Duration(hours) * time.Hour) {
		w.C.AdvanceEpoch()
	}
}

// ActAdvanceMonth moves just past the next month boundary (31 days), in day steps so that
// timers fire close to their expiry, then completes the epoch.
func (w *World) ActAdvanceMonth(t *rapid.T) {
	days := rapid.SampledFrom([]int{28, 30, 31, 32}).Draw(t, "days")
	w.C.Logf("advanceMonth(%dd)", days)
	for i := 0; i < days; i++ {
		if !w.C.AdvanceBlock(24 * time.Hour) {
			return
		}
	}
	w.C.AdvanceEpoch()
}

func short8(addr string) string {
	if len(addr) > 8 {
		return addr[len(addr)-6:]
	}
	return addr
}

func projShort(id string) string {
	if len(id) > 10 {
		return "…" + id[len(id)-8:]
	}
	return id
}
