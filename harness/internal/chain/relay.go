package chain

import (
	"fmt"

	sdk "github.com/cosmos/cosmos-sdk/types"
	"github.com/lavanet/lava/v5/utils/sigs"
	pairingtypes "github.com/lavanet/lava/v5/x/pairing/types"
	"pgregory.net/rapid"
)

// RelaySpec describes one relay session of a payment message, before signing.
type RelaySpec struct {
	Cons     *Cons
	Signer   sigs.Account // developer key (or badge user) that signs the session
	Prov     *Prov
	Chain    string
	Epoch    int64 // block the relay claims (inside some epoch)
	Session  uint64
	CuSum    uint64
	RelayNum uint64
	Qos      *pairingtypes.QualityOfServiceReport
	QosExc   *pairingtypes.QualityOfServiceReport
	Unresp   []*pairingtypes.ReportedProvider
	Badge    *pairingtypes.Badge
	LavaID   string
}

// Build signs the session.
func (r RelaySpec) Build(ctx sdk.Context) (*pairingtypes.RelaySession, error) {
	lavaID := r.LavaID
	if lavaID == "" {
		lavaID = ctx.BlockHeader().ChainID
	}
	rs := &pairingtypes.RelaySession{
		SpecId: r.Chain, ContentHash: []byte("verif-content-hash-0123456789abcd"), SessionId: r.Session, CuSum: r.CuSum,
		Provider: r.Prov.Addr(), RelayNum: r.RelayNum, QosReport: r.Qos, Epoch: r.Epoch, UnresponsiveProviders: r.Unresp,
		LavaChainId: lavaID, Badge: r.Badge, QosExcellenceReport: r.QosExc,
	}
	sig, err := sigs.Sign(r.Signer.SK, *rs)
	if err != nil {
		return nil, err
	}
	rs.Sig = sig
	return rs, nil
}

func (r RelaySpec) String() string {
	q := ""
	if r.Qos != nil {
		q = fmt.Sprintf(" qos=(%s,%s,%s)", r.Qos.Latency, r.Qos.Availability, r.Qos.Sync)
	}
	if r.QosExc != nil {
		q += " qosExc"
	}
	if len(r.Unresp) > 0 {
		q += fmt.Sprintf(" unresp=%d", len(r.Unresp))
	}
	if r.Badge != nil {
		q += fmt.Sprintf(" badge(alloc=%d,ep=%d)", r.Badge.CuAllocation, r.Badge.Epoch)
	}
	return fmt.Sprintf("{%s key=%s ->%s %s ep=%d sess=%d cu=%d%s}", r.Cons.Name, short8(r.Signer.Addr.String()), r.Prov.Name, r.Chain, r.Epoch, r.Session, r.CuSum, q)
}

// PairedProviders returns the current pairing of a developer key on a chain (generation only).
func (w *World) PairedProviders(chain, dev string) []*Prov {
	res, err := w.C.TS.QueryPairingGetPairing(chain, dev)
	if err != nil {
		return nil
	}
	var out []*Prov
	for _, e := range res.Providers {
		if p := w.ProvByAddr(e.Address); p != nil {
			out = append(out, p)
		}
	}
	return out
}

// EpochsInMemory returns epoch starts from the current one backwards that are still in memory.
func (w *World) EpochsInMemory() []uint64 {
	ks := w.C.TS.Keepers.Epochstorage
	ctx := w.C.TS.Ctx
	earliest := ks.GetEarliestEpochStart(ctx)
	cur := ks.GetEpochStart(ctx)
	out := []uint64{cur}
	for cur > earliest {
		prev, err := ks.GetPreviousEpochStartForBlock(ctx, cur)
		if err != nil || prev >= cur {
			break
		}
		cur = prev
		out = append(out, cur)
	}
	return out
}

// GenQos draws a QoS report with every component in [0,1] (the form ComputeQoS accepts).
func GenQos(t *rapid.T, label string) *pairingtypes.QualityOfServiceReport {
	d := func(l string) sdk.Dec {
		return sdk.NewDecWithPrec(int64(rapid.SampledFrom([]int{0, 1, 50, 99, 100}).Draw(t, label+l)), 2)
	}
	return &pairingtypes.QualityOfServiceReport{Latency: d("_lat"), Availability: d("_avail"), Sync: d("_sync")}
}

// GenQosExcellence draws an excellence report (latency/sync in seconds > 0, availability (0,1]).
func GenQosExcellence(t *rapid.T, label string) *pairingtypes.QualityOfServiceReport {
	lat := sdk.NewDecWithPrec(int64(rapid.SampledFrom([]int{1, 10, 100, 1000, 100000}).Draw(t, label+"_lat")), 3)
	sync := sdk.NewDecWithPrec(int64(rapid.SampledFrom([]int{1, 10, 100, 1000, 100000}).Draw(t, label+"_sync")), 3)
	avail := sdk.NewDecWithPrec(int64(rapid.SampledFrom([]int{1, 50, 90, 100}).Draw(t, label+"_avail")), 2)
	return &pairingtypes.QualityOfServiceReport{Latency: lat, Availability: avail, Sync: sync}
}

// RelayOpts tunes GenRelay.
type RelayOpts struct {
	SessionPool   int      // session ids drawn from 1..SessionPool (0 = always fresh)
	CuChoices     []uint64 // CU sums to draw from
	PastEpochs    bool     // also claim older epochs in memory
	Qos           bool
	QosExcellence bool
	Unresponsive  bool
	AnyProvider   bool // sometimes name a provider outside the pairing
}

// GenRelay draws one plausible relay for a live consumer.
func (w *World) GenRelay(t *rapid.T, o RelayOpts) (RelaySpec, bool) {
	cons := w.LiveConsumers()
	if len(cons) == 0 {
		return RelaySpec{}, false
	}
	c := pick(t, "consumer", cons)
	dev := pick(t, "devKey", c.Devs)
	chain := pick(t, "chain", w.Specs).Index
	paired := w.PairedProviders(chain, dev.Addr.String())
	var prov *Prov
	if len(paired) == 0 || (o.AnyProvider && rapid.IntRange(0, 5).Draw(t, "unpaired") == 0) {
		prov = pick(t, "anyProvider", w.Providers)
	} else {
		prov = pick(t, "pairedProvider", paired)
	}
	epochs := w.EpochsInMemory()
	epoch := epochs[0]
	if o.PastEpochs && len(epochs) > 1 && rapid.IntRange(0, 2).Draw(t, "pastEpoch") == 0 {
		epoch = pick(t, "epoch", epochs)
	}
	block := int64(epoch)
	if uint64(block) < w.C.Height() && rapid.IntRange(0, 3).Draw(t, "midEpoch") == 0 {
		block++ // a block inside the epoch, not its start
	}
	var sess uint64
	if o.SessionPool > 0 {
		sess = uint64(rapid.IntRange(1, o.SessionPool).Draw(t, "session"))
	} else {
		sess = w.NextSess
		w.NextSess++
	}
	cus := o.CuChoices
	if len(cus) == 0 {
		cus = []uint64{1, 10, 100, 1000, 10_000}
	}
	r := RelaySpec{Cons: c, Signer: dev, Prov: prov, Chain: chain, Epoch: block, Session: sess, CuSum: pick(t, "cu", cus), RelayNum: uint64(rapid.IntRange(0, 5).Draw(t, "relayNum"))}
	if o.Qos && rapid.Bool().Draw(t, "withQos") {
		r.Qos = GenQos(t, "qos")
	}
	if o.QosExcellence && rapid.Bool().Draw(t, "withQosExc") {
		r.QosExc = GenQosExcellence(t, "qosExc")
	}
	if o.Unresponsive && len(paired) > 1 && rapid.IntRange(0, 2).Draw(t, "withUnresp") == 0 {
		for _, p := range paired {
			if p != prov && rapid.Bool().Draw(t, "unresp_"+p.Name) {
				r.Unresp = append(r.Unresp, &pairingtypes.ReportedProvider{Address: p.Addr(), Disconnections: 1, Errors: 2, TimestampS: w.C.TS.Ctx.BlockTime().Unix()})
			}
		}
	}
	return r, true
}

// SendRelays delivers one MsgRelayPayment from provider with the given relays.
func (w *World) SendRelays(sender *Prov, relays []RelaySpec) (*pairingtypes.MsgRelayPayment, error) {
	msg := &pairingtypes.MsgRelayPayment{Creator: sender.Addr(), DescriptionString: "verif"}
	desc := ""
	for _, r := range relays {
		rs, err := r.Build(w.C.TS.Ctx)
		if err != nil {
			return nil, fmt.Errorf("VERIF-HARNESS-ERROR: cannot sign relay: %w", err)
		}
		msg.Relays = append(msg.Relays, rs)
		desc += r.String()
	}
	err := w.C.Tx("relayPayment(by "+sender.Name+": "+desc+")", msg.ValidateBasic, func() error {
		_, err := w.C.TS.Servers.PairingServer.RelayPayment(w.C.TS.GoCtx, msg)
		return err
	})
	return msg, err
}

// ActRelayPayment: one payment tx with 1-3 generated relays of one provider.
func (w *World) ActRelayPayment(o RelayOpts) func(t *rapid.T) {
	return func(t *rapid.T) {
		first, ok := w.GenRelay(t, o)
		if !ok {
			t.Skip("no live consumer")
		}
		relays := []RelaySpec{first}
		n := rapid.SampledFrom([]int{1, 1, 2, 3}).Draw(t, "nRelays")
		for i := 1; i < n; i++ {
			r, ok := w.GenRelay(t, o)
			if !ok {
				break
			}
			r.Prov = first.Prov
			relays = append(relays, r)
		}
		_, _ = w.SendRelays(first.Prov, relays)
	}
}
