package provider

import (
	"os"
	"testing"

	"verifharness/internal/ev"
)

func TestMain(m *testing.M) {
	code := m.Run()
	ev.Flush()
	if fx != nil && fx.closeServer != nil {
		fx.closeServer()
	}
	os.Exit(code)
}
