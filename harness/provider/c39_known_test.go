package provider

import (
	"context"
	"testing"
	"time"

	"github.com/lavanet/lava/v5/protocol/chaintracker"
	"github.com/lavanet/lava/v5/protocol/lavasession"
	"github.com/lavanet/lava/v5/protocol/rpcprovider"

	"verifharness/internal/ev"
)

// TestC39Known_missingCuKeptOnReject: deterministic witness. Max CU 25, missing-CU threshold 0.1.
// Two valid relays of 10 CU are served (used CU 20). The third request is signed by the same paired
// consumer with CU sum 29 instead of 30: PrepareSessionForUsage books the 1 missing CU
// (SafeAddMissingComputeUnits: 1+20 <= 25, 1 <= 2, 1 <= 20) and only then validateAndAddUsedCU
// rejects the relay (20 + 9 > 25). The request is rejected, but the consumer's missing-CU counter
// stays at 1: a rejected request changed the provider's CU state.
func TestC39Known_missingCuKeptOnReject(t *testing.T) {
	f, err := getFixture()
	if err != nil {
		t.Fatalf("%s", ev.HarnessError("cannot build the provider fixture: %v", err))
	}
	endpoint := &lavasession.RPCProviderEndpoint{ChainID: specID, ApiInterface: apiIface, Geolocation: 1}
	c := &caseState{f: f, current: firstEpoch, blocked: firstEpoch - distance, accepted: map[string]bool{}, classes: map[string]bool{}, salt: 7 << 8}
	c.psm = lavasession.NewProviderSessionManager(endpoint, distance)
	c.psm.UpdateEpoch(firstEpoch)
	c.st = &mockStateTracker{me: f.provider.Addr.String(), latest: firstEpoch + 3, maxCU: 25, stranger: pairInvalid,
		pairing: map[string]map[uint64]pairOutcome{f.consumer.Addr.String(): {firstEpoch: pairValid}}}
	c.rw = &mockRewardServer{ch: make(chan struct{}, 64)}
	c.srv = &rpcprovider.RPCProviderServer{}
	c.srv.ServeRPCRequests(context.Background(), endpoint, f.parser, c.rw, c.psm, &mockChainTracker{&chaintracker.DummyChainTracker{}}, f.provider.SK,
		nil, false, f.router, c.st, f.provider.Addr, lavaChainID, 0.1, nil, nil, nil, nil, nil, 2, nil, nil, false)
	send := func(mod func(cu *uint64)) error {
		req := c.buildValid(firstEpoch, 1, "eth_chainId")
		if mod != nil {
			mod(&req.RelaySession.CuSum)
			sign(f.consumer, req.RelaySession)
		}
		ctx, cancel := context.WithTimeout(context.Background(), 20*time.Second)
		defer cancel()
		_, err := c.srv.Relay(ctx, req)
		return err
	}
	for i := 0; i < 2; i++ {
		if err := send(nil); err != nil {
			t.Fatalf("%s", ev.HarnessError("valid relay %d rejected: %v", i+1, err))
		}
	}
	_, missBefore := snapshot(c.psm)
	err = send(func(cu *uint64) { *cu-- })
	if err == nil {
		t.Fatalf("%s", ev.HarnessError("the short request was served; the witness needs it rejected"))
	}
	_, missAfter := snapshot(c.psm)
	if missAfter != missBefore {
		t.Fatalf("%s", ev.Violation("C39", "known finding %s: request with CU sum 29 (expected 30; used 20 of max 25) was rejected (%v) but the consumer's missing-CU counter went %d -> %d (single_provider_session.go PrepareSessionForUsage: SafeAddMissingComputeUnits runs before validateAndAddUsedCU and is not undone when the latter rejects)", findingMissingCU, err, missBefore, missAfter))
	}
}
