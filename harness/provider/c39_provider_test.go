package provider

import (
	"bytes"
	"context"
	"encoding/binary"
	"encoding/json"
	"fmt"
	"io"
	"net/http"
	"os"
	"reflect"
	"sort"
	"strings"
	"sync"
	"sync/atomic"
	"testing"
	"time"

	"github.com/lavanet/lava/v5/protocol/chainlib"
	"github.com/lavanet/lava/v5/protocol/chainlib/extensionslib"
	"github.com/lavanet/lava/v5/protocol/chaintracker"
	"github.com/lavanet/lava/v5/protocol/lavasession"
	"github.com/lavanet/lava/v5/protocol/rpcprovider"
	"github.com/lavanet/lava/v5/utils"
	"github.com/lavanet/lava/v5/utils/sigs"
	pairingtypes "github.com/lavanet/lava/v5/x/pairing/types"
	spectypes "github.com/lavanet/lava/v5/x/spec/types"
	"github.com/rs/zerolog"
	zerologlog "github.com/rs/zerolog/log"
	"pgregory.net/rapid"

	"verifharness/internal/ev"
)

// ---- C39: providers serve only authentic, valid relay requests ---------------------------------
//
// A real RPCProviderServer (ServeRPCRequests + Relay) with a real ProviderSessionManager, the real
// ETH1/jsonrpc chain parser and chain router (talking to a local stub node), a mock state tracker
// (pairing outcomes, max CU, virtual epoch) and a mock reward server (records the proofs the
// provider would claim). Every step sends one request through Relay(): a valid one (control) or a
// single-field corruption of a valid one, in three signing variants (left as is / re-signed by the
// paired consumer / signed by an unpaired key).

const (
	specID      = "ETH1"
	apiIface    = "jsonrpc"
	lavaChainID = "lava"
	distance    = 40 // blockDistanceForEpochValidity
	epochSize   = 20
	firstEpoch  = 200 // current epoch at the start of a case; 180 is still valid, 160 and older are not
)

type fixture struct {
	parser      chainlib.ChainParser
	router      chainlib.ChainRouter
	closeServer func()
	nodeHits    int64
	nodeDown    int32 // when set the stub node drops the connection instead of answering
	provider    sigs.Account
	consumer    sigs.Account
	stranger    sigs.Account
	other       sigs.Account // another provider
	apiCU       map[string]uint64
}

var (
	fx     *fixture
	fxOnce sync.Once
	fxErr  error
)

var methods = []string{"eth_blockNumber", "eth_chainId", "eth_gasPrice"}

func quiet() {
	utils.SetGlobalLoggingLevel("fatal")
	zerologlog.Logger = zerolog.Nop()
}

func getFixture() (*fixture, error) {
	fxOnce.Do(func() {
		quiet()
		f := &fixture{apiCU: map[string]uint64{}}
		handler := http.HandlerFunc(func(w http.ResponseWriter, r *http.Request) {
			atomic.AddInt64(&f.nodeHits, 1)
			if atomic.LoadInt32(&f.nodeDown) != 0 {
				if hj, ok := w.(http.Hijacker); ok {
					if conn, _, err := hj.Hijack(); err == nil {
						conn.Close()
						return
					}
				}
				w.WriteHeader(http.StatusBadGateway)
				return
			}
			body, _ := io.ReadAll(r.Body)
			var req struct {
				ID json.RawMessage `json:"id"`
			}
			_ = json.Unmarshal(body, &req)
			if len(req.ID) == 0 {
				req.ID = json.RawMessage("1")
			}
			w.Header().Set("Content-Type", "application/json")
			w.WriteHeader(http.StatusOK)
			fmt.Fprintf(w, `{"jsonrpc":"2.0","id":%s,"result":"0x10"}`, req.ID)
		})
		repo := os.Getenv("VERIF_REPO")
		if repo == "" {
			repo = "/repo"
		}
		parser, router, _, closeServer, endpoint, err := chainlib.CreateChainLibMocks(context.Background(), specID, apiIface, handler, nil, repo+"/", nil)
		quiet() // CreateChainLibMocks switches logging to debug
		if err != nil {
			fxErr = err
			return
		}
		parser.SetPolicy(rpcprovider.GetAllAddonsAndExtensionsFromNodeUrlSlice(endpoint.NodeUrls), specID, apiIface)
		parser.Activate()
		f.parser, f.router, f.closeServer = parser, router, closeServer
		f.provider = sigs.GenerateDeterministicFloatingKey(sigs.NewZeroReader(11))
		f.consumer = sigs.GenerateDeterministicFloatingKey(sigs.NewZeroReader(22))
		f.stranger = sigs.GenerateDeterministicFloatingKey(sigs.NewZeroReader(33))
		f.other = sigs.GenerateDeterministicFloatingKey(sigs.NewZeroReader(44))
		for _, m := range methods {
			msg, err := chainlib.ParseAndValidateMessage(parser, "", []byte(jsonBody(1, m)), "POST", nil, extensionslib.ExtensionInfo{LatestBlock: 0, ExtensionOverride: []string{}})
			if err != nil {
				fxErr = fmt.Errorf("parse %s: %w", m, err)
				return
			}
			f.apiCU[m] = msg.GetApi().ComputeUnits
		}
		fx = f
	})
	if fxErr != nil {
		return nil, fxErr
	}
	if fx == nil {
		return nil, fmt.Errorf("fixture not built")
	}
	return fx, nil
}

func jsonBody(id int, method string) string {
	return fmt.Sprintf(`{"jsonrpc":"2.0","id":%d,"method":"%s","params":[]}`, id, method)
}

// ---- mocks ---------------------------------------------------------------------------------------

type pairOutcome int

const (
	pairValid pairOutcome = iota
	pairInvalid
	pairError
)

func (o pairOutcome) String() string { return [...]string{"paired", "not-paired", "pairing-error"}[o] }

type mockStateTracker struct {
	mu        sync.Mutex
	me        string
	latest    int64
	pairing   map[string]map[uint64]pairOutcome // consumer -> epoch -> outcome; anything else: stranger outcome
	stranger  pairOutcome                       // pairInvalid or pairError
	maxCU     uint64
	maxCUFail bool
	ve        uint64
	calls     int
}

func (m *mockStateTracker) LatestBlock() int64 { return m.latest }

func (m *mockStateTracker) outcome(consumer string, epoch uint64) pairOutcome {
	if byEpoch, ok := m.pairing[consumer]; ok {
		if o, ok := byEpoch[epoch]; ok {
			return o
		}
		return pairError // the chain has no pairing for an epoch it does not know
	}
	return m.stranger
}

func (m *mockStateTracker) VerifyPairing(ctx context.Context, consumerAddress, providerAddress string, epoch uint64, chainID string) (bool, int64, string, error) {
	m.mu.Lock()
	defer m.mu.Unlock()
	m.calls++
	if providerAddress != m.me || chainID != specID {
		return false, 0, "", nil
	}
	switch m.outcome(consumerAddress, epoch) {
	case pairValid:
		return true, 3, "project-" + consumerAddress, nil
	case pairInvalid:
		return false, 0, "", nil
	}
	return false, 0, "", fmt.Errorf("pairing query failed")
}

func (m *mockStateTracker) GetMaxCuForUser(ctx context.Context, consumerAddress, chainID string, epoch uint64) (uint64, error) {
	if m.maxCUFail {
		return 0, fmt.Errorf("max cu query failed")
	}
	return m.maxCU, nil
}

func (m *mockStateTracker) GetVirtualEpoch(epoch uint64) uint64 { return m.ve }

type mockRewardServer struct {
	mu     sync.Mutex
	proofs []*pairingtypes.RelaySession
	ch     chan struct{}
}

func (r *mockRewardServer) SendNewProof(ctx context.Context, proof *pairingtypes.RelaySession, epoch uint64, consumerAddr, apiInterface string) (uint64, bool) {
	r.mu.Lock()
	cp := *proof
	r.proofs = append(r.proofs, &cp)
	r.mu.Unlock()
	select {
	case r.ch <- struct{}{}:
	default:
	}
	return proof.CuSum, true
}
func (r *mockRewardServer) SubscribeStarted(consumer string, epoch uint64, subscribeID string) {}
func (r *mockRewardServer) SubscribeEnded(consumer string, epoch uint64, subscribeID string)   {}

func (r *mockRewardServer) count() int {
	r.mu.Lock()
	defer r.mu.Unlock()
	return len(r.proofs)
}

type mockChainTracker struct {
	*chaintracker.DummyChainTracker
}

func (m *mockChainTracker) GetLatestBlockData(fromBlock, toBlock, specificBlock int64) (int64, []*chaintracker.BlockStore, time.Time, error) {
	return 1000, nil, time.Time{}, nil
}
func (m *mockChainTracker) GetLatestBlockNum() (int64, time.Time) { return 1000, time.Time{} }
func (m *mockChainTracker) GetAtomicLatestBlockNum() int64        { return 1000 }
func (m *mockChainTracker) GetWireLatestBlock() int64             { return 1000 }
func (m *mockChainTracker) IsDummy() bool                         { return false }

// ---- case state ----------------------------------------------------------------------------------

type snapSession struct {
	ID       uint64
	CuSum    uint64
	RelayNum uint64
	Latest   uint64
	Locked   bool
}

type snapProject struct {
	Epoch    uint64
	Project  string
	Used     uint64
	Missing  uint64
	Sessions []snapSession
}

// normalized snapshot: an empty session (no CU, no completed relay, unlocked) and a project without
// CU and without non-empty sessions carry no session/CU state and are dropped. (A rejected first
// request of a paired consumer leaves such empty entries behind; they are indistinguishable from
// absent ones for every later request.)
func snapshot(psm *lavasession.ProviderSessionManager) (out []snapProject, missingTotal uint64) {
	for _, p := range psm.VerifSnapshot() {
		sp := snapProject{Epoch: p.Epoch, Project: p.ProjectID, Used: p.UsedCU, Missing: p.MissingCU}
		for _, s := range p.Sessions {
			if s.CuSum == 0 && s.RelayNum == 0 && s.LatestRelayCu == 0 && !s.Locked {
				continue
			}
			sp.Sessions = append(sp.Sessions, snapSession{s.SessionID, s.CuSum, s.RelayNum, s.LatestRelayCu, s.Locked})
		}
		missingTotal += p.MissingCU
		if sp.Used == 0 && sp.Missing == 0 && len(sp.Sessions) == 0 {
			continue
		}
		out = append(out, sp)
	}
	return out, missingTotal
}

func withoutMissing(in []snapProject) []snapProject {
	out := make([]snapProject, 0, len(in))
	for _, p := range in {
		p.Missing = 0
		if p.Used == 0 && len(p.Sessions) == 0 {
			continue
		}
		out = append(out, p)
	}
	return out
}

type caseState struct {
	f       *fixture
	psm     *lavasession.ProviderSessionManager
	srv     *rpcprovider.RPCProviderServer
	st      *mockStateTracker
	rw      *mockRewardServer
	current uint64
	blocked uint64
	salt    uint64
	log     []string
	accepted map[string]bool // signatures of accepted requests
	nAccepted, nRejectedWellFormed int
	classes map[string]bool
}

func (c *caseState) logf(format string, a ...any) { c.log = append(c.log, fmt.Sprintf(format, a...)) }

func (c *caseState) history() string { return "history:\n  " + strings.Join(c.log, "\n  ") }

func (c *caseState) sessionState(epoch uint64, project string, sid uint64) (relayNum, cuSum, used uint64) {
	for _, p := range c.psm.VerifSnapshot() {
		if p.Epoch == epoch && p.ProjectID == project {
			used = p.UsedCU
			for _, s := range p.Sessions {
				if s.SessionID == sid {
					relayNum, cuSum = s.RelayNum, s.CuSum
				}
			}
		}
	}
	return
}

func sign(sk sigs.Account, sess *pairingtypes.RelaySession) {
	sess.Sig = nil
	sig, err := sigs.Sign(sk.SK, *sess)
	if err != nil {
		panic(err)
	}
	sess.Sig = sig
}

func contentHash(rd *pairingtypes.RelayPrivateData) []byte {
	return sigs.HashMsg(rd.GetContentHashData())
}

func (c *caseState) buildValid(epoch int64, sid uint64, method string) *pairingtypes.RelayRequest {
	c.salt++
	salt := make([]byte, 8)
	binary.LittleEndian.PutUint64(salt, c.salt)
	rd := &pairingtypes.RelayPrivateData{
		ConnectionType: "POST",
		ApiUrl:         "",
		Data:           []byte(jsonBody(int(c.salt), method)),
		RequestBlock:   spectypes.LATEST_BLOCK,
		ApiInterface:   apiIface,
		Salt:           salt,
	}
	project := "project-" + c.f.consumer.Addr.String()
	r0, c0, _ := c.sessionState(uint64(epoch), project, sid)
	sess := &pairingtypes.RelaySession{
		SpecId:      specID,
		ContentHash: contentHash(rd),
		SessionId:   sid,
		CuSum:       c0 + c.f.apiCU[method],
		Provider:    c.f.provider.Addr.String(),
		RelayNum:    r0 + 1,
		Epoch:       epoch,
		LavaChainId: lavaChainID,
	}
	sign(c.f.consumer, sess)
	return &pairingtypes.RelayRequest{RelaySession: sess, RelayData: rd}
}

// ---- corruptions -----------------------------------------------------------------------------------

type corruption struct {
	name    string
	session bool // the corrupted field is part of the signed RelaySession
	apply   func(t *rapid.T, c *caseState, req *pairingtypes.RelayRequest, method string)
}

func otherMethod(t *rapid.T, method string) string {
	var cand []string
	for _, m := range methods {
		if m != method {
			cand = append(cand, m)
		}
	}
	return rapid.SampledFrom(cand).Draw(t, "otherMethod")
}

var corruptions = []corruption{
	{"provider-address", true, func(t *rapid.T, c *caseState, r *pairingtypes.RelayRequest, _ string) {
		r.RelaySession.Provider = rapid.SampledFrom([]string{c.f.other.Addr.String(), c.f.consumer.Addr.String(), "", strings.ToUpper(c.f.provider.Addr.String())}).Draw(t, "provider")
	}},
	{"spec-id", true, func(t *rapid.T, c *caseState, r *pairingtypes.RelayRequest, _ string) {
		r.RelaySession.SpecId = rapid.SampledFrom([]string{"LAV1", "ETH2", "", "eth1", "ETH1 "}).Draw(t, "spec")
	}},
	{"lava-chain-id", true, func(t *rapid.T, c *caseState, r *pairingtypes.RelayRequest, _ string) {
		r.RelaySession.LavaChainId = rapid.SampledFrom([]string{"lava-testnet-2", "", "Lava", "lava "}).Draw(t, "lavaChain")
	}},
	{"epoch-too-old", true, func(t *rapid.T, c *caseState, r *pairingtypes.RelayRequest, _ string) {
		r.RelaySession.Epoch = int64(rapid.SampledFrom([]uint64{c.blocked, c.blocked - epochSize, c.blocked - 1, 1}).Draw(t, "oldEpoch"))
	}},
	{"epoch-zero", true, func(t *rapid.T, c *caseState, r *pairingtypes.RelayRequest, _ string) { r.RelaySession.Epoch = 0 }},
	{"epoch-unknown", true, func(t *rapid.T, c *caseState, r *pairingtypes.RelayRequest, _ string) {
		// an epoch the chain does not know (future, or not an epoch start): nobody is paired in it
		r.RelaySession.Epoch = int64(rapid.SampledFrom([]uint64{c.current + epochSize, c.current + 5*epochSize, c.current - 1, c.current + 1}).Draw(t, "unknownEpoch"))
	}},
	{"epoch-negative", true, func(t *rapid.T, c *caseState, r *pairingtypes.RelayRequest, _ string) {
		r.RelaySession.Epoch = -int64(rapid.SampledFrom([]uint64{1, c.current}).Draw(t, "negEpoch"))
	}},
	{"content-hash", true, func(t *rapid.T, c *caseState, r *pairingtypes.RelayRequest, method string) {
		switch rapid.IntRange(0, 3).Draw(t, "hashMode") {
		case 0:
			h := append([]byte{}, r.RelaySession.ContentHash...)
			i := rapid.IntRange(0, len(h)-1).Draw(t, "hashByte")
			h[i] ^= byte(rapid.IntRange(1, 255).Draw(t, "hashXor"))
			r.RelaySession.ContentHash = h
		case 1:
			r.RelaySession.ContentHash = nil
		case 2:
			r.RelaySession.ContentHash = r.RelaySession.ContentHash[:len(r.RelaySession.ContentHash)-1]
		default: // the hash of a different request
			rd := *r.RelayData
			rd.Data = []byte(jsonBody(int(c.salt), otherMethod(t, method)))
			r.RelaySession.ContentHash = contentHash(&rd)
		}
	}},
	{"session-id", true, func(t *rapid.T, c *caseState, r *pairingtypes.RelayRequest, _ string) {
		r.RelaySession.SessionId += uint64(rapid.IntRange(1, 3).Draw(t, "sidShift"))
	}},
	{"relay-num-replay", true, func(t *rapid.T, c *caseState, r *pairingtypes.RelayRequest, _ string) {
		r.RelaySession.RelayNum -= uint64(rapid.IntRange(1, int(r.RelaySession.RelayNum)).Draw(t, "relayBack"))
	}},
	{"relay-num-jump", true, func(t *rapid.T, c *caseState, r *pairingtypes.RelayRequest, _ string) {
		r.RelaySession.RelayNum += uint64(rapid.IntRange(1, 5).Draw(t, "relayJump"))
	}},
	{"cu-sum-too-small", true, func(t *rapid.T, c *caseState, r *pairingtypes.RelayRequest, _ string) {
		r.RelaySession.CuSum -= uint64(rapid.IntRange(1, int(r.RelaySession.CuSum)).Draw(t, "cuLess"))
	}},
	{"cu-sum-too-large", true, func(t *rapid.T, c *caseState, r *pairingtypes.RelayRequest, _ string) {
		switch rapid.IntRange(0, 2).Draw(t, "cuMoreMode") {
		case 0:
			r.RelaySession.CuSum += uint64(rapid.IntRange(1, 20).Draw(t, "cuMore"))
		case 1: // around the limit
			r.RelaySession.CuSum = c.st.maxCU*(c.st.ve+1) + uint64(rapid.IntRange(0, 2).Draw(t, "cuOver"))
		default:
			r.RelaySession.CuSum += c.st.maxCU * 3
		}
	}},
	{"signature-bytes", true, func(t *rapid.T, c *caseState, r *pairingtypes.RelayRequest, _ string) {
		s := append([]byte{}, r.RelaySession.Sig...)
		switch rapid.IntRange(0, 4).Draw(t, "sigMode") {
		case 0, 1:
			i := rapid.IntRange(0, len(s)-1).Draw(t, "sigByte")
			s[i] ^= byte(rapid.IntRange(1, 255).Draw(t, "sigXor"))
		case 2:
			s = s[:rapid.IntRange(0, len(s)-1).Draw(t, "sigLen")]
		case 3:
			s = nil
		default:
			s = append(s, 0)
		}
		r.RelaySession.Sig = s
	}},
	// fields of the relay data: bound to the signature only through the content hash
	{"data-method", false, func(t *rapid.T, c *caseState, r *pairingtypes.RelayRequest, method string) {
		r.RelayData.Data = []byte(jsonBody(int(c.salt), otherMethod(t, method)))
	}},
	{"data-params", false, func(t *rapid.T, c *caseState, r *pairingtypes.RelayRequest, method string) {
		r.RelayData.Data = []byte(strings.Replace(string(r.RelayData.Data), `"params":[]`, `"params":[ ]`, 1))
	}},
	{"data-salt", false, func(t *rapid.T, c *caseState, r *pairingtypes.RelayRequest, _ string) {
		s := append([]byte{}, r.RelayData.Salt...)
		s[rapid.IntRange(0, len(s)-1).Draw(t, "saltByte")] ^= 0x40
		r.RelayData.Salt = s
	}},
	{"data-request-block", false, func(t *rapid.T, c *caseState, r *pairingtypes.RelayRequest, _ string) {
		r.RelayData.RequestBlock = rapid.SampledFrom([]int64{spectypes.EARLIEST_BLOCK, 5, 999}).Draw(t, "reqBlock")
	}},
	{"data-seen-block", false, func(t *rapid.T, c *caseState, r *pairingtypes.RelayRequest, _ string) {
		r.RelayData.SeenBlock = int64(rapid.IntRange(1, 900).Draw(t, "seenBlock"))
	}},
	{"data-metadata", false, func(t *rapid.T, c *caseState, r *pairingtypes.RelayRequest, _ string) {
		r.RelayData.Metadata = []pairingtypes.Metadata{{Name: "x-verif", Value: "1"}}
	}},
	{"data-connection-type", false, func(t *rapid.T, c *caseState, r *pairingtypes.RelayRequest, _ string) {
		r.RelayData.ConnectionType = "GET"
	}},
}

type step struct {
	Kind    string `json:"kind"`
	Sign    string `json:"sign"`
	Epoch   int64  `json:"epoch"`
	Sid     uint64 `json:"sid"`
	Method  string `json:"method"`
	Verdict string `json:"verdict"`
}

func (c *caseState) violate(t *rapid.T, format string, a ...any) {
	t.Fatalf("%s", ev.Violation("C39", "%s\n%s", fmt.Sprintf(format, a...), c.history()))
}

// authentic evaluates the statement's conditions on the request as sent, independently of the
// provider code (it uses the signature recovery and content-hash primitives, which C25/C26 check).
func (c *caseState) authentic(req *pairingtypes.RelayRequest) (bool, string) {
	s := req.RelaySession
	if s.Provider != c.f.provider.Addr.String() {
		return false, "names another provider"
	}
	if s.SpecId != specID {
		return false, "names another spec"
	}
	if s.LavaChainId != lavaChainID {
		return false, "names another lava network"
	}
	if s.Epoch <= 0 || uint64(s.Epoch) <= c.blocked {
		return false, "epoch no longer valid"
	}
	if !bytes.Equal(s.ContentHash, contentHash(req.RelayData)) {
		return false, "content hash does not match the data"
	}
	signer, err := sigs.ExtractSignerAddress(*s)
	if err != nil {
		return false, "no signer can be recovered"
	}
	if o := c.st.outcome(signer.String(), uint64(s.Epoch)); o != pairValid {
		who := "an unpaired key"
		if signer.String() == c.f.consumer.Addr.String() {
			who = "the consumer"
		}
		return false, fmt.Sprintf("signed by %s, chain says %s for epoch %d", who, o, s.Epoch)
	}
	return true, ""
}

func (c *caseState) doRequest(t *rapid.T) {
	col := ev.For("C39")
	f := c.f
	var epochs []uint64
	for e := c.blocked + epochSize; e <= c.current; e += epochSize {
		epochs = append(epochs, e)
	}
	epoch := int64(rapid.SampledFrom(epochs).Draw(t, "epoch"))
	sid := uint64(rapid.IntRange(1, 2).Draw(t, "sid"))
	method := rapid.SampledFrom(methods).Draw(t, "method")
	req := c.buildValid(epoch, sid, method)
	kindIdx := rapid.IntRange(-9, len(corruptions)-1).Draw(t, "corruption")
	kind, signMode := "none", "consumer"
	if kindIdx >= 0 {
		k := corruptions[kindIdx]
		kind = k.name
		k.apply(t, c, req, method)
		if k.session {
			if kind != "signature-bytes" {
				switch rapid.IntRange(0, 3).Draw(t, "signMode") {
				case 0, 1:
					signMode = "left-as-is"
				case 2:
					sign(f.consumer, req.RelaySession)
					signMode = "re-signed-by-consumer"
				default:
					sign(f.stranger, req.RelaySession)
					signMode = "signed-by-unpaired-key"
				}
			} else {
				signMode = "left-as-is"
			}
		} else {
			switch rapid.IntRange(0, 3).Draw(t, "dataSignMode") {
			case 0, 1:
				signMode = "hash-left-as-is"
			case 2:
				req.RelaySession.ContentHash = contentHash(req.RelayData)
				signMode = "hash-updated-not-re-signed"
			default:
				req.RelaySession.ContentHash = contentHash(req.RelayData)
				sign(f.consumer, req.RelaySession)
				signMode = "hash-updated-re-signed-by-consumer"
			}
		}
	} else if kindIdx >= -2 {
		// a fully valid request of a key the chain does not pair with this provider
		sign(f.stranger, req.RelaySession)
		kind, signMode = "unpaired-consumer", "signed-by-unpaired-key"
	}
	// a valid request whose relay fails at the node: it passes validation, is charged, and the
	// charge has to be undone (finalizeSession -> OnSessionFailure)
	nodeDown := kind == "none" && rapid.IntRange(0, 5).Draw(t, "nodeDown") == 0
	if nodeDown {
		kind = "node-down"
	}
	s := req.RelaySession

	// ---- expectation, before the call -----------------------------------------------------------
	auth, why := c.authentic(req)
	signer, _ := sigs.ExtractSignerAddress(*s)
	project := "project-" + signer.String()
	r0, c0, u0 := c.sessionState(uint64(s.Epoch), project, s.SessionId)
	_, parseErr := chainlib.ParseAndValidateMessage(f.parser, req.RelayData.ApiUrl, req.RelayData.Data, req.RelayData.ConnectionType, req.RelayData.GetMetadata(), extensionslib.ExtensionInfo{LatestBlock: 0, ExtensionOverride: []string{}})
	wellFormed := parseErr == nil
	apiCU := uint64(0)
	if wellFormed {
		msg, _ := chainlib.ParseAndValidateMessage(f.parser, req.RelayData.ApiUrl, req.RelayData.Data, req.RelayData.ConnectionType, req.RelayData.GetMetadata(), extensionslib.ExtensionInfo{LatestBlock: 0, ExtensionOverride: []string{}})
		apiCU = msg.GetApi().ComputeUnits
	}
	bound := c.st.maxCU * (c.st.ve + 1)
	mustReject, rejectWhy := !auth, why
	if auth && r0 > 0 && s.RelayNum <= r0 {
		mustReject, rejectWhy = true, fmt.Sprintf("relay number %d was already completed on this session (last %d)", s.RelayNum, r0)
	}
	if auth && wellFormed && s.CuSum >= c0+apiCU && u0+(s.CuSum-c0) > bound {
		mustReject, rejectWhy = true, fmt.Sprintf("would bring the consumer to %d CU > max %d", u0+(s.CuSum-c0), bound)
	}
	mustAccept := auth && !mustReject && wellFormed && s.RelayNum == r0+1 && s.CuSum == c0+apiCU && !c.st.maxCUFail

	before, missBefore := snapshot(c.psm)
	hitsBefore := atomic.LoadInt64(&f.nodeHits)
	proofsBefore := c.rw.count()

	wire, merr := req.Marshal()
	if merr != nil {
		t.Fatalf("%s", ev.HarnessError("cannot marshal request: %v", merr))
	}
	if nodeDown {
		atomic.StoreInt32(&f.nodeDown, 1)
		mustAccept = false
	}
	ctx, cancel := context.WithTimeout(context.Background(), 20*time.Second)
	reply, err := c.srv.Relay(ctx, req)
	cancel()
	atomic.StoreInt32(&f.nodeDown, 0)
	accepted := err == nil && reply != nil

	verdict := "rejected"
	if accepted {
		verdict = "accepted"
	}
	c.logf("%s [%s] epoch=%d sid=%d relayNum=%d cuSum=%d %s -> %s (authentic=%v%s; session before: relayNum=%d cuSum=%d used=%d max=%d)",
		kind, signMode, s.Epoch, s.SessionId, s.RelayNum, s.CuSum, method, verdict, auth, ifs(why != "", ": "+why, ""), r0, c0, u0, bound)
	cls := kind + "/" + signMode + "/" + verdict
	c.classes[cls] = true
	c.classes["pairing:"+c.st.outcome(f.consumer.Addr.String(), uint64(epoch)).String()] = true

	col.Clause("served only if authentic, paired, valid epoch, matching hash (and no replayed relay number / CU beyond max)")
	if accepted && mustReject {
		c.violate(t, "request served although it %s: %s [%s]", rejectWhy, kind, signMode)
	}
	if kind == "none" || mustAccept {
		col.Clause("control: a valid request of the paired consumer is served")
	}
	if !accepted && mustAccept {
		// A validation rejection is deterministic; a failure of the stub node connection (machine
		// under load) is not. Only a request that is refused three times without ever reaching the
		// node counts as "valid request rejected".
		if atomic.LoadInt64(&f.nodeHits) != hitsBefore {
			t.Fatalf("%s", ev.HarnessError("valid request passed validation and reached the stub node but the relay failed (%v): infrastructure problem\n%s", err, c.history()))
		}
		for attempt := 0; attempt < 2 && !accepted; attempt++ {
			again := &pairingtypes.RelayRequest{}
			if uerr := again.Unmarshal(wire); uerr != nil {
				t.Fatalf("%s", ev.HarnessError("cannot copy request: %v", uerr))
			}
			ctx, cancel := context.WithTimeout(context.Background(), 20*time.Second)
			reply, err = c.srv.Relay(ctx, again)
			cancel()
			accepted = err == nil && reply != nil
			if !accepted && atomic.LoadInt64(&f.nodeHits) != hitsBefore {
				t.Fatalf("%s", ev.HarnessError("valid request reached the stub node but the relay failed (%v): infrastructure problem\n%s", err, c.history()))
			}
		}
		if !accepted {
			c.violate(t, "valid request rejected three times without reaching the node (%v): %s [%s]", err, kind, signMode)
		}
		c.logf("  (served on retry)")
	}
	if accepted {
		c.nAccepted++
		c.accepted[string(s.Sig)] = true
		col.Clause("a served request reaches the node")
		if atomic.LoadInt64(&f.nodeHits) == hitsBefore {
			c.violate(t, "request reported as served but the node was not called")
		}
		// the proof is sent from a goroutine after the session was released: wait for it so that the
		// next step starts from a quiet state
		if s.CuSum > c0 {
			deadline := time.After(60 * time.Second)
			for c.rw.count() == proofsBefore {
				select {
				case <-c.rw.ch:
				case <-deadline:
					t.Fatalf("%s", ev.HarnessError("no proof reached the reward server within 60 s after a served paying relay\n%s", c.history()))
				}
			}
		}
		return
	}
	if wellFormed {
		c.nRejectedWellFormed++
	}
	col.Clause("a rejected request is not served: no reply, node not called")
	if reply != nil {
		c.violate(t, "rejected request (%v) still got a reply", err)
	}
	if h := atomic.LoadInt64(&f.nodeHits); h != hitsBefore && !nodeDown {
		c.violate(t, "rejected request (%v) was sent to the node (%d calls)", err, h-hitsBefore)
	}
	if nodeDown && atomic.LoadInt64(&f.nodeHits) != hitsBefore {
		c.classes["node-down/charged-then-rolled-back"] = true
	}
	after, missAfter := snapshot(c.psm)
	if signer != nil && c.st.outcome(signer.String(), uint64(s.Epoch)) != pairValid {
		col.Clause("a consumer the chain does not pair is never registered")
		for _, m := range c.psm.VerifConsumerProjects() {
			if strings.Contains(m, "/"+signer.String()+"=") && strings.HasPrefix(m, fmt.Sprintf("%d/", uint64(s.Epoch))) {
				c.violate(t, "rejected request of %s (chain: %s for epoch %d) left the signer registered with the session manager: %s", signer, c.st.outcome(signer.String(), uint64(s.Epoch)), s.Epoch, m)
			}
		}
	}
	col.Clause("a rejected request leaves sessions, CuSum, RelayNum, used CU and lock state unchanged")
	if !reflect.DeepEqual(withoutMissing(before), withoutMissing(after)) {
		c.violate(t, "rejected request (%s [%s]: %v) changed the session state:\nbefore: %+v\nafter:  %+v", kind, signMode, err, before, after)
	}
	// known finding c39-missing-cu-kept-on-reject: the class is "authentic request whose CU sum is
	// short of session CuSum + API CU" (the only path that books missing CU); while the finding is
	// listed, the missing-CU clause is not evaluated for that class (counted), and for nothing else.
	shortCU := auth && wellFormed && s.CuSum < c0+apiCU
	if shortCU && ev.Excluded(findingMissingCU) {
		col.Exclude(findingMissingCU)
		return
	}
	col.Clause("a rejected request leaves the missing-CU allowance unchanged")
	if missBefore != missAfter {
		c.violate(t, "rejected request (%s [%s]: %v) changed the consumer's missing-CU counter: %d -> %d", kind, signMode, err, missBefore, missAfter)
	}
}

const findingMissingCU = "c39-missing-cu-kept-on-reject"

func ifs(b bool, x, y string) string {
	if b {
		return x
	}
	return y
}

func (c *caseState) advanceEpoch(t *rapid.T) {
	c.current += epochSize
	c.psm.UpdateEpoch(c.current)
	c.blocked = c.current - distance
	c.st.latest = int64(c.current) + 3
	o := pairOutcome(rapid.SampledFrom([]int{0, 0, 0, 0, 1, 2}).Draw(t, "pairingNewEpoch"))
	c.st.pairing[c.f.consumer.Addr.String()][c.current] = o
	c.logf("epoch -> %d (epochs <= %d are no longer valid; consumer %s in the new epoch)", c.current, c.blocked, o)
	c.classes["epoch-advance"] = true
}

func propC39(t *rapid.T) {
	col := ev.For("C39")
	f, err := getFixture()
	if err != nil {
		t.Fatalf("%s", ev.HarnessError("cannot build the provider fixture: %v", err))
	}
	endpoint := &lavasession.RPCProviderEndpoint{ChainID: specID, ApiInterface: apiIface, Geolocation: 1}
	c := &caseState{f: f, current: firstEpoch, blocked: firstEpoch - distance, accepted: map[string]bool{}, classes: map[string]bool{}}
	c.salt = uint64(rapid.IntRange(1, 1<<20).Draw(t, "saltBase")) << 8
	c.psm = lavasession.NewProviderSessionManager(endpoint, distance)
	c.psm.UpdateEpoch(firstEpoch)
	c.st = &mockStateTracker{me: f.provider.Addr.String(), latest: firstEpoch + 3, pairing: map[string]map[uint64]pairOutcome{}}
	c.st.stranger = pairOutcome(rapid.SampledFrom([]int{1, 1, 2}).Draw(t, "strangerOutcome"))
	c.st.maxCU = uint64(rapid.SampledFrom([]int{25, 40, 100, 1000}).Draw(t, "maxCU"))
	c.st.ve = uint64(rapid.SampledFrom([]int{0, 0, 0, 1}).Draw(t, "virtualEpoch"))
	c.st.maxCUFail = rapid.IntRange(0, 19).Draw(t, "maxCUFail") == 0
	byEpoch := map[uint64]pairOutcome{}
	for e := uint64(firstEpoch - distance + epochSize); e <= firstEpoch; e += epochSize {
		byEpoch[e] = pairOutcome(rapid.SampledFrom([]int{0, 0, 0, 0, 0, 1, 2}).Draw(t, fmt.Sprintf("pairing%d", e)))
	}
	// older epochs: the consumer was paired there, they are just no longer valid on the provider
	for e := uint64(epochSize); e <= firstEpoch-distance; e += epochSize {
		byEpoch[e] = pairValid
	}
	c.st.pairing[f.consumer.Addr.String()] = byEpoch
	c.rw = &mockRewardServer{ch: make(chan struct{}, 64)}
	threshold := rapid.SampledFrom([]float64{0, 0.1, 0.5}).Draw(t, "missingCuThreshold")
	c.srv = &rpcprovider.RPCProviderServer{}
	c.srv.ServeRPCRequests(context.Background(), endpoint, f.parser, c.rw, c.psm, &mockChainTracker{&chaintracker.DummyChainTracker{}}, f.provider.SK,
		nil, false, f.router, c.st, f.provider.Addr, lavaChainID, threshold, nil, nil, nil, nil, nil, 2, nil, nil, false)
	c.logf("provider=%s consumer=%s maxCU=%d virtualEpoch=%d threshold=%v pairing=%v unpairedKeys=%s maxCuQueryFails=%v", f.provider.Addr, f.consumer.Addr, c.st.maxCU, c.st.ve, threshold, fmtPairing(byEpoch), c.st.stranger, c.st.maxCUFail)

	advanced := false
	t.Repeat(map[string]func(*rapid.T){
		"request":  c.doRequest,
		"request2": c.doRequest,
		"request3": c.doRequest,
		"request4": c.doRequest,
		"epoch": func(t *rapid.T) {
			if advanced || rapid.IntRange(0, 2).Draw(t, "skipEpoch") != 0 {
				t.Skip("no epoch change")
			}
			advanced = true
			c.advanceEpoch(t)
		},
	})

	// every proof handed to the reward server belongs to a request that was served
	col.Clause("payment is claimed only for served requests")
	c.rw.mu.Lock()
	proofs := append([]*pairingtypes.RelaySession{}, c.rw.proofs...)
	c.rw.mu.Unlock()
	for _, p := range proofs {
		if !c.accepted[string(p.Sig)] {
			c.violate(t, "the reward server got a proof (session %d relay %d epoch %d cuSum %d) for a request that was not served", p.SessionId, p.RelayNum, p.Epoch, p.CuSum)
		}
	}
	cls := make([]string, 0, len(c.classes))
	for k := range c.classes {
		cls = append(cls, k)
	}
	sort.Strings(cls)
	nontrivial := c.nAccepted >= 1 && c.nRejectedWellFormed >= 2
	col.Case(nontrivial, strings.Join(c.log, "|"), cls...)
	if nontrivial {
		col.Sample(map[string]any{"history": c.log})
	}
}

func fmtPairing(m map[uint64]pairOutcome) string {
	var ks []uint64
	for k := range m {
		if k > firstEpoch-distance {
			ks = append(ks, k)
		}
	}
	sort.Slice(ks, func(i, j int) bool { return ks[i] < ks[j] })
	var parts []string
	for _, k := range ks {
		parts = append(parts, fmt.Sprintf("%d:%s", k, m[k]))
	}
	return strings.Join(parts, ",")
}

func TestC39(t *testing.T) {
	col := ev.For("C39")
	col.SetRule("each case builds a real RPCProviderServer (real session manager, ETH1 jsonrpc parser and router to a stub node, mock state tracker with drawn pairing outcome per epoch / max CU / virtual epoch, mock reward server) and sends 10-40 requests through Relay(): valid ones and every single-field corruption of a valid one (provider, spec id, lava chain id, epoch too old / zero / unknown / negative, content hash, session id, relay number replay / jump, CU sum too small / too large, signature bytes, unpaired signer, each hashed field of the relay data, and valid requests whose node call fails) in the variants left-as-is / re-signed by the paired consumer / signed by an unpaired key, with one epoch advance. Non-trivial: at least one request was served and at least two well-formed requests were rejected. Distinct: different request history.")
	col.Assume(
		"the chain's answers are a function of (consumer, provider, epoch, spec): the mock state tracker says 'paired' only for the configured consumer in epochs the chain knows, and for nobody else",
		"signature recovery (sigs.ExtractSignerAddress) and content hashing (GetContentHashData) are used as primitives by the oracle; they are checked by C25/C26",
		"empty session-manager entries (a session with no CU, no completed relay and free lock; a project with no CU and no such session) count as no state: a rejected first request of a paired consumer leaves them behind",
		"the stub node answers every forwarded request except in the node-down steps, where it drops the connection; reward-server replies always confirm the proof (no UpdateSessionCU feedback)",
	)
	rapid.Check(t, propC39)
}
