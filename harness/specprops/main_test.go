package specprops

import (
	"os"
	"testing"

	"verifharness/internal/ev"
)

func TestMain(m *testing.M) {
	code := m.Run()
	ev.Flush()
	os.Exit(code)
}
