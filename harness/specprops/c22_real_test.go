package specprops

import (
	"fmt"
	"os"
	"path/filepath"
	"sort"
	"sync"
	"testing"

	sdk "github.com/cosmos/cosmos-sdk/types"
	keepertest "github.com/lavanet/lava/v5/utils/keeper"
	spectypes "github.com/lavanet/lava/v5/x/spec/types"
	"pgregory.net/rapid"

	"verifharness/internal/ev"
)

// ---- C22 on the checked-in mainnet specs ------------------------------------------------------

const realModePercent = 12

var (
	realOnce  sync.Once
	realSpecs map[string]spectypes.Spec
)

func realSpecDir() string {
	repo := os.Getenv("VERIF_REPO")
	if repo == "" {
		repo = "/repo"
	}
	return filepath.Join(repo, "specs", "mainnet-1", "specs")
}

func loadRealSpecs() map[string]spectypes.Spec {
	realOnce.Do(func() {
		if _, err := sharedEnv(); err != nil { // also silences logging
			return
		}
		specs, err := keepertest.GetAllSpecsFromLocalDir(realSpecDir())
		if err != nil || len(specs) == 0 {
			return
		}
		realSpecs = map[string]spectypes.Spec{}
		for k, s := range specs {
			realSpecs[k] = cloneSpec(s)
		}
	})
	return realSpecs
}

func sortedIndices(m map[string]spectypes.Spec) []string {
	out := make([]string, 0, len(m))
	for k := range m {
		out = append(out, k)
	}
	sort.Strings(out)
	return out
}

// closure returns idx and everything it imports (transitively) from all.
func closure(all map[string]spectypes.Spec, idx string, into map[string]spectypes.Spec) {
	if _, done := into[idx]; done {
		return
	}
	s, ok := all[idx]
	if !ok {
		return
	}
	into[idx] = s
	for _, imp := range s.Imports {
		closure(all, imp, into)
	}
}

// realSpecsC22 expands every checked-in mainnet spec against its import closure.
func realSpecsC22(t *testing.T) {
	c := ev.For("C22")
	env, err := sharedEnv()
	if err != nil {
		t.Fatalf("%s", ev.HarnessError("spec keeper: %v", err))
	}
	all := loadRealSpecs()
	if len(all) == 0 {
		c.Class("real-specs:unavailable")
		return
	}
	defer func() {
		if r := recover(); r != nil {
			if hp, ok := r.(harnessPanic); ok {
				t.Fatalf("%s", ev.HarnessError("%s", hp.msg))
			}
			panic(r)
		}
	}()
	for _, idx := range sortedIndices(all) {
		store := map[string]spectypes.Spec{}
		closure(all, idx, store)
		oc := checkExpansion(t, c, env, store, all[idx], spectypes.DefaultMaxCU, 3)
		c.Case(false, "", append(oc.classes, "source:real-spec")...)
	}
}

// genRealUniverse builds a synthetic root R0 that imports 1-3 checked-in specs (with their
// import closure) and overrides / extends some of their collections.
func genRealUniverse(t *rapid.T, all map[string]spectypes.Spec) *universe {
	u := &universe{Shape: "real-imports", MaxCU: spectypes.DefaultMaxCU, Specs: map[string]spectypes.Spec{}, Stored: map[string]bool{}, RootsOnly: map[string]bool{"R0": true}}
	names := sortedIndices(all)
	nImp := 1 + uni(t, "nRealImports", 3)
	var imports []string
	store := map[string]spectypes.Spec{}
	for i := 0; i < nImp; i++ {
		idx := pick(t, "realImport", names)
		imports = append(imports, idx)
		closure(all, idx, store)
	}
	// optionally disable one collection / one API of a stored spec (a newer version of that spec)
	if uni(t, "mutateStored", 3) == 0 {
		idx := rapid.SampledFrom(sortedIndices(store)).Draw(t, "mutateWhich")
		s := cloneSpec(store[idx])
		if len(s.ApiCollections) > 0 {
			col := s.ApiCollections[rapid.IntRange(0, len(s.ApiCollections)-1).Draw(t, "mutateColl")]
			if rapid.Bool().Draw(t, "disableColl") {
				col.Enabled = false
			} else if len(col.Apis) > 0 {
				col.Apis[rapid.IntRange(0, len(col.Apis)-1).Draw(t, "mutateApi")].Enabled = false
			}
		}
		store[idx] = cloneSpec(s)
	}
	root := spectypes.Spec{
		Index: "R0", Name: "root", Enabled: true, ReliabilityThreshold: 268435455, BlockDistanceForFinalizedData: 1,
		BlocksInFinalizationProof: 1, AverageBlockTime: 1000, AllowedBlockLagForQosSync: 2,
		MinStakeProvider: sdk.NewCoin(bondDenom, sdk.NewInt(1000)), Shares: 1, Imports: imports,
	}
	// candidate keys: those of the (raw) imported specs
	var keys []spectypes.CollectionData
	seen := map[spectypes.CollectionData]bool{}
	for _, idx := range sortedIndices(store) {
		for _, col := range store[idx].ApiCollections {
			if !seen[col.CollectionData] {
				seen[col.CollectionData] = true
				keys = append(keys, col.CollectionData)
			}
		}
	}
	nOwn := uni(t, "nOwnColl", 3)
	used := map[spectypes.CollectionData]bool{}
	for i := 0; i < nOwn && len(keys) > 0; i++ {
		key := pick(t, "ownKey", keys)
		if used[key] {
			continue
		}
		used[key] = true
		col := &spectypes.ApiCollection{Enabled: uni(t, "ownEnabled", 10) < 9, CollectionData: key}
		// override a few APIs that some stored spec defines under this key, add one new API
		var pool []*spectypes.Api
		for _, idx := range sortedIndices(store) {
			if pc := findColl(store[idx], key); pc != nil {
				pool = append(pool, pc.Apis...)
			}
		}
		have := map[string]bool{}
		nOverride := uni(t, "nOverrideApis", 4)
		for j := 0; j < nOverride && len(pool) > 0; j++ {
			src := pick(t, "overrideApi", pool)
			if have[src.Name] {
				continue
			}
			have[src.Name] = true
			cp := *src
			cp.ComputeUnits = rapid.SampledFrom([]uint64{src.ComputeUnits, 1, 77, spectypes.DefaultMaxCU}).Draw(t, "overrideCU")
			col.Apis = append(col.Apis, &cp)
		}
		if rapid.Bool().Draw(t, "newApi") {
			col.Apis = append(col.Apis, &spectypes.Api{Enabled: true, Name: fmt.Sprintf("verif_new_api_%d", i), ComputeUnits: 10})
		}
		root.ApiCollections = append(root.ApiCollections, col)
	}
	for idx, s := range store {
		u.Specs[idx] = s
		u.Stored[idx] = true
	}
	u.Specs["R0"] = cloneSpec(root)
	u.Stored["R0"] = rapid.Bool().Draw(t, "rootStored")
	u.Order = append([]string{"R0"}, sortedIndices(store)...)
	return u
}
