package specprops

import (
	"fmt"

	sdk "github.com/cosmos/cosmos-sdk/types"
	spectypes "github.com/lavanet/lava/v5/x/spec/types"
	"pgregory.net/rapid"
)

// ---- generator of spec universes for C22 ----------------------------------------------------

type universe struct {
	Shape  string
	MaxCU  uint64
	Order  []string // indices, S0 first
	Specs  map[string]spectypes.Spec
	Stored map[string]bool // S0 may be a proposal that is not stored yet
	// RootsOnly, when set, restricts which specs are expanded as root (real-spec mode)
	RootsOnly map[string]bool
}

func (u *universe) store() map[string]spectypes.Spec {
	out := map[string]spectypes.Spec{}
	for _, idx := range u.Order {
		if u.Stored[idx] {
			out[idx] = u.Specs[idx]
		}
	}
	return out
}

type itemGen struct {
	t       *rapid.T
	maxCU   uint64
	cuValid bool // only generate compute units inside [1,maxCU]
	variant int  // per-mille probability of a non-canonical definition
}

func (g *itemGen) isVariant(label string) bool {
	return uni(g.t, label, 1000) < g.variant
}

// uni draws an integer in [0,n) (n <= 1000) with a near-uniform distribution. rapid's integer
// generators are deliberately biased towards small values, which is unwanted for "with
// probability p" decisions; Bool is fair.
func uni(t *rapid.T, label string, n int) int {
	if n <= 1 {
		return 0
	}
	v := 0
	for _, b := range rapid.SliceOfN(rapid.Bool(), 14, 14).Draw(t, label) {
		v <<= 1
		if b {
			v |= 1
		}
	}
	return v % n
}

func pick[T any](t *rapid.T, label string, from []T) T {
	return from[uni(t, label, len(from))]
}

func (g *itemGen) api(i int) *spectypes.Api {
	canonCU := []uint64{1, 2, 10, g.maxCU, 5, 7}
	a := &spectypes.Api{
		Enabled:      true,
		Name:         fmt.Sprintf("a%d", i),
		ComputeUnits: canonCU[i%len(canonCU)],
		Category:     spectypes.SpecCategory{Deterministic: i%2 == 0},
		BlockParsing: spectypes.BlockParser{ParserArg: []string{"latest"}, ParserFunc: spectypes.PARSER_FUNC_DEFAULT},
	}
	if g.isVariant("apiVariant") {
		choices := []string{"cu1", "cuMax", "cu3", "disabled", "local", "extra"}
		if !g.cuValid {
			choices = append(choices, "cu0", "cuOver", "cu0", "cuOver")
		}
		switch pick(g.t, "apiVariantKind", choices) {
		case "cu1":
			a.ComputeUnits = 1
		case "cuMax":
			a.ComputeUnits = g.maxCU
		case "cu3":
			a.ComputeUnits = 3
		case "cu0":
			a.ComputeUnits = 0
		case "cuOver":
			a.ComputeUnits = g.maxCU + 1
		case "disabled":
			a.Enabled = false
		case "local":
			a.Category.Local = true
		case "extra":
			a.ExtraComputeUnits = 3
		}
	}
	return a
}

func (g *itemGen) header(i int) *spectypes.Header {
	h := &spectypes.Header{Name: fmt.Sprintf("h%d", i), Kind: spectypes.Header_pass_send}
	if g.isVariant("hdrVariant") {
		if rapid.Bool().Draw(g.t, "hdrVariantKind") {
			h.Kind = spectypes.Header_pass_both
		} else {
			h.Value = "x"
		}
	}
	return h
}

var extNames = []string{"archive", "e1"}

func (g *itemGen) extension(i int) *spectypes.Extension {
	e := &spectypes.Extension{Name: extNames[i], CuMultiplier: 2, Rule: &spectypes.Rule{Block: 100}}
	if g.isVariant("extVariant") {
		e.CuMultiplier = 5
	}
	return e
}

func (g *itemGen) parseDirective(i int) *spectypes.ParseDirective {
	var p *spectypes.ParseDirective
	switch i {
	case 0:
		p = &spectypes.ParseDirective{FunctionTag: spectypes.FUNCTION_TAG_GET_BLOCKNUM, FunctionTemplate: "blocknum", ApiName: "a0"}
	case 1:
		p = &spectypes.ParseDirective{FunctionTag: spectypes.FUNCTION_TAG_GET_BLOCK_BY_NUM, FunctionTemplate: "block %d", ApiName: "a1"}
	case 2:
		p = &spectypes.ParseDirective{FunctionTag: spectypes.FUNCTION_TAG_SUBSCRIBE, ApiName: "a0"}
	case 3:
		p = &spectypes.ParseDirective{FunctionTag: spectypes.FUNCTION_TAG_SUBSCRIBE, ApiName: "a1"}
	default:
		p = &spectypes.ParseDirective{FunctionTag: spectypes.FUNCTION_TAG_GET_EARLIEST_BLOCK, FunctionTemplate: "earliest"}
	}
	if g.isVariant("pdVariant") {
		p.FunctionTemplate += " %d v2"
	}
	return p
}

func (g *itemGen) verification(i int) *spectypes.Verification {
	v := &spectypes.Verification{Name: fmt.Sprintf("v%d", i)}
	if uni(g.t, "verifHasPD", 4) != 0 {
		v.ParseDirective = &spectypes.ParseDirective{FunctionTag: spectypes.FUNCTION_TAG_VERIFICATION, FunctionTemplate: "verify", ApiName: "a0"}
	}
	nv := uni(g.t, "verifValues", 3)
	if nv >= 1 {
		v.Values = append(v.Values, &spectypes.ParseValue{Extension: "", ExpectedValue: "1"})
	}
	if nv >= 2 {
		v.Values = append(v.Values, &spectypes.ParseValue{Extension: "archive", ExpectedValue: "2"})
	}
	if g.isVariant("verifVariant") && len(v.Values) > 0 {
		v.Values[0].ExpectedValue = "other"
	}
	return v
}

func subset(t *rapid.T, n, maxTake int, label string) []int {
	if maxTake > n {
		maxTake = n
	}
	perm := rapid.Permutation(seq(n)).Draw(t, label+"Perm")
	take := uni(t, label+"N", maxTake+1)
	return perm[:take]
}

func seq(n int) []int {
	out := make([]int, n)
	for i := range out {
		out[i] = i
	}
	return out
}

func genKeyPool(t *rapid.T) []spectypes.CollectionData {
	ifaces := []string{spectypes.APIInterfaceRest, spectypes.APIInterfaceJsonRPC, spectypes.APIInterfaceGrpc, spectypes.APIInterfaceTendermintRPC}
	n := 2 + uni(t, "nKeys", 4)
	seen := map[spectypes.CollectionData]bool{}
	var out []spectypes.CollectionData
	base := pick(t, "baseIface", ifaces)
	for len(out) < n {
		cd := spectypes.CollectionData{
			ApiInterface: pick(t, "iface", []string{base, base, base, base, ifaces[0], ifaces[1], ""}),
			InternalPath: pick(t, "ipath", []string{"", "", "", "/p"}),
			Type:         pick(t, "type", []string{"GET", "GET", "GET", "POST", ""}),
			AddOn:        pick(t, "addon", []string{"", "", "debug", "trace"}),
		}
		if seen[cd] {
			// make it distinct without looping for long
			cd.AddOn = fmt.Sprintf("x%d", len(out))
		}
		seen[cd] = true
		out = append(out, cd)
	}
	return out
}

func genCollection(g *itemGen, key spectypes.CollectionData, others []spectypes.CollectionData, allKeys []spectypes.CollectionData) *spectypes.ApiCollection {
	t := g.t
	c := &spectypes.ApiCollection{CollectionData: key, Enabled: uni(t, "collEnabled", 10) < 8}
	if key.ApiInterface == "" {
		c.Enabled = uni(t, "baseCollEnabled", 10) == 0 // base collections are normally disabled
	}
	nApis := 1 + uni(t, "nApis", 4)
	if uni(t, "emptyApis", 20) == 0 {
		nApis = 0
	}
	for _, i := range rapid.Permutation(seq(6)).Draw(t, "apiNames")[:nApis] {
		c.Apis = append(c.Apis, g.api(i))
	}
	for _, i := range subset(t, 3, 2, "hdr") {
		c.Headers = append(c.Headers, g.header(i))
	}
	if uni(t, "hasExt", 3) == 0 {
		for _, i := range subset(t, 2, 2, "ext") {
			c.Extensions = append(c.Extensions, g.extension(i))
		}
	}
	if uni(t, "hasPD", 2) == 0 {
		for _, i := range subset(t, 5, 3, "pd") {
			c.ParseDirectives = append(c.ParseDirectives, g.parseDirective(i))
		}
	}
	if uni(t, "hasVerif", 3) == 0 {
		for _, i := range subset(t, 2, 2, "verif") {
			c.Verifications = append(c.Verifications, g.verification(i))
		}
	}
	// inheritance between collections of the same spec (add-ons usually inherit the base collection)
	if len(others) > 0 && uni(t, "hasIntra", 4) == 0 {
		n := 1 + uni(t, "nIntra", 2)
		for i := 0; i < n; i++ {
			var cd spectypes.CollectionData
			switch r := uni(t, "intraKind", 40); {
			case r == 0:
				cd = key // self reference: circular
			case r == 1:
				cd = pick(t, "intraAny", allKeys) // possibly not a collection of this spec
			case r == 2:
				cd = pick(t, "intraOther", others) // possibly incompatible (other interface / type)
			default:
				var compatible []spectypes.CollectionData
				for _, o := range others {
					if canInheritWithinSpec(key, o) {
						compatible = append(compatible, o)
					}
				}
				if len(compatible) == 0 {
					continue
				}
				cd = pick(t, "intraCompatible", compatible)
			}
			dup := false
			for _, e := range c.InheritanceApis {
				if *e == cd {
					dup = true
				}
			}
			if !dup {
				cdCopy := cd
				c.InheritanceApis = append(c.InheritanceApis, &cdCopy)
			}
		}
	}
	return c
}

func genImports(t *rapid.T, shape string, n int) [][]string {
	adj := make([][]int, n)
	addEdge := func(i, j int) {
		for _, e := range adj[i] {
			if e == j {
				return
			}
		}
		adj[i] = append(adj[i], j)
	}
	randomDag := func(p int) {
		for i := 0; i < n; i++ {
			for j := i + 1; j < n; j++ {
				if len(adj[i]) < 3 && uni(t, "edge", 100) < p {
					addEdge(i, j)
				}
			}
		}
	}
	switch shape {
	case "none":
	case "chain":
		for i := 0; i+1 < n; i++ {
			addEdge(i, i+1)
		}
	case "diamond":
		// S0 -> S1,S2 -> S3 (-> S4 ...), optionally more
		addEdge(0, 1)
		addEdge(0, 2)
		addEdge(1, 3)
		addEdge(2, 3)
		for i := 3; i+1 < n; i++ {
			if (uni(t, "tail", 2) == 0) {
				addEdge(i, i+1)
			}
		}
		randomDag(10)
	case "fan":
		// S0 imports several leaves that all define the same things
		for j := 1; j < n; j++ {
			addEdge(0, j)
		}
	default:
		randomDag(40)
	}
	out := make([][]string, n)
	for i := range adj {
		perm := rapid.Permutation(adj[i]).Draw(t, "importOrder")
		for _, j := range perm {
			out[i] = append(out[i], fmt.Sprintf("S%d", j))
		}
	}
	at := func(label string) int { return uni(t, label, n) }
	insert := func(i int, name string) {
		pos := uni(t, "insertPos", len(out[i])+1)
		out[i] = append(out[i][:pos], append([]string{name}, out[i][pos:]...)...)
	}
	switch shape {
	case "selfcycle":
		i := at("selfAt")
		insert(i, fmt.Sprintf("S%d", i))
	case "longcycle":
		i := uni(t, "cycleFrom", n-1)
		j := i + 1 + uni(t, "cycleTo", n-1-i)
		for k := i; k < j; k++ {
			has := false
			for _, e := range out[k] {
				if e == fmt.Sprintf("S%d", k+1) {
					has = true
				}
			}
			if !has {
				insert(k, fmt.Sprintf("S%d", k+1))
			}
		}
		insert(j, fmt.Sprintf("S%d", i))
	case "unknown":
		insert(at("unknownAt"), "NOSUCH")
	case "dupimport":
		i := at("dupAt")
		if len(out[i]) == 0 && i+1 < n {
			out[i] = append(out[i], fmt.Sprintf("S%d", i+1))
		}
		if len(out[i]) > 0 {
			insert(i, pick(t, "dupWhich", out[i]))
		}
	}
	return out
}

var shapes = []string{"chain", "diamond", "diamond", "fan", "dag", "dag", "selfcycle", "longcycle", "unknown", "dupimport", "none"}

func genUniverse(t *rapid.T) *universe {
	u := &universe{Specs: map[string]spectypes.Spec{}, Stored: map[string]bool{}}
	u.Shape = pick(t, "shape", shapes)
	u.MaxCU = pick(t, "maxCU", []uint64{10, 100, 10000, 10000})
	n := 2 + uni(t, "nSpecs", 6)
	if u.Shape == "diamond" && n < 4 {
		n = 4
	}
	if u.Shape == "fan" && n < 3 {
		n = 3
	}
	g := &itemGen{t: t, maxCU: u.MaxCU}
	g.cuValid = uni(t, "cuValid", 10) < 6
	g.variant = pick(t, "variantRate", []int{0, 0, 30, 80, 200})
	keys := genKeyPool(t)
	imports := genImports(t, u.Shape, n)
	valid := uni(t, "validTop", 10) < 9
	for i := 0; i < n; i++ {
		idx := fmt.Sprintf("S%d", i)
		s := spectypes.Spec{
			Index:                         idx,
			Name:                          "spec " + string(rune('a'+i)),
			Enabled:                       uni(t, "specEnabled", 10) < 9,
			ReliabilityThreshold:          268435455,
			DataReliabilityEnabled:        uni(t, "dataRel", 10) == 0,
			BlockDistanceForFinalizedData: 1,
			BlocksInFinalizationProof:     1,
			AverageBlockTime:              1000,
			AllowedBlockLagForQosSync:     2,
			MinStakeProvider:              sdk.NewCoin(bondDenom, sdk.NewInt(1000)),
			Shares:                        1,
			Imports:                       imports[i],
		}
		if !valid && rapid.Bool().Draw(t, "breakTop") {
			s.BlocksInFinalizationProof = 0
		}
		nColl := uni(t, "nColl", 4)
		if nColl > len(keys) {
			nColl = len(keys)
		}
		chosen := rapid.Permutation(seq(len(keys))).Draw(t, "collKeys")[:nColl]
		var chosenKeys []spectypes.CollectionData
		for _, ki := range chosen {
			chosenKeys = append(chosenKeys, keys[ki])
		}
		for ci, key := range chosenKeys {
			var others []spectypes.CollectionData
			for cj, o := range chosenKeys {
				if cj != ci {
					others = append(others, o)
				}
			}
			s.ApiCollections = append(s.ApiCollections, genCollection(g, key, others, keys))
		}
		u.Order = append(u.Order, idx)
		u.Specs[idx] = cloneSpec(s)
		u.Stored[idx] = true
	}
	if uni(t, "rootUnstored", 10) == 0 {
		u.Stored["S0"] = false
	}
	return u
}

// addOverride gives spec idx its own definition of item in collection key (creating the
// collection when the spec does not define it). Used to steer clear of a known finding.
func (u *universe) addOverride(site dupSite) {
	s := u.Specs[site.Spec]
	var coll *spectypes.ApiCollection
	for _, c := range s.ApiCollections {
		if c.CollectionData == site.Key {
			coll = c
		}
	}
	if coll == nil {
		coll = &spectypes.ApiCollection{Enabled: true, CollectionData: site.Key}
		s.ApiCollections = append(s.ApiCollections, coll)
	}
	switch site.Kind {
	case kApi:
		for _, a := range coll.Apis {
			if a.Name == site.Name {
				return
			}
		}
		cp := *site.item.api
		coll.Apis = append(coll.Apis, &cp)
	case kHeader:
		for _, a := range coll.Headers {
			if a.Name == site.Name {
				return
			}
		}
		cp := *site.item.hdr
		coll.Headers = append(coll.Headers, &cp)
	case kParse:
		for _, a := range coll.ParseDirectives {
			if parseDirectiveName(a) == site.Name {
				return
			}
		}
		cp := *site.item.pd
		coll.ParseDirectives = append(coll.ParseDirectives, &cp)
	case kExt:
		for _, a := range coll.Extensions {
			if a.Name == site.Name {
				return
			}
		}
		cp := *site.item.ext
		coll.Extensions = append(coll.Extensions, &cp)
	case kVerif:
		for _, a := range coll.Verifications {
			if a.Name == site.Name {
				return
			}
		}
		cp := *site.item.ver
		coll.Verifications = append(coll.Verifications, &cp)
	}
	u.Specs[site.Spec] = cloneSpec(s)
}
