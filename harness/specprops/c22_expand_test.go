package specprops

import (
	"bytes"
	"crypto/sha256"
	"encoding/hex"
	"fmt"
	"sort"
	"strings"
	"testing"

	sdk "github.com/cosmos/cosmos-sdk/types"
	spectypes "github.com/lavanet/lava/v5/x/spec/types"
	"pgregory.net/rapid"

	"verifharness/internal/ev"
)

// ---- C22: spec inheritance expands deterministically and completely ---------------------------

const (
	findingDup     = "c22-dup-equal-sources"
	lookupSlack    = 2000 // lookups allowed beyond 20x what the reference traversal needs
	determinismRep = 6
)

type fataler interface {
	Fatalf(format string, args ...any)
}

type lookupOverrun struct{}

// pureExpand runs types.DoExpandSpec with a lookup function over store (fresh deep copy per
// lookup, like Keeper.GetSpec). nonTerminating is set when the lookup budget was exhausted.
func pureExpand(store map[string]spectypes.Spec, root spectypes.Spec, lookupBudget int) (out spectypes.Spec, details string, err error, nonTerminating bool) {
	lookups := 0
	get := func(_ sdk.Context, index string) (spectypes.Spec, bool) {
		lookups++
		if lookups > lookupBudget {
			panic(lookupOverrun{})
		}
		s, ok := store[index]
		if !ok {
			return spectypes.Spec{}, false
		}
		return cloneSpec(s), true
	}
	defer func() {
		if r := recover(); r != nil {
			if _, ok := r.(lookupOverrun); ok {
				nonTerminating = true
				return
			}
			panic(r)
		}
	}()
	out = cloneSpec(root)
	depends := map[string]bool{root.Index: true}
	inherit := map[string]bool{}
	details, err = spectypes.DoExpandSpec(sdk.Context{}, &out, depends, &inherit, root.Index, get)
	return out, details, err, false
}

func describeUniverse(store map[string]spectypes.Spec, root spectypes.Spec) string {
	var sb strings.Builder
	idx := make([]string, 0, len(store))
	for k := range store {
		idx = append(idx, k)
	}
	sort.Strings(idx)
	fmt.Fprintf(&sb, "\nROOT %s\n", specJSON(root))
	for _, k := range idx {
		fmt.Fprintf(&sb, "STORED %s\n", specJSON(store[k]))
	}
	return sb.String()
}

func specJSON(s spectypes.Spec) string {
	var sb strings.Builder
	fmt.Fprintf(&sb, "{index:%s imports:%v collections:[", s.Index, s.Imports)
	for _, c := range s.ApiCollections {
		fmt.Fprintf(&sb, "\n    {key:%s enabled:%v inherits:%v", keyString(c.CollectionData), c.Enabled, c.InheritanceApis)
		fmt.Fprintf(&sb, " apis:[")
		for _, a := range c.Apis {
			fmt.Fprintf(&sb, "%s(en=%v cu=%d x=%d loc=%v) ", a.Name, a.Enabled, a.ComputeUnits, a.ExtraComputeUnits, a.Category.Local)
		}
		fmt.Fprintf(&sb, "] headers:[")
		for _, h := range c.Headers {
			fmt.Fprintf(&sb, "%s(%v,%q) ", h.Name, h.Kind, h.Value)
		}
		fmt.Fprintf(&sb, "] ext:[")
		for _, e := range c.Extensions {
			fmt.Fprintf(&sb, "%s(x%d) ", e.Name, e.CuMultiplier)
		}
		fmt.Fprintf(&sb, "] pd:[")
		for _, p := range c.ParseDirectives {
			fmt.Fprintf(&sb, "%s(%q) ", parseDirectiveName(p), p.FunctionTemplate)
		}
		fmt.Fprintf(&sb, "] verif:[")
		for _, v := range c.Verifications {
			fmt.Fprintf(&sb, "%s(pd=%v,%d values) ", v.Name, v.ParseDirective != nil, len(v.Values))
		}
		fmt.Fprintf(&sb, "]}")
	}
	sb.WriteString("]}")
	if out := sb.String(); len(out) > 1800 {
		return out[:1800] + fmt.Sprintf(" ...(%d more bytes)", len(out)-1800)
	}
	return sb.String()
}

func resultItems(c *spectypes.ApiCollection) [nKinds][]*refItem { return collItems(c) }

// duplicates lists duplicate collection keys and duplicate names inside collections.
func duplicates(s spectypes.Spec) []string {
	var out []string
	seenKey := map[spectypes.CollectionData]bool{}
	for _, c := range s.ApiCollections {
		if seenKey[c.CollectionData] {
			out = append(out, "collection "+keyString(c.CollectionData))
		}
		seenKey[c.CollectionData] = true
		items := resultItems(c)
		for kind := 0; kind < nKinds; kind++ {
			seen := map[string]bool{}
			for _, it := range items[kind] {
				if seen[it.name] {
					out = append(out, fmt.Sprintf("%s %q in collection %s", kindNames[kind], it.name, keyString(c.CollectionData)))
				}
				seen[it.name] = true
			}
		}
	}
	return out
}

func rawHasDuplicates(s spectypes.Spec) bool { return len(duplicates(s)) > 0 }

func findColl(s spectypes.Spec, key spectypes.CollectionData) *spectypes.ApiCollection {
	for _, c := range s.ApiCollections {
		if c.CollectionData == key {
			return c
		}
	}
	return nil
}

func findItem(items []*refItem, name string) *refItem {
	for _, it := range items {
		if it.name == name {
			return it
		}
	}
	return nil
}

type expandOutcome struct {
	classes    []string
	nontrivial bool
	ok         bool
	accepted   bool
}

// checkExpansion evaluates every clause of C22 for one (store, root) pair. known=true means the
// known finding about duplicated names is listed and its class is excluded by construction.
func checkExpansion(t fataler, c *ev.Collector, env *specEnv, store map[string]spectypes.Spec, root spectypes.Spec, maxCU uint64, reps int) expandOutcome {
	var oc expandOutcome
	addClass := func(s string) { oc.classes = append(oc.classes, s) }
	ctx := env.fresh()
	params := spectypes.DefaultParams()
	params.MaxCU = maxCU
	env.k.SetParams(ctx, params)
	for _, s := range store {
		env.k.SetSpec(ctx, s)
	}
	facts := analyseGraph(store, root)
	input := func() string { return describeUniverse(store, root) }

	// -- terminates -----------------------------------------------------------------------
	c.Clause("terminates")
	lookupBudget := lookupSlack + 20*countImportVisits(store, root, 100000)
	first, _, err, overrun := pureExpand(store, root, lookupBudget)
	if overrun {
		t.Fatalf("%s", ev.Violation("C22", "expansion does not terminate: more than %d spec lookups for a universe of %d specs (cycle=%v)%s", lookupBudget, len(store), facts.Cycle, input()))
	}

	// -- rejects cycles and unknown imports -------------------------------------------------
	if facts.Cycle || facts.Unknown {
		c.Clause("cycle-or-unknown-import-rejected")
		if err == nil {
			t.Fatalf("%s", ev.Violation("C22", "expansion succeeded although the import graph below %s has cycle=%v unknown-import=%v%s", root.Index, facts.Cycle, facts.Unknown, input()))
		}
	} else if err != nil {
		c.Clause("no-cycle-claimed-on-acyclic-graph")
		if strings.Contains(err.Error(), "import loops not allowed") || strings.Contains(err.Error(), "imported spec unknown") {
			t.Fatalf("%s", ev.Violation("C22", "expansion of %s rejected with %q although the import graph is acyclic and every import exists (diamond=%v)%s", root.Index, err.Error(), facts.Diamond, input()))
		}
	}

	// -- same result on every run (pure function path and keeper path alternate) ------------
	firstBytes := specBytes(first)
	for i := 1; i < reps; i++ {
		c.Clause("same-result-on-every-run")
		var again spectypes.Spec
		var err2 error
		if i%2 == 1 {
			again, err2 = env.k.ExpandSpec(ctx, cloneSpec(root))
		} else {
			again, _, err2, _ = pureExpand(store, root, lookupBudget)
		}
		if (err == nil) != (err2 == nil) {
			t.Fatalf("%s", ev.Violation("C22", "expansion of %s is not deterministic: run 0 error=%v, run %d error=%v%s", root.Index, err, i, err2, input()))
		}
		if err == nil && !bytes.Equal(firstBytes, specBytes(again)) {
			t.Fatalf("%s", ev.Violation("C22", "expansion of %s is not deterministic: run %d differs from run 0\nrun0: %s\nrun%d: %s%s", root.Index, i, specJSON(first), i, specJSON(again), input()))
		}
	}

	switch {
	case facts.Cycle:
		addClass("graph:cycle")
	case facts.Unknown:
		addClass("graph:unknown-import")
	case facts.Diamond:
		addClass("graph:diamond")
	case facts.Imported == 0:
		addClass("graph:no-imports")
	case facts.Depth >= 2:
		addClass("graph:chain-depth>=2")
	default:
		addClass("graph:flat-imports")
	}

	refColls, sites, refE := refExpand(store, root)
	if err != nil {
		addClass("expand:error")
		if refE != nil {
			addClass("expand:error/ref-" + refE.(*refErr).kind)
		} else {
			addClass("expand:error/ref-ok")
		}
		return oc
	}
	oc.ok = true
	addClass("expand:ok")
	result := first

	// -- no duplicates ------------------------------------------------------------------------
	c.Clause("no-duplicates")
	if dups := duplicates(result); len(dups) > 0 && !rawHasDuplicates(root) {
		t.Fatalf("%s", ev.Violation("C22", "expanded spec %s contains duplicates: %v (reference sites of equal definitions from two sources: %d)\nresult: %s%s", root.Index, dups, len(sites), specJSON(result), input()))
	}

	// -- complete: every enabled collection / API of every import, unless overridden ------------
	overrideSeen, disabledParentColl, addon := false, false, false
	for _, imp := range root.Imports {
		p := store[imp]
		pColls, _, pErr := refExpand(store, p)
		if pErr != nil {
			addClass("ref:import-not-expandable")
			continue
		}
		for _, pc := range pColls {
			if !pc.enabled {
				disabledParentColl = true
				continue
			}
			c.Clause("import-collection-present")
			rc := findColl(result, pc.key)
			if rc == nil {
				t.Fatalf("%s", ev.Violation("C22", "expanded spec %s lacks enabled collection %s of its import %s\nresult: %s%s", root.Index, keyString(pc.key), imp, specJSON(result), input()))
			}
			rawColl := findColl(root, pc.key)
			if rawColl != nil {
				overrideSeen = true
			}
			if pc.key.AddOn != "" {
				addon = true
			}
			rItems := resultItems(rc)
			for kind := 0; kind < nKinds; kind++ {
				var rawItems []*refItem
				if rawColl != nil {
					rawItems = collItems(rawColl)[kind]
				}
				for _, it := range pc.items[kind] {
					if !it.enabled() {
						continue
					}
					c.Clause("import-" + kindNames[kind] + "-present-unless-overridden")
					got := findItem(rItems[kind], it.name)
					if got == nil {
						t.Fatalf("%s", ev.Violation("C22", "expanded spec %s lacks enabled %s %q of collection %s of its import %s\nresult: %s%s", root.Index, kindNames[kind], it.name, keyString(pc.key), imp, specJSON(result), input()))
					}
					if mine := findItem(rawItems, it.name); mine != nil {
						// override: the spec's own definition (verifications may take the inherited parse directive)
						if kind == kApi && got.def() != mine.def() {
							t.Fatalf("%s", ev.Violation("C22", "spec %s overrides %s %q of collection %s but the expansion carries another definition\nresult: %s%s", root.Index, kindNames[kind], it.name, keyString(pc.key), specJSON(result), input()))
						}
						continue
					}
					if rawColl != nil && len(rawColl.InheritanceApis) > 0 {
						continue // may legitimately come from another collection of the same spec
					}
					if kind == kApi && got.def() != it.def() {
						t.Fatalf("%s", ev.Violation("C22", "expanded spec %s carries %s %q of collection %s with a definition different from its import %s although the spec does not override it\nresult: %s%s", root.Index, kindNames[kind], it.name, keyString(pc.key), imp, specJSON(result), input()))
					}
				}
			}
		}
	}
	if overrideSeen {
		addClass("override:collection")
	}
	if disabledParentColl {
		addClass("import:disabled-collection")
	}
	if addon {
		addClass("import:add-on-collection")
	}
	for _, rc := range root.ApiCollections {
		if len(rc.InheritanceApis) > 0 {
			addClass("intra-spec-inheritance")
			break
		}
	}

	// -- equal to the independent reference expansion (as sets; disabled APIs not compared) -----
	if refE != nil {
		addClass("ref:" + refE.(*refErr).kind + "/impl-ok")
	} else {
		c.Clause("equals-reference-expansion")
		if len(sites) > 0 {
			addClass("ref:dup-site")
		}
		// verifications are edited in place when overridden (they take the inherited parse directive) and
		// may be shared between collections of one spec; their definitions are compared only when no
		// spec in reach uses InheritanceApis
		intraAnywhere := false
		for _, s := range append([]spectypes.Spec{root}, storeList(store)...) {
			for _, col := range s.ApiCollections {
				if len(col.InheritanceApis) > 0 {
					intraAnywhere = true
				}
			}
		}
		refByKey := map[spectypes.CollectionData]*refColl{}
		for _, rc := range refColls {
			refByKey[rc.key] = rc
		}
		for _, rc := range refColls {
			got := findColl(result, rc.key)
			if got == nil {
				t.Fatalf("%s", ev.Violation("C22", "expanded spec %s lacks collection %s (enabled=%v) that the reference expansion contains\nresult: %s%s", root.Index, keyString(rc.key), rc.enabled, specJSON(result), input()))
			}
			if got.Enabled != rc.enabled {
				t.Fatalf("%s", ev.Violation("C22", "collection %s of expanded spec %s has enabled=%v, reference says %v\nresult: %s%s", keyString(rc.key), root.Index, got.Enabled, rc.enabled, specJSON(result), input()))
			}
			gItems := resultItems(got)
			for kind := 0; kind < nKinds; kind++ {
				for _, it := range rc.items[kind] {
					if !it.enabled() {
						continue
					}
					g := findItem(gItems[kind], it.name)
					if g == nil {
						t.Fatalf("%s", ev.Violation("C22", "expanded spec %s lacks %s %q in collection %s (present in the reference expansion)\nresult: %s%s", root.Index, kindNames[kind], it.name, keyString(rc.key), specJSON(result), input()))
					}
					if (kind != kVerif || (!intraAnywhere && !it.loose)) && g.def() != it.def() {
						t.Fatalf("%s", ev.Violation("C22", "%s %q in collection %s of expanded spec %s differs from the reference expansion\nresult: %s%s", kindNames[kind], it.name, keyString(rc.key), root.Index, specJSON(result), input()))
					}
				}
				for _, g := range gItems[kind] {
					if !g.enabled() {
						continue
					}
					if it := rc.find(kind, g.name); it == nil || !it.enabled() {
						t.Fatalf("%s", ev.Violation("C22", "expanded spec %s exposes %s %q in collection %s that neither the spec nor an enabled collection of its imports provides\nresult: %s%s", root.Index, kindNames[kind], g.name, keyString(rc.key), specJSON(result), input()))
					}
				}
			}
		}
		for _, got := range result.ApiCollections {
			if refByKey[got.CollectionData] == nil {
				t.Fatalf("%s", ev.Violation("C22", "expanded spec %s contains collection %s that neither the spec nor an enabled collection of its imports provides\nresult: %s%s", root.Index, keyString(got.CollectionData), specJSON(result), input()))
			}
		}
	}

	// -- accepted => compute units of exposed APIs within [1,maxCU] ------------------------------
	validatable := true
	for _, col := range result.ApiCollections {
		if len(col.Extensions) == 0 {
			continue
		}
		for _, v := range col.Verifications {
			if v.ParseDirective == nil {
				validatable = false // ValidateSpec dereferences it; not part of this property
			}
		}
	}
	if !validatable {
		addClass("validate:skipped-nil-parse-directive")
	} else {
		_, vErr := env.k.ValidateSpec(ctx, cloneSpec(root))
		if vErr != nil {
			addClass("validate:rejected")
		} else {
			oc.accepted = true
			addClass("validate:accepted")
			c.Clause("accepted-implies-cu-in-range")
			for _, col := range result.ApiCollections {
				if !col.Enabled {
					continue
				}
				for _, a := range col.Apis {
					if a.Enabled && (a.ComputeUnits < 1 || a.ComputeUnits > maxCU) {
						t.Fatalf("%s", ev.Violation("C22", "ValidateSpec accepted spec %s (maxCU=%d) although its expansion exposes API %q of collection %s with %d compute units\nresult: %s%s", root.Index, maxCU, a.Name, keyString(col.CollectionData), a.ComputeUnits, specJSON(result), input()))
					}
				}
			}
		}
	}
	oc.nontrivial = facts.Diamond || overrideSeen
	return oc
}

func storeList(store map[string]spectypes.Spec) []spectypes.Spec {
	out := make([]spectypes.Spec, 0, len(store))
	for _, s := range store {
		out = append(out, s)
	}
	return out
}

func fingerprint(store map[string]spectypes.Spec, root spectypes.Spec) string {
	h := sha256.New()
	idx := make([]string, 0, len(store))
	for k := range store {
		idx = append(idx, k)
	}
	sort.Strings(idx)
	h.Write(specBytes(root))
	for _, k := range idx {
		h.Write([]byte(k))
		h.Write(specBytes(store[k]))
	}
	return hex.EncodeToString(h.Sum(nil))
}

// steerClearOfKnownDup rewrites the universe until the reference sees no place where a name
// reaches a collection from two equal sources without being overridden (known finding).
func steerClearOfKnownDup(u *universe) (changed int, clean bool) {
	for round := 0; round < 12; round++ {
		var all []dupSite
		store := u.store()
		for _, idx := range u.Order {
			_, sites, _ := refExpand(store, u.Specs[idx])
			all = append(all, sites...)
		}
		if len(all) == 0 {
			return changed, true
		}
		for _, s := range all {
			u.addOverride(s)
			changed++
		}
	}
	return changed, false
}

func propC22(t *rapid.T) {
	c := ev.For("C22")
	env, err := sharedEnv()
	if err != nil {
		t.Fatalf("%s", ev.HarnessError("spec keeper: %v", err))
	}
	defer func() {
		if r := recover(); r != nil {
			if hp, ok := r.(harnessPanic); ok {
				t.Fatalf("%s", ev.HarnessError("%s", hp.msg))
			}
			panic(r)
		}
	}()
	var u *universe
	if real := loadRealSpecs(); len(real) > 0 && uni(t, "mode", 100) < realModePercent {
		u = genRealUniverse(t, real)
	} else {
		u = genUniverse(t)
	}
	if ev.Excluded(findingDup) {
		n, clean := steerClearOfKnownDup(u)
		if n > 0 {
			c.Exclude(findingDup)
		}
		if !clean {
			c.Class("excluded:not-repairable")
			return
		}
	}
	store := u.store()
	for i, idx := range u.Order {
		root := u.Specs[idx]
		reps := 2
		if i == 0 {
			reps = determinismRep
		}
		if u.RootsOnly != nil && !u.RootsOnly[idx] {
			continue
		}
		oc := checkExpansion(t, c, env, store, root, u.MaxCU, reps)
		classes := append(oc.classes, "shape:"+u.Shape)
		c.Case(oc.nontrivial, fingerprint(store, root), classes...)
		if oc.nontrivial {
			c.Sample(map[string]any{"root": idx, "shape": u.Shape, "classes": oc.classes, "universe": describeUniverse(store, root)})
		}
	}
}

func setupC22() {
	c := ev.For("C22")
	c.SetRule("rapid draws a universe of 2-7 synthetic specs (import shape: chain, diamond, fan, random DAG, self/long cycle, unknown import, repeated import, none) whose collections share a pool of 2-5 keys (interface, internal path, type, add-on) and pools of 6 API / 3 header / 2 extension / 5 parse-directive / 2 verification names with canonical and conflicting definitions, disabled collections/APIs, InheritanceApis between collections of one spec, CU in {0,1,..,max,max+1}; every spec of the universe is expanded as root (one evaluation each) through types.DoExpandSpec with a copying lookup and through Keeper.ExpandSpec on a real store. Non-trivial: the root's import graph has a diamond (a spec reachable by two import paths) or the root defines a collection key that an import also provides (override). Distinct = SHA-256 of the marshalled root and store.")
	c.Assume(
		"every generated raw spec is duplicate-free by itself (unique collection keys, unique names per collection); duplicates are only asserted absent when the root spec has none",
		"lookups return a fresh deep copy of the stored spec (what Keeper.GetSpec does); callers that share collection pointers between lookups are out of scope",
		"expansion may reject conflicting definitions (policy); only cycle/unknown rejections are required, and a loop/unknown error on an acyclic, fully known graph is a violation",
		"'exposed API' for the compute-unit clause = enabled API in an enabled collection of the expanded spec; acceptance = Keeper.ValidateSpec returns nil with a staking stub (bond denom ulava)",
		"ValidateSpec is not called when a verification without parse directive sits in a collection with extensions (it dereferences nil there; outside this property)",
	)
}

func TestC22(t *testing.T) {
	setupC22()
	t.Run("real-specs", func(t *testing.T) { realSpecsC22(t) })
	if !ev.Excluded(findingDup) {
		// plain regression test of the (former) finding; when it is listed as known the driver
		// replays it separately as the witness
		t.Run("regression-dup-equal-sources", TestC22Known_dupEqualSources)
	}
	if t.Failed() {
		return
	}
	rapid.Check(t, propC22)
}

// TestC22Known_dupEqualSources is the witness of known finding c22-dup-equal-sources: two imports
// define API "a" identically in the same collection, the importing spec defines that collection
// without "a" -> the expansion succeeds and lists "a" twice.
func TestC22Known_dupEqualSources(t *testing.T) {
	env, err := sharedEnv()
	if err != nil {
		t.Fatalf("%s", ev.HarnessError("spec keeper: %v", err))
	}
	key := spectypes.CollectionData{ApiInterface: spectypes.APIInterfaceRest, Type: "GET"}
	mk := func(idx string, imports []string, apis ...string) spectypes.Spec {
		col := &spectypes.ApiCollection{Enabled: true, CollectionData: key}
		for _, a := range apis {
			col.Apis = append(col.Apis, &spectypes.Api{Enabled: true, Name: a, ComputeUnits: 10})
		}
		return cloneSpec(spectypes.Spec{Index: idx, Name: "x", Imports: imports, ApiCollections: []*spectypes.ApiCollection{col}})
	}
	store := map[string]spectypes.Spec{"B": mk("B", nil, "a"), "C": mk("C", nil, "a")}
	root := mk("A", []string{"B", "C"}, "b")
	ctx := env.fresh()
	for _, s := range store {
		env.k.SetSpec(ctx, s)
	}
	out, err := env.k.ExpandSpec(ctx, cloneSpec(root))
	if err != nil {
		return // rejecting is allowed
	}
	if dups := duplicates(out); len(dups) > 0 {
		t.Fatalf("%s", ev.Violation("C22", "expanded spec A contains duplicates %v: B and C both define API a in %s, A imports both and defines the collection without a\nresult: %s", dups, keyString(key), specJSON(out)))
	}
	// same shape with an extension, a parse directive and a verification shared by B and C (their
	// APIs differ): Keeper.ValidateSpec accepts the proposal, the expansion must still be duplicate-free
	mk2 := func(idx string, imports []string, api string, shared bool) spectypes.Spec {
		col := &spectypes.ApiCollection{Enabled: true, CollectionData: key, Apis: []*spectypes.Api{{Enabled: true, Name: api, ComputeUnits: 10}}}
		if shared {
			col.Extensions = []*spectypes.Extension{{Name: "archive", CuMultiplier: 5, Rule: &spectypes.Rule{Block: 127}}}
			col.ParseDirectives = []*spectypes.ParseDirective{{FunctionTag: spectypes.FUNCTION_TAG_GET_BLOCKNUM, FunctionTemplate: "x", ApiName: "shared"}}
			col.Verifications = []*spectypes.Verification{{Name: "chain-id", ParseDirective: &spectypes.ParseDirective{FunctionTag: spectypes.FUNCTION_TAG_VERIFICATION, ApiName: "shared"}, Values: []*spectypes.ParseValue{{ExpectedValue: "0x1"}}}}
		}
		return cloneSpec(spectypes.Spec{Index: idx, Name: "x", Enabled: true, ReliabilityThreshold: 1, BlockDistanceForFinalizedData: 1, BlocksInFinalizationProof: 1,
			AverageBlockTime: 1000, AllowedBlockLagForQosSync: 2, MinStakeProvider: sdk.NewCoin(bondDenom, sdk.NewInt(1000)), Shares: 1, Imports: imports, ApiCollections: []*spectypes.ApiCollection{col}})
	}
	ctx2 := env.fresh()
	env.k.SetSpec(ctx2, mk2("B", nil, "b_api", true))
	env.k.SetSpec(ctx2, mk2("C", nil, "c_api", true))
	root2 := mk2("A", []string{"B", "C"}, "a_api", false)
	out2, err := env.k.ExpandSpec(ctx2, cloneSpec(root2))
	if err != nil {
		return
	}
	if dups := duplicates(out2); len(dups) > 0 {
		_, vErr := env.k.ValidateSpec(ctx2, cloneSpec(root2))
		t.Fatalf("%s", ev.Violation("C22", "expanded spec A contains duplicates %v (Keeper.ValidateSpec error: %v): B and C define the same extension, parse directive and verification in %s, A imports both and defines the collection without them\nresult: %s", dups, vErr, keyString(key), specJSON(out2)))
	}
}

// TestC22Replay re-runs the real-spec part only (rapid failures are replayed through the fail file).
func TestC22Replay(t *testing.T) {
	setupC22()
	realSpecsC22(t)
}

