package specprops

import (
	"fmt"
	"sync"

	tmdb "github.com/cometbft/cometbft-db"
	"github.com/cometbft/cometbft/libs/log"
	tmproto "github.com/cometbft/cometbft/proto/tendermint/types"
	"github.com/cosmos/cosmos-sdk/codec"
	codectypes "github.com/cosmos/cosmos-sdk/codec/types"
	"github.com/cosmos/cosmos-sdk/store"
	storetypes "github.com/cosmos/cosmos-sdk/store/types"
	sdk "github.com/cosmos/cosmos-sdk/types"
	typesparams "github.com/cosmos/cosmos-sdk/x/params/types"
	"github.com/lavanet/lava/v5/utils"
	speckeeper "github.com/lavanet/lava/v5/x/spec/keeper"
	spectypes "github.com/lavanet/lava/v5/x/spec/types"
)

// ---- real spec keeper on an in-memory store (same wiring as utils/keeper.SpecKeeper, plus a
// staking keeper stub so that Keeper.ValidateSpec can be called end to end) ------------------

const bondDenom = "ulava"

type stakingStub struct{}

func (stakingStub) BondDenom(sdk.Context) string { return bondDenom }

type specEnv struct {
	k   *speckeeper.Keeper
	ctx sdk.Context
}

var (
	envOnce sync.Once
	envVal  *specEnv
	envErr  error
)

func newSpecEnv() (*specEnv, error) {
	storeKey := sdk.NewKVStoreKey(spectypes.StoreKey)
	memStoreKey := storetypes.NewMemoryStoreKey(spectypes.MemStoreKey)
	db := tmdb.NewMemDB()
	stateStore := store.NewCommitMultiStore(db)
	stateStore.MountStoreWithDB(storeKey, storetypes.StoreTypeIAVL, db)
	stateStore.MountStoreWithDB(memStoreKey, storetypes.StoreTypeMemory, nil)
	if err := stateStore.LoadLatestVersion(); err != nil {
		return nil, err
	}
	registry := codectypes.NewInterfaceRegistry()
	cdc := codec.NewProtoCodec(registry)
	paramsSubspace := typesparams.NewSubspace(cdc, spectypes.Amino, storeKey, memStoreKey, "SpecParams")
	k := speckeeper.NewKeeper(cdc, storeKey, memStoreKey, paramsSubspace, stakingStub{})
	ctx := sdk.NewContext(stateStore, tmproto.Header{}, false, log.NewNopLogger())
	k.SetParams(ctx, spectypes.DefaultParams())
	return &specEnv{k: k, ctx: ctx}, nil
}

// sharedEnv returns the process-wide keeper; every case works in its own CacheContext that is
// thrown away, so cases cannot see each other's specs.
func sharedEnv() (*specEnv, error) {
	envOnce.Do(func() {
		utils.SetGlobalLoggingLevel("fatal") // ExpandSpec logs every rejected import
		envVal, envErr = newSpecEnv()
	})
	return envVal, envErr
}

func (e *specEnv) fresh() sdk.Context {
	c, _ := e.ctx.CacheContext()
	return c
}

// ---- small helpers ------------------------------------------------------------------------

// cloneSpec deep-copies a spec the way the keeper does: marshal + unmarshal.
func cloneSpec(s spectypes.Spec) spectypes.Spec {
	bz, err := s.Marshal()
	if err != nil {
		panic(harnessPanic{fmt.Sprintf("marshal spec: %v", err)})
	}
	var out spectypes.Spec
	if err := out.Unmarshal(bz); err != nil {
		panic(harnessPanic{fmt.Sprintf("unmarshal spec: %v", err)})
	}
	return out
}

func specBytes(s spectypes.Spec) []byte {
	bz, err := s.Marshal()
	if err != nil {
		panic(harnessPanic{fmt.Sprintf("marshal spec: %v", err)})
	}
	return bz
}

type harnessPanic struct{ msg string }

type marshaler interface{ Marshal() ([]byte, error) }

func defBytes(m marshaler) string {
	bz, err := m.Marshal()
	if err != nil {
		panic(harnessPanic{fmt.Sprintf("marshal item: %v", err)})
	}
	return string(bz)
}

func keyString(cd spectypes.CollectionData) string {
	return fmt.Sprintf("%q|%q|%q|%q", cd.ApiInterface, cd.InternalPath, cd.Type, cd.AddOn)
}
