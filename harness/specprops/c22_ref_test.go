package specprops

import (
	"fmt"
	"sort"

	spectypes "github.com/lavanet/lava/v5/x/spec/types"
)

// Independent reference expansion for C22. It is written over name-indexed sets and only uses
// the exported data types of x/spec/types (no Combinable / CombineFields / CombineUnique /
// DoExpandSpec). Semantics taken from the property statement and the documented behaviour:
//   - imports are expanded recursively, depth first, in list order; an unknown import or an
//     import that is already on the current path is an error;
//   - only enabled collections of an (expanded) import are inherited, only enabled APIs of them;
//   - a collection of the importing spec with the same key receives what it does not define
//     itself (its own definition wins = override); a key the spec does not define is inherited
//     as the union of the imports' collections;
//   - two sources that define the same name differently are a conflict unless the receiving
//     collection overrides that name;
//   - inside one spec a collection first receives the collections named in InheritanceApis
//     (also disabled ones), recursively, with the same rules;
//   - every name appears once.

const (
	kApi = iota
	kHeader
	kParse
	kExt
	kVerif
	nKinds
)

var kindNames = [nKinds]string{"api", "header", "parse-directive", "extension", "verification"}

type refItem struct {
	kind int
	name string
	api  *spectypes.Api
	hdr  *spectypes.Header
	pd   *spectypes.ParseDirective
	ext  *spectypes.Extension
	ver  *spectypes.Verification
	// loose: the definition is not pinned down by the documented rules (an overriding verification
	// without parse directive whose first source has none either, while a later source has one)
	loose bool
}

func (it *refItem) def() string {
	switch it.kind {
	case kApi:
		return defBytes(it.api)
	case kHeader:
		return defBytes(it.hdr)
	case kParse:
		return defBytes(it.pd)
	case kExt:
		return defBytes(it.ext)
	default:
		return defBytes(it.ver)
	}
}

func (it *refItem) enabled() bool {
	if it.kind == kApi {
		return it.api.Enabled
	}
	return true
}

func parseDirectiveName(p *spectypes.ParseDirective) string {
	if p.FunctionTag == spectypes.FUNCTION_TAG_SUBSCRIBE || p.FunctionTag == spectypes.FUNCTION_TAG_UNSUBSCRIBE {
		return p.FunctionTag.String() + "_" + p.ApiName
	}
	return p.FunctionTag.String()
}

type refColl struct {
	key     spectypes.CollectionData
	enabled bool
	inherit []spectypes.CollectionData
	items   [nKinds][]*refItem
	origin  string // index of the spec whose collection object this is
}

func (c *refColl) find(kind int, name string) *refItem {
	for _, it := range c.items[kind] {
		if it.name == name {
			return it
		}
	}
	return nil
}

func collItems(c *spectypes.ApiCollection) [nKinds][]*refItem {
	var out [nKinds][]*refItem
	for _, a := range c.Apis {
		out[kApi] = append(out[kApi], &refItem{kind: kApi, name: a.Name, api: a})
	}
	for _, h := range c.Headers {
		out[kHeader] = append(out[kHeader], &refItem{kind: kHeader, name: h.Name, hdr: h})
	}
	for _, p := range c.ParseDirectives {
		out[kParse] = append(out[kParse], &refItem{kind: kParse, name: parseDirectiveName(p), pd: p})
	}
	for _, e := range c.Extensions {
		out[kExt] = append(out[kExt], &refItem{kind: kExt, name: e.Name, ext: e})
	}
	for _, v := range c.Verifications {
		out[kVerif] = append(out[kVerif], &refItem{kind: kVerif, name: v.Name, ver: v})
	}
	return out
}

func refCollsOf(spec spectypes.Spec) []*refColl {
	cp := cloneSpec(spec) // private objects: the reference may edit verifications
	out := make([]*refColl, 0, len(cp.ApiCollections))
	for _, c := range cp.ApiCollections {
		rc := &refColl{key: c.CollectionData, enabled: c.Enabled, origin: spec.Index, items: collItems(c)}
		for _, cd := range c.InheritanceApis {
			rc.inherit = append(rc.inherit, *cd)
		}
		out = append(out, rc)
	}
	return out
}

type refErr struct {
	kind string // "unknown" | "cycle" | "conflict" | "intra"
	msg  string
}

func (e *refErr) Error() string { return e.kind + ": " + e.msg }

// dupSite is a place where one name reaches a receiving collection from two sources with equal
// definitions while the receiver does not define it (signature of known finding
// c22-dup-equal-sources).
type dupSite struct {
	Spec string
	Key  spectypes.CollectionData
	Kind int
	Name string
	item *refItem
}

type refExpander struct {
	store map[string]spectypes.Spec
	sites []dupSite
	steps int
}

// merge adds to target everything the sources define that target does not.
func (r *refExpander) merge(specIdx string, target *refColl, sources []*refColl, overrideAllowed bool) error {
	for kind := 0; kind < nKinds; kind++ {
		own := map[string]*refItem{}
		for _, it := range target.items[kind] {
			own[it.name] = it
		}
		lastDef := map[string]string{}
		var incoming []*refItem
		for _, src := range sources {
			for _, it := range src.items[kind] {
				if !it.enabled() {
					continue
				}
				d := it.def()
				if prev, seen := lastDef[it.name]; seen && prev != d {
					if _, overridden := own[it.name]; !overrideAllowed || !overridden {
						return &refErr{"conflict", fmt.Sprintf("%s %q of collection %s is defined differently by two sources of spec %s", kindNames[kind], it.name, keyString(target.key), specIdx)}
					}
				}
				lastDef[it.name] = d
				incoming = append(incoming, it)
			}
		}
		added := map[string]bool{}
		firstHadPD := map[string]bool{}
		seenVer := map[string]bool{}
		for _, it := range incoming {
			if kind == kVerif {
				if !seenVer[it.name] {
					seenVer[it.name] = true
					firstHadPD[it.name] = it.ver.ParseDirective != nil
				}
				if it.loose {
					if mine := own[it.name]; mine != nil {
						mine.loose = true
					}
				}
			}
			mine, overridden := own[it.name]
			switch {
			case !overridden:
				if added[it.name] {
					r.sites = append(r.sites, dupSite{Spec: specIdx, Key: target.key, Kind: kind, Name: it.name, item: it})
					continue
				}
				added[it.name] = true
				target.items[kind] = append(target.items[kind], it)
			case !overrideAllowed:
				if mine.def() != it.def() {
					return &refErr{"conflict", fmt.Sprintf("%s %q of inherited collection %s differs between imports of spec %s", kindNames[kind], it.name, keyString(target.key), specIdx)}
				}
			case kind == kVerif:
				// an overriding verification without parse directive takes the inherited one
				if mine.ver.ParseDirective == nil && it.ver.ParseDirective != nil {
					if !firstHadPD[it.name] {
						mine.loose = true
					}
					pd := *it.ver.ParseDirective
					mine.ver.ParseDirective = &pd
					have := map[string]bool{}
					for _, v := range mine.ver.Values {
						have[v.Extension] = true
					}
					for _, v := range it.ver.Values {
						if !have[v.Extension] {
							mine.ver.Values = append(mine.ver.Values, v)
						}
					}
				}
			}
		}
	}
	return nil
}

func canInheritWithinSpec(receiver, source spectypes.CollectionData) bool {
	return (receiver.ApiInterface == source.ApiInterface && receiver.Type == source.Type) || source.ApiInterface == ""
}

func (r *refExpander) expandWithin(specIdx string, x *refColl, mine map[spectypes.CollectionData]*refColl, visiting map[spectypes.CollectionData]bool) error {
	visiting[x.key] = true
	defer delete(visiting, x.key)
	wanted := x.inherit
	x.inherit = nil
	var sources []*refColl
	for _, cd := range wanted {
		y, ok := mine[cd]
		if !ok {
			return &refErr{"intra", "inheritance from a collection the spec does not have"}
		}
		if !canInheritWithinSpec(x.key, y.key) {
			return &refErr{"intra", "inheritance from an incompatible collection"}
		}
		if visiting[y.key] {
			return &refErr{"intra", "circular inheritance between collections"}
		}
		if err := r.expandWithin(specIdx, y, mine, visiting); err != nil {
			return err
		}
		sources = append(sources, y)
	}
	return r.merge(specIdx, x, sources, true)
}

// expand returns the expanded collections of spec. path holds the indices on the current import
// path (including the spec being expanded at the top).
func (r *refExpander) expand(spec spectypes.Spec, path map[string]bool) ([]*refColl, error) {
	r.steps++
	var parents [][]*refColl
	for _, imp := range spec.Imports {
		p, ok := r.store[imp]
		if !ok {
			return nil, &refErr{"unknown", imp}
		}
		if path[imp] {
			return nil, &refErr{"cycle", imp}
		}
		path[imp] = true
		pc, err := r.expand(p, path)
		delete(path, imp)
		if err != nil {
			return nil, err
		}
		parents = append(parents, pc)
	}
	inherited := map[spectypes.CollectionData][]*refColl{}
	for _, pc := range parents {
		for _, c := range pc {
			if c.enabled {
				inherited[c.key] = append(inherited[c.key], c)
			}
		}
	}
	own := refCollsOf(spec)
	mine := map[spectypes.CollectionData]*refColl{}
	for _, c := range own {
		mine[c.key] = c
	}
	for _, c := range own {
		if err := r.expandWithin(spec.Index, c, mine, map[spectypes.CollectionData]bool{}); err != nil {
			return nil, err
		}
		if err := r.merge(spec.Index, c, inherited[c.key], true); err != nil {
			return nil, err
		}
		delete(inherited, c.key)
	}
	rest := make([]spectypes.CollectionData, 0, len(inherited))
	for k := range inherited {
		rest = append(rest, k)
	}
	sort.Slice(rest, func(i, j int) bool { return keyString(rest[i]) < keyString(rest[j]) })
	for _, k := range rest {
		list := inherited[k]
		base := list[0]
		if err := r.merge(spec.Index, base, list[1:], false); err != nil {
			return nil, err
		}
		own = append(own, base)
	}
	return own, nil
}

// refExpand expands root against store the way Keeper.ExpandSpec is specified to.
func refExpand(store map[string]spectypes.Spec, root spectypes.Spec) ([]*refColl, []dupSite, error) {
	r := &refExpander{store: store}
	out, err := r.expand(root, map[string]bool{root.Index: true})
	return out, r.sites, err
}

// ---- graph facts, computed on the import graph only ------------------------------------------

type graphFacts struct {
	Cycle    bool // a cycle is reachable from root
	Unknown  bool // an unknown import is reachable from root
	Diamond  bool // some spec is reachable from root through two different import paths
	Depth    int  // longest import chain below root (acyclic part)
	Imported int  // number of distinct specs reachable
}

func analyseGraph(store map[string]spectypes.Spec, root spectypes.Spec) graphFacts {
	var f graphFacts
	reach := map[string]int{}
	state := map[string]int{root.Index: 1} // 1 on path, 2 done
	var visit func(s spectypes.Spec, depth int)
	visit = func(s spectypes.Spec, depth int) {
		if depth > f.Depth {
			f.Depth = depth
		}
		seenHere := map[string]bool{}
		for _, imp := range s.Imports {
			p, ok := store[imp]
			if !ok {
				f.Unknown = true
				continue
			}
			if seenHere[imp] {
				f.Diamond = true
			}
			seenHere[imp] = true
			reach[imp]++
			switch state[imp] {
			case 1:
				f.Cycle = true
			case 2:
				f.Diamond = true
			default:
				state[imp] = 1
				visit(p, depth+1)
				state[imp] = 2
			}
		}
	}
	visit(root, 0)
	f.Imported = len(reach)
	return f
}

// countImportVisits counts the spec lookups of a depth-first traversal that follows every import
// path and stops descending at unknown specs and at specs already on the path (capped).
func countImportVisits(store map[string]spectypes.Spec, root spectypes.Spec, limit int) int {
	n := 0
	path := map[string]bool{root.Index: true}
	var visit func(s spectypes.Spec)
	visit = func(s spectypes.Spec) {
		for _, imp := range s.Imports {
			if n >= limit {
				return
			}
			n++
			p, ok := store[imp]
			if !ok || path[imp] {
				continue
			}
			path[imp] = true
			visit(p)
			delete(path, imp)
		}
	}
	visit(root)
	return n
}
