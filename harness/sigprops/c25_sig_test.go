package sigprops

// C25 — relay signatures bind every signed field; checking never mutates.
//
// Oracle, from the property statement only:
//  (1) a session signed by the consumer recovers to the consumer's address;
//  (2) after changing any one signed field (CU sum, session id, relay number, epoch, provider,
//      spec, lava chain id, content hash, QoS report, QoS excellence report, reported providers)
//      it does NOT recover to the consumer's address any more (error or other address);
//  (3) changing only what is not signed (the badge) keeps the recovery;
//  (4) a reply signed by the provider verifies against the provider's address for the request
//      data that was signed, whatever the salt is; it does not verify against another address;
//  (5) after changing the reply data, the reply metadata or any request-data field but the salt,
//      it does not verify; changing only unsigned parts keeps it verifying;
//  (6) the checked request/reply/session are byte-for-byte the same before and after checking.

import (
	"context"
	"encoding/hex"
	"fmt"
	"testing"
	"time"

	sdk "github.com/cosmos/cosmos-sdk/types"
	"github.com/lavanet/lava/v5/protocol/lavaprotocol"
	"github.com/lavanet/lava/v5/protocol/lavasession"
	"github.com/lavanet/lava/v5/protocol/qos"
	"github.com/lavanet/lava/v5/utils/sigs"
	pairingtypes "github.com/lavanet/lava/v5/x/pairing/types"
	spectypes "github.com/lavanet/lava/v5/x/spec/types"
	"pgregory.net/rapid"

	"verifharness/internal/ev"
)

// id of the known finding (only used when the coordinator lists it in known_findings.json)
const c25FindingSalt = "c25-verify-clears-request-salt"

type marshaler interface {
	Marshal() ([]byte, error)
	String() string
}

func mustMarshal(rt *rapid.T, what string, m marshaler) []byte {
	b, err := m.Marshal()
	if err != nil {
		rt.Fatalf("%s", ev.HarnessError("C25: %s does not marshal: %v", what, err))
	}
	return b
}

func cloneSession(rt *rapid.T, s *pairingtypes.RelaySession) *pairingtypes.RelaySession {
	out := &pairingtypes.RelaySession{}
	if err := out.Unmarshal(mustMarshal(rt, "session", s)); err != nil {
		rt.Fatalf("%s", ev.HarnessError("C25: session clone: %v", err))
	}
	return out
}

func cloneRequest(rt *rapid.T, r *pairingtypes.RelayRequest) *pairingtypes.RelayRequest {
	out := &pairingtypes.RelayRequest{}
	if err := out.Unmarshal(mustMarshal(rt, "request", r)); err != nil {
		rt.Fatalf("%s", ev.HarnessError("C25: request clone: %v", err))
	}
	if out.RelayData == nil {
		out.RelayData = &pairingtypes.RelayPrivateData{}
	}
	return out
}

func cloneReply(rt *rapid.T, r *pairingtypes.RelayReply) *pairingtypes.RelayReply {
	out := &pairingtypes.RelayReply{}
	if err := out.Unmarshal(mustMarshal(rt, "reply", r)); err != nil {
		rt.Fatalf("%s", ev.HarnessError("C25: reply clone: %v", err))
	}
	return out
}

func recoversTo(s pairingtypes.RelaySession, want sdk.AccAddress) (bool, string) {
	addr, err := sigs.ExtractSignerAddress(s)
	if err != nil {
		return false, "error: " + err.Error()
	}
	return addr.Equals(want), addr.String()
}

func blockClass(b int64) string {
	switch b {
	case spectypes.LATEST_BLOCK, spectypes.SAFE_BLOCK, spectypes.FINALIZED_BLOCK, spectypes.PENDING_BLOCK:
		return "reqblock:latest-like"
	case spectypes.EARLIEST_BLOCK:
		return "reqblock:earliest"
	case spectypes.NOT_APPLICABLE:
		return "reqblock:not-applicable"
	}
	if b < 0 {
		return "reqblock:negative"
	}
	return "reqblock:number"
}

func nClass(prefix string, n int) string {
	if n >= 2 {
		return prefix + ":2+"
	}
	return fmt.Sprintf("%s:%d", prefix, n)
}

func TestC25(t *testing.T) {
	c := ev.For("C25")
	c.SetRule("one case = consumer/provider/third secp256k1 keys derived from rapid-drawn seeds + a random relay request " +
		"(all RelayPrivateData fields) + a consumer-signed RelaySession (built directly or through lavaprotocol.ConstructRelayRequest " +
		"with a populated QoS manager) + a provider-signed reply (lavaprotocol.SignRelayResponse on the provider's wire copy); then EVERY " +
		"signed field of the session and of the exchange is tampered once (rapid-drawn edit) and re-checked. Non-trivial = the untampered " +
		"session recovered to the consumer and the untampered reply verified, so every tamper clause ran against a valid signature. " +
		"Distinct = hash of (consumer address, marshalled request, marshalled reply).")
	c.Assume("metadata names are non-empty (HTTP header names); extension names are non-empty",
		"strings are valid UTF-8 (proto3 string fields)",
		"QoS report decimals are initialised (nil Dec and 0 are the same on the wire and are not treated as a change)",
		"nil and empty bytes/lists are the same value (proto3 wire semantics) and are not treated as a change",
		"a changed signature value itself is not asserted either way (ECDSA signatures are malleable: (r,-s) recovers the same key)",
		"a tamper is a change of ONE signed item; simultaneous compensating edits of reply data and request data are not generated")
	rapid.Check(t, propC25)
}

func propC25(rt *rapid.T) {
	c := ev.For("C25")
	ctx := context.Background()
	classes := []string{}
	// The case is recorded when the property function returns OR stops at a violation, so that a
	// violating run still shows what it explored. Non-trivial = both valid signatures were checked.
	rec := struct {
		consumer, provider, session, requestData, reply string
		reqBytes, replyBytes                            []byte
		sessionOK, replyOK                              bool
	}{}
	defer func() {
		if rec.session == "" {
			return // stopped while still generating (e.g. rapid ran out of recorded draws)
		}
		nontrivial := rec.sessionOK && rec.replyOK
		c.Case(nontrivial, rec.consumer+"|"+hex.EncodeToString(rec.reqBytes)+"|"+hex.EncodeToString(rec.replyBytes), classes...)
		if nontrivial {
			c.Sample(map[string]any{"consumer": rec.consumer, "provider": rec.provider, "session": rec.session,
				"request_data": rec.requestData, "reply": rec.reply})
		}
	}()

	consumer := genAccount(rt, "consumer")
	provider := genAccount(rt, "provider")
	third := genAccount(rt, "third")
	if provider.Addr.Equals(consumer.Addr) || third.Addr.Equals(consumer.Addr) || third.Addr.Equals(provider.Addr) {
		classes = append(classes, "keys:collide")
		provider = accountFromSeed([]byte("verif-provider"))
		third = accountFromSeed([]byte("verif-third"))
		if consumer.Addr.Equals(provider.Addr) || consumer.Addr.Equals(third.Addr) {
			consumer = accountFromSeed([]byte("verif-consumer"))
		}
	}
	addrPool := []string{provider.Addr.String(), third.Addr.String(), consumer.Addr.String(), "lava@stubProviderAddress", "stub", ""}

	relayData := genRelayData(rt, "req")
	lavaChainID := genText(rt, "lavaChainID", poolLavaID)
	specID := genText(rt, "specID", poolSpec)
	providerStr := provider.Addr.String()
	if rapid.IntRange(0, 5).Draw(rt, "provider.str?") == 0 {
		providerStr = genText(rt, "provider.str", addrPool)
	}
	epoch := genBlock(rt, "epoch")
	reported := genReportedProviders(rt, "reported", addrPool)

	// ---- the consumer builds and signs the session -------------------------------------------
	var request *pairingtypes.RelayRequest
	if rapid.IntRange(0, 2).Draw(rt, "builder?") == 0 {
		classes = append(classes, "session:via-ConstructRelayRequest")
		sid := rapid.Int64().Draw(rt, "scs.sessionId")
		qm := qos.NewQoSManager()
		nq := rapid.IntRange(0, 3).Draw(rt, "qos.relays")
		for i := 0; i < nq; i++ {
			l := fmt.Sprintf("qos[%d]", i)
			if rapid.Bool().Draw(rt, l+".fail") {
				qm.AddFailedRelay(uint64(epoch), sid)
				continue
			}
			qm.CalculateQoS(uint64(epoch), sid, providerStr,
				time.Duration(rapid.Int64Range(0, int64(10*time.Second)).Draw(rt, l+".latency")),
				time.Duration(rapid.Int64Range(1, int64(10*time.Second)).Draw(rt, l+".expected")),
				rapid.Int64Range(-5, 5).Draw(rt, l+".blockdiff"),
				rapid.IntRange(1, 10).Draw(rt, l+".nprov"),
				rapid.Int64Range(1, 10).Draw(rt, l+".servicers"))
		}
		if rapid.Bool().Draw(rt, "qos.reputation?") {
			qm.SetLastReputationQoSReport(uint64(epoch), sid, genQoS(rt, "qos.reputation"))
		}
		scs := &lavasession.SingleConsumerSession{
			CuSum:         genU64(rt, "scs.cuSum") >> 1,
			LatestRelayCu: genU64(rt, "scs.latestCu") >> 1,
			QoSManager:    qm,
			SessionId:     sid,
			RelayNum:      genU64(rt, "scs.relayNum"),
			LatestBlock:   epoch,
		}
		var err error
		request, err = lavaprotocol.ConstructRelayRequest(ctx, consumer.SK, lavaChainID, specID, relayData, providerStr, scs, epoch, reported)
		if err != nil || request == nil || request.RelaySession == nil {
			rt.Fatalf("%s", ev.HarnessError("C25: ConstructRelayRequest failed: %v", err))
		}
	} else {
		classes = append(classes, "session:direct")
		session := &pairingtypes.RelaySession{
			SpecId:                specID,
			SessionId:             genU64(rt, "sessionId"),
			CuSum:                 genU64(rt, "cuSum"),
			Provider:              providerStr,
			RelayNum:              genU64(rt, "relayNum"),
			Epoch:                 epoch,
			UnresponsiveProviders: reported,
			LavaChainId:           lavaChainID,
		}
		switch rapid.IntRange(0, 5).Draw(rt, "contentHash.kind") {
		case 0:
			session.ContentHash = rapid.SliceOfN(rapid.Byte(), 0, 40).Draw(rt, "contentHash.any")
		default:
			session.ContentHash = sigs.HashMsg(relayData.GetContentHashData())
		}
		if rapid.Bool().Draw(rt, "qos?") {
			session.QosReport = genQoS(rt, "qos")
		}
		if rapid.Bool().Draw(rt, "excellence?") {
			session.QosExcellenceReport = genQoS(rt, "excellence")
		}
		sig, err := sigs.Sign(consumer.SK, *session)
		if err != nil {
			rt.Fatalf("%s", ev.HarnessError("C25: signing the session failed: %v", err))
		}
		session.Sig = sig
		request = &pairingtypes.RelayRequest{RelaySession: session, RelayData: relayData}
	}
	session := request.RelaySession
	// a badge travels next to the signature and is not covered by it
	if rapid.IntRange(0, 2).Draw(rt, "badge?") == 0 {
		classes = append(classes, "badge:attached-after-signing")
		session.Badge = &pairingtypes.Badge{
			CuAllocation: genU64(rt, "badge.cu"),
			Epoch:        uint64(genU64(rt, "badge.epoch")),
			Address:      consumer.Addr.String(),
			LavaChainId:  lavaChainID,
			ProjectSig:   rapid.SliceOfN(rapid.Byte(), 0, 65).Draw(rt, "badge.sig"),
			VirtualEpoch: rapid.Uint64Range(0, 3).Draw(rt, "badge.vepoch"),
		}
	} else {
		classes = append(classes, "badge:none")
	}
	if session.QosReport != nil {
		classes = append(classes, "qos:set")
	} else {
		classes = append(classes, "qos:nil")
	}
	if session.QosExcellenceReport != nil {
		classes = append(classes, "excellence:set")
	} else {
		classes = append(classes, "excellence:nil")
	}
	classes = append(classes, nClass("reported", len(session.UnresponsiveProviders)), nClass("reqmeta", len(relayData.Metadata)),
		nClass("extensions", len(relayData.Extensions)), blockClass(relayData.RequestBlock))
	switch len(relayData.Salt) {
	case 0:
		classes = append(classes, "salt:empty")
	case 8:
		classes = append(classes, "salt:8-bytes")
	default:
		classes = append(classes, "salt:other-length")
	}

	// ---- (1)+(6): the signed session recovers to the consumer; checking leaves it untouched ----
	signedBytes := mustMarshal(rt, "signed session", session)
	signed := cloneSession(rt, session) // pristine copy; every tamper starts from a clone of it
	rec.consumer, rec.provider, rec.session = consumer.Addr.String(), provider.Addr.String(), signed.String()
	rec.reqBytes = mustMarshal(rt, "request", request)
	c.Clause("session-recovers-to-consumer")
	if ok, got := recoversTo(*session, consumer.Addr); !ok {
		rt.Fatalf("%s", ev.Violation("C25", "untampered consumer-signed session does not recover to the consumer: want %s got %s; session=%s",
			consumer.Addr, got, session.String()))
	}
	pk, err := sigs.RecoverPubKey(*session)
	c.Clause("session-recovers-public-key")
	if err != nil || !pk.Equals(consumer.PubKey) {
		rt.Fatalf("%s", ev.Violation("C25", "RecoverPubKey of the untampered session: err=%v key=%x want %x", err, pk.Bytes(), consumer.PubKey.Bytes()))
	}
	rec.sessionOK = true
	c.Clause("session-check-does-not-mutate")
	if after := mustMarshal(rt, "session after check", session); string(after) != string(signedBytes) {
		rt.Fatalf("%s", ev.Violation("C25", "ExtractSignerAddress/RecoverPubKey modified the session it checked: before=%x after=%x", signedBytes, after))
	}
	c.Clause("session-not-other-signer")
	if ok, _ := recoversTo(*session, third.Addr); ok {
		rt.Fatalf("%s", ev.Violation("C25", "session signed by %s also recovers to unrelated key %s", consumer.Addr, third.Addr))
	}

	// ---- (2): every signed field, tampered once --------------------------------------------
	tamper := func(field string, edit func(s *pairingtypes.RelaySession)) {
		m := cloneSession(rt, signed)
		edit(m)
		mb := mustMarshal(rt, "tampered session ("+field+")", m)
		if string(mb) == string(mustMarshal(rt, "signed", signed)) {
			rt.Fatalf("%s", ev.HarnessError("C25: tamper %q did not change the session", field))
		}
		c.Clause("session-tamper:" + field)
		if ok, _ := recoversTo(*m, consumer.Addr); ok {
			rt.Fatalf("%s", ev.Violation("C25", "session still recovers to the consumer %s after its signed field %q was changed.\nsigned:   %s\ntampered: %s",
				consumer.Addr, field, signed.String(), m.String()))
		}
	}
	tamper("cu_sum", func(s *pairingtypes.RelaySession) { s.CuSum = mutU64(rt, "t.cuSum", s.CuSum) })
	tamper("session_id", func(s *pairingtypes.RelaySession) { s.SessionId = mutU64(rt, "t.sessionId", s.SessionId) })
	tamper("relay_num", func(s *pairingtypes.RelaySession) { s.RelayNum = mutU64(rt, "t.relayNum", s.RelayNum) })
	tamper("epoch", func(s *pairingtypes.RelaySession) { s.Epoch = mutI64(rt, "t.epoch", s.Epoch) })
	tamper("provider", func(s *pairingtypes.RelaySession) { s.Provider = mutText(rt, "t.provider", s.Provider, addrPool) })
	tamper("spec_id", func(s *pairingtypes.RelaySession) { s.SpecId = mutText(rt, "t.spec", s.SpecId, poolSpec) })
	tamper("lava_chain_id", func(s *pairingtypes.RelaySession) {
		s.LavaChainId = mutText(rt, "t.lavaChainId", s.LavaChainId, poolLavaID)
	})
	tamper("content_hash", func(s *pairingtypes.RelaySession) { s.ContentHash = mutBytes(rt, "t.contentHash", s.ContentHash) })
	tamperQoS := func(field string, get func(s *pairingtypes.RelaySession) **pairingtypes.QualityOfServiceReport) {
		tamper(field, func(s *pairingtypes.RelaySession) {
			p := get(s)
			if *p == nil {
				*p = genQoS(rt, "t."+field+".new")
				c.Class("tamper-" + field + ":add")
				return
			}
			switch rapid.IntRange(0, 3).Draw(rt, "t."+field+".op") {
			case 0:
				*p = nil
				c.Class("tamper-" + field + ":drop")
			case 1:
				(*p).Latency = mutDec(rt, "t."+field+".latency", (*p).Latency)
				c.Class("tamper-" + field + ":latency")
			case 2:
				(*p).Availability = mutDec(rt, "t."+field+".availability", (*p).Availability)
				c.Class("tamper-" + field + ":availability")
			default:
				(*p).Sync = mutDec(rt, "t."+field+".sync", (*p).Sync)
				c.Class("tamper-" + field + ":sync")
			}
		})
	}
	tamperQoS("qos_report", func(s *pairingtypes.RelaySession) **pairingtypes.QualityOfServiceReport { return &s.QosReport })
	tamperQoS("qos_excellence_report", func(s *pairingtypes.RelaySession) **pairingtypes.QualityOfServiceReport {
		return &s.QosExcellenceReport
	})
	// the two reports exchanged (catches one report standing in for the other)
	{
		a, b := signed.QosReport, signed.QosExcellenceReport
		differ := (a == nil) != (b == nil) || (a != nil && b != nil && !(a.Latency.Equal(b.Latency) && a.Availability.Equal(b.Availability) && a.Sync.Equal(b.Sync)))
		if differ {
			tamper("qos_reports_swapped", func(s *pairingtypes.RelaySession) {
				s.QosReport, s.QosExcellenceReport = s.QosExcellenceReport, s.QosReport
			})
		}
	}
	tamper("unresponsive_providers", func(s *pairingtypes.RelaySession) {
		l := s.UnresponsiveProviders
		op := rapid.IntRange(0, 6).Draw(rt, "t.reported.op")
		if len(l) == 0 {
			op = 0
		}
		switch op {
		case 0:
			np := &pairingtypes.ReportedProvider{Address: genText(rt, "t.reported.new.addr", addrPool), Disconnections: genU64(rt, "t.reported.new.disc"),
				Errors: genU64(rt, "t.reported.new.errs"), TimestampS: genBlock(rt, "t.reported.new.ts")}
			i := rapid.IntRange(0, len(l)).Draw(rt, "t.reported.at")
			s.UnresponsiveProviders = append(append(append([]*pairingtypes.ReportedProvider{}, l[:i]...), np), l[i:]...)
			c.Class("tamper-reported:add")
		case 1:
			i := rapid.IntRange(0, len(l)-1).Draw(rt, "t.reported.del")
			s.UnresponsiveProviders = append(append([]*pairingtypes.ReportedProvider{}, l[:i]...), l[i+1:]...)
			c.Class("tamper-reported:remove")
		case 2:
			i := rapid.IntRange(0, len(l)-1).Draw(rt, "t.reported.i")
			l[i].Address = mutText(rt, "t.reported.addr", l[i].Address, addrPool)
			c.Class("tamper-reported:address")
		case 3:
			i := rapid.IntRange(0, len(l)-1).Draw(rt, "t.reported.i")
			l[i].Disconnections = mutU64(rt, "t.reported.disc", l[i].Disconnections)
			c.Class("tamper-reported:disconnections")
		case 4:
			i := rapid.IntRange(0, len(l)-1).Draw(rt, "t.reported.i")
			l[i].Errors = mutU64(rt, "t.reported.errs", l[i].Errors)
			c.Class("tamper-reported:errors")
		case 5:
			i := rapid.IntRange(0, len(l)-1).Draw(rt, "t.reported.i")
			l[i].TimestampS = mutI64(rt, "t.reported.ts", l[i].TimestampS)
			c.Class("tamper-reported:timestamp")
		default: // duplicate the last entry (a reorder of equal entries would be no change)
			cp := *l[len(l)-1]
			s.UnresponsiveProviders = append(l, &cp)
			c.Class("tamper-reported:duplicate")
		}
	})
	if len(signed.UnresponsiveProviders) >= 2 {
		l := signed.UnresponsiveProviders
		if l[0].String() != l[1].String() {
			tamper("unresponsive_providers_reordered", func(s *pairingtypes.RelaySession) {
				s.UnresponsiveProviders[0], s.UnresponsiveProviders[1] = s.UnresponsiveProviders[1], s.UnresponsiveProviders[0]
			})
		}
	}
	// a value moved from one signed field to its neighbour (catches fields run together)
	if signed.SessionId != signed.CuSum {
		tamper("session_id<->cu_sum", func(s *pairingtypes.RelaySession) { s.SessionId, s.CuSum = s.CuSum, s.SessionId })
	}
	if signed.RelayNum != signed.CuSum {
		tamper("relay_num<->cu_sum", func(s *pairingtypes.RelaySession) { s.RelayNum, s.CuSum = s.CuSum, s.RelayNum })
	}
	if signed.SpecId != signed.LavaChainId {
		tamper("spec_id<->lava_chain_id", func(s *pairingtypes.RelaySession) { s.SpecId, s.LavaChainId = s.LavaChainId, s.SpecId })
	}

	// ---- (3): the badge is not signed -------------------------------------------------------
	{
		m := cloneSession(rt, signed)
		if m.Badge == nil {
			m.Badge = &pairingtypes.Badge{CuAllocation: genU64(rt, "t.badge.cu"), Epoch: genU64(rt, "t.badge.epoch"), Address: third.Addr.String(), LavaChainId: lavaChainID}
		} else if rapid.Bool().Draw(rt, "t.badge.drop") {
			m.Badge = nil
		} else {
			m.Badge.CuAllocation = mutU64(rt, "t.badge.cu", m.Badge.CuAllocation)
			m.Badge.ProjectSig = mutBytes(rt, "t.badge.sig", m.Badge.ProjectSig)
		}
		c.Clause("session-unsigned-badge-change-keeps-recovery")
		if ok, got := recoversTo(*m, consumer.Addr); !ok {
			rt.Fatalf("%s", ev.Violation("C25", "changing only the (unsigned) badge broke the recovery: want %s got %s\nsigned:  %s\nchanged: %s",
				consumer.Addr, got, signed.String(), m.String()))
		}
	}

	// ---- the provider signs a reply on its own wire copy of the request ------------------------
	reply := &pairingtypes.RelayReply{
		Data:                  genBytes(rt, "reply.data", poolData),
		LatestBlock:           genBlock(rt, "reply.latest"),
		FinalizedBlocksHashes: genBytes(rt, "reply.finalized", []string{"", `{"123":"AAA"}`, `{"122":"AA","123":"AB"}`}),
		SigBlocks:             rapid.SliceOfN(rapid.Byte(), 0, 65).Draw(rt, "reply.sigblocks"),
		Metadata:              genMetadata(rt, "reply.meta", 3),
	}
	classes = append(classes, nClass("replymeta", len(reply.Metadata)))
	if len(reply.Data) == 0 {
		classes = append(classes, "replydata:empty")
	} else {
		classes = append(classes, "replydata:set")
	}
	provReq := cloneRequest(rt, request)
	if rapid.IntRange(0, 3).Draw(rt, "provider.salt.differs") == 0 {
		// "the salt can be different": the provider may hold another salt than the consumer
		provReq.RelayData.Salt = mutBytes(rt, "provider.salt", provReq.RelayData.Salt)
		classes = append(classes, "salt:provider-copy-differs")
	}
	signedReply, err := lavaprotocol.SignRelayResponse(consumer.Addr, *provReq, provider.SK, reply)
	if err != nil || signedReply == nil {
		rt.Fatalf("%s", ev.HarnessError("C25: SignRelayResponse failed: %v", err))
	}
	wireReply := cloneReply(rt, signedReply)

	// the consumer resolves "latest"-like requested blocks with the reply, as rpcconsumer does before verifying
	lavaprotocol.UpdateRequestedBlock(request.RelayData, wireReply)
	// "The request data that was signed" is what the provider's copy held when it signed. Both sides
	// resolve the requested block the same way today; should they ever disagree, the statement only
	// speaks about the data that was signed, so the provider's view is taken as the signed one.
	if pb := provReq.RelayData.RequestBlock; pb != request.RelayData.RequestBlock {
		if lavaprotocol.VerifyRelayReply(ctx, cloneReply(rt, wireReply), cloneRequest(rt, request), provider.Addr.String()) != nil {
			alt := cloneRequest(rt, request)
			alt.RelayData.RequestBlock = pb
			if lavaprotocol.VerifyRelayReply(ctx, cloneReply(rt, wireReply), alt, provider.Addr.String()) == nil {
				request.RelayData.RequestBlock = pb
				classes = append(classes, "signed-request-block:provider-view")
			}
		}
	}
	if len(request.RelayData.Salt) == 0 {
		classes = append(classes, "salt:absent-at-verification")
	}

	reqBytes := mustMarshal(rt, "request before verification", request)
	replyBytes := mustMarshal(rt, "reply before verification", wireReply)
	pristineReq := cloneRequest(rt, request)
	pristineReply := cloneReply(rt, wireReply)
	rec.reqBytes, rec.replyBytes = reqBytes, replyBytes
	rec.requestData, rec.reply = pristineReq.RelayData.String(), pristineReply.String()
	providerAddr := provider.Addr.String()

	// ---- (4)+(6) ---------------------------------------------------------------------------
	c.Clause("reply-verifies")
	if err := lavaprotocol.VerifyRelayReply(ctx, wireReply, request, providerAddr); err != nil {
		rt.Fatalf("%s", ev.Violation("C25", "untampered provider-signed reply does not verify against the provider %s: %v\nrequest data: %s\nreply: %s",
			providerAddr, err, pristineReq.RelayData.String(), pristineReply.String()))
	}
	rec.replyOK = true
	checkUntouched := func(what string) {
		c.Clause("verification-does-not-mutate:" + what)
		afterReq := mustMarshal(rt, "request after verification", request)
		afterReply := mustMarshal(rt, "reply after verification", wireReply)
		if string(afterReply) != string(replyBytes) {
			rt.Fatalf("%s", ev.Violation("C25", "%s modified the reply it checked:\nbefore: %s\nafter:  %s", what, pristineReply.String(), wireReply.String()))
		}
		if string(afterReq) == string(reqBytes) {
			return
		}
		if ev.Excluded(c25FindingSalt) {
			// known finding: only the cleared salt is tolerated, everything else must be identical
			probe := cloneRequest(rt, request)
			probe.RelayData.Salt = pristineReq.RelayData.Salt
			if string(mustMarshal(rt, "request with salt restored", probe)) == string(reqBytes) {
				c.Exclude(c25FindingSalt)
				request.RelayData.Salt = append([]byte(nil), pristineReq.RelayData.Salt...)
				return
			}
		}
		rt.Fatalf("%s", ev.Violation("C25", "%s modified the request it checked (x/pairing/types/relay_exchange.go DataToSign writes through the shared RelayData pointer):\nbefore: %s\nafter:  %s",
			what, pristineReq.String(), request.String()))
	}
	checkUntouched("VerifyRelayReply")
	c.Clause("exchange-recovers-to-provider")
	if addr, err := sigs.ExtractSignerAddress(pairingtypes.NewRelayExchange(*request, *wireReply)); err != nil || !addr.Equals(provider.Addr) {
		rt.Fatalf("%s", ev.Violation("C25", "ExtractSignerAddress(exchange) = %v, %v; want provider %s", addr, err, provider.Addr))
	}
	checkUntouched("ExtractSignerAddress(RelayExchange)")

	c.Clause("reply-does-not-verify-for-other-address")
	for _, other := range []string{third.Addr.String(), consumer.Addr.String()} {
		if err := lavaprotocol.VerifyRelayReply(ctx, cloneReply(rt, pristineReply), cloneRequest(rt, pristineReq), other); err == nil {
			rt.Fatalf("%s", ev.Violation("C25", "reply signed by provider %s verifies against a different address %s", providerAddr, other))
		}
	}

	// ---- (5): tampering with what the provider signed -----------------------------------------
	verifyPair := func(rq *pairingtypes.RelayRequest, rp *pairingtypes.RelayReply) error {
		return lavaprotocol.VerifyRelayReply(ctx, rp, rq, providerAddr)
	}
	tamperX := func(field string, edit func(rq *pairingtypes.RelayRequest, rp *pairingtypes.RelayReply)) {
		rq, rp := cloneRequest(rt, pristineReq), cloneReply(rt, pristineReply)
		edit(rq, rp)
		if string(mustMarshal(rt, "tampered request", rq)) == string(reqBytes) && string(mustMarshal(rt, "tampered reply", rp)) == string(replyBytes) {
			rt.Fatalf("%s", ev.HarnessError("C25: exchange tamper %q changed nothing", field))
		}
		c.Clause("reply-tamper:" + field)
		if err := verifyPair(rq, rp); err == nil {
			rt.Fatalf("%s", ev.Violation("C25", "reply still verifies against %s after signed item %q was changed.\nsigned   request data: %s\nsigned   reply: %s\ntampered request data: %s\ntampered reply: %s",
				providerAddr, field, pristineReq.RelayData.String(), pristineReply.String(), rq.RelayData.String(), rp.String()))
		}
	}
	keep := func(field string, edit func(rq *pairingtypes.RelayRequest, rp *pairingtypes.RelayReply)) {
		rq, rp := cloneRequest(rt, pristineReq), cloneReply(rt, pristineReply)
		edit(rq, rp)
		c.Clause("reply-unsigned-change-keeps-verifying:" + field)
		if err := verifyPair(rq, rp); err != nil {
			rt.Fatalf("%s", ev.Violation("C25", "reply stopped verifying although only %q (not signed by the provider's reply signature) was changed: %v\nrequest data: %s\nreply: %s",
				field, err, rq.RelayData.String(), rp.String()))
		}
	}
	tamperX("reply.data", func(_ *pairingtypes.RelayRequest, rp *pairingtypes.RelayReply) {
		rp.Data = mutBytes(rt, "x.reply.data", rp.Data)
	})
	tamperX("reply.metadata", func(_ *pairingtypes.RelayRequest, rp *pairingtypes.RelayReply) {
		var kind string
		rp.Metadata, kind = mutMetadata(rt, "x.reply.meta", rp.Metadata)
		c.Class("tamper-replymeta:" + kind)
	})
	tamperX("request.connection_type", func(rq *pairingtypes.RelayRequest, _ *pairingtypes.RelayReply) {
		rq.RelayData.ConnectionType = mutText(rt, "x.conn", rq.RelayData.ConnectionType, poolConn)
	})
	tamperX("request.api_url", func(rq *pairingtypes.RelayRequest, _ *pairingtypes.RelayReply) {
		rq.RelayData.ApiUrl = mutText(rt, "x.url", rq.RelayData.ApiUrl, poolURL)
	})
	tamperX("request.data", func(rq *pairingtypes.RelayRequest, _ *pairingtypes.RelayReply) {
		rq.RelayData.Data = mutBytes(rt, "x.data", rq.RelayData.Data)
	})
	tamperX("request.request_block", func(rq *pairingtypes.RelayRequest, _ *pairingtypes.RelayReply) {
		rq.RelayData.RequestBlock = mutI64(rt, "x.reqblock", rq.RelayData.RequestBlock)
	})
	tamperX("request.api_interface", func(rq *pairingtypes.RelayRequest, _ *pairingtypes.RelayReply) {
		rq.RelayData.ApiInterface = mutText(rt, "x.iface", rq.RelayData.ApiInterface, poolIface)
	})
	tamperX("request.metadata", func(rq *pairingtypes.RelayRequest, _ *pairingtypes.RelayReply) {
		var kind string
		rq.RelayData.Metadata, kind = mutMetadata(rt, "x.req.meta", rq.RelayData.Metadata)
		c.Class("tamper-reqmeta:" + kind)
	})
	tamperX("request.addon", func(rq *pairingtypes.RelayRequest, _ *pairingtypes.RelayReply) {
		rq.RelayData.Addon = mutText(rt, "x.addon", rq.RelayData.Addon, poolAddon)
	})
	tamperX("request.extensions", func(rq *pairingtypes.RelayRequest, _ *pairingtypes.RelayReply) {
		var kind string
		rq.RelayData.Extensions, kind = mutExtensions(rt, "x.ext", rq.RelayData.Extensions)
		c.Class("tamper-extensions:" + kind)
	})
	tamperX("request.seen_block", func(rq *pairingtypes.RelayRequest, _ *pairingtypes.RelayReply) {
		rq.RelayData.SeenBlock = mutI64(rt, "x.seenblock", rq.RelayData.SeenBlock)
	})
	tamperX("request.request_id", func(rq *pairingtypes.RelayRequest, _ *pairingtypes.RelayReply) {
		rq.RelayData.RequestId = mutText(rt, "x.reqid", rq.RelayData.RequestId, poolRequest)
	})
	tamperX("request.task_id", func(rq *pairingtypes.RelayRequest, _ *pairingtypes.RelayReply) {
		if cur, ok := rq.RelayData.XTaskId.(*pairingtypes.RelayPrivateData_TaskId); ok && cur != nil {
			if rapid.Bool().Draw(rt, "x.taskid.drop") {
				rq.RelayData.XTaskId = nil
			} else {
				rq.RelayData.XTaskId = &pairingtypes.RelayPrivateData_TaskId{TaskId: mutNonEmptyText(rt, "x.taskid", cur.TaskId, poolRequest)}
			}
		} else {
			rq.RelayData.XTaskId = &pairingtypes.RelayPrivateData_TaskId{TaskId: genNonEmptyText(rt, "x.taskid.new", poolRequest)}
		}
	})
	tamperX("request.tx_id", func(rq *pairingtypes.RelayRequest, _ *pairingtypes.RelayReply) {
		if cur, ok := rq.RelayData.XTxId.(*pairingtypes.RelayPrivateData_TxId); ok && cur != nil {
			if rapid.Bool().Draw(rt, "x.txid.drop") {
				rq.RelayData.XTxId = nil
			} else {
				rq.RelayData.XTxId = &pairingtypes.RelayPrivateData_TxId{TxId: mutNonEmptyText(rt, "x.txid", cur.TxId, poolRequest)}
			}
		} else {
			rq.RelayData.XTxId = &pairingtypes.RelayPrivateData_TxId{TxId: genNonEmptyText(rt, "x.txid.new", poolRequest)}
		}
	})
	// values exchanged between neighbouring signed request fields
	if pristineReq.RelayData.RequestBlock != pristineReq.RelayData.SeenBlock {
		tamperX("request.request_block<->seen_block", func(rq *pairingtypes.RelayRequest, _ *pairingtypes.RelayReply) {
			rq.RelayData.RequestBlock, rq.RelayData.SeenBlock = rq.RelayData.SeenBlock, rq.RelayData.RequestBlock
		})
	}
	if pristineReq.RelayData.Addon != pristineReq.RelayData.ApiInterface {
		tamperX("request.addon<->api_interface", func(rq *pairingtypes.RelayRequest, _ *pairingtypes.RelayReply) {
			rq.RelayData.Addon, rq.RelayData.ApiInterface = rq.RelayData.ApiInterface, rq.RelayData.Addon
		})
	}
	// a different provider signature
	tamperX("reply.sig-by-other-key", func(rq *pairingtypes.RelayRequest, rp *pairingtypes.RelayReply) {
		sig, err := sigs.Sign(third.SK, pairingtypes.NewRelayExchange(*cloneRequest(rt, rq), *rp))
		if err != nil {
			rt.Fatalf("%s", ev.HarnessError("C25: signing with the third key failed: %v", err))
		}
		rp.Sig = sig
	})

	keep("request.salt", func(rq *pairingtypes.RelayRequest, _ *pairingtypes.RelayReply) {
		rq.RelayData.Salt = mutBytes(rt, "k.salt", rq.RelayData.Salt)
	})
	keep("reply.latest_block", func(_ *pairingtypes.RelayRequest, rp *pairingtypes.RelayReply) {
		rp.LatestBlock = mutI64(rt, "k.latest", rp.LatestBlock)
	})
	keep("reply.finalized_blocks_hashes", func(_ *pairingtypes.RelayRequest, rp *pairingtypes.RelayReply) {
		rp.FinalizedBlocksHashes = mutBytes(rt, "k.finalized", rp.FinalizedBlocksHashes)
	})
	keep("reply.sig_blocks", func(_ *pairingtypes.RelayRequest, rp *pairingtypes.RelayReply) {
		rp.SigBlocks = mutBytes(rt, "k.sigblocks", rp.SigBlocks)
	})
	keep("request.relay_session", func(rq *pairingtypes.RelayRequest, _ *pairingtypes.RelayReply) {
		rq.RelaySession.CuSum = mutU64(rt, "k.session.cu", rq.RelaySession.CuSum)
		rq.RelaySession.Sig = nil
	})

}

// ---- known-finding witness (used only if the coordinator records the defect instead of fixing it)

// TestC25Known_VerifyClearsRequestSalt: verifying a provider's reply must leave the consumer's
// request as it was. Deterministic; fails with a violation while DataToSign clears the salt
// through the shared RelayData pointer.
func TestC25Known_VerifyClearsRequestSalt(t *testing.T) {
	consumer := accountFromSeed([]byte("witness-consumer"))
	provider := accountFromSeed([]byte("witness-provider"))
	salt := sigs.EncodeUint64(0x1122334455667788)
	relayData := &pairingtypes.RelayPrivateData{
		ConnectionType: "GET", ApiUrl: "stub_url", Data: []byte("stub_data"), RequestBlock: 55, ApiInterface: "tendermintrpc",
		Salt: append([]byte(nil), salt...), SeenBlock: 50, Addon: "test",
	}
	session := &pairingtypes.RelaySession{SpecId: "LAV1", ContentHash: sigs.HashMsg(relayData.GetContentHashData()), SessionId: 123, CuSum: 30,
		Provider: provider.Addr.String(), RelayNum: 1, Epoch: 100, LavaChainId: "lava"}
	sig, err := sigs.Sign(consumer.SK, *session)
	if err != nil {
		t.Fatalf("%s", ev.HarnessError("witness: sign session: %v", err))
	}
	session.Sig = sig
	request := &pairingtypes.RelayRequest{RelaySession: session, RelayData: relayData}
	// the provider works on its own copy, as it does after receiving the request over gRPC
	provCopy := &pairingtypes.RelayRequest{}
	b, _ := request.Marshal()
	if err := provCopy.Unmarshal(b); err != nil {
		t.Fatalf("%s", ev.HarnessError("witness: copy request: %v", err))
	}
	reply, err := lavaprotocol.SignRelayResponse(consumer.Addr, *provCopy, provider.SK, &pairingtypes.RelayReply{Data: []byte("DUMMYREPLY"), LatestBlock: 123})
	if err != nil {
		t.Fatalf("%s", ev.HarnessError("witness: sign reply: %v", err))
	}
	before, _ := request.Marshal()
	if err := lavaprotocol.VerifyRelayReply(context.Background(), reply, request, provider.Addr.String()); err != nil {
		t.Fatalf("%s", ev.Violation("C25", "witness reply does not verify: %v", err))
	}
	after, _ := request.Marshal()
	if string(before) != string(after) {
		t.Fatalf("%s", ev.Violation("C25", "VerifyRelayReply modified the request it checked: salt before=%x after=%x (RelayExchange.DataToSign, x/pairing/types/relay_exchange.go:36)",
			salt, request.RelayData.Salt))
	}
}
