package sigprops

// Native fuzz target for C26 (thorough tier only): two relay requests decoded from fuzzer-chosen
// fields; same oracle as TestC26 (different covered fields => different content hash).

import (
	"strings"
	"testing"

	pairingtypes "github.com/lavanet/lava/v5/x/pairing/types"

	"verifharness/internal/ev"
)

const (
	fuzzEntrySep = "\x1e" // between metadata entries / extensions
	fuzzKVSep    = "\x1f" // between a metadata name and its value
)

func fuzzRequest(meta, ext, addon, iface, conn, url string, data []byte, reqBlock, seenBlock int64, salt []byte) *pairingtypes.RelayPrivateData {
	r := &pairingtypes.RelayPrivateData{Addon: addon, ApiInterface: iface, ConnectionType: conn, ApiUrl: url, Data: data,
		RequestBlock: reqBlock, SeenBlock: seenBlock, Salt: salt}
	if meta != "" {
		for _, e := range strings.Split(meta, fuzzEntrySep) {
			name, value, _ := strings.Cut(e, fuzzKVSep)
			if name == "" {
				continue // header names are never empty
			}
			r.Metadata = append(r.Metadata, pairingtypes.Metadata{Name: name, Value: value})
		}
	}
	if ext != "" {
		for _, e := range strings.Split(ext, fuzzEntrySep) {
			if e != "" {
				r.Extensions = append(r.Extensions, e)
			}
		}
	}
	return r
}

func FuzzC26ContentHash(f *testing.F) {
	s8 := []byte{1, 2, 3, 4, 5, 6, 7, 8}
	// identical, single-field, dropped-field, exchanged-field and boundary-shift seeds
	f.Add("x-h\x1f55", "archive", "", "rest", "GET", "/blocks/5", []byte("d"), int64(10), int64(9), s8,
		"x-h\x1f55", "archive", "", "rest", "GET", "/blocks/5", []byte("d"), int64(10), int64(9), s8)
	f.Add("x-h\x1f55", "archive", "", "rest", "GET", "/blocks/5", []byte("d"), int64(10), int64(9), s8,
		"x-h\x1f55", "archive", "", "rest", "GET", "/blocks/5", []byte("d"), int64(10), int64(10), s8)
	f.Add("x-h\x1f55", "archive", "", "rest", "GET", "/blocks/5", []byte("d"), int64(10), int64(9), s8,
		"x-h\x1f55", "archive", "", "rest", "GET", "/blocks/5", []byte("d"), int64(9), int64(10), s8)
	f.Add("a\x1f1\x1eb\x1f2", "archive\x1edebug", "trace", "jsonrpc", "POST", "", []byte(`{"id":1}`), int64(-2), int64(100), s8,
		"b\x1f2\x1ea\x1f1", "debug\x1earchive", "trace", "jsonrpc", "POST", "", []byte(`{"id":1}`), int64(-2), int64(100), s8)
	f.Add("", "", "debug", "rest", "GET", "/a", []byte("b"), int64(1), int64(1), s8,
		"", "", "debugr", "est", "GET", "/a", []byte("b"), int64(1), int64(1), s8)
	f.Add("", "archive", "", "rest", "GET", "/a", []byte("b"), int64(1), int64(1), s8,
		"", "", "archive", "rest", "GET", "/a", []byte("b"), int64(1), int64(1), s8)
	f.Fuzz(func(t *testing.T,
		aMeta, aExt, aAddon, aIface, aConn, aURL string, aData []byte, aReq, aSeen int64, aSalt []byte,
		bMeta, bExt, bAddon, bIface, bConn, bURL string, bData []byte, bReq, bSeen int64, bSalt []byte,
	) {
		c := ev.For("C26")
		a := fuzzRequest(aMeta, aExt, aAddon, aIface, aConn, aURL, aData, aReq, aSeen, aSalt)
		b := fuzzRequest(bMeta, bExt, bAddon, bIface, bConn, bURL, bData, bReq, bSeen, bSalt)
		ka, kb := canonKey(a), canonKey(b)
		ha, hb := contentHash(a), contentHash(b)
		if canonKey(a) != ka || contentHash(cloneData(a)) != ha {
			t.Fatalf("%s", ev.Violation("C26", "content hash of the same request is not stable or hashing modified it: %s", describe(a)))
		}
		if ka == kb {
			if ha != hb {
				t.Fatalf("%s", ev.Violation("C26", "equal requests hash differently: %s", describe(a)))
			}
			return
		}
		c.Clause("fuzz:different-fields-different-hash")
		if ha == hb {
			if ev.Excluded(c26FindingShift) && flatLayout(a) == flatLayout(b) {
				c.Exclude(c26FindingShift)
				return
			}
			t.Fatalf("%s", ev.Violation("C26", "two relay requests that differ in covered fields have the same content hash.\nA: %s\nB: %s", describe(a), describe(b)))
		}
	})
}
