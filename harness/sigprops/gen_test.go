package sigprops

// Generators and value mutators shared by the C25 (signatures) and C26 (content hash) checks.
// Every random choice is a rapid draw.

import (
	"bytes"
	"fmt"
	"math"
	"unicode/utf8"

	sdk "github.com/cosmos/cosmos-sdk/types"
	"github.com/lavanet/lava/v5/utils/sigs"
	pairingtypes "github.com/lavanet/lava/v5/x/pairing/types"
	spectypes "github.com/lavanet/lava/v5/x/spec/types"
	"pgregory.net/rapid"
)

var (
	poolSpec     = []string{"LAV1", "ETH1", "COSMOSHUB", "NEAR", "STRK", "LAV", "ETH", "BLAV1"}
	poolLavaID   = []string{"lava", "lava-testnet-2", "lava-mainnet-1", "lava-staging-4", "lav"}
	poolConn     = []string{"", "GET", "POST", "PUT", "DELETE", "GE", "T"}
	poolIface    = []string{"jsonrpc", "rest", "tendermintrpc", "grpc", "", "json", "rpc"}
	poolAddon    = []string{"", "archive", "debug", "trace", "eth", "arch", "ive"}
	poolExt      = []string{"archive", "debug", "trace", "ws", "a", "ar", "chive", "de", "bug"}
	poolURL      = []string{"", "/", "stub_url", "/cosmos/base/tendermint/v1beta1/blocks/latest", "lavanet.lava.spec.Query/ShowAllChains", "/blocks/5", "/blocks/55"}
	poolMetaName = []string{"x-cosmos-block-height", "x-cosmos-block-height:", "lava-extension", "content-type", "a", "ab", "b", "x"}
	poolMetaVal  = []string{"", "55", "5", "archive", "application/json", "a", "b", "ba"}
	poolData     = []string{"", "stub_data", `{"jsonrpc":"2.0","id":1,"method":"eth_blockNumber","params":[]}`, `{"jsonrpc":"2.0","id":1,"method":"eth_getBalance","params":["0xabc","latest"]}`, "a", "ab"}
	// strings that try to confuse a textual serialisation (quotes, escapes, look-alike fields)
	poolNasty   = []string{`"`, `\`, "\n", `a"b`, `x" relay_num:7 spec_id:"y`, `" `, ` `, "\t", `\"`, "é", "日本", `\001`, "<", ">", `name:"a" value:"b"`, "\x00", "a\x00b"}
	poolBlocks  = []int64{0, 1, 2, 10, 55, 100, 123, 1 << 32, (1 << 32) + 1, math.MaxInt64, spectypes.LATEST_BLOCK, spectypes.EARLIEST_BLOCK, spectypes.PENDING_BLOCK, spectypes.SAFE_BLOCK, spectypes.FINALIZED_BLOCK, spectypes.NOT_APPLICABLE}
	poolRequest = []string{"", "req-1", "req-2", "0f8fad5b-d9cb-469f-a165-70867728950e"}
)

// genText draws a valid UTF-8 string: mostly realistic pool values, sometimes arbitrary text,
// sometimes text built to confuse quoting.
func genText(rt *rapid.T, label string, pool []string) string {
	switch rapid.IntRange(0, 9).Draw(rt, label+".kind") {
	case 0, 1:
		return rapid.StringN(0, 12, 24).Draw(rt, label+".any")
	case 2:
		return rapid.SampledFrom(poolNasty).Draw(rt, label+".nasty")
	case 3:
		return rapid.StringOfN(rapid.RuneFrom([]rune{'a', 'b'}), 0, 4, -1).Draw(rt, label+".ab")
	default:
		return rapid.SampledFrom(pool).Draw(rt, label+".pool")
	}
}

func genNonEmptyText(rt *rapid.T, label string, pool []string) string {
	s := genText(rt, label, pool)
	if s == "" {
		return "n"
	}
	return s
}

func genBytes(rt *rapid.T, label string, pool []string) []byte {
	switch rapid.IntRange(0, 5).Draw(rt, label+".kind") {
	case 0:
		return rapid.SliceOfN(rapid.Byte(), 0, 24).Draw(rt, label+".any")
	case 1:
		return []byte(rapid.StringOfN(rapid.RuneFrom([]rune{'a', 'b'}), 0, 4, -1).Draw(rt, label+".ab"))
	default:
		return []byte(rapid.SampledFrom(pool).Draw(rt, label+".pool"))
	}
}

func genBlock(rt *rapid.T, label string) int64 {
	switch rapid.IntRange(0, 3).Draw(rt, label+".kind") {
	case 0:
		return rapid.Int64().Draw(rt, label+".any")
	case 1:
		return rapid.Int64Range(0, 1<<20).Draw(rt, label+".small")
	default:
		return rapid.SampledFrom(poolBlocks).Draw(rt, label+".pool")
	}
}

func genU64(rt *rapid.T, label string) uint64 {
	switch rapid.IntRange(0, 3).Draw(rt, label+".kind") {
	case 0:
		return rapid.Uint64().Draw(rt, label+".any")
	case 1:
		return rapid.SampledFrom([]uint64{0, 1, math.MaxUint64, 1 << 32, 1 << 63, math.MaxInt64}).Draw(rt, label+".edge")
	default:
		return rapid.Uint64Range(0, 100000).Draw(rt, label+".small")
	}
}

func genMetadata(rt *rapid.T, label string, maxN int) []pairingtypes.Metadata {
	n := rapid.IntRange(0, maxN).Draw(rt, label+".n")
	var out []pairingtypes.Metadata
	for i := 0; i < n; i++ {
		out = append(out, pairingtypes.Metadata{
			Name:  genNonEmptyText(rt, fmt.Sprintf("%s[%d].name", label, i), poolMetaName),
			Value: genText(rt, fmt.Sprintf("%s[%d].value", label, i), poolMetaVal),
		})
	}
	return out
}

func genExtensions(rt *rapid.T, label string, maxN int) []string {
	n := rapid.IntRange(0, maxN).Draw(rt, label+".n")
	var out []string
	for i := 0; i < n; i++ {
		out = append(out, genNonEmptyText(rt, fmt.Sprintf("%s[%d]", label, i), poolExt))
	}
	return out
}

func genSalt(rt *rapid.T, label string) []byte {
	switch rapid.IntRange(0, 7).Draw(rt, label+".kind") {
	case 0:
		return nil
	case 1:
		return rapid.SliceOfN(rapid.Byte(), 0, 12).Draw(rt, label+".any")
	default: // what SetSalt produces: 8 bytes little endian
		return sigs.EncodeUint64(rapid.Uint64().Draw(rt, label+".guid"))
	}
}

// genRelayData draws the request part of a relay (all fields of RelayPrivateData).
func genRelayData(rt *rapid.T, label string) *pairingtypes.RelayPrivateData {
	rd := &pairingtypes.RelayPrivateData{
		ConnectionType: genText(rt, label+".conn", poolConn),
		ApiUrl:         genText(rt, label+".url", poolURL),
		Data:           genBytes(rt, label+".data", poolData),
		RequestBlock:   genBlock(rt, label+".reqblock"),
		ApiInterface:   genText(rt, label+".iface", poolIface),
		Salt:           genSalt(rt, label+".salt"),
		Metadata:       genMetadata(rt, label+".meta", 3),
		Addon:          genText(rt, label+".addon", poolAddon),
		Extensions:     genExtensions(rt, label+".ext", 3),
		SeenBlock:      genBlock(rt, label+".seenblock"),
	}
	if rapid.IntRange(0, 2).Draw(rt, label+".reqid?") == 0 {
		rd.RequestId = genText(rt, label+".reqid", poolRequest)
	}
	if rapid.IntRange(0, 3).Draw(rt, label+".taskid?") == 0 {
		rd.XTaskId = &pairingtypes.RelayPrivateData_TaskId{TaskId: genNonEmptyText(rt, label+".taskid", poolRequest)}
	}
	if rapid.IntRange(0, 3).Draw(rt, label+".txid?") == 0 {
		rd.XTxId = &pairingtypes.RelayPrivateData_TxId{TxId: genNonEmptyText(rt, label+".txid", poolRequest)}
	}
	return rd
}

func genDec(rt *rapid.T, label string) sdk.Dec {
	switch rapid.IntRange(0, 4).Draw(rt, label+".kind") {
	case 0:
		return sdk.ZeroDec()
	case 1:
		return sdk.OneDec()
	case 2:
		return sdk.NewDecWithPrec(rapid.Int64Range(0, 1_000_000_000_000_000_000).Draw(rt, label+".frac"), 18) // [0,1]
	case 3:
		return sdk.NewDecWithPrec(rapid.Int64Range(0, math.MaxInt64).Draw(rt, label+".big"), int64(rapid.IntRange(0, 18).Draw(rt, label+".prec")))
	default:
		return sdk.NewDecWithPrec(rapid.Int64Range(1, 1000).Draw(rt, label+".milli"), 3)
	}
}

func genQoS(rt *rapid.T, label string) *pairingtypes.QualityOfServiceReport {
	return &pairingtypes.QualityOfServiceReport{
		Latency:      genDec(rt, label+".latency"),
		Availability: genDec(rt, label+".availability"),
		Sync:         genDec(rt, label+".sync"),
	}
}

func genReportedProviders(rt *rapid.T, label string, addrPool []string) []*pairingtypes.ReportedProvider {
	n := rapid.IntRange(0, 3).Draw(rt, label+".n")
	var out []*pairingtypes.ReportedProvider
	for i := 0; i < n; i++ {
		l := fmt.Sprintf("%s[%d]", label, i)
		out = append(out, &pairingtypes.ReportedProvider{
			Address:        genText(rt, l+".addr", addrPool),
			Disconnections: genU64(rt, l+".disc"),
			Errors:         genU64(rt, l+".errs"),
			TimestampS:     genBlock(rt, l+".ts"),
		})
	}
	return out
}

// genAccount derives a secp256k1 key pair from a rapid-drawn seed (no process randomness).
func genAccount(rt *rapid.T, label string) sigs.Account {
	seed := rapid.SliceOfN(rapid.Byte(), 15, 15).Draw(rt, label+".seed")
	return accountFromSeed(seed)
}

func accountFromSeed(seed []byte) sigs.Account {
	s := make([]byte, 15)
	copy(s, seed)
	return sigs.GenerateDeterministicFloatingKey(bytes.NewReader(s))
}

// ---------------------------------------------------------------------------------------------
// value mutators: each returns a value that is guaranteed to differ from its input

func mutU64(rt *rapid.T, label string, v uint64) uint64 {
	var n uint64
	switch rapid.IntRange(0, 5).Draw(rt, label+".op") {
	case 0:
		n = v + 1
	case 1:
		n = v - 1
	case 2:
		n = v ^ (1 << uint(rapid.IntRange(0, 63).Draw(rt, label+".bit")))
	case 3:
		n = 0
	case 4:
		n = math.MaxUint64
	default:
		n = rapid.Uint64().Draw(rt, label+".other")
	}
	if n == v {
		n = v ^ 1
	}
	return n
}

func mutI64(rt *rapid.T, label string, v int64) int64 {
	var n int64
	switch rapid.IntRange(0, 5).Draw(rt, label+".op") {
	case 0:
		n = v + 1
	case 1:
		n = v - 1
	case 2:
		n = v ^ (1 << uint(rapid.IntRange(0, 63).Draw(rt, label+".bit")))
	case 3:
		n = -v
	case 4:
		n = rapid.SampledFrom(poolBlocks).Draw(rt, label+".pool")
	default:
		n = rapid.Int64().Draw(rt, label+".other")
	}
	if n == v {
		n = v ^ 1
	}
	return n
}

func mutText(rt *rapid.T, label string, s string, pool []string) string {
	var n string
	rs := []rune(s)
	switch rapid.IntRange(0, 11).Draw(rt, label+".op") {
	case 10: // change the case of one ASCII letter
		var idx []int
		for i, r := range rs {
			if (r >= 'a' && r <= 'z') || (r >= 'A' && r <= 'Z') {
				idx = append(idx, i)
			}
		}
		if len(idx) > 0 {
			i := idx[rapid.IntRange(0, len(idx)-1).Draw(rt, label+".case")]
			c := append([]rune{}, rs...)
			c[i] ^= 0x20
			n = string(c)
		}
	case 11: // only white space / NUL added at an end
		ws := string(rapid.SampledFrom([]rune{' ', '\n', '\t', 0}).Draw(rt, label+".ws"))
		if rapid.Bool().Draw(rt, label+".wsfront") {
			n = ws + s
		} else {
			n = s + ws
		}
	case 0:
		n = s + string(rapid.SampledFrom([]rune{'x', ' ', '"', '\\', '1', 'é', '\n'}).Draw(rt, label+".app"))
	case 1:
		if len(rs) > 0 {
			n = string(rs[:len(rs)-1])
		}
	case 2:
		if len(rs) > 0 {
			n = string(rs[1:])
		}
	case 3:
		if len(rs) > 0 {
			i := rapid.IntRange(0, len(rs)-1).Draw(rt, label+".pos")
			c := append([]rune{}, rs...)
			if c[i] == 'z' {
				c[i] = 'y'
			} else {
				c[i] = 'z'
			}
			n = string(c)
		}
	case 4:
		n = ""
	case 5:
		n = string(rapid.SampledFrom([]rune{'x', ' ', '"', '0'}).Draw(rt, label+".pre")) + s
	case 6:
		if len(rs) > 1 { // swap two neighbouring runes
			i := rapid.IntRange(0, len(rs)-2).Draw(rt, label+".swap")
			c := append([]rune{}, rs...)
			c[i], c[i+1] = c[i+1], c[i]
			n = string(c)
		}
	case 7:
		n = s + s
	default:
		n = rapid.SampledFrom(pool).Draw(rt, label+".pool")
	}
	if n == s || !utf8.ValidString(n) {
		n = s + "x"
	}
	return n
}

func mutNonEmptyText(rt *rapid.T, label string, s string, pool []string) string {
	n := mutText(rt, label, s, pool)
	if n == "" {
		n = s + "x"
	}
	return n
}

func mutBytes(rt *rapid.T, label string, b []byte) []byte {
	n := append([]byte{}, b...)
	switch rapid.IntRange(0, 8).Draw(rt, label+".op") {
	case 7: // only white space / NUL added at an end
		ws := rapid.SampledFrom([]byte{' ', '\n', '\t', 0}).Draw(rt, label+".ws")
		if rapid.Bool().Draw(rt, label+".wsfront") {
			n = append([]byte{ws}, n...)
		} else {
			n = append(n, ws)
		}
	case 8: // change the case of one ASCII letter
		var idx []int
		for i, ch := range n {
			if (ch >= 'a' && ch <= 'z') || (ch >= 'A' && ch <= 'Z') {
				idx = append(idx, i)
			}
		}
		if len(idx) > 0 {
			n[idx[rapid.IntRange(0, len(idx)-1).Draw(rt, label+".case")]] ^= 0x20
		}
	case 0:
		if len(n) > 0 {
			i := rapid.IntRange(0, len(n)-1).Draw(rt, label+".pos")
			n[i] ^= 1 << uint(rapid.IntRange(0, 7).Draw(rt, label+".bit"))
		}
	case 1:
		n = append(n, rapid.Byte().Draw(rt, label+".app"))
	case 2:
		if len(n) > 0 {
			n = n[:len(n)-1]
		}
	case 3:
		n = append([]byte{rapid.Byte().Draw(rt, label+".pre")}, n...)
	case 4:
		if len(n) > 0 {
			n = n[1:]
		}
	case 5:
		n = nil
	default:
		n = rapid.SliceOfN(rapid.Byte(), 0, 24).Draw(rt, label+".other")
	}
	if bytes.Equal(n, b) {
		n = append(append([]byte{}, b...), 0)
	}
	return n
}

func mutDec(rt *rapid.T, label string, d sdk.Dec) sdk.Dec {
	var n sdk.Dec
	switch rapid.IntRange(0, 3).Draw(rt, label+".op") {
	case 0:
		n = d.Add(sdk.SmallestDec())
	case 1:
		n = d.Sub(sdk.SmallestDec())
	case 2:
		n = d.MulInt64(10)
	default:
		n = genDec(rt, label+".other")
	}
	if n.Equal(d) {
		n = d.Add(sdk.OneDec())
	}
	return n
}

func cloneMeta(m []pairingtypes.Metadata) []pairingtypes.Metadata {
	return append([]pairingtypes.Metadata(nil), m...)
}

func metaEqual(a, b []pairingtypes.Metadata) bool {
	if len(a) != len(b) {
		return false
	}
	for i := range a {
		if a[i] != b[i] {
			return false
		}
	}
	return true
}

// mutMetadata changes a metadata list (names stay non-empty) and reports which kind of change.
func mutMetadata(rt *rapid.T, label string, m []pairingtypes.Metadata) ([]pairingtypes.Metadata, string) {
	n := cloneMeta(m)
	kind := "add"
	op := rapid.IntRange(0, 5).Draw(rt, label+".op")
	if len(n) == 0 {
		op = 0
	}
	switch op {
	case 0:
		e := pairingtypes.Metadata{Name: genNonEmptyText(rt, label+".newname", poolMetaName), Value: genText(rt, label+".newvalue", poolMetaVal)}
		i := rapid.IntRange(0, len(n)).Draw(rt, label+".at")
		n = append(n[:i], append([]pairingtypes.Metadata{e}, n[i:]...)...)
	case 1:
		i := rapid.IntRange(0, len(n)-1).Draw(rt, label+".del")
		n = append(n[:i], n[i+1:]...)
		kind = "remove"
	case 2:
		i := rapid.IntRange(0, len(n)-1).Draw(rt, label+".i")
		n[i].Name = mutNonEmptyText(rt, label+".name", n[i].Name, poolMetaName)
		kind = "name"
	case 3:
		i := rapid.IntRange(0, len(n)-1).Draw(rt, label+".i")
		n[i].Value = mutText(rt, label+".value", n[i].Value, poolMetaVal)
		kind = "value"
	case 4: // duplicate an entry
		i := rapid.IntRange(0, len(n)-1).Draw(rt, label+".dup")
		n = append(n, n[i])
		kind = "duplicate"
	default: // reorder
		kind = "reorder"
		if len(n) >= 2 {
			i := rapid.IntRange(0, len(n)-2).Draw(rt, label+".swap")
			n[i], n[i+1] = n[i+1], n[i]
		}
		if metaEqual(n, m) { // nothing to reorder: swap name and value of one entry instead, or add
			n = append(n, pairingtypes.Metadata{Name: "added", Value: "1"})
			kind = "add"
		}
	}
	return n, kind
}

func strsEqual(a, b []string) bool {
	if len(a) != len(b) {
		return false
	}
	for i := range a {
		if a[i] != b[i] {
			return false
		}
	}
	return true
}

func mutExtensions(rt *rapid.T, label string, e []string) ([]string, string) {
	n := append([]string(nil), e...)
	kind := "add"
	op := rapid.IntRange(0, 4).Draw(rt, label+".op")
	if len(n) == 0 {
		op = 0
	}
	switch op {
	case 0:
		i := rapid.IntRange(0, len(n)).Draw(rt, label+".at")
		n = append(n[:i], append([]string{genNonEmptyText(rt, label+".new", poolExt)}, n[i:]...)...)
	case 1:
		i := rapid.IntRange(0, len(n)-1).Draw(rt, label+".del")
		n = append(n[:i], n[i+1:]...)
		kind = "remove"
	case 2:
		i := rapid.IntRange(0, len(n)-1).Draw(rt, label+".i")
		n[i] = mutNonEmptyText(rt, label+".elem", n[i], poolExt)
		kind = "element"
	case 3:
		i := rapid.IntRange(0, len(n)-1).Draw(rt, label+".dup")
		n = append(n, n[i])
		kind = "duplicate"
	default:
		kind = "reorder"
		if len(n) >= 2 {
			i := rapid.IntRange(0, len(n)-2).Draw(rt, label+".swap")
			n[i], n[i+1] = n[i+1], n[i]
		}
		if strsEqual(n, e) {
			n = append(n, "added")
			kind = "add"
		}
	}
	return n, kind
}
