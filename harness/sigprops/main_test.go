package sigprops

import (
	"os"
	"testing"

	"github.com/lavanet/lava/v5/utils"

	"verifharness/internal/ev"
)

func TestMain(m *testing.M) {
	// Failed verifications are expected by the thousands (every tampered message); the code under
	// test logs each of them at error level. Logging does not influence any result.
	utils.SetGlobalLoggingLevel("fatal")
	code := m.Run()
	ev.Flush()
	os.Exit(code)
}
