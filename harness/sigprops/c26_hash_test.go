package sigprops

// C26 — content hashes identify relay requests unambiguously.
//
// Oracle, from the property statement only: two relay requests whose covered fields (data, URL,
// connection type, API interface, add-on, extensions, metadata, requested block, seen block, salt)
// are not all equal must have different sigs.HashMsg(GetContentHashData()); the same request hashes
// to the same value every time; a session built for request A (lavaprotocol.ConstructRelaySession)
// must not pass the provider's comparison (bytes.Equal(session.ContentHash, hash(B))) for B != A.
//
// Equality of requests is decided on an independent, length-prefixed canonical encoding of the
// covered fields (canonKey), never on the implementation's own byte layout.

import (
	"bytes"
	"encoding/binary"
	"encoding/hex"
	"fmt"
	"sort"
	"strings"
	"testing"

	"github.com/lavanet/lava/v5/protocol/lavaprotocol"
	"github.com/lavanet/lava/v5/protocol/lavasession"
	"github.com/lavanet/lava/v5/protocol/qos"
	"github.com/lavanet/lava/v5/utils/sigs"
	pairingtypes "github.com/lavanet/lava/v5/x/pairing/types"
	"pgregory.net/rapid"

	"verifharness/internal/ev"
)

// Known finding (wire format): the hash input is the plain concatenation of the fields, so two
// requests that lay out the SAME byte sequence with different field boundaries collide.
const c26FindingShift = "c26-adjacent-field-byte-shift"

// canonKey is an injective encoding of the covered fields (nil and empty are the same value).
func canonKey(r *pairingtypes.RelayPrivateData) string {
	var b bytes.Buffer
	put := func(p []byte) {
		var l [4]byte
		binary.BigEndian.PutUint32(l[:], uint32(len(p)))
		b.Write(l[:])
		b.Write(p)
	}
	putN := func(n int) {
		var l [4]byte
		binary.BigEndian.PutUint32(l[:], uint32(n))
		b.WriteByte('#')
		b.Write(l[:])
	}
	putN(len(r.Metadata))
	for _, m := range r.Metadata {
		put([]byte(m.Name))
		put([]byte(m.Value))
	}
	putN(len(r.Extensions))
	for _, e := range r.Extensions {
		put([]byte(e))
	}
	put([]byte(r.Addon))
	put([]byte(r.ApiInterface))
	put([]byte(r.ConnectionType))
	put([]byte(r.ApiUrl))
	put(r.Data)
	var blk [16]byte
	binary.BigEndian.PutUint64(blk[:8], uint64(r.RequestBlock))
	binary.BigEndian.PutUint64(blk[8:], uint64(r.SeenBlock))
	b.Write(blk[:])
	put(r.Salt)
	return b.String()
}

// flatLayout is the documented wire layout of the hash input (fields run together, blocks as 8
// little-endian bytes). It is used ONLY to recognise the class of the known finding: a pair is in
// that class iff its fields differ but this layout is byte-identical, i.e. the two requests differ
// only in where the boundaries between adjacent hashed fields fall.
func flatLayout(r *pairingtypes.RelayPrivateData) string {
	var b bytes.Buffer
	for _, m := range r.Metadata {
		b.WriteString(m.Name)
		b.WriteString(m.Value)
	}
	for _, e := range r.Extensions {
		b.WriteString(e)
	}
	b.WriteString(r.Addon)
	b.WriteString(r.ApiInterface)
	b.WriteString(r.ConnectionType)
	b.WriteString(r.ApiUrl)
	b.Write(r.Data)
	var blk [16]byte
	binary.LittleEndian.PutUint64(blk[:8], uint64(r.RequestBlock))
	binary.LittleEndian.PutUint64(blk[8:], uint64(r.SeenBlock))
	b.Write(blk[:])
	b.Write(r.Salt)
	return b.String()
}

func contentHash(r *pairingtypes.RelayPrivateData) string {
	return string(sigs.HashMsg(r.GetContentHashData()))
}

func cloneData(r *pairingtypes.RelayPrivateData) *pairingtypes.RelayPrivateData {
	c := *r
	c.Data = append([]byte(nil), r.Data...)
	c.Salt = append([]byte(nil), r.Salt...)
	c.Metadata = cloneMeta(r.Metadata)
	c.Extensions = append([]string(nil), r.Extensions...)
	return &c
}

func describe(r *pairingtypes.RelayPrivateData) string {
	return fmt.Sprintf("{metadata:%q extensions:%q addon:%q api_interface:%q connection_type:%q api_url:%q data:%q request_block:%d seen_block:%d salt:%x}",
		r.Metadata, r.Extensions, r.Addon, r.ApiInterface, r.ConnectionType, r.ApiUrl, r.Data, r.RequestBlock, r.SeenBlock, r.Salt)
}

// ---- the variable-length hashed fields as an ordered list of slots (for boundary shifts) ------

type slot struct {
	name     string
	get      func(r *pairingtypes.RelayPrivateData) []byte
	set      func(r *pairingtypes.RelayPrivateData, v []byte)
	nonEmpty bool // list elements and header names stay non-empty
}

func slotsOf(r *pairingtypes.RelayPrivateData) []slot {
	var s []slot
	for i := range r.Metadata {
		i := i
		s = append(s, slot{"metadata.name", func(r *pairingtypes.RelayPrivateData) []byte { return []byte(r.Metadata[i].Name) },
			func(r *pairingtypes.RelayPrivateData, v []byte) { r.Metadata[i].Name = string(v) }, true})
		s = append(s, slot{"metadata.value", func(r *pairingtypes.RelayPrivateData) []byte { return []byte(r.Metadata[i].Value) },
			func(r *pairingtypes.RelayPrivateData, v []byte) { r.Metadata[i].Value = string(v) }, false})
	}
	for i := range r.Extensions {
		i := i
		s = append(s, slot{"extension", func(r *pairingtypes.RelayPrivateData) []byte { return []byte(r.Extensions[i]) },
			func(r *pairingtypes.RelayPrivateData, v []byte) { r.Extensions[i] = string(v) }, true})
	}
	s = append(s,
		slot{"addon", func(r *pairingtypes.RelayPrivateData) []byte { return []byte(r.Addon) }, func(r *pairingtypes.RelayPrivateData, v []byte) { r.Addon = string(v) }, false},
		slot{"api_interface", func(r *pairingtypes.RelayPrivateData) []byte { return []byte(r.ApiInterface) }, func(r *pairingtypes.RelayPrivateData, v []byte) { r.ApiInterface = string(v) }, false},
		slot{"connection_type", func(r *pairingtypes.RelayPrivateData) []byte { return []byte(r.ConnectionType) }, func(r *pairingtypes.RelayPrivateData, v []byte) { r.ConnectionType = string(v) }, false},
		slot{"api_url", func(r *pairingtypes.RelayPrivateData) []byte { return []byte(r.ApiUrl) }, func(r *pairingtypes.RelayPrivateData, v []byte) { r.ApiUrl = string(v) }, false},
		slot{"data", func(r *pairingtypes.RelayPrivateData) []byte { return r.Data }, func(r *pairingtypes.RelayPrivateData, v []byte) { r.Data = append([]byte(nil), v...) }, false},
	)
	return s
}

// shiftPair moves k bytes across the boundary between two adjacent variable-length slots
// (skipping over empty slots in between is the same layout). Returns nil if impossible.
func shiftPair(rt *rapid.T, label string, r *pairingtypes.RelayPrivateData) (*pairingtypes.RelayPrivateData, string) {
	n := cloneData(r)
	sl := slotsOf(n)
	i := rapid.IntRange(0, len(sl)-2).Draw(rt, label+".boundary")
	j := i + 1
	if rapid.Bool().Draw(rt, label+".far") { // non-neighbouring slots with only empty ones in between
		for j+1 < len(sl) && len(sl[j].get(n)) == 0 && !sl[j].nonEmpty && rapid.Bool().Draw(rt, fmt.Sprintf("%s.skip%d", label, j)) {
			j++
		}
	}
	left, right := sl[i].get(n), sl[j].get(n)
	for m := i + 1; m < j; m++ {
		if len(sl[m].get(n)) != 0 {
			return nil, ""
		}
	}
	toRight := rapid.Bool().Draw(rt, label+".toRight")
	if toRight {
		min := 0
		if sl[i].nonEmpty {
			min = 1
		}
		if len(left)-min < 1 {
			return nil, ""
		}
		k := rapid.IntRange(1, len(left)-min).Draw(rt, label+".k")
		sl[i].set(n, left[:len(left)-k])
		sl[j].set(n, append(append([]byte{}, left[len(left)-k:]...), right...))
	} else {
		min := 0
		if sl[j].nonEmpty {
			min = 1
		}
		if len(right)-min < 1 {
			return nil, ""
		}
		k := rapid.IntRange(1, len(right)-min).Draw(rt, label+".k")
		sl[i].set(n, append(append([]byte{}, left...), right[:k]...))
		sl[j].set(n, right[k:])
	}
	return n, sl[i].name + "|" + sl[j].name
}

// shiftTail shifts the fixed-width tail: data | request block | seen block | salt. Moving the last
// byte of data into the blocks pushes one byte of each block onward and one byte into the salt.
func shiftTail(rt *rapid.T, label string, r *pairingtypes.RelayPrivateData) (*pairingtypes.RelayPrivateData, string) {
	n := cloneData(r)
	var blk [16]byte
	binary.LittleEndian.PutUint64(blk[:8], uint64(r.RequestBlock))
	binary.LittleEndian.PutUint64(blk[8:], uint64(r.SeenBlock))
	stream := append(append(append([]byte{}, r.Data...), blk[:]...), r.Salt...)
	// choose a new data length; the 16 bytes after it are the blocks, the rest is the salt
	maxData := len(stream) - 16
	newLen := rapid.IntRange(0, maxData).Draw(rt, label+".dataLen")
	if newLen == len(r.Data) {
		return nil, ""
	}
	n.Data = append([]byte(nil), stream[:newLen]...)
	n.RequestBlock = int64(binary.LittleEndian.Uint64(stream[newLen : newLen+8]))
	n.SeenBlock = int64(binary.LittleEndian.Uint64(stream[newLen+8 : newLen+16]))
	n.Salt = append([]byte(nil), stream[newLen+16:]...)
	return n, "data|blocks|salt"
}

// singleFieldChange returns a copy of r that differs in exactly one covered field.
func singleFieldChange(rt *rapid.T, label string, r *pairingtypes.RelayPrivateData, field int) (*pairingtypes.RelayPrivateData, string) {
	n := cloneData(r)
	switch field {
	case 0:
		n.Data = mutBytes(rt, label+".data", n.Data)
		return n, "data"
	case 1:
		n.ApiUrl = mutText(rt, label+".url", n.ApiUrl, poolURL)
		return n, "api_url"
	case 2:
		n.ConnectionType = mutText(rt, label+".conn", n.ConnectionType, poolConn)
		return n, "connection_type"
	case 3:
		n.ApiInterface = mutText(rt, label+".iface", n.ApiInterface, poolIface)
		return n, "api_interface"
	case 4:
		n.Addon = mutText(rt, label+".addon", n.Addon, poolAddon)
		return n, "addon"
	case 5:
		var kind string
		n.Extensions, kind = mutExtensions(rt, label+".ext", n.Extensions)
		return n, "extensions:" + kind
	case 6:
		var kind string
		n.Metadata, kind = mutMetadata(rt, label+".meta", n.Metadata)
		return n, "metadata:" + kind
	case 7:
		n.RequestBlock = mutI64(rt, label+".reqblock", n.RequestBlock)
		return n, "request_block"
	case 8:
		n.SeenBlock = mutI64(rt, label+".seenblock", n.SeenBlock)
		return n, "seen_block"
	default:
		n.Salt = mutBytes(rt, label+".salt", n.Salt)
		return n, "salt"
	}
}

const nSingleFields = 10

// genHashData draws the covered fields only, from small alphabets and pools so that near-collisions
// (same bytes, different split) are frequent among random pairs.
func genHashData(rt *rapid.T, label string) *pairingtypes.RelayPrivateData {
	r := genRelayData(rt, label)
	r.RequestId, r.XTaskId, r.XTxId = "", nil, nil
	return r
}

type c26Variant struct {
	r     *pairingtypes.RelayPrivateData
	how   string
	shift bool
}

func TestC26(t *testing.T) {
	c := ev.For("C26")
	c.SetRule("one case = a random base request (covered fields from pools, small alphabets, arbitrary bytes) and a family of ~25 variants: " +
		"one single-field change for EACH covered field (data, url, connection type, api interface, addon, extensions add/remove/element/reorder/duplicate, " +
		"metadata name/value/add/remove/reorder/duplicate, requested block, seen block, salt), values exchanged or moved between fields, multi-field edits, " +
		"independent random requests, and byte shifts across every adjacent-field boundary (class of the known finding). All pairs of the family are compared: " +
		"different covered fields => different content hash. Non-trivial = the family contains at least 12 pairwise-different requests. " +
		"Distinct = hash of the canonical encodings of the family.")
	c.Assume("nil and empty bytes/strings/lists are the same value (proto3 wire semantics)",
		"metadata names and extension names are non-empty; metadata values and all scalar string fields may be empty",
		"SHA-256 collisions are not expected; a reported collision is a collision of the hash INPUT",
		"when the known finding "+c26FindingShift+" is listed, pairs whose covered fields differ only in where the boundaries between adjacent hashed fields fall (identical concatenated layout) are excluded and counted; everything else stays asserted")
	rapid.Check(t, propC26)
}

func propC26(rt *rapid.T) {
	c := ev.For("C26")
	excludeShift := ev.Excluded(c26FindingShift)
	base := genHashData(rt, "base")
	// 1 case in 4: a large payload (16-48 KiB), as real eth_call / batch bodies are
	if rapid.IntRange(0, 3).Draw(rt, "largePayload") == 0 {
		unit := append([]byte(nil), base.Data...)
		if len(unit) == 0 {
			unit = []byte{0x61}
		}
		want := rapid.SampledFrom([]int{16 << 10, 16<<10 + 1, 32 << 10, 48 << 10}).Draw(rt, "payloadSize")
		for len(base.Data) < want {
			base.Data = append(base.Data, unit...)
		}
	}
	family := []c26Variant{{base, "base", false}}
	classes := []string{}
	// recorded when the property function returns OR stops at a violation (so that a violating run
	// still shows what it explored)
	defer func() {
		distinct := map[string]struct{}{}
		hows := []string{}
		for _, v := range family {
			distinct[canonKey(v.r)] = struct{}{}
			hows = append(hows, v.how)
		}
		keys := make([]string, 0, len(distinct))
		for k := range distinct {
			keys = append(keys, k)
		}
		sort.Strings(keys)
		classes = append(classes, nClass("metadata", len(base.Metadata)), nClass("extensions", len(base.Extensions)))
		if len(base.Data) == 0 {
			classes = append(classes, "data:empty")
		}
		if len(base.Salt) == 8 {
			classes = append(classes, "salt:8-bytes")
		} else {
			classes = append(classes, "salt:other")
		}
		nontrivial := len(keys) >= 12
		c.Case(nontrivial, strings.Join(keys, "\x00|\x00"), classes...)
		if nontrivial {
			c.Sample(map[string]any{"base": describe(base), "variants": hows, "pairwise_different_requests": len(keys)})
		}
	}()
	add := func(r *pairingtypes.RelayPrivateData, how string, shift bool) {
		if r == nil {
			return
		}
		family = append(family, c26Variant{r, how, shift})
	}

	// (a) every covered field changed on its own
	for f := 0; f < nSingleFields; f++ {
		v, how := singleFieldChange(rt, fmt.Sprintf("single[%d]", f), base, f)
		add(v, "single:"+how, false)
		classes = append(classes, "single:"+how)
	}
	// (a') a second-order change: two different fields changed
	{
		f1 := rapid.IntRange(0, nSingleFields-1).Draw(rt, "double.f1")
		f2 := rapid.IntRange(0, nSingleFields-1).Draw(rt, "double.f2")
		v, h1 := singleFieldChange(rt, "double.1", base, f1)
		v, h2 := singleFieldChange(rt, "double.2", v, f2)
		add(v, "double:"+h1+"+"+h2, false)
		classes = append(classes, "double-change")
	}
	// (d) values exchanged between two fields / blocks exchanged / one value standing in for another
	{
		v := cloneData(base)
		v.RequestBlock, v.SeenBlock = v.SeenBlock, v.RequestBlock
		add(v, "swap:request_block<->seen_block", false)
		v = cloneData(base)
		v.Addon, v.ApiInterface = v.ApiInterface, v.Addon
		add(v, "swap:addon<->api_interface", false)
		v = cloneData(base)
		v.ConnectionType, v.ApiUrl = v.ApiUrl, v.ConnectionType
		add(v, "swap:connection_type<->api_url", false)
		v = cloneData(base)
		v.Data, v.Salt = v.Salt, v.Data
		add(v, "swap:data<->salt", false)
		v = cloneData(base)
		v.SeenBlock = v.RequestBlock
		add(v, "alias:seen_block=request_block", false)
		v = cloneData(base)
		v.RequestBlock = v.SeenBlock
		add(v, "alias:request_block=seen_block", false)
		if len(base.Metadata) > 0 {
			v = cloneData(base)
			v.Metadata[0].Name, v.Metadata[0].Value = v.Metadata[0].Value, v.Metadata[0].Name
			if v.Metadata[0].Name != "" {
				add(v, "swap:metadata.name<->value", false)
			}
			v = cloneData(base)
			v.Metadata = nil
			add(v, "drop:metadata", false)
		}
		if len(base.Extensions) > 0 {
			v = cloneData(base)
			v.Extensions = nil
			add(v, "drop:extensions", false)
		}
		classes = append(classes, "swap/alias/drop")
	}
	// (c) independent random requests
	nRand := rapid.IntRange(1, 3).Draw(rt, "random.n")
	for i := 0; i < nRand; i++ {
		add(genHashData(rt, fmt.Sprintf("random[%d]", i)), "random", false)
	}
	classes = append(classes, "random-pair")
	// (b) bytes moved across the boundary of adjacent hashed fields (class of the known finding)
	nShift := rapid.IntRange(2, 5).Draw(rt, "shift.n")
	for i := 0; i < nShift; i++ {
		from := family[rapid.IntRange(0, len(family)-1).Draw(rt, fmt.Sprintf("shift[%d].from", i))].r
		var v *pairingtypes.RelayPrivateData
		var how string
		if rapid.IntRange(0, 4).Draw(rt, fmt.Sprintf("shift[%d].tail", i)) == 0 {
			v, how = shiftTail(rt, fmt.Sprintf("shift[%d]", i), from)
		} else {
			v, how = shiftPair(rt, fmt.Sprintf("shift[%d]", i), from)
		}
		if v == nil {
			continue
		}
		if excludeShift {
			// excluded by construction: the shifted twin is not put into the family
			if flatLayout(v) != flatLayout(from) {
				rt.Fatalf("%s", ev.HarnessError("C26: shift %s changed the concatenated layout", how))
			}
			c.Exclude(c26FindingShift)
			classes = append(classes, "shift-excluded:"+how)
			continue
		}
		add(v, "shift:"+how, true)
		classes = append(classes, "shift:"+how)
	}

	// ---- oracle over all pairs of the family ---------------------------------------------------
	type seen struct {
		key  string
		flat string
		idx  int
	}
	byHash := map[string][]seen{}
	distinctKeys := map[string]struct{}{}
	for i, v := range family {
		key, h := canonKey(v.r), contentHash(v.r)
		// the same request hashes to the same value again, also from a deep copy, and hashing does not modify it
		c.Clause("same-request-same-hash")
		if h2 := contentHash(cloneData(v.r)); h2 != h || contentHash(v.r) != h {
			rt.Fatalf("%s", ev.Violation("C26", "content hash of the same request is not stable: %s", describe(v.r)))
		}
		if canonKey(v.r) != key {
			rt.Fatalf("%s", ev.Violation("C26", "GetContentHashData modified the request: %s", describe(v.r)))
		}
		distinctKeys[key] = struct{}{}
		for _, o := range byHash[h] {
			if o.key == key {
				continue // same covered fields
			}
			other := family[o.idx]
			if excludeShift && o.flat == flatLayout(v.r) {
				c.Exclude(c26FindingShift)
				continue
			}
			rt.Fatalf("%s", ev.Violation("C26", "two relay requests that differ in covered fields have the same content hash %x (a session signed for one authorizes the other).\nA (%s): %s\nB (%s): %s\nsame concatenated layout (adjacent-field shift class): %v",
				[]byte(h), other.how, describe(other.r), v.how, describe(v.r), o.flat == flatLayout(v.r)))
		}
		byHash[h] = append(byHash[h], seen{key, flatLayout(v.r), i})
	}
	nd := len(distinctKeys)
	c.ClauseN("different-fields-different-hash(pairs)", nd*(nd-1)/2)

	// ---- a signed session cannot be reused for a different request -------------------------------
	{
		sid := rapid.Int64Range(0, 1<<40).Draw(rt, "session.id")
		scs := &lavasession.SingleConsumerSession{CuSum: 10, LatestRelayCu: 10, QoSManager: qos.NewQoSManager(), SessionId: sid, RelayNum: 1}
		session := lavaprotocol.ConstructRelaySession("lava", cloneData(base), "LAV1", "lava@provider", scs, 100, nil)
		if session == nil {
			rt.Fatalf("%s", ev.HarnessError("C26: ConstructRelaySession returned nil"))
		}
		c.Clause("session-authorizes-its-own-request")
		if !bytes.Equal(session.ContentHash, []byte(contentHash(base))) {
			rt.Fatalf("%s", ev.Violation("C26", "the content hash put into the session (%x) is not the content hash of its request (%x): %s",
				session.ContentHash, contentHash(base), describe(base)))
		}
		// every variant's own session, built one after the other by the same process (the consumer
		// builds sessions for many requests, also for the same salt / GUID on a retry): each must carry
		// the content hash of the request it was built for, whatever was built before
		for _, v := range family[1:] {
			vs := lavaprotocol.ConstructRelaySession("lava", cloneData(v.r), "LAV1", "lava@provider", scs, 100, nil)
			c.Clause("session-authorizes-its-own-request")
			if vs == nil || !bytes.Equal(vs.ContentHash, sigs.HashMsg(v.r.GetContentHashData())) {
				rt.Fatalf("%s", ev.Violation("C26", "the content hash put into the session of request B (%s), built after the session of request A, is not the content hash of B.\nA: %s\nB: %s",
					v.how, describe(base), describe(v.r)))
			}
		}
		baseKey, baseFlat := canonKey(base), flatLayout(base)
		for _, v := range family[1:] {
			if canonKey(v.r) == baseKey {
				continue
			}
			if excludeShift && flatLayout(v.r) == baseFlat {
				continue
			}
			c.Clause("session-not-reusable-for-different-request")
			// the provider's acceptance test (rpcprovider_server.go verifyRelayRequestMetaData)
			if bytes.Equal(session.ContentHash, sigs.HashMsg(v.r.GetContentHashData())) {
				rt.Fatalf("%s", ev.Violation("C26", "a session built for request A passes the provider's content-hash comparison for a different request B (%s).\nA: %s\nB: %s",
					v.how, describe(base), describe(v.r)))
			}
		}
	}

}

// ---- known-finding witness -----------------------------------------------------------------

// TestC26Known_AdjacentFieldByteShift: one deterministic pair per boundary of adjacent hashed
// fields; the two requests of a pair differ in covered fields, so their content hashes must differ.
func TestC26Known_AdjacentFieldByteShift(t *testing.T) {
	md := func(kv ...string) []pairingtypes.Metadata {
		var out []pairingtypes.Metadata
		for i := 0; i+1 < len(kv); i += 2 {
			out = append(out, pairingtypes.Metadata{Name: kv[i], Value: kv[i+1]})
		}
		return out
	}
	salt := sigs.EncodeUint64(7)
	type pair struct {
		boundary string
		a, b     pairingtypes.RelayPrivateData
	}
	pairs := []pair{
		{"metadata.name|metadata.value", pairingtypes.RelayPrivateData{Metadata: md("x-height", "55"), Salt: salt}, pairingtypes.RelayPrivateData{Metadata: md("x-height5", "5"), Salt: salt}},
		{"metadata.value|next metadata.name", pairingtypes.RelayPrivateData{Metadata: md("a", "1x", "b", "2"), Salt: salt}, pairingtypes.RelayPrivateData{Metadata: md("a", "1", "xb", "2"), Salt: salt}},
		{"metadata|extensions", pairingtypes.RelayPrivateData{Metadata: md("a", "1"), Extensions: []string{"archive"}, Salt: salt}, pairingtypes.RelayPrivateData{Metadata: md("a", "1ar"), Extensions: []string{"chive"}, Salt: salt}},
		{"extension|extension", pairingtypes.RelayPrivateData{Extensions: []string{"archive", "debug"}, Salt: salt}, pairingtypes.RelayPrivateData{Extensions: []string{"archived", "ebug"}, Salt: salt}},
		{"extensions|addon", pairingtypes.RelayPrivateData{Extensions: []string{"archive"}, Addon: "debug", Salt: salt}, pairingtypes.RelayPrivateData{Extensions: []string{"archived"}, Addon: "ebug", Salt: salt}},
		{"addon|api_interface", pairingtypes.RelayPrivateData{Addon: "debug", ApiInterface: "rest", Salt: salt}, pairingtypes.RelayPrivateData{Addon: "debugr", ApiInterface: "est", Salt: salt}},
		{"api_interface|connection_type", pairingtypes.RelayPrivateData{ApiInterface: "rest", ConnectionType: "GET", Salt: salt}, pairingtypes.RelayPrivateData{ApiInterface: "restG", ConnectionType: "ET", Salt: salt}},
		{"connection_type|api_url", pairingtypes.RelayPrivateData{ConnectionType: "GET", ApiUrl: "/blocks/5", Salt: salt}, pairingtypes.RelayPrivateData{ConnectionType: "GET/", ApiUrl: "blocks/5", Salt: salt}},
		{"api_url|data", pairingtypes.RelayPrivateData{ApiUrl: "/blocks/5", Data: []byte("5"), Salt: salt}, pairingtypes.RelayPrivateData{ApiUrl: "/blocks/55", Data: nil, Salt: salt}},
		{"data|request_block|seen_block|salt", pairingtypes.RelayPrivateData{Data: []byte("ab"), RequestBlock: 0x0807060504030201, SeenBlock: 0x1817161514131211, Salt: []byte{0x21}},
			pairingtypes.RelayPrivateData{Data: []byte("a"), RequestBlock: 0x0706050403020162, SeenBlock: 0x1716151413121108, Salt: []byte{0x18, 0x21}}},
	}
	var collided []string
	for _, p := range pairs {
		if canonKey(&p.a) == canonKey(&p.b) {
			t.Fatalf("%s", ev.HarnessError("C26 witness: pair %s does not differ", p.boundary))
		}
		if contentHash(&p.a) == contentHash(&p.b) {
			collided = append(collided, fmt.Sprintf("%s: A=%s B=%s hash=%s", p.boundary, describe(&p.a), describe(&p.b), hex.EncodeToString([]byte(contentHash(&p.a)))))
		}
	}
	if len(collided) > 0 {
		t.Fatalf("%s", ev.Violation("C26", "%d of %d adjacent-field byte-shift pairs collide (GetContentHashData concatenates without length prefixes, x/pairing/types/relay_exchange.go:50-70):\n%s",
			len(collided), len(pairs), strings.Join(collided, "\n")))
	}
}
