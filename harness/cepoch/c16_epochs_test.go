package cepoch

import (
	"fmt"
	"sort"
	"strings"
	"testing"

	"cosmossdk.io/math"
	paramproposal "github.com/cosmos/cosmos-sdk/x/params/types/proposal"
	"github.com/lavanet/lava/v5/testutil/common"
	"github.com/lavanet/lava/v5/utils/sigs"
	epochstoragetypes "github.com/lavanet/lava/v5/x/epochstorage/types"
	pairingtypes "github.com/lavanet/lava/v5/x/pairing/types"
	"github.com/lavanet/lava/v5/x/spec"
	"pgregory.net/rapid"

	"verifharness/internal/chain"
	"verifharness/internal/ev"
)

// C16: epoch boundaries are consistent under parameter changes.
//
// Observation (not computed by the code under test): E := the heights at which epoch-start
// processing ran, seen from the block hook as "EpochDetails.StartBlock == height" right after
// BeginBlock (height 0 is the genesis epoch). The model also tracks the parameter values that
// were in the param store when each epoch start was processed ("in force at that epoch").
// Everything else is asked from the keeper and compared with E / the in-force table.

const c16Finding = "c16-earliest-uses-window-of-oldest-epoch"

type epParams struct{ EB, ETS uint64 }

func (p epParams) bts() uint64 { return p.EB * p.ETS }

type c16Change struct {
	Block  uint64
	What   string
	OnGrid bool
}

type c16Model struct {
	fatalf func(format string, args ...any) // rt.Fatalf / t.Fatalf
	c      *chain.Chain
	col    *ev.Collector
	strict bool // false: the class of the known finding is excluded (weaker drop clause)

	E        []uint64            // observed epoch starts, ascending
	inForce  map[uint64]epParams // params in the store when epoch start e was processed
	cur      epParams            // params currently in the store (model, from accepted proposals)
	earliest uint64              // last seen earliest epoch start
	changes  []c16Change
	lastKey  string // digest of (fixation lists, earliest) at the last full sweep
	lastTo   uint64 // last block covered by a sweep

	maxSwitchInWindow int
	dropsChecked      int
	windowShrunk      bool
	windowGrown       bool
	fullSweeps        int
}

func (m *c16Model) fail(format string, args ...any) {
	var ch []string
	for _, x := range m.changes {
		ch = append(ch, fmt.Sprintf("%s@%d(onGrid=%v)", x.What, x.Block, x.OnGrid))
	}
	var es []string
	for _, e := range m.E {
		p := m.inForce[e]
		es = append(es, fmt.Sprintf("%d[EB=%d,ETS=%d]", e, p.EB, p.ETS))
	}
	if len(es) > 60 {
		es = append([]string{"..."}, es[len(es)-60:]...)
	}
	m.fatalf("%s", ev.Violation("C16", "%s\n height=%d earliest=%d\n parameter changes: %s\n observed epoch starts (params in force): %s\n history (tail):\n  %s",
		fmt.Sprintf(format, args...), m.c.Height(), m.earliest, strings.Join(ch, " "), strings.Join(es, " "), histString(m.c, 30)))
}

// epochOf: max{e in E, e <= b}
func (m *c16Model) epochOf(b uint64) uint64 {
	i := sort.Search(len(m.E), func(i int) bool { return m.E[i] > b })
	return m.E[i-1] // E[0] == 0 <= b
}

// nextObserved: min{e in E, e > b}
func (m *c16Model) nextObserved(b uint64) (uint64, bool) {
	i := sort.Search(len(m.E), func(i int) bool { return m.E[i] > b })
	if i == len(m.E) {
		return 0, false
	}
	return m.E[i], true
}

func (m *c16Model) prevObserved(e uint64) (uint64, bool) {
	i := sort.Search(len(m.E), func(i int) bool { return m.E[i] >= e })
	if i == 0 {
		return 0, false
	}
	return m.E[i-1], true
}

func (m *c16Model) isObserved(b uint64) bool { return m.epochOf(b) == b }

// sweep checks every block in [from, to] against the observation set.
func (m *c16Model) sweep(from, to uint64, where string) {
	ks := m.c.TS.Keepers.Epochstorage
	ctx := m.c.TS.Ctx
	last := m.E[len(m.E)-1]
	n := int(to-from) + 1
	m.col.ClauseN("block-maps-to-latest-observed-epoch-start", n)
	m.col.ClauseN("next-epoch-strictly-later", n)
	m.col.ClauseN("reported-epoch-start-iff-processing-ran", n)
	m.col.ClauseN("next-epoch-is-next-observed-start", n)
	m.col.ClauseN("fixated-params-are-those-in-force", n)
	for b := from; b <= to; b++ {
		exp := m.epochOf(b)
		got, inEpoch, err := ks.GetEpochStartForBlock(ctx, b)
		if err != nil {
			m.fail("%s: GetEpochStartForBlock(%d) failed for a block in memory: %v", where, b, err)
		}
		if got != exp || inEpoch != b-exp {
			m.fail("%s: GetEpochStartForBlock(%d) = (%d, blockInEpoch %d), but the latest block <= %d at which epoch-start processing ran is %d", where, b, got, inEpoch, b, exp)
		}
		next, err := ks.GetNextEpoch(ctx, b)
		if err != nil {
			m.fail("%s: GetNextEpoch(%d) failed for a block in memory: %v", where, b, err)
		}
		if next <= b {
			m.fail("%s: GetNextEpoch(%d) = %d is not later than the block", where, b, next)
		}
		if obs, ok := m.nextObserved(b); ok {
			if next != obs {
				m.fail("%s: GetNextEpoch(%d) = %d, but the next block at which epoch-start processing ran is %d", where, b, next, obs)
			}
		} else if want := last + m.inForce[last].EB; next != want {
			m.fail("%s: GetNextEpoch(%d) = %d, but the running epoch started at %d with EpochBlocks=%d in force (expected %d)", where, b, next, last, m.inForce[last].EB, want)
		}
		is := ks.IsEpochStart(ctx.WithBlockHeight(int64(b)))
		if is != (exp == b) {
			m.fail("%s: IsEpochStart at height %d = %v, but epoch-start processing ran there = %v", where, b, is, exp == b)
		}
		p := m.inForce[exp]
		eb, err1 := ks.EpochBlocks(ctx, b)
		ets, err2 := ks.EpochsToSave(ctx, b)
		if err1 != nil || err2 != nil {
			m.fail("%s: fixated parameters of block %d (in memory) cannot be read: EpochBlocks: %v, EpochsToSave: %v", where, b, err1, err2)
		}
		bts, err3 := ks.BlocksToSave(ctx, b)
		if err3 != nil {
			m.fail("%s: BlocksToSave of block %d (in memory) cannot be read: %v", where, b, err3)
		}
		if eb != p.EB || ets != p.ETS || bts != p.bts() {
			m.fail("%s: fixated parameters of block %d are EpochBlocks=%d EpochsToSave=%d BlocksToSave=%d, but its epoch %d was started with EpochBlocks=%d EpochsToSave=%d in force", where, b, eb, ets, bts, exp, p.EB, p.ETS)
		}
		if exp == b {
			if prev, ok := m.prevObserved(b); ok && prev >= m.earliest {
				m.col.Clause("previous-epoch-is-previous-observed-start")
				gp, err := ks.GetPreviousEpochStartForBlock(ctx, b)
				if err != nil || gp != prev {
					m.fail("%s: GetPreviousEpochStartForBlock(%d) = %d (err %v), but the previous observed epoch start (in memory) is %d", where, b, gp, err, prev)
				}
			}
		}
	}
}

// digest of everything the block->epoch mapping may depend on (used only to skip re-checking
// blocks whose answers cannot have changed; never as an expected value).
func (m *c16Model) stateKey() string {
	ks := m.c.TS.Keepers.Epochstorage
	return fmt.Sprint(ks.GetAllFixatedParams(m.c.TS.Ctx), ks.GetEarliestEpochStart(m.c.TS.Ctx))
}

func (m *c16Model) sweepIfNeeded(where string, force bool) {
	h := m.c.Height()
	key := m.stateKey()
	from := m.earliest
	if !force && key == m.lastKey && m.lastTo+1 >= from {
		from = m.lastTo + 1
	} else {
		m.fullSweeps++
		// count parameter switches visible inside the memory window
		sw := 0
		for i := 1; i < len(m.E); i++ {
			if m.E[i] > m.earliest && m.inForce[m.E[i]] != m.inForce[m.E[i-1]] {
				sw++
			}
		}
		if sw > m.maxSwitchInWindow {
			m.maxSwitchInWindow = sw
		}
	}
	if from <= h {
		m.sweep(from, h, where)
	}
	m.lastKey, m.lastTo = key, h
}

// onBlock runs after every BeginBlock.
func (m *c16Model) onBlock() {
	ks := m.c.TS.Keepers.Epochstorage
	ctx := m.c.TS.Ctx
	h := m.c.Height()
	ran := ks.GetEpochStart(ctx) == h
	last := m.E[len(m.E)-1]
	want := last + m.inForce[last].EB
	m.col.Clause("epoch-length-is-the-length-in-force-at-its-start")
	if ran && h != want {
		m.fail("epoch-start processing ran at height %d, but the running epoch started at %d with EpochBlocks=%d in force (next start expected at %d)", h, last, m.inForce[last].EB, want)
	}
	if !ran && h == want {
		m.fail("epoch-start processing did not run at height %d although the running epoch started at %d with EpochBlocks=%d in force", h, last, m.inForce[last].EB)
	}
	if ran {
		m.E = append(m.E, h)
		m.inForce[h] = m.cur
	}
	m.col.Clause("reported-epoch-start-iff-processing-ran")
	if is := ks.IsEpochStart(ctx); is != ran {
		m.fail("IsEpochStart at the current height %d = %v, but epoch-start processing ran = %v", h, is, ran)
	}

	// the keeper's own notion of "the next epoch from here"
	m.col.Clause("current-next-epoch-is-the-next-start")
	lastNow := m.E[len(m.E)-1]
	wantNext := lastNow + m.inForce[lastNow].EB
	// (skipped while the running epoch is the only one in memory: there the keeper answers from the
	// raw parameter; that happens in the genesis epoch, where no real proposal can land, and after
	// the memory collapse of the known finding)
	if ks.GetEarliestEpochStart(ctx) != lastNow {
		if got := ks.GetCurrentNextEpoch(ctx); got <= h || got != wantNext {
			m.fail("GetCurrentNextEpoch at height %d = %d, but the running epoch started at %d with EpochBlocks=%d in force (next start %d); raw EpochBlocks now %d", h, got, lastNow, m.inForce[lastNow].EB, wantNext, m.cur.EB)
		}
	}

	// earliest epoch start
	ne := ks.GetEarliestEpochStart(ctx)
	m.col.Clause("earliest-epoch-monotone")
	if ne < m.earliest {
		m.fail("earliest epoch start moved backwards: %d -> %d", m.earliest, ne)
	}
	if ne > h {
		m.fail("earliest epoch start %d is later than the current height %d", ne, h)
	}
	if ne != m.earliest {
		m.col.Clause("earliest-epoch-is-an-observed-epoch-start")
		if !m.isObserved(ne) {
			m.fail("earliest epoch start moved %d -> %d, which is not a block at which epoch-start processing ran", m.earliest, ne)
		}
		// every epoch in [old earliest, new earliest) was dropped now, at height h
		minWin := uint64(0)
		first := true
		for _, e := range m.E {
			if e < m.earliest || e >= ne {
				continue
			}
			win := m.inForce[e].bts()
			if first || win < minWin {
				minWin, first = win, false
			}
			m.col.Clause("dropped-epoch-not-younger-than-its-window")
			m.dropsChecked++
			age := h - e
			if !m.strict {
				// known finding: the code applies the window of the oldest epoch in memory to all
				// epochs dropped in the same step. Behind it, still require the smallest window
				// among the epochs dropped so far in this step.
				if age < minWin {
					m.fail("epoch %d dropped from memory at height %d (age %d) although every window in force at the epochs dropped with it is >= %d blocks", e, h, age, minWin)
				}
				if age < win {
					m.col.Exclude(c16Finding)
				}
				continue
			}
			if age < win {
				m.fail("epoch %d dropped from memory at height %d (age %d blocks) although the blocks-to-save window in force at that epoch is %d (EpochBlocks=%d x EpochsToSave=%d); earliest moved %d -> %d",
					e, h, age, win, m.inForce[e].EB, m.inForce[e].ETS, m.earliest, ne)
			}
		}
		oldWin, newWin := m.inForce[m.epochOf(m.earliest)].bts(), m.inForce[ne].bts()
		if newWin < oldWin {
			m.windowShrunk = true
		}
		if newWin > oldWin {
			m.windowGrown = true
		}
		m.earliest = ne
	}

	if ran {
		m.sweepIfNeeded(fmt.Sprintf("after epoch-start processing at %d", h), false)
	} else {
		// cheap per-block check of the new block only
		m.sweep(h, h, fmt.Sprintf("at new block %d", h))
		if m.lastTo+1 == h {
			m.lastTo = h // a change of the fixation lists is noticed by the key comparison of the next sweep
		}
	}
}

func c16Value(v uint64) string { return fmt.Sprintf("\"%d\"", v) }

// propose sends one parameter-change proposal (1 or 2 changes) as a transaction.
func (m *c16Model) propose(what string, eb, ets *uint64, foreign bool) bool {
	ts := m.c.TS
	var changes []paramproposal.ParamChange
	if eb != nil {
		changes = append(changes, paramproposal.ParamChange{Subspace: epochstoragetypes.ModuleName, Key: string(epochstoragetypes.KeyEpochBlocks), Value: c16Value(*eb)})
	}
	if ets != nil {
		changes = append(changes, paramproposal.ParamChange{Subspace: epochstoragetypes.ModuleName, Key: string(epochstoragetypes.KeyEpochsToSave), Value: c16Value(*ets)})
	}
	if foreign {
		// a change of another module's parameter also stamps LatestParamChange
		changes = append(changes, paramproposal.ParamChange{Subspace: pairingtypes.ModuleName, Key: string(pairingtypes.KeyRecommendedEpochNumToCollectPayment), Value: c16Value(3)})
	}
	err := m.c.Tx(what, nil, func() error {
		return spec.HandleParameterChangeProposal(ts.Ctx, ts.Keepers.ParamsKeeper, &paramproposal.ParameterChangeProposal{Title: "verif", Description: "verif", Changes: changes})
	})
	if err != nil {
		return false
	}
	h := m.c.Height()
	m.changes = append(m.changes, c16Change{Block: h, What: what, OnGrid: m.isObserved(h)})
	if eb != nil {
		m.cur.EB = *eb
	}
	if ets != nil {
		m.cur.ETS = *ets
	}
	return true
}

func TestC16(t *testing.T) {
	col := ev.For("C16")
	col.SetRule("a fresh chain (genesis EpochBlocks=20, EpochsToSave=10, 1 spec, 1-3 staked providers) runs 300-3000 blocks (quick: 300-1500) in 6-40 segments; each segment advances by a drawn pattern (few blocks, to the last block of the epoch, to the epoch start, past it by an offset, several epochs, beyond the whole memory window) and then sends a parameter-change proposal as a transaction (EpochBlocks in 2..60, EpochsToSave in 1..12, both in one proposal, a no-op value, a foreign module's parameter; sometimes two proposals in the same block or epoch); after every block the hook observes whether epoch-start processing ran and checks the new block, after every epoch start and every proposal all blocks in [earliest, now] are checked (re-check of unchanged answers is skipped when fixation lists and earliest are byte-identical); non-trivial = at least 2 parameter switches visible inside one memory window AND at least one accepted off-grid change AND at least one epoch dropped from memory; distinct = distinct action histories")
	col.Assume("EpochBlocks >= 2 and EpochsToSave >= 1 (DESIGN Appendix B: 1 and 0 disable chain memory and have no caller-side contract)",
		"'epoch-start processing ran at h' is observed as EpochDetails.StartBlock == h right after BeginBlock of h; height 0 is the genesis epoch",
		"'parameters in force at an epoch' are the param-store values (tracked from accepted proposals) when that epoch start was processed",
		"blocks are checked while they are in [GetEarliestEpochStart, current height]",
		"a Begin/EndBlock panic (chain halt) ends the case: the blocks still in memory are checked on the halted state, the halt itself is left to C37")
	rapid.Check(t, func(rt *rapid.T) { propC16(rt, t, col) })
}

func propC16(rt *rapid.T, t *testing.T, col *ev.Collector) {
	seed := int64(rapid.IntRange(1, 1<<30).Draw(rt, "chainSeed"))
	c := chain.New(t, seed)
	ts := c.TS
	ks := ts.Keepers.Epochstorage
	m := &c16Model{fatalf: rt.Fatalf, c: c, col: col, strict: !ev.Excluded(c16Finding), E: []uint64{0}, inForce: map[uint64]epParams{}}
	m.cur = epParams{EB: ks.EpochBlocksRaw(ts.Ctx), ETS: ks.EpochsToSaveRaw(ts.Ctx)}
	m.inForce[0] = m.cur
	if ks.GetEpochStart(ts.Ctx) != 0 || ks.GetEarliestEpochStart(ts.Ctx) != 0 || m.cur.EB < 2 || m.cur.ETS < 1 {
		t.Fatalf("%s", ev.HarnessError("unexpected genesis epoch details/params: %+v", m.cur))
	}
	c.BlockHook = m.onBlock
	c.AdvanceBlock(0)

	// a little stake so that epoch snapshots and their removal have something to do
	w := &chain.World{C: c, Keys: map[string]sigs.Account{}, NextSess: 1}
	sp := chain.MakeSpec("SP0", false, 1000, c.Denom())
	ts.AddSpec(sp.Index, sp)
	w.Specs = append(w.Specs, sp)
	val, _ := ts.AddAccount(common.VALIDATOR, 0, 10_000_000_000)
	ts.TxCreateValidator(val, math.NewInt(1_000_000_000))
	w.Validators = append(w.Validators, val)
	nProv := rapid.IntRange(1, 3).Draw(rt, "nProviders")
	for i := 0; i < nProv; i++ {
		acc := w.NewAccount(10_000_000_000)
		self := acc
		acc.Vault = &self
		p := &chain.Prov{Name: fmt.Sprintf("prov%d", i), Acc: acc}
		w.Providers = append(w.Providers, p)
		eps := []epochstoragetypes.Endpoint{{IPPORT: "10.0.0.1:443", Geolocation: 1, ApiInterfaces: []string{chain.IfJSON}}}
		if err := w.StakeProvider(p, sp.Index, 5000, 1, eps, 50, val); err != nil {
			t.Fatalf("%s", ev.HarnessError("stake failed: %v", err))
		}
	}

	maxBlocks := 1500
	if thorough() {
		maxBlocks = 3000
	}
	target := uint64(rapid.IntRange(300, maxBlocks).Draw(rt, "targetBlocks"))
	nSeg := rapid.IntRange(6, 40).Draw(rt, "segments")
	ebChoices := []uint64{2, 2, 3, 5, 7, 20, 30, 59, 60}
	etsChoices := []uint64{1, 1, 2, 3, 10, 12}
	drawEB := func(label string) uint64 {
		if rapid.Bool().Draw(rt, label+"_pick") {
			return rapid.SampledFrom(ebChoices).Draw(rt, label)
		}
		return uint64(rapid.IntRange(2, 60).Draw(rt, label))
	}
	drawETS := func(label string) uint64 {
		if rapid.Bool().Draw(rt, label+"_pick") {
			return rapid.SampledFrom(etsChoices).Draw(rt, label)
		}
		return uint64(rapid.IntRange(1, 12).Draw(rt, label))
	}
	advance := func(n uint64) bool {
		for i := uint64(0); i < n && c.Height() < target; i++ {
			if !c.AdvanceBlock(0) {
				return false
			}
		}
		return c.Halt == ""
	}
	toNextStart := func() uint64 { // blocks until the next epoch start according to the model
		last := m.E[len(m.E)-1]
		return last + m.inForce[last].EB - c.Height()
	}
	offGrid, onGrid, noop, foreignN, sameEpoch2 := 0, 0, 0, 0, 0
	lastChangeEpoch := uint64(1 << 62)

	for seg := 0; seg < nSeg && c.Height() < target && c.Halt == ""; seg++ {
		var n uint64
		pat := rapid.SampledFrom([]string{"few", "few", "lastOfEpoch", "epochStart", "epochStart", "pastStart", "epochs", "epochs", "window", "none"}).Draw(rt, "advance")
		switch pat {
		case "few":
			n = uint64(rapid.IntRange(1, 6).Draw(rt, "blocks"))
		case "lastOfEpoch":
			n = toNextStart() - 1
		case "epochStart":
			n = toNextStart()
		case "pastStart":
			n = toNextStart() + uint64(rapid.IntRange(1, int(m.cur.EB)).Draw(rt, "offset"))
		case "epochs":
			n = toNextStart() + m.cur.EB*uint64(rapid.IntRange(0, int(m.cur.ETS)+1).Draw(rt, "epochs")) + uint64(rapid.IntRange(0, int(m.cur.EB)-1).Draw(rt, "offset"))
		case "window":
			n = m.inForce[m.epochOf(m.earliest)].bts() + uint64(rapid.IntRange(0, 130).Draw(rt, "extra"))
		}
		c.Logf("advance(%s,%d)", pat, n)
		if !advance(n) {
			break
		}
		nProps := rapid.SampledFrom([]int{1, 1, 1, 2}).Draw(rt, "proposals")
		for k := 0; k < nProps; k++ {
			kind := rapid.SampledFrom([]string{"EB", "EB", "EB", "ETS", "ETS", "both", "both", "noop", "foreign"}).Draw(rt, "kind")
			before := m.cur
			var ok bool
			switch kind {
			case "EB":
				v := drawEB("eb")
				ok = m.propose(fmt.Sprintf("EpochBlocks=%d", v), &v, nil, false)
			case "ETS":
				v := drawETS("ets")
				ok = m.propose(fmt.Sprintf("EpochsToSave=%d", v), nil, &v, false)
			case "both":
				v1, v2 := drawEB("eb"), drawETS("ets")
				ok = m.propose(fmt.Sprintf("EpochBlocks=%d,EpochsToSave=%d", v1, v2), &v1, &v2, false)
			case "noop":
				v := m.cur.ETS
				ok = m.propose(fmt.Sprintf("EpochsToSave=%d(noop)", v), nil, &v, false)
			case "foreign":
				ok = m.propose("pairing.RecommendedEpochNumToCollectPayment=3", nil, nil, true)
			}
			if !ok {
				col.Class("proposal-rejected")
				continue
			}
			switch {
			case kind == "foreign":
				foreignN++
			case m.cur == before:
				noop++
			case m.isObserved(c.Height()):
				onGrid++
			default:
				offGrid++
			}
			if m.cur != before {
				ep := m.E[len(m.E)-1]
				if ep == lastChangeEpoch {
					sameEpoch2++
				}
				lastChangeEpoch = ep
			}
			m.sweepIfNeeded("after proposal "+kind, true)
		}
	}
	// run out the remaining blocks so that late changes take effect and memory rolls over
	c.Logf("advance(rest)")
	advance(target - c.Height())
	halted := c.Halt != ""
	if halted {
		// the blocks that are still in memory must still map consistently on the halted state
		m.earliest = ks.GetEarliestEpochStart(ts.Ctx)
		if m.earliest <= c.Height() && m.isObserved(m.earliest) {
			m.sweep(m.earliest, c.Height(), "on the halted chain")
		}
	} else {
		m.sweepIfNeeded("at the end", true)
	}

	nt := m.maxSwitchInWindow >= 2 && offGrid >= 1 && m.dropsChecked >= 1 && !halted
	var classes []string
	add := func(cond bool, name string) {
		if cond {
			classes = append(classes, name)
		}
	}
	add(offGrid > 0, "off-grid-change")
	add(onGrid > 0, "on-grid-change(at epoch start block)")
	add(noop > 0, "noop-change")
	add(foreignN > 0, "foreign-module-change")
	add(sameEpoch2 > 0, "two-effective-changes-in-one-epoch")
	add(m.maxSwitchInWindow >= 2, "2+-switches-in-memory-window")
	add(m.maxSwitchInWindow >= 4, "4+-switches-in-memory-window")
	add(m.windowShrunk, "memory-window-shrunk")
	add(m.windowGrown, "memory-window-grown")
	add(m.dropsChecked > 0, "epochs-dropped")
	add(halted, "halted(left to C37)")
	add(len(m.E) >= 100, "100+-epochs")
	col.AddExtra("blocks", c.Blocks)
	col.AddExtra("epoch_starts_observed", len(m.E))
	col.AddExtra("full_sweeps", m.fullSweeps)
	col.AddExtra("proposals_accepted", len(m.changes))
	col.Case(nt, fmt.Sprint(c.Hist), classes...)
	if nt {
		var ch []string
		for _, x := range m.changes {
			ch = append(ch, fmt.Sprintf("%s@%d", x.What, x.Block))
		}
		col.Sample(map[string]any{"blocks": c.Blocks, "changes": ch, "epochs": len(m.E), "max_switches_in_window": m.maxSwitchInWindow, "drops_checked": m.dropsChecked})
	}
}

// TestC16Known_earliestUsesOldestWindow is the deterministic witness of the known finding
// c16-earliest-uses-window-of-oldest-epoch: UpdateEarliestEpochstart computes the memory limit
// once, from the window of the OLDEST epoch in memory, and drops every epoch older than that
// limit, also epochs whose own (larger) window has not elapsed. History: EpochsToSave stays 10;
// EpochBlocks 20 -> 2 (proposal at block 21, in force from epoch 40) and 2 -> 20 (proposal at
// block 40, in force from epoch 42). At height 242 the oldest epoch in memory is 40 (window
// 2 x 10 = 20 blocks), so every epoch before 222 is dropped: epoch 202 at the age of 40 blocks
// although its window is 20 x 10 = 200 blocks; one past epoch remains instead of ten.
func TestC16Known_earliestUsesOldestWindow(t *testing.T) {
	c := chain.New(t, 7)
	ts := c.TS
	ks := ts.Keepers.Epochstorage
	m := &c16Model{fatalf: t.Fatalf, c: c, col: ev.For("C16-witness"), strict: true, E: []uint64{0}, inForce: map[uint64]epParams{}}
	m.cur = epParams{EB: ks.EpochBlocksRaw(ts.Ctx), ETS: ks.EpochsToSaveRaw(ts.Ctx)}
	m.inForce[0] = m.cur
	c.BlockHook = m.onBlock
	halted := false
	adv := func(to uint64) {
		for !halted && c.Height() < to {
			if !c.AdvanceBlock(0) {
				halted = true // not this finding; the search (run strict) reports whatever is wrong
				return
			}
		}
	}
	two, twenty := uint64(2), uint64(20)
	adv(21)
	if halted || !m.propose("EpochBlocks=2", &two, nil, false) {
		return
	}
	adv(40)
	if halted || !m.propose("EpochBlocks=20", &twenty, nil, false) {
		return
	}
	adv(400)
}
