package cepoch

import (
	"fmt"
	"sort"
	"strings"
	"testing"
	"time"

	epochstoragetypes "github.com/lavanet/lava/v5/x/epochstorage/types"
	pairingtypes "github.com/lavanet/lava/v5/x/pairing/types"
	"pgregory.net/rapid"

	"verifharness/internal/chain"
	"verifharness/internal/ev"
)

// C19: unresponsive-provider jailing is justified and bounded.
//
// The model keeps its own ledgers, fed from what every accepted relay payment changed in the
// per-epoch records (complainer CU and serviced CU per provider): total complaint CU ever filed
// per (provider, epoch), the part of it that already justified a jail, and serviced CU. At every
// epoch start the stake entries before and after BeginBlock are compared; every automatic jail
// (Jails / JailEndTime changed, or the entry became frozen) must be justified by the ledgers.

const (
	c19Finding      = "c19-serviced-cu-counted-only-in-complaint-epochs"
	c19Threshold    = 4         // statement: complaints must exceed four times the serviced CU
	c19ComplaintEps = 2         // documented: epochs to sum complainer CU
	c19ServiceEps   = 8         // documented: epochs to sum serviced CU
	c19SoftJailSecs = 3600      // documented: 1 hour
	c19HardJailSecs = 24 * 3600 // documented: 24 hours
	c19FrozenBlock  = uint64(1<<63 - 1)
)

type c19Key struct {
	prov  string
	epoch uint64
}

type c19Jail struct {
	time   int64
	height uint64
	hard   bool
}

type c19Model struct {
	fatalf func(format string, args ...any)
	w      *chain.World
	col    *ev.Collector
	chain  string
	eb     uint64
	strict bool

	complaints map[c19Key]uint64 // total complaint CU ever recorded
	consumed   map[c19Key]uint64 // part that already justified a jail
	lastSeen   map[c19Key]uint64 // complaint record values at the last observation
	serviced   map[c19Key]uint64 // serviced CU records at the last observation
	entries    map[string]epochstoragetypes.StakeEntry
	jails      map[string][]c19Jail

	jailEvents, hardJails, nearThreshold, guardLimited, unjailedCandidates, excludedHits int
	minProviders                                                                         uint64
}

func (m *c19Model) fail(format string, args ...any) {
	m.fatalf("%s", ev.Violation("C19", "%s\n height=%d time=%s\n history (tail):\n  %s", fmt.Sprintf(format, args...), m.w.C.Height(),
		m.w.C.TS.Ctx.BlockTime().UTC().Format(time.RFC3339), histString(m.w.C, 60)))
}

func (m *c19Model) name(addr string) string {
	if p := m.w.ProvByAddr(addr); p != nil {
		return p.Name
	}
	return short(addr)
}

// observe reads the per-epoch CU records and the stake entries. afterTx: increases of complaint
// records are new complaints (credited to the ledger).
func (m *c19Model) observe(afterTx bool) {
	ts := m.w.C.TS
	cur := map[c19Key]uint64{}
	for _, r := range ts.Keepers.Pairing.GetAllProviderEpochComplainerCuStore(ts.Ctx) {
		if r.ChainId == m.chain {
			cur[c19Key{r.Provider, r.Epoch}] = r.ProviderEpochComplainerCu.ComplainersCu
		}
	}
	if afterTx {
		for k, v := range cur {
			if v > m.lastSeen[k] {
				m.complaints[k] += v - m.lastSeen[k]
			}
		}
	}
	m.lastSeen = cur
	m.serviced = map[c19Key]uint64{}
	for _, r := range ts.Keepers.Pairing.GetAllProviderEpochCuStore(ts.Ctx) {
		if r.ChainId == m.chain {
			m.serviced[c19Key{r.Provider, r.Epoch}] = r.ProviderEpochCu.ServicedCu
		}
	}
	m.entries = map[string]epochstoragetypes.StakeEntry{}
	for _, e := range ts.Keepers.Epochstorage.GetAllStakeEntriesCurrent(ts.Ctx) {
		if e.Chain == m.chain {
			m.entries[e.Address] = e
		}
	}
}

// onEpochStart compares the stake entries before (m.entries) and after BeginBlock.
func (m *c19Model) onEpochStart() {
	ts := m.w.C.TS
	h := m.w.C.Height()
	now := ts.Ctx.BlockTime().UTC().Unix()
	before := m.entries
	serviced := m.serviced
	after := map[string]epochstoragetypes.StakeEntry{}
	for _, e := range ts.Keepers.Epochstorage.GetAllStakeEntriesCurrent(ts.Ctx) {
		if e.Chain == m.chain {
			after[e.Address] = e
		}
	}
	recommended := ts.Keepers.Pairing.RecommendedEpochNumToCollectPayment(ts.Ctx)
	// windows (constant epoch length in this world): the newest checked epoch is `recommended` epochs ago
	var cw, sw []uint64
	okHistory := h >= (recommended+c19ServiceEps)*m.eb
	if okHistory {
		p := h - recommended*m.eb
		for i := uint64(0); i < c19ServiceEps; i++ {
			if i < c19ComplaintEps {
				cw = append(cw, p-i*m.eb)
			}
			sw = append(sw, p-i*m.eb)
		}
	}
	minHistoryBlock := uint64(0)
	if okHistory {
		minHistoryBlock = h - (recommended+c19ServiceEps)*m.eb
	}
	nonFrozenBefore := 0
	for _, e := range before {
		if e.StakeAppliedBlock != c19FrozenBlock {
			nonFrozenBefore++
		}
	}
	addrs := make([]string, 0, len(after))
	for a := range after {
		addrs = append(addrs, a)
	}
	sort.Strings(addrs)
	jailedNow := 0
	for _, a := range addrs {
		b, had := before[a]
		e := after[a]
		if !had {
			continue
		}
		var avail, serv, servOnComplaintEpochs uint64
		for _, ep := range cw {
			k := c19Key{a, ep}
			avail += m.complaints[k] - m.consumed[k]
		}
		for _, ep := range sw {
			serv += serviced[c19Key{a, ep}]
			if _, has := m.lastSeen[c19Key{a, ep}]; has {
				servOnComplaintEpochs += serviced[c19Key{a, ep}]
			}
		}
		becameFrozen := e.StakeAppliedBlock == c19FrozenBlock && b.StakeAppliedBlock != c19FrozenBlock
		event := e.Jails != b.Jails || e.JailEndTime != b.JailEndTime || becameFrozen
		if !event {
			if okHistory && avail > c19Threshold*serv && b.StakeAppliedBlock != c19FrozenBlock {
				m.unjailedCandidates++
			}
			continue
		}
		m.jailEvents++
		jailedNow++
		name := m.name(a)
		desc := fmt.Sprintf("provider %s at epoch start %d: entry before {jails=%d jailEnd=%d applied=%d} after {jails=%d jailEnd=%d applied=%d}; complaint epochs %v: unconsumed complaint CU %d; service epochs %v: serviced CU %d (of which %d in epochs that have a complaint record); non-frozen providers before %d, min plan max-providers %d",
			name, h, b.Jails, b.JailEndTime, b.StakeAppliedBlock, e.Jails, e.JailEndTime, e.StakeAppliedBlock, cw, avail, sw, serv, servOnComplaintEpochs, nonFrozenBefore, m.minProviders)

		m.col.Clause("jail-only-with-enough-history")
		if !okHistory {
			m.fail("jailed although the chain has less history than the checked window: %s", desc)
		}
		if b.StakeAppliedBlock == c19FrozenBlock {
			m.fail("a frozen provider was jailed: %s", desc)
		}
		if b.StakeAppliedBlock > minHistoryBlock && b.Jails == 0 {
			m.fail("jailed although its stake history is too short (stake applied at %d, window starts at %d, no earlier jail): %s", b.StakeAppliedBlock, minHistoryBlock, desc)
		}
		m.col.Clause("jail-only-if-complaints-exceed-4x-serviced")
		if !(avail > c19Threshold*serv) {
			if !m.strict && avail > c19Threshold*servOnComplaintEpochs {
				// known finding: serviced CU of epochs without a complaint record is ignored
				m.col.Exclude(c19Finding)
				m.excludedHits++
			} else if m.complaintsIncludingConsumed(a, cw) > c19Threshold*serv && avail <= c19Threshold*serv {
				m.fail("punished twice for the same complaints (complaint CU %d of the window already justified an earlier jail): %s", m.complaintsIncludingConsumed(a, cw)-avail, desc)
			} else {
				m.fail("jailed although complaints (%d) do not exceed %d x serviced CU (%d) in the checked window: %s", avail, c19Threshold, serv, desc)
			}
		}
		d := int64(avail) - int64(c19Threshold*serv)
		if d >= -2 && d <= 2 || (serv > 0 && avail*100 >= c19Threshold*serv*90 && avail*100 <= c19Threshold*serv*110) {
			m.nearThreshold++
		}
		for _, ep := range cw {
			k := c19Key{a, ep}
			m.consumed[k] = m.complaints[k]
		}

		// escalation and bounds
		hist := m.jails[a]
		var gapLast int64 = 1 << 62
		if len(hist) > 0 {
			gapLast = now - hist[len(hist)-1].time
		}
		hard := e.StakeAppliedBlock == c19FrozenBlock
		m.col.Clause("jail-is-bounded(1h-soft-or-24h-frozen)")
		switch {
		case hard && e.JailEndTime != now+c19HardJailSecs:
			m.fail("hard jail with end time %d, expected now+24h=%d: %s", e.JailEndTime, now+c19HardJailSecs, desc)
		case !hard && e.JailEndTime != now+c19SoftJailSecs:
			m.fail("soft jail with end time %d, expected now+1h=%d: %s", e.JailEndTime, now+c19SoftJailSecs, desc)
		case !hard && (e.StakeAppliedBlock <= h || e.StakeAppliedBlock > h+1000*m.eb):
			m.fail("soft jail does not suspend the provider for a bounded number of blocks (stake applied block %d at height %d): %s", e.StakeAppliedBlock, h, desc)
		}
		m.col.Clause("third-jail-within-a-day-is-a-frozen-hard-jail")
		if len(hist) >= 2 && !hist[len(hist)-1].hard && !hist[len(hist)-2].hard && now-hist[len(hist)-2].time < 24*3600 && !hard {
			m.fail("third jail within 24 hours (previous jails at %d and %d, now %d) is not a frozen hard jail: %s", hist[len(hist)-2].time, hist[len(hist)-1].time, now, desc)
		}
		m.col.Clause("jail-after-a-quiet-day-starts-over")
		if gapLast >= 25*3600+c19SoftJailSecs && (hard || e.Jails != 1) {
			m.fail("jail more than a day after the previous one (gap %ds) did not start over (jails=%d frozen=%v): %s", gapLast, e.Jails, hard, desc)
		}
		m.col.Clause("hard-jail-only-after-two-recent-jails")
		if hard && (len(hist) < 2 || gapLast >= 49*3600) {
			m.fail("frozen hard jail without two recent earlier jails (earlier jails: %d, last %ds ago): %s", len(hist), gapLast, desc)
		}
		if !hard && (e.Jails < 1 || e.Jails > 2) {
			m.fail("soft jail with jail counter %d (expected 1 or 2): %s", e.Jails, desc)
		}
		if len(hist) == 0 && (hard || e.Jails != 1) {
			m.fail("first jail of a provider is not a soft jail with jails=1: %s", desc)
		}
		if hard {
			m.hardJails++
		}
		m.jails[a] = append(m.jails[a], c19Jail{now, h, hard})
	}
	if jailedNow > 0 {
		nonFrozenAfter := 0
		for _, e := range after {
			if e.StakeAppliedBlock != c19FrozenBlock {
				nonFrozenAfter++
			}
		}
		m.col.Clause("jailing-keeps-min-providers-non-frozen")
		if uint64(nonFrozenAfter) < m.minProviders {
			m.fail("automatic jailing left %d non-frozen providers on %s, fewer than the smallest plan's max-providers-to-pair %d (before: %d, jailed now: %d)", nonFrozenAfter, m.chain, m.minProviders, nonFrozenBefore, jailedNow)
		}
		m.col.Clause("jailing-keeps-min-providers-unjailed-in-this-step")
		if uint64(nonFrozenBefore-jailedNow) < m.minProviders {
			m.fail("automatic jailing at epoch start %d jailed %d of %d non-frozen providers on %s, leaving fewer than the smallest plan's max-providers-to-pair %d", h, jailedNow, nonFrozenBefore, m.chain, m.minProviders)
		}
		if uint64(nonFrozenBefore-jailedNow) == m.minProviders {
			m.guardLimited++
		}
	}
}

func (m *c19Model) complaintsIncludingConsumed(a string, cw []uint64) uint64 {
	var s uint64
	for _, ep := range cw {
		s += m.complaints[c19Key{a, ep}]
	}
	return s
}

func newC19Model(w *chain.World, col *ev.Collector, fatalf func(string, ...any), strict bool) *c19Model {
	ts := w.C.TS
	m := &c19Model{fatalf: fatalf, w: w, col: col, chain: w.Specs[0].Index, strict: strict,
		complaints: map[c19Key]uint64{}, consumed: map[c19Key]uint64{}, lastSeen: map[c19Key]uint64{}, jails: map[string][]c19Jail{}}
	m.eb = ts.Keepers.Epochstorage.EpochBlocksRaw(ts.Ctx)
	m.minProviders = ^uint64(0)
	for _, p := range w.Plans {
		if p.PlanPolicy.MaxProvidersToPair < m.minProviders {
			m.minProviders = p.PlanPolicy.MaxProvidersToPair
		}
	}
	m.observe(false)
	w.C.BlockHook = func() {
		if ts.Keepers.Epochstorage.GetEpochStart(ts.Ctx) == w.C.Height() {
			m.onEpochStart()
		}
		m.observe(false)
	}
	return m
}

// relay sends one relay payment served by prov for cons in the current epoch, reporting the
// given providers as unresponsive.
func (m *c19Model) relay(cons *chain.Cons, prov *chain.Prov, cu uint64, unresp []*chain.Prov) error {
	w := m.w
	rs := chain.RelaySpec{Cons: cons, Signer: cons.Acc, Prov: prov, Chain: m.chain, Epoch: int64(w.C.EpochStart()), Session: w.NextSess, CuSum: cu, RelayNum: 1}
	w.NextSess++
	for _, u := range unresp {
		rs.Unresp = append(rs.Unresp, &pairingtypes.ReportedProvider{Address: u.Addr(), Disconnections: 1, Errors: 2, TimestampS: w.C.TS.Ctx.BlockTime().Unix()})
	}
	_, err := w.SendRelays(prov, []chain.RelaySpec{rs})
	m.observe(true)
	return err
}

func TestC19(t *testing.T) {
	col := ev.For("C19")
	col.SetRule("a generated world (1 chain, 3-8 providers, 1-2 plans with max-providers-to-pair 2-5, 1-3 consumers) runs 18-40 epochs with block times of 1 or 5 minutes and occasional jumps of 2-30 hours; every provider has a drawn badness (probability to be reported by consumers that are paired with it) and service level (probability to serve relays, CU 1-1000); every epoch 0-8 relay payments are sent (some claim earlier epochs), some providers freeze/unfreeze themselves; at every epoch start the stake entries before and after BeginBlock are compared and every automatic jail is checked against the model's ledgers; non-trivial = at least one automatic jail happened and (a jail decision within 10% / 2 CU of the threshold, or the min-providers guard was exactly reached, or a hard jail); distinct = distinct action histories")
	col.Assume("constant epoch length (20 blocks) in this world; one chain",
		"complaint and serviced CU are taken from what each accepted relay payment added to the per-epoch records (ProviderEpochComplainerCu / ProviderEpochCu)",
		"windows as documented: the newest checked epoch is RecommendedEpochNumToCollectPayment epochs before the current one; 2 complaint epochs, 8 service epochs; history long enough = stake applied at or before the start of the 8-epoch window, or the provider was jailed before",
		"escalation clause is one-sided: a third jail less than 24 h after the first of two preceding soft jails must be frozen/hard; a jail more than 26 h after the previous one must start over",
		"a chain halt ends the case (C37)")
	rapid.Check(t, func(rt *rapid.T) { propC19(rt, t, col) })
}

func propC19(rt *rapid.T, t *testing.T, col *ev.Collector) {
	w := chain.NewWorld(rt, t, chain.Cfg{Specs: [2]int{1, 1}, Plans: [2]int{1, 2}, Validators: [2]int{1, 1}, Providers: [2]int{3, 8}, Consumers: [2]int{1, 3}, Delegators: [2]int{0, 0}, MaxCU: 1_000_000})
	c := w.C
	if c.Halt != "" {
		rt.Skip("halted during setup")
	}
	m := newC19Model(w, col, rt.Fatalf, !ev.Excluded(c19Finding))
	blockTime := time.Duration(rapid.SampledFrom([]int{60, 300}).Draw(rt, "blockSeconds")) * time.Second
	nEpochs := rapid.IntRange(18, 40).Draw(rt, "epochs")
	bad := make([]int, len(w.Providers))   // 0..4: probability (x/4) to be reported
	serve := make([]int, len(w.Providers)) // 0..4: probability weight to serve
	for i := range w.Providers {
		bad[i] = rapid.SampledFrom([]int{0, 0, 1, 2, 4, 4}).Draw(rt, fmt.Sprintf("bad%d", i))
		serve[i] = rapid.SampledFrom([]int{0, 1, 2, 4}).Draw(rt, fmt.Sprintf("serve%d", i))
	}
	relaysOK, relaysFail, freezes, jumps := 0, 0, 0, 0
	advanceEpoch := func() bool {
		next := c.EpochStart() + m.eb
		for c.Height() < next {
			if !c.AdvanceBlock(blockTime) {
				return false
			}
		}
		return true
	}
	for ep := 0; ep < nEpochs && c.Halt == ""; ep++ {
		nRel := rapid.IntRange(0, 8).Draw(rt, "relays")
		for r := 0; r < nRel; r++ {
			cons := w.LiveConsumers()
			if len(cons) == 0 {
				break
			}
			cn := cons[rapid.IntRange(0, len(cons)-1).Draw(rt, "consumer")]
			paired := w.PairedProviders(m.chain, cn.Addr())
			if len(paired) == 0 {
				continue
			}
			// server: weighted by service level
			var pool []*chain.Prov
			for _, p := range paired {
				for i, wp := range w.Providers {
					if wp == p {
						for k := 0; k < serve[i]; k++ {
							pool = append(pool, p)
						}
					}
				}
			}
			if len(pool) == 0 {
				pool = paired
			}
			prov := pool[rapid.IntRange(0, len(pool)-1).Draw(rt, "server")]
			var unresp []*chain.Prov
			for _, p := range paired {
				if p == prov {
					continue
				}
				for i, wp := range w.Providers {
					if wp == p && rapid.IntRange(1, 4).Draw(rt, "report_"+p.Name) <= bad[i] {
						unresp = append(unresp, p)
					}
				}
			}
			cu := uint64(rapid.SampledFrom([]int{1, 4, 10, 40, 100, 1000}).Draw(rt, "cu"))
			if err := m.relay(cn, prov, cu, unresp); err != nil {
				if strings.Contains(err.Error(), "VERIF-HARNESS-ERROR") {
					t.Fatalf("%s", err)
				}
				relaysFail++
			} else {
				relaysOK++
			}
			if rapid.IntRange(0, 5).Draw(rt, "midBlocks") == 0 {
				c.AdvanceBlocks(rapid.IntRange(1, 3).Draw(rt, "blocks"), blockTime)
			}
		}
		if rapid.IntRange(0, 11).Draw(rt, "freezeAct") == 0 {
			w.ActFreeze(rt)
			freezes++
			m.observe(false)
		}
		if rapid.IntRange(0, 9).Draw(rt, "jump") == 0 {
			hours := rapid.SampledFrom([]int{2, 6, 12, 23, 26, 30}).Draw(rt, "hours")
			c.Logf("jump(%dh)", hours)
			jumps++
			if !c.AdvanceBlock(time.Duration(hours) * time.Hour) {
				break
			}
		}
		c.Logf("advanceEpoch")
		if !advanceEpoch() {
			break
		}
	}
	if c.Halt != "" {
		col.Case(false, fmt.Sprint(c.Hist), "halted(left to C37)")
		return
	}
	nt := m.jailEvents >= 1 && (m.nearThreshold >= 1 || m.guardLimited >= 1 || m.hardJails >= 1)
	var classes []string
	add := func(cond bool, name string) {
		if cond {
			classes = append(classes, name)
		}
	}
	add(m.jailEvents >= 1, "automatic-jail")
	add(m.jailEvents >= 3, "3+-automatic-jails")
	add(m.hardJails >= 1, "hard-jail(frozen)")
	add(m.nearThreshold >= 1, "decision-near-threshold")
	add(m.guardLimited >= 1, "min-providers-guard-reached")
	add(m.unjailedCandidates >= 1, "complaints-above-threshold-but-not-jailed(guard/history)")
	add(m.excludedHits >= 1, "known-finding-class-hit")
	add(jumps >= 1, "hours-jump")
	add(freezes >= 1, "self-freeze/unfreeze")
	add(relaysFail >= 1, "rejected-relay-payment")
	col.AddExtra("jail_events", m.jailEvents)
	col.AddExtra("relay_payments_ok", relaysOK)
	col.Case(nt, fmt.Sprint(c.Hist), classes...)
	if nt {
		col.Sample(map[string]any{"history_tail": c.HistTail(20), "jail_events": m.jailEvents, "hard_jails": m.hardJails, "near_threshold": m.nearThreshold, "guard_limited": m.guardLimited, "providers": len(w.Providers), "min_providers": m.minProviders})
	}
}

// TestC19Known_servicedOnlyInComplaintEpochs: witness of the known finding
// c19-serviced-cu-counted-only-in-complaint-epochs. countCuForUnresponsiveness adds a provider's
// serviced CU only for epochs of the window that also have a complaint record against it (the
// serviced-CU lookup sits inside `if ok` of the complaint lookup). A provider that served
// 1000 CU in epoch S and got 50 CU of complaints in epoch S+1 (50 <= 4 x 1000) is jailed.
func TestC19Known_servicedOnlyInComplaintEpochs(t *testing.T) {
	w, cons := miniWorld(t, 19, []int64{5000, 5000, 5000, 5000}, 3, nil)
	c := w.C
	m := newC19Model(w, ev.For("C19-witness"), t.Fatalf, true)
	for c.Height() < 200 && c.Halt == "" {
		c.AdvanceEpoch()
	}
	served := map[string]bool{}
	for _, p := range w.PairedProviders(m.chain, cons.Addr()) {
		if err := m.relay(cons, p, 1000, nil); err == nil {
			served[p.Addr()] = true
		}
	}
	c.AdvanceEpoch()
	var a, b *chain.Prov
	paired := w.PairedProviders(m.chain, cons.Addr())
	for _, p := range paired {
		if served[p.Addr()] && a == nil {
			a = p
		}
	}
	for _, p := range paired {
		if p != a && b == nil {
			b = p
		}
	}
	if a == nil || b == nil || c.Halt != "" {
		return // scenario cannot be built on this tree; the search runs strict
	}
	if err := m.relay(cons, b, 100, []*chain.Prov{a}); err != nil {
		return
	}
	for i := 0; i < 6 && c.Halt == ""; i++ {
		c.AdvanceEpoch() // the model's epoch-start hook reports the unjustified jail
	}
}
